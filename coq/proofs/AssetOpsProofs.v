(* C22 proofs, part 1: what a successful run of each block of asset.go does to the world
   (relations between the world before and after), and the supply invariant. *)
From Coq Require Import NArith PeanoNat List Bool Lia ZifyN ZifyNat ZifyBool.
From Verif.model Require Import Overflow AssocList AssetOps.
From Verif.proofs Require Import OverflowProofs AssocListProofs.
Import ListNotations.
Open Scope N_scope.

(* ------------------------------------------------------------------ lookups *)
Notation hget := (aget (V:=holding) pair_eqb).
Notation hset := (aset (V:=holding) pair_eqb).
Notation hdel := (adel (V:=holding) pair_eqb).
Notation pget := (aget (V:=aparams) pair_eqb).

Definition hget_hset := aget_aset (V:=holding) pair_eqb pair_eqb_eq.
Definition hget_hdel := aget_adel (V:=holding) pair_eqb pair_eqb_eq.

Lemma pair_eqb_refl k : pair_eqb k k = true.
Proof. apply pair_eqb_eq. reflexivity. Qed.

Lemma pair_eqb_false k k' : pair_eqb k k' = false <-> k <> k'.
Proof.
  split.
  - intros H ->. rewrite pair_eqb_refl in H. discriminate.
  - intros H. destruct (pair_eqb k k') eqn:E; auto. apply pair_eqb_eq in E. contradiction.
Qed.

Lemma M64 : Overflow.M 64 = 2 ^ 64.
Proof. reflexivity. Qed.

(* amounts: absent = 0 *)
Definition amt_in (m : list ((N * N) * holding)) (k : N * N) : N :=
  match hget k m with Some h => h_amt h | None => 0 end.

Lemma amount_of_amt_in w x a : amount_of w x a = amt_in (w_hold w) (x, a).
Proof. reflexivity. Qed.

Definition sup (m : list ((N * N) * holding)) (a : N) : N := asum (amt_of a) m.

Lemma supply_sup w a : supply w a = sup (w_hold w) a.
Proof. reflexivity. Qed.

Lemma sup_hset m x a h a' :
  sup (hset (x, a) h m) a' + (if a =? a' then amt_in m (x, a) else 0)
  = sup m a' + (if a =? a' then h_amt h else 0).
Proof.
  unfold sup. pose proof (asum_aset pair_eqb pair_eqb_eq (amt_of a') (x, a) h m) as H.
  unfold fopt, amt_of, amt_in in *. cbn [snd] in *.
  destruct (hget (x, a) m); destruct (a =? a'); lia.
Qed.

Lemma sup_hdel m x a a' :
  sup (hdel (x, a) m) a' + (if a =? a' then amt_in m (x, a) else 0) = sup m a'.
Proof.
  unfold sup. pose proof (asum_adel pair_eqb pair_eqb_eq (amt_of a') (x, a) m) as H.
  unfold fopt, amt_of, amt_in in *. cbn [snd] in *.
  destruct (hget (x, a) m); destruct (a =? a'); lia.
Qed.

Lemma amt_in_le_sup m x a : amt_in m (x, a) <= sup m a.
Proof.
  unfold amt_in. destruct (hget (x, a) m) as [h|] eqn:E; [|lia].
  pose proof (asum_ge pair_eqb pair_eqb_eq (amt_of a) (x, a) h m E) as H.
  unfold amt_of in H. cbn [snd] in H. rewrite N.eqb_refl in H. exact H.
Qed.

Lemma amt_in_hset m k h k' :
  amt_in (hset k h m) k' = if pair_eqb k' k then h_amt h else amt_in m k'.
Proof. unfold amt_in. rewrite hget_hset. destruct (pair_eqb k' k); reflexivity. Qed.

Lemma amt_in_hdel m k k' : NoDup (map fst m) ->
  amt_in (hdel k m) k' = if pair_eqb k' k then 0 else amt_in m k'.
Proof. intros H. unfold amt_in. rewrite hget_hdel by exact H. destruct (pair_eqb k' k); reflexivity. Qed.

(* ------------------------------------------------------------------ relations *)
Definition frame (w w' : world) : Prop :=
  w_par w' = w_par w /\ w_creator w' = w_creator w /\ w_counter w' = w_counter w.

Lemma frame_refl w : frame w w.
Proof. repeat split. Qed.

Lemma frame_trans w1 w2 w3 : frame w1 w2 -> frame w2 w3 -> frame w1 w3.
Proof. unfold frame. intros (A & B & C) (D & E & F). repeat split; congruence. Qed.

(* all amounts are uint64 *)
Definition hb (m : list ((N * N) * holding)) : Prop :=
  forall k h, hget k m = Some h -> h_amt h < 2 ^ 64.

(* takeOut succeeded *)
Definition tk_rel (x a amt : N) (b : bool) (w w' : world) : Prop :=
  frame w w' /\
  ((amt = 0 /\ w_hold w' = w_hold w) \/
   (amt <> 0 /\ exists h, hget (x, a) (w_hold w) = Some h /\ (h_frozen h = false \/ b = true) /\
      amt <= h_amt h /\ w_hold w' = hset (x, a) (mkH (h_amt h - amt) (h_frozen h)) (w_hold w))).

(* putIn succeeded *)
Definition pi_rel (x a amt : N) (b : bool) (w w' : world) : Prop :=
  frame w w' /\
  ((amt = 0 /\ w_hold w' = w_hold w) \/
   (amt <> 0 /\ exists h, hget (x, a) (w_hold w) = Some h /\ (h_frozen h = false \/ b = true) /\
      h_amt h + amt < 2 ^ 64 /\ w_hold w' = hset (x, a) (mkH (h_amt h + amt) (h_frozen h)) (w_hold w))).

Lemma takeOut_ok x a amt b w w' u :
  hb (w_hold w) -> amt < 2 ^ 64 ->
  takeOut x a amt b w = (w', Ok u) -> tk_rel x a amt b w w'.
Proof.
  intros Hb Hamt H. unfold takeOut in H. destruct (amt =? 0) eqn:E0.
  - apply N.eqb_eq in E0. inversion H; subst. split; [apply frame_refl|]. left. auto.
  - apply N.eqb_neq in E0. unfold bind, getAssetHolding in H. cbn beta iota in H.
    destruct (hget (x, a) (w_hold w)) as [h|] eqn:Eh; [|discriminate].
    destruct (h_frozen h && negb b) eqn:Ef; [discriminate|].
    destruct (osub 64 (h_amt h) amt) as [na ovf] eqn:Eo.
    destruct ovf; [discriminate|].
    unfold putAssetHolding in H. inversion H; subst; clear H.
    pose proof (osub_exact 64 (h_amt h) amt) as Hx. rewrite M64 in Hx.
    specialize (Hx (Hb _ _ Eh) Hamt). rewrite Eo in Hx. cbn [fst snd] in Hx.
    destruct Hx as [_ Hx]. destruct (Hx eq_refl) as [-> Hle].
    split; [repeat split|]. right. split; [exact E0|]. exists h. repeat split; auto.
    destruct (h_frozen h); destruct b; cbn in Ef; auto; discriminate.
Qed.

Lemma putIn_ok x a amt b w w' u :
  hb (w_hold w) -> amt < 2 ^ 64 ->
  putIn x a amt b w = (w', Ok u) -> pi_rel x a amt b w w'.
Proof.
  intros Hb Hamt H. unfold putIn in H. destruct (amt =? 0) eqn:E0.
  - apply N.eqb_eq in E0. inversion H; subst. split; [apply frame_refl|]. left. auto.
  - apply N.eqb_neq in E0. unfold bind, getAssetHolding in H. cbn beta iota in H.
    destruct (hget (x, a) (w_hold w)) as [h|] eqn:Eh; [|discriminate].
    destruct (h_frozen h && negb b) eqn:Ef; [discriminate|].
    destruct (oadd 64 (h_amt h) amt) as [na ovf] eqn:Eo.
    destruct ovf; [discriminate|].
    unfold putAssetHolding in H. inversion H; subst; clear H.
    pose proof (oadd_exact 64 (h_amt h) amt) as Hx. rewrite M64 in Hx.
    specialize (Hx (Hb _ _ Eh) Hamt). rewrite Eo in Hx. cbn [fst snd] in Hx.
    destruct Hx as [Hov Hx]. specialize (Hx eq_refl). subst na.
    assert (h_amt h + amt < 2 ^ 64) as Hlt.
    { destruct (N.lt_ge_cases (h_amt h + amt) (2 ^ 64)) as [L|G]; auto.
      apply Hov in G. discriminate. }
    split; [repeat split|]. right. split; [exact E0|]. exists h. repeat split; auto.
    destruct (h_frozen h); destruct b; cbn in Ef; auto; discriminate.
Qed.

(* ---- consequences shared by both relations: a "hold step" *)
Record hstep (w w' : world) : Prop := {
  hs_frame : frame w w';
  hs_nodup : NoDup (map fst (w_hold w)) -> NoDup (map fst (w_hold w'));
  hs_keys : forall k, hget k (w_hold w) <> None -> hget k (w_hold w') <> None;
  hs_keys' : forall k, hget k (w_hold w') <> None -> hget k (w_hold w) <> None;
}.

Lemma hstep_refl w : hstep w w.
Proof. split; auto. apply frame_refl. Qed.

Lemma hstep_trans w1 w2 w3 : hstep w1 w2 -> hstep w2 w3 -> hstep w1 w3.
Proof.
  intros [A B C D] [A' B' C' D']. split; auto. eapply frame_trans; eauto.
Qed.

Lemma hset_existing_hstep w w' k h0 h :
  frame w w' -> hget k (w_hold w) = Some h0 -> w_hold w' = hset k h (w_hold w) -> hstep w w'.
Proof.
  intros F E Hw. split; auto; rewrite Hw.
  - apply NoDup_aset. exact pair_eqb_eq.
  - intros k' Hk. rewrite hget_hset. destruct (pair_eqb k' k); [discriminate|exact Hk].
  - intros k'. rewrite hget_hset. destruct (pair_eqb k' k) eqn:Ek; auto.
    apply pair_eqb_eq in Ek. subst. rewrite E. discriminate.
Qed.

Lemma tk_hstep x a amt b w w' : tk_rel x a amt b w w' -> hstep w w'.
Proof.
  intros [F [[_ H]|[_ (h & E & _ & _ & H)]]].
  - split; auto; rewrite H; auto.
  - eapply hset_existing_hstep; eauto.
Qed.

Lemma pi_hstep x a amt b w w' : pi_rel x a amt b w w' -> hstep w w'.
Proof.
  intros [F [[_ H]|[_ (h & E & _ & _ & H)]]].
  - split; auto; rewrite H; auto.
  - eapply hset_existing_hstep; eauto.
Qed.

Lemma tk_hb x a amt b w w' : tk_rel x a amt b w w' -> hb (w_hold w) -> hb (w_hold w').
Proof.
  intros [_ [[_ H]|[_ (h & E & _ & Hle & H)]]] Hb; rewrite H; auto.
  intros k h'. rewrite hget_hset. destruct (pair_eqb k (x, a)).
  - intros [= <-]. cbn. specialize (Hb _ _ E). lia.
  - apply Hb.
Qed.

Lemma pi_hb x a amt b w w' : pi_rel x a amt b w w' -> hb (w_hold w) -> hb (w_hold w').
Proof.
  intros [_ [[_ H]|[_ (h & E & _ & Hlt & H)]]] Hb; rewrite H; auto.
  intros k h'. rewrite hget_hset. destruct (pair_eqb k (x, a)).
  - intros [= <-]. cbn. exact Hlt.
  - apply Hb.
Qed.

(* amounts after takeOut / putIn, uniformly in amt = 0 / <> 0 *)
Lemma tk_amt x a amt b w w' : tk_rel x a amt b w w' ->
  amt <= amt_in (w_hold w) (x, a) /\
  forall k, amt_in (w_hold w') k = if pair_eqb k (x, a) then amt_in (w_hold w) (x, a) - amt
                                   else amt_in (w_hold w) k.
Proof.
  intros [_ [[-> H]|[_ (h & E & _ & Hle & H)]]]; rewrite H.
  - split; [lia|]. intros k. destruct (pair_eqb k (x, a)) eqn:Ek; auto.
    apply pair_eqb_eq in Ek. subst. lia.
  - unfold amt_in at 1. rewrite E. split; [exact Hle|]. intros k. rewrite amt_in_hset.
    destruct (pair_eqb k (x, a)); auto. unfold amt_in. rewrite E. reflexivity.
Qed.

Lemma pi_amt x a amt b w w' : pi_rel x a amt b w w' ->
  forall k, amt_in (w_hold w') k = if pair_eqb k (x, a) then amt_in (w_hold w) (x, a) + amt
                                   else amt_in (w_hold w) k.
Proof.
  intros [_ [[-> H]|[_ (h & E & _ & Hle & H)]]]; rewrite H.
  - intros k. destruct (pair_eqb k (x, a)) eqn:Ek; auto.
    apply pair_eqb_eq in Ek. subst. lia.
  - intros k. rewrite amt_in_hset.
    destruct (pair_eqb k (x, a)); auto. unfold amt_in. rewrite E. reflexivity.
Qed.

Lemma tk_sup x a amt b w w' : tk_rel x a amt b w w' ->
  forall a', sup (w_hold w') a' + (if a =? a' then amt else 0) = sup (w_hold w) a'.
Proof.
  intros [_ [[-> H]|[_ (h & E & _ & Hle & H)]]] a'; rewrite H.
  - destruct (a =? a'); lia.
  - pose proof (sup_hset (w_hold w) x a (mkH (h_amt h - amt) (h_frozen h)) a') as S.
    unfold amt_in in S. rewrite E in S. cbn [h_amt] in S. destruct (a =? a'); lia.
Qed.

Lemma pi_sup x a amt b w w' : pi_rel x a amt b w w' ->
  forall a', sup (w_hold w') a' = sup (w_hold w) a' + (if a =? a' then amt else 0).
Proof.
  intros [_ [[-> H]|[_ (h & E & _ & Hle & H)]]] a'; rewrite H.
  - destruct (a =? a'); lia.
  - pose proof (sup_hset (w_hold w) x a (mkH (h_amt h + amt) (h_frozen h)) a') as S.
    unfold amt_in in S. rewrite E in S. cbn [h_amt] in S. destruct (a =? a'); lia.
Qed.

(* a frozen holding is left alone unless the freeze is bypassed *)
Lemma tk_frozen x a amt w w' : tk_rel x a amt false w w' ->
  forall k h, hget k (w_hold w) = Some h -> h_frozen h = true -> hget k (w_hold w') = Some h.
Proof.
  intros [_ [[_ H]|[_ (h0 & E & Hf & _ & H)]]] k h Ek Hfr; rewrite H; auto.
  rewrite hget_hset. destruct (pair_eqb k (x, a)) eqn:Ekk; auto.
  apply pair_eqb_eq in Ekk. subst. rewrite E in Ek. inversion Ek; subst.
  destruct Hf; congruence.
Qed.

Lemma pi_frozen x a amt w w' : pi_rel x a amt false w w' ->
  forall k h, hget k (w_hold w) = Some h -> h_frozen h = true -> hget k (w_hold w') = Some h.
Proof.
  intros [_ [[_ H]|[_ (h0 & E & Hf & _ & H)]]] k h Ek Hfr; rewrite H; auto.
  rewrite hget_hset. destruct (pair_eqb k (x, a)) eqn:Ekk; auto.
  apply pair_eqb_eq in Ekk. subst. rewrite E in Ek. inversion Ek; subst.
  destruct Hf; congruence.
Qed.

(* only the addressed key changes *)
Lemma tk_other x a amt b w w' : tk_rel x a amt b w w' ->
  forall k, k <> (x, a) -> hget k (w_hold w') = hget k (w_hold w).
Proof.
  intros [_ [[_ H]|[_ (h0 & E & Hf & _ & H)]]] k Hk; rewrite H; auto.
  rewrite hget_hset. apply pair_eqb_false in Hk. rewrite Hk. reflexivity.
Qed.

Lemma pi_other x a amt b w w' : pi_rel x a amt b w w' ->
  forall k, k <> (x, a) -> hget k (w_hold w') = hget k (w_hold w).
Proof.
  intros [_ [[_ H]|[_ (h0 & E & Hf & _ & H)]]] k Hk; rewrite H; auto.
  rewrite hget_hset. apply pair_eqb_false in Hk. rewrite Hk. reflexivity.
Qed.

(* ------------------------------------------------------------------ getParams *)
Lemma getParams_ok a w w' p c :
  getParams a w = (w', Ok (p, c)) ->
  w' = w /\ creator_of w a = Some c /\ pget (c, a) (w_par w) = Some p.
Proof.
  unfold getParams, bind, getCreator, getAssetParams, creator_of. cbn beta iota.
  destruct (aget N.eqb a (w_creator w)) as [c0|]; [|discriminate].
  destruct (pget (c0, a) (w_par w)) as [p0|] eqn:E; [|discriminate].
  intros H. inversion H; subst. auto.
Qed.

(* ------------------------------------------------------------------ blocks of AssetTransfer *)
Definition src_rel (sender asset asender : N) (w : world) (source : N) (clawback : bool) : Prop :=
  (asender = 0 /\ source = sender /\ clawback = false) \/
  (asender <> 0 /\ source = asender /\ clawback = true /\
   exists p c, creator_of w asset = Some c /\ pget (c, asset) (w_par w) = Some p /\
               p_clawback p = sender /\ sender <> 0).

Lemma xfer_source_ok sender asset asender w w' source clawback :
  xfer_source sender asset asender w = (w', Ok (source, clawback)) ->
  w' = w /\ src_rel sender asset asender w source clawback.
Proof.
  unfold xfer_source. destruct (asender =? 0) eqn:E0.
  - apply N.eqb_eq in E0. intros H. inversion H; subst. split; auto. left. auto.
  - apply N.eqb_neq in E0. unfold bind at 1.
    destruct (getParams asset w) as [w1 [[p c]|e]] eqn:Eg; [|discriminate].
    apply getParams_ok in Eg. destruct Eg as (-> & Hc & Hp). cbn [fst snd].
    destruct ((p_clawback p =? 0) || negb (sender =? p_clawback p)) eqn:Ec; [discriminate|].
    intros H. inversion H; subst. split; auto. right. repeat split; auto.
    apply orb_false_iff in Ec. destruct Ec as [Ec1 Ec2].
    apply N.eqb_neq in Ec1. apply negb_false_iff, N.eqb_eq in Ec2.
    exists p, c. repeat split; auto. congruence.
Qed.

Definition optin_rel (source asset amount receiver : N) (clawback : bool) (w w' : world) : Prop :=
  frame w w' /\
  (w_hold w' = w_hold w \/
   (amount = 0 /\ receiver = source /\ clawback = false /\ hget (source, asset) (w_hold w) = None /\
    exists p c, creator_of w asset = Some c /\ pget (c, asset) (w_par w) = Some p /\
      w_hold w' = hset (source, asset) (mkH 0 (p_deffrozen p)) (w_hold w))).

Lemma xfer_optin_ok maxassets source asset amount receiver clawback w w' u :
  xfer_optin maxassets source asset amount receiver clawback w = (w', Ok u) ->
  optin_rel source asset amount receiver clawback w w'.
Proof.
  unfold xfer_optin.
  destruct ((amount =? 0) && (receiver =? source) && negb clawback) eqn:Ec.
  - apply andb_true_iff in Ec. destruct Ec as [Ec Ec3]. apply andb_true_iff in Ec.
    destruct Ec as [Ec1 Ec2]. apply N.eqb_eq in Ec1, Ec2. apply negb_true_iff in Ec3.
    unfold bind at 1. unfold getAssetHolding at 1. cbn beta iota.
    destruct (hget (source, asset) (w_hold w)) as [h|] eqn:Eh.
    + intros H. inversion H; subst. split; [apply frame_refl|]. left. reflexivity.
    + unfold bind at 1.
      destruct (getParams asset w) as [w1 [[p c]|e]] eqn:Eg; [|discriminate].
      apply getParams_ok in Eg. destruct Eg as (-> & Hc & Hp).
      unfold bind, getAcct, putAcct, putAssetHolding. cbn beta iota. cbn [fst snd].
      destruct ((0 <? maxassets) && (maxassets <=? _)); [discriminate|].
      intros H. inversion H; subst; clear H. cbn. split; [repeat split|].
      right. repeat split; auto. exists p, c. auto.
  - intros H. inversion H; subst. split; [apply frame_refl|]. left. reflexivity.
Qed.

Lemma optin_hstep_weak source asset amount receiver clawback w w' :
  optin_rel source asset amount receiver clawback w w' ->
  frame w w' /\ (NoDup (map fst (w_hold w)) -> NoDup (map fst (w_hold w'))) /\
  (forall k, hget k (w_hold w) <> None -> hget k (w_hold w') <> None) /\
  (forall k, amt_in (w_hold w') k = amt_in (w_hold w) k) /\
  (forall a', sup (w_hold w') a' = sup (w_hold w) a') /\
  (hb (w_hold w) -> hb (w_hold w')) /\
  (forall k h, hget k (w_hold w) = Some h -> hget k (w_hold w') = Some h).
Proof.
  intros [F [H|(_ & _ & _ & En & p & c & _ & _ & H)]]; rewrite H; (split; [exact F|]).
  - repeat split; auto.
  - repeat split; auto.
    + apply NoDup_aset. exact pair_eqb_eq.
    + intros k Hk. rewrite hget_hset. destruct (pair_eqb k (source, asset)); [discriminate|auto].
    + intros k. rewrite amt_in_hset. destruct (pair_eqb k (source, asset)) eqn:Ek; auto.
      apply pair_eqb_eq in Ek. subst. unfold amt_in. rewrite En. reflexivity.
    + intros a'. pose proof (sup_hset (w_hold w) source asset (mkH 0 (p_deffrozen p)) a') as S.
      unfold amt_in in S. rewrite En in S. cbn [h_amt] in S. destruct (asset =? a'); lia.
    + intros Hb k h. rewrite hget_hset. destruct (pair_eqb k (source, asset)).
      * intros [= <-]. cbn. lia.
      * apply Hb.
    + intros k h Hk. rewrite hget_hset. destruct (pair_eqb k (source, asset)) eqn:Ek; auto.
      apply pair_eqb_eq in Ek. subst. congruence.
Qed.

(* the close-out block *)
Definition close_rel (source asset closeto : N) (clawback : bool) (w w' : world) (v : N) : Prop :=
  (closeto = 0 /\ w' = w /\ v = 0) \/
  (closeto <> 0 /\ clawback = false /\ pget (source, asset) (w_par w) = None /\
   exists sh w5 w6, hget (source, asset) (w_hold w) = Some sh /\ v = h_amt sh /\
     let bypass := ahas pair_eqb (closeto, asset) (w_par w) in
     tk_rel source asset v bypass w w5 /\ pi_rel closeto asset v bypass w5 w6 /\
     amt_in (w_hold w6) (source, asset) = 0 /\
     frame w6 w' /\ w_hold w' = hdel (source, asset) (w_hold w6)).

Lemma xfer_close_ok source asset closeto clawback w w' v :
  hb (w_hold w) ->
  xfer_close source asset closeto clawback w = (w', Ok v) ->
  close_rel source asset closeto clawback w w' v.
Proof.
  intros Hb. unfold xfer_close. destruct (closeto =? 0) eqn:E0.
  - apply N.eqb_eq in E0. intros H. inversion H; subst. left. auto.
  - apply N.eqb_neq in E0. destruct clawback; [discriminate|].
    unfold bind at 1. unfold getAcct at 1. cbn beta iota.
    destruct (fst _ =? 0); [discriminate|].
    unfold bind at 1. unfold hasAssetParams at 1. cbn beta iota.
    destruct (ahas pair_eqb (source, asset) (w_par w)) eqn:Ecr; [discriminate|].
    apply (ahas_false pair_eqb) in Ecr.
    unfold bind at 1. unfold getAssetHolding at 1. cbn beta iota.
    destruct (hget (source, asset) (w_hold w)) as [sh|] eqn:Esh; [|discriminate].
    unfold bind at 1. unfold hasAssetParams at 1. cbn beta iota.
    set (bypass := ahas pair_eqb (closeto, asset) (w_par w)).
    unfold bind at 1.
    destruct (takeOut source asset (h_amt sh) bypass w) as [w5 [u5|e]] eqn:E5; [|discriminate].
    apply takeOut_ok in E5; [|exact Hb|exact (Hb _ _ Esh)].
    unfold bind at 1.
    destruct (putIn closeto asset (h_amt sh) bypass w5) as [w6 [u6|e]] eqn:E6; [|discriminate].
    apply putIn_ok in E6; [|eapply tk_hb; eauto|exact (Hb _ _ Esh)].
    unfold bind at 1. unfold getAssetHolding at 1. cbn beta iota.
    destruct (negb (_ =? 0)) eqn:Ez; [discriminate|].
    apply negb_false_iff, N.eqb_eq in Ez.
    unfold bind, putAcct, deleteAssetHolding, ret. cbn beta iota.
    intros H. inversion H; subst; clear H. right. repeat split; auto.
    exists sh, w5, w6. cbn zeta. split; [exact Esh|]. split; [reflexivity|].
    split; [exact E5|]. split; [exact E6|]. split; [exact Ez|]. split; [repeat split|reflexivity].
Qed.

(* ------------------------------------------------------------------ whole AssetTransfer *)
Inductive xfer_rel (sender asset amount receiver asender closeto : N) (w w' : world) (v : N) : Prop :=
| XR (source : N) (claw : bool) (w1 w2 w3 : world)
    (xr_src : src_rel sender asset asender w source claw)
    (xr_optin : optin_rel source asset amount receiver claw w w1)
    (xr_tk : tk_rel source asset amount claw w1 w2)
    (xr_pi : pi_rel receiver asset amount claw w2 w3)
    (xr_close : close_rel source asset closeto claw w3 w' v).

Lemma assetTransfer_ok maxassets sender asset amount receiver asender closeto w w' v :
  hb (w_hold w) -> amount < 2 ^ 64 ->
  assetTransfer maxassets sender asset amount receiver asender closeto w = (w', Ok v) ->
  xfer_rel sender asset amount receiver asender closeto w w' v.
Proof.
  intros Hb Hamt. unfold assetTransfer. unfold bind at 1.
  destruct (xfer_source sender asset asender w) as [w0' [[source claw]|e]] eqn:E0; [|discriminate].
  apply xfer_source_ok in E0. destruct E0 as [-> Hsrc]. cbn [fst snd].
  unfold bind at 1.
  destruct (xfer_optin maxassets source asset amount receiver claw w) as [w1 [u1|e]] eqn:E1; [|discriminate].
  apply xfer_optin_ok in E1.
  destruct (optin_hstep_weak _ _ _ _ _ _ _ E1) as (_ & _ & _ & _ & _ & Hb1 & _).
  unfold bind at 1.
  destruct (takeOut source asset amount claw w1) as [w2 [u2|e]] eqn:E2; [|discriminate].
  apply takeOut_ok in E2; auto.
  unfold bind at 1.
  destruct (putIn receiver asset amount claw w2) as [w3 [u3|e]] eqn:E3; [|discriminate].
  apply putIn_ok in E3; auto; [|eapply tk_hb; eauto].
  intros E4. apply xfer_close_ok in E4; [|eapply pi_hb; eauto; eapply tk_hb; eauto].
  econstructor; eauto.
Qed.
