(* C14: the statement without [leaves_distinct] is FALSE of the faithful model.
   Witness (the one replayed on the real ledger by the harness): boxes "ab" -> "c" and "a" -> "bc"
   of application 7 are created in round 1, the first is deleted in round 2; CatchpointLookback 2,
   CatchpointInterval 4, MaxAcctLookback 0.  Node 1 commits round 1 and round 2 separately, node 2
   commits them together; both then commit up to round 4, the catchpoint round whose first stage is
   round 2.  Real leaf builders (C15 model), real hash (SHA-512/256 in Gallina). *)
From Coq Require Import List NArith ZArith Bool.
From Verif.model Require Import MerkleTrie MerkleTrieSpec MerkleTrieSha CatchpointHash CatchpointLabel CatchpointLabelCheck.
From Verif.proofs Require Import CatchpointLabelCompact CatchpointLabelTrie CatchpointLabelProofs CatchpointHashProofs.
Import ListNotations.
Open Scope N_scope.

Definition wk1 : ckey := (2, (make_box_key 7 [97; 98], 0)).     (* box "ab" of app 7 *)
Definition wk2 : ckey := (2, (make_box_key 7 [97], 0)).         (* box "a"  of app 7 *)
Definition wv1 : cval := mkVal [99] 0 0 false [].               (* "c"  *)
Definition wv2 : cval := mkVal [98; 99] 0 0 false [].           (* "bc" *)

Definition w_hist : list cblock :=
  [ mkBlock [mkMod wk1 (Some wv1) None; mkMod wk2 (Some wv2) None] [1] [128] [[1]; [2]; [3]];
    mkBlock [mkMod wk1 None (Some wv1)] [2] [128] [[1]; [2]; [3]];
    mkBlock [] [3] [128] [[1]; [2]; [3]];
    mkBlock [] [4] [128] [[1]; [2]; [3]] ].

Definition w_g : store ckey cval := fun _ => None.
Definition w_P : params := mkParams 4 0 2 true 1.
Definition w_ops1 : list cop := [ONewBlock; OCommitTo 1; ONewBlock; OCommitTo 2; ONewBlock; ONewBlock; OCommitTo 4].
Definition w_ops2 : list cop := [ONewBlock; ONewBlock; OCommitTo 2; ONewBlock; ONewBlock; OCommitTo 4].

Notation w_run ops :=
  (crun ckey_dec cval_eqb cclass (cleaf sha512_256) sha512_256 w_P w_hist (init_state w_g [] [128]) ops).

Lemma w_collision : forall H, cleaf H wk1 wv1 = cleaf H wk2 wv2.
Proof. intros H. reflexivity. Qed.

Lemma w_keys_differ : wk1 <> wk2.
Proof. intros E. inversion E. Qed.

Lemma real_collision : forall H, wk1 <> wk2 /\ cleaf H wk1 wv1 = cleaf H wk2 wv2.
Proof. intros H. exact (conj w_keys_differ (w_collision H)). Qed.

Lemma w_genesis_ok : genesis_ok ckey cval (cleaf sha512_256) w_g [].
Proof. intros y. split; [intros [] | intros (k & v & A & _); discriminate]. Qed.

Lemma w_kv_old_ok : kv_old_ok ckey cval ckey_dec cclass w_hist w_g.
Proof.
  intros pre m post E Hk. cbn in E.
  destruct pre as [|a [|b [|c pre]]]; inversion E; subst; try reflexivity.
  destruct pre; discriminate.
Qed.

(* no two entries that are live AFTER round 2 share a leaf -- the collision is between an entry
   that is gone and one that lives *)
Definition w_label1 : list N := match c_labels (w_run w_ops1) with (_, l) :: _ => l | [] => [] end.
Definition w_label2 : list N := match c_labels (w_run w_ops2) with (_, l) :: _ => l | [] => [] end.

Lemma w_labels :
  c_labels (w_run w_ops1) = [(4, w_label1)] /\ c_labels (w_run w_ops2) = [(4, w_label2)] /\
  bytes_eqb w_label1 w_label2 = false /\
  c_err (w_run w_ops1) = false /\ c_err (w_run w_ops2) = false /\
  (* node 1 lost the leaf of the live box "a": its trie is empty; node 2 has it *)
  t_root (m_committed (c_trie (w_run w_ops1))) = None /\
  t_root (m_committed (c_trie (w_run w_ops2))) = Some (Leaf (cleaf sha512_256 wk2 wv2)) /\
  (* while the state after round 4 does contain that box *)
  state_at ckey_dec w_g w_hist 4 wk2 = Some wv2 /\ state_at ckey_dec w_g w_hist 4 wk1 = None.
Proof. vm_compute. repeat split; reflexivity. Qed.

Lemma bytes_eqb_refl l : bytes_eqb l l = true.
Proof. induction l as [|x l IH]; [reflexivity|]. cbn. rewrite N.eqb_refl. exact IH. Qed.

Lemma w_labels_differ : w_label1 <> w_label2.
Proof.
  intros E. assert (X : bytes_eqb w_label1 w_label2 = true) by (rewrite E; apply bytes_eqb_refl).
  revert X. vm_compute. discriminate.
Qed.

Lemma label_schedule_dependent_refuted :
  exists (hist : list cblock) (g : store ckey cval) gleaves gtotals P ops1 ops2 R l1 l2,
    genesis_ok ckey cval (cleaf sha512_256) g gleaves /\
    kv_old_ok ckey cval ckey_dec cclass hist g /\
    p_interval P <> 0 /\
    In (R, l1) (c_labels (crun ckey_dec cval_eqb cclass (cleaf sha512_256) sha512_256 P hist (init_state g gleaves gtotals) ops1)) /\
    In (R, l2) (c_labels (crun ckey_dec cval_eqb cclass (cleaf sha512_256) sha512_256 P hist (init_state g gleaves gtotals) ops2)) /\
    l1 <> l2.
Proof.
  exists w_hist, w_g, [], [128], w_P, w_ops1, w_ops2, 4, w_label1, w_label2.
  destruct w_labels as (A & B & _).
  split; [exact w_genesis_ok|]. split; [exact w_kv_old_ok|]. split; [intros E; inversion E|].
  rewrite A, B.
  split; [left; reflexivity|]. split; [left; reflexivity|]. exact w_labels_differ.
Qed.
