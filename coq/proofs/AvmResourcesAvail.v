(* C35 proofs, part 2: availableAccount / availableAsset / availableApp / allowsHolding / allowsLocals
   of the transcription decide exactly the declarative rule (up to the zero-value deviation). *)
From Coq Require Import List NArith Bool Lia ZifyN ZifyNat ZifyBool.
From Verif.lib Require Import Term.
From Verif.model Require Import AvmResources AvmResourcesSpec.
From Verif.proofs Require Import AvmResourcesFill.
Import ListNotations.
Open Scope N_scope.

Lemma find_index_some : forall {A} (f : A -> bool) l i, find_index f l = Some i -> exists x, In x l /\ f x = true.
Proof.
  induction l as [|x l IH]; simpl; intros i H. discriminate.
  destruct (f x) eqn:E.
  - exists x. auto.
  - destruct (find_index f l) eqn:E2; simpl in H; try discriminate.
    destruct (IH n eq_refl) as [y [H1 H2]]. exists y. auto.
Qed.

Lemma find_index_none : forall {A} (f : A -> bool) l, find_index f l = None -> forall x, In x l -> f x = false.
Proof.
  induction l as [|y l IH]; simpl; intros H x Hx. contradiction.
  destruct (f y) eqn:E. discriminate.
  destruct (find_index f l) eqn:E2; simpl in H; try discriminate.
  destruct Hx as [->|Hx]. exact E. apply IH; auto.
Qed.

Lemma rr_address_nz : forall rr a, rr_address rr = a -> a <> 0 -> rr = RAddr a.
Proof. intros rr a H Hz. destruct rr; simpl in H; subst; congruence. Qed.
Lemma rr_asset_nz : forall rr a, rr_asset rr = a -> a <> 0 -> rr = RAsset a.
Proof. intros rr a H Hz. destruct rr; simpl in H; subst; congruence. Qed.
Lemma rr_app_nz : forall rr a, rr_app rr = a -> a <> 0 -> rr = RApp a.
Proof. intros rr a H Hz. destruct rr; simpl in H; subst; congruence. Qed.

Section Avail.
Variable appaddr : N -> addr.
Variable w : world.
Hypothesis Hpol : w_policy w = None.

Notation cx := (ctx_of appaddr w).
Notation J_acct := (J_acct appaddr).
Notation J_hold := (J_hold appaddr).
Notation J_loc := (J_loc appaddr).
Notation names_acct := (names_acct appaddr).
Notation names_hold := (names_hold appaddr).
Notation names_loc := (names_loc appaddr).

(* "named by this call", as the code decides it: tx.Access is searched by component *)
Definition here_acct (a : addr) : Prop :=
  a = w_sender w \/ (exists rr, In rr (access_of (w_cur w)) /\ rr_address rr = a) \/ In a (ap_accounts (w_cur w)).

Lemma index_by_address_iff : forall a,
  (match index_by_address (w_cur w) (w_sender w) a with Some _ => true | None => false end) = true <-> here_acct a.
Proof.
  intro a. unfold index_by_address, here_acct.
  destruct (N.eqb_spec a (w_sender w)) as [E|E].
  - split; auto.
  - destruct (find_index (fun rr => rr_address rr =? a) (access_of (w_cur w))) as [i|] eqn:F1.
    + split; auto. intros _. destruct (find_index_some _ _ _ F1) as [rr [H1 H2]].
      right. left. exists rr. split. exact H1. apply N.eqb_eq. exact H2.
    + destruct (find_index (N.eqb a) (ap_accounts (w_cur w))) as [i|] eqn:F2.
      * split; auto. intros _. destruct (find_index_some _ _ _ F2) as [x [H1 H2]].
        apply N.eqb_eq in H2. subst x. auto.
      * split. discriminate. intros [H|[[rr [H1 H2]]|H]].
        -- contradiction.
        -- pose proof (find_index_none _ _ F1 rr H1) as Hf. simpl in Hf. apply N.eqb_neq in Hf. contradiction.
        -- pose proof (find_index_none _ _ F2 a H) as Hf. rewrite N.eqb_refl in Hf. discriminate.
Qed.

Definition L_acct (a : addr) : Prop :=
  here_acct a
  \/ (createdResourcesVersion <= w_version w /\ exists id, In id (created_apps w) /\ a = appaddr id)
  \/ (sharedResourcesVersion <= w_version w /\ group_names w names_acct a)
  \/ (appAddressAvailableVersion <= w_version w /\ exists id, In id (ap_fapps (w_cur w)) /\ a = appaddr id)
  \/ a = appaddr (w_appid w).

Definition L_asset (n : N) : Prop :=
  (exists rr, In rr (access_of (w_cur w)) /\ rr_asset rr = n) \/ In n (ap_fassets (w_cur w))
  \/ (createdResourcesVersion <= w_version w /\ In n (w_created_asas w))
  \/ (sharedResourcesVersion <= w_version w /\ group_names w names_asset n).

Definition L_app (p : N) : Prop :=
  (exists rr, In rr (access_of (w_cur w)) /\ rr_app rr = p) \/ In p (ap_fapps (w_cur w))
  \/ (createdResourcesVersion <= w_version w /\ In p (created_apps w))
  \/ p = w_appid w
  \/ (sharedResourcesVersion <= w_version w /\ group_names w names_app p).

Lemma pol_none : forall f, pol cx f = false.
Proof. intro f. unfold pol. simpl. rewrite Hpol. reflexivity. Qed.

Lemma existsb_rr : forall (g : rref -> N) l n,
  existsb (fun rr => g rr =? n) l = true <-> exists rr, In rr l /\ g rr = n.
Proof.
  intros. rewrite existsb_exists. split; intros [rr [H1 H2]]; exists rr; split; auto.
  apply N.eqb_eq. exact H2. apply N.eqb_eq. exact H2.
Qed.

Lemma available_account_iff : forall a, available_account appaddr cx a = true <-> L_acct a.
Proof.
  intro a. unfold available_account, L_acct. rewrite pol_none, orb_false_r.
  cbn [cx_version cx_cur cx_sender cx_av cx_appid ctx_of].
  rewrite !orb_true_iff, !andb_true_iff, !N.leb_le, index_by_address_iff, !existsb_eq_In, memN_In, N.eqb_eq.
  rewrite (av_accts appaddr w a).
  assert (Hc : (exists id, In id (cr_apps (av_of appaddr w)) /\ a = appaddr id) <->
               (exists id, In id (created_apps w) /\ a = appaddr id)).
  { split; intros [id [H1 H2]]; exists id; split; auto; apply (av_cr_apps appaddr w id); exact H1. }
  rewrite Hc. intuition.
Qed.

Lemma available_asset_iff : forall n, available_asset cx n = true <-> L_asset n.
Proof.
  intro n. unfold available_asset, L_asset. rewrite pol_none, andb_false_r, orb_false_r.
  cbn [cx_version cx_cur cx_sender cx_av cx_appid ctx_of].
  rewrite !orb_true_iff, !andb_true_iff, !N.leb_le, existsb_rr, !memN_In.
  rewrite (av_cr_asas appaddr w n), (av_asas appaddr w n). intuition.
Qed.

Lemma available_app_iff : forall p, available_app cx p = true <-> L_app p.
Proof.
  intro p. unfold available_app, L_app. rewrite pol_none, andb_false_r, orb_false_r.
  cbn [cx_version cx_cur cx_sender cx_av cx_appid ctx_of].
  rewrite !orb_true_iff, !andb_true_iff, !N.leb_le, existsb_rr, !memN_In, N.eqb_eq.
  rewrite (av_cr_apps appaddr w p), (av_apps appaddr w p). intuition.
Qed.

(* strict <-> loose *)
Lemma here_strict : forall a, a <> 0 -> here_acct a ->
  a = w_sender w \/ In a (ap_accounts (w_cur w)) \/ (a <> 0 /\ In (RAddr a) (access_of (w_cur w))).
Proof.
  intros a Hz [H|[[rr [H1 H2]]|H]]; auto.
  right. right. split; auto. rewrite <- (rr_address_nz rr a H2 Hz). exact H1.
Qed.

Lemma J_acct_L : forall a, J_acct w a -> L_acct a.
Proof.
  intros a H. unfold AvmResourcesSpec.J_acct, shared in H. unfold L_acct, here_acct.
  destruct H as [H|[H|[[Hz H]|[H|[H|[H|H]]]]]].
  - auto.
  - auto.
  - left. right. left. exists (RAddr a). auto.
  - auto.
  - right. right. left. auto.
  - do 3 right. left. auto.
  - do 4 right. auto.
Qed.
Lemma L_acct_J : forall a, a <> 0 -> L_acct a -> J_acct w a.
Proof.
  intros a Hz H. unfold AvmResourcesSpec.J_acct, shared. unfold L_acct in H.
  destruct H as [H|[H|[H|[H|H]]]].
  - destruct (here_strict a Hz H) as [H'|[H'|H']]; auto.
  - do 3 right. left. exact H.
  - do 4 right. left. exact H.
  - do 5 right. left. exact H.
  - do 6 right. exact H.
Qed.

Lemma J_asset_L : forall n, J_asset w n -> L_asset n.
Proof.
  intros n H. unfold J_asset, shared in H. unfold L_asset.
  destruct H as [[Hz H]|[H|[H|H]]]; auto. left. exists (RAsset n). auto.
Qed.
Lemma L_asset_J : forall n, n <> 0 -> L_asset n -> J_asset w n.
Proof.
  intros n Hz H. unfold J_asset, shared. unfold L_asset in H.
  destruct H as [[rr [H1 H2]]|[H|[H|H]]]; auto.
  left. split; auto. rewrite <- (rr_asset_nz rr n H2 Hz). exact H1.
Qed.

Lemma J_app_L : forall p, J_app w p -> L_app p.
Proof.
  intros p H. unfold J_app, shared in H. unfold L_app.
  destruct H as [[Hz H]|[H|[H|[H|H]]]].
  - left. exists (RApp p). auto.
  - auto.
  - auto.
  - auto.
  - do 4 right. exact H.
Qed.
Lemma L_app_J : forall p, p <> 0 -> L_app p -> J_app w p.
Proof.
  intros p Hz H. unfold J_app, shared. unfold L_app in H.
  destruct H as [[rr [H1 H2]]|[H|[H|[H|H]]]].
  - left. split; auto. rewrite <- (rr_app_nz rr p H2 Hz). exact H1.
  - auto.
  - auto.
  - auto.
  - do 4 right. exact H.
Qed.

Lemma available_account_sound : forall a, available_account appaddr cx a = true -> a <> 0 -> J_acct w a.
Proof. intros a H Hz. apply L_acct_J; auto. apply available_account_iff. exact H. Qed.
Lemma available_account_complete : forall a, J_acct w a -> available_account appaddr cx a = true.
Proof. intros a H. apply available_account_iff. apply J_acct_L. exact H. Qed.
Lemma available_asset_sound : forall n, available_asset cx n = true -> n <> 0 -> J_asset w n.
Proof. intros n H Hz. apply L_asset_J; auto. apply available_asset_iff. exact H. Qed.
Lemma available_asset_complete : forall n, J_asset w n -> available_asset cx n = true.
Proof. intros n H. apply available_asset_iff. apply J_asset_L. exact H. Qed.
Lemma available_app_sound : forall p, available_app cx p = true -> p <> 0 -> J_app w p.
Proof. intros p H Hz. apply L_app_J; auto. apply available_app_iff. exact H. Qed.
Lemma available_app_complete : forall p, J_app w p -> available_app cx p = true.
Proof. intros p H. apply available_app_iff. apply J_app_L. exact H. Qed.

(* ---------------------------------------------------------------- holdings and locals under sharing *)
Lemma created_addr_iff : forall a,
  existsb (fun id => appaddr id =? a) (cr_apps (av_of appaddr w)) = true <->
  exists id, In id (created_apps w) /\ a = appaddr id.
Proof.
  intro a. rewrite existsb_eq_In'. split; intros [id [H1 H2]]; exists id; split; auto;
    apply (av_cr_apps appaddr w id); exact H1.
Qed.

Lemma allows_holding_sound : forall a n, sharedResourcesVersion <= w_version w ->
  allows_holding appaddr cx a n = true -> a <> 0 -> n <> 0 -> J_hold w a n.
Proof.
  intros a n Hv H Ha Hn. unfold AvmResourcesSpec.J_hold. apply N.leb_le in Hv. rewrite Hv.
  unfold allows_holding in H. cbn [cx_av cx_policy ctx_of] in H. rewrite Hpol in H.
  destruct (memP (a, n) (sh_holds (av_of appaddr w))) eqn:E1.
  - left. apply memP_In in E1. apply (av_holds appaddr w a n). exact E1.
  - destruct (memN n (cr_asas (av_of appaddr w))) eqn:E2.
    + right. left. split. apply memN_In in E2. apply (av_cr_asas appaddr w n). exact E2.
      apply available_account_sound; auto.
    + destruct (existsb (fun id => appaddr id =? a) (cr_apps (av_of appaddr w))) eqn:E3; try discriminate.
      right. right. split. apply created_addr_iff. exact E3. apply available_asset_sound; auto.
Qed.

Lemma allows_holding_complete : forall a n, sharedResourcesVersion <= w_version w ->
  J_hold w a n -> allows_holding appaddr cx a n = true.
Proof.
  intros a n Hv H. unfold AvmResourcesSpec.J_hold in H. pose proof Hv as Hv'. apply N.leb_le in Hv. rewrite Hv in H.
  unfold allows_holding. cbn [cx_av cx_policy ctx_of]. rewrite Hpol.
  destruct (memP (a, n) (sh_holds (av_of appaddr w))) eqn:E1; auto.
  assert (N1 : ~ group_names w (fun t => names_hold t a) n).
  { intro G. apply (av_holds appaddr w a n) in G. apply memP_In in G. congruence. }
  destruct (memN n (cr_asas (av_of appaddr w))) eqn:E2.
  - destruct H as [H|[[_ H]|[[id [H1 H2]] _]]].
    + contradiction.
    + apply available_account_complete. exact H.
    + apply available_account_iff. right. left. split.
      * unfold createdResourcesVersion, sharedResourcesVersion in *. lia.
      * exists id. auto.
  - assert (N2 : ~ In n (w_created_asas w)).
    { intro G. apply (av_cr_asas appaddr w n) in G. apply memN_In in G. congruence. }
    destruct (existsb (fun id => appaddr id =? a) (cr_apps (av_of appaddr w))) eqn:E3.
    + destruct H as [H|[[H _]|[_ H]]]; try contradiction. apply available_asset_complete. exact H.
    + destruct H as [H|[[H _]|[H _]]]; try contradiction.
      apply created_addr_iff in H. congruence.
Qed.

Lemma allows_locals_sound : forall a p, sharedResourcesVersion <= w_version w ->
  allows_locals appaddr cx a p = true -> a <> 0 -> p <> 0 -> J_loc w a p.
Proof.
  intros a p Hv H Ha Hn. unfold AvmResourcesSpec.J_loc. apply N.leb_le in Hv. rewrite Hv.
  unfold allows_locals in H. cbn [cx_av cx_policy ctx_of] in H. rewrite Hpol in H.
  destruct (memP (a, p) (sh_locals (av_of appaddr w))) eqn:E1.
  - left. apply memP_In in E1. apply (av_locals appaddr w a p). exact E1.
  - destruct (memN p (cr_apps (av_of appaddr w))) eqn:E2.
    + right. left. split. apply memN_In in E2. apply (av_cr_apps appaddr w p). exact E2.
      apply available_account_sound; auto.
    + destruct (existsb (fun id => appaddr id =? a) (cr_apps (av_of appaddr w))) eqn:E3; try discriminate.
      right. right. split. apply created_addr_iff. exact E3. apply available_app_sound; auto.
Qed.

Lemma allows_locals_complete : forall a p, sharedResourcesVersion <= w_version w ->
  J_loc w a p -> allows_locals appaddr cx a p = true.
Proof.
  intros a p Hv H. unfold AvmResourcesSpec.J_loc in H. pose proof Hv as Hv'. apply N.leb_le in Hv. rewrite Hv in H.
  unfold allows_locals. cbn [cx_av cx_policy ctx_of]. rewrite Hpol.
  destruct (memP (a, p) (sh_locals (av_of appaddr w))) eqn:E1; auto.
  assert (N1 : ~ group_names w (fun t => names_loc t a) p).
  { intro G. apply (av_locals appaddr w a p) in G. apply memP_In in G. congruence. }
  destruct (memN p (cr_apps (av_of appaddr w))) eqn:E2.
  - destruct H as [H|[[_ H]|[[id [H1 H2]] _]]].
    + contradiction.
    + apply available_account_complete. exact H.
    + apply available_account_iff. right. left. split.
      * unfold createdResourcesVersion, sharedResourcesVersion in *. lia.
      * exists id. auto.
  - assert (N2 : ~ In p (created_apps w)).
    { intro G. apply (av_cr_apps appaddr w p) in G. apply memN_In in G. congruence. }
    destruct (existsb (fun id => appaddr id =? a) (cr_apps (av_of appaddr w))) eqn:E3.
    + destruct H as [H|[[H _]|[_ H]]]; try contradiction. apply available_app_complete. exact H.
    + destruct H as [H|[[H _]|[H _]]]; try contradiction.
      apply created_addr_iff in H. congruence.
Qed.

(* a named pair names its components (used for completeness: the asset / app of a shared holding /
   local state resolves) *)
Lemma resolve_hold_asset : forall l s ai si a n, resolve_hold l s ai si = Some (a, n) -> n <> 0 /\ In (RAsset n) l.
Proof.
  intros l s ai si a n H. unfold resolve_hold in H.
  destruct (if ai =? 0 then Some s else match nth1 l ai with
            | Some r => if rr_address r =? 0 then None else Some (rr_address r) | None => None end); try discriminate.
  destruct (nth1 l si) as [r|] eqn:E; try discriminate.
  destruct (N.eqb_spec (rr_asset r) 0); try discriminate. inversion H; subst.
  split; auto. rewrite <- (rr_asset_nz r (rr_asset r) eq_refl n0). apply (nth1_In _ _ _ E).
Qed.

Lemma names_hold_asset : forall t a n, names_hold t a n -> names_asset t n.
Proof.
  intros t a n H. destruct t as [s rcv cl|s|s id|s id rcv asnd cl|s id f|s ap|s]; simpl in *; try contradiction.
  - tauto.
  - tauto.
  - destruct (ap_access ap) as [l|].
    + destruct H as [ai [si [H1 H2]]]. apply (resolve_hold_asset l s ai si a n H2).
    + tauto.
Qed.

Lemma resolve_loc_app : forall l s cur ai pi a p, resolve_loc l s cur ai pi = Some (a, p) ->
  (pi = 0 /\ p = cur) \/ (p <> 0 /\ In (RApp p) l).
Proof.
  intros l s cur ai pi a p H. unfold resolve_loc in H.
  destruct (if ai =? 0 then Some s else match nth1 l ai with
            | Some r => if rr_address r =? 0 then None else Some (rr_address r) | None => None end); try discriminate.
  destruct (N.eqb_spec pi 0).
  - inversion H; subst. auto.
  - destruct (nth1 l pi) as [r|] eqn:E; try discriminate.
    destruct (N.eqb_spec (rr_app r) 0); try discriminate. inversion H; subst.
    right. split; auto. rewrite <- (rr_app_nz r (rr_app r) eq_refl n0). apply (nth1_In _ _ _ E).
Qed.

Lemma names_loc_app : forall t a p, p <> 0 -> names_loc t a p -> names_app t p.
Proof.
  intros t a p Hz H. destruct t as [s rcv cl|s|s id|s id rcv asnd cl|s id f|s ap|s]; simpl in *; try contradiction.
  destruct (ap_access ap) as [l|].
  - destruct H as [[H1 [H2 H3]]|[ai [pi [H1 [H0 H2]]]]]. auto.
    destruct (resolve_loc_app l s (ap_id ap) ai pi a p H2) as [[E1 E2]|H3]; auto.
    left. split; congruence.
  - tauto.
Qed.

End Avail.
