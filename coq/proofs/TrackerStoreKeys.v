(* C47 lemmas, part 1: the byte-string order, big-endian integers, and the key encodings of
   generickv/schema.go: [enc] is injective and order preserving. *)
From Coq Require Import NArith List Bool Lia ZifyN ZifyNat ZifyBool.
From Verif.model Require Import TrackerStore.
Import ListNotations.
Open Scope N_scope.

(* ---------- bcmp ---------- *)
Lemma bcmp_refl a : bcmp a a = Eq.
Proof. induction a as [|x a IH]; cbn; [reflexivity|]. rewrite N.compare_refl. exact IH. Qed.

Lemma bcmp_eq a : forall b, bcmp a b = Eq -> a = b.
Proof.
  induction a as [|x a IH]; intros [|y b] H; cbn in H; try discriminate; [reflexivity|].
  destruct (x ?= y) eqn:E; try discriminate. apply N.compare_eq in E. subst. f_equal. apply IH, H.
Qed.

Lemma bcmp_antisym a : forall b, bcmp b a = CompOpp (bcmp a b).
Proof.
  induction a as [|x a IH]; intros [|y b]; cbn; try reflexivity.
  rewrite (N.compare_antisym x y). destruct (x ?= y); cbn; auto.
Qed.

Lemma bcmp_cons_same x a b : bcmp (x :: a) (x :: b) = bcmp a b.
Proof. cbn. rewrite N.compare_refl. reflexivity. Qed.

Lemma bcmp_app_head p a b : bcmp (p ++ a) (p ++ b) = bcmp a b.
Proof. induction p as [|x p IH]; [reflexivity|]. cbn [app]. rewrite bcmp_cons_same. exact IH. Qed.

Lemma bcmp_app_eqlen a : forall a' x y, length a = length a' ->
  bcmp (a ++ x) (a' ++ y) = lexc (bcmp a a') (bcmp x y).
Proof.
  induction a as [|h a IH]; intros [|h' a'] x y L; cbn in L; try discriminate; [reflexivity|].
  cbn. destruct (h ?= h'); try reflexivity. apply IH. lia.
Qed.

Lemma bcmp_trans_lt a : forall b c, bcmp a b = Lt -> bcmp b c = Lt -> bcmp a c = Lt.
Proof.
  induction a as [|x a IH]; intros [|y b] [|z c] H1 H2; cbn in *; try discriminate; try reflexivity.
  destruct (x ?= y) eqn:E1; try discriminate; destruct (y ?= z) eqn:E2; try discriminate.
  - apply N.compare_eq in E1, E2. subst. rewrite N.compare_refl. eapply IH; eauto.
  - apply N.compare_eq in E1. subst. rewrite E2. reflexivity.
  - apply N.compare_eq in E2. subst. rewrite E1. reflexivity.
  - rewrite N.compare_lt_iff in *. assert (x < z) by lia. rewrite <- N.compare_lt_iff in H. rewrite H. reflexivity.
Qed.

Lemma bltb_lt a b : bltb a b = true <-> bcmp a b = Lt.
Proof. unfold bltb. destruct (bcmp a b); split; congruence. Qed.
Lemma beqb_eq a b : beqb a b = true <-> a = b.
Proof.
  unfold beqb. split.
  - destruct (bcmp a b) eqn:E; try discriminate. intros _. apply bcmp_eq, E.
  - intros ->. rewrite bcmp_refl. reflexivity.
Qed.
Lemma bleb_spec a b : bleb a b = true <-> bcmp a b <> Gt.
Proof. unfold bleb. destruct (bcmp a b); split; congruence. Qed.
Lemma bcmp_gt_lt a b : bcmp a b = Gt <-> bcmp b a = Lt.
Proof. rewrite (bcmp_antisym a b). destruct (bcmp a b); cbn; split; congruence. Qed.
Lemma bleb_bltb a b : bleb a b = negb (bltb b a).
Proof. unfold bleb, bltb. rewrite (bcmp_antisym a b). destruct (bcmp a b); reflexivity. Qed.

(* a proper extension is larger; anything that extends [p] stays below [p] with its last byte bumped *)
Lemma bcmp_app_nil_l a x : bcmp a (a ++ x) = match x with [] => Eq | _ => Lt end.
Proof. induction a as [|h a IH]; cbn; [destruct x; reflexivity|]. rewrite N.compare_refl. exact IH. Qed.

(* ---------- big-endian ---------- *)
Lemma be_length k : forall n, length (be k n) = k.
Proof. induction k; intros n; cbn; [reflexivity|]. rewrite app_length, IHk. cbn. lia. Qed.

Lemma all_lt256_app a b : all_lt256 (a ++ b) = all_lt256 a && all_lt256 b.
Proof. unfold all_lt256. apply forallb_app. Qed.

Lemma be_lt256 k : forall n, all_lt256 (be k n) = true.
Proof.
  induction k; intros n; cbn; [reflexivity|]. rewrite all_lt256_app, IHk. cbn.
  assert (n mod 256 < 256) by (apply N.mod_lt; lia). rewrite andb_true_r. apply N.ltb_lt. exact H.
Qed.

Lemma be_cmp k : forall n m, n < 256 ^ N.of_nat k -> m < 256 ^ N.of_nat k -> bcmp (be k n) (be k m) = (n ?= m).
Proof.
  induction k; intros n m Hn Hm.
  - cbn in *. assert (n = 0) by lia. assert (m = 0) by lia. subst. reflexivity.
  - cbn [be]. rewrite bcmp_app_eqlen by (rewrite !be_length; reflexivity).
    rewrite Nat2N.inj_succ, N.pow_succ_r' in Hn, Hm.
    pose proof (N.div_mod n 256 ltac:(lia)) as Dn. pose proof (N.div_mod m 256 ltac:(lia)) as Dm.
    pose proof (N.mod_lt n 256 ltac:(lia)) as Mn. pose proof (N.mod_lt m 256 ltac:(lia)) as Mm.
    set (qn := n / 256) in *. set (rn := n mod 256) in *. set (qm := m / 256) in *. set (rm := m mod 256) in *.
    rewrite IHk by lia.
    cbn [bcmp].
    destruct (N.compare_spec qn qm) as [E|E|E]; cbn [lexc].
    + destruct (N.compare_spec rn rm) as [F|F|F]; symmetry.
      * apply N.compare_eq_iff. lia.
      * apply N.compare_lt_iff. lia.
      * apply N.compare_gt_iff. lia.
    + symmetry. apply N.compare_lt_iff. lia.
    + symmetry. apply N.compare_gt_iff. lia.
Qed.

Lemma pow256_8 : 256 ^ N.of_nat 8 = 2 ^ 64.
Proof. reflexivity. Qed.

Lemma be8_cmp n m : u64 n = true -> u64 m = true -> bcmp (be8 n) (be8 m) = (n ?= m).
Proof.
  unfold u64, be8. intros Hn Hm. apply N.ltb_lt in Hn, Hm. apply be_cmp; rewrite pow256_8; assumption.
Qed.
Lemma be8_length n : length (be8 n) = 8%nat.
Proof. apply be_length. Qed.

Lemma unbe_acc_app a : forall b acc, unbe_acc (a ++ b) acc = unbe_acc b (unbe_acc a acc).
Proof. induction a; intros; cbn; [reflexivity|]. apply IHa. Qed.
Lemma unbe_acc_be k : forall n acc, n < 256 ^ N.of_nat k -> unbe_acc (be k n) acc = acc * 256 ^ N.of_nat k + n.
Proof.
  induction k; intros n acc Hn.
  - cbn in *. lia.
  - cbn [be]. rewrite unbe_acc_app. rewrite Nat2N.inj_succ, N.pow_succ_r' in *.
    pose proof (N.div_mod n 256 ltac:(lia)) as Dn. pose proof (N.mod_lt n 256 ltac:(lia)) as Mn.
    rewrite IHk by (set (q := n / 256) in *; set (r := n mod 256) in *; lia).
    cbn [unbe_acc]. set (q := n / 256) in *. set (r := n mod 256) in *. set (P := 256 ^ N.of_nat k) in *. lia.
Qed.
Lemma unbe_be8 n : u64 n = true -> unbe (be8 n) = n.
Proof.
  unfold u64, unbe, be8. intros H. apply N.ltb_lt in H. rewrite unbe_acc_be by (rewrite pow256_8; exact H). lia.
Qed.

(* ---------- validity ---------- *)
Lemma valid_addr_length a : valid_addr a = true -> length a = 32%nat.
Proof. unfold valid_addr. intros H. apply andb_true_iff in H as [H _]. apply N.eqb_eq in H. lia. Qed.

(* ---------- the key order ---------- *)
Lemma skey_cmp_refl k : skey_cmp k k = Eq.
Proof.
  destruct k; cbn [skey_cmp tag];
    repeat (rewrite ?bcmp_refl, ?N.compare_refl; cbn [lexc]); try reflexivity.
  destruct staging; reflexivity.
Qed.

Lemma lexc_eq c d : lexc c d = Eq -> c = Eq /\ d = Eq.
Proof. destruct c; cbn; intros; try discriminate; auto. Qed.

Lemma skey_cmp_eq k1 k2 : skey_cmp k1 k2 = Eq -> k1 = k2.
Proof.
  destruct k1, k2; cbn; intros H; try discriminate; try reflexivity;
    repeat match goal with
           | H : lexc _ _ = Eq |- _ => apply lexc_eq in H as [? ?]
           | H : bcmp _ _ = Eq |- _ => apply bcmp_eq in H
           | H : (_ ?= _) = Eq |- _ => apply N.compare_eq in H
           end; subst; try reflexivity.
  destruct staging, staging0; cbn in H; try discriminate; reflexivity.
Qed.

Lemma skey_eqb_eq k1 k2 : skey_eqb k1 k2 = true <-> k1 = k2.
Proof.
  unfold skey_eqb. split.
  - destruct (skey_cmp k1 k2) eqn:E; try discriminate. intros _. apply skey_cmp_eq, E.
  - intros ->. rewrite skey_cmp_refl. reflexivity.
Qed.
Lemma skey_eqb_refl k : skey_eqb k k = true.
Proof. apply skey_eqb_eq. reflexivity. Qed.
Lemma skey_eqb_neq k1 k2 : skey_eqb k1 k2 = false <-> k1 <> k2.
Proof. rewrite <- skey_eqb_eq. destruct (skey_eqb k1 k2); split; congruence. Qed.

(* C47 key_order_preserving: byte order of the encoded keys = order of the structured keys *)
Theorem enc_order k1 k2 : valid_key k1 = true -> valid_key k2 = true ->
  bcmp (enc k1) (enc k2) = skey_cmp k1 k2.
Proof.
  intros V1 V2.
  destruct k1, k2; try reflexivity; cbn [valid_key] in V1, V2;
    repeat match goal with H : _ && _ = true |- _ => apply andb_true_iff in H as [? ?] end;
    cbn [enc accountKey resourceKey appKvKey creatableKey onlineAccountKey onlineAccountBalanceKey txTailKey
         onlineAccountRoundParamsKey stateproofKey kvPrefixAccount kvPrefixResource kvPrefixAppKv kvPrefixCreatorIndex
         kvPrefixOnlineAccount kvPrefixOnlineAccountBalance kvTxTail kvOnlineAccountRoundParams kvPrefixStateproof
         app skey_cmp];
    rewrite ?bcmp_cons_same.
  - (* KRes *)
    rewrite bcmp_app_eqlen by (rewrite !valid_addr_length by assumption; reflexivity).
    rewrite bcmp_cons_same, be8_cmp by assumption. reflexivity.
  - (* KCreat *) apply be8_cmp; assumption.
  - (* KOnl *)
    rewrite bcmp_app_eqlen by (rewrite !valid_addr_length by assumption; reflexivity).
    rewrite bcmp_cons_same, be8_cmp by assumption. reflexivity.
  - (* KBal *)
    rewrite bcmp_app_eqlen by (rewrite !be8_length; reflexivity).
    rewrite be8_cmp by assumption. rewrite bcmp_cons_same.
    rewrite bcmp_app_eqlen by (rewrite !be8_length; reflexivity).
    rewrite be8_cmp by assumption. rewrite bcmp_cons_same. reflexivity.
  - (* KTotals *) destruct staging, staging0; reflexivity.
  - (* KTxTail *) apply be8_cmp; assumption.
  - (* KOrp *) apply be8_cmp; assumption.
  - (* KSp *) apply be8_cmp; assumption.
Qed.

(* C47 key_encoding_inj *)
Theorem enc_inj k1 k2 : valid_key k1 = true -> valid_key k2 = true -> enc k1 = enc k2 -> k1 = k2.
Proof.
  intros V1 V2 E. apply skey_cmp_eq. rewrite <- enc_order by assumption. rewrite E. apply bcmp_refl.
Qed.

Lemma skey_ltb_enc k1 k2 : valid_key k1 = true -> valid_key k2 = true ->
  skey_ltb k1 k2 = bltb (enc k1) (enc k2).
Proof. intros. unfold skey_ltb, bltb. rewrite enc_order by assumption. reflexivity. Qed.
