(* C24 lemmas: group fee requirement and proposer payout (model/Fees.v) against the
   closed forms of model/FeesSpec.v.  Reuses the C45 lemmas on the overflow helpers. *)
From Coq Require Import NArith ZArith List Bool Lia ZifyN ZifyNat ZifyBool.
From Verif.lib Require Import Term.
From Verif.model Require Import Overflow Fees FeesSpec.
From Verif.proofs Require Import OverflowProofs.
Import ListNotations.
Open Scope N_scope.

Lemma W64_val : W64 = 18446744073709551616. Proof. reflexivity. Qed.
Lemma M64 : M 64 = W64. Proof. reflexivity. Qed.
Lemma maxw64 : maxw 64 = max_u64. Proof. reflexivity. Qed.
Lemma max_u64_val : max_u64 = 18446744073709551615. Proof. reflexivity. Qed.

Lemma sat_lt x : sat x < W64.
Proof. unfold sat. rewrite max_u64_val, W64_val. lia. Qed.

Lemma addsat64 a b : a < W64 -> b < W64 -> addsat 64 a b = sat (a + b).
Proof. intros. rewrite addsat_spec by (rewrite M64; assumption). rewrite maxw64. reflexivity. Qed.

Lemma subsat64 a b : a < W64 -> b < W64 -> subsat 64 a b = a - b.
Proof. intros. apply subsat_spec; rewrite M64; assumption. Qed.

Lemma sat_sat_add a b : sat (sat a + b) = sat (a + b).
Proof. unfold sat. rewrite max_u64_val. lia. Qed.

Lemma sat_add_sat a b : sat (a + sat b) = sat (a + b).
Proof. unfold sat. rewrite max_u64_val. lia. Qed.

Lemma sat_small x : x < W64 -> sat x = x.
Proof. unfold sat. rewrite max_u64_val, W64_val. lia. Qed.

Definition int63 (z : Z) : Prop := (- 2 ^ 63 <= z < 2 ^ 63)%Z.

(* ---------- surcharges and fee factors ---------- *)
Lemma surcharge_spec perByte z : perByte < W64 -> int63 z ->
  surcharge perByte z = spec_extra perByte z.
Proof.
  intros Hp Hz. unfold surcharge, spec_extra. rewrite microsMulInt_spec by assumption.
  destruct (Z.ltb_spec z 0) as [Hneg|Hpos]; cbn [fst].
  - replace (Z.to_N z) with 0 by lia. rewrite N.mul_0_r. reflexivity.
  - unfold sat. reflexivity.
Qed.

Lemma spec_extra_lt p z : spec_extra p z < W64.
Proof. apply sat_lt. Qed.

Lemma spec_extra_max0 p z : spec_extra p (Z.max 0 z) = spec_extra p z.
Proof. unfold spec_extra. f_equal. f_equal. lia. Qed.

Lemma fee_factor_spec k perByte noteLen maxNote hbd sing sigc prog basic args maxArg :
  perByte < W64 -> sigc < W64 ->
  int63 (noteLen - maxNote) -> int63 (prog - basic) -> int63 (args - maxArg) ->
  signed_fee_factor sigc
    (txn_fee_factor k perByte noteLen maxNote hbd sing
       (app_contribution perByte prog basic args maxArg)) =
  spec_fee_factor k perByte noteLen maxNote hbd sing sigc prog basic args maxArg.
Proof.
  intros Hp Hs Hn Hpr Ha.
  assert (Hmicro : micro < W64) by reflexivity.
  assert (H0 : 0 < W64) by reflexivity.
  unfold signed_fee_factor, txn_fee_factor, spec_fee_factor, header_contribution, app_contribution.
  assert (Hpr' : int63 (Z.max 0 (prog - basic))) by (unfold int63 in *; lia).
  rewrite !surcharge_spec by assumption.
  rewrite spec_extra_max0.
  rewrite (addsat64 0 (spec_extra perByte (noteLen - maxNote))) by (auto using spec_extra_lt).
  rewrite N.add_0_l. rewrite (sat_small (spec_extra _ _)) by apply spec_extra_lt.
  rewrite (addsat64 micro) by (auto using spec_extra_lt).
  set (base := sat (micro + spec_extra perByte (noteLen - maxNote))).
  assert (Hb : base < W64) by apply sat_lt.
  destruct k.
  - apply addsat64; assumption.
  - apply addsat64; assumption.
  - destruct (perByte =? 0); cbn [negb].
    + destruct sing; [rewrite subsat64 by assumption|]; apply addsat64; try assumption.
      rewrite W64_val in *. lia.
    + destruct hbd; [rewrite subsat64 by assumption|]; apply addsat64; try assumption.
      rewrite W64_val in *. lia.
  - rewrite (addsat64 0 (spec_extra perByte (prog - basic))) by (auto using spec_extra_lt).
    rewrite N.add_0_l. rewrite (sat_small (spec_extra _ (prog - basic))) by apply spec_extra_lt.
    rewrite (addsat64 (spec_extra _ _) (spec_extra _ _)) by apply spec_extra_lt.
    rewrite (addsat64 base) by (auto using sat_lt).
    apply addsat64; [assumption|apply sat_lt].
Qed.

(* ---------- SummarizeFees ---------- *)
Definition gtx_bounded (t : gtx) : Prop :=
  g_factor t < W64 /\ g_fee t < W64 /\ (0 <= g_lsig t)%Z.

Lemma fold_addsat (f : gtx -> N) g : forall a, a < W64 -> Forall (fun t => f t < W64) g ->
  fold_left (fun u t => addsat 64 u (f t)) g a = sat (a + fold_right (fun t s => f t + s) 0 g).
Proof.
  induction g as [|t g IH]; intros a Ha Hg; cbn [fold_left fold_right].
  - rewrite N.add_0_r. symmetry. apply sat_small. exact Ha.
  - inversion Hg as [|? ? Ht Hg']; subst.
    rewrite IH; [|rewrite addsat64 by assumption; apply sat_lt|assumption].
    rewrite addsat64 by assumption. rewrite sat_sat_add. f_equal. lia.
Qed.

Lemma fold_lsig g : forall a, fold_left (fun s t => (s + g_lsig t)%Z) g a = (a + sum_lsig g)%Z.
Proof.
  induction g as [|t g IH]; intros a; cbn [fold_left]; unfold sum_lsig; cbn [fold_right].
  - lia.
  - rewrite IH. unfold sum_lsig. lia.
Qed.

Lemma summarize_spec perByte lsigMax g :
  perByte < W64 -> Forall gtx_bounded g ->
  int63 (sum_lsig g - Z.of_nat (length g) * lsigMax) ->
  summarize perByte lsigMax g = (spec_usage perByte lsigMax g, spec_paid g).
Proof.
  intros Hp Hg Hl. unfold summarize, spec_usage, spec_paid.
  assert (H0 : 0 < W64) by reflexivity.
  assert (Hg1 : Forall (fun t => g_factor t < W64) g)
    by (eapply Forall_impl; [|exact Hg]; intros t [H _]; exact H).
  assert (Hg2 : Forall (fun t => g_fee t < W64) g)
    by (eapply Forall_impl; [|exact Hg]; intros t [_ [H _]]; exact H).
  rewrite (fold_addsat g_factor) by assumption.
  rewrite (fold_addsat g_fee) by assumption.
  rewrite !N.add_0_l. f_equal.
  unfold lsig_contribution. rewrite fold_lsig, Z.add_0_l.
  rewrite surcharge_spec by assumption.
  rewrite addsat64 by (apply sat_lt). rewrite sat_sat_add. reflexivity.
Qed.

(* ---------- CheckGroupFees ---------- *)
Lemma ceil_unique x k r : k * micro = x + r -> r < micro -> k = fee_required x 1.
Proof.
  intros Hk Hr. unfold fee_required. rewrite N.mul_1_r.
  assert (Hm : micro = 1000000) by reflexivity. rewrite Hm in *.
  apply (N.div_unique _ _ _ (1000000 - 1 - r)); lia.
Qed.

Lemma fee_required_ceiling minFee usage :
  minFee * usage <= fee_required minFee usage * 1000000 /\
  forall k, minFee * usage <= k * 1000000 -> fee_required minFee usage <= k.
Proof.
  unfold fee_required. change micro with 1000000. set (x := minFee * usage).
  pose proof (N.div_mod (x + (1000000 - 1)) 1000000 ltac:(discriminate)) as Hdm.
  pose proof (N.mod_upper_bound (x + (1000000 - 1)) 1000000 ltac:(discriminate)) as Hub.
  split; [lia|]. intros k Hk.
  apply N.lt_succ_r. apply N.div_lt_upper_bound; [discriminate|]. lia.
Qed.

Lemma fee_required_mul minFee usage : fee_required minFee usage = fee_required (minFee * usage) 1.
Proof. unfold fee_required. rewrite N.mul_1_r. reflexivity. Qed.

(* the fee CheckGroupFees computes is ceil(minFee*usage/10^6); overflow iff that needs > 64 bits *)
Lemma group_fee_needed minFee usage :
  minFee < W64 -> usage < W64 ->
  let '(needed, _, o) := feeForUsage minFee usage micro 0 in
  (o = false -> needed = fee_required minFee usage /\ needed < W64) /\
  (o = true -> W64 <= fee_required minFee usage).
Proof.
  intros Hm Hu.
  assert (Hmicro : micro < W64) by reflexivity.
  assert (H0 : 0 < feeResidueScale) by reflexivity.
  pose proof (feeForUsage_exact minFee usage micro 0 Hm Hu Hmicro H0) as H.
  cbv zeta in H.
  destruct (feeForUsage minFee usage micro 0) as [[needed res'] o].
  destruct H as [Hf Ht].
  assert (HS : feeResidueScale = micro * micro) by reflexivity.
  assert (Hmv : micro = 1000000) by reflexivity.
  set (x := minFee * usage) in *.
  rewrite fee_required_mul. fold x.
  split.
  - intros Ho. destruct (Hf Ho) as [Hid [Hres [Hlt _]]]. split; [|exact Hlt].
    rewrite N.add_0_r in Hid.
    (* needed * S = x * micro + res'  ->  res' is a multiple of micro *)
    assert (Hdiv : res' = micro * (res' / micro)).
    { pose proof (N.div_mod res' micro ltac:(lia)) as Hdm.
      assert (Hz : res' mod micro = 0).
      { replace res' with (needed * feeResidueScale - x * micro) by lia.
        rewrite HS. replace (needed * (micro * micro) - x * micro) with ((needed * micro - x) * micro) by nia.
        apply N.mod_mul. lia. }
      lia. }
    apply (ceil_unique x needed (res' / micro)).
    + rewrite HS in Hid. nia.
    + apply N.div_lt_upper_bound; [lia|]. rewrite <- HS. exact Hres.
  - intros Ho. destruct (Ht Ho) as [_ [_ Hbig]].
    unfold fee_required. rewrite N.mul_1_r.
    replace (minFee * usage * micro) with (x * micro) in Hbig by reflexivity.
    rewrite HS in Hbig.
    assert (Hq : x * micro / (micro * micro) = x / micro).
    { rewrite N.div_mul_cancel_r by lia. reflexivity. }
    assert (Hr : (x * micro) mod (micro * micro) = (x mod micro) * micro).
    { rewrite N.mul_mod_distr_r by lia. reflexivity. }
    rewrite Hq, Hr in Hbig.
    pose proof (N.div_mod x micro ltac:(lia)) as Hdm.
    pose proof (N.mod_upper_bound x micro ltac:(lia)) as Hub.
    destruct Hbig as [Hge|[Heq Hpos]].
    + apply (N.le_trans _ (x / micro)); [exact Hge|].
      apply N.div_le_mono; lia.
    + assert (Hxm : 0 < x mod micro) by nia.
      assert (Hle : (x / micro + 1) * micro <= x + (micro - 1)) by nia.
      pose proof (N.div_le_lower_bound (x + (micro - 1)) micro (x / micro + 1) ltac:(lia)) as Hlb.
      assert (x / micro + 1 <= (x + (micro - 1)) / micro) by (apply Hlb; lia).
      unfold max64 in Heq. change (2 ^ 64) with W64 in Heq. rewrite W64_val in *. lia.
Qed.

Lemma check_group_fees_spec paid usage minFee :
  minFee < W64 -> usage < W64 ->
  match check_group_fees paid usage minFee with
  | GFOk => fee_required minFee usage < W64 /\ fee_required minFee usage <= paid
  | GFOverflow => W64 <= fee_required minFee usage
  | GFTooLow n => n = fee_required minFee usage /\ n < W64 /\ paid < n
  end.
Proof.
  intros Hm Hu. pose proof (group_fee_needed minFee usage Hm Hu) as H.
  unfold check_group_fees.
  destruct (feeForUsage minFee usage micro 0) as [[needed res'] o].
  destruct H as [Hf Ht]. destruct o.
  - apply Ht. reflexivity.
  - destruct (Hf eq_refl) as [Hn Hlt]. subst needed.
    destruct (N.ltb_spec paid (fee_required minFee usage)); [auto|split; assumption].
Qed.

Lemma check_group_fees_iff paid usage minFee :
  minFee < W64 -> usage < W64 ->
  (check_group_fees paid usage minFee = GFOk <->
   fee_required minFee usage < 2 ^ 64 /\ fee_required minFee usage <= paid).
Proof.
  intros Hm Hu. pose proof (check_group_fees_spec paid usage minFee Hm Hu) as H.
  change (2 ^ 64) with W64.
  destruct (check_group_fees paid usage minFee) as [| |n].
  - split; [intros _; exact H|reflexivity].
  - split; [discriminate|]. intros [H1 _]. lia.
  - split; [discriminate|]. intros [_ H2]. destruct H as [-> [_ H]]. lia.
Qed.

Lemma spec_accepts_iff paid usage minFee :
  spec_accepts paid usage minFee = true <->
  fee_required minFee usage < 2 ^ 64 /\ fee_required minFee usage <= paid.
Proof. unfold spec_accepts. rewrite andb_true_iff, N.ltb_lt, N.leb_le. reflexivity. Qed.

Lemma group_fee_check_spec minFee perByte lsigMax g :
  minFee < W64 -> perByte < W64 -> Forall gtx_bounded g ->
  int63 (sum_lsig g - Z.of_nat (length g) * lsigMax) ->
  let '(usage, paid, r) := group_fee_check minFee perByte lsigMax g in
  usage = spec_usage perByte lsigMax g /\ paid = spec_paid g /\
  (r = GFOk <-> fee_required minFee usage < 2 ^ 64 /\ fee_required minFee usage <= paid).
Proof.
  intros Hm Hp Hg Hl. unfold group_fee_check.
  rewrite summarize_spec by assumption.
  split; [reflexivity|]. split; [reflexivity|].
  apply check_group_fees_iff; [assumption|apply sat_lt].
Qed.

(* ---------- proposerPayout ---------- *)
Lemma available_balance_spec bal minbal : bal < W64 -> minbal < W64 ->
  available_balance bal minbal = sink_spare bal minbal.
Proof.
  intros Hb Hm. unfold available_balance, sink_spare.
  rewrite osub_spec by (rewrite M64; assumption). rewrite M64.
  destruct (N.ltb_spec bal minbal) as [H|H]; [lia|].
  rewrite mod_once by (rewrite W64_val in *; lia). lia.
Qed.

Lemma oadd64 a b : a < W64 -> b < W64 ->
  oadd 64 a b = ((a + b) mod W64, W64 <=? a + b).
Proof. intros. rewrite oadd_spec by (rewrite M64; assumption). reflexivity. Qed.

Lemma proposer_payout_spec pct fees bonus sink smin :
  pct < W64 -> fees < W64 -> bonus < W64 -> sink < W64 -> smin < W64 ->
  proposer_payout pct fees bonus sink smin =
    if 100 <? pct then PPPanic
    else if W64 <=? payout_cap pct fees bonus then PPErrBonus
    else PPOk (payout_limit pct fees bonus sink smin).
Proof.
  intros Hp Hf Hb Hs Hm. unfold proposer_payout.
  destruct (N.ltb_spec 100 pct) as [Hgt|Hle]; [reflexivity|].
  assert (H100 : 100 < W64) by reflexivity.
  destruct (divvy_exact pct 100 fees Hle ltac:(discriminate) H100 Hf) as [inc [rest [Hd [Hinc _]]]].
  rewrite Hd. subst inc. rewrite oadd64; [|
    apply (N.le_lt_trans _ fees); [apply N.div_le_upper_bound; [discriminate|nia]|exact Hf] | assumption].
  unfold payout_cap.
  destruct (N.leb_spec W64 (fees * pct / 100 + bonus)) as [H|H]; [reflexivity|].
  rewrite N.mod_small by exact H. unfold payout_limit, payout_cap.
  rewrite available_balance_spec by assumption. reflexivity.
Qed.

(* ---------- validateForPayouts ---------- *)
Definition pi_bounded (i : payout_in) : Prop :=
  pi_pct i < W64 /\ pi_hdr_fees i < W64 /\ pi_state_fees i < W64 /\ pi_bonus i < W64 /\
  pi_sink i < W64 /\ pi_sink_min i < W64 /\ pi_payout i < W64.

Definition limit_of (i : payout_in) : N :=
  payout_limit (pi_pct i) (pi_hdr_fees i) (pi_bonus i) (pi_sink i) (pi_sink_min i).

Lemma validate_enabled_iff i : pi_bounded i -> pi_enabled i = true ->
  (validate_for_payouts i = VPOk <->
   pi_hdr_fees i = pi_state_fees i /\
   pi_pct i <= 100 /\
   payout_cap (pi_pct i) (pi_hdr_fees i) (pi_bonus i) < W64 /\
   pi_payout i <= limit_of i /\
   (pi_generate i = true \/
    (pi_prop_zero i = false /\ (pi_payout i = 0 \/ pi_prop_closed i = false)))).
Proof.
  intros [Hp [Hf [Hsf [Hb [Hs [Hm Hpay]]]]]] Hen.
  unfold validate_for_payouts, limit_of. rewrite Hen. cbn [negb].
  destruct (N.eqb_spec (pi_hdr_fees i) (pi_state_fees i)) as [Heq|Hne]; cbn [negb].
  2:{ split; [discriminate|]. intros [H _]. contradiction. }
  rewrite proposer_payout_spec by assumption.
  destruct (N.ltb_spec 100 (pi_pct i)) as [H1|H1].
  { split; [discriminate|]. intros [_ [H _]]. lia. }
  destruct (N.leb_spec W64 (payout_cap (pi_pct i) (pi_hdr_fees i) (pi_bonus i))) as [H2|H2].
  { split; [discriminate|]. intros [_ [_ [H _]]]. lia. }
  destruct (N.ltb_spec (payout_limit (pi_pct i) (pi_hdr_fees i) (pi_bonus i) (pi_sink i) (pi_sink_min i)) (pi_payout i)) as [H3|H3].
  { split; [discriminate|]. intros [_ [_ [_ [H _]]]]. lia. }
  destruct (pi_generate i); cbn [negb].
  { split; [intros _|reflexivity]. repeat (split; [assumption|]). left. reflexivity. }
  destruct (pi_prop_zero i).
  { split; [discriminate|]. intros [_ [_ [_ [_ [H|[H _]]]]]]; discriminate. }
  destruct (N.eqb_spec (pi_payout i) 0) as [Hz|Hz]; cbn [negb].
  { split; [intros _|reflexivity]. repeat (split; [assumption|]). right. split; [reflexivity|left; exact Hz]. }
  destruct (pi_prop_closed i).
  { split; [discriminate|]. intros [_ [_ [_ [_ [H|[_ [H|H]]]]]]]; [discriminate|contradiction|discriminate]. }
  split; [intros _|reflexivity]. repeat (split; [assumption|]). right. split; [reflexivity|right; reflexivity].
Qed.

Lemma validate_disabled_iff i : pi_enabled i = false ->
  (validate_for_payouts i = VPOk <->
   pi_hdr_fees i = 0 /\ pi_prop_zero i = true /\ pi_payout i = 0).
Proof.
  intros Hen. unfold validate_for_payouts. rewrite Hen. cbn [negb].
  destruct (N.eqb_spec (pi_hdr_fees i) 0); cbn [negb]; [|split; [discriminate|intros [? _]; contradiction]].
  destruct (pi_prop_zero i); cbn [negb]; [|split; [discriminate|intros [_ [? _]]; discriminate]].
  destruct (N.eqb_spec (pi_payout i) 0); cbn [negb]; [|split; [discriminate|intros [_ [_ ?]]; contradiction]].
  split; auto.
Qed.

Lemma payout_bound i : pi_bounded i -> pi_enabled i = true ->
  validate_for_payouts i = VPOk ->
  pi_hdr_fees i = pi_state_fees i /\
  pi_payout i <= N.min (pi_hdr_fees i * pi_pct i / 100 + pi_bonus i) (pi_sink i - pi_sink_min i).
Proof.
  intros Hb Hen Hok. apply (validate_enabled_iff i Hb Hen) in Hok.
  destruct Hok as [H1 [_ [_ [H4 _]]]]. split; [exact H1|exact H4].
Qed.

Lemma payout_overclaim_rejected i : pi_bounded i -> pi_enabled i = true ->
  N.min (pi_hdr_fees i * pi_pct i / 100 + pi_bonus i) (pi_sink i - pi_sink_min i) < pi_payout i ->
  validate_for_payouts i <> VPOk.
Proof.
  intros Hb Hen Hgt Hok. pose proof (payout_bound i Hb Hen Hok) as [_ H]. lia.
Qed.

(* when nothing overflows (always for pct <= 100 and fees + bonus in range) the rejection is
   the "wants ..., ... is allowed" error carrying exactly the bound *)
Lemma payout_overclaim_error i : pi_bounded i -> pi_enabled i = true ->
  pi_hdr_fees i = pi_state_fees i -> pi_pct i <= 100 ->
  payout_cap (pi_pct i) (pi_hdr_fees i) (pi_bonus i) < W64 ->
  limit_of i < pi_payout i ->
  validate_for_payouts i = VPTooMuch (limit_of i).
Proof.
  intros [Hp [Hf [Hsf [Hb [Hs [Hm Hpay]]]]]] Hen Heq Hpct Hcap Hgt.
  unfold validate_for_payouts, limit_of in *. rewrite Hen. cbn [negb].
  rewrite (proj2 (N.eqb_eq _ _) Heq). cbn [negb].
  rewrite proposer_payout_spec by assumption.
  destruct (N.ltb_spec 100 (pi_pct i)); [lia|].
  destruct (N.leb_spec W64 (payout_cap (pi_pct i) (pi_hdr_fees i) (pi_bonus i))); [lia|].
  rewrite (proj2 (N.ltb_lt _ _) Hgt). reflexivity.
Qed.

(* ---------- performPayout ---------- *)
Lemma with_rewards_ge unit st algos base level x : algos < W64 -> base < W64 -> level < W64 ->
  with_rewards unit st algos base level = Some x -> algos <= x /\ x < W64.
Proof.
  intros Ha Hb Hl. unfold with_rewards.
  destruct (st =? 2); [intros H; inversion H; subst; lia|].
  destruct (unit =? 0) eqn:Hu; [discriminate|]. apply N.eqb_neq in Hu.
  assert (Hunits : algos / unit < M 64).
  { rewrite M64. apply (N.le_lt_trans _ algos); [|exact Ha]. apply N.div_le_upper_bound; [exact Hu|]. nia. }
  rewrite osub_spec by (rewrite M64; assumption).
  set (delta := (level + M 64 - base) mod M 64).
  assert (Hd : delta < M 64) by (apply N.mod_upper_bound; rewrite M64; discriminate).
  pose proof (omul_exact 64 (algos / unit) delta Hunits Hd) as [[Ho1 Ho2] [Hf Ht]].
  destruct (omul 64 (algos / unit) delta) as [rw o2]. cbn [fst snd] in *.
  destruct o2.
  { rewrite orb_true_r. destruct (oadd 64 algos rw); discriminate. }
  specialize (Hf eq_refl).
  assert (Hrw : rw < W64).
  { destruct (N.lt_ge_cases rw W64) as [|Hge]; [assumption|].
    rewrite <- M64 in Hge. rewrite Hf in Hge. specialize (Ho2 Hge). discriminate. }
  rewrite oadd64 by assumption.
  destruct (level <? base); cbn [orb]; [discriminate|].
  destruct (N.leb_spec W64 (algos + rw)) as [Hov|Hov]; [discriminate|].
  intros Hx. inversion Hx; subst. rewrite N.mod_small by assumption. split; [apply N.le_add_r|exact Hov].
Qed.

Lemma perform_payout_moved pz payout sinkUp propUp s' p' : payout < W64 ->
  perform_payout pz payout sinkUp propUp = PFMoved s' p' ->
  exists s p, sinkUp = Some s /\ propUp = Some p /\
    (s < W64 -> payout <= s /\ s' = s - payout) /\ (p < W64 -> p' = p + payout /\ p' < W64).
Proof.
  intros Hpay. unfold perform_payout.
  destruct pz; [discriminate|]. destruct (payout =? 0); [discriminate|].
  destruct sinkUp as [s|]; [|discriminate].
  destruct (osub 64 s payout) as [s1 o] eqn:Hsub. destruct o; [discriminate|].
  destruct propUp as [p|]; [|discriminate].
  destruct (oadd 64 p payout) as [p1 o2] eqn:Hadd. destruct o2; [discriminate|].
  intros H. inversion H; subst. exists s, p. split; [reflexivity|]. split; [reflexivity|]. split.
  - intros Hs. rewrite osub_spec in Hsub by (rewrite M64; assumption). rewrite M64 in Hsub.
    inversion Hsub as [[H1 H2]]. apply N.ltb_ge in H2. split; [exact H2|].
    rewrite mod_once by (rewrite W64_val in *; lia). lia.
  - intros Hp. rewrite oadd64 in Hadd by assumption. inversion Hadd as [[H1 H2]].
    apply N.leb_gt in H2. rewrite N.mod_small by assumption. split; [reflexivity|assumption].
Qed.

(* an accepted payout leaves the sink at or above its minimum (if it was there), and the
   transfer can never fail for lack of funds *)
Lemma sink_stays_above_min i sinkUp propUp :
  pi_bounded i -> pi_enabled i = true -> validate_for_payouts i = VPOk ->
  pi_sink i <= sinkUp -> sinkUp < W64 ->
  perform_payout (pi_prop_zero i) (pi_payout i) (Some sinkUp) propUp <> PFOverspend /\
  (forall s' p', perform_payout (pi_prop_zero i) (pi_payout i) (Some sinkUp) propUp = PFMoved s' p' ->
     s' = sinkUp - pi_payout i /\ pi_payout i <= sinkUp /\
     (pi_sink_min i <= pi_sink i -> pi_sink_min i <= s') /\
     (pi_sink i < pi_sink_min i -> False)).
Proof.
  intros Hb Hen Hok Hge Hlt.
  pose proof (payout_bound i Hb Hen Hok) as [_ Hbound].
  destruct Hb as [Hp [Hf [Hsf [Hbn [Hs [Hm Hpay]]]]]].
  assert (Hle : pi_payout i <= pi_sink i - pi_sink_min i) by lia.
  split.
  - unfold perform_payout. destruct (pi_prop_zero i); [discriminate|].
    destruct (pi_payout i =? 0); [discriminate|].
    rewrite osub_spec by (rewrite M64; assumption).
    destruct (N.ltb_spec sinkUp (pi_payout i)); [lia|].
    destruct propUp as [p|]; [|discriminate].
    destruct (oadd 64 p (pi_payout i)) as [? []]; discriminate.
  - intros s' p' Hmv.
    assert (Hnz : pi_payout i <> 0).
    { unfold perform_payout in Hmv. destruct (pi_prop_zero i); [discriminate|].
      destruct (N.eqb_spec (pi_payout i) 0); [discriminate|assumption]. }
    destruct (perform_payout_moved _ _ _ _ _ _ Hpay Hmv) as [s [p [Hs1 [_ [Hs2 _]]]]].
    inversion Hs1; subst s. destruct (Hs2 Hlt) as [H1 H2].
    split; [exact H2|]. split; [exact H1|]. split; lia.
Qed.

(* ---------- the oracle used on implementation observations ---------- *)
Definition pf_of (r : pfres) : pf_obs :=
  match r with
  | PFNoop => PONoop | PFMoved s p => POMoved s p | PFOverspend => POOverspend
  | PFOverflow => POOverflow | PFPanic => POPanic
  end.

(* what [spec_payout_ok] says, as a proposition *)
Lemma spec_payout_ok_sound i pf : spec_payout_ok i true pf = true ->
  if pi_enabled i then
    pi_hdr_fees i = pi_state_fees i /\
    pi_payout i <= pi_hdr_fees i * pi_pct i / 100 + pi_bonus i /\
    pi_payout i <= pi_sink i - pi_sink_min i /\
    pf <> POOverspend /\
    (forall s' p', pf = POMoved s' p' ->
       pi_sink i <= s' + pi_payout i /\ (pi_sink_min i <= pi_sink i -> pi_sink_min i <= s'))
  else pi_payout i = 0 /\ pi_hdr_fees i = 0.
Proof.
  unfold spec_payout_ok. cbn [negb]. destruct (pi_enabled i); cbn [negb].
  - rewrite !andb_true_iff, N.eqb_eq, !N.leb_le. unfold payout_cap, sink_spare.
    intros [[[H1 H2] H3] H4]. repeat (split; [assumption|]). split.
    + intros ->. discriminate.
    + intros s' p' ->. rewrite andb_true_iff, orb_true_iff, N.leb_le, N.ltb_lt, N.leb_le in H4. lia.
  - rewrite andb_true_iff, !N.eqb_eq. auto.
Qed.

(* the model meets the oracle on every input: this is the property *)
Lemma model_meets_payout_oracle i sinkUp propUp :
  pi_bounded i -> pi_sink i <= sinkUp -> sinkUp < W64 ->
  spec_payout_ok i
    (match validate_for_payouts i with VPOk => true | _ => false end)
    (pf_of (perform_payout (pi_prop_zero i) (pi_payout i) (Some sinkUp) propUp)) = true.
Proof.
  intros Hb Hge Hlt. unfold spec_payout_ok.
  destruct (validate_for_payouts i) eqn:Hv; try reflexivity. cbn [negb].
  destruct (pi_enabled i) eqn:Hen; cbn [negb].
  - pose proof (payout_bound i Hb Hen Hv) as [Hfe Hbound].
    pose proof (sink_stays_above_min i sinkUp propUp Hb Hen Hv Hge Hlt) as [Hno Hmv].
    unfold payout_cap, sink_spare.
    rewrite (proj2 (N.eqb_eq _ _) Hfe).
    rewrite (proj2 (N.leb_le _ _)) by lia. rewrite (proj2 (N.leb_le _ _)) by lia. cbn [andb].
    destruct (perform_payout (pi_prop_zero i) (pi_payout i) (Some sinkUp) propUp) as [|s' p'| | |] eqn:Hp;
      cbn [pf_of]; try reflexivity; [|contradiction].
    destruct (Hmv s' p' eq_refl) as [H1 [H2 [H3 H4]]].
    rewrite andb_true_iff, orb_true_iff, N.leb_le, N.ltb_lt, N.leb_le.
    split; [lia|]. destruct (N.lt_ge_cases (pi_sink i) (pi_sink_min i)); [left; assumption|right; auto].
  - apply (validate_disabled_iff i Hen) in Hv. destruct Hv as [H1 [_ H3]].
    rewrite H1, H3. reflexivity.
Qed.
