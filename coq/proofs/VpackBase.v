(* C42: elementary facts about the readers of model/Vpack.v *)
From Coq Require Import NArith List Bool String Ascii Lia ZifyN ZifyNat ZifyBool Arith.
From Verif.lib Require Import Term.
From Verif.model Require Import Vpack VpackSpec.
Import ListNotations.
Open Scope N_scope.

Lemma list_eqb_N_eq : forall a b : list N, list_eqb N.eqb a b = true <-> a = b.
Proof.
  induction a as [|x a IH]; destruct b as [|y b]; simpl; split; intro H; try discriminate; auto.
  - apply andb_true_iff in H as [H1 H2]. apply N.eqb_eq in H1. apply IH in H2. congruence.
  - inversion H; subst. rewrite N.eqb_refl. simpl. apply IH. reflexivity.
Qed.

Lemma bytes_eqb_eq : forall a b, bytes_eqb a b = true <-> a = b.
Proof. exact list_eqb_N_eq. Qed.

Lemma bytes_eqb_refl : forall a, bytes_eqb a a = true.
Proof. intro a. apply bytes_eqb_eq. reflexivity. Qed.

Lemma bytes_eqb_neq : forall a b, bytes_eqb a b = false <-> a <> b.
Proof.
  intros a b. split; intro H.
  - intro E. apply bytes_eqb_eq in E. congruence.
  - destruct (bytes_eqb a b) eqn:E; auto. apply bytes_eqb_eq in E. contradiction.
Qed.

Lemma is_nil_true : forall b, is_nil b = true <-> b = [].
Proof. destruct b; simpl; split; intro; congruence. Qed.

(* ---- bind inversion ---- *)
Lemma bind_some : forall {A B} (o : option A) (f : A -> option B) r,
  bind o f = Some r -> exists a, o = Some a /\ f a = Some r.
Proof. intros A B [a|] f r H; simpl in H; [eauto | discriminate]. Qed.

(* ---- take_n ---- *)
Lemma take_n_inv : forall n l d r, take_n n l = Some (d, r) -> l = d ++ r /\ List.length d = n.
Proof.
  unfold take_n. intros n l d r H. destruct (Nat.leb n (List.length l)) eqn:E; [|discriminate].
  inversion H; subst. apply Nat.leb_le in E. split.
  - symmetry. apply firstn_skipn.
  - apply firstn_length_le. exact E.
Qed.

Lemma take_n_app : forall d r, take_n (List.length d) (d ++ r) = Some (d, r).
Proof.
  intros d r. unfold take_n. rewrite app_length.
  replace (Nat.leb (List.length d) (List.length d + List.length r)) with true
    by (symmetry; apply Nat.leb_le; lia).
  f_equal. f_equal.
  - rewrite firstn_app, Nat.sub_diag, firstn_all. simpl. apply app_nil_r.
  - rewrite skipn_app, Nat.sub_diag, skipn_all. reflexivity.
Qed.

Lemma take_n_app' : forall n d r, List.length d = n -> take_n n (d ++ r) = Some (d, r).
Proof. intros; subst; apply take_n_app. Qed.

(* ---- varuints ---- *)
Lemma is_varuint_cons : forall d, is_varuint d = true ->
  exists b r k, d = b :: r /\ varuint_more b = Some k /\ List.length r = k.
Proof.
  intros [|b r] H; simpl in H; [discriminate|].
  destruct (varuint_more b) as [k|] eqn:E; [|discriminate].
  apply Nat.eqb_eq in H. exists b, r, k. auto.
Qed.

Lemma read_varuint_bytes_inv : forall l d r,
  read_varuint_bytes l = Some (d, r) -> l = d ++ r /\ is_varuint d = true.
Proof.
  intros [|b l'] d r H; simpl in H; [discriminate|].
  apply bind_some in H as (k & Hk & H).
  apply take_n_inv in H as [Hl Hlen]. split; [exact Hl|].
  destruct d as [|b' d']; [simpl in Hlen; discriminate|].
  simpl in Hl. inversion Hl; subst b'. simpl. rewrite Hk.
  simpl in Hlen. apply Nat.eqb_eq. lia.
Qed.

Lemma read_varuint_bytes_app : forall d r, is_varuint d = true -> read_varuint_bytes (d ++ r) = Some (d, r).
Proof.
  intros d r H. apply is_varuint_cons in H as (b & t & k & -> & Hk & Hlen).
  simpl. rewrite Hk. simpl.
  change (b :: t ++ r) with ((b :: t) ++ r). apply take_n_app'. simpl. lia.
Qed.

Lemma is_varuint_not_nil : forall d, is_varuint d = true -> is_nil d = false.
Proof. intros [|b r] H; [discriminate | reflexivity]. Qed.

(* lengths of accepted varuint encodings *)
Lemma varuint_more_cases : forall b k, varuint_more b = Some k ->
  (b = 204 /\ k = 1%nat) \/ (b = 205 /\ k = 2%nat) \/ (b = 206 /\ k = 4%nat) \/ (b = 207 /\ k = 8%nat) \/
  (b < 128 /\ k = 0%nat).
Proof.
  unfold varuint_more. intros b k H.
  destruct (b =? 204) eqn:E1; [apply N.eqb_eq in E1; inversion H; auto|].
  destruct (b =? 205) eqn:E2; [apply N.eqb_eq in E2; inversion H; auto|].
  destruct (b =? 206) eqn:E3; [apply N.eqb_eq in E3; inversion H; auto 6|].
  destruct (b =? 207) eqn:E4; [apply N.eqb_eq in E4; inversion H; auto 6|].
  destruct (N.shiftr b 7 =? 0) eqn:E5; [|discriminate].
  inversion H. right; right; right; right. split; [|reflexivity].
  apply N.eqb_eq in E5. rewrite N.shiftr_div_pow2 in E5.
  change (2 ^ 7) with 128 in E5. apply N.div_small_iff in E5; lia.
Qed.

Lemma varuint_more_fixint : forall b, b < 128 -> varuint_more b = Some 0%nat.
Proof.
  intros b H. unfold varuint_more.
  replace (b =? 204) with false by (symmetry; apply N.eqb_neq; lia).
  replace (b =? 205) with false by (symmetry; apply N.eqb_neq; lia).
  replace (b =? 206) with false by (symmetry; apply N.eqb_neq; lia).
  replace (b =? 207) with false by (symmetry; apply N.eqb_neq; lia).
  rewrite N.shiftr_div_pow2. change (2 ^ 7) with 128. rewrite N.div_small by lia. reflexivity.
Qed.

(* ---- Forall byte ---- *)
Definition bytes_ok (l : bytes) : Prop := Forall (fun b => b < 256) l.

Lemma all_bytes_ok : forall l, all_bytes l = true <-> bytes_ok l.
Proof.
  unfold all_bytes, bytes_ok. intro l. rewrite forallb_forall, Forall_forall.
  unfold is_byte. split; intros H x Hx; specialize (H x Hx); [apply N.ltb_lt | apply N.ltb_lt]; exact H.
Qed.

Lemma bytes_ok_app : forall a b, bytes_ok (a ++ b) <-> bytes_ok a /\ bytes_ok b.
Proof. intros. unfold bytes_ok. apply Forall_app. Qed.

(* ---- big-endian values ---- *)
Lemma be_val_app : forall l acc b, be_val acc (l ++ [b]) = be_val acc l * 256 + b.
Proof. induction l as [|x l IH]; intros; simpl; [reflexivity | apply IH]. Qed.

Lemma be_val_bound : forall l acc, bytes_ok l ->
  be_val acc l < (acc + 1) * 256 ^ N.of_nat (List.length l).
Proof.
  induction l as [|x l IH]; intros acc Hok.
  - simpl. lia.
  - simpl List.length. rewrite Nat2N.inj_succ, N.pow_succ_r'. simpl be_val.
    inversion Hok; subst.
    pose proof (IH (acc * 256 + x) H2) as Hx.
    eapply N.lt_le_trans; [exact Hx|].
    rewrite N.mul_assoc. apply N.mul_le_mono_r. lia.
Qed.

Lemma be_val0_bound : forall l, bytes_ok l -> be_val 0 l < 256 ^ N.of_nat (List.length l).
Proof.
  intros l H. pose proof (be_val_bound l 0 H) as B. rewrite N.add_0_l, N.mul_1_l in B. exact B.
Qed.

Lemma be_bytes_val : forall l, bytes_ok l -> be_bytes (List.length l) (be_val 0 l) = l.
Proof.
  intro l. induction l as [|b l IH] using rev_ind; intro H; [reflexivity|].
  apply bytes_ok_app in H as [Hl Hb]. inversion Hb; subst.
  rewrite app_length. simpl List.length. rewrite Nat.add_1_r. simpl be_bytes.
  rewrite be_val_app.
  replace ((be_val 0 l * 256 + b) / 256) with (be_val 0 l)
    by (symmetry; rewrite N.mul_comm, N.add_comm, (N.mul_comm 256); rewrite N.div_add by lia; rewrite N.div_small by lia; lia).
  replace ((be_val 0 l * 256 + b) mod 256) with b
    by (symmetry; rewrite N.add_comm, N.mod_add by lia; apply N.mod_small; lia).
  rewrite IH by exact Hl. reflexivity.
Qed.
