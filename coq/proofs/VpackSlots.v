(* C42: a list of items with strictly increasing ranks below a bound is determined by its
   "slots" (the item of rank j, if any): every monoid-valued summary of the list is the
   summary of the slots 0, 1, ..., bound-1 in that order.  Used to show that a msgpack map
   whose keys the (fixed) parser accepted in strictly ascending order is THE canonical
   encoding, key by key. *)
From Coq Require Import List Arith Lia.
Import ListNotations.

Section Slots.
  Variables (A M : Type) (rk : A -> nat) (op : M -> M -> M) (e : M) (f : A -> M).
  Hypothesis op_e_l : forall x, op e x = x.

  Definition mcat (l : list M) : M := fold_right op e l.
  Definition slot (j : nat) (l : list A) : option A := find (fun it => Nat.eqb (rk it) j) l.
  Definition fslot (j : nat) (l : list A) : M := match slot j l with Some it => f it | None => e end.

  Inductive incr_from : nat -> list A -> Prop :=
  | incr_nil : forall lo, incr_from lo []
  | incr_cons : forall lo it l, lo <= rk it -> incr_from (S (rk it)) l -> incr_from lo (it :: l).

  Lemma incr_from_ge : forall lo l, incr_from lo l -> forall x, In x l -> lo <= rk x.
  Proof.
    intros lo l H. induction H as [|lo it l Hle Hl IH]; intros x Hx; [inversion Hx|].
    destruct Hx as [->|Hx]; [assumption|]. specialize (IH x Hx). lia.
  Qed.

  Lemma incr_from_weaken : forall lo lo' l, incr_from lo l -> lo' <= lo -> incr_from lo' l.
  Proof. intros lo lo' l H Hle. destruct H; constructor; [lia | assumption]. Qed.

  Lemma slot_none_below : forall lo l j, incr_from lo l -> j < lo -> slot j l = None.
  Proof.
    intros lo l j H Hj. unfold slot.
    pose proof (incr_from_ge lo l H) as G. clear H.
    induction l as [|x l IH]; [reflexivity|]. simpl.
    pose proof (G x (or_introl eq_refl)).
    replace (Nat.eqb (rk x) j) with false by (symmetry; apply Nat.eqb_neq; lia).
    apply IH. intros y Hy. apply G. right. assumption.
  Qed.

  Lemma slot_some : forall j l it, slot j l = Some it -> In it l /\ rk it = j.
  Proof.
    unfold slot. intros j l it H. apply find_some in H as [H1 H2]. apply Nat.eqb_eq in H2. auto.
  Qed.

  Lemma slots_mcat : forall n lo l,
    incr_from lo l -> (forall x, In x l -> rk x < lo + n) ->
    mcat (map f l) = mcat (map (fun j => fslot j l) (seq lo n)).
  Proof.
    induction n as [|n IH]; intros lo l Hincr Hb.
    - destruct l as [|it l]; [reflexivity|]. exfalso.
      pose proof (Hb it (or_introl eq_refl)). pose proof (incr_from_ge lo _ Hincr it (or_introl eq_refl)). lia.
    - simpl seq. simpl map. simpl mcat. fold (mcat (map (fun j => fslot j l) (seq (S lo) n))).
      destruct l as [|it l'].
      + unfold fslot at 1. simpl. rewrite op_e_l.
        apply (IH (S lo) []); [constructor | intros x []].
      + inversion Hincr as [|? ? ? Hle Hl']; subst.
        destruct (Nat.eq_dec (rk it) lo) as [Heq|Hne].
        * (* the head fills slot lo *)
          unfold fslot at 1, slot. simpl find. rewrite (proj2 (Nat.eqb_eq _ _) Heq).
          simpl map. simpl mcat. f_equal. fold (mcat (map f l')).
          rewrite (IH (S lo) l').
          -- f_equal. apply map_ext_in. intros j Hj. apply in_seq in Hj.
             unfold fslot, slot. simpl find.
             replace (Nat.eqb (rk it) j) with false by (symmetry; apply Nat.eqb_neq; lia). reflexivity.
          -- rewrite <- Heq. assumption.
          -- intros x Hx. pose proof (Hb x (or_intror Hx)). lia.
        * (* slot lo is empty *)
          unfold fslot at 1. rewrite (slot_none_below (S lo) (it :: l') lo); [|constructor; [lia|assumption] | lia].
          rewrite op_e_l.
          apply (IH (S lo) (it :: l')); [constructor; [lia | assumption]|].
          intros x Hx. pose proof (Hb x Hx). lia.
  Qed.
End Slots.

Arguments mcat {M}.
Arguments slot {A}.
Arguments fslot {A M}.
Arguments incr_from {A}.
