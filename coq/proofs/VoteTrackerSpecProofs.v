(* C06: facts about the declarative specification alone (no tracker state). *)
From Coq Require Import NArith List Bool String Lia ZifyN ZifyNat ZifyBool Permutation.
From Verif.model Require Import VoteTracker VoteTrackerSpec.
From Verif.proofs Require Import VoteTrackerLists.
Import ListNotations.
Open Scope N_scope.

(* ---------- status / senders under extension by one vote ---------- *)
Lemma status_snoc h x s :
  status_of (h ++ [x]) s = if v_sender x =? s then status_step (status_of h s) x else status_of h s.
Proof. unfold status_of. rewrite fold_left_app. reflexivity. Qed.

Lemma senders_snoc h x :
  senders (h ++ [x]) = if memN (v_sender x) (senders h) then senders h else senders h ++ [v_sender x].
Proof. unfold senders. rewrite map_app. cbn [map]. apply dedup_snoc. Qed.

Lemma values_snoc h x :
  values (h ++ [x]) = if memN (v_value x) (values h) then values h else values h ++ [v_value x].
Proof. unfold values. rewrite map_app. cbn [map]. apply dedup_snoc. Qed.

Lemma senders_nodup h : NoDup (senders h).
Proof. apply dedup_nodup. Qed.
Lemma values_nodup h : NoDup (values h).
Proof. apply dedup_nodup. Qed.

Lemma senders_in h s : In s (senders h) <-> exists x, In x h /\ v_sender x = s.
Proof. unfold senders. rewrite dedup_in, in_map_iff. split; intros [x [A B]]; exists x; tauto. Qed.
Lemma values_in h p : In p (values h) <-> exists x, In x h /\ v_value x = p.
Proof. unfold values. rewrite dedup_in, in_map_iff. split; intros [x [A B]]; exists x; tauto. Qed.

Lemma values_incl_snoc h x p : In p (values h) -> In p (values (h ++ [x])).
Proof. rewrite !values_in. intros [y [A B]]. exists y. rewrite in_app_iff. tauto. Qed.

Lemma status_unseen h s : ~ In s (senders h) -> status_of h s = SNone.
Proof.
  induction h as [|x h IH] using rev_ind; [reflexivity|].
  intros Hn. rewrite status_snoc. rewrite senders_in in Hn.
  destruct (v_sender x =? s) eqn:E.
  - apply N.eqb_eq in E. exfalso. apply Hn. exists x. rewrite in_app_iff. cbn; tauto.
  - apply IH. rewrite senders_in. intros [y [A B]]. apply Hn. exists y. rewrite in_app_iff. tauto.
Qed.

(* what a status records really happened in the history *)
Lemma status_facts h s :
  match status_of h s with
  | SNone => ~ In s (senders h)
  | SVoted v => In v h /\ v_sender v = s
  | SEquiv v1 v2 => In v1 h /\ In v2 h /\ v_sender v1 = s /\ v_sender v2 = s /\ v_value v1 <> v_value v2
  end.
Proof.
  induction h as [|x h IH] using rev_ind; [cbn; tauto|].
  rewrite status_snoc. destruct (v_sender x =? s) eqn:E.
  - apply N.eqb_eq in E. destruct (status_of h s) as [|v|v1 v2]; cbn [status_step].
    + rewrite in_app_iff. cbn [In]. tauto.
    + destruct (v_value v =? v_value x) eqn:E2.
      * rewrite in_app_iff. tauto.
      * apply N.eqb_neq in E2. rewrite !in_app_iff. cbn [In]. tauto.
    + rewrite !in_app_iff. tauto.
  - apply N.eqb_neq in E. destruct (status_of h s) as [|v|v1 v2].
    + rewrite senders_in in *. intros [y [A B]]. rewrite in_app_iff in A. cbn [In] in A.
      destruct A as [A|[A|[]]]; [apply IH; eauto|subst; contradiction].
    + rewrite in_app_iff. tauto.
    + rewrite !in_app_iff. tauto.
Qed.

Lemma status_voted_in h s v : status_of h s = SVoted v -> In v h /\ v_sender v = s.
Proof. intros H. pose proof (status_facts h s) as F. rewrite H in F. exact F. Qed.
Lemma status_equiv_in h s v1 v2 : status_of h s = SEquiv v1 v2 ->
  In v1 h /\ In v2 h /\ v_sender v1 = s /\ v_sender v2 = s /\ v_value v1 <> v_value v2.
Proof. intros H. pose proof (status_facts h s) as F. rewrite H in F. exact F. Qed.
Lemma status_seen h s : status_of h s <> SNone -> In s (senders h).
Proof.
  intros H. destruct (in_dec N.eq_dec s (senders h)) as [I|I]; [exact I|].
  apply status_unseen in I. contradiction.
Qed.

(* ---------- the generic "one more vote" equation for sums over senders ---------- *)
Lemma spec_sum_snoc (F : status -> N) h x : F SNone = 0 ->
  sumN (map (fun s => F (status_of (h ++ [x]) s)) (senders (h ++ [x]))) + F (status_of h (v_sender x)) =
  sumN (map (fun s => F (status_of h s)) (senders h)) + F (status_step (status_of h (v_sender x)) x).
Proof.
  intros F0. set (s := v_sender x).
  assert (Hs : status_of (h ++ [x]) s = status_step (status_of h s) x).
  { rewrite status_snoc. unfold s. rewrite N.eqb_refl. reflexivity. }
  assert (Hext : forall s', s' <> s -> status_of (h ++ [x]) s' = status_of h s').
  { intros s' Hne. rewrite status_snoc. fold s. destruct (s =? s') eqn:E; [apply N.eqb_eq in E; congruence|reflexivity]. }
  rewrite senders_snoc. fold s. destruct (memN s (senders h)) eqn:M.
  - apply memN_iff in M. rewrite <- Hs.
    apply (sumN_map_update (fun s' => F (status_of h s')) (fun s' => F (status_of (h ++ [x]) s')) (senders h) s);
      [apply senders_nodup|exact M|]. intros s' Hne _. rewrite Hext; auto.
  - apply memN_false_iff in M. rewrite map_app, sumN_app. cbn [map]. unfold sumN at 2. cbn [fold_right].
    rewrite Hs. rewrite (status_unseen h s M), F0.
    rewrite (sumN_map_ext_in (fun s0 => F (status_of (h ++ [x]) s0)) (fun s0 => F (status_of h s0))); [lia|].
    intros s' Hin. rewrite Hext; [reflexivity|]. intro; subst; contradiction.
Qed.

Lemma spec_cnt_snoc h x p :
  spec_cnt (h ++ [x]) p + cnt_contrib (status_of h (v_sender x)) p =
  spec_cnt h p + cnt_contrib (status_step (status_of h (v_sender x)) x) p.
Proof. unfold spec_cnt. apply (spec_sum_snoc (fun a => cnt_contrib a p)). reflexivity. Qed.

Lemma spec_eqw_snoc h x :
  spec_eqw (h ++ [x]) + eq_contrib (status_of h (v_sender x)) =
  spec_eqw h + eq_contrib (status_step (status_of h (v_sender x)) x).
Proof. unfold spec_eqw. apply (spec_sum_snoc eq_contrib). reflexivity. Qed.

Definition mw (a : status) : N :=
  match a with SNone => 0 | SVoted v => v_weight v | SEquiv v1 _ => v_weight v1 end.
Lemma member_weight_mw h s : member_weight h s = mw (status_of h s).
Proof. reflexivity. Qed.

Lemma total_weight_snoc h x :
  total_weight (h ++ [x]) + mw (status_of h (v_sender x)) =
  total_weight h + mw (status_step (status_of h (v_sender x)) x).
Proof. unfold total_weight, member_weight. apply (spec_sum_snoc mw). reflexivity. Qed.

Lemma mw_step_ge a x : mw a <= mw (status_step a x).
Proof. destruct a as [|v|v1 v2]; cbn [status_step mw]; try lia. destruct (v_value v =? v_value x); cbn [mw]; lia. Qed.

Lemma total_weight_mono h l : total_weight h <= total_weight (h ++ l).
Proof.
  induction l as [|x l IH] using rev_ind; [rewrite app_nil_r; lia|].
  rewrite app_assoc. pose proof (total_weight_snoc (h ++ l) x). pose proof (mw_step_ge (status_of (h ++ l) (v_sender x)) x). lia.
Qed.

Lemma wf_votes_prefix h l : wf_votes (h ++ l) -> wf_votes h.
Proof.
  intros [P [C T]]. split; [|split].
  - intros x Hx. apply P. apply in_or_app; auto.
  - intros x y Hx Hy. apply C; apply in_or_app; auto.
  - pose proof (total_weight_mono h l). lia.
Qed.

(* ---------- the four possible effects of a vote on the tallies ---------- *)
(* pointwise bound: a sender never contributes more than its credential *)
Lemma tally_le_total h p : wf_votes h -> spec_tally h p <= total_weight h.
Proof.
  intros [_ [C _]]. unfold spec_tally, spec_cnt, spec_eqw, total_weight. rewrite <- sumN_map_add.
  apply sumN_map_le. intros s _. rewrite member_weight_mw.
  pose proof (status_facts h s) as F. destruct (status_of h s) as [|v|v1 v2]; cbn [cnt_contrib eq_contrib mw]; [lia| |].
  - destruct (v_value v =? p); lia.
  - destruct F as [I1 [I2 [S1 [S2 _]]]]. rewrite (C v1 v2 I1 I2); [lia|congruence].
Qed.

Lemma spec_cnt_zero_iff h p : (forall x, In x h -> 0 < v_weight x) ->
  (spec_cnt h p = 0 <-> forall s v, status_of h s = SVoted v -> v_value v <> p).
Proof.
  intros P. unfold spec_cnt. rewrite sumN_map_zero. split.
  - intros H s v Hs E. assert (In s (senders h)) by (apply status_seen; congruence).
    specialize (H s H0). rewrite Hs in H. cbn [cnt_contrib] in H.
    apply N.eqb_eq in E. rewrite E in H. apply status_voted_in in Hs. specialize (P v (proj1 Hs)). lia.
  - intros H s _. destruct (status_of h s) as [|v|v1 v2] eqn:Hs; cbn [cnt_contrib]; try reflexivity.
    destruct (v_value v =? p) eqn:E; [|reflexivity]. apply N.eqb_eq in E. exfalso. exact (H s v Hs E).
Qed.

Lemma spec_cnt_nonzero_value h p : spec_cnt h p <> 0 -> In p (values h).
Proof.
  intros H. destruct (in_dec N.eq_dec p (values h)) as [I|I]; [exact I|]. exfalso. apply H.
  unfold spec_cnt. apply sumN_map_zero. intros s _.
  destruct (status_of h s) as [|v|v1 v2] eqn:Hs; cbn [cnt_contrib]; try reflexivity.
  destruct (v_value v =? p) eqn:E; [|reflexivity]. apply N.eqb_eq in E. exfalso. apply I.
  apply values_in. exists v. split; [apply (status_voted_in h s v Hs)|exact E].
Qed.

(* the tally never decreases (needs one weight per sender) *)
Lemma spec_tally_mono h x p : wf_votes (h ++ [x]) -> spec_tally h p <= spec_tally (h ++ [x]) p.
Proof.
  intros [_ [C _]]. unfold spec_tally.
  pose proof (spec_cnt_snoc h x p) as Hc. pose proof (spec_eqw_snoc h x) as He.
  pose proof (status_facts h (v_sender x)) as F.
  destruct (status_of h (v_sender x)) as [|v|v1 v2]; cbn [status_step cnt_contrib eq_contrib] in Hc, He.
  - destruct (v_value x =? p); lia.
  - destruct (v_value v =? v_value x) eqn:E; cbn [cnt_contrib eq_contrib] in Hc, He; [lia|].
    destruct F as [I S]. assert (v_weight v = v_weight x).
    { apply C; [apply in_or_app; auto|apply in_or_app; right; left; reflexivity|exact S]. }
    destruct (v_value v =? p); lia.
  - lia.
Qed.

Lemma reaches_mono q a b : reaches q a = true -> a <= b -> reaches q b = true.
Proof. destruct q as [t|]; cbn [reaches]; [|discriminate]. intros H L. apply N.leb_le in H. apply N.leb_le. lia. Qed.

(* ---------- over_values ---------- *)
Lemma over_values_in q h p : In p (over_values q h) <-> In p (values h) /\ reaches q (spec_tally h p) = true.
Proof. unfold over_values. rewrite filter_In. tauto. Qed.

Lemma over_values_nodup q h : NoDup (over_values q h).
Proof. unfold over_values. apply NoDup_filter. apply values_nodup. Qed.

(* as long as the equivocators alone do not reach the quorum, "reached" means "listed" *)
Lemma over_values_iff q h p : reaches q (spec_eqw h) = false ->
  (In p (over_values q h) <-> reaches q (spec_tally h p) = true).
Proof.
  intros HE. rewrite over_values_in. split; [tauto|]. intros R. split; [|exact R].
  apply spec_cnt_nonzero_value. intro Z. unfold spec_tally in R. rewrite Z in R. cbn in R. congruence.
Qed.

Lemma over_values_mono q h x p : wf_votes (h ++ [x]) -> In p (over_values q h) -> In p (over_values q (h ++ [x])).
Proof.
  intros W. rewrite !over_values_in. intros [I R]. split; [apply values_incl_snoc; exact I|].
  eapply reaches_mono; [exact R|apply spec_tally_mono; exact W].
Qed.

(* ---------- [expected] in terms of propositions ---------- *)

Lemma expected_eq q h x : reaches q (spec_eqw (h ++ [x])) = true -> expected q h x = EPanic "eq".
Proof. intros H. unfold expected. rewrite H. reflexivity. Qed.

Lemma expected_two q h x p p' : reaches q (spec_eqw (h ++ [x])) = false -> p <> p' ->
  reaches q (spec_tally (h ++ [x]) p) = true -> reaches q (spec_tally (h ++ [x]) p') = true ->
  expected q h x = EPanic "two".
Proof.
  intros HE Hne R R'. unfold expected. rewrite HE.
  apply (over_values_iff q _ p HE) in R. apply (over_values_iff q _ p' HE) in R'.
  pose proof (over_values_nodup q (h ++ [x])) as ND.
  destruct (over_values q (h ++ [x])) as [|a [|b t]]; [destruct R| |reflexivity].
  cbn [In] in R, R'. destruct R as [R|[]], R' as [R'|[]]. congruence.
Qed.

Lemma expected_none_below q h x : reaches q (spec_eqw (h ++ [x])) = false ->
  (forall p, reaches q (spec_tally (h ++ [x]) p) = false) -> expected q h x = ENone.
Proof.
  intros HE H. unfold expected. rewrite HE.
  destruct (over_values q (h ++ [x])) as [|a t] eqn:O; [reflexivity|].
  assert (In a (over_values q (h ++ [x]))) as I by (rewrite O; left; reflexivity).
  apply over_values_in in I. rewrite H in I. destruct I; discriminate.
Qed.

Lemma expected_none_already q h x p0 : reaches q (spec_eqw (h ++ [x])) = false -> no_two q (h ++ [x]) ->
  reaches q (spec_eqw h) = false -> reaches q (spec_tally h p0) = true -> expected q h x = ENone.
Proof.
  intros HE NT HE0 R0. unfold expected. rewrite HE.
  pose proof (over_values_nodup q (h ++ [x])) as ND.
  destruct (over_values q (h ++ [x])) as [|a [|b t]] eqn:O; [reflexivity| |].
  - apply (over_values_iff q h p0 HE0) in R0. destruct (over_values q h); [destruct R0|reflexivity].
  - exfalso. assert (a = b).
    { apply NT; apply (over_values_iff q (h ++ [x]) _ HE); rewrite O; cbn; tauto. }
    subst. inversion ND as [|? ? Hn _]; subst. apply Hn. left; reflexivity.
Qed.

Lemma expected_thr q h x p : reaches q (spec_eqw (h ++ [x])) = false -> no_two q (h ++ [x]) ->
  reaches q (spec_tally (h ++ [x]) p) = true ->
  (forall p', reaches q (spec_tally h p') = false) -> expected q h x = EThr p.
Proof.
  intros HE NT R H0. unfold expected. rewrite HE.
  pose proof (over_values_nodup q (h ++ [x])) as ND.
  pose proof (proj2 (over_values_iff q (h ++ [x]) p HE) R) as I.
  destruct (over_values q (h ++ [x])) as [|a [|b t]] eqn:O; [destruct I| |].
  - destruct I as [I|[]]. subst a.
    destruct (over_values q h) as [|c t] eqn:O0; [reflexivity|].
    assert (In c (over_values q h)) as Ic by (rewrite O0; left; reflexivity).
    apply over_values_in in Ic. rewrite H0 in Ic. destruct Ic; discriminate.
  - exfalso. assert (a = b).
    { apply NT; apply (over_values_iff q (h ++ [x]) _ HE); rewrite O; cbn; tauto. }
    subst. inversion ND as [|? ? Hn _]; subst. apply Hn. left; reflexivity.
Qed.

(* ---------- at most one threshold in the specified output sequence ---------- *)
Lemma spec_outs_no_thr_after q l : forall h, wf_votes (h ++ l) -> over_values q h <> [] ->
  forall p, ~ In (EThr p) (spec_outs q h l).
Proof.
  induction l as [|x l IH]; intros h W O p; cbn [spec_outs]; [tauto|].
  assert (W1 : wf_votes (h ++ [x])).
  { apply (wf_votes_prefix _ l). rewrite <- app_assoc. exact W. }
  assert (O1 : over_values q (h ++ [x]) <> []).
  { destruct (over_values q h) as [|a t] eqn:E; [congruence|].
    assert (In a (over_values q (h ++ [x]))) as I by (apply over_values_mono; [exact W1|rewrite E; left; reflexivity]).
    intro Z. rewrite Z in I. destruct I. }
  assert (NE : forall p', expected q h x <> EThr p').
  { intros p'. unfold expected. destruct (reaches q (spec_eqw (h ++ [x]))); [discriminate|].
    destruct (over_values q (h ++ [x])) as [|a [|b t]]; [discriminate| |discriminate].
    destruct (over_values q h); [congruence|cbn [isnil]; discriminate]. }
  destruct (expected q h x) as [|p'|t] eqn:E.
  - cbn [In]. intros [H|H]; [discriminate|]. revert H. apply IH; [rewrite <- app_assoc; exact W|exact O1].
  - exfalso. apply (NE p'). reflexivity.
  - cbn [In]. intros [H|[]]. discriminate.
Qed.

Lemma spec_outs_thr_split q l : forall h, wf_votes (h ++ l) ->
  forall i j p p', nth_error (spec_outs q h l) i = Some (EThr p) ->
                   nth_error (spec_outs q h l) j = Some (EThr p') -> i = j.
Proof.
  induction l as [|x l IH]; intros h W i j p p'; cbn [spec_outs].
  - destruct i; discriminate.
  - assert (W' : wf_votes ((h ++ [x]) ++ l)) by (rewrite <- app_assoc; exact W).
    destruct (expected q h x) as [|p0|t] eqn:E.
    + destruct i as [|i], j as [|j]; cbn [nth_error]; try discriminate.
      intros Hi Hj. f_equal. eapply IH; eauto.
    + assert (O1 : over_values q (h ++ [x]) <> []).
      { unfold expected in E. destruct (reaches q (spec_eqw (h ++ [x]))); [discriminate|].
        destruct (over_values q (h ++ [x])); [discriminate|congruence]. }
      pose proof (spec_outs_no_thr_after q l (h ++ [x]) W' O1) as NT.
      destruct i as [|i], j as [|j]; cbn [nth_error]; [reflexivity| | |].
      * intros _ Hj. exfalso. apply nth_error_In in Hj. exact (NT _ Hj).
      * intros Hi _. exfalso. apply nth_error_In in Hi. exact (NT _ Hi).
      * intros Hi _. exfalso. apply nth_error_In in Hi. exact (NT _ Hi).
    + destruct i as [|[|i]], j as [|[|j]]; cbn [nth_error]; try discriminate.
Qed.
