(* C33: proofs about the binary instruction layer (model/AvmCodec.v, Section Codec).
   All results are parametric in the dispatch table and the field groups. *)
From Coq Require Import List NArith ZArith String Bool Arith Lia ZifyN ZifyNat ZifyBool.
From Verif.model Require Import AvmTypes AvmCodec.
Import ListNotations.
Open Scope N_scope.

(* ------------------------------------------------------------------ lists *)
Lemma list_eqb_refl : forall (l : list N), list_eqb N.eqb l l = true.
Proof. induction l; simpl; auto. rewrite N.eqb_refl. auto. Qed.

Lemma list_eqb_eq : forall (a b : list N), list_eqb N.eqb a b = true -> a = b.
Proof.
  induction a as [|x a IH]; destruct b as [|y b]; simpl; intros H; try discriminate; auto.
  apply andb_true_iff in H. destruct H as [H1 H2]. apply N.eqb_eq in H1. subst. f_equal. auto.
Qed.

Lemma take_n_app : forall (A : Type) (a b : list A), take_n (List.length a) (a ++ b) = Some (a, b).
Proof. induction a; simpl; intros; auto. rewrite IHa. auto. Qed.

Lemma take_n_inv : forall (A : Type) n (l a b : list A),
  take_n n l = Some (a, b) -> l = a ++ b /\ List.length a = n.
Proof.
  induction n; simpl; intros l a b H.
  - inversion H; subst. auto.
  - destruct l as [|x r]; try discriminate.
    destruct (take_n n r) as [[a' b']|] eqn:E; try discriminate.
    inversion H; subst. apply IHn in E. destruct E as [E1 E2]. subst. simpl. auto.
Qed.

Lemma nlen_app : forall (A : Type) (a b : list A), nlen (a ++ b) = nlen a + nlen b.
Proof. intros. unfold nlen. rewrite app_length. lia. Qed.

Lemma nlen_cons : forall (A : Type) (x : A) l, nlen (x :: l) = 1 + nlen l.
Proof. intros. unfold nlen. simpl List.length. lia. Qed.

(* ------------------------------------------------------------------ uvarint *)
Lemma put_uvarint_f_small : forall f x, x < 128 -> put_uvarint_f f x = [x].
Proof.
  intros f x H. destruct f; [reflexivity|].
  change (put_uvarint_f (S f) x) with
    (if x <? 128 then [x] else (128 + x mod 128) :: put_uvarint_f f (x / 128)).
  destruct (x <? 128) eqn:E; auto. apply N.ltb_ge in E. lia.
Qed.

Lemma put_uvarint_f_nonempty : forall f x, (1 <= List.length (put_uvarint_f f x))%nat.
Proof. intros f x. destruct f; simpl; [lia|]. destruct (x <? 128); simpl; lia. Qed.

Lemma put_uvarint_nonempty : forall x, (1 <= List.length (put_uvarint x))%nat.
Proof. intros. apply put_uvarint_f_nonempty. Qed.

Lemma pow2_split : forall k, 2 ^ (7 * N.of_nat (S k) + 1) = 128 * 2 ^ (7 * N.of_nat k + 1).
Proof.
  intros k. replace (7 * N.of_nat (S k) + 1) with (7 + (7 * N.of_nat k + 1)) by lia.
  rewrite N.pow_add_r. reflexivity.
Qed.

Lemma uvarint_go_cons : forall b rest i x s,
  uvarint_go (b :: rest) i x s =
  if Nat.eqb i 10 then None
  else if b <? 128 then
         if Nat.eqb i 9 && (1 <? b) then None else Some (x + b * 2 ^ s, rest)
       else uvarint_go rest (S i) (x + (b mod 128) * 2 ^ s) (s + 7).
Proof. reflexivity. Qed.

Lemma put_uvarint_f_S : forall f x,
  put_uvarint_f (S f) x = if x <? 128 then [x] else (128 + x mod 128) :: put_uvarint_f f (x / 128).
Proof. reflexivity. Qed.

(* reading back what PutUvarint wrote, from the i-th byte on: k = 9 - i more bytes may follow *)
Lemma uvarint_go_put : forall k i f x acc s rest,
  (i + k = 9)%nat -> (k <= f)%nat -> x < 2 ^ (7 * N.of_nat k + 1) ->
  uvarint_go (put_uvarint_f f x ++ rest) i acc s = Some (acc + x * 2 ^ s, rest).
Proof.
  induction k as [|k IH]; intros i f x acc s rest Hi Hf Hx.
  - assert (i = 9%nat) by lia. subst i.
    change (2 ^ (7 * N.of_nat 0 + 1)) with 2 in Hx.
    rewrite put_uvarint_f_small by lia.
    change ([x] ++ rest) with (x :: rest). rewrite uvarint_go_cons.
    change (Nat.eqb 9 10) with false. change (Nat.eqb 9 9) with true. cbv iota.
    destruct (x <? 128) eqn:E; [|apply N.ltb_ge in E; lia].
    destruct (1 <? x) eqn:E1; [apply N.ltb_lt in E1; lia|]. reflexivity.
  - destruct f as [|f]; [lia|]. rewrite put_uvarint_f_S.
    destruct (x <? 128) eqn:E.
    + change ([x] ++ rest) with (x :: rest). rewrite uvarint_go_cons.
      destruct (Nat.eqb i 10) eqn:Ei; [apply Nat.eqb_eq in Ei; lia|].
      rewrite E. destruct (Nat.eqb i 9) eqn:E9; [apply Nat.eqb_eq in E9; lia|]. reflexivity.
    + apply N.ltb_ge in E. rewrite <- app_comm_cons. rewrite uvarint_go_cons.
      destruct (Nat.eqb i 10) eqn:Ei; [apply Nat.eqb_eq in Ei; lia|].
      assert (Hm : x mod 128 < 128) by (apply N.mod_lt; lia).
      destruct (128 + x mod 128 <? 128) eqn:E2; [apply N.ltb_lt in E2; lia|].
      rewrite IH; try lia.
      * f_equal. f_equal.
        replace ((128 + x mod 128) mod 128) with (x mod 128).
        2:{ replace (128 + x mod 128) with (x mod 128 + 1 * 128) by lia.
            rewrite N.mod_add by lia. rewrite N.mod_mod by lia. reflexivity. }
        rewrite N.pow_add_r. change (2 ^ 7) with 128.
        set (q := x / 128). set (r := x mod 128).
        assert (Hx' : x = 128 * q + r) by (apply N.div_mod; lia).
        rewrite Hx' at 1. ring.
      * rewrite pow2_split in Hx. apply N.div_lt_upper_bound; lia.
Qed.

Lemma u64_ok_lt : forall n, u64_ok n = true -> n < 2 ^ 64.
Proof. unfold u64_ok. intros n H. apply N.ltb_lt in H. exact H. Qed.

Theorem uvarint_roundtrip : forall strict x rest,
  u64_ok x = true -> get_uvarint strict (put_uvarint x ++ rest) = Some (x, rest).
Proof.
  intros strict x rest H. apply u64_ok_lt in H. unfold get_uvarint, put_uvarint.
  assert (Hb : x < 2 ^ (7 * N.of_nat 9 + 1)) by exact H.
  rewrite (uvarint_go_put 9 0 9 x 0 0 rest Logic.eq_refl (le_n 9) Hb).
  replace (0 + x * 2 ^ 0) with x by (change (2 ^ 0) with 1; lia).
  fold (put_uvarint x). rewrite list_eqb_refl. cbn [negb]. rewrite andb_false_r. reflexivity.
Qed.

Lemma get_uvarint_strict_inv : forall buf x rest,
  get_uvarint true buf = Some (x, rest) -> buf = put_uvarint x ++ rest.
Proof.
  unfold get_uvarint. intros buf x rest H.
  destruct (uvarint_go buf 0 0 0) as [[x' r']|]; try discriminate.
  simpl in H. destruct (list_eqb N.eqb (put_uvarint x' ++ r') buf) eqn:E; simpl in H; try discriminate.
  inversion H; subst. apply list_eqb_eq in E. auto.
Qed.

Lemma get_uvarint_strict_lax : forall buf r,
  get_uvarint true buf = Some r -> get_uvarint false buf = Some r.
Proof.
  unfold get_uvarint. intros buf r H.
  destruct (uvarint_go buf 0 0 0) as [[x' r']|]; try discriminate.
  simpl in *. destruct (negb (list_eqb N.eqb (put_uvarint x' ++ r') buf)); try discriminate. auto.
Qed.

(* the lax decoder accepts non-minimal encodings: 0x80 0x00 reads as 0 *)
Lemma uvarint_lax_noncanonical :
  get_uvarint false [128; 0] = Some (0, []) /\ put_uvarint 0 = [0] /\ get_uvarint true [128; 0] = None.
Proof. vm_compute. auto. Qed.

(* ------------------------------------------------------------------ zig-zag *)
Lemma unzigzag_zigzag : forall z, unzigzag (zigzag z) = z.
Proof.
  intros z. unfold zigzag, unzigzag.
  destruct (z <? 0)%Z eqn:E.
  - apply Z.ltb_lt in E.
    assert (Hodd : N.odd (Z.to_N (- 2 * z - 1)) = true).
    { rewrite <- N.negb_even. apply negb_true_iff.
      destruct (N.even (Z.to_N (- 2 * z - 1))) eqn:Ev; auto.
      apply N.even_spec in Ev. destruct Ev as [m Hm]. lia. }
    rewrite Hodd.
    assert (Z.to_N (- 2 * z - 1) / 2 = Z.to_N (- z - 1)).
    { symmetry. apply (N.div_unique _ 2 _ 1); lia. }
    rewrite H. lia.
  - apply Z.ltb_ge in E.
    assert (Hodd : N.odd (Z.to_N (2 * z)) = false).
    { rewrite <- N.negb_even. apply negb_false_iff. apply N.even_spec. exists (Z.to_N z). lia. }
    rewrite Hodd.
    assert (Z.to_N (2 * z) / 2 = Z.to_N z).
    { symmetry. apply (N.div_unique _ 2 _ 0); lia. }
    rewrite H. lia.
Qed.

Lemma zigzag_unzigzag : forall u, zigzag (unzigzag u) = u.
Proof.
  intros u. unfold zigzag, unzigzag.
  pose proof (N.div_mod u 2 ltac:(lia)) as Hd.
  destruct (N.odd u) eqn:E.
  - assert (u mod 2 = 1).
    { rewrite <- N.bit0_mod. rewrite N.bit0_odd. rewrite E. reflexivity. }
    destruct (- Z.of_N (u / 2) - 1 <? 0)%Z eqn:E2; [|apply Z.ltb_ge in E2; lia]. lia.
  - assert (u mod 2 = 0).
    { rewrite <- N.bit0_mod. rewrite N.bit0_odd. rewrite E. reflexivity. }
    destruct (Z.of_N (u / 2) <? 0)%Z eqn:E2; [apply Z.ltb_lt in E2; lia|]. lia.
Qed.

Lemma zigzag_u64 : forall z, i64_ok z = true -> u64_ok (zigzag z) = true.
Proof.
  unfold i64_ok, u64_ok, zigzag. intros z H. apply andb_true_iff in H. destruct H as [H1 H2].
  apply Z.leb_le in H1. apply Z.leb_le in H2. apply N.ltb_lt.
  destruct (z <? 0)%Z eqn:E; [apply Z.ltb_lt in E|apply Z.ltb_ge in E]; lia.
Qed.

Theorem varint_roundtrip : forall strict z rest,
  i64_ok z = true -> get_varint strict (put_varint z ++ rest) = Some (z, rest).
Proof.
  intros. unfold get_varint, put_varint. rewrite uvarint_roundtrip by (apply zigzag_u64; auto).
  rewrite unzigzag_zigzag. reflexivity.
Qed.

Lemma get_varint_strict_inv : forall buf z rest,
  get_varint true buf = Some (z, rest) -> buf = put_varint z ++ rest.
Proof.
  unfold get_varint, put_varint. intros buf z rest H.
  destruct (get_uvarint true buf) as [[u r]|] eqn:E; try discriminate.
  inversion H; subst. rewrite zigzag_unzigzag. apply get_uvarint_strict_inv. auto.
Qed.

Lemma get_varint_strict_lax : forall buf r,
  get_varint true buf = Some r -> get_varint false buf = Some r.
Proof.
  unfold get_varint. intros buf r H.
  destruct (get_uvarint true buf) as [[u r']|] eqn:E; try discriminate.
  rewrite (get_uvarint_strict_lax _ _ E). auto.
Qed.

(* ------------------------------------------------------------------ int16 *)
Lemma i16_roundtrip : forall off rest, i16_ok off = true ->
  exists b0 b1, enc_i16 off ++ rest = b0 :: b1 :: rest /\ dec_i16 b0 b1 = off /\ b0 < 256 /\ b1 < 256.
Proof.
  intros off rest H. unfold i16_ok in H. apply andb_true_iff in H. destruct H as [H1 H2].
  apply Z.leb_le in H1. apply Z.leb_le in H2.
  unfold enc_i16. set (u := Z.to_N (off mod 65536)).
  exists (u / 256), (u mod 256). split; [reflexivity|].
  assert (Hu : u < 65536) by (unfold u; pose proof (Z.mod_pos_bound off 65536); lia).
  assert (Hd : u = 256 * (u / 256) + u mod 256) by (apply N.div_mod; lia).
  assert (Hm : u mod 256 < 256) by (apply N.mod_lt; lia).
  assert (Hq : u / 256 < 256) by (apply N.div_lt_upper_bound; lia).
  split; [|split; auto].
  unfold dec_i16.
  assert (Hz : (Z.of_N (u / 256) * 256 + Z.of_N (u mod 256) = off mod 65536)%Z) by (unfold u in *; lia).
  rewrite Hz.
  destruct (32768 <=? off mod 65536)%Z eqn:E; [apply Z.leb_le in E|apply Z.leb_gt in E].
  - destruct (Z_lt_le_dec off 0).
    + rewrite <- (Z.mod_unique off 65536 (-1) (off + 65536)) in *; lia.
    + rewrite Z.mod_small in E by lia. lia.
  - destruct (Z_lt_le_dec off 0).
    + rewrite <- (Z.mod_unique off 65536 (-1) (off + 65536)) in E; lia.
    + rewrite Z.mod_small by lia. reflexivity.
Qed.

Lemma i16_reencode : forall b0 b1, b0 < 256 -> b1 < 256 -> enc_i16 (dec_i16 b0 b1) = [b0; b1].
Proof.
  intros b0 b1 H0 H1. unfold enc_i16, dec_i16.
  set (u := (Z.of_N b0 * 256 + Z.of_N b1)%Z).
  assert (Hu : (0 <= u < 65536)%Z) by (unfold u; lia).
  assert (Hm : ((if (32768 <=? u)%Z then u - 65536 else u) mod 65536 = u)%Z).
  { destruct (32768 <=? u)%Z eqn:E.
    - apply Z.leb_le in E. symmetry. apply (Z.mod_unique _ 65536 (-1) u); lia.
    - apply Z.mod_small. lia. }
  rewrite Hm.
  assert (Z.to_N u = 256 * b0 + b1) by (unfold u; lia).
  rewrite H. f_equal.
  - symmetry. apply (N.div_unique _ 256 _ b1); lia.
  - f_equal. symmetry. apply (N.mod_unique _ 256 b0 b1); lia.
Qed.

Lemma dec_i16_ok : forall b0 b1, b0 < 256 -> b1 < 256 -> i16_ok (dec_i16 b0 b1) = true.
Proof.
  intros. unfold i16_ok, dec_i16. apply andb_true_iff.
  destruct (32768 <=? Z.of_N b0 * 256 + Z.of_N b1)%Z eqn:E;
    [apply Z.leb_le in E|apply Z.leb_gt in E]; split; apply Z.leb_le; lia.
Qed.
