(* C33: proofs about the binary instruction layer (model/AvmCodec.v, Section Codec).
   All results are parametric in the dispatch table and the field groups. *)
From Coq Require Import List NArith ZArith String Bool Arith Lia ZifyN ZifyNat ZifyBool.
From Verif.model Require Import AvmTypes AvmCodec.
Import ListNotations.
Open Scope N_scope.

(* ------------------------------------------------------------------ lists *)
Lemma list_eqb_refl : forall (l : list N), list_eqb N.eqb l l = true.
Proof. induction l; simpl; auto. rewrite N.eqb_refl. auto. Qed.

Lemma list_eqb_eq : forall (a b : list N), list_eqb N.eqb a b = true -> a = b.
Proof.
  induction a as [|x a IH]; destruct b as [|y b]; simpl; intros H; try discriminate; auto.
  apply andb_true_iff in H. destruct H as [H1 H2]. apply N.eqb_eq in H1. subst. f_equal. auto.
Qed.

Lemma take_n_app : forall (A : Type) (a b : list A), take_n (List.length a) (a ++ b) = Some (a, b).
Proof. induction a; simpl; intros; auto. rewrite IHa. auto. Qed.

Lemma take_n_inv : forall (A : Type) n (l a b : list A),
  take_n n l = Some (a, b) -> l = a ++ b /\ List.length a = n.
Proof.
  induction n; simpl; intros l a b H.
  - inversion H; subst. auto.
  - destruct l as [|x r]; try discriminate.
    destruct (take_n n r) as [[a' b']|] eqn:E; try discriminate.
    inversion H; subst. apply IHn in E. destruct E as [E1 E2]. subst. simpl. auto.
Qed.

Lemma nlen_app : forall (A : Type) (a b : list A), nlen (a ++ b) = nlen a + nlen b.
Proof. intros. unfold nlen. rewrite app_length. lia. Qed.

Lemma nlen_cons : forall (A : Type) (x : A) l, nlen (x :: l) = 1 + nlen l.
Proof. intros. unfold nlen. simpl List.length. lia. Qed.

(* ------------------------------------------------------------------ uvarint *)
Lemma put_uvarint_f_small : forall f x, x < 128 -> put_uvarint_f f x = [x].
Proof.
  intros f x H. destruct f; [reflexivity|].
  change (put_uvarint_f (S f) x) with
    (if x <? 128 then [x] else (128 + x mod 128) :: put_uvarint_f f (x / 128)).
  destruct (x <? 128) eqn:E; auto. apply N.ltb_ge in E. lia.
Qed.

Lemma put_uvarint_f_nonempty : forall f x, (1 <= List.length (put_uvarint_f f x))%nat.
Proof. intros f x. destruct f; simpl; [lia|]. destruct (x <? 128); simpl; lia. Qed.

Lemma put_uvarint_nonempty : forall x, (1 <= List.length (put_uvarint x))%nat.
Proof. intros. apply put_uvarint_f_nonempty. Qed.

Lemma pow2_split : forall k, 2 ^ (7 * N.of_nat (S k) + 1) = 128 * 2 ^ (7 * N.of_nat k + 1).
Proof.
  intros k. replace (7 * N.of_nat (S k) + 1) with (7 + (7 * N.of_nat k + 1)) by lia.
  rewrite N.pow_add_r. reflexivity.
Qed.

Lemma uvarint_go_cons : forall b rest i x s,
  uvarint_go (b :: rest) i x s =
  if Nat.eqb i 10 then None
  else if b <? 128 then
         if Nat.eqb i 9 && (1 <? b) then None else Some (x + b * 2 ^ s, rest)
       else uvarint_go rest (S i) (x + (b mod 128) * 2 ^ s) (s + 7).
Proof. reflexivity. Qed.

Lemma put_uvarint_f_S : forall f x,
  put_uvarint_f (S f) x = if x <? 128 then [x] else (128 + x mod 128) :: put_uvarint_f f (x / 128).
Proof. reflexivity. Qed.

(* reading back what PutUvarint wrote, from the i-th byte on: k = 9 - i more bytes may follow *)
Lemma uvarint_go_put : forall k i f x acc s rest,
  (i + k = 9)%nat -> (k <= f)%nat -> x < 2 ^ (7 * N.of_nat k + 1) ->
  uvarint_go (put_uvarint_f f x ++ rest) i acc s = Some (acc + x * 2 ^ s, rest).
Proof.
  induction k as [|k IH]; intros i f x acc s rest Hi Hf Hx.
  - assert (i = 9%nat) by lia. subst i.
    change (2 ^ (7 * N.of_nat 0 + 1)) with 2 in Hx.
    rewrite put_uvarint_f_small by lia.
    change ([x] ++ rest) with (x :: rest). rewrite uvarint_go_cons.
    change (Nat.eqb 9 10) with false. change (Nat.eqb 9 9) with true. cbv iota.
    destruct (x <? 128) eqn:E; [|apply N.ltb_ge in E; lia].
    destruct (1 <? x) eqn:E1; [apply N.ltb_lt in E1; lia|]. reflexivity.
  - destruct f as [|f]; [lia|]. rewrite put_uvarint_f_S.
    destruct (x <? 128) eqn:E.
    + change ([x] ++ rest) with (x :: rest). rewrite uvarint_go_cons.
      destruct (Nat.eqb i 10) eqn:Ei; [apply Nat.eqb_eq in Ei; lia|].
      rewrite E. destruct (Nat.eqb i 9) eqn:E9; [apply Nat.eqb_eq in E9; lia|]. reflexivity.
    + apply N.ltb_ge in E. rewrite <- app_comm_cons. rewrite uvarint_go_cons.
      destruct (Nat.eqb i 10) eqn:Ei; [apply Nat.eqb_eq in Ei; lia|].
      assert (Hm : x mod 128 < 128) by (apply N.mod_lt; lia).
      destruct (128 + x mod 128 <? 128) eqn:E2; [apply N.ltb_lt in E2; lia|].
      rewrite IH; try lia.
      * f_equal. f_equal.
        replace ((128 + x mod 128) mod 128) with (x mod 128).
        2:{ replace (128 + x mod 128) with (x mod 128 + 1 * 128) by lia.
            rewrite N.mod_add by lia. rewrite N.mod_mod by lia. reflexivity. }
        rewrite N.pow_add_r. change (2 ^ 7) with 128.
        set (q := x / 128). set (r := x mod 128).
        assert (Hx' : x = 128 * q + r) by (apply N.div_mod; lia).
        rewrite Hx' at 1. ring.
      * rewrite pow2_split in Hx. apply N.div_lt_upper_bound; lia.
Qed.

Lemma u64_ok_lt : forall n, u64_ok n = true -> n < 2 ^ 64.
Proof. unfold u64_ok. intros n H. apply N.ltb_lt in H. exact H. Qed.

Theorem uvarint_roundtrip : forall strict x rest,
  u64_ok x = true -> get_uvarint strict (put_uvarint x ++ rest) = Some (x, rest).
Proof.
  intros strict x rest H. apply u64_ok_lt in H. unfold get_uvarint, put_uvarint.
  assert (Hb : x < 2 ^ (7 * N.of_nat 9 + 1)) by exact H.
  rewrite (uvarint_go_put 9 0 9 x 0 0 rest Logic.eq_refl (le_n 9) Hb).
  replace (0 + x * 2 ^ 0) with x by (change (2 ^ 0) with 1; lia).
  fold (put_uvarint x). rewrite list_eqb_refl. cbn [negb]. rewrite andb_false_r. reflexivity.
Qed.

Lemma get_uvarint_strict_inv : forall buf x rest,
  get_uvarint true buf = Some (x, rest) -> buf = put_uvarint x ++ rest.
Proof.
  unfold get_uvarint. intros buf x rest H.
  destruct (uvarint_go buf 0 0 0) as [[x' r']|]; try discriminate.
  simpl in H. destruct (list_eqb N.eqb (put_uvarint x' ++ r') buf) eqn:E; simpl in H; try discriminate.
  inversion H; subst. apply list_eqb_eq in E. auto.
Qed.

Lemma get_uvarint_strict_lax : forall buf r,
  get_uvarint true buf = Some r -> get_uvarint false buf = Some r.
Proof.
  unfold get_uvarint. intros buf r H.
  destruct (uvarint_go buf 0 0 0) as [[x' r']|]; try discriminate.
  simpl in *. destruct (negb (list_eqb N.eqb (put_uvarint x' ++ r') buf)); try discriminate. auto.
Qed.

(* the lax decoder accepts non-minimal encodings: 0x80 0x00 reads as 0 *)
Lemma uvarint_lax_noncanonical :
  get_uvarint false [128; 0] = Some (0, []) /\ put_uvarint 0 = [0] /\ get_uvarint true [128; 0] = None.
Proof. vm_compute. auto. Qed.

(* ------------------------------------------------------------------ zig-zag *)
Lemma unzigzag_zigzag : forall z, unzigzag (zigzag z) = z.
Proof.
  intros z. unfold zigzag, unzigzag.
  destruct (z <? 0)%Z eqn:E.
  - apply Z.ltb_lt in E.
    assert (Hodd : N.odd (Z.to_N (- 2 * z - 1)) = true).
    { rewrite <- N.negb_even. apply negb_true_iff.
      destruct (N.even (Z.to_N (- 2 * z - 1))) eqn:Ev; auto.
      apply N.even_spec in Ev. destruct Ev as [m Hm]. lia. }
    rewrite Hodd.
    assert (Z.to_N (- 2 * z - 1) / 2 = Z.to_N (- z - 1)).
    { symmetry. apply (N.div_unique _ 2 _ 1); lia. }
    rewrite H. lia.
  - apply Z.ltb_ge in E.
    assert (Hodd : N.odd (Z.to_N (2 * z)) = false).
    { rewrite <- N.negb_even. apply negb_false_iff. apply N.even_spec. exists (Z.to_N z). lia. }
    rewrite Hodd.
    assert (Z.to_N (2 * z) / 2 = Z.to_N z).
    { symmetry. apply (N.div_unique _ 2 _ 0); lia. }
    rewrite H. lia.
Qed.

Lemma zigzag_unzigzag : forall u, zigzag (unzigzag u) = u.
Proof.
  intros u. unfold zigzag, unzigzag.
  pose proof (N.div_mod u 2 ltac:(lia)) as Hd.
  destruct (N.odd u) eqn:E.
  - assert (u mod 2 = 1).
    { rewrite <- N.bit0_mod. rewrite N.bit0_odd. rewrite E. reflexivity. }
    destruct (- Z.of_N (u / 2) - 1 <? 0)%Z eqn:E2; [|apply Z.ltb_ge in E2; lia]. lia.
  - assert (u mod 2 = 0).
    { rewrite <- N.bit0_mod. rewrite N.bit0_odd. rewrite E. reflexivity. }
    destruct (Z.of_N (u / 2) <? 0)%Z eqn:E2; [apply Z.ltb_lt in E2; lia|]. lia.
Qed.

Lemma zigzag_u64 : forall z, i64_ok z = true -> u64_ok (zigzag z) = true.
Proof.
  unfold i64_ok, u64_ok, zigzag. intros z H. apply andb_true_iff in H. destruct H as [H1 H2].
  apply Z.leb_le in H1. apply Z.leb_le in H2. apply N.ltb_lt.
  destruct (z <? 0)%Z eqn:E; [apply Z.ltb_lt in E|apply Z.ltb_ge in E]; lia.
Qed.

Theorem varint_roundtrip : forall strict z rest,
  i64_ok z = true -> get_varint strict (put_varint z ++ rest) = Some (z, rest).
Proof.
  intros. unfold get_varint, put_varint. rewrite uvarint_roundtrip by (apply zigzag_u64; auto).
  rewrite unzigzag_zigzag. reflexivity.
Qed.

Lemma get_varint_strict_inv : forall buf z rest,
  get_varint true buf = Some (z, rest) -> buf = put_varint z ++ rest.
Proof.
  unfold get_varint, put_varint. intros buf z rest H.
  destruct (get_uvarint true buf) as [[u r]|] eqn:E; try discriminate.
  inversion H; subst. rewrite zigzag_unzigzag. apply get_uvarint_strict_inv. auto.
Qed.

Lemma get_varint_strict_lax : forall buf r,
  get_varint true buf = Some r -> get_varint false buf = Some r.
Proof.
  unfold get_varint. intros buf r H.
  destruct (get_uvarint true buf) as [[u r']|] eqn:E; try discriminate.
  rewrite (get_uvarint_strict_lax _ _ E). auto.
Qed.

(* ------------------------------------------------------------------ int16 *)
Lemma i16_roundtrip : forall off rest, i16_ok off = true ->
  exists b0 b1, enc_i16 off ++ rest = b0 :: b1 :: rest /\ dec_i16 b0 b1 = off /\ b0 < 256 /\ b1 < 256.
Proof.
  intros off rest H. unfold i16_ok in H. apply andb_true_iff in H. destruct H as [H1 H2].
  apply Z.leb_le in H1. apply Z.leb_le in H2.
  unfold enc_i16. set (u := Z.to_N (off mod 65536)).
  exists (u / 256), (u mod 256). split; [reflexivity|].
  assert (Hu : u < 65536) by (unfold u; pose proof (Z.mod_pos_bound off 65536); lia).
  assert (Hd : u = 256 * (u / 256) + u mod 256) by (apply N.div_mod; lia).
  assert (Hm : u mod 256 < 256) by (apply N.mod_lt; lia).
  assert (Hq : u / 256 < 256) by (apply N.div_lt_upper_bound; lia).
  split; [|split; auto].
  unfold dec_i16.
  assert (Hz : (Z.of_N (u / 256) * 256 + Z.of_N (u mod 256) = off mod 65536)%Z) by (unfold u in *; lia).
  rewrite Hz.
  destruct (32768 <=? off mod 65536)%Z eqn:E; [apply Z.leb_le in E|apply Z.leb_gt in E].
  - destruct (Z_lt_le_dec off 0).
    + rewrite <- (Z.mod_unique off 65536 (-1) (off + 65536)) in *; lia.
    + rewrite Z.mod_small in E by lia. lia.
  - destruct (Z_lt_le_dec off 0).
    + rewrite <- (Z.mod_unique off 65536 (-1) (off + 65536)) in E; lia.
    + rewrite Z.mod_small by lia. reflexivity.
Qed.

Lemma i16_reencode : forall b0 b1, b0 < 256 -> b1 < 256 -> enc_i16 (dec_i16 b0 b1) = [b0; b1].
Proof.
  intros b0 b1 H0 H1. unfold enc_i16, dec_i16.
  set (u := (Z.of_N b0 * 256 + Z.of_N b1)%Z).
  assert (Hu : (0 <= u < 65536)%Z) by (unfold u; lia).
  assert (Hm : ((if (32768 <=? u)%Z then u - 65536 else u) mod 65536 = u)%Z).
  { destruct (32768 <=? u)%Z eqn:E.
    - apply Z.leb_le in E. symmetry. apply (Z.mod_unique _ 65536 (-1) u); lia.
    - apply Z.mod_small. lia. }
  rewrite Hm.
  assert (Z.to_N u = 256 * b0 + b1) by (unfold u; lia).
  rewrite H. f_equal.
  - symmetry. apply (N.div_unique _ 256 _ b1); lia.
  - f_equal. symmetry. apply (N.mod_unique _ 256 b0 b1); lia.
Qed.

Lemma dec_i16_ok : forall b0 b1, b0 < 256 -> b1 < 256 -> i16_ok (dec_i16 b0 b1) = true.
Proof.
  intros. unfold i16_ok, dec_i16. apply andb_true_iff.
  destruct (32768 <=? Z.of_N b0 * 256 + Z.of_N b1)%Z eqn:E;
    [apply Z.leb_le in E|apply Z.leb_gt in E]; split; apply Z.leb_le; lia.
Qed.

(* ------------------------------------------------------------------ list-valued immediates *)
Lemma Nat2N_len : forall (A : Type) (l : list A), N.to_nat (nlen l) = List.length l.
Proof. intros. unfold nlen. apply Nat2N.id. Qed.

Lemma dec_bytes_roundtrip : forall strict bs rest,
  u64_ok (nlen bs) = true -> dec_bytes strict (enc_bytes bs ++ rest) = Some (bs, rest).
Proof.
  intros strict bs rest H. unfold dec_bytes, enc_bytes. rewrite <- app_assoc.
  rewrite uvarint_roundtrip by auto.
  destruct (nlen (bs ++ rest) <? nlen bs) eqn:E.
  - apply N.ltb_lt in E. rewrite nlen_app in E. lia.
  - rewrite Nat2N_len. apply take_n_app.
Qed.

Lemma dec_bytes_strict_inv : forall buf bs rest,
  dec_bytes true buf = Some (bs, rest) -> buf = enc_bytes bs ++ rest.
Proof.
  unfold dec_bytes, enc_bytes. intros buf bs rest H.
  destruct (get_uvarint true buf) as [[len r]|] eqn:E; try discriminate.
  destruct (nlen r <? len); try discriminate.
  apply take_n_inv in H. destruct H as [H1 H2]. apply get_uvarint_strict_inv in E.
  subst. rewrite <- app_assoc. f_equal. f_equal. unfold nlen. rewrite H2. symmetry. apply N2Nat.id.
Qed.

Lemma dec_bytes_strict_lax : forall buf r,
  dec_bytes true buf = Some r -> dec_bytes false buf = Some r.
Proof.
  unfold dec_bytes. intros buf r H.
  destruct (get_uvarint true buf) as [[len r']|] eqn:E; try discriminate.
  rewrite (get_uvarint_strict_lax _ _ E). auto.
Qed.

Lemma dec_ints_roundtrip : forall strict l rest,
  forallb u64_ok l = true ->
  dec_ints strict (List.length l) (flat_map put_uvarint l ++ rest) = Some (l, rest).
Proof.
  induction l as [|x l IH]; intros rest H; [reflexivity|].
  cbn [forallb] in H. apply andb_true_iff in H. destruct H as [H1 H2].
  cbn [List.length flat_map dec_ints]. rewrite <- app_assoc.
  rewrite uvarint_roundtrip by auto. rewrite IH by auto. reflexivity.
Qed.

Lemma dec_ints_strict_inv : forall n buf l rest,
  dec_ints true n buf = Some (l, rest) ->
  buf = flat_map put_uvarint l ++ rest /\ List.length l = n.
Proof.
  induction n; intros buf l rest H; cbn [dec_ints] in H.
  - inversion H; subst. auto.
  - destruct (get_uvarint true buf) as [[x r]|] eqn:E; try discriminate.
    destruct (dec_ints true n r) as [[l' r']|] eqn:E2; try discriminate.
    inversion H; subst. apply IHn in E2. destruct E2 as [E3 E4].
    apply get_uvarint_strict_inv in E. subst. cbn [flat_map List.length].
    rewrite <- app_assoc. auto.
Qed.

Lemma dec_ints_strict_lax : forall n buf r,
  dec_ints true n buf = Some r -> dec_ints false n buf = Some r.
Proof.
  induction n; intros buf r H; cbn [dec_ints] in *; auto.
  destruct (get_uvarint true buf) as [[x r']|] eqn:E; try discriminate.
  rewrite (get_uvarint_strict_lax _ _ E).
  destruct (dec_ints true n r') as [[l' r'']|] eqn:E2; try discriminate.
  rewrite (IHn _ _ E2). auto.
Qed.

Lemma dec_bytess_roundtrip : forall strict l rest,
  forallb (fun bs => u64_ok (nlen bs)) l = true ->
  dec_bytess strict (List.length l) (flat_map enc_bytes l ++ rest) = Some (l, rest).
Proof.
  induction l as [|x l IH]; intros rest H; [reflexivity|].
  cbn [forallb] in H. apply andb_true_iff in H. destruct H as [H1 H2].
  cbn [List.length flat_map dec_bytess]. rewrite <- app_assoc.
  rewrite dec_bytes_roundtrip by auto. rewrite IH by auto. reflexivity.
Qed.

Lemma dec_bytess_strict_inv : forall n buf l rest,
  dec_bytess true n buf = Some (l, rest) ->
  buf = flat_map enc_bytes l ++ rest /\ List.length l = n.
Proof.
  induction n; intros buf l rest H; cbn [dec_bytess] in H.
  - inversion H; subst. auto.
  - destruct (dec_bytes true buf) as [[x r]|] eqn:E; try discriminate.
    destruct (dec_bytess true n r) as [[l' r']|] eqn:E2; try discriminate.
    inversion H; subst. apply IHn in E2. destruct E2 as [E3 E4].
    apply dec_bytes_strict_inv in E. subst. cbn [flat_map List.length].
    rewrite <- app_assoc. auto.
Qed.

Lemma dec_bytess_strict_lax : forall n buf r,
  dec_bytess true n buf = Some r -> dec_bytess false n buf = Some r.
Proof.
  induction n; intros buf r H; cbn [dec_bytess] in *; auto.
  destruct (dec_bytes true buf) as [[x r']|] eqn:E; try discriminate.
  rewrite (dec_bytes_strict_lax _ _ E).
  destruct (dec_bytess true n r') as [[l' r'']|] eqn:E2; try discriminate.
  rewrite (IHn _ _ E2). auto.
Qed.

Lemma dec_i16s_roundtrip : forall l rest,
  forallb i16_ok l = true ->
  dec_i16s (List.length l) (flat_map enc_i16 l ++ rest) = Some (l, rest).
Proof.
  induction l as [|x l IH]; intros rest H; [reflexivity|].
  cbn [forallb] in H. apply andb_true_iff in H. destruct H as [H1 H2].
  cbn [List.length flat_map]. rewrite <- app_assoc.
  destruct (i16_roundtrip x (flat_map enc_i16 l ++ rest) H1) as [b0 [b1 [E1 [E2 _]]]].
  rewrite E1. cbn [dec_i16s]. rewrite IH by auto. rewrite E2. reflexivity.
Qed.

Definition bytes_ok (l : list N) : Prop := Forall (fun b => b < 256) l.

Lemma dec_i16s_strict_inv : forall n buf l rest,
  bytes_ok buf -> dec_i16s n buf = Some (l, rest) ->
  buf = flat_map enc_i16 l ++ rest /\ List.length l = n /\ bytes_ok rest.
Proof.
  induction n; intros buf l rest Hb H; cbn [dec_i16s] in H.
  - inversion H; subst. auto.
  - destruct buf as [|b0 [|b1 r]]; try discriminate.
    destruct (dec_i16s n r) as [[l' r']|] eqn:E2; try discriminate.
    inversion H; subst. inversion Hb as [|? ? Hb0 Hb']; subst. inversion Hb' as [|? ? Hb1 Hb'']; subst.
    apply IHn in E2; auto. destruct E2 as [E3 [E4 E5]]. subst.
    cbn [flat_map List.length]. rewrite i16_reencode by auto. auto.
Qed.

Lemma flat_map_put_uvarint_len : forall l, (List.length l <= List.length (flat_map put_uvarint l))%nat.
Proof.
  induction l; cbn [flat_map List.length]; [lia|]. rewrite app_length.
  pose proof (put_uvarint_nonempty a). lia.
Qed.

Lemma flat_map_enc_bytes_len : forall l, (List.length l <= List.length (flat_map enc_bytes l))%nat.
Proof.
  induction l; cbn [flat_map List.length]; [lia|]. rewrite app_length.
  unfold enc_bytes at 1. rewrite app_length. pose proof (put_uvarint_nonempty (nlen a)). lia.
Qed.

Lemma bytes_ok_app : forall a b, bytes_ok (a ++ b) <-> bytes_ok a /\ bytes_ok b.
Proof. intros. unfold bytes_ok. apply Forall_app. Qed.

(* ------------------------------------------------------------------ instructions *)
Section CodecProofs.
  Variable tbl : N -> N -> opspec * list opspec.
  Variable grp : N -> list fspec.
  Variable logic_ver : N.

  Notation dec_imm := (dec_imm grp).
  Notation dec_imms := (dec_imms grp).
  Notation imm_wf := (imm_wf grp).
  Notation imms_wf := (imms_wf grp).
  Notation dec_instr := (dec_instr tbl grp).
  Notation dec_instrs := (dec_instrs tbl grp).
  Notation dec_prog := (dec_prog tbl grp logic_ver).
  Notation wf_instr := (wf_instr tbl grp).
  Notation wf_prog := (wf_prog tbl grp logic_ver).
  Notation spec_of := (spec_of tbl).
  Notation pick_spec := (pick_spec tbl).

  Lemma dec_imm_roundtrip : forall strict plen im x rest,
    imm_wf im x = true -> nlen (enc_imm x ++ rest) <= plen ->
    dec_imm strict plen im (enc_imm x ++ rest) = Some (x, rest).
  Proof.
    intros strict plen im x rest Hwf Hlen. unfold AvmCodec.imm_wf in Hwf. unfold AvmCodec.dec_imm.
    destruct (kind_of (im_kind im)) eqn:K; destruct x; try discriminate; cbn [enc_imm] in *.
    - apply andb_true_iff in Hwf. destruct Hwf as [_ Hf]. cbn [app]. rewrite Hf. reflexivity.
    - destruct (i16_roundtrip off rest Hwf) as [b0 [b1 [E1 [E2 _]]]]. rewrite E1. rewrite E2. reflexivity.
    - rewrite uvarint_roundtrip by auto. reflexivity.
    - rewrite dec_bytes_roundtrip by auto. reflexivity.
    - apply andb_true_iff in Hwf. destruct Hwf as [H1 H2].
      rewrite <- app_assoc. rewrite uvarint_roundtrip by auto.
      destruct (plen <? nlen l) eqn:E.
      + apply N.ltb_lt in E. rewrite !nlen_app in Hlen.
        pose proof (flat_map_put_uvarint_len l). unfold nlen in *. lia.
      + rewrite Nat2N_len. rewrite dec_ints_roundtrip by auto. reflexivity.
    - apply andb_true_iff in Hwf. destruct Hwf as [H1 H2].
      rewrite <- app_assoc. rewrite uvarint_roundtrip by auto.
      destruct (plen <? nlen l) eqn:E.
      + apply N.ltb_lt in E. rewrite !nlen_app in Hlen.
        pose proof (flat_map_enc_bytes_len l). unfold nlen in *. lia.
      + rewrite Nat2N_len. rewrite dec_bytess_roundtrip by auto. reflexivity.
    - apply andb_true_iff in Hwf. destruct Hwf as [H1 H2].
      rewrite <- app_comm_cons. rewrite Nat2N_len. rewrite dec_i16s_roundtrip by auto. reflexivity.
    - rewrite varint_roundtrip by auto. reflexivity.
  Qed.

  Lemma enc_imm_nonempty : forall x, (1 <= List.length (enc_imm x))%nat.
  Proof.
    destruct x; cbn [enc_imm]; try (unfold enc_i16; simpl; lia); try (simpl; lia).
    - unfold put_varint. apply put_uvarint_nonempty.
    - apply put_uvarint_nonempty.
    - unfold enc_bytes. rewrite app_length. pose proof (put_uvarint_nonempty (nlen bs)). lia.
    - rewrite app_length. pose proof (put_uvarint_nonempty (nlen l)). lia.
    - rewrite app_length. pose proof (put_uvarint_nonempty (nlen l)). lia.
  Qed.

  Lemma dec_imms_roundtrip : forall strict plen ims xs rest,
    imms_wf ims xs = true -> nlen (flat_map enc_imm xs ++ rest) <= plen ->
    dec_imms strict plen ims (flat_map enc_imm xs ++ rest) = Some (xs, rest).
  Proof.
    induction ims as [|im ims IH]; intros xs rest Hwf Hlen; destruct xs as [|x xs];
      cbn [AvmCodec.imms_wf] in Hwf; try discriminate; [reflexivity|].
    apply andb_true_iff in Hwf. destruct Hwf as [H1 H2].
    cbn [flat_map AvmCodec.dec_imms]. rewrite <- app_assoc.
    rewrite dec_imm_roundtrip; auto.
    - rewrite IH; auto. cbn [flat_map] in Hlen. rewrite <- app_assoc in Hlen.
      rewrite nlen_app in Hlen. lia.
    - cbn [flat_map] in Hlen. rewrite <- app_assoc in Hlen. exact Hlen.
  Qed.

  (* the spec an instruction denotes is the one the disassembler selects *)
  Lemma pick_spec_wf : forall v i op rest,
    spec_of v i = Some op -> os_sub op = i_sub i ->
    pick_spec v (enc_instr i ++ rest) = Some op.
  Proof.
    intros v i op rest Hs Hsub. unfold AvmCodec.spec_of, spec_at in Hs.
    unfold AvmCodec.pick_spec, enc_instr. rewrite <- app_comm_cons.
    destruct (tbl v (i_op i)) as [e subs] eqn:T.
    destruct (i_sub i =? 0) eqn:E0.
    - destruct subs; try discriminate.
      destruct (String.eqb (os_name e) "") eqn:En; try discriminate. inversion Hs; subst.
      reflexivity.
    - cbn [app].
      destruct subs as [|s0 subs']; [destruct (N.to_nat (i_sub i)); discriminate|].
      set (subs := s0 :: subs') in *.
      destruct ((N.to_nat (i_sub i) <? List.length subs)%nat && os_hasop (nth (N.to_nat (i_sub i)) subs zero_spec)
                && negb (String.eqb (os_name (nth (N.to_nat (i_sub i)) subs zero_spec)) "")) eqn:C; try discriminate.
      inversion Hs; subst op. apply andb_true_iff in C. destruct C as [C1 C2].
      rewrite C1. apply negb_true_iff in C2. rewrite C2. reflexivity.
  Qed.

  Lemma wf_instr_inv : forall v i, wf_instr v i = true ->
    exists op, spec_of v i = Some op /\ os_opcode op = i_op i /\ os_sub op = i_sub i /\
               imms_wf (os_imms op) (i_imms i) = true.
  Proof.
    unfold AvmCodec.wf_instr. intros v i H.
    destruct (spec_of v i) as [op|]; try discriminate. exists op.
    repeat (apply andb_true_iff in H; destruct H as [H ?]).
    apply N.eqb_eq in H. apply N.eqb_eq in H3. auto.
  Qed.

  Theorem instr_roundtrip : forall strict v plen i rest,
    wf_instr v i = true -> nlen (enc_instr i ++ rest) <= plen ->
    dec_instr strict v plen (enc_instr i ++ rest) = Some (i, rest).
  Proof.
    intros strict v plen i rest Hwf Hlen.
    destruct (wf_instr_inv v i Hwf) as [op [Hs [Hop [Hsub Him]]]].
    unfold AvmCodec.dec_instr. rewrite (pick_spec_wf v i op rest Hs Hsub).
    unfold enc_instr in *. rewrite <- app_comm_cons in *. rewrite Hop, Hsub.
    rewrite N.eqb_refl. destruct (i_sub i =? 0) eqn:E0.
    - cbn [app andb negb]. rewrite andb_false_r.
      rewrite dec_imms_roundtrip; auto.
      + destruct i; cbn in *. reflexivity.
      + cbn [app] in Hlen. rewrite nlen_cons in Hlen. lia.
    - cbn [app tl]. rewrite N.eqb_refl. cbn [andb negb]. rewrite andb_false_r.
      rewrite dec_imms_roundtrip; auto.
      + destruct i; cbn in *. reflexivity.
      + cbn [app] in Hlen. rewrite !nlen_cons in Hlen. lia.
  Qed.

  Lemma enc_instr_nonempty : forall i, (1 <= List.length (enc_instr i))%nat.
  Proof. intros. unfold enc_instr. simpl. lia. Qed.

  Lemma dec_instrs_roundtrip : forall strict v plen p fuel,
    forallb (wf_instr v) p = true -> nlen (enc_instrs p) <= plen ->
    (List.length (enc_instrs p) <= fuel)%nat ->
    dec_instrs strict v plen fuel (enc_instrs p) = Some p.
  Proof.
    induction p as [|i p IH]; intros fuel Hwf Hlen Hf.
    - destruct fuel; reflexivity.
    - cbn [forallb] in Hwf. apply andb_true_iff in Hwf. destruct Hwf as [H1 H2].
      unfold enc_instrs in *. cbn [flat_map] in *.
      pose proof (enc_instr_nonempty i) as Hne.
      destruct (enc_instr i ++ flat_map enc_instr p) as [|b r] eqn:E.
      { apply (f_equal (@List.length N)) in E. rewrite app_length in E. simpl in E. lia. }
      rewrite <- E in *. destruct fuel as [|fuel]; [rewrite app_length in Hf; lia|].
      cbn [AvmCodec.dec_instrs]. rewrite E. rewrite <- E.
      rewrite instr_roundtrip; auto.
      rewrite IH; auto.
      + rewrite nlen_app in Hlen. lia.
      + rewrite app_length in Hf. lia.
  Qed.

  Theorem prog_roundtrip : forall strict v p,
    wf_prog v p = true -> dec_prog strict (enc_prog v p) = Some (v, p).
  Proof.
    intros strict v p H. unfold AvmCodec.wf_prog in H.
    apply andb_true_iff in H. destruct H as [H H3]. apply andb_true_iff in H. destruct H as [H1 H2].
    unfold AvmCodec.dec_prog, enc_prog. rewrite uvarint_roundtrip by auto.
    destruct (logic_ver <? v) eqn:E; [apply N.ltb_lt in E; apply N.leb_le in H1; lia|].
    rewrite dec_instrs_roundtrip; auto.
    rewrite nlen_app. lia.
  Qed.

  (* ---------------------------------------------------------------- canonical bytes re-encode *)
  Lemma dec_imm_strict_inv : forall plen im buf x rest,
    bytes_ok buf -> dec_imm true plen im buf = Some (x, rest) -> buf = enc_imm x ++ rest.
  Proof.
    intros plen im buf x rest Hb H. unfold AvmCodec.dec_imm in H.
    destruct (kind_of (im_kind im)) eqn:K.
    - destruct buf as [|b r]; try discriminate.
      destruct (field_named grp (im_group im) b); try discriminate. inversion H; subst. reflexivity.
    - destruct buf as [|b0 [|b1 r]]; try discriminate. inversion H; subst.
      inversion Hb as [|? ? Hb0 Hb']; subst. inversion Hb' as [|? ? Hb1 Hb'']; subst.
      cbn [enc_imm]. rewrite i16_reencode by auto. reflexivity.
    - destruct (get_uvarint true buf) as [[u r]|] eqn:E; try discriminate. inversion H; subst.
      apply get_uvarint_strict_inv in E. exact E.
    - destruct (dec_bytes true buf) as [[bs r]|] eqn:E; try discriminate. inversion H; subst.
      apply dec_bytes_strict_inv in E. exact E.
    - destruct (get_uvarint true buf) as [[n r]|] eqn:E; try discriminate.
      destruct (plen <? n); try discriminate.
      destruct (dec_ints true (N.to_nat n) r) as [[l r']|] eqn:E2; try discriminate. inversion H; subst.
      apply get_uvarint_strict_inv in E. apply dec_ints_strict_inv in E2. destruct E2 as [E3 E4].
      subst. cbn [enc_imm]. rewrite <- app_assoc. f_equal. f_equal. unfold nlen. rewrite E4.
      symmetry. apply N2Nat.id.
    - destruct (get_uvarint true buf) as [[n r]|] eqn:E; try discriminate.
      destruct (plen <? n); try discriminate.
      destruct (dec_bytess true (N.to_nat n) r) as [[l r']|] eqn:E2; try discriminate. inversion H; subst.
      apply get_uvarint_strict_inv in E. apply dec_bytess_strict_inv in E2. destruct E2 as [E3 E4].
      subst. cbn [enc_imm]. rewrite <- app_assoc. f_equal. f_equal. unfold nlen. rewrite E4.
      symmetry. apply N2Nat.id.
    - destruct buf as [|n r]; try discriminate.
      destruct (dec_i16s (N.to_nat n) r) as [[l r']|] eqn:E2; try discriminate. inversion H; subst.
      inversion Hb; subst.
      apply dec_i16s_strict_inv in E2; auto. destruct E2 as [E3 [E4 _]].
      subst. cbn [enc_imm]. rewrite <- app_comm_cons. f_equal. unfold nlen. rewrite E4.
      symmetry. apply N2Nat.id.
    - destruct (get_varint true buf) as [[z r]|] eqn:E; try discriminate. inversion H; subst.
      apply get_varint_strict_inv in E. exact E.
    - discriminate.
  Qed.

  Lemma dec_imms_strict_inv : forall plen ims buf xs rest,
    bytes_ok buf -> dec_imms true plen ims buf = Some (xs, rest) -> buf = flat_map enc_imm xs ++ rest.
  Proof.
    induction ims as [|im ims IH]; intros buf xs rest Hb H; cbn [AvmCodec.dec_imms] in H.
    - inversion H; subst. reflexivity.
    - destruct (dec_imm true plen im buf) as [[x r]|] eqn:E; try discriminate.
      destruct (dec_imms true plen ims r) as [[xs' r']|] eqn:E2; try discriminate.
      inversion H; subst. apply dec_imm_strict_inv in E; auto. subst buf.
      apply bytes_ok_app in Hb. destruct Hb as [_ Hb].
      apply IH in E2; auto. subst r. cbn [flat_map]. rewrite <- app_assoc. reflexivity.
  Qed.

  Lemma dec_instr_strict_inv : forall v plen buf i rest,
    bytes_ok buf -> dec_instr true v plen buf = Some (i, rest) -> buf = enc_instr i ++ rest.
  Proof.
    intros v plen buf i rest Hb H. unfold AvmCodec.dec_instr in H.
    destruct (pick_spec v buf) as [op|]; try discriminate.
    destruct buf as [|b0 r]; try discriminate.
    cbn [andb] in H.
    destruct (os_opcode op =? b0) eqn:Eop; cbn [andb negb] in H; try discriminate.
    apply N.eqb_eq in Eop. inversion Hb as [|? ? _ Hr]; subst.
    destruct (os_sub op =? 0) eqn:E0.
    - cbn [negb] in H.
      destruct (dec_imms true plen (os_imms op) r) as [[xs rest']|] eqn:E; try discriminate.
      inversion H; subst. apply dec_imms_strict_inv in E; auto. subst r.
      unfold enc_instr. cbn [i_op i_sub i_imms]. rewrite E0. reflexivity.
    - destruct r as [|s r']; cbn [negb] in H; try discriminate.
      destruct (s =? os_sub op) eqn:Es; cbn [negb] in H; try discriminate.
      apply N.eqb_eq in Es. cbn [tl] in H. inversion Hr; subst.
      destruct (dec_imms true plen (os_imms op) r') as [[xs rest']|] eqn:E; try discriminate.
      inversion H; subst. apply dec_imms_strict_inv in E; auto. subst r'.
      unfold enc_instr. cbn [i_op i_sub i_imms]. rewrite E0. reflexivity.
  Qed.

  Lemma dec_instrs_strict_inv : forall v plen fuel buf p,
    bytes_ok buf -> dec_instrs true v plen fuel buf = Some p -> buf = enc_instrs p.
  Proof.
    induction fuel as [|fuel IH]; intros buf p Hb H; destruct buf as [|b r]; cbn [AvmCodec.dec_instrs] in H;
      try discriminate; try (inversion H; subst; reflexivity).
    destruct (dec_instr true v plen (b :: r)) as [[i rest]|] eqn:E; try discriminate.
    destruct (dec_instrs true v plen fuel rest) as [l|] eqn:E2; try discriminate.
    inversion H; subst. apply dec_instr_strict_inv in E; auto. rewrite E in Hb.
    apply bytes_ok_app in Hb. destruct Hb as [_ Hb]. apply IH in E2; auto.
    rewrite E. subst rest. reflexivity.
  Qed.

  (* re-encode stability: bytes that decode canonically are reproduced exactly *)
  Theorem reencode_canonical : forall b v p,
    bytes_ok b -> dec_prog true b = Some (v, p) -> enc_prog v p = b.
  Proof.
    intros b v p Hb H. unfold AvmCodec.dec_prog in H.
    destruct (get_uvarint true b) as [[v' rest]|] eqn:E; try discriminate.
    destruct (logic_ver <? v'); try discriminate.
    destruct (dec_instrs true v' (nlen b) (List.length rest) rest) as [p'|] eqn:E2; try discriminate.
    inversion H; subst. apply get_uvarint_strict_inv in E. subst b.
    apply bytes_ok_app in Hb. destruct Hb as [_ Hb].
    apply dec_instrs_strict_inv in E2; auto. unfold enc_prog. rewrite <- E2. reflexivity.
  Qed.

  (* ---------------------------------------------------------------- strict implies lax *)
  Lemma dec_imm_strict_lax : forall plen im buf r,
    dec_imm true plen im buf = Some r -> dec_imm false plen im buf = Some r.
  Proof.
    intros plen im buf r H. unfold AvmCodec.dec_imm in *.
    destruct (kind_of (im_kind im)); auto.
    - destruct (get_uvarint true buf) as [[u r']|] eqn:E; try discriminate.
      rewrite (get_uvarint_strict_lax _ _ E). auto.
    - destruct (dec_bytes true buf) as [[u r']|] eqn:E; try discriminate.
      rewrite (dec_bytes_strict_lax _ _ E). auto.
    - destruct (get_uvarint true buf) as [[n r']|] eqn:E; try discriminate.
      rewrite (get_uvarint_strict_lax _ _ E). destruct (plen <? n); auto.
      destruct (dec_ints true (N.to_nat n) r') as [[l r'']|] eqn:E2; try discriminate.
      rewrite (dec_ints_strict_lax _ _ _ E2). auto.
    - destruct (get_uvarint true buf) as [[n r']|] eqn:E; try discriminate.
      rewrite (get_uvarint_strict_lax _ _ E). destruct (plen <? n); auto.
      destruct (dec_bytess true (N.to_nat n) r') as [[l r'']|] eqn:E2; try discriminate.
      rewrite (dec_bytess_strict_lax _ _ _ E2). auto.
    - destruct (get_varint true buf) as [[u r']|] eqn:E; try discriminate.
      rewrite (get_varint_strict_lax _ _ E). auto.
  Qed.

  Lemma dec_imms_strict_lax : forall plen ims buf r,
    dec_imms true plen ims buf = Some r -> dec_imms false plen ims buf = Some r.
  Proof.
    induction ims as [|im ims IH]; intros buf r H; cbn [AvmCodec.dec_imms] in *; auto.
    destruct (dec_imm true plen im buf) as [[x r']|] eqn:E; try discriminate.
    rewrite (dec_imm_strict_lax _ _ _ _ E).
    destruct (dec_imms true plen ims r') as [[xs r'']|] eqn:E2; try discriminate.
    rewrite (IH _ _ E2). auto.
  Qed.

  Lemma dec_instr_strict_lax : forall v plen buf r,
    dec_instr true v plen buf = Some r -> dec_instr false v plen buf = Some r.
  Proof.
    intros v plen buf r H. unfold AvmCodec.dec_instr in *.
    destruct (pick_spec v buf) as [op|]; try discriminate.
    destruct buf as [|b0 rr]; try discriminate.
    cbn [andb] in *.
    match type of H with (if negb ?c then _ else _) = _ => destruct c; cbn [negb] in H; try discriminate end.
    destruct (dec_imms true plen (os_imms op) (if os_sub op =? 0 then rr else tl rr)) as [[xs rest]|] eqn:E;
      try discriminate.
    rewrite (dec_imms_strict_lax _ _ _ _ E). auto.
  Qed.

  Lemma dec_instrs_strict_lax : forall v plen fuel buf p,
    dec_instrs true v plen fuel buf = Some p -> dec_instrs false v plen fuel buf = Some p.
  Proof.
    induction fuel as [|fuel IH]; intros buf p H; destruct buf as [|b r]; cbn [AvmCodec.dec_instrs] in *; auto.
    destruct (dec_instr true v plen (b :: r)) as [[i rest]|] eqn:E; try discriminate.
    rewrite (dec_instr_strict_lax _ _ _ _ E).
    destruct (dec_instrs true v plen fuel rest) as [l|] eqn:E2; try discriminate.
    rewrite (IH _ _ E2). auto.
  Qed.

  Theorem dec_prog_strict_lax : forall b r, dec_prog true b = Some r -> dec_prog false b = Some r.
  Proof.
    intros b r H. unfold AvmCodec.dec_prog in *.
    destruct (get_uvarint true b) as [[v rest]|] eqn:E; try discriminate.
    rewrite (get_uvarint_strict_lax _ _ E). destruct (logic_ver <? v); auto.
    destruct (dec_instrs true v (nlen b) (List.length rest) rest) as [p|] eqn:E2; try discriminate.
    rewrite (dec_instrs_strict_lax _ _ _ _ _ E2). auto.
  Qed.

  (* the encoder only produces bytes when the instruction is well formed *)
  Lemma put_uvarint_f_bytes : forall f x, x < 2 ^ (7 * N.of_nat f + 8) -> bytes_ok (put_uvarint_f f x).
  Proof.
    induction f as [|f IH]; intros x H.
    - change (2 ^ (7 * N.of_nat 0 + 8)) with 256 in H. repeat constructor. exact H.
    - rewrite put_uvarint_f_S. destruct (x <? 128) eqn:E.
      + apply N.ltb_lt in E. repeat constructor. lia.
      + constructor.
        * assert (x mod 128 < 128) by (apply N.mod_lt; lia). lia.
        * apply IH. replace (7 * N.of_nat (S f) + 8) with (7 + (7 * N.of_nat f + 8)) in H by lia.
          rewrite N.pow_add_r in H. change (2 ^ 7) with 128 in H.
          apply N.div_lt_upper_bound; lia.
  Qed.
End CodecProofs.
