(* C10 proofs, part 1: strictly sorted keyed lists, insertion sort, the byte-string order. *)
From Coq Require Import NArith List Bool Lia ZifyN ZifyNat ZifyBool Sorted Permutation.
From Verif.model Require Import Paging PagingSpec.
Import ListNotations.
Open Scope N_scope.

(* ------------------------------------------------------------------------------------------ *)
(* generic: lists of (key, value) strictly sorted by key                                      *)
(* ------------------------------------------------------------------------------------------ *)
Record strict_order {K : Type} (ltb : K -> K -> bool) : Prop := mkSO {
  so_irrefl : forall a, ltb a a = false;
  so_trans : forall a b c, ltb a b = true -> ltb b c = true -> ltb a c = true;
  so_total : forall a b, ltb a b = false -> ltb b a = false -> a = b
}.

Section Keyed.
  Context {K V : Type}.
  Variable ltb : K -> K -> bool.
  Hypothesis Hord : strict_order ltb.
  Let lt_irrefl := so_irrefl ltb Hord.
  Let lt_trans := so_trans ltb Hord.
  Let lt_total := so_total ltb Hord.

  Definition klt (x y : K * V) : Prop := ltb (fst x) (fst y) = true.
  Definition ssorted (l : list (K * V)) : Prop := StronglySorted klt l.

  Lemma klt_trans : forall x y z, klt x y -> klt y z -> klt x z.
  Proof. unfold klt; intros; eapply lt_trans; eauto. Qed.

  Lemma ssorted_nil : ssorted [].
  Proof. constructor. Qed.

  Lemma ssorted_cons_inv : forall x l, ssorted (x :: l) -> ssorted l /\ Forall (klt x) l.
  Proof. intros x l H; inversion H; subst; auto. Qed.

  Lemma ssorted_cons : forall x l, ssorted l -> Forall (klt x) l -> ssorted (x :: l).
  Proof. intros; constructor; auto. Qed.

  Lemma ins_perm : forall (x : K * V) l, Permutation (ins ltb x l) (x :: l).
  Proof.
    intros x l; induction l as [|y t IH]; cbn; auto.
    destruct (ltb (fst y) (fst x)); auto.
    eapply perm_trans; [apply perm_skip, IH | apply perm_swap].
  Qed.

  Lemma isort_cons : forall (x : K * V) t, isort ltb (x :: t) = ins ltb x (isort ltb t).
  Proof. reflexivity. Qed.

  Lemma isort_perm : forall (l : list (K * V)), Permutation (isort ltb l) l.
  Proof.
    induction l as [|x t IH]; [cbn; auto|]. rewrite isort_cons.
    eapply perm_trans; [apply ins_perm | apply perm_skip, IH].
  Qed.

  Lemma isort_in : forall (l : list (K * V)) x, In x (isort ltb l) <-> In x l.
  Proof.
    intros; split; intro H.
    - eapply Permutation_in; [apply isort_perm | exact H].
    - eapply Permutation_in; [apply Permutation_sym, isort_perm | exact H].
  Qed.

  Lemma isort_length : forall (l : list (K * V)), length (isort ltb l) = length l.
  Proof. intros; apply Permutation_length, isort_perm. Qed.

  Lemma ins_ssorted : forall (x : K * V) l, ssorted l -> (forall y, In y l -> fst y <> fst x) -> ssorted (ins ltb x l).
  Proof.
    intros x l; induction l as [|y t IH]; cbn; intros Hs Hne.
    - constructor; constructor.
    - apply ssorted_cons_inv in Hs; destruct Hs as [Hs Hall].
      destruct (ltb (fst y) (fst x)) eqn:E.
      + apply ssorted_cons.
        * apply IH; auto.
        * rewrite Forall_forall; intros z Hz.
          apply (Permutation_in _ (ins_perm x t)) in Hz; destruct Hz as [<-|Hz]; [exact E|].
          rewrite Forall_forall in Hall; auto.
      + assert (Hxy : klt x y).
        { unfold klt. destruct (ltb (fst x) (fst y)) eqn:E2; auto.
          exfalso; apply (Hne y); [left; auto | apply lt_total; auto]. }
        apply ssorted_cons; [apply ssorted_cons; auto|].
        constructor; auto.
        rewrite Forall_forall in *; intros z Hz; eapply klt_trans; eauto.
  Qed.

  Lemma isort_ssorted : forall l, NoDup (map fst l) -> ssorted (isort ltb l).
  Proof.
    induction l as [|x t IH]; intros Hnd; [constructor|]. rewrite isort_cons. cbn in Hnd.
    inversion Hnd as [|? ? Hni Hnd']; subst.
    apply ins_ssorted.
    - apply IH; exact Hnd'.
    - intros y Hy Heq. apply (proj1 (isort_in t y)) in Hy. apply Hni. rewrite <- Heq. apply in_map; auto.
  Qed.

  Lemma ssorted_key_neq : forall x l, Forall (klt x) l -> forall y, In y l -> fst y <> fst x.
  Proof.
    intros x l H y Hy Heq. rewrite Forall_forall in H. specialize (H y Hy).
    unfold klt in H. rewrite Heq, lt_irrefl in H; discriminate.
  Qed.

  Lemma ssorted_nodup_keys : forall l, ssorted l -> NoDup (map fst l).
  Proof.
    induction l as [|x t IH]; cbn; intros Hs; [constructor|].
    apply ssorted_cons_inv in Hs; destruct Hs as [Hs Hall].
    constructor; auto. intro Hin. apply in_map_iff in Hin. destruct Hin as [y [Heq Hy]].
    eapply ssorted_key_neq; eauto.
  Qed.

  (* two strictly sorted lists with the same elements are equal *)
  Lemma ssorted_unique : forall l1 l2, ssorted l1 -> ssorted l2 -> (forall x, In x l1 <-> In x l2) -> l1 = l2.
  Proof.
    induction l1 as [|x t IH]; intros l2 H1 H2 Hiff.
    - destruct l2 as [|y u]; auto. exfalso. apply (Hiff y). left; auto.
    - destruct l2 as [|y u]; [exfalso; apply (Hiff x); left; auto|].
      apply ssorted_cons_inv in H1; destruct H1 as [H1 A1].
      apply ssorted_cons_inv in H2; destruct H2 as [H2 A2].
      rewrite Forall_forall in A1, A2.
      assert (x = y).
      { destruct (proj1 (Hiff x) (or_introl eq_refl)) as [E|Hx]; auto.
        destruct (proj2 (Hiff y) (or_introl eq_refl)) as [E|Hy]; auto.
        specialize (A1 _ Hy). specialize (A2 _ Hx). unfold klt in *.
        pose proof (lt_trans _ _ _ A1 A2) as C. rewrite lt_irrefl in C. discriminate. }
      subst y. f_equal. apply IH; auto.
      intro z; split; intro Hz.
      + destruct (proj1 (Hiff z) (or_intror Hz)) as [E|?]; auto.
        subst z. specialize (A1 _ Hz). unfold klt in A1. rewrite lt_irrefl in A1. discriminate.
      + destruct (proj2 (Hiff z) (or_intror Hz)) as [E|?]; auto.
        subst z. specialize (A2 _ Hz). unfold klt in A2. rewrite lt_irrefl in A2. discriminate.
  Qed.

  Lemma isort_id : forall l, ssorted l -> isort ltb l = l.
  Proof.
    intros l H. apply ssorted_unique; auto.
    - apply isort_ssorted, ssorted_nodup_keys; auto.
    - apply isort_in.
  Qed.

  Lemma ssorted_filter : forall f l, ssorted l -> ssorted (filter f l).
  Proof.
    intros f l; induction l as [|x t IH]; cbn; intros Hs; [constructor|].
    apply ssorted_cons_inv in Hs; destruct Hs as [Hs Hall].
    destruct (f x); auto. apply ssorted_cons; auto.
    rewrite Forall_forall in *. intros y Hy. apply filter_In in Hy. apply Hall, Hy.
  Qed.

  Lemma ssorted_app : forall l1 l2, ssorted l1 -> ssorted l2 ->
    (forall x y, In x l1 -> In y l2 -> klt x y) -> ssorted (l1 ++ l2).
  Proof.
    induction l1 as [|x t IH]; cbn; intros l2 H1 H2 Hc; auto.
    apply ssorted_cons_inv in H1; destruct H1 as [H1 A1].
    apply ssorted_cons.
    - apply IH; auto.
    - rewrite Forall_forall in *. intros y Hy. apply in_app_or in Hy. destruct Hy; auto.
  Qed.

  Lemma ssorted_app_inv : forall l1 l2, ssorted (l1 ++ l2) ->
    ssorted l1 /\ ssorted l2 /\ (forall x y, In x l1 -> In y l2 -> klt x y).
  Proof.
    induction l1 as [|x t IH]; cbn; intros l2 H.
    - repeat split; auto; [constructor | intros ? ? []].
    - apply ssorted_cons_inv in H; destruct H as [H A].
      destruct (IH _ H) as [S1 [S2 C]]. rewrite Forall_forall in A.
      repeat split; auto.
      + apply ssorted_cons; auto. rewrite Forall_forall; intros; apply A, in_or_app; auto.
      + intros a b [<-|Ha] Hb; [apply A, in_or_app; auto | auto].
  Qed.

  Lemma ssorted_firstn : forall n l, ssorted l -> ssorted (firstn n l).
  Proof.
    intros n l H. rewrite <- (firstn_skipn n l) in H. apply ssorted_app_inv in H. tauto.
  Qed.

  Lemma ssorted_skipn : forall n l, ssorted l -> ssorted (skipn n l).
  Proof.
    intros n l H. rewrite <- (firstn_skipn n l) in H. apply ssorted_app_inv in H. tauto.
  Qed.

  (* a downward closed predicate selects a prefix *)
  Lemma filter_downclosed : forall (P : K * V -> bool) l, ssorted l ->
    (forall x y, klt x y -> P y = true -> P x = true) ->
    l = filter P l ++ filter (fun x => negb (P x)) l /\
    (forall x, In x (filter (fun x => negb (P x)) l) -> P x = false).
  Proof.
    intros P l Hs Hd. split.
    - induction l as [|x t IH]; cbn; auto.
      apply ssorted_cons_inv in Hs; destruct Hs as [Hs Hall].
      destruct (P x) eqn:E; cbn.
      + f_equal. apply IH; auto.
      + assert (filter P t = []) as ->.
        { clear IH. induction t as [|y u IHu]; cbn; auto.
          inversion Hall; subst. apply ssorted_cons_inv in Hs. destruct Hs.
          destruct (P y) eqn:E2; [rewrite (Hd x y) in E; auto; discriminate | auto]. }
        cbn. f_equal.
        assert (filter (fun x0 => negb (P x0)) t = t) as ->; auto.
        { clear IH. induction t as [|y u IHu]; cbn; auto.
          inversion Hall; subst. apply ssorted_cons_inv in Hs. destruct Hs.
          destruct (P y) eqn:E2; [rewrite (Hd x y) in E; auto; discriminate | cbn; f_equal; auto]. }
    - intros x Hx. apply filter_In in Hx. destruct Hx as [_ Hx]. destruct (P x); auto; discriminate.
  Qed.

  (* the elements of a sorted list strictly above its n-th element are the tail after it *)
  Lemma ssorted_above_last : forall l1 x l2, ssorted (l1 ++ x :: l2) ->
    filter (fun y => ltb (fst x) (fst y)) (l1 ++ x :: l2) = l2.
  Proof.
    intros l1 x l2 H.
    apply ssorted_app_inv in H. destruct H as [S1 [S2 C]].
    apply ssorted_cons_inv in S2. destruct S2 as [S2 A2].
    rewrite filter_app. cbn. rewrite lt_irrefl.
    assert (filter (fun y => ltb (fst x) (fst y)) l1 = []) as ->.
    { clear S1. induction l1 as [|y u IH]; cbn; auto.
      assert (klt y x) as Hyx by (apply C; [left|left]; auto).
      destruct (ltb (fst x) (fst y)) eqn:E.
      - unfold klt in Hyx. pose proof (lt_trans _ _ _ E Hyx) as Cn. rewrite lt_irrefl in Cn. discriminate.
      - apply IH. intros a b Ha Hb. apply C; auto. right; auto. }
    cbn. clear C S1. induction l2 as [|y u IH]; cbn; auto.
    inversion A2; subst. apply ssorted_cons_inv in S2. destruct S2.
    unfold klt in H1. rewrite H1. f_equal. apply IH; auto.
  Qed.
End Keyed.

(* ------------------------------------------------------------------------------------------ *)
(* instances of the order                                                                     *)
(* ------------------------------------------------------------------------------------------ *)
Lemma nltb_irrefl : forall a, N.ltb a a = false.
Proof. intros; lia. Qed.
Lemma nltb_trans : forall a b c, N.ltb a b = true -> N.ltb b c = true -> N.ltb a c = true.
Proof. intros; lia. Qed.
Lemma nltb_total : forall a b, N.ltb a b = false -> N.ltb b a = false -> a = b.
Proof. intros; lia. Qed.

Lemma bcmp_eq : forall a b, bcmp a b = Eq <-> a = b.
Proof.
  induction a as [|x a IH]; destruct b as [|y b]; cbn; split; intro H; auto; try discriminate.
  - destruct (x ?= y) eqn:E; try discriminate. apply N.compare_eq in E. subst. f_equal. apply IH; auto.
  - inversion H; subst. rewrite N.compare_refl. apply IH; auto.
Qed.

Lemma bcmp_refl : forall a, bcmp a a = Eq.
Proof. intro; apply bcmp_eq; auto. Qed.

Lemma bcmp_antisym : forall a b, bcmp b a = CompOpp (bcmp a b).
Proof.
  induction a as [|x a IH]; destruct b as [|y b]; cbn; auto.
  rewrite (N.compare_antisym x y). destruct (x ?= y); cbn; auto.
Qed.

Lemma bcmp_lt_trans : forall a b c, bcmp a b = Lt -> bcmp b c = Lt -> bcmp a c = Lt.
Proof.
  induction a as [|x a IH]; destruct b as [|y b]; destruct c as [|z c]; cbn; intros H1 H2; auto; try discriminate.
  destruct (x ?= y) eqn:E1; try discriminate.
  - apply N.compare_eq in E1; subst y. destruct (x ?= z); auto. eapply IH; eauto.
  - destruct (y ?= z) eqn:E2; try discriminate.
    + apply N.compare_eq in E2; subst z. rewrite E1. auto.
    + rewrite N.compare_lt_iff in *. assert (x < z) by lia. rewrite <- N.compare_lt_iff in H. rewrite H. auto.
Qed.

Lemma bltb_irrefl : forall a, bltb a a = false.
Proof. intro; unfold bltb; rewrite bcmp_refl; auto. Qed.
Lemma bltb_trans : forall a b c, bltb a b = true -> bltb b c = true -> bltb a c = true.
Proof.
  unfold bltb; intros a b c H1 H2.
  destruct (bcmp a b) eqn:E1; try discriminate. destruct (bcmp b c) eqn:E2; try discriminate.
  rewrite (bcmp_lt_trans _ _ _ E1 E2). auto.
Qed.
Lemma bltb_total : forall a b, bltb a b = false -> bltb b a = false -> a = b.
Proof.
  unfold bltb; intros a b H1 H2. rewrite (bcmp_antisym a b) in H2.
  destruct (bcmp a b) eqn:E; cbn in *; try discriminate. apply bcmp_eq; auto.
Qed.

Lemma b_ord : strict_order bltb.
Proof. constructor; [apply bltb_irrefl | apply bltb_trans | apply bltb_total]. Qed.
Lemma n_ord : strict_order N.ltb.
Proof. constructor; [apply nltb_irrefl | apply nltb_trans | apply nltb_total]. Qed.
#[global] Hint Resolve b_ord n_ord : core.

Lemma beqb_eq : forall a b, beqb a b = true <-> a = b.
Proof. intros; unfold beqb; rewrite <- bcmp_eq; destruct (bcmp a b); split; auto; discriminate. Qed.
Lemma beqb_refl : forall a, beqb a a = true.
Proof. intro; apply beqb_eq; auto. Qed.
Lemma beqb_neq : forall a b, beqb a b = false <-> a <> b.
Proof.
  intros; split; intro H.
  - intro E; apply beqb_eq in E; congruence.
  - destruct (beqb a b) eqn:E; auto. apply beqb_eq in E; contradiction.
Qed.

Lemma bleb_bltb : forall a b, bleb a b = negb (bltb b a).
Proof.
  intros; unfold bleb, bltb. rewrite (bcmp_antisym a b). destruct (bcmp a b); auto.
Qed.
Lemma bleb_refl : forall a, bleb a a = true.
Proof. intro; rewrite bleb_bltb, bltb_irrefl; auto. Qed.
Lemma bltb_bleb : forall a b, bltb a b = true -> bleb a b = true.
Proof. unfold bltb, bleb; intros a b; destruct (bcmp a b); auto; discriminate. Qed.
Lemma bleb_trans : forall a b c, bleb a b = true -> bleb b c = true -> bleb a c = true.
Proof.
  intros a b c. rewrite !bleb_bltb, !negb_true_iff. intros H1 H2.
  destruct (bltb c a) eqn:E; auto.
  destruct (bltb b a) eqn:E1; try discriminate. destruct (bltb c b) eqn:E2; try discriminate.
  (* c < a, not b < a, not c < b *)
  destruct (bltb a b) eqn:E3.
  - rewrite (bltb_trans _ _ _ E E3) in E2; discriminate.
  - assert (a = b) by (apply bltb_total; auto). subst. congruence.
Qed.
Lemma bleb_bltb_trans : forall a b c, bleb a b = true -> bltb b c = true -> bltb a c = true.
Proof.
  intros a b c. rewrite bleb_bltb, negb_true_iff. intros H1 H2.
  destruct (bltb a b) eqn:E; [eapply bltb_trans; eauto|].
  assert (a = b) by (apply bltb_total; auto). subst; auto.
Qed.
Lemma bltb_bleb_trans : forall a b c, bltb a b = true -> bleb b c = true -> bltb a c = true.
Proof.
  intros a b c H1. rewrite bleb_bltb, negb_true_iff. intros H2.
  destruct (bltb b c) eqn:E; [eapply bltb_trans; eauto|].
  assert (b = c) by (apply bltb_total; auto). subst; auto.
Qed.

(* ------------------------------------------------------------------------------------------ *)
(* small list facts                                                                           *)
(* ------------------------------------------------------------------------------------------ *)
Lemma filter_map_in {A B} (f : A -> option B) (l : list A) (y : B) :
  In y (filter_map f l) <-> exists x, In x l /\ f x = Some y.
Proof.
  induction l as [|x t IH]; cbn.
  - split; [intros [] | intros [? [[] _]]].
  - destruct (f x) eqn:E; cbn; rewrite IH; split.
    + intros [<-|[z [Hz Hf]]]; [exists x; auto | exists z; auto].
    + intros [z [[<-|Hz] Hf]]; [left; congruence | right; exists z; auto].
    + intros [z [Hz Hf]]; exists z; auto.
    + intros [z [[<-|Hz] Hf]]; [congruence | exists z; auto].
Qed.

Lemma filter_map_app {A B} (f : A -> option B) (l1 l2 : list A) :
  filter_map f (l1 ++ l2) = filter_map f l1 ++ filter_map f l2.
Proof.
  induction l1 as [|x t IH]; cbn; auto. destruct (f x); cbn; rewrite IH; auto.
Qed.

Lemma filter_map_length {A B} (f : A -> option B) (l : list A) :
  (length (filter_map f l) + length (filter (fun x => negb (is_some (f x))) l) = length l)%nat.
Proof.
  induction l as [|x t IH]; cbn; auto. destruct (f x); cbn; lia.
Qed.

Lemma last_opt_app {A} (l : list A) (x : A) : last_opt (l ++ [x]) = Some x.
Proof.
  induction l as [|y t IH]; cbn; auto. rewrite IH. destruct (t ++ [x]) eqn:E; auto.
  destruct t; discriminate.
Qed.

Lemma last_opt_split {A} (l : list A) (x : A) : last_opt l = Some x -> exists l', l = l' ++ [x].
Proof.
  induction l as [|y t IH]; cbn; [discriminate|].
  destruct t as [|z u].
  - intros E; inversion E; subst. exists []; auto.
  - intros E. destruct (IH E) as [l' Hl]. exists (y :: l'). cbn. rewrite <- Hl. auto.
Qed.

Lemma last_opt_none {A} (l : list A) : last_opt l = None -> l = [].
Proof.
  induction l as [|y t IH]; cbn; auto. destruct t; [discriminate|]. intro E. specialize (IH E). discriminate.
Qed.

Lemma fold_left_concat {A B} (f : A -> B -> A) (ls : list (list B)) (a : A) :
  fold_left (fun acc d => fold_left f d acc) ls a = fold_left f (List.concat ls) a.
Proof.
  revert a; induction ls as [|d t IH]; cbn; intros; auto. rewrite fold_left_app. apply IH.
Qed.

Lemma NoDup_app_snoc {A} (l : list A) (x : A) : NoDup l -> ~ In x l -> NoDup (l ++ [x]).
Proof.
  intros Hn Hx. eapply Permutation_NoDup; [apply Permutation_cons_append|]. constructor; auto.
Qed.

Lemma NoDup_app_disjoint {A} (l1 l2 : list A) :
  NoDup l1 -> NoDup l2 -> (forall x, In x l1 -> In x l2 -> False) -> NoDup (l1 ++ l2).
Proof.
  induction l1 as [|x t IH]; cbn; intros H1 H2 Hd; auto.
  inversion H1; subst. constructor.
  - intro Hin. apply in_app_or in Hin. destruct Hin; [contradiction | eapply Hd; eauto].
  - apply IH; auto. intros y Hy1 Hy2. eapply Hd; eauto.
Qed.

Lemma NoDup_app_l {A} (l1 l2 : list A) : NoDup (l1 ++ l2) -> NoDup l1.
Proof.
  induction l1 as [|x t IH]; cbn; intro H; [constructor|]. inversion H; subst.
  constructor; auto. intro Hin. apply H2. apply in_or_app. auto.
Qed.

Lemma NoDup_map_filter {A B} (g : A -> B) (f : A -> bool) (l : list A) :
  NoDup (map g l) -> NoDup (map g (filter f l)).
Proof.
  induction l as [|x t IH]; cbn; auto. intro H. inversion H; subst.
  destruct (f x); cbn; auto. constructor; auto.
  intro Hin. apply H2. apply in_map_iff in Hin. destruct Hin as [y [Hy Hin]].
  apply filter_In in Hin. rewrite <- Hy. apply in_map. tauto.
Qed.
