(* C37: closed statements (hash assumptions as explicit premises), the toy hash, and the
   executable refutation witnesses. *)
From Coq Require Import NArith List Bool Arith Lia ZifyN ZifyNat ZifyBool Psatz.
From Verif.model Require Import MerkleArray MerkleArraySpec.
From Verif.proofs Require Import MerkleArrayBasics MerkleArrayStruct MerkleArraySound MerkleArrayTop MerkleArrayVC.
Import ListNotations.

(* ---------- completeness ---------- *)
Lemma complete_plain_final : forall E s hleaf hbottom hnode arr idxs elems,
  hash_sizes E s hleaf hbottom hnode -> in_range E arr idxs -> honest_claims E arr idxs elems ->
  exists pf, prove (build E s hleaf hnode arr) idxs = inl pf /\
             verify E s hleaf hnode (rootOf (build E s hleaf hnode arr)) elems pf = VOk.
Proof.
  intros E s hleaf hbottom hnode arr idxs elems (H1 & H2 & H3) (R1 & R2 & R3) (C1 & C2).
  apply (complete_plain E s hleaf hbottom hnode H1 H2 H3); assumption.
Qed.

Lemma complete_vc_final : forall E s hleaf hbottom hnode arr idxs elems,
  hash_sizes E s hleaf hbottom hnode -> in_range E arr idxs -> honest_claims E arr idxs elems ->
  exists pf, prove (buildVC E s hleaf hbottom hnode arr) idxs = inl pf /\
             verifyVC E s hleaf hnode (rootOf (buildVC E s hleaf hbottom hnode arr)) elems pf = VOk.
Proof.
  intros E s hleaf hbottom hnode arr idxs elems (H1 & H2 & H3) (R1 & R2 & R3) (C1 & C2).
  apply (complete_vc E s hleaf hbottom hnode H1 H2 H3); assumption.
Qed.

(* ---------- soundness ---------- *)
Lemma sound_plain_final : forall E s hleaf hbottom hnode arr elems pf,
  hash_sizes E s hleaf hbottom hnode -> hash_ideal E s hleaf hbottom hnode ->
  verify E s hleaf hnode (rootOf (build E s hleaf hnode arr)) elems pf = VOk ->
  forall p e, In (p, e) elems ->
    In e arr /\ ((N.to_nat p < length arr)%nat -> nth_error arr (N.to_nat p) = Some e).
Proof.
  intros E s hleaf hbottom hnode arr elems pf (H1 & H2 & H3) (I1 & I2 & I3 & I4 & I5 & I6 & I7 & I8).
  apply (sound_plain E s hleaf hbottom hnode H1 H2 H3 I1 I2 I3 I6 I8).
Qed.

Lemma sound_vc_final : forall E s hleaf hbottom hnode arr elems pf,
  hash_sizes E s hleaf hbottom hnode -> hash_ideal E s hleaf hbottom hnode ->
  verifyVC E s hleaf hnode (rootOf (buildVC E s hleaf hbottom hnode arr)) elems pf = VOk ->
  p_depth pf = depthOf (buildVC E s hleaf hbottom hnode arr) ->
  forall i e, In (i, e) elems -> nth_error arr (N.to_nat i) = Some e.
Proof.
  intros E s hleaf hbottom hnode arr elems pf (H1 & H2 & H3) (I1 & I2 & I3 & I4 & I5 & I6 & I7 & I8).
  apply (sound_vc E s hleaf hbottom hnode H1 H2 H3 I1 I2 I3 I4 I5 I6 I7 I8).
Qed.

(* whatever depth the proof claims: every accepted (index, element) lands, under the index
   map of the claimed depth, on a leaf of the padded array that holds exactly that element *)
Lemma sound_vc_leaf_final : forall E s hleaf hbottom hnode arr elems pf,
  hash_sizes E s hleaf hbottom hnode -> hash_ideal E s hleaf hbottom hnode ->
  verifyVC E s hleaf hnode (rootOf (buildVC E s hleaf hbottom hnode arr)) elems pf = VOk ->
  forall i e, In (i, e) elems ->
    exists p lsb, vcIndex i (p_depth pf) = Some p /\
                  vcIndex p (fst (vcShape (N.of_nat (length arr)))) = Some lsb /\
                  nth_error arr (N.to_nat lsb) = Some e.
Proof.
  intros E s hleaf hbottom hnode arr elems pf (H1 & H2 & H3) (I1 & I2 & I3 & I4 & I5 & I6 & I7 & I8) Hv i e Hin.
  destruct (sound_vc_leaf E s hleaf hbottom hnode H1 H2 H3 I1 I2 I3 I4 I5 I6 I7 I8 arr elems pf Hv i e Hin)
    as (p & Hp & _ & lsb & Hl & He).
  exists p, lsb. auto.
Qed.

Lemma root_binding_final : forall E s hleaf hbottom hnode r1 r2 elems pf,
  hash_sizes E s hleaf hbottom hnode -> elems <> [] ->
  verify E s hleaf hnode r1 elems pf = VOk -> verify E s hleaf hnode r2 elems pf = VOk -> r1 = r2.
Proof.
  intros E s hleaf hbottom hnode r1 r2 elems pf (H1 & H2 & H3).
  apply (root_binding E s hleaf hbottom hnode H1 H2 H3).
Qed.

(* ---------- TreeDepth is not bound ---------- *)
Lemma depth_not_bound_plain_final : forall E s hleaf hbottom hnode arr idxs elems,
  hash_sizes E s hleaf hbottom hnode ->
  idxs <> [] -> (forall i, In i idxs -> (N.to_nat i < length arr)%nat) ->
  (N.of_nat (length arr) <= 2 ^ 62)%N -> honest_claims E arr idxs elems ->
  exists pf, prove (build E s hleaf hnode arr) idxs = inl pf /\
             verify E s hleaf hnode (rootOf (build E s hleaf hnode arr)) elems
                    (mkProof (p_path pf) (p_depth pf + 1)) = VOk.
Proof.
  intros E s hleaf hbottom hnode arr idxs elems (H1 & H2 & H3) R1 R2 R3 (C1 & C2).
  apply (depth_not_bound_plain E s hleaf hbottom hnode H1 H2 H3); assumption.
Qed.

Lemma depth_not_bound_vc_final : forall E s hleaf hbottom hnode arr e0 d',
  hash_sizes E s hleaf hbottom hnode ->
  nth_error arr 0 = Some e0 -> (N.of_nat (length arr) <= 2 ^ 63)%N -> (d' < 64)%N ->
  exists pf, prove (buildVC E s hleaf hbottom hnode arr) [0%N] = inl pf /\
             verifyVC E s hleaf hnode (rootOf (buildVC E s hleaf hbottom hnode arr)) [(0%N, e0)]
                      (mkProof (p_path pf) d') = VOk.
Proof.
  intros E s hleaf hbottom hnode arr e0 d' (H1 & H2 & H3).
  apply (depth_not_bound_vc E s hleaf hbottom hnode H1 H2 H3).
Qed.

(* ---------- the toy hash is an ideal hash ---------- *)
Lemma toy_pair_inj : forall a b c d, toy_pair a b = toy_pair c d -> a = c /\ b = d.
Proof.
  unfold toy_pair. intros a b c d H.
  assert (Hs : (a + b = c + d)%N).
  { remember (a + b)%N as t. remember (c + d)%N as u.
    destruct (N.lt_trichotomy t u) as [Hlt|[Heq|Hgt]]; [|assumption|]; exfalso.
    - assert ((t + 1) * (t + 1) <= u * u)%N by (apply N.mul_le_mono; lia). lia.
    - assert ((u + 1) * (u + 1) <= t * t)%N by (apply N.mul_le_mono; lia). lia. }
  rewrite Hs in H. split; lia.
Qed.

Lemma toy_sizes : hash_sizes N 1 toy_hleaf toy_hbottom toy_hnode.
Proof.
  repeat split; intros; try reflexivity.
  unfold toy_hnode. destruct b as [|x [|y [|z r]]]; reflexivity.
Qed.

Lemma single_inj : forall a b : N, [a] = [b] -> a = b.
Proof. intros a b H. injection H. auto. Qed.

Lemma toy_ideal : hash_ideal N 1 toy_hleaf toy_hbottom toy_hnode.
Proof.
  unfold hash_ideal, toy_hleaf, toy_hbottom, toy_hnode. repeat split.
  - intros b1 b2 L1 L2 H.
    destruct b1 as [|x1 [|y1 [|z1 r1]]]; try (cbn in L1; lia).
    destruct b2 as [|x2 [|y2 [|z2 r2]]]; try (cbn in L2; lia).
    apply single_inj in H. assert (Hp : toy_pair x1 y1 = toy_pair x2 y2).
    { generalize dependent (toy_pair x1 y1). generalize dependent (toy_pair x2 y2). intros; lia. }
    apply toy_pair_inj in Hp. destruct Hp; subst; reflexivity.
  - intros e1 e2 H. apply single_inj in H. lia.
  - intros e b H. destruct b as [|x [|y [|z r]]]; apply single_inj in H;
      try generalize dependent (toy_pair x y); intros; lia.
  - intros b H. destruct b as [|x [|y [|z r]]]; apply single_inj in H;
      try generalize dependent (toy_pair x y); intros; lia.
  - intros e H. apply single_inj in H. lia.
  - intros e H. apply single_inj in H. lia.
  - intros H. apply single_inj in H. lia.
  - intros b H. destruct b as [|x [|y [|z r]]]; apply single_inj in H;
      try generalize dependent (toy_pair x y); intros; lia.
Qed.

(* ---------- executable refutation witnesses (array [10;20;30]) ---------- *)
Definition w_arr : list N := [10; 20; 30]%N.
Definition w_tree := toy_build w_arr.

(* the unfixed Verify accepts the element 999 at position 1: the first hint is
   leaf0 || leaf1 (2 digest sizes long) and overwrites the hash computed from 999 *)
Definition w_forged : proof :=
  let l0 := nth 0 (t_levels w_tree) [] in
  mkProof [nth 0 l0 [] ++ nth 1 l0 []; nth 1 (nth 1 (t_levels w_tree) []) []] 2.

Lemma oversize_hint_forgery_witness :
  ~ In 999%N w_arr /\
  toy_verify_unfixed (rootOf w_tree) [(1%N, 999%N)] w_forged = VOk /\
  toy_verify (rootOf w_tree) [(1%N, 999%N)] w_forged = VErrHintLen.
Proof.
  split; [|split; vm_compute; reflexivity].
  unfold w_arr. cbn. intros [H|[H|[H|[]]]]; discriminate.
Qed.

(* plain arrays: the honest proof for the last position 2 of a 3-element array also verifies
   for position 3 >= NumOfElements (same element); a different element is still rejected *)
Lemma plain_position_past_end_witness :
  exists pf, prove w_tree [2%N] = inl pf /\
             toy_verify (rootOf w_tree) [(2%N, 30%N)] pf = VOk /\
             toy_verify (rootOf w_tree) [(3%N, 30%N)] pf = VOk /\
             toy_verify (rootOf w_tree) [(3%N, 20%N)] pf = VErrRoot.
Proof. eexists. repeat split; vm_compute; reflexivity. Qed.

(* vector commitments: since TreeDepth also drives the index map, a proof for index 1 whose
   TreeDepth is raised from 2 to 3 verifies for index 2 (element 20 sits at index 1) *)
Lemma vc_depth_position_confusion_witness :
  let t := toy_buildVC w_arr in
  exists pf, prove t [1%N] = inl pf /\ p_depth pf = 2%N /\
             toy_verifyVC (rootOf t) [(1%N, 20%N)] pf = VOk /\
             nth_error w_arr 2 <> Some 20%N /\
             toy_verifyVC (rootOf t) [(2%N, 20%N)] (mkProof (p_path pf) 3) = VOk.
Proof.
  cbv zeta. eexists. split; [vm_compute; reflexivity|].
  repeat split; try (vm_compute; reflexivity). cbn. discriminate.
Qed.

(* a non-trivial honest instance: positions {0,2} of a 5-element array, plain and VC *)
Lemma toy_honest_instance :
  in_range N [1; 2; 3; 4; 5]%N [2; 0]%N /\
  honest_claims N [1; 2; 3; 4; 5]%N [2; 0]%N [(0, 1); (2, 3)]%N.
Proof.
  split.
  - split; [discriminate|]. split; [|cbn; lia].
    intros i [<-|[<-|[]]]; cbn; lia.
  - split.
    + cbn. constructor; [intros [H|[]]; discriminate|]. constructor; [intros []|constructor].
    + intros p e. cbn [In]. split.
      * intros [H|[H|[]]]; inversion H; subst; cbn; auto.
      * intros [[<-|[<-|[]]] He]; cbn in He; inversion He; auto.
Qed.

(* ---------- the oracle of [check] on claims ---------- *)
From Verif.lib Require Import Term.
From Verif.model Require Import MerkleArrayCheck.

Lemma bytes_eqb_eq : forall a b, bytes_eqb a b = true <-> a = b.
Proof.
  unfold bytes_eqb. induction a as [|x a IH]; intros [|y b]; cbn; split; intros H; try discriminate; try reflexivity.
  - apply andb_true_iff in H. destruct H as [H1 H2]. apply N.eqb_eq in H1. apply IH in H2. subst. reflexivity.
  - inversion H. subst. apply andb_true_iff. split; [apply N.eqb_refl | apply IH; reflexivity].
Qed.

(* [check] decides "element e is at position p of the array" exactly *)
Lemma elem_at_sound : forall arr p e,
  elem_at arr (p, e) = true <-> nth_error arr (N.to_nat p) = Some e.
Proof.
  intros arr p e. unfold elem_at, nthE. cbn [fst snd].
  destruct (nth_error arr (N.to_nat p)) as [e'|].
  - rewrite bytes_eqb_eq. split; [intros ->; reflexivity | intros H; inversion H; reflexivity].
  - split; discriminate.
Qed.
