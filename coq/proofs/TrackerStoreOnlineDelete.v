(* C47 lemmas, part 7: OnlineAccountsDelete.  The (repaired) key-value code walks the balance
   index newest round first with a seen-set; the abstract store drops, per address, every row older
   than forgetBefore except the newest one, and that one too when its voting data is empty. *)
From Coq Require Import NArith List Bool Lia Sorted.
From Verif.model Require Import TrackerStore.
From Verif.proofs Require Import TrackerStoreKeys TrackerStoreMap TrackerStoreRefine TrackerStoreRanges
  TrackerStoreWrites TrackerStoreQueries.
Import ListNotations.
Open Scope N_scope.

Definition eaddr (e : bytes * value) : bytes := extractOnlineAccountBalanceAddress (fst e).
Definition eround (e : bytes * value) : N := extractOnlineAccountBalanceRound (fst e).
Definition evl (e : bytes * value) : N := nth 0 (snd e) 0.
Definition dtriple (e : bytes * value) : bytes * N * bytes := (eaddr e, eround e, fst e).

(* what the loop marks for deletion *)
Lemma od_loop_spec L : forall seen del x,
  In x (kv_od_loop L seen del) <->
  In x del \/ exists L1 e L2, L = L1 ++ e :: L2 /\ x = dtriple e /\
     (existsb (beqb (eaddr e)) seen = true \/ (exists e', In e' L1 /\ eaddr e' = eaddr e) \/ evl e = 0).
Proof.
  induction L as [|[k v] t IH]; intros seen del x; cbn [kv_od_loop].
  - split; [auto|]. intros [H|(L1 & e & L2 & E & _)]; [exact H|]. destruct L1; discriminate.
  - set (a := extractOnlineAccountBalanceAddress k). set (r := extractOnlineAccountBalanceRound k).
    destruct (existsb (beqb a) seen) eqn:Hs; cbn [negb].
    + (* already seen: deleted *)
      rewrite IH. split.
      * intros [H|(L1 & e & L2 & E & Ex & C)].
        -- apply in_app_or in H as [H|[<-|[]]]; [left; exact H|]. right. exists [], (k, v), t.
           split; [reflexivity|]. split; [reflexivity|]. left. exact Hs.
        -- right. exists ((k, v) :: L1), e, L2. split; [rewrite E; reflexivity|]. split; [exact Ex|].
           destruct C as [C|[(e' & I & Ea)|C]]; [left; exact C| |right; right; exact C].
           right. left. exists e'. split; [right; exact I|exact Ea].
      * intros [H|(L1 & e & L2 & E & Ex & C)].
        -- left. apply in_or_app. left. exact H.
        -- destruct L1 as [|e1 L1]; cbn [app] in E; injection E as E1 E2.
           ++ subst e. left. apply in_or_app. right. left. symmetry. exact Ex.
           ++ subst e1 t. right. exists L1, e, L2. split; [reflexivity|]. split; [exact Ex|].
              destruct C as [C|[(e' & [<-|I] & Ea)|C]]; [left; exact C| |right; left; eauto|right; right; exact C].
              left. rewrite <- Ea. exact Hs.
    + (* first row of the address *)
      rewrite IH. split.
      * intros [H|(L1 & e & L2 & E & Ex & C)].
        -- destruct (nth 0 v 0 =? 0) eqn:Hv.
           ++ apply in_app_or in H as [H|[<-|[]]]; [left; exact H|]. right. exists [], (k, v), t.
              split; [reflexivity|]. split; [reflexivity|]. right. right. apply N.eqb_eq. exact Hv.
           ++ left. exact H.
        -- right. exists ((k, v) :: L1), e, L2. split; [rewrite E; reflexivity|]. split; [exact Ex|].
           destruct C as [C|[(e' & I & Ea)|C]]; [|right; left; exists e'; split; [right; exact I|exact Ea]|right; right; exact C].
           cbn [existsb] in C. apply orb_true_iff in C as [C|C]; [|left; exact C].
           right. left. exists (k, v). split; [left; reflexivity|]. apply beqb_eq in C. symmetry. exact C.
      * intros [H|(L1 & e & L2 & E & Ex & C)].
        -- left. destruct (nth 0 v 0 =? 0); [apply in_or_app; left|]; exact H.
        -- destruct L1 as [|e1 L1]; cbn [app] in E; injection E as E1 E2.
           ++ subst e. destruct C as [C|[(e' & [] & _)|C]].
              ** change (eaddr (k, v)) with a in C. congruence.
              ** left. unfold evl in C. cbn [snd] in C. rewrite C. cbn. apply in_or_app. right. left. symmetry. exact Ex.
           ++ subst e1 t. right. exists L1, e, L2. split; [reflexivity|]. split; [exact Ex|].
              destruct C as [C|[(e' & [<-|I] & Ea)|C]]; [| |right; left; eauto|right; right; exact C].
              ** left. cbn [existsb]. rewrite C. apply orb_true_r.
              ** left. cbn [existsb]. rewrite <- Ea. change (eaddr (k, v)) with a.
                 unfold beqb. rewrite bcmp_refl. reflexivity.
Qed.

(* deleting a list of keys *)
Lemma fold_del_spec {D} (f : D -> bytes) del : forall st, ksorted st ->
  ksorted (fold_left (fun st d => kv_del st (f d)) del st) /\
  forall e, In e (fold_left (fun st d => kv_del st (f d)) del st) <-> In e st /\ forall d, In d del -> fst e <> f d.
Proof.
  induction del as [|d del IH]; intros st S; cbn [fold_left].
  - split; [exact S|]. intros e. split; [intros H; split; [exact H|intros d []]|intros [H _]; exact H].
  - destruct (IH (kv_del st (f d)) (kv_del_sorted st (f d) S)) as [S' M]. split; [exact S'|].
    intros [k v]. rewrite M, (kv_del_In st (f d) S). cbn [fst]. split.
    + intros [[N I] H]. split; [exact I|]. intros d' [<-|J]; [exact N|exact (H d' J)].
    + intros [I H]. split; [split; [apply H; left; reflexivity|exact I]|]. intros d' J. apply H. right. exact J.
Qed.

Lemma nth0_tl (v : value) : nth 0 (tl v) 0 = nth 1 v 0.
Proof. destruct v; reflexivity. Qed.

Section OnlineDelete.
Variables (s : spec) (kv : kvs) (fb : N).
Hypothesis HR : R s kv.
Hypothesis Vfb : u64 fb = true.

Let lo := fst (onlineAccountBalanceBeforeRoundRangePrefix fb).
Let hi := snd (onlineAccountBalanceBeforeRoundRangePrefix fb).
Let L := rev (kv_range kv lo (Some hi)).
Let D := kv_od_loop L [] [].

Definition bal_entry (a : bytes) (r : N) (v0 : value) : bytes * value := (enc (KBal r (nth 0 v0 0) a), tl v0).

Lemma row_valid a r v0 : In (KOnl a r, v0) s -> valid_key (KOnl a r) = true /\ valid_key (KBal r (nth 0 v0 0) a) = true.
Proof.
  intros J. destruct HR as ((_ & W) & _). rewrite Forall_forall in W. destruct (W _ J) as [V X]. cbn [fst snd] in *.
  split; [exact V|]. cbn [valid_key] in *. apply andb_true_iff in V as [Va Vr]. rewrite Va, Vr, X. reflexivity.
Qed.
Lemma row_unique k v1 v2 : In (k, v1) s -> In (k, v2) s -> v1 = v2.
Proof.
  intros J1 J2. destruct HR as ((ND & _) & _). apply (alookup_In s k v1 ND) in J1. apply (alookup_In s k v2 ND) in J2. congruence.
Qed.

(* the rows the loop walks *)
Lemma L_In e : In e L <-> exists a r v0, e = bal_entry a r v0 /\ In (KOnl a r, v0) s /\ r < fb.
Proof.
  assert (forall k, valid_key k = true -> in_range lo (Some hi) (enc k) = is_bal k && (bal_round k <? fb)) as Hrg
    by (intros k Vk; apply range_bal_before; assumption).
  unfold L. rewrite <- in_rev, kv_range_In. destruct HR as ((ND & W) & S & M). destruct e as [kb d]. cbn [fst]. split.
  - intros [J Rg]. apply M in J as (k & J & ->).
    pose proof (sview_valid s k d W J) as Vk. rewrite Hrg in Rg by assumption.
    destruct k; try discriminate. cbn [is_bal bal_round andb] in Rg. apply N.ltb_lt in Rg.
    apply sview_In_bal in J as (v0 & J & -> & ->); [|exact W]. exists a, r, v0. auto.
  - intros (a & r & v0 & E & J & Lt). unfold bal_entry in E. injection E as -> ->. split.
    + apply M. exists (KBal r (nth 0 v0 0) a). split; [|reflexivity]. apply sview_In_bal; [exact W|]. exists v0. auto.
    + change (onlineAccountBalanceKey r (nth 0 v0 0) a) with (enc (KBal r (nth 0 v0 0) a)).
      rewrite Hrg by exact (proj2 (row_valid a r v0 J)).
      cbn [is_bal bal_round andb]. apply N.ltb_lt. exact Lt.
Qed.

Lemma L_sorted : ksorted (rev L).
Proof. unfold L. rewrite rev_involutive. apply kv_range_sorted. exact (proj1 (proj2 HR)). Qed.

(* earlier in the walk = larger key *)
Lemma L_before L1 e L2 e' : L = L1 ++ e :: L2 -> (In e' L1 <-> In e' L /\ klt e e').
Proof.
  intros E. pose proof L_sorted as S. rewrite E in S. rewrite rev_app_distr in S. cbn [rev] in S. rewrite <- app_assoc in S.
  apply ksorted_app_inv in S as (S2 & S1 & C). cbn [app] in S1. apply ksorted_inv in S1 as [S1 F]. rewrite Forall_forall in F.
  split.
  - intros J. split; [rewrite E; apply in_or_app; left; exact J|]. apply F. apply -> in_rev. exact J.
  - intros [J Lt]. rewrite E in J. apply in_app_or in J as [J|[<-|J]]; [exact J| |].
    + elim (klt_irrefl _ Lt).
    + exfalso. apply (klt_asym _ _ Lt). apply C; [apply -> in_rev; exact J|left; reflexivity].
Qed.

Lemma bal_entry_fields a r v0 : In (KOnl a r, v0) s ->
  eaddr (bal_entry a r v0) = a /\ eround (bal_entry a r v0) = r /\ evl (bal_entry a r v0) = onl_votelast v0.
Proof.
  intros J. destruct (row_valid a r v0 J) as [_ VB]. unfold eaddr, eround, evl, bal_entry. cbn [fst snd].
  rewrite extract_bal_addr, extract_bal_round by exact VB. rewrite nth0_tl. auto.
Qed.

Lemma klt_bal a r v0 r' v0' : In (KOnl a r, v0) s -> In (KOnl a r', v0') s ->
  (klt (bal_entry a r v0) (bal_entry a r' v0') <-> r < r').
Proof.
  intros J J'. destruct (row_valid a r v0 J) as [_ VB]. destruct (row_valid a r' v0' J') as [_ VB'].
  unfold klt, bal_entry. cbn [fst]. rewrite enc_order by assumption. cbn [skey_cmp].
  destruct (N.compare_spec r r') as [E|E|E]; cbn [lexc].
  - subst r'. rewrite (row_unique _ _ _ J J'). rewrite N.compare_refl, bcmp_refl. cbn. split; [discriminate|lia].
  - split; auto.
  - split; [discriminate|lia].
Qed.

(* the marked set, in terms of the abstract rows *)
Lemma D_spec a r v0 : In (KOnl a r, v0) s ->
  (In (a, r, enc (KBal r (nth 0 v0 0) a)) D <-> od_doomed s fb (KOnl a r, v0) = true).
Proof.
  intros J. unfold D. rewrite od_loop_spec. destruct (bal_entry_fields a r v0 J) as (Fa & Fr & Fv).
  cbn [od_doomed fst snd]. split.
  - intros [[]|(L1 & e & L2 & E & Ex & C)].
    assert (In e L) as Je by (rewrite E; apply in_or_app; right; left; reflexivity).
    apply L_In in Je as (a1 & r1 & v1 & -> & J1 & Lt1).
    destruct (bal_entry_fields a1 r1 v1 J1) as (Fa1 & Fr1 & Fv1).
    unfold dtriple in Ex. rewrite Fa1, Fr1 in Ex. injection Ex as -> -> _.
    rewrite (row_unique _ _ _ J J1) in *. apply andb_true_iff. split; [apply N.ltb_lt; exact Lt1|].
    destruct C as [C|[(e' & Je' & Ea)|C]]; [discriminate| |].
    + apply orb_true_iff. left. apply (L_before L1 _ L2 e' E) in Je' as [Je' Lt'].
      apply L_In in Je' as (a2 & r2 & v2 & -> & J2 & Lt2).
      destruct (bal_entry_fields a2 r2 v2 J2) as (Fa2 & _). rewrite Fa2, Fa1 in Ea. subst a2.
      apply (klt_bal a1 r1 v1 r2 v2 J1 J2) in Lt'.
      apply existsb_exists. exists (KOnl a1 r2, v2). split; [exact J2|]. cbn [fst].
      unfold beqb. rewrite bcmp_refl. cbn [andb]. apply andb_true_iff. split; apply N.ltb_lt; assumption.
    + apply orb_true_iff. right. rewrite Fv1 in C. apply N.eqb_eq. exact C.
  - intros H. apply andb_true_iff in H as [Lt H]. apply N.ltb_lt in Lt. right.
    assert (In (bal_entry a r v0) L) as Je by (apply L_In; exists a, r, v0; auto).
    destruct (in_split _ _ Je) as (L1 & L2 & E). exists L1, (bal_entry a r v0), L2.
    split; [exact E|]. split; [unfold dtriple; rewrite Fa, Fr; reflexivity|]. right.
    apply orb_true_iff in H as [H|H].
    + left. apply existsb_exists in H as ([k' v'] & J' & H). cbn [fst] in H. destruct k'; try discriminate.
      apply andb_true_iff in H as [H Lt2]. apply andb_true_iff in H as [Ea Lt1]. apply beqb_eq in Ea. subst a0.
      apply N.ltb_lt in Lt1, Lt2. exists (bal_entry a r0 v'). split.
      * apply (L_before L1 _ L2 _ E). split; [apply L_In; exists a, r0, v'; auto|]. apply (klt_bal a r v0 r0 v' J J'). exact Lt1.
      * destruct (bal_entry_fields a r0 v' J') as (Fa' & _). rewrite Fa', Fa. reflexivity.
    + right. rewrite Fv. apply N.eqb_eq. exact H.
Qed.

Lemma D_shape x : In x D -> exists a r v0, In (KOnl a r, v0) s /\ x = (a, r, enc (KBal r (nth 0 v0 0) a)).
Proof.
  unfold D. rewrite od_loop_spec. intros [[]|(L1 & e & L2 & E & Ex & _)].
  assert (In e L) as Je by (rewrite E; apply in_or_app; right; left; reflexivity).
  apply L_In in Je as (a1 & r1 & v1 & -> & J1 & _). destruct (bal_entry_fields a1 r1 v1 J1) as (Fa1 & Fr1 & _).
  exists a1, r1, v1. split; [exact J1|]. rewrite Ex. unfold dtriple. rewrite Fa1, Fr1. reflexivity.
Qed.

Lemma od_doomed_plain e : plain (fst e) -> od_doomed s fb e = false.
Proof. destruct e as [k v]. cbn [fst]. destruct k; cbn; intros P; try reflexivity; elim P. Qed.

Lemma view_entry_key e0 k v : In (k, v) (view_entry e0) ->
  match fst e0 with
  | KOnl a r => (k = KOnl a r \/ k = KBal r (nth 0 (snd e0) 0) a) /\ v = tl (snd e0)
  | k0 => k = k0 /\ v = snd e0
  end.
Proof.
  destruct e0 as [k0 v0]. unfold view_entry. cbn [fst snd].
  destruct k0; cbn [In]; intros H; repeat (destruct H as [H|H]); try contradiction; injection H as <- <-; auto.
Qed.

Lemma no_bal r b a v0 : ~ In (KBal r b a, v0) s.
Proof. intros J. destruct HR as ((_ & W) & _). rewrite Forall_forall in W. exact (proj2 (W _ J)). Qed.

Theorem R_online_delete : R (spec_online_accounts_delete s fb) (kv_online_accounts_delete kv fb).
Proof.
  pose proof HR as (W & S & M).
  unfold kv_online_accounts_delete, kv_online_accounts_delete_with, spec_online_accounts_delete.
  change (onlineAccountBalanceBeforeRoundRangePrefix fb) with (lo, hi). cbv beta iota.
  change (kv_iter kv lo (Some hi) true) with L. fold D.
  destruct (fold_del_spec (fun d : bytes * N * bytes => onlineAccountKey (fst (fst d)) (snd (fst d))) D kv S) as [S1 M1].
  destruct (fold_del_spec (fun d : bytes * N * bytes => snd d) D _ S1) as [S2 M2].
  split; [apply wf_filter, W|]. split; [exact S2|].
  intros kb v. rewrite M2, M1. cbn [fst]. split.
  - intros [[J N1] N2]. apply M in J as (k & J & ->). exists k. split; [|reflexivity].
    unfold sview in J |- *. apply in_flat_map in J as (e0 & J0 & Jv). apply in_flat_map. exists e0. split; [|exact Jv].
    apply filter_In. split; [exact J0|]. apply negb_true_iff.
    destruct (od_doomed s fb e0) eqn:Dm; [|reflexivity]. exfalso.
    destruct e0 as [k0 v0]. apply view_entry_key in Jv. cbn [fst snd] in Jv.
    destruct k0; try (rewrite od_doomed_plain in Dm by exact I; discriminate).
    + apply (D_spec a r v0 J0) in Dm. destruct Jv as [[-> | ->] _].
      * exact (N1 _ Dm eq_refl).
      * exact (N2 _ Dm eq_refl).
    + cbn in Dm. discriminate.
  - intros (k & J & ->). unfold sview in J. apply in_flat_map in J as (e0 & J0 & Jv). apply filter_In in J0 as [J0 Dm].
    apply negb_true_iff in Dm.
    assert (In (k, v) (sview s)) as Jk by (unfold sview; apply in_flat_map; exists e0; auto).
    pose proof (sview_valid s k v (proj2 W) Jk) as Vk.
    destruct e0 as [k0 v0]. apply view_entry_key in Jv. cbn [fst snd] in Jv.
    split; [split; [apply M; exists k; auto|]|].
    + intros d Jd E. destruct (D_shape _ Jd) as (a1 & r1 & v1 & J1 & ->). cbn [fst snd] in E.
      change (onlineAccountKey a1 r1) with (enc (KOnl a1 r1)) in E.
      apply enc_inj in E; [|exact Vk|exact (proj1 (row_valid a1 r1 v1 J1))]. subst k.
      destruct k0; try (destruct Jv as [Jv _]; discriminate).
      destruct Jv as [[[= <- <-]|Jv] _]; [|discriminate].
      rewrite (row_unique _ _ _ J0 J1) in Dm. apply (D_spec a1 r1 v1 J1) in Jd. congruence.
    + intros d Jd E. destruct (D_shape _ Jd) as (a1 & r1 & v1 & J1 & ->). cbn [fst snd] in E.
      apply enc_inj in E; [|exact Vk|exact (proj2 (row_valid a1 r1 v1 J1))]. subst k.
      destruct k0; try (destruct Jv as [Jv _]; discriminate); [|elim (no_bal _ _ _ _ J0)].
      destruct Jv as [[Jv|[= <- Eb <-]] _]; [discriminate|].
      rewrite (row_unique _ _ _ J0 J1) in Dm. apply (D_spec a1 r1 v1 J1) in Jd. congruence.
Qed.
End OnlineDelete.
