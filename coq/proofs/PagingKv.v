(* C10 proofs, part 2: LookupKvPairsByPrefix returns a prefix of the listing, with an exact
   "more" flag; iterating next-tokens enumerates the listing exactly once. *)
From Coq Require Import NArith Arith List Bool Lia ZifyN ZifyNat ZifyBool Sorted Permutation.
From Verif.model Require Import Paging PagingSpec.
From Verif.proofs Require Import PagingBase.
Import ListNotations.
Open Scope N_scope.

Notation bsorted := (ssorted (V:=bytes) bltb).
Notation bklt := (klt (V:=bytes) bltb).

Definition is_prefix {A} (p l : list A) : Prop := exists r, l = p ++ r.

(* ------------------------------------------------------------------------------------------ *)
(* association lists keyed by byte strings                                                    *)
(* ------------------------------------------------------------------------------------------ *)
Lemma kfind_some_in {A} (k : bytes) (l : list (bytes * A)) v : kfind k l = Some v -> In (k, v) l.
Proof.
  induction l as [|[k' v'] t IH]; cbn; [discriminate|].
  destruct (beqb k k') eqn:E.
  - apply beqb_eq in E; subst. intro H; inversion H; subst; auto.
  - auto.
Qed.

Lemma kfind_none_iff {A} (k : bytes) (l : list (bytes * A)) : kfind k l = None <-> ~ In k (map fst l).
Proof.
  induction l as [|[k' v'] t IH]; cbn; [tauto|].
  destruct (beqb k k') eqn:E.
  - apply beqb_eq in E; subst. split; [discriminate | intro H; exfalso; apply H; auto].
  - apply beqb_neq in E. rewrite IH. split; [intros H [C|C]; [congruence | auto] | tauto].
Qed.

Lemma kfind_in_nodup {A} (k : bytes) (v : A) (l : list (bytes * A)) :
  NoDup (map fst l) -> In (k, v) l -> kfind k l = Some v.
Proof.
  induction l as [|[k' v'] t IH]; cbn; [tauto|]. intros Hnd [E|Hin].
  - inversion E; subst. rewrite beqb_refl. auto.
  - inversion Hnd; subst. destruct (beqb k k') eqn:E.
    + apply beqb_eq in E; subst. exfalso. apply H1. apply (in_map fst) in Hin. auto.
    + apply IH; auto.
Qed.

Lemma kfind_app {A} (k : bytes) (l1 l2 : list (bytes * A)) :
  kfind k (l1 ++ l2) = match kfind k l1 with Some v => Some v | None => kfind k l2 end.
Proof.
  induction l1 as [|[k' v'] t IH]; cbn; auto. destruct (beqb k k'); auto.
Qed.

Lemma kmem_false_iff {A} (k : bytes) (l : list (bytes * A)) : kmem k l = false <-> ~ In k (map fst l).
Proof. unfold kmem. rewrite <- kfind_none_iff. destruct (kfind k l); split; congruence. Qed.

Lemma kmem_true_iff {A} (k : bytes) (l : list (bytes * A)) : kmem k l = true <-> In k (map fst l).
Proof.
  unfold kmem. destruct (kfind k l) eqn:E.
  - split; auto. intros _. apply kfind_some_in in E. apply (in_map fst) in E. exact E.
  - split; [discriminate|]. intro H. apply kfind_none_iff in E. contradiction.
Qed.

(* ------------------------------------------------------------------------------------------ *)
(* keyPrefixIntervalPreprocessing: the key range [prefix, prefix_end) is "has the prefix"     *)
(* ------------------------------------------------------------------------------------------ *)
Fixpoint pend (p : bytes) : option bytes :=
  match p with
  | [] => None
  | b :: t => match pend t with
              | Some e => Some (b :: e)
              | None => if 255 <? b + 1 then None else Some [b + 1]
              end
  end.

Lemma incr_rev_snoc : forall l b,
  incr_rev (l ++ [b]) = match incr_rev l with
                        | Some e => Some (e ++ [b])
                        | None => if 255 <? b + 1 then None else Some [b + 1]
                        end.
Proof.
  induction l as [|x t IH]; intros b; cbn.
  - destruct (255 <? b + 1); auto.
  - destruct (255 <? x + 1); auto.
Qed.

Lemma incr_rev_pend : forall p, incr_rev (rev p) = option_map (@rev N) (pend p).
Proof.
  induction p as [|b t IH]; cbn; auto.
  rewrite incr_rev_snoc, IH. destruct (pend t); cbn; auto.
  destruct (255 <? b + 1); auto.
Qed.

Lemma prefix_end_pend : forall p, prefix_end p = pend p.
Proof.
  intro p. unfold prefix_end. rewrite incr_rev_pend. destruct (pend p); cbn; auto.
  rewrite rev_involutive. auto.
Qed.

Definition bytes_ok (k : bytes) : Prop := Forall (fun b => b < 256) k.

Lemma bleb_cons : forall x a y b, bleb (x :: a) (y :: b) = (x <? y) || ((x =? y) && bleb a b).
Proof.
  intros. unfold bleb; cbn. destruct (x ?= y) eqn:E.
  - apply N.compare_eq in E; subst. rewrite N.ltb_irrefl, N.eqb_refl. cbn. auto.
  - rewrite N.compare_lt_iff in E. assert (x <? y = true) as -> by lia. auto.
  - rewrite N.compare_gt_iff in E. assert (x <? y = false) as -> by lia. assert (x =? y = false) as -> by lia. auto.
Qed.

Lemma bltb_cons : forall x a y b, bltb (x :: a) (y :: b) = (x <? y) || ((x =? y) && bltb a b).
Proof.
  intros. unfold bltb; cbn. destruct (x ?= y) eqn:E.
  - apply N.compare_eq in E; subst. rewrite N.ltb_irrefl, N.eqb_refl. cbn. auto.
  - rewrite N.compare_lt_iff in E. assert (x <? y = true) as -> by lia. auto.
  - rewrite N.compare_gt_iff in E. assert (x <? y = false) as -> by lia. assert (x =? y = false) as -> by lia. auto.
Qed.

(* a prefix made of 0xff bytes only (no end): above it = having it as prefix *)
Lemma allff_range : forall p k, pend p = None -> bytes_ok k -> bleb p k = has_prefix p k.
Proof.
  induction p as [|b t IH]; intros k Hp Hk.
  - destruct k; auto.
  - cbn in Hp. destruct (pend t) eqn:Et; [discriminate|].
    destruct (255 <? b + 1) eqn:Eb; [|discriminate].
    destruct k as [|y k']; [auto|].
    inversion Hk; subst. rewrite bleb_cons. cbn [has_prefix].
    rewrite (IH k'); auto.
    assert (b <? y = false) as -> by lia. auto.
Qed.

Lemma prefix_range : forall p e k, pend p = Some e -> bytes_ok k ->
  bleb p k && bltb k e = has_prefix p k.
Proof.
  induction p as [|b t IH]; intros e k Hp Hk; [discriminate|].
  cbn in Hp. destruct k as [|y k'].
  - cbn. auto.
  - inversion Hk; subst. cbn [has_prefix]. destruct (pend t) eqn:Et.
    + inversion Hp; subst. rewrite bleb_cons, bltb_cons. rewrite <- (IH _ k' eq_refl); auto.
      destruct (b =? y) eqn:E1.
      * apply N.eqb_eq in E1; subst. rewrite N.ltb_irrefl, N.eqb_refl. cbn. auto.
      * assert (y =? b = false) as -> by lia. rewrite !andb_false_l, !orb_false_r.
        destruct (b <? y) eqn:E2; auto. assert (y <? b = false) as -> by lia. auto.
    + destruct (255 <? b + 1) eqn:Eb; [discriminate|]. inversion Hp; subst.
      rewrite bleb_cons, bltb_cons. rewrite (allff_range t k'); auto.
      assert (bltb k' [] = false) as -> by (destruct k'; auto).
      rewrite andb_false_r, orb_false_r.
      destruct (b =? y) eqn:E1.
      * apply N.eqb_eq in E1; subst. rewrite N.ltb_irrefl. cbn.
        assert (y <? y + 1 = true) as -> by lia. apply andb_true_r.
      * cbn. rewrite orb_false_r. destruct (b <? y) eqn:E2; auto.
        assert (y <? b + 1 = false) as -> by lia. auto.
Qed.

Lemma has_prefix_bleb : forall p k, has_prefix p k = true -> bleb p k = true.
Proof.
  induction p as [|b t IH]; intros k H; [destruct k; auto|].
  destruct k as [|y k']; [discriminate|]. cbn in H. apply andb_true_iff in H. destruct H as [E H].
  apply N.eqb_eq in E; subst. rewrite bleb_cons, N.eqb_refl, (IH _ H). apply orb_true_r.
Qed.

(* ------------------------------------------------------------------------------------------ *)
(* sorted duplicate-free key lists                                                            *)
(* ------------------------------------------------------------------------------------------ *)
Definition bkeys_sorted (l : list bytes) : Prop := StronglySorted (fun a b => bltb a b = true) l.

Lemma ins_ub_in : forall x l k, In k (ins_ub x l) <-> k = x \/ In k l.
Proof.
  intros x l k; induction l as [|y t IH]; cbn; [intuition|].
  destruct (bcmp x y) eqn:E; cbn.
  - apply bcmp_eq in E; subst. intuition.
  - intuition.
  - rewrite IH. intuition.
Qed.

Lemma ins_ub_sorted : forall x l, bkeys_sorted l -> bkeys_sorted (ins_ub x l).
Proof.
  intros x l; induction l as [|y t IH]; cbn; intros Hs.
  - constructor; constructor.
  - inversion Hs; subst. destruct (bcmp x y) eqn:E; auto.
    + constructor; auto. constructor.
      * unfold bltb; rewrite E; auto.
      * apply Forall_forall. intros z Hz. rewrite Forall_forall in H2.
        eapply bltb_trans; [unfold bltb; rewrite E; reflexivity | auto].
    + constructor; [apply IH; exact H1|]. apply Forall_forall. intros z Hz. rewrite Forall_forall in H2. apply ins_ub_in in Hz.
      destruct Hz as [->|Hz]; auto.
      unfold bltb. rewrite (bcmp_antisym x y), E. auto.
Qed.

Lemma usort_b_in : forall l k, In k (usort_b l) <-> In k l.
Proof.
  induction l as [|x t IH]; intro k; cbn; [tauto|]. rewrite ins_ub_in, IH. intuition.
Qed.

Lemma usort_b_sorted : forall l, bkeys_sorted (usort_b l).
Proof. induction l as [|x t IH]; cbn; [constructor | apply ins_ub_sorted; auto]. Qed.

Lemma filter_map_keys_sorted {V} (f : bytes -> option (bytes * V)) (ks : list bytes) :
  bkeys_sorted ks -> (forall k x, f k = Some x -> fst x = k) -> ssorted bltb (filter_map f ks).
Proof.
  intros Hs Hf. induction ks as [|k t IH]; cbn; [constructor|].
  inversion Hs; subst. destruct (f k) eqn:E; [|apply IH; exact H1].
  constructor; [apply IH; exact H1|]. apply Forall_forall. intros y Hy. rewrite Forall_forall in H2.
  apply filter_map_in in Hy. destruct Hy as [k' [Hk' Hfk']].
  unfold klt. rewrite (Hf _ _ E), (Hf _ _ Hfk'). auto.
Qed.

(* ------------------------------------------------------------------------------------------ *)
(* the delta walk                                                                             *)
(* ------------------------------------------------------------------------------------------ *)
Section Walk.
  Variables prefix cursor : bytes.

  Definition kqual (k : bytes) : bool := has_prefix prefix k && bltb cursor k.

  Lemma kv_walk_step_qual : forall acc e,
    kv_walk_step prefix cursor acc e =
    if kqual (fst e) && negb (kmem (fst e) acc) then acc ++ [e] else acc.
  Proof.
    intros acc e. unfold kv_walk_step, kqual. rewrite bleb_bltb.
    destruct (has_prefix prefix (fst e)); cbn; auto.
    destruct (bltb cursor (fst e)); cbn; auto.
    destruct (kmem (fst e) acc); auto.
  Qed.

  Lemma walk_find : forall l acc k,
    kfind k (fold_left (kv_walk_step prefix cursor) l acc) =
    match kfind k acc with
    | Some v => Some v
    | None => if kqual k then kfind k l else None
    end.
  Proof.
    induction l as [|e t IH]; intros acc k; cbn [fold_left].
    - destruct (kfind k acc); auto. destruct (kqual k); auto.
    - rewrite IH, kv_walk_step_qual. destruct e as [ke ve]. cbn [fst kfind].
      destruct (kqual ke && negb (kmem ke acc)) eqn:E.
      + unfold kvmod in *. rewrite kfind_app. destruct (kfind k acc) eqn:Ea; auto. cbn [kfind].
        destruct (beqb k ke) eqn:Ek.
        * apply beqb_eq in Ek; subst. apply andb_true_iff in E. destruct E as [-> _]. auto.
        * auto.
      + destruct (kfind k acc) eqn:Ea; auto. destruct (kqual k) eqn:Eq; auto.
        destruct (beqb k ke) eqn:Ek; auto. apply beqb_eq in Ek; subst.
        rewrite Eq in E. cbn in E. apply negb_false_iff in E. unfold kmem in E. rewrite Ea in E. discriminate.
  Qed.

  Lemma walk_keys : forall l acc,
    (forall k, In k (map fst acc) -> kqual k = true) -> NoDup (map fst acc) ->
    (forall k, In k (map fst (fold_left (kv_walk_step prefix cursor) l acc)) -> kqual k = true) /\
    NoDup (map fst (fold_left (kv_walk_step prefix cursor) l acc)).
  Proof.
    induction l as [|e t IH]; intros acc Hq Hn; cbn [fold_left]; auto.
    apply IH; rewrite kv_walk_step_qual; destruct (kqual (fst e) && negb (kmem (fst e) acc)) eqn:E; auto.
    - intros k Hk. rewrite map_app in Hk. apply in_app_or in Hk. destruct Hk as [Hk|[<-|[]]]; auto.
      apply andb_true_iff in E. tauto.
    - rewrite map_app. cbn. apply andb_true_iff in E. destruct E as [_ E]. apply negb_true_iff in E.
      apply kmem_false_iff in E.
      apply NoDup_app_snoc; auto.
  Qed.
End Walk.

(* ------------------------------------------------------------------------------------------ *)
(* the database scan, read as a scan over the qualifying rows                                 *)
(* ------------------------------------------------------------------------------------------ *)
Fixpoint scan_q (q : list kvrow) (limit maxBytes : N) (acc : list kvrow) (b c : N) : list kvrow * bool :=
  match q with
  | [] => (acc, false)
  | kv :: r =>
      let ib := kv_size kv in
      if (0 <? maxBytes) && (maxBytes <? b + ib) && (0 <? c) then (acc, true)
      else let acc' := acc ++ [kv] in
           if (0 <? limit) && (limit <=? c + 1) then (acc', negb (is_nil r))
           else scan_q r limit maxBytes acc' (b + ib) (c + 1)
  end.

Definition qproj (cursor : bytes) (excl : list kvmod) (incl : bool) (rows : list kvrow) : list kvrow :=
  map (fun r => (fst r, kv_proj incl (snd r))) (filter (fun r => kv_qualifies cursor excl (fst r)) rows).

Lemma kv_peek_spec : forall rows cursor excl incl,
  kv_peek rows cursor excl = negb (is_nil (qproj cursor excl incl rows)).
Proof.
  induction rows as [|[k v] r IH]; intros; cbn; auto.
  unfold qproj in *. cbn. destruct (kv_qualifies cursor excl k); cbn; auto.
Qed.

Lemma kv_scan_q : forall rows cursor limit maxBytes incl excl acc b c,
  kv_scan rows cursor limit maxBytes incl excl acc b c =
  scan_q (qproj cursor excl incl rows) limit maxBytes acc b c.
Proof.
  induction rows as [|[k v] r IH]; intros; cbn [kv_scan]; [reflexivity|].
  unfold qproj. cbn [filter fst]. destruct (kv_qualifies cursor excl k) eqn:E; cbn [negb map scan_q fst snd]; cbv zeta.
  - fold (qproj cursor excl incl r).
    destruct ((0 <? maxBytes) && (maxBytes <? b + kv_size (k, kv_proj incl v)) && (0 <? c)); auto.
    destruct ((0 <? limit) && (limit <=? c + 1)).
    + rewrite (kv_peek_spec r cursor excl incl). auto.
    + apply IH.
  - apply IH.
Qed.

Lemma scan_q_spec : forall limit maxBytes q acc b c,
  exists taken rest, q = taken ++ rest /\
    scan_q q limit maxBytes acc b c = (acc ++ taken, negb (is_nil rest)) /\
    (c = 0 -> q <> [] -> taken <> []).
Proof.
  intros limit maxBytes; induction q as [|kv r IH]; intros acc b c; cbn [scan_q].
  - exists [], []. repeat rewrite app_nil_r. repeat split; auto.
  - destruct ((0 <? maxBytes) && (maxBytes <? b + kv_size kv) && (0 <? c)) eqn:E1.
    + exists [], (kv :: r). repeat rewrite app_nil_r. repeat split; auto. intros ->. rewrite andb_false_r in E1. discriminate.
    + destruct ((0 <? limit) && (limit <=? c + 1)) eqn:E2.
      * exists [kv], r. repeat split; auto. intros _ _. discriminate.
      * destruct (IH (acc ++ [kv]) (b + kv_size kv) (c + 1)) as [tk [rs [Hq [Hs _]]]].
        exists (kv :: tk), rs. subst r. rewrite Hs, <- app_assoc. repeat split; auto. intros _ _. discriminate.
Qed.

(* ------------------------------------------------------------------------------------------ *)
(* the trim loop                                                                              *)
(* ------------------------------------------------------------------------------------------ *)
Fixpoint ktake (l : list kvrow) (i b limit maxBytes : N) : list kvrow :=
  match l with
  | [] => []
  | kv :: r =>
      let ib := kv_size kv in
      if (maxBytes <? b + ib) && (0 <? i) then []
      else if limit <=? i + 1 then [kv]
      else kv :: ktake r (i + 1) (b + ib) limit maxBytes
  end.

Lemma trim_at_ktake : forall limit maxBytes l i b,
  match kv_trim_at l i b limit maxBytes with
  | Some t => i <= t /\ firstn (N.to_nat (t - i)) l = ktake l i b limit maxBytes
  | None => ktake l i b limit maxBytes = l
  end.
Proof.
  intros limit maxBytes; induction l as [|kv r IH]; intros i b; cbn [kv_trim_at ktake]; auto.
  destruct ((maxBytes <? b + kv_size kv) && (0 <? i)).
  - split; [lia|]. replace (i - i) with 0 by lia. auto.
  - destruct (limit <=? i + 1).
    + split; [lia|]. replace (i + 1 - i) with 1 by lia. auto.
    + specialize (IH (i + 1) (b + kv_size kv)).
      destruct (kv_trim_at r (i + 1) (b + kv_size kv) limit maxBytes) as [t|].
      * destruct IH as [Hle Hf]. split; [lia|].
        replace (N.to_nat (t - i)) with (S (N.to_nat (t - (i + 1)))) by lia. cbn. rewrite Hf. auto.
      * rewrite IH. auto.
Qed.

Lemma kv_trim_ktake : forall l limit maxBytes, kv_trim l limit maxBytes = ktake l 0 0 limit maxBytes.
Proof.
  intros. unfold kv_trim. pose proof (trim_at_ktake limit maxBytes l 0 0) as H.
  destruct (kv_trim_at l 0 0 limit maxBytes) as [t|]; [|auto].
  destruct H as [_ H]. rewrite N.sub_0_r in H. auto.
Qed.

Lemma ktake_prefix : forall limit maxBytes l1 l2 i b,
  is_prefix (ktake l1 i b limit maxBytes) (ktake (l1 ++ l2) i b limit maxBytes).
Proof.
  intros limit maxBytes; induction l1 as [|kv r IH]; intros l2 i b; cbn [ktake app].
  - eexists; reflexivity.
  - destruct ((maxBytes <? b + kv_size kv) && (0 <? i)); [eexists; reflexivity|].
    destruct (limit <=? i + 1); [eexists; reflexivity|].
    destruct (IH l2 (i + 1) (b + kv_size kv)) as [x Hx]. exists x. cbn. rewrite Hx. auto.
Qed.

Lemma ktake_is_prefix : forall limit maxBytes l i b, is_prefix (ktake l i b limit maxBytes) l.
Proof.
  intros limit maxBytes; induction l as [|kv r IH]; intros i b; cbn [ktake].
  - exists []; auto.
  - destruct ((maxBytes <? b + kv_size kv) && (0 <? i)); [eexists; reflexivity|].
    destruct (limit <=? i + 1); [exists r; reflexivity|].
    destruct (IH (i + 1) (b + kv_size kv)) as [x Hx]. exists x. cbn. rewrite <- Hx. auto.
Qed.

Lemma ktake_nonempty : forall limit maxBytes l b, l <> [] -> ktake l 0 b limit maxBytes <> [].
Proof.
  intros limit maxBytes [|kv r] b H; [contradiction|]. cbn [ktake].
  rewrite andb_false_r. destruct (limit <=? 0 + 1); discriminate.
Qed.

(* ------------------------------------------------------------------------------------------ *)
(* the listing                                                                                *)
(* ------------------------------------------------------------------------------------------ *)
Lemma kv_listing_sorted : forall db deltas prefix cursor incl,
  bsorted (kv_listing db deltas prefix cursor incl).
Proof.
  intros. unfold kv_listing. apply filter_map_keys_sorted; [apply usort_b_sorted|].
  intros k x H. destruct (has_prefix prefix k && bltb cursor k); [|discriminate].
  destruct (kv_world db deltas k); inversion H; auto.
Qed.

Lemma kv_listing_in : forall db deltas prefix cursor incl k v,
  In (k, v) (kv_listing db deltas prefix cursor incl) <->
  kqual prefix cursor k = true /\ exists v0, kv_world db deltas k = Some v0 /\ v = kv_proj incl v0.
Proof.
  intros. unfold kv_listing. rewrite filter_map_in. fold (kqual prefix cursor). split.
  - intros [k' [Hin Hf]]. unfold kqual in *. destruct (has_prefix prefix k' && bltb cursor k') eqn:E; [|discriminate].
    destruct (kv_world db deltas k') eqn:Ew; inversion Hf; subst. split; auto. eauto.
  - intros [Hq [v0 [Hw ->]]]. exists k. split.
    + apply usort_b_in. apply in_or_app. unfold kv_world in Hw.
      destruct (kfind k (kv_flat deltas)) eqn:Ef.
      * right. apply kfind_some_in in Ef. apply (in_map fst) in Ef. auto.
      * left. apply kfind_some_in in Hw. apply (in_map fst) in Hw. auto.
    + unfold kqual in Hq. rewrite Hq, Hw. auto.
Qed.

Lemma kv_walk_flat : forall prefix cursor deltas,
  kv_walk prefix cursor deltas = fold_left (kv_walk_step prefix cursor) (kv_flat deltas) [].
Proof. intros. unfold kv_walk, kv_flat. apply fold_left_concat. Qed.



Lemma ssorted_map_val {V W} (g : bytes * V -> W) (l : list (bytes * V)) :
  ssorted bltb l -> ssorted bltb (map (fun r => (fst r, g r)) l).
Proof.
  induction l as [|x t IH]; cbn; intro H; [constructor|].
  apply ssorted_cons_inv in H. destruct H as [H A]. constructor; [apply IH; exact H|].
  apply Forall_forall. intros y Hy. rewrite Forall_forall in A. apply in_map_iff in Hy. destruct Hy as [z [<- Hz]].
  unfold klt. cbn. apply A; auto.
Qed.

Lemma sorted_last_max : forall (l : list kvrow) z, bsorted l -> last_opt l = Some z ->
  forall x, In x l -> bltb (fst z) (fst x) = false.
Proof.
  intros l z Hs Hl x Hx. apply last_opt_split in Hl. destruct Hl as [l' ->].
  apply ssorted_app_inv in Hs. destruct Hs as [_ [_ C]].
  apply in_app_or in Hx. destruct Hx as [Hx|[<-|[]]]; [|apply bltb_irrefl].
  specialize (C x z Hx (or_introl eq_refl)). unfold klt in C.
  destruct (bltb (fst z) (fst x)) eqn:E; auto.
  pose proof (bltb_trans _ _ _ C E) as T. rewrite bltb_irrefl in T. discriminate.
Qed.

(* ------------------------------------------------------------------------------------------ *)
(* one page                                                                                   *)
(* ------------------------------------------------------------------------------------------ *)
Section Page.
  Variables (db : list kvrow) (deltas : list (list kvmod)) (prefix cursor : bytes)
            (limit maxBytes : N) (incl : bool) (pe : bytes).
  Hypothesis Hdb : NoDup (map fst db).
  Hypothesis Hok : forall r, In r db -> bytes_ok (fst r).
  Hypothesis Hlim : 1 <= limit.
  Hypothesis Hpe : prefix_end prefix = Some pe.

  Definition p_flat := kv_flat deltas.
  Definition p_dr := kv_walk prefix cursor deltas.
  Definition p_L := kv_listing db deltas prefix cursor incl.
  Definition p_qs := if negb (is_nil cursor) && bleb prefix cursor then cursor else prefix.
  Definition p_rows := isort bltb (filter (fun r => bleb p_qs (fst r) && bltb (fst r) pe) db).
  Definition p_Q := qproj cursor p_dr incl p_rows.

  Lemma dr_find : forall k, kfind k p_dr = if kqual prefix cursor k then kfind k p_flat else None.
  Proof. intro k. unfold p_dr. rewrite kv_walk_flat, walk_find. cbn. auto. Qed.

  Lemma dr_keys : (forall k, In k (map fst p_dr) -> kqual prefix cursor k = true) /\ NoDup (map fst p_dr).
  Proof.
    unfold p_dr. rewrite kv_walk_flat. apply walk_keys; cbn; [tauto | constructor].
  Qed.

  Lemma rows_sorted : bsorted p_rows.
  Proof. unfold p_rows. apply isort_ssorted; auto. apply NoDup_map_filter; auto. Qed.

  Lemma qs_ge_prefix : bleb prefix p_qs = true.
  Proof.
    unfold p_qs. destruct (negb (is_nil cursor) && bleb prefix cursor) eqn:E.
    - apply andb_true_iff in E. tauto.
    - apply bleb_refl.
  Qed.

  Lemma Q_sorted : bsorted p_Q.
  Proof.
    unfold p_Q, qproj. apply (ssorted_map_val (fun r => kv_proj incl (snd r))).
    apply ssorted_filter. apply rows_sorted.
  Qed.

  Lemma Q_in : forall k v, In (k, v) p_Q <->
    exists v0, In (k, v0) db /\ v = kv_proj incl v0 /\ kqual prefix cursor k = true /\ kfind k p_flat = None.
  Proof.
    intros k v. unfold p_Q, qproj. rewrite in_map_iff. split.
    - intros [[k' v0] [E Hin]]. cbn in E. inversion E; subst k' v. clear E.
      apply filter_In in Hin. destruct Hin as [Hin Hq]. cbn in Hq.
      apply (proj1 (isort_in bltb _ _)) in Hin. apply filter_In in Hin. destruct Hin as [Hin Hr]. cbn in Hr.
      apply andb_true_iff in Hr. destruct Hr as [Hr1 Hr2].
      unfold kv_qualifies in Hq. apply andb_true_iff in Hq. destruct Hq as [Hc Hm].
      apply negb_true_iff in Hm.
      assert (Hp : has_prefix prefix k = true).
      { rewrite <- (prefix_range prefix pe k); [| rewrite <- prefix_end_pend; auto | apply (Hok _ Hin)].
        rewrite Hr2, andb_true_r. eapply bleb_trans; [apply qs_ge_prefix | exact Hr1]. }
      assert (Hqual : kqual prefix cursor k = true) by (unfold kqual; rewrite Hp, Hc; auto).
      exists v0. repeat split; auto.
      unfold kmem in Hm. pose proof (dr_find k) as Hd. rewrite Hqual in Hd. rewrite Hd in Hm.
      destruct (kfind k p_flat); [discriminate | auto].
    - intros [v0 [Hin [-> [Hqual Hf]]]]. exists (k, v0). split; auto.
      unfold kqual in Hqual. apply andb_true_iff in Hqual. destruct Hqual as [Hp Hc].
      apply filter_In. split.
      + apply (proj2 (isort_in bltb _ _)). apply filter_In. split; auto. cbn.
        pose proof (prefix_range prefix pe k) as Hr. rewrite Hp in Hr.
        rewrite <- prefix_end_pend in Hr. specialize (Hr Hpe (Hok _ Hin)).
        apply andb_true_iff in Hr. destruct Hr as [Hr1 Hr2]. rewrite Hr2, andb_true_r.
        unfold p_qs. destruct (negb (is_nil cursor) && bleb prefix cursor); auto. apply bltb_bleb; auto.
      + cbn. unfold kv_qualifies. rewrite Hc. cbn. unfold kmem. rewrite dr_find.
        unfold kqual. rewrite Hp, Hc. cbn. rewrite Hf. auto.
  Qed.

  (* every qualifying database row is in the listing *)
  Lemma Q_in_L : forall x, In x p_Q -> In x p_L.
  Proof.
    intros [k v] H. apply Q_in in H. destruct H as [v0 [Hin [-> [Hq Hf]]]].
    apply kv_listing_in. split; auto. exists v0. split; auto.
    unfold kv_world. fold p_flat. rewrite Hf. apply kfind_in_nodup; auto.
  Qed.

  Definition le_cut (cutoff : bytes) (x : kvrow) : bool := is_nil cutoff || negb (bltb cutoff (fst x)).

  Definition p_extra (cutoff : bytes) : list kvrow :=
    flat_map (fun e : kvmod =>
                match snd e with
                | None => []
                | Some val => if negb (is_nil cutoff) && bltb cutoff (fst e) then []
                              else [(fst e, kv_proj incl val)]
                end) p_dr.

  Lemma extra_in : forall cutoff k v, In (k, v) (p_extra cutoff) <->
    exists val, In (k, Some val) p_dr /\ v = kv_proj incl val /\ le_cut cutoff (k, v) = true.
  Proof.
    intros cutoff k v. unfold p_extra. rewrite in_flat_map. unfold le_cut. cbn [fst]. split.
    - intros [[k' mv] [Hin H]]. cbn in H. destruct mv as [val|]; [|contradiction].
      destruct (negb (is_nil cutoff) && bltb cutoff k') eqn:E; [contradiction|].
      destruct H as [H|[]]. inversion H; subst. exists val. repeat split; auto.
      destruct (is_nil cutoff); cbn in *; auto. rewrite E. auto.
    - intros [val [Hin [-> Hle]]]. exists (k, Some val). split; auto. cbn.
      destruct (is_nil cutoff); cbn in *; [left; auto|]. apply negb_true_iff in Hle. rewrite Hle. left; auto.
  Qed.

  Lemma extra_keys_nodup : forall cutoff, NoDup (map fst (p_extra cutoff)).
  Proof.
    intro cutoff. unfold p_extra. destruct dr_keys as [_ Hn]. revert Hn.
    induction p_dr as [|[k mv] t IH]; cbn; intro Hn; [constructor|]. inversion Hn; subst.
    destruct mv as [val|]; cbn; auto.
    destruct (negb (is_nil cutoff) && bltb cutoff k); cbn; auto.
    constructor; auto. intro Hin. apply H1. apply in_map_iff in Hin. destruct Hin as [[k' v'] [E Hin]].
    cbn in E; subst k'. apply in_flat_map in Hin. destruct Hin as [[k2 mv2] [Hin2 H]]. cbn in H.
    destruct mv2; [|contradiction]. destruct (negb (is_nil cutoff) && bltb cutoff k2); [contradiction|].
    destruct H as [H|[]]. inversion H; subst. apply (in_map fst) in Hin2. auto.
  Qed.

  (* the merged, sorted candidate list is the listing cut at the cutoff *)
  Lemma merge_char : forall taken rest, p_Q = taken ++ rest -> (rest <> [] -> taken <> []) ->
    let dbmore := negb (is_nil rest) in
    let cutoff := if dbmore then match last_opt taken with Some kv => fst kv | None => [] end else [] in
    let S := isort bltb (taken ++ p_extra cutoff) in
    exists L', p_L = S ++ L' /\ (dbmore = true <-> L' <> []) /\ (p_L <> [] -> S <> []).
  Proof.
    intros taken rest HQ Hne dbmore cutoff S.
    pose proof Q_sorted as HQs. rewrite HQ in HQs.
    destruct (ssorted_app_inv bltb _ _ HQs) as [Hts [Hrs Hcross]].
    destruct dr_keys as [Hdrq Hdrn].
    (* S is strictly sorted *)
    assert (HSs : bsorted S).
    { apply isort_ssorted; auto.
      rewrite map_app. apply NoDup_app_disjoint.
      - apply ssorted_nodup_keys with (ltb := bltb); auto.
      - apply extra_keys_nodup.
      - intros k Hk1 Hk2. apply in_map_iff in Hk1. destruct Hk1 as [[k1 v1] [E1 H1]]. cbn in E1; subst k1.
        apply in_map_iff in Hk2. destruct Hk2 as [[k2 v2] [E2 H2]]. cbn in E2; subst k2.
        assert (In (k, v1) p_Q) as HinQ by (rewrite HQ; apply in_or_app; auto).
        apply Q_in in HinQ. destruct HinQ as [v0 [_ [_ [Hq Hf]]]].
        apply extra_in in H2. destruct H2 as [val [Hin _]].
        apply kfind_in_nodup in Hin; auto. rewrite dr_find, Hq, Hf in Hin. discriminate. }
    assert (HLs : bsorted p_L) by apply kv_listing_sorted.
    (* membership *)
    assert (Hmem : forall x, In x S <-> In x p_L /\ le_cut cutoff x = true).
    { intros [k v]. unfold S. rewrite isort_in, in_app_iff. split.
      - intros [Ht|He].
        + split; [apply Q_in_L; rewrite HQ; apply in_or_app; auto|].
          unfold le_cut, cutoff, dbmore. destruct (is_nil rest) eqn:En; cbn; auto.
          destruct (last_opt taken) as [z|] eqn:El; cbn; auto.
          pose proof (sorted_last_max taken z Hts El _ Ht) as Hmx. cbn [fst] in Hmx. rewrite Hmx. destruct (is_nil (fst z)); auto.
        + apply extra_in in He. destruct He as [val [Hin [-> Hle]]]. split; auto.
          apply kv_listing_in. apply kfind_in_nodup in Hin; auto. rewrite dr_find in Hin.
          destruct (kqual prefix cursor k) eqn:Eq; [|discriminate]. split; auto.
          exists val. split; auto. unfold kv_world. fold p_flat. rewrite Hin. auto.
      - intros [HL Hle]. apply kv_listing_in in HL. destruct HL as [Hq [v0 [Hw ->]]].
        unfold kv_world in Hw. fold p_flat in Hw. destruct (kfind k p_flat) as [mv|] eqn:Ef.
        + subst mv. right. apply extra_in. exists v0. repeat split; auto.
          apply kfind_some_in. rewrite dr_find, Hq. auto.
        + assert (HinQ : In (k, kv_proj incl v0) p_Q).
          { apply Q_in. exists v0. repeat split; auto. apply kfind_some_in; auto. }
          rewrite HQ in HinQ. apply in_app_or in HinQ. destruct HinQ as [Ht|Hr]; auto.
          exfalso. unfold le_cut, cutoff, dbmore in Hle. cbn [fst] in Hle.
          assert (rest <> []) as Hrne by (intro E; rewrite E in Hr; contradiction).
          destruct rest as [|r0 rest']; [contradiction|]. cbn in Hle.
          specialize (Hne Hrne). destruct (last_opt taken) as [z|] eqn:El.
          * apply last_opt_split in El. destruct El as [l' ->].
            assert (Hz : In z (l' ++ [z])) by (apply in_or_app; right; left; auto).
            specialize (Hcross z (k, kv_proj incl v0) Hz Hr).
            unfold klt in Hcross. cbn [fst] in Hcross.
            destruct z as [kz vz]. cbn [fst] in *.
            assert (HzQ : In (kz, vz) p_Q) by (rewrite HQ; apply in_or_app; left; exact Hz).
            apply Q_in in HzQ. destruct HzQ as [vz0 [_ [_ [Hqz _]]]].
            unfold kqual in Hqz. apply andb_true_iff in Hqz. destruct Hqz as [_ Hcz].
            destruct kz as [|b0 kz]; [destruct cursor; discriminate|].
            cbn [is_nil orb] in Hle. rewrite Hcross in Hle. discriminate.
          * apply last_opt_none in El. contradiction. }
    (* cut *)
    destruct (filter_downclosed bltb (le_cut cutoff) p_L HLs) as [Hsplit Hrest].
    { intros x y Hxy Hy. unfold le_cut in *. destruct (is_nil cutoff); cbn in *; auto.
      apply negb_true_iff in Hy. apply negb_true_iff.
      destruct (bltb cutoff (fst x)) eqn:E; auto. unfold klt in Hxy.
      rewrite (bltb_trans _ _ _ E Hxy) in Hy. discriminate. }
    assert (HS : S = filter (le_cut cutoff) p_L).
    { apply ssorted_unique with (ltb := bltb); auto.
      - apply ssorted_filter; auto.
      - intro x. rewrite Hmem, filter_In. tauto. }
    exists (filter (fun x => negb (le_cut cutoff x)) p_L). rewrite HS. split; [exact Hsplit|]. split.
    - unfold dbmore. split.
      + intro Hm. destruct rest as [|r0 rest']; [discriminate|].
        assert (In r0 p_L) as Hr0 by (apply Q_in_L; rewrite HQ; apply in_or_app; right; left; auto).
        intro E. assert (In r0 (filter (fun x => negb (le_cut cutoff x)) p_L)) as Hin; [|rewrite E in Hin; contradiction].
        apply filter_In. split; auto. apply negb_true_iff.
        destruct (le_cut cutoff r0) eqn:Ele; auto. exfalso.
        assert (In r0 S) as HinS by (apply Hmem; auto).
        unfold S in HinS. apply (proj1 (isort_in bltb _ _)) in HinS. apply in_app_or in HinS. destruct HinS as [Ht|He].
        * specialize (Hcross r0 r0 Ht (or_introl eq_refl)). unfold klt in Hcross. rewrite bltb_irrefl in Hcross. discriminate.
        * destruct r0 as [k0 v0]. apply extra_in in He. destruct He as [val [Hin _]].
          apply kfind_in_nodup in Hin; auto.
          assert (In (k0, v0) p_Q) as HinQ by (rewrite HQ; apply in_or_app; right; left; auto).
          apply Q_in in HinQ. destruct HinQ as [v1 [_ [_ [Hq Hf]]]].
          rewrite dr_find, Hq, Hf in Hin. discriminate.
      + intro HL'. destruct (is_nil rest) eqn:En; auto. exfalso. apply HL'.
        unfold cutoff, dbmore. try rewrite En. cbn.
        clear. induction p_L as [|x t IH]; cbn; auto.
    - intros HLne E. rewrite <- HS in E.
      destruct p_L as [|x0 t0] eqn:EL; [contradiction|].
      destruct (le_cut cutoff x0) eqn:Ele.
      + assert (In x0 S) as Hin by (apply Hmem; split; [left; auto | auto]). rewrite E in Hin. contradiction.
      + unfold le_cut, cutoff, dbmore in Ele. destruct (is_nil rest) eqn:En; cbn in Ele; [discriminate|].
        assert (rest <> []) as Hrne by (intro E2; rewrite E2 in En; discriminate).
        specialize (Hne Hrne). destruct taken as [|t1 tk]; [contradiction|].
        assert (In t1 S) as Hin; [|rewrite E in Hin; contradiction].
        unfold S. apply (proj2 (isort_in bltb _ _)). apply in_or_app. left. left. auto.
  Qed.
End Page.

Theorem kv_page_correct : forall db deltas prefix cursor limit maxBytes incl pe,
  NoDup (map fst db) -> (forall r, In r db -> bytes_ok (fst r)) -> 1 <= limit ->
  prefix_end prefix = Some pe ->
  exists page more rest,
    kv_page db deltas prefix cursor limit maxBytes incl = Ok (page, more) /\
    kv_listing db deltas prefix cursor incl = page ++ rest /\
    (more = true <-> rest <> []) /\
    (kv_listing db deltas prefix cursor incl <> [] -> page <> []) /\
    is_prefix page (kv_trim (kv_listing db deltas prefix cursor incl) limit maxBytes).
Proof.
  intros db deltas prefix cursor limit maxBytes incl pe Hdb Hok Hlim Hpe.
  unfold kv_page. assert (limit =? 0 = false) as -> by lia.
  unfold kv_db_scan. rewrite Hpe. rewrite kv_scan_q.
  change (qproj cursor (kv_walk prefix cursor deltas) incl _) with (p_Q db deltas prefix cursor incl pe).
  destruct (scan_q_spec limit maxBytes (p_Q db deltas prefix cursor incl pe) [] 0 0) as [taken [rest [HQ [Hscan Hne]]]].
  rewrite Hscan. cbn [app].
  assert (Hne' : rest <> [] -> taken <> []).
  { intros Hr. apply Hne; auto. rewrite HQ. destruct taken; [cbn; auto | discriminate]. }
  destruct (merge_char db deltas prefix cursor incl pe Hdb Hok Hpe taken rest HQ Hne') as [L' [HL [Hmore HSne]]].
  cbv zeta in HL, Hmore, HSne.
  set (cutoff := if negb (is_nil rest) then match last_opt taken with Some kv => fst kv | None => [] end else []) in *.
  change (flat_map _ (kv_walk prefix cursor deltas)) with (p_extra deltas prefix cursor incl cutoff).
  set (S := isort bltb (taken ++ p_extra deltas prefix cursor incl cutoff)) in *.
  fold (p_L db deltas prefix cursor incl) in *.
  rewrite kv_trim_ktake.
  destruct (ktake_is_prefix limit maxBytes S 0 0) as [r1 Hr1].
  set (page := ktake S 0 0 limit maxBytes) in *.
  exists page, (if Nat.ltb (length page) (length S) then true else negb (is_nil rest)), (r1 ++ L').
  split; [reflexivity|]. split; [rewrite HL, Hr1 at 1; rewrite app_assoc; reflexivity|]. split; [|split].
  - assert (Hlen : length S = (length page + length r1)%nat) by (rewrite Hr1 at 1; apply app_length).
    destruct (Nat.ltb (length page) (length S)) eqn:E.
    + apply Nat.ltb_lt in E. split; auto. intros _ C. apply app_eq_nil in C. destruct C as [C _]. subst r1. cbn in Hlen. lia.
    + apply Nat.ltb_ge in E. assert (r1 = []) as -> by (destruct r1; auto; cbn in Hlen; lia). cbn. exact Hmore.
  - intros HLne. apply ktake_nonempty. apply HSne; auto.
  - rewrite kv_trim_ktake, HL. apply ktake_prefix.
Qed.

(* with the round arithmetic of accountUpdates.LookupKvPairsByPrefix *)
Theorem kv_lookup_correct : forall db dbRound deltas rnd prefix cursor limit maxBytes incl pe,
  NoDup (map fst db) -> (forall r, In r db -> bytes_ok (fst r)) -> 1 <= limit ->
  prefix_end prefix = Some pe -> dbRound <= rnd -> rnd - dbRound <= nlen deltas ->
  let world := firstn (N.to_nat (rnd - dbRound)) deltas in
  exists page more rest,
    kv_lookup db dbRound deltas rnd prefix cursor limit maxBytes incl = Ok (page, more) /\
    kv_listing db world prefix cursor incl = page ++ rest /\
    (more = true <-> rest <> []) /\
    (kv_listing db world prefix cursor incl <> [] -> page <> []) /\
    is_prefix page (kv_trim (kv_listing db world prefix cursor incl) limit maxBytes).
Proof.
  intros. unfold kv_lookup.
  assert (limit =? 0 = false) as -> by lia.
  assert (rnd <? dbRound = false) as -> by lia.
  assert (nlen deltas <? rnd - dbRound = false) as -> by lia.
  eapply kv_page_correct; eauto.
Qed.

(* ------------------------------------------------------------------------------------------ *)
(* iterating next-tokens                                                                      *)
(* ------------------------------------------------------------------------------------------ *)
Lemma kv_listing_suffix : forall db deltas prefix cursor incl c',
  bltb cursor c' = true ->
  kv_listing db deltas prefix c' incl =
  filter (fun x => bltb c' (fst x)) (kv_listing db deltas prefix cursor incl).
Proof.
  intros. apply ssorted_unique with (ltb := bltb); auto.
  - apply kv_listing_sorted.
  - apply ssorted_filter, kv_listing_sorted.
  - intros [k v]. rewrite filter_In, !kv_listing_in. cbn [fst]. unfold kqual.
    split.
    + intros [Hq Hw]. apply andb_true_iff in Hq. destruct Hq as [Hp Hc]. repeat split; auto.
      rewrite Hp. cbn. eapply bltb_trans; eauto.
    + intros [[Hq Hw] Hc]. apply andb_true_iff in Hq. destruct Hq as [Hp _]. rewrite Hp, Hc. auto.
Qed.

Theorem kv_iter_exact : forall db dbRound deltas rnd prefix limit maxBytes incl pe,
  NoDup (map fst db) -> (forall r, In r db -> bytes_ok (fst r)) -> 1 <= limit ->
  prefix_end prefix = Some pe -> dbRound <= rnd -> rnd - dbRound <= nlen deltas ->
  let world := firstn (N.to_nat (rnd - dbRound)) deltas in
  let pagef := fun c => kv_lookup db dbRound deltas rnd prefix c limit maxBytes incl in
  forall fuel cursor, (length (kv_listing db world prefix cursor incl) < fuel)%nat ->
  exists ps, kv_iter fuel pagef cursor = (map Ok ps, false) /\
             kv_pages_shape ps = true /\
             List.concat (map fst ps) = kv_listing db world prefix cursor incl.
Proof.
  intros db dbRound deltas rnd prefix limit maxBytes incl pe Hdb Hok Hlim Hpe Hr1 Hr2 world pagef.
  induction fuel as [|f IH]; intros cursor Hf; [lia|].
  cbn [kv_iter]. unfold pagef at 1.
  destruct (kv_lookup_correct db dbRound deltas rnd prefix cursor limit maxBytes incl pe Hdb Hok Hlim Hpe Hr1 Hr2)
    as [page [more [rest [Hpg [HL [Hmore [Hne _]]]]]]].
  fold world in HL, Hne. rewrite Hpg.
  destruct more.
  - assert (rest <> []) as Hrest by (apply Hmore; auto).
    assert (page <> []) as Hpage by (apply Hne; rewrite HL; destruct page; [destruct rest; [contradiction|discriminate] | discriminate]).
    destruct (last_opt page) as [kv|] eqn:El; [|apply last_opt_none in El; contradiction].
    destruct (last_opt_split _ _ El) as [p' Hp'].
    assert (HinL : In kv (kv_listing db world prefix cursor incl)).
    { rewrite HL, Hp'. apply in_or_app. left. apply in_or_app. right. left. auto. }
    destruct kv as [kk kvv]. pose proof HinL as HinL2. apply kv_listing_in in HinL2. destruct HinL2 as [Hq _].
    unfold kqual in Hq. apply andb_true_iff in Hq. destruct Hq as [_ Hc].
    assert (Hnext : kv_listing db world prefix kk incl = rest).
    { rewrite (kv_listing_suffix db world prefix cursor incl kk Hc). rewrite HL, Hp'.
      rewrite <- app_assoc. cbn [app fst].
      apply (ssorted_above_last bltb b_ord p' (kk, kvv) rest).
      pose proof (kv_listing_sorted db world prefix cursor incl) as Hs. rewrite HL, Hp', <- app_assoc in Hs. exact Hs. }
    cbn [fst].
    destruct (IH kk) as [ps [Hit [Hsh Hcat]]].
    { rewrite Hnext. rewrite HL, app_length in Hf. destruct page; [contradiction|]. cbn in Hf. lia. }
    rewrite Hit. exists ((page, true) :: ps). split; [reflexivity|]. split.
    + cbn [kv_pages_shape]. destruct ps as [|p0 ps']; [cbn in Hsh; discriminate|].
      destruct page; [contradiction|]. cbn. exact Hsh.
    + cbn. rewrite Hcat, Hnext. auto.
  - assert (rest = []) as ->.
    { destruct rest; auto. assert (false = true) by (apply Hmore; discriminate). discriminate. }
    exists [(page, false)]. split; [reflexivity|]. split; [reflexivity|]. cbn. rewrite HL, !app_nil_r. auto.
Qed.

Lemma kvrows_eqb_eq : forall a b, kvrows_eqb a b = true <-> a = b.
Proof.
  induction a as [|[k v] a IH]; destruct b as [|[k' v'] b]; cbn; split; intro H; auto; try discriminate.
  - apply andb_true_iff in H. destruct H as [H H3]. apply andb_true_iff in H. destruct H as [H1 H2].
    apply beqb_eq in H1, H2. apply IH in H3. subst. auto.
  - inversion H; subst. rewrite !beqb_refl. cbn. apply IH. auto.
Qed.

Lemma prefix_end_range : forall p e k, prefix_end p = Some e -> bytes_ok k ->
  bleb p k && bltb k e = has_prefix p k.
Proof. intros p e k H. rewrite prefix_end_pend in H. apply prefix_range; auto. Qed.

Lemma prefix_end_none : forall p, prefix_end p = None <-> Forall (fun b => 255 <= b) p.
Proof.
  intro p. rewrite prefix_end_pend. induction p as [|b t IH]; cbn.
  - split; auto.
  - destruct (pend t).
    + split; [discriminate|]. intro H. inversion H; subst. apply IH in H3. discriminate.
    + destruct (255 <? b + 1) eqn:E.
      * split; auto. intros _. constructor; [lia | apply IH; auto].
      * split; [discriminate|]. intro H. inversion H; subst. lia.
Qed.

Lemma kv_listing_spec : forall db deltas prefix cursor incl,
  ssorted bltb (kv_listing db deltas prefix cursor incl) /\
  forall k v, In (k, v) (kv_listing db deltas prefix cursor incl) <->
    has_prefix prefix k = true /\ bltb cursor k = true /\
    exists v0, kv_world db deltas k = Some v0 /\ v = kv_proj incl v0.
Proof.
  intros. split; [apply kv_listing_sorted|]. intros k v. rewrite kv_listing_in. unfold kqual.
  rewrite andb_true_iff. tauto.
Qed.
