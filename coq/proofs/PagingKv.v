(* C10 proofs, part 2: LookupKvPairsByPrefix returns a prefix of the listing, with an exact
   "more" flag; iterating next-tokens enumerates the listing exactly once. *)
From Coq Require Import NArith List Bool Lia ZifyN ZifyNat ZifyBool Sorted Permutation.
From Verif.model Require Import Paging PagingSpec.
From Verif.proofs Require Import PagingBase.
Import ListNotations.
Open Scope N_scope.

Notation bsorted := (ssorted (V:=bytes) bltb).
Notation bklt := (klt (V:=bytes) bltb).

Definition is_prefix {A} (p l : list A) : Prop := exists r, l = p ++ r.

(* ------------------------------------------------------------------------------------------ *)
(* association lists keyed by byte strings                                                    *)
(* ------------------------------------------------------------------------------------------ *)
Lemma kfind_some_in {A} (k : bytes) (l : list (bytes * A)) v : kfind k l = Some v -> In (k, v) l.
Proof.
  induction l as [|[k' v'] t IH]; cbn; [discriminate|].
  destruct (beqb k k') eqn:E.
  - apply beqb_eq in E; subst. intro H; inversion H; subst; auto.
  - auto.
Qed.

Lemma kfind_none_iff {A} (k : bytes) (l : list (bytes * A)) : kfind k l = None <-> ~ In k (map fst l).
Proof.
  induction l as [|[k' v'] t IH]; cbn; [tauto|].
  destruct (beqb k k') eqn:E.
  - apply beqb_eq in E; subst. split; [discriminate | intro H; exfalso; apply H; auto].
  - apply beqb_neq in E. rewrite IH. split; [intros H [C|C]; [congruence | auto] | tauto].
Qed.

Lemma kfind_in_nodup {A} (k : bytes) (v : A) (l : list (bytes * A)) :
  NoDup (map fst l) -> In (k, v) l -> kfind k l = Some v.
Proof.
  induction l as [|[k' v'] t IH]; cbn; [tauto|]. intros Hnd [E|Hin].
  - inversion E; subst. rewrite beqb_refl. auto.
  - inversion Hnd; subst. destruct (beqb k k') eqn:E.
    + apply beqb_eq in E; subst. exfalso. apply H1. apply (in_map fst) in Hin. auto.
    + apply IH; auto.
Qed.

Lemma kfind_app {A} (k : bytes) (l1 l2 : list (bytes * A)) :
  kfind k (l1 ++ l2) = match kfind k l1 with Some v => Some v | None => kfind k l2 end.
Proof.
  induction l1 as [|[k' v'] t IH]; cbn; auto. destruct (beqb k k'); auto.
Qed.

Lemma kmem_false_iff {A} (k : bytes) (l : list (bytes * A)) : kmem k l = false <-> ~ In k (map fst l).
Proof. unfold kmem. rewrite <- kfind_none_iff. destruct (kfind k l); split; congruence. Qed.

Lemma kmem_true_iff {A} (k : bytes) (l : list (bytes * A)) : kmem k l = true <-> In k (map fst l).
Proof.
  unfold kmem. destruct (kfind k l) eqn:E.
  - split; auto. intros _. apply kfind_some_in in E. apply (in_map fst) in E. exact E.
  - split; [discriminate|]. intro H. apply kfind_none_iff in E. contradiction.
Qed.

(* ------------------------------------------------------------------------------------------ *)
(* keyPrefixIntervalPreprocessing: the key range [prefix, prefix_end) is "has the prefix"     *)
(* ------------------------------------------------------------------------------------------ *)
Fixpoint pend (p : bytes) : option bytes :=
  match p with
  | [] => None
  | b :: t => match pend t with
              | Some e => Some (b :: e)
              | None => if 255 <? b + 1 then None else Some [b + 1]
              end
  end.

Lemma incr_rev_snoc : forall l b,
  incr_rev (l ++ [b]) = match incr_rev l with
                        | Some e => Some (e ++ [b])
                        | None => if 255 <? b + 1 then None else Some [b + 1]
                        end.
Proof.
  induction l as [|x t IH]; intros b; cbn.
  - destruct (255 <? b + 1); auto.
  - destruct (255 <? x + 1); auto.
Qed.

Lemma incr_rev_pend : forall p, incr_rev (rev p) = option_map (@rev N) (pend p).
Proof.
  induction p as [|b t IH]; cbn; auto.
  rewrite incr_rev_snoc, IH. destruct (pend t); cbn; auto.
  destruct (255 <? b + 1); auto.
Qed.

Lemma prefix_end_pend : forall p, prefix_end p = pend p.
Proof.
  intro p. unfold prefix_end. rewrite incr_rev_pend. destruct (pend p); cbn; auto.
  rewrite rev_involutive. auto.
Qed.

Definition bytes_ok (k : bytes) : Prop := Forall (fun b => b < 256) k.

Lemma bleb_cons : forall x a y b, bleb (x :: a) (y :: b) = (x <? y) || ((x =? y) && bleb a b).
Proof.
  intros. unfold bleb; cbn. destruct (x ?= y) eqn:E.
  - apply N.compare_eq in E; subst. rewrite N.ltb_irrefl, N.eqb_refl. cbn. auto.
  - rewrite N.compare_lt_iff in E. assert (x <? y = true) as -> by lia. auto.
  - rewrite N.compare_gt_iff in E. assert (x <? y = false) as -> by lia. assert (x =? y = false) as -> by lia. auto.
Qed.

Lemma bltb_cons : forall x a y b, bltb (x :: a) (y :: b) = (x <? y) || ((x =? y) && bltb a b).
Proof.
  intros. unfold bltb; cbn. destruct (x ?= y) eqn:E.
  - apply N.compare_eq in E; subst. rewrite N.ltb_irrefl, N.eqb_refl. cbn. auto.
  - rewrite N.compare_lt_iff in E. assert (x <? y = true) as -> by lia. auto.
  - rewrite N.compare_gt_iff in E. assert (x <? y = false) as -> by lia. assert (x =? y = false) as -> by lia. auto.
Qed.

(* a prefix made of 0xff bytes only (no end): above it = having it as prefix *)
Lemma allff_range : forall p k, pend p = None -> bytes_ok k -> bleb p k = has_prefix p k.
Proof.
  induction p as [|b t IH]; intros k Hp Hk.
  - destruct k; auto.
  - cbn in Hp. destruct (pend t) eqn:Et; [discriminate|].
    destruct (255 <? b + 1) eqn:Eb; [|discriminate].
    destruct k as [|y k']; [auto|].
    inversion Hk; subst. rewrite bleb_cons. cbn [has_prefix].
    rewrite (IH k'); auto.
    assert (b <? y = false) as -> by lia. auto.
Qed.

Lemma prefix_range : forall p e k, pend p = Some e -> bytes_ok k ->
  bleb p k && bltb k e = has_prefix p k.
Proof.
  induction p as [|b t IH]; intros e k Hp Hk; [discriminate|].
  cbn in Hp. destruct k as [|y k'].
  - cbn. auto.
  - inversion Hk; subst. cbn [has_prefix]. destruct (pend t) eqn:Et.
    + inversion Hp; subst. rewrite bleb_cons, bltb_cons. rewrite <- (IH _ k' eq_refl); auto.
      destruct (b =? y) eqn:E1.
      * apply N.eqb_eq in E1; subst. rewrite N.ltb_irrefl, N.eqb_refl. cbn. auto.
      * assert (y =? b = false) as -> by lia. rewrite !andb_false_l, !orb_false_r.
        destruct (b <? y) eqn:E2; auto. assert (y <? b = false) as -> by lia. auto.
    + destruct (255 <? b + 1) eqn:Eb; [discriminate|]. inversion Hp; subst.
      rewrite bleb_cons, bltb_cons. rewrite (allff_range t k'); auto.
      assert (bltb k' [] = false) as -> by (destruct k'; auto).
      rewrite andb_false_r, orb_false_r.
      destruct (b =? y) eqn:E1.
      * apply N.eqb_eq in E1; subst. rewrite N.ltb_irrefl. cbn.
        assert (y <? y + 1 = true) as -> by lia. apply andb_true_r.
      * cbn. rewrite orb_false_r. destruct (b <? y) eqn:E2; auto.
        assert (y <? b + 1 = false) as -> by lia. auto.
Qed.

Lemma has_prefix_bleb : forall p k, has_prefix p k = true -> bleb p k = true.
Proof.
  induction p as [|b t IH]; intros k H; [destruct k; auto|].
  destruct k as [|y k']; [discriminate|]. cbn in H. apply andb_true_iff in H. destruct H as [E H].
  apply N.eqb_eq in E; subst. rewrite bleb_cons, N.eqb_refl, (IH _ H). apply orb_true_r.
Qed.

(* ------------------------------------------------------------------------------------------ *)
(* sorted duplicate-free key lists                                                            *)
(* ------------------------------------------------------------------------------------------ *)
Definition bkeys_sorted (l : list bytes) : Prop := StronglySorted (fun a b => bltb a b = true) l.

Lemma ins_ub_in : forall x l k, In k (ins_ub x l) <-> k = x \/ In k l.
Proof.
  intros x l k; induction l as [|y t IH]; cbn; [intuition|].
  destruct (bcmp x y) eqn:E; cbn.
  - apply bcmp_eq in E; subst. intuition.
  - intuition.
  - rewrite IH. intuition.
Qed.

Lemma ins_ub_sorted : forall x l, bkeys_sorted l -> bkeys_sorted (ins_ub x l).
Proof.
  intros x l; induction l as [|y t IH]; cbn; intros Hs.
  - constructor; constructor.
  - inversion Hs; subst. destruct (bcmp x y) eqn:E; auto.
    + constructor; auto. constructor.
      * unfold bltb; rewrite E; auto.
      * apply Forall_forall. intros z Hz. rewrite Forall_forall in H2.
        eapply bltb_trans; [unfold bltb; rewrite E; reflexivity | auto].
    + constructor; [apply IH; exact H1|]. apply Forall_forall. intros z Hz. rewrite Forall_forall in H2. apply ins_ub_in in Hz.
      destruct Hz as [->|Hz]; auto.
      unfold bltb. rewrite (bcmp_antisym x y), E. auto.
Qed.

Lemma usort_b_in : forall l k, In k (usort_b l) <-> In k l.
Proof.
  induction l as [|x t IH]; intro k; cbn; [tauto|]. rewrite ins_ub_in, IH. intuition.
Qed.

Lemma usort_b_sorted : forall l, bkeys_sorted (usort_b l).
Proof. induction l as [|x t IH]; cbn; [constructor | apply ins_ub_sorted; auto]. Qed.

Lemma filter_map_keys_sorted {V} (f : bytes -> option (bytes * V)) (ks : list bytes) :
  bkeys_sorted ks -> (forall k x, f k = Some x -> fst x = k) -> ssorted bltb (filter_map f ks).
Proof.
  intros Hs Hf. induction ks as [|k t IH]; cbn; [constructor|].
  inversion Hs; subst. destruct (f k) eqn:E; [|apply IH; exact H1].
  constructor; [apply IH; exact H1|]. apply Forall_forall. intros y Hy. rewrite Forall_forall in H2.
  apply filter_map_in in Hy. destruct Hy as [k' [Hk' Hfk']].
  unfold klt. rewrite (Hf _ _ E), (Hf _ _ Hfk'). auto.
Qed.

(* ------------------------------------------------------------------------------------------ *)
(* the delta walk                                                                             *)
(* ------------------------------------------------------------------------------------------ *)
Section Walk.
  Variables prefix cursor : bytes.

  Definition kqual (k : bytes) : bool := has_prefix prefix k && bltb cursor k.

  Lemma kv_walk_step_qual : forall acc e,
    kv_walk_step prefix cursor acc e =
    if kqual (fst e) && negb (kmem (fst e) acc) then acc ++ [e] else acc.
  Proof.
    intros acc e. unfold kv_walk_step, kqual. rewrite bleb_bltb.
    destruct (has_prefix prefix (fst e)); cbn; auto.
    destruct (bltb cursor (fst e)); cbn; auto.
    destruct (kmem (fst e) acc); auto.
  Qed.

  Lemma walk_find : forall l acc k,
    kfind k (fold_left (kv_walk_step prefix cursor) l acc) =
    match kfind k acc with
    | Some v => Some v
    | None => if kqual k then kfind k l else None
    end.
  Proof.
    induction l as [|e t IH]; intros acc k; cbn [fold_left].
    - destruct (kfind k acc); auto. destruct (kqual k); auto.
    - rewrite IH, kv_walk_step_qual. destruct e as [ke ve]. cbn [fst kfind].
      destruct (kqual ke && negb (kmem ke acc)) eqn:E.
      + unfold kvmod in *. rewrite kfind_app. destruct (kfind k acc) eqn:Ea; auto. cbn [kfind].
        destruct (beqb k ke) eqn:Ek.
        * apply beqb_eq in Ek; subst. apply andb_true_iff in E. destruct E as [-> _]. auto.
        * auto.
      + destruct (kfind k acc) eqn:Ea; auto. destruct (kqual k) eqn:Eq; auto.
        destruct (beqb k ke) eqn:Ek; auto. apply beqb_eq in Ek; subst.
        rewrite Eq in E. cbn in E. apply negb_false_iff in E. unfold kmem in E. rewrite Ea in E. discriminate.
  Qed.

  Lemma walk_keys : forall l acc,
    (forall k, In k (map fst acc) -> kqual k = true) -> NoDup (map fst acc) ->
    (forall k, In k (map fst (fold_left (kv_walk_step prefix cursor) l acc)) -> kqual k = true) /\
    NoDup (map fst (fold_left (kv_walk_step prefix cursor) l acc)).
  Proof.
    induction l as [|e t IH]; intros acc Hq Hn; cbn [fold_left]; auto.
    apply IH; rewrite kv_walk_step_qual; destruct (kqual (fst e) && negb (kmem (fst e) acc)) eqn:E; auto.
    - intros k Hk. rewrite map_app in Hk. apply in_app_or in Hk. destruct Hk as [Hk|[<-|[]]]; auto.
      apply andb_true_iff in E. tauto.
    - rewrite map_app. cbn. apply andb_true_iff in E. destruct E as [_ E]. apply negb_true_iff in E.
      apply kmem_false_iff in E.
      apply NoDup_app_snoc; auto.
  Qed.
End Walk.

(* ------------------------------------------------------------------------------------------ *)
(* the database scan, read as a scan over the qualifying rows                                 *)
(* ------------------------------------------------------------------------------------------ *)
Fixpoint scan_q (q : list kvrow) (limit maxBytes : N) (acc : list kvrow) (b c : N) : list kvrow * bool :=
  match q with
  | [] => (acc, false)
  | kv :: r =>
      let ib := kv_size kv in
      if (0 <? maxBytes) && (maxBytes <? b + ib) && (0 <? c) then (acc, true)
      else let acc' := acc ++ [kv] in
           if (0 <? limit) && (limit <=? c + 1) then (acc', negb (is_nil r))
           else scan_q r limit maxBytes acc' (b + ib) (c + 1)
  end.

Definition qproj (cursor : bytes) (excl : list kvmod) (incl : bool) (rows : list kvrow) : list kvrow :=
  map (fun r => (fst r, kv_proj incl (snd r))) (filter (fun r => kv_qualifies cursor excl (fst r)) rows).

Lemma kv_peek_spec : forall rows cursor excl incl,
  kv_peek rows cursor excl = negb (is_nil (qproj cursor excl incl rows)).
Proof.
  induction rows as [|[k v] r IH]; intros; cbn; auto.
  unfold qproj in *. cbn. destruct (kv_qualifies cursor excl k); cbn; auto.
Qed.

Lemma kv_scan_q : forall rows cursor limit maxBytes incl excl acc b c,
  kv_scan rows cursor limit maxBytes incl excl acc b c =
  scan_q (qproj cursor excl incl rows) limit maxBytes acc b c.
Proof.
  induction rows as [|[k v] r IH]; intros; cbn [kv_scan]; [reflexivity|].
  unfold qproj. cbn [filter fst]. destruct (kv_qualifies cursor excl k) eqn:E; cbn [negb map scan_q fst snd]; cbv zeta.
  - fold (qproj cursor excl incl r).
    destruct ((0 <? maxBytes) && (maxBytes <? b + kv_size (k, kv_proj incl v)) && (0 <? c)); auto.
    destruct ((0 <? limit) && (limit <=? c + 1)).
    + rewrite (kv_peek_spec r cursor excl incl). auto.
    + apply IH.
  - apply IH.
Qed.

Lemma scan_q_spec : forall limit maxBytes q acc b c,
  exists taken rest, q = taken ++ rest /\
    scan_q q limit maxBytes acc b c = (acc ++ taken, negb (is_nil rest)) /\
    (c = 0 -> q <> [] -> taken <> []).
Proof.
  intros limit maxBytes; induction q as [|kv r IH]; intros acc b c; cbn [scan_q].
  - exists [], []. rewrite app_nil_r. repeat split; auto. intros _ H; contradiction.
  - destruct ((0 <? maxBytes) && (maxBytes <? b + kv_size kv) && (0 <? c)) eqn:E1.
    + exists [], (kv :: r). rewrite app_nil_r. repeat split; auto. intros ->. rewrite andb_false_r in E1. discriminate.
    + destruct ((0 <? limit) && (limit <=? c + 1)) eqn:E2.
      * exists [kv], r. repeat split; auto. intros _ _. discriminate.
      * destruct (IH (acc ++ [kv]) (b + kv_size kv) (c + 1)) as [tk [rs [Hq [Hs _]]]].
        exists (kv :: tk), rs. subst r. rewrite Hs, <- app_assoc. repeat split; auto. intros _ _. discriminate.
Qed.

(* ------------------------------------------------------------------------------------------ *)
(* the trim loop                                                                              *)
(* ------------------------------------------------------------------------------------------ *)
Fixpoint ktake (l : list kvrow) (i b limit maxBytes : N) : list kvrow :=
  match l with
  | [] => []
  | kv :: r =>
      let ib := kv_size kv in
      if (maxBytes <? b + ib) && (0 <? i) then []
      else if limit <=? i + 1 then [kv]
      else kv :: ktake r (i + 1) (b + ib) limit maxBytes
  end.

Lemma trim_at_ktake : forall limit maxBytes l i b,
  match kv_trim_at l i b limit maxBytes with
  | Some t => i <= t /\ firstn (N.to_nat (t - i)) l = ktake l i b limit maxBytes
  | None => ktake l i b limit maxBytes = l
  end.
Proof.
  intros limit maxBytes; induction l as [|kv r IH]; intros i b; cbn [kv_trim_at ktake]; auto.
  destruct ((maxBytes <? b + kv_size kv) && (0 <? i)).
  - split; [lia|]. replace (i - i) with 0 by lia. auto.
  - destruct (limit <=? i + 1).
    + split; [lia|]. replace (i + 1 - i) with 1 by lia. auto.
    + specialize (IH (i + 1) (b + kv_size kv)).
      destruct (kv_trim_at r (i + 1) (b + kv_size kv) limit maxBytes) as [t|].
      * destruct IH as [Hle Hf]. split; [lia|].
        replace (N.to_nat (t - i)) with (S (N.to_nat (t - (i + 1)))) by lia. cbn. rewrite Hf. auto.
      * rewrite IH. auto.
Qed.

Lemma kv_trim_ktake : forall l limit maxBytes, kv_trim l limit maxBytes = ktake l 0 0 limit maxBytes.
Proof.
  intros. unfold kv_trim. pose proof (trim_at_ktake limit maxBytes l 0 0) as H.
  destruct (kv_trim_at l 0 0 limit maxBytes) as [t|]; [|auto].
  destruct H as [_ H]. rewrite N.sub_0_r in H. auto.
Qed.

Lemma ktake_prefix : forall limit maxBytes l1 l2 i b,
  is_prefix (ktake l1 i b limit maxBytes) (ktake (l1 ++ l2) i b limit maxBytes).
Proof.
  intros limit maxBytes; induction l1 as [|kv r IH]; intros l2 i b; cbn [ktake app].
  - eexists; reflexivity.
  - destruct ((maxBytes <? b + kv_size kv) && (0 <? i)); [eexists; reflexivity|].
    destruct (limit <=? i + 1); [eexists; reflexivity|].
    destruct (IH l2 (i + 1) (b + kv_size kv)) as [x Hx]. exists x. cbn. rewrite Hx. auto.
Qed.

Lemma ktake_is_prefix : forall limit maxBytes l i b, is_prefix (ktake l i b limit maxBytes) l.
Proof.
  intros limit maxBytes; induction l as [|kv r IH]; intros i b; cbn [ktake].
  - exists []; auto.
  - destruct ((maxBytes <? b + kv_size kv) && (0 <? i)); [eexists; reflexivity|].
    destruct (limit <=? i + 1); [exists r; reflexivity|].
    destruct (IH (i + 1) (b + kv_size kv)) as [x Hx]. exists x. cbn. rewrite <- Hx. auto.
Qed.

Lemma ktake_nonempty : forall limit maxBytes l b, l <> [] -> ktake l 0 b limit maxBytes <> [].
Proof.
  intros limit maxBytes [|kv r] b H; [contradiction|]. cbn [ktake].
  rewrite andb_false_r. destruct (limit <=? 0 + 1); discriminate.
Qed.
