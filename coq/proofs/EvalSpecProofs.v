(* C18 / C19 / C21: what the executable oracles of model/EvalCheck.v mean (soundness w.r.t.
   the Prop-level statements), the table form of block_conserves, and concrete instances
   (non-vacuity of the hypotheses; necessity of the "expired accounts participate" premise). *)
From Coq Require Import NArith ZArith List Bool Lia ZifyN ZifyBool String.
From Verif.lib Require Import Term.
From Verif.model Require Import Overflow EvalCow EvalApply EvalGroup EvalSpec EvalCheck.
From Verif.proofs Require Import EvalCowProofs EvalGroupProofs EvalConserveProofs EvalMinBalProofs.
Import ListNotations.
Open Scope N_scope.

(* ------------------------------------------------------------------ boolean equalities *)
Lemma status_eqb_eq a b : status_eqb a b = true -> a = b.
Proof. destruct a, b; cbn; congruence. Qed.

Lemma acct_eqb_eq x y : acct_eqb x y = true -> x = y.
Proof.
  unfold acct_eqb. intros H. repeat (apply andb_true_iff in H; destruct H as [H ?]).
  repeat match goal with
         | h : (_ =? _) = true |- _ => apply N.eqb_eq in h
         | h : status_eqb _ _ = true |- _ => apply status_eqb_eq in h
         | h : Bool.eqb _ _ = true |- _ => apply Bool.eqb_prop in h
         end.
  destruct x, y. cbn in *. subst. reflexivity.
Qed.

Lemma table_eqb_eq a b : table_eqb a b = true -> a = b.
Proof.
  revert b. induction a as [|[k x] r IH]; intros [|[k' x'] r']; cbn [table_eqb]; try discriminate; [reflexivity|].
  intros H. apply andb_true_iff in H. destruct H as [H H3]. apply andb_true_iff in H. destruct H as [H1 H2].
  apply N.eqb_eq in H1. apply acct_eqb_eq in H2. apply IH in H3. now subst.
Qed.

Lemma nlist_eqb_eq a b : nlist_eqb a b = true -> a = b.
Proof.
  revert b. induction a as [|x r IH]; intros [|y r']; cbn [nlist_eqb]; try discriminate; [reflexivity|].
  intros H. apply andb_true_iff in H. destruct H as [H1 H2]. apply N.eqb_eq in H1. apply IH in H2. now subst.
Qed.

Lemma pair_eqb_eq a b : pair_eqb a b = true -> a = b.
Proof.
  destruct a, b. unfold pair_eqb. cbn [fst snd]. intros H. apply andb_true_iff in H. destruct H as [H1 H2].
  apply N.eqb_eq in H1, H2. now subst.
Qed.

Lemma plist_eqb_eq a b : plist_eqb a b = true -> a = b.
Proof.
  revert b. induction a as [|x r IH]; intros [|y r']; cbn [plist_eqb]; try discriminate; [reflexivity|].
  intros H. apply andb_true_iff in H. destruct H as [H1 H2]. apply pair_eqb_eq in H1. apply IH in H2. now subst.
Qed.

Lemma llist_eqb_eq a b : llist_eqb a b = true -> a = b.
Proof.
  revert b. induction a as [|[k v] r IH]; intros [|[k' v'] r']; cbn [llist_eqb]; try discriminate; [reflexivity|].
  intros H. apply andb_true_iff in H. destruct H as [H H3]. apply andb_true_iff in H. destruct H as [H1 H2].
  apply pair_eqb_eq in H1. apply N.eqb_eq in H2. apply IH in H3. now subst.
Qed.

Lemma ap_eqb_eq x y : ap_eqb x y = true -> x = y.
Proof.
  unfold ap_eqb. intros H. repeat (apply andb_true_iff in H; destruct H as [H ?]).
  repeat match goal with
         | h : (_ =? _) = true |- _ => apply N.eqb_eq in h
         | h : Bool.eqb _ _ = true |- _ => apply Bool.eqb_prop in h
         end.
  destruct x, y. cbn in *. subst. reflexivity.
Qed.

Lemma h_eqb_eq x y : h_eqb x y = true -> x = y.
Proof.
  unfold h_eqb. intros H. apply andb_true_iff in H. destruct H as [H1 H2].
  apply N.eqb_eq in H1. apply Bool.eqb_prop in H2. destruct x, y. cbn in *. now subst.
Qed.

Lemma opt_eqb_eq {A} (eqb : A -> A -> bool) (Heq : forall x y, eqb x y = true -> x = y) x y :
  opt_eqb eqb x y = true -> x = y.
Proof. destruct x, y; cbn; try discriminate; auto. intros H. f_equal. now apply Heq. Qed.

Lemma aview_eqb_eq a b : aview_eqb a b = true -> a = b.
Proof.
  revert b. induction a as [|[k [p h]] r IH]; intros [|[k' [p' h']] r']; cbn [aview_eqb]; try discriminate; [reflexivity|].
  intros H. apply andb_true_iff in H. destruct H as [H H4]. apply andb_true_iff in H. destruct H as [H H3].
  apply andb_true_iff in H. destruct H as [H1 H2].
  apply pair_eqb_eq in H1. apply (opt_eqb_eq _ ap_eqb_eq) in H2. apply (opt_eqb_eq _ h_eqb_eq) in H3. apply IH in H4. now subst.
Qed.

Lemma rows_eqb_eq a b : rows_eqb a b = true -> a = b.
Proof.
  revert b. induction a as [|x r IH]; intros [|y r']; cbn [rows_eqb]; try discriminate; [reflexivity|].
  intros H. apply andb_true_iff in H. destruct H as [H1 H2]. apply nlist_eqb_eq in H1. apply IH in H2. now subst.
Qed.

Lemma snap_eqb_eq a b : snap_eqb a b = true -> s_txbytes a = s_txbytes b -> a = b.
Proof.
  unfold snap_eqb. intros H. repeat (apply andb_true_iff in H; destruct H as [H ?]).
  repeat match goal with
         | h : table_eqb _ _ = true |- _ => apply table_eqb_eq in h
         | h : nlist_eqb _ _ = true |- _ => apply nlist_eqb_eq in h
         | h : plist_eqb _ _ = true |- _ => apply plist_eqb_eq in h
         | h : llist_eqb _ _ = true |- _ => apply llist_eqb_eq in h
         | h : aview_eqb _ _ = true |- _ => apply aview_eqb_eq in h
         | h : rows_eqb _ _ = true |- _ => apply rows_eqb_eq in h
         | h : (_ =? _) = true |- _ => apply N.eqb_eq in h
         | h : Bool.eqb _ _ = true |- _ => apply Bool.eqb_prop in h
         end.
  intros Hb. destruct a, b. cbn in *. subst. reflexivity.
Qed.

(* ------------------------------------------------------------------ C18 oracle *)
(* spec_ok_c18 says: every observed table of the block has the same total as the previous
   round's table at the previous level *)
Lemma spec_ok_c18_sound k : spec_ok_c18 k = true ->
  let T := total (k_P k) (k_prevlvl k) (k_base k) in
  total (k_P k) (k_lvl k) (s_table (k_start k)) = T /\
  Forall (fun g => total (k_P k) (k_lvl k) (s_table (g_snap g)) = T) (k_groups k) /\
  (k_endcode k = 0 -> total (k_P k) (k_lvl k) (k_final k) = T).
Proof.
  unfold spec_ok_c18. cbn zeta. intros H.
  apply andb_true_iff in H. destruct H as [H H3]. apply andb_true_iff in H. destruct H as [H1 H2].
  apply N.eqb_eq in H1. split; [exact H1|]. split.
  - clear H1 H3. induction (k_groups k) as [|g r IH]; [constructor|].
    cbn [conserved_groups] in H2. apply andb_true_iff in H2. destruct H2 as [Hg Hr].
    constructor; [now apply N.eqb_eq | auto].
  - intros He. apply orb_true_iff in H3. destruct H3 as [H3|H3].
    + rewrite He in H3. discriminate.
    + now apply N.eqb_eq.
Qed.

(* block_conserves in the table form the oracle uses *)
Theorem block_conserves_tables E b prevlvl ru gs expired absent proposer payout U ev :
  e_validate E = true ->
  0 < p_unit (e_P E) -> e_lvl E < 2 ^ 64 -> prevlvl < 2 ^ 64 -> ru < 2 ^ 64 -> payout < 2 ^ 64 -> NoDup U ->
  In (e_pool E) U -> In (e_feesink E) U -> (proposer <> 0 -> In proposer U) ->
  (forall a, In a expired -> In a U) -> (forall a, In a absent -> In a U) ->
  groups_ok E U gs ->
  (forall a, a_algos (base_lookup b a) < 2 ^ 64 /\ a_rbase (base_lookup b a) <= prevlvl) ->
  ru = units_of (e_P E) U (base_cow b) ->
  (forall ev0 ev1, start_block E b prevlvl ru = Ok ev0 -> eval_groups E ev0 gs = Ok ev1 ->
                   forall a, In a expired -> a_status (lookup (ev_cow ev1) a) <> NotPart) ->
  eval_block E b prevlvl ru gs expired absent proposer payout = Ok ev ->
  total (e_P E) (e_lvl E) (map (fun a => (a, lookup (ev_cow ev) a)) U) =
  total (e_P E) prevlvl (map (fun a => (a, base_lookup b a)) U).
Proof.
  intros. rewrite !total_table.
  now destruct (block_conserves E b prevlvl ru gs expired absent proposer payout U ev).
Qed.

(* ------------------------------------------------------------------ C19 oracle *)
(* one observed TransactionGroup call:
   - on a corrupted evaluator: refused with ErrEvaluatorCorruptedState, nothing changed;
   - reported failed and not marked corrupted: the whole observable state is the one before;
   - accepted: not corrupted, and the counters and lists grew by exactly the group *)
Lemma group_step_ok_sound sink before g : group_step_ok sink before g = true ->
  (s_corrupt before = true -> g_code g = E_CORRUPT /\ g_snap g = before) /\
  (s_corrupt before = false -> g_code g <> 0 -> s_corrupt (g_snap g) = false -> g_snap g = before) /\
  (s_corrupt before = false -> g_code g = 0 ->
     s_corrupt (g_snap g) = false /\
     s_payset (g_snap g) = s_payset before + N.of_nat (List.length (g_txns g)) /\
     s_txncount before + N.of_nat (List.length (g_txns g)) <= s_txncount (g_snap g) /\
     s_txids (g_snap g) = s_txids before ++ map (fun tx => (t_txid tx, t_lv tx)) (g_txns g) /\
     s_fees before + fees_of sink (g_txns g) <= s_fees (g_snap g)).
Proof.
  unfold group_step_ok. destruct (s_corrupt before) eqn:Hcb.
  { intros H. apply andb_true_iff in H. destruct H as [H H3]. apply andb_true_iff in H. destruct H as [H1 H2].
    apply N.eqb_eq in H1, H3. split; [|split; intros; discriminate].
    intros _. split; [exact H1|]. now apply snap_eqb_eq. }
  destruct (g_code g =? 0) eqn:Hc; intros H.
  - apply N.eqb_eq in Hc. split; [intros; discriminate|]. split; [intros _ Hn; contradiction|]. intros _ _.
    repeat (apply andb_true_iff in H; destruct H as [H ?]).
    repeat match goal with
           | h : plist_eqb _ _ = true |- _ => apply plist_eqb_eq in h
           | h : (_ =? _) = true |- _ => apply N.eqb_eq in h
           | h : (_ <=? _) = true |- _ => apply N.leb_le in h
           | h : negb _ = true |- _ => apply negb_true_iff in h
           end.
    repeat split; auto; lia.
  - apply N.eqb_neq in Hc. split; [intros; discriminate|]. split; [|intros _ He; contradiction].
    intros _ _ Hca. rewrite Hca in H.
    apply andb_true_iff in H. destruct H as [H1 H2]. apply N.eqb_eq in H2. now apply snap_eqb_eq.
Qed.

Lemma last_default {A} (l : list A) d d' : l <> [] -> last l d = last l d'.
Proof.
  induction l as [|a r IH]; [contradiction|]. intros _. destruct r as [|b r]; [reflexivity|].
  change (last (b :: r) d = last (b :: r) d'). apply IH. discriminate.
Qed.

Lemma last_cons {A} (x : A) l d : last (x :: l) d = last l x.
Proof. destruct l as [|y r]; [reflexivity|]. change (last (y :: r) d = last (y :: r) x). apply last_default. discriminate. Qed.

(* spec_ok_c19 over a whole observed block: a group reported failed that did not mark the
   evaluator corrupted left everything as it was; from the first corrupted observation on every
   call is refused and changes nothing; and a corrupted evaluator yields no block *)
Lemma spec_ok_c19_sound k : spec_ok_c19 k = true ->
  (forall pre g post, k_groups k = pre ++ g :: post ->
     let before := last (map g_snap pre) (k_start k) in
     (s_corrupt before = true -> g_code g = E_CORRUPT /\ g_snap g = before) /\
     (s_corrupt before = false -> g_code g <> 0 -> s_corrupt (g_snap g) = false -> g_snap g = before)) /\
  (s_corrupt (last_snap k) = true -> k_endcode k = E_CORRUPT).
Proof.
  unfold spec_ok_c19. intros H. apply andb_true_iff in H. destruct H as [Hg He]. split.
  - revert Hg. generalize (k_start k) as s0. induction (k_groups k) as [|g0 r IH]; intros s0 H pre g post Heq.
    + destruct pre; discriminate.
    + cbn [groups_ok] in H. apply andb_true_iff in H. destruct H as [H1 H2].
      destruct pre as [|p pre'].
      * cbn in Heq. inversion Heq. subst. cbn [map last].
        destruct (group_step_ok_sound _ _ _ H1) as (A & B & _). split; assumption.
      * cbn in Heq. inversion Heq. subst.
        specialize (IH (g_snap p) H2 pre' g post eq_refl). cbn zeta in IH.
        cbn [map]. rewrite last_cons. exact IH.
  - intros Hc. rewrite Hc in He. cbn [negb orb] in He. now apply N.eqb_eq.
Qed.

(* ------------------------------------------------------------------ C21 oracle *)
Definition entry_ok (P : params) (lvl sink pool sps : N) (before : table) (e : N * acct) : Prop :=
  (match afind (fst e) before with Some y => y | None => acct0 end) = snd e \/
  fst e = sink \/ fst e = pool \/ fst e = sps \/ acct_is_zero (snd e) = true \/
  spec_min_balance P (snd e) <= bwp P lvl (snd e).

Lemma changed_ok_sound P lvl sink pool sps before after :
  changed_ok P lvl sink pool sps before after = true -> Forall (entry_ok P lvl sink pool sps before) after.
Proof.
  unfold changed_ok. intros H. apply Forall_forall. intros e He.
  rewrite forallb_forall in H. specialize (H e He). unfold entry_ok.
  repeat (apply orb_true_iff in H; destruct H as [H|H]).
  - left. now apply acct_eqb_eq.
  - right. left. now apply N.eqb_eq.
  - right. right. left. now apply N.eqb_eq.
  - right. right. right. left. now apply N.eqb_eq.
  - right. right. right. right. now left.
  - right. right. right. right. right. now apply N.leb_le.
Qed.

(* ------------------------------------------------------------------ instances *)
(* a small world: 1 fee sink, 2 rewards pool (both not participating), 3 offline, 4 online,
   5 empty; the level rises from 0 to 4 *)
Definition ex_P : params :=
  mkParams 1000000 100000 1000 true 16 true true 2000000 true true true 0 0 100000 100000 2500 400 25000 3500 25000 320 32 true
           0 0 64 32768 true.
Definition ex_E (validate generate : bool) : env := mkEnv ex_P 7 4 1 2 99 validate generate.
Definition ex_acct (st : status) (algos : N) : acct := set_algos (set_status acct0 st) algos.
Definition ex_base : base :=
  mkBase [(1, ex_acct NotPart 10000000); (2, ex_acct NotPart 1000000000); (3, ex_acct Offline 5500000);
          (4, set_part (ex_acct Online 20000000) Online true 0 7 8 9 1 3000 100)] [] 1000 [] [] [] [].
Definition ex_U : list N := [1; 2; 3; 4; 5].
Definition ex_tx (txid sender fee : N) (b : body) : txn := mkTxn sender fee 5 20 0 true true sender 0 txid 1000000 0 b.
Definition ex_groups : list (list txn * N) :=
  [([ex_tx 1 3 1000 (BPay 5 1000000 0)], 0); ([ex_tx 2 3 1000 (BPay 4 0 4)], 0)].

Example block_conserves_instance :
  exists ev, eval_block (ex_E true false) ex_base 0 25 ex_groups [] [] 4 700 = Ok ev /\
    tot_at ex_P 4 ex_U (ev_cow ev) = 1035500000 /\ tot_at ex_P 0 ex_U (base_cow ex_base) = 1035500000 /\
    a_algos (lookup (ev_cow ev) 3) = 0 /\ a_algos (lookup (ev_cow ev) 4) = 24498800.
Proof. eexists. split; [vm_compute; reflexivity|]. vm_compute. repeat split. Qed.

(* the hypotheses of block_conserves hold for it *)
Example block_conserves_hypotheses :
  NoDup ex_U /\ groups_ok (ex_E true false) ex_U ex_groups /\
  25 = units_of ex_P ex_U (base_cow ex_base) /\
  (forall a, a_algos (base_lookup ex_base a) < 2 ^ 64 /\ a_rbase (base_lookup ex_base a) <= 0).
Proof.
  split; [repeat constructor; cbn; intuition discriminate|].
  split.
  { unfold groups_ok, ex_groups.
    repeat (first [apply Forall_cons | apply Forall_nil]); unfold tx_ok, pay_addrs; cbn;
      repeat split; try lia; intros; auto 10. }
  split; [vm_compute; reflexivity|].
  intros a. unfold base_lookup, ex_base. cbn [b_accts afind].
  destruct (1 =? a); [vm_compute; split; [reflexivity|discriminate]|].
  destruct (2 =? a); [vm_compute; split; [reflexivity|discriminate]|].
  destruct (3 =? a); [vm_compute; split; [reflexivity|discriminate]|].
  destruct (4 =? a); [vm_compute; split; [reflexivity|discriminate]|].
  vm_compute; split; [reflexivity|discriminate].
Qed.

(* a group whose second member overspends after the first one has already paid: rejected,
   and the evaluator is exactly as before (the hypotheses of group_atomic are met with a
   child that had been written to) *)
Definition ex_ev0 : evalst :=
  match start_block (ex_E true true) ex_base 0 25 with Ok ev => ev | Err _ => mkEval (base_cow ex_base) [] false end.
Definition ex_bad_group : list txn :=
  [mkTxn 3 1000 5 20 0 true true 3 1 11 1000000 0 (BPay 5 1000000 0);
   mkTxn 4 1000 5 20 0 true true 4 1 12 1000000 0 (BPay 3 999999999999 0)].

Example group_atomic_instance :
  transaction_group (ex_E true true) ex_ev0 ex_bad_group 0 = (ex_ev0, Err E_OVERSPEND) /\
  l_accts (c_top (fst (group_body (ex_E true true) ex_bad_group 0 (child (ev_cow ex_ev0))))) <> [].
Proof. split; [vm_compute; reflexivity | vm_compute; discriminate]. Qed.

(* why block_conserves needs its premise about the expired list: ClearOnlineState on a
   NotParticipating account (one that kept a vote key) switches it to Offline and thereby
   activates rewards that were never taken out of the pool.  The faithful model of
   resetExpiredOnlineAccountsParticipationKeys does just that; in the Go code only the
   final CalculateTotals check ("sum of money changed") rejects such a block. *)
Definition ex_np_cow : cow :=
  mkCow layer0 [] (mkBase [(1, ex_acct NotPart 10000000); (2, ex_acct NotPart 1000000000);
                           (6, set_part (ex_acct NotPart 50000000) NotPart false 0 9 0 0 0 3 0)] [] 0 [] [] [] []).

Theorem expire_nonparticipating_refuted :
  exists c', end_block (ex_E true false) [6] [] 0 0 ex_np_cow = (c', Ok tt) /\
    tot_at ex_P 4 [1; 2; 6] c' = tot_at ex_P 4 [1; 2; 6] ex_np_cow + 200.
Proof. eexists. split; [vm_compute; reflexivity | vm_compute; reflexivity]. Qed.

(* minimum balance: the instance meets the hypotheses of minbal_after_group, and an account
   left below its requirement is rejected *)
Example minbal_instance :
  snd (transaction_group (ex_E true true) ex_ev0
         [mkTxn 3 1000 5 20 0 true true 3 0 21 1000000 0 (BPay 5 5399021 0)] 0) = Err E_MINBAL /\
  snd (transaction_group (ex_E true true) ex_ev0
         [mkTxn 3 1000 5 20 0 true true 3 0 21 1000000 0 (BPay 5 5399020 0)] 0) = Ok tt.
Proof. vm_compute. repeat split. Qed.
