(* Agreement proofs -- C03: every emitted ensureAction carries a valid cert bundle for its payload.
   Invariant [RInv] over the whole step function (player.handle and everything it dispatches to),
   then induction over event sequences. *)
From Coq Require Import NArith List Bool Lia ZifyN ZifyNat ZifyBool String.
Import ListNotations.
From Verif.model Require Import AgreementTypes AgreementVotes AgreementProposals AgreementPlayer.
From Verif.proofs Require Import AgreementLemmas AgreementVoteProofs AgreementTreeProofs.
Open Scope N_scope.

Ltac wp_go := first [apply wp_panic | apply wp_bind].
Ltac split_ifs := repeat match goal with |- context [if ?b then _ else _] => destruct b; simpl end.

(* ---------- reading the staging value ---------- *)
Definition staged_in (rn : roundNode) (p : N) (v : value) : Prop :=
  exists pn, aget N.eqb p (rn_periods rn) = Some pn /\ pt_staging (pn_pt pn) = v.

Lemma rn_update_aget : forall pl p rn pn,
  aget N.eqb p (rn_periods rn) = Some pn ->
  aget N.eqb p (rn_periods (rn_update pl p rn)) = Some pn \/ aget N.eqb p (rn_periods (rn_update pl p rn)) = None.
Proof.
  intros pl p rn pn H. unfold rn_update; simpl. unfold ahas; rewrite H.
  destruct ((p_per pl <=? add1 p) || (p <=? 1)) eqn:G.
  - left. rewrite (aget_filter_key N.eqb N.eqb_eq (fun k => (p_per pl <=? add1 k) || (k <=? 1))); auto.
  - right. destruct (aget N.eqb p (filter _ (rn_periods rn))) eqn:E; auto.
    apply (aget_In N.eqb N.eqb_eq) in E. apply filter_In in E. destruct E as [_ E]; simpl in E. congruence.
Qed.

Lemma rn_read_staging_spec : forall pm D r pl p rn,
  RNInv pm D r rn ->
  wp (rn_read_staging pl p rn)
     (fun '(rn', (sv, c)) => RNInv pm D r rn' /\ rn_store rn' = rn_store rn /\ rn_fresh rn' = rn_fresh rn /\
                             (c = true -> v_rnd sv = r) /\ (forall v, staged_in rn p v -> sv = v)).
Proof.
  intros pm D r pl p rn I. unfold rn_read_staging.
  apply wp_bind.
  (* direct proof (not through with_period_spec) to relate the result to the node found *)
  unfold with_period.
  pose proof (rn_update_inv pm D r pl p rn I) as I1.
  destruct (aget N.eqb p (rn_periods (rn_update pl p rn))) as [pn|] eqn:G; [|apply wp_panic].
  simpl. split; [|split; [|split; [|split]]]; auto.
  - destruct I1 as [A1 B1 C1]; constructor; simpl; auto.
    intros p' pn'' H. apply aset_In in H. destruct H as [[? ?]|H]; subst; auto.
    apply pn_update_inv. apply B1. apply (aget_In N.eqb N.eqb_eq); auto.
  - intro E. eapply ps_asm_get_inv; eauto. apply (rni_s _ _ _ _ I).
  - intros v (pn0 & A0 & S0). destruct (rn_update_aget pl p rn pn0 A0) as [E|E]; rewrite E in G; inversion G; subst.
    rewrite (proj1 (pn_update_pt 0 pn)). reflexivity.
Qed.

Lemma rn_staged_value_spec : forall pm D r pl p rn,
  RNInv pm D r rn ->
  wp (rn_staged_value pl p rn)
     (fun '(rn', (sv, c)) => RNInv pm D r rn' /\ rn_store rn' = rn_store rn /\ rn_fresh rn' = rn_fresh rn /\
                             (c = true -> v_rnd sv = r)).
Proof.
  intros pm D r pl p rn I. unfold rn_staged_value.
  eapply wp_mono; [apply (rn_read_staging_spec pm D r); apply rn_update_inv; auto|].
  intros [rn' [sv c]] (A & B & C & E & _); auto.
Qed.

(* ---------- proposalStore operations keep the round-node invariant ---------- *)
Lemma rn_store_vote_spec : forall pm D r pl rn v,
  RNInv pm D r rn -> wp (rn_store_vote pl rn v) (fun '(rn', _) => RNInv pm D r rn').
Proof.
  intros pm D r pl rn v I. unfold rn_store_vote. apply wp_bind.
  eapply wp_mono.
  - apply (with_period_spec _ pm D r pl (vt_per v) 0 rn _ (fun _ _ => True)); auto.
    intros pn P. eapply wp_mono; [apply (pn_pt_op_spec _ D r (vt_per v) pn _ (fun _ _ => True)); auto|].
    + destruct (pt_checked_vote (pn_pt pn) v) as [[? ?]| |]; simpl; auto.
    + intros [pn' a] [H _]; auto.
  - intros [rn1 ev] (I1 & S1 & F1 & _). destruct ev; simpl; auto.
    apply RNInv_set_store; auto. apply ps_trim_inv. apply SInv_relevant with (st := ps_set_asm prop _ (rn_store rn1)).
    apply ps_set_asm_inv; [apply (rni_s _ _ _ _ I1)|]. simpl. intro E.
    eapply ps_asm_get_inv; [apply (rni_s _ _ _ _ I1)|eauto].
Qed.

Lemma rn_store_payload_present_spec : forall pm D r pl rn pv,
  RNInv pm D r rn -> RNInv pm D r (fst (rn_store_payload_present pl rn pv)).
Proof.
  intros pm D r pl rn pv I. unfold rn_store_payload_present.
  destruct (aget value_eqb pv (ps_asm (rn_store rn))) as [ea|] eqn:G; simpl; auto.
  destruct (as_assembled ea) eqn:EA; simpl; auto. destruct (as_filled ea); simpl; auto.
  destruct (ps_last_relevant _ pv); simpl.
  apply RNInv_set_store; auto. apply ps_set_asm_inv; [apply (rni_s _ _ _ _ I)|]. simpl; congruence.
Qed.

Lemma rn_store_payload_verified_spec : forall pm D r pl rn pv,
  RNInv pm D r rn -> v_rnd pv = r -> wp (rn_store_payload_verified pl rn pv) (fun '(rn', _) => RNInv pm D r rn').
Proof.
  intros pm D r pl rn pv I PR. unfold rn_store_payload_verified.
  destruct (aget value_eqb pv (ps_asm (rn_store rn))) as [ea|] eqn:G; simpl; auto.
  destruct (as_assembled ea) eqn:EA; simpl; auto.
  apply wp_bind. eapply wp_mono.
  - apply (rn_staged_value_spec pm D r). apply RNInv_set_store; auto.
    apply ps_set_asm_inv; [apply (rni_s _ _ _ _ I)|auto].
  - intros [rn2 [sv c]] (A & _). destruct (value_eqb sv pv); simpl; auto.
Qed.

Lemma rn_store_new_period_spec : forall pm D r pl rn target starting,
  RNInv pm D r rn -> wp (rn_store_new_period pl rn target starting) (fun rn' => RNInv pm D r rn').
Proof.
  intros pm D r pl rn target starting I. unfold rn_store_new_period.
  apply wp_bind. eapply wp_mono; [apply (rn_staged_value_spec pm D r); auto|].
  intros [rn1 [staged c]] (A & _); simpl.
  apply RNInv_set_store; auto. apply ps_trim_inv. apply SInv_relevant. apply (rni_s _ _ _ _ A).
Qed.

Lemma pt_checked_threshold_staging : forall t th,
  wp (pt_checked_threshold t th) (fun '(t', v) => pt_staging t' = th_val th /\ v = th_val th).
Proof.
  intros t th. unfold pt_checked_threshold. destruct (th_t th); simpl; auto.
  destruct (pc_soft t); simpl; auto. destruct (is_bottom (th_val th)); simpl; auto.
Qed.

Lemma rn_store_threshold_spec : forall pm D r pl rn th,
  RNInv pm D r rn ->
  wp (rn_store_threshold pl rn th)
     (fun '(rn', _) => RNInv pm D r rn' /\ rn_fresh rn' = rn_fresh rn /\ staged_in rn' (th_per th) (th_val th)).
Proof.
  intros pm D r pl rn th I. unfold rn_store_threshold. apply wp_bind.
  eapply wp_mono.
  - apply (with_period_spec _ pm D r pl (th_per th) 0 rn _
             (fun pn' v => pt_staging (pn_pt pn') = th_val th /\ v = th_val th)); auto.
    intros pn P. eapply wp_mono; [apply (pn_pt_op_spec _ D r (th_per th) pn _ (fun t' v => pt_staging t' = th_val th /\ v = th_val th)); auto|].
    + apply pt_checked_threshold_staging.
    + intros [pn' a] H; exact H.
  - intros [rn1 prop] (I1 & S1 & F1 & pn' & G & ST & EP). subst prop.
    assert (SI : staged_in rn1 (th_per th) (th_val th)) by (exists pn'; auto).
    destruct (as_assembled (ps_asm_get (rn_store rn1) (th_val th))) eqn:EA; simpl.
    + split; [|split]; auto.
    + split; [|split]; auto.
      apply RNInv_set_store; auto. apply ps_trim_inv.
      apply SInv_relevant with (st := ps_set_asm (th_val th) _ (rn_store rn1)).
      apply ps_set_asm_inv; [apply (rni_s _ _ _ _ I1)|congruence].
Qed.

Lemma rn_store_read_lowest_spec : forall pm D r pl rn per,
  RNInv pm D r rn -> wp (rn_store_read_lowest pl rn per) (fun rn' => RNInv pm D r rn').
Proof.
  intros pm D r pl rn per I. unfold rn_store_read_lowest. apply wp_bind.
  eapply wp_mono.
  - apply (with_period_spec _ pm D r pl per 0 rn _ (fun _ _ => True)); auto. intros pn P; simpl; auto.
  - intros [rn1 u] (I1 & _); simpl; auto.
Qed.

(* ---------- computing through the garbage collection ---------- *)
Lemma aget_filter_key_false : forall (V : Type) (g : N -> bool) k (l : list (N * V)),
  g k = false -> aget N.eqb k (filter (fun kv => g (fst kv)) l) = None.
Proof.
  intros V g k l G. destruct (aget N.eqb k (filter (fun kv => g (fst kv)) l)) eqn:E; auto.
  apply (aget_In N.eqb N.eqb_eq) in E. apply filter_In in E. destruct E as [_ E]; simpl in E. congruence.
Qed.

Definition keep_period (pl : player) (p : N) : bool := (p_per pl <=? add1 p) || (p <=? 1).
Definition keep_round (pm : params) (pl : player) (r : N) : bool := p_rnd pl <=? w64 (r + pm_crlag pm).

Lemma rn_update_get : forall pl p rn,
  aget N.eqb p (rn_periods (rn_update pl p rn)) =
  if keep_period pl p then Some (match aget N.eqb p (rn_periods rn) with Some pn => pn | None => pn_zero end) else None.
Proof.
  intros pl p rn. unfold rn_update, keep_period; simpl. unfold ahas.
  destruct (aget N.eqb p (rn_periods rn)) as [pn|] eqn:A.
  - destruct ((p_per pl <=? add1 p) || (p <=? 1)) eqn:G.
    + rewrite (aget_filter_key N.eqb N.eqb_eq (fun k => (p_per pl <=? add1 k) || (k <=? 1))); auto.
    + apply (aget_filter_key_false _ (fun k => (p_per pl <=? add1 k) || (k <=? 1))); auto.
  - destruct ((p_per pl <=? add1 p) || (p <=? 1)) eqn:G.
    + rewrite (aget_filter_key N.eqb N.eqb_eq (fun k => (p_per pl <=? add1 k) || (k <=? 1))); auto.
      apply (aget_aset_same N.eqb N.eqb_eq).
    + apply (aget_filter_key_false _ (fun k => (p_per pl <=? add1 k) || (k <=? 1))); auto.
Qed.

Lemma root_update_get : forall pm pl r rt,
  aget N.eqb r (root_update pm pl r rt) =
  if keep_round pm pl r then Some (match aget N.eqb r rt with Some rn => rn | None => rn_zero end) else None.
Proof.
  intros pm pl r rt. unfold root_update, keep_round. unfold ahas.
  destruct (aget N.eqb r rt) as [rn|] eqn:A.
  - destruct (p_rnd pl <=? w64 (r + pm_crlag pm)) eqn:G.
    + rewrite (aget_filter_key N.eqb N.eqb_eq (fun k => p_rnd pl <=? w64 (k + pm_crlag pm))); auto.
    + apply (aget_filter_key_false _ (fun k => p_rnd pl <=? w64 (k + pm_crlag pm))); auto.
  - destruct (p_rnd pl <=? w64 (r + pm_crlag pm)) eqn:G.
    + rewrite (aget_filter_key N.eqb N.eqb_eq (fun k => p_rnd pl <=? w64 (k + pm_crlag pm))); auto.
      apply (aget_aset_same N.eqb N.eqb_eq).
    + apply (aget_filter_key_false _ (fun k => p_rnd pl <=? w64 (k + pm_crlag pm))); auto.
Qed.

Lemma wp_and : forall A (x : res A) (P Q : A -> Prop), wp x P -> wp x Q -> wp x (fun a => P a /\ Q a).
Proof. intros A [a| |] P Q H1 H2; simpl in *; auto. Qed.

Definition staged_at (rt : router) (r p : N) (v : value) : Prop :=
  exists rn, aget N.eqb r rt = Some rn /\ staged_in rn p v.

Lemma d_staged_value : forall pm pl rt r p v,
  staged_at rt r p v -> wp (d_staged pm pl rt r p) (fun '(_, (sv, _)) => sv = v).
Proof.
  intros pm pl rt r p v (rn0 & A0 & pn0 & A1 & S1). unfold d_staged, with_round.
  rewrite root_update_get, A0. destruct (keep_round pm pl r); [|apply wp_panic].
  apply wp_bind. unfold rn_read_staging. apply wp_bind. unfold with_period.
  rewrite rn_update_get. rewrite rn_update_get, A1.
  destruct (keep_period pl p); [|apply wp_panic]. simpl.
  rewrite (proj1 (pn_update_pt 0 pn0)). auto.
Qed.

(* ---------- typed dispatches keep [RInv] ---------- *)
Lemma d_staged_spec : forall pm D pl rt r p,
  RInv pm D rt ->
  wp (d_staged pm pl rt r p) (fun '(rt', (sv, c)) => RInv pm D rt' /\ (c = true -> v_rnd sv = r)).
Proof.
  intros pm D pl rt r p I. unfold d_staged.
  eapply wp_mono.
  - apply (with_round_spec _ pm D pl r p rt _ (fun _ '(sv, c) => c = true -> v_rnd sv = r)); auto.
    intros rn IR. eapply wp_mono; [apply (rn_read_staging_spec pm D r); auto|].
    intros [rn' [sv c]] (A & _ & _ & B & _); auto.
  - intros [rt' [sv c]] (A & rn' & _ & B); auto.
Qed.

Lemma d_pinned_spec : forall pm D pl rt r,
  RInv pm D rt ->
  wp (d_pinned pm pl rt r) (fun '(rt', (pv, ok)) => RInv pm D rt').
Proof.
  intros pm D pl rt r I. unfold d_pinned. eapply wp_mono.
  - apply (with_round_spec _ pm D pl r 0 rt _ (fun _ _ => True)); auto. intros rn IR; simpl; auto.
  - intros [rt' [pv ok]] (A & _); auto.
Qed.

Lemma d_next_status_spec : forall pm D pl rt r p,
  RInv pm D rt -> wp (d_next_status pm pl rt r p) (fun '(rt', _) => RInv pm D rt').
Proof.
  intros pm D pl rt r p I. unfold d_next_status. eapply wp_mono.
  - apply (with_round_spec _ pm D pl r p rt _ (fun _ _ => True)); auto. intros rn IR.
    eapply wp_mono; [apply (with_period_spec _ pm D r pl p 0 rn _ (fun _ _ => True)); auto|].
    + intros pn P; simpl; auto.
    + intros [rn' a] (A & _); auto.
  - intros [rt' a] (A & _); auto.
Qed.

Lemma d_freshest_spec : forall pm D pl rt r,
  RInv pm D rt -> wp (d_freshest pm pl rt r) (fun '(rt', fr) => RInv pm D rt' /\ thr_post pm D r fr).
Proof.
  intros pm D pl rt r I. unfold d_freshest. eapply wp_mono.
  - apply (with_round_spec _ pm D pl r 0 rt _ (fun _ fr => thr_post pm D r fr)); auto.
    intros rn IR; simpl. split; auto. apply (rni_f _ _ _ _ IR).
  - intros [rt' fr] (A & rn' & _ & B); auto.
Qed.

Lemma d_dump_spec : forall pm D pl rt r p s,
  RInv pm D rt -> wp (d_dump pm pl rt r p s) (fun '(rt', _) => RInv pm D rt').
Proof.
  intros pm D pl rt r p s I. unfold d_dump. eapply wp_mono.
  - apply (with_round_spec _ pm D pl r p rt _ (fun _ _ => True)); auto. intros rn IR.
    eapply wp_mono; [apply (with_period_spec _ pm D r pl p s rn _ (fun _ _ => True)); auto|].
    + intros pn P; simpl; auto.
    + intros [rn' a] (A & _); auto.
  - intros [rt' a] (A & _); auto.
Qed.

Lemma pn_pt_op_inv : forall A D r p pn (f : ptracker -> res (ptracker * A)),
  PNInv D r p pn -> wp (pn_pt_op f pn) (fun '(pn', _) => PNInv D r p pn' /\ True).
Proof.
  intros A D r p pn f P. unfold pn_pt_op. apply wp_bind.
  destruct (f (pn_pt pn)) as [[t a]| |]; simpl; auto.
Qed.

Lemma d_freeze_spec : forall pm D pl rt r p,
  RInv pm D rt -> wp (d_freeze pm pl rt r p) (fun '(rt', _) => RInv pm D rt').
Proof.
  intros pm D pl rt r p I. unfold d_freeze. eapply wp_mono.
  - apply (with_round_spec _ pm D pl r p rt _ (fun _ _ => True)); auto. intros rn IR.
    eapply wp_mono; [apply (with_period_spec _ pm D r pl p 0 rn _ (fun _ _ => True)); auto|].
    + intros pn P. apply pn_pt_op_inv; auto.
    + intros [rn' a] (A & _); auto.
  - intros [rt' a] (A & _); auto.
Qed.

Lemma d_read_lowest_spec : forall pm D pl rt r,
  RInv pm D rt -> wp (d_read_lowest pm pl rt r) (fun rt' => RInv pm D rt').
Proof.
  intros pm D pl rt r I. unfold d_read_lowest. apply wp_bind. eapply wp_mono.
  - apply (with_round_spec _ pm D pl r 0 rt _ (fun _ _ => True)); auto. intros rn IR.
    apply wp_bind. eapply wp_mono; [apply (rn_store_read_lowest_spec pm D r); auto|].
    intros rn' A; simpl; auto.
  - intros [rt' a] (A & _); simpl; auto.
Qed.

(* ---------- voteAggregator ---------- *)
Lemma va_filter_vote_spec : forall pm D pl rt x,
  RInv pm D rt -> wp (va_filter_vote pm pl rt x) (fun '(rt', _) => RInv pm D rt').
Proof.
  intros pm D pl rt x I. unfold va_filter_vote.
  destruct (negb (vote_fresh (fresh_of pl) x)); simpl; auto.
  apply wp_bind. eapply wp_mono.
  - apply (with_round_spec _ pm D pl (vt_rnd x) (vt_per x) rt _ (fun _ _ => True)); auto. intros rn IR.
    eapply wp_mono; [apply (with_period_spec _ pm D (vt_rnd x) pl (vt_per x) (vt_step x) rn _ (fun _ _ => True)); auto|].
    + intros pn P; simpl; auto.
    + intros [rn' a] (A & _); auto.
  - intros [rt' a] (A & _); simpl; auto.
Qed.

Lemma va_deliver_spec : forall pm D pl rt x,
  RInv pm D rt -> In x D ->
  wp (va_deliver pm pl rt x) (fun '(rt', oth) => RInv pm D rt' /\ thr_post pm D (vt_rnd x) oth).
Proof.
  intros pm D pl rt x I XD. unfold va_deliver. eapply wp_mono.
  - apply (with_round_spec _ pm D pl (vt_rnd x) (vt_per x) rt _ (fun _ oth => thr_post pm D (vt_rnd x) oth)); auto.
    intros rn IR. eapply wp_mono; [apply (rn_vote_accepted_spec pm D (vt_rnd x)); auto|].
    intros [rn' oth] (A & _ & B); auto.
  - intros [rt' oth] (A & rn' & _ & B); auto.
Qed.

Definition gthr (pm : params) (D : list vote) (o : option thresh) : Prop :=
  forall th, o = Some th -> good_thresh pm D th.

Lemma va_deliver_all_spec : forall pm D pl vs rt acc,
  RInv pm D rt -> (forall x, In x vs -> In x D) -> gthr pm D acc ->
  wp (va_deliver_all pm pl rt vs acc) (fun '(rt', oth) => RInv pm D rt' /\ gthr pm D oth).
Proof.
  induction vs as [|x vs IH]; intros rt acc I S G; simpl; auto.
  apply wp_bind. eapply wp_mono; [apply va_deliver_spec; [exact I | apply S; left; auto]|].
  intros [rt1 oth] (A & B). apply IH; auto.
  - intros y Hy; apply S; right; auto.
  - destruct oth as [th|]; auto. intros th' E; inversion E; subst. apply (B th'); auto.
Qed.

Inductive va_good (pm : params) (D : list vote) : vares -> Prop :=
| vg_none : va_good pm D VANone
| vg_filtered : va_good pm D VAFiltered
| vg_malformed : va_good pm D VAMalformed
| vg_thr : forall th, good_thresh pm D th -> va_good pm D (VAThreshold th).

(* votes that an event delivers as verified *)
Definition delivered_by (m : mevent) : list vote :=
  if me_verified m && negb (mm_err (me_meta m)) && negb (mm_cancelled (me_meta m)) then
    match me_in m with
    | InVote x => [x]
    | InBundle b => ub_votes b ++ flat_map (fun e => [eqv_first e; eqv_second e]) (ub_eqs b)
    | InPayload _ => []
    end
  else [].

Lemma va_handle_spec : forall pm D pl rt m,
  RInv pm D rt -> (forall x, In x (delivered_by m) -> In x D) ->
  wp (va_handle pm pl rt m) (fun '(rt', out) => RInv pm D rt' /\ va_good pm D out).
Proof.
  intros pm D pl rt m I S. unfold va_handle.
  pose proof (root_update_inv pm D pl 0 rt I) as I0.
  unfold delivered_by in S.
  destruct (me_in m) as [x|b|pv] eqn:EI; destruct (me_verified m) eqn:EV; simpl in S.
  - destruct (mm_cancelled (me_meta m)) eqn:EC; [simpl; split; auto; constructor|].
    destruct (mm_proto_err (me_meta m)); [simpl; split; auto; constructor|].
    destruct (mm_err (me_meta m)) eqn:EE; [simpl; split; auto; constructor|]. simpl in S.
    apply wp_bind. eapply wp_mono; [apply va_filter_vote_spec; eauto|].
    intros [rt1 ok] A. destruct ok; simpl; [|split; auto; constructor].
    apply wp_bind. eapply wp_mono; [apply va_deliver_spec; [exact A | apply S; left; auto]|].
    intros [rt2 oth] (A2 & B2). destruct oth as [th|]; simpl; [|split; auto; constructor].
    destruct (th_rnd th =? p_rnd pl); simpl; [split; auto; constructor; apply (B2 th); auto|].
    destruct (th_rnd th =? add1 (p_rnd pl)); simpl; [split; auto; constructor|auto].
  - destruct (mm_proto_err (me_meta m)); [simpl; split; auto; constructor|].
    apply wp_bind. eapply wp_mono; [apply va_filter_vote_spec; eauto|].
    intros [rt1 ok] A. simpl. split; auto. destruct ok; constructor.
  - destruct (mm_cancelled (me_meta m)) eqn:EC; [simpl; split; auto; constructor|].
    destruct (mm_proto_err (me_meta m)); [simpl; split; auto; constructor|].
    destruct (mm_err (me_meta m)) eqn:EE; [simpl; split; auto; constructor|]. simpl in S.
    destruct (negb (bundle_fresh (fresh_of pl) b)); [simpl; split; auto; constructor|].
    apply wp_bind. eapply wp_mono; [apply va_deliver_all_spec; [exact I0 | exact S | intros th E; discriminate]|].
    intros [rt1 oth] (A & B). destruct oth as [th|]; simpl; split; auto; constructor. apply B; auto.
  - simpl. split; auto. destruct (bundle_fresh (fresh_of pl) b); constructor.
  - apply wp_panic.
  - apply wp_panic.
Qed.

(* ---------- proposalManager ---------- *)
Lemma pm_check_dup_spec : forall pm D pl rt x,
  RInv pm D rt -> wp (pm_check_dup pm pl rt x) (fun '(rt', _) => RInv pm D rt').
Proof.
  intros pm D pl rt x I. unfold pm_check_dup. eapply wp_mono.
  - apply (with_round_spec _ pm D pl (vt_rnd x) (vt_per x) rt _ (fun _ _ => True)); auto. intros rn IR.
    eapply wp_mono; [apply (with_period_spec _ pm D (vt_rnd x) pl (vt_per x) 0 rn _ (fun _ _ => True)); auto|].
    + intros pn P; simpl; auto.
    + intros [rn' a] (A & _); auto.
  - intros [rt' a] (A & _); auto.
Qed.

Lemma pm_filter_vote_spec : forall pm D pl rt x,
  RInv pm D rt -> wp (pm_filter_vote pm pl rt x) (fun '(rt', _) => RInv pm D rt').
Proof.
  intros pm D pl rt x I. unfold pm_filter_vote.
  destruct (negb (proposal_fresh (fresh_of pl) x)).
  - destruct (useful_for_cred_history pm (p_rnd pl) x); simpl; auto.
    apply wp_bind. eapply wp_mono; [apply pm_check_dup_spec; eauto|]. intros [rt1 d] A; simpl; auto.
  - apply wp_bind. eapply wp_mono; [apply pm_check_dup_spec; eauto|]. intros [rt1 d] A; simpl; auto.
Qed.

Lemma pm_new_period_spec : forall pm D pl rt th,
  RInv pm D rt -> wp (pm_new_period pm pl rt th) (fun rt' => RInv pm D rt').
Proof.
  intros pm D pl rt th I. unfold pm_new_period. apply wp_bind. eapply wp_mono.
  - apply (with_round_spec _ pm D pl (th_rnd th) 0 rt _ (fun _ _ => True)); auto. intros rn IR.
    apply wp_bind. eapply wp_mono; [apply (rn_store_new_period_spec pm D (th_rnd th)); auto|].
    intros rn' A; simpl; auto.
  - intros [rt' a] (A & _); simpl; auto.
Qed.

Lemma pm_threshold_spec : forall pm D pl rt r0 th,
  RInv pm D rt ->
  wp (pm_threshold pm pl rt r0 th)
     (fun '(rt', _) => RInv pm D rt' /\
        (match th_t th with TNext => True | _ => staged_at rt' (th_rnd th) (th_per th) (th_val th) end)).
Proof.
  intros pm D pl rt r0 th I. unfold pm_threshold.
  pose proof (root_update_inv pm D pl r0 rt I) as I0.
  apply wp_bind. destruct (pm_pre_threshold pl th); simpl; auto.
  assert (SC : forall rt1, RInv pm D rt1 ->
            wp (do r <- with_round pm pl (th_rnd th) (th_per th) rt1 (fun rn => rn_store_threshold pl rn th);
                (let '(rt2, out) := r in Ok (rt2, Some out)))
               (fun '(rt', _) => RInv pm D rt' /\ staged_at rt' (th_rnd th) (th_per th) (th_val th))).
  { intros rt1 I1. apply wp_bind. eapply wp_mono.
    - apply (with_round_spec _ pm D pl (th_rnd th) (th_per th) rt1 _
               (fun rn' _ => staged_in rn' (th_per th) (th_val th))); auto.
      intros rn IR. eapply wp_mono; [apply (rn_store_threshold_spec pm D (th_rnd th)); auto|].
      intros [rn' out] (A & _ & B); auto.
    - intros [rt2 out] (A & rn' & G & B); simpl. split; auto. exists rn'; auto. }
  destruct (th_t th) eqn:ET.
  - apply wp_bind. destruct (p_per pl <? th_per th).
    + eapply wp_mono; [apply pm_new_period_spec; exact I0|]. intros rt1 A. apply SC; exact A.
    + simpl. apply SC; exact I0.
  - apply wp_bind. destruct (p_per pl <? th_per th).
    + eapply wp_mono; [apply pm_new_period_spec; exact I0|]. intros rt1 A. apply SC; exact A.
    + simpl. apply SC; exact I0.
  - apply wp_bind. eapply wp_mono; [apply pm_new_period_spec; exact I0|]. intros rt1 A; simpl; auto.
Qed.

Lemma pm_new_round_spec : forall pm D pl rt target,
  RInv pm D rt -> wp (pm_new_round pm pl rt target) (fun '(rt', _) => RInv pm D rt').
Proof.
  intros pm D pl rt target I. unfold pm_new_round.
  pose proof (root_update_inv pm D pl target rt I) as I0.
  eapply wp_mono.
  - apply (with_round_spec _ pm D pl target 0 _ _ (fun _ _ => True)); eauto. intros rn IR.
    apply wp_bind. destruct (rn_store_new_round pl rn); simpl; auto.
  - intros [rt' a] (A & _); auto.
Qed.

Lemma pm_vote_spec : forall pm D pl rt m x,
  RInv pm D rt -> wp (pm_vote pm pl rt m x) (fun '(rt', _) => RInv pm D rt').
Proof.
  intros pm D pl rt m x I. unfold pm_vote.
  pose proof (root_update_inv pm D pl 0 rt I) as I0.
  destruct (negb (me_verified m)).
  - apply wp_bind. eapply wp_mono; [apply pm_filter_vote_spec; eauto|].
    intros [rt1 [fc ok]] A. destruct ok; simpl; auto.
  - destruct (mm_cancelled (me_meta m)); simpl; auto.
    destruct (mm_err (me_meta m)); simpl; auto.
    destruct (negb (proposal_fresh (fresh_of pl) x) && negb (negb (proposal_fresh (fresh_of pl) x) && useful_for_cred_history pm (p_rnd pl) x)); simpl; auto.
    apply wp_bind. eapply wp_mono.
    + apply (with_round_spec _ pm D pl (vt_rnd x) (vt_per x) _ _ (fun _ _ => True)); eauto. intros rn IR.
      eapply wp_mono; [apply (rn_store_vote_spec pm D (vt_rnd x)); auto|]. intros [rn' ev] A; auto.
    + intros [rt1 ev] (A & _).
      destruct (negb (proposal_fresh (fresh_of pl) x) && useful_for_cred_history pm (p_rnd pl) x); simpl; auto.
      destruct ev; simpl; auto.
Qed.

Definition payload_ok (pl : player) (m : mevent) : Prop :=
  match me_in m with
  | InPayload pv =>
      me_verified m = true -> mm_err (me_meta m) = false -> mm_cancelled (me_meta m) = false -> v_rnd pv = p_rnd pl
  | _ => True
  end.

Definition pl_accepted (o : plres) : bool :=
  match o with PLAccepted _ _ | PLCommittable _ _ => true | _ => false end.

Lemma rn_store_payload_present_not_acc : forall pl rn pv, pl_accepted (snd (rn_store_payload_present pl rn pv)) = false.
Proof.
  intros pl rn pv. unfold rn_store_payload_present.
  destruct (aget value_eqb pv (ps_asm (rn_store rn))) as [ea|]; simpl; auto.
  destruct (as_assembled ea); simpl; auto. destruct (as_filled ea); simpl; auto.
  destruct (ps_last_relevant _ pv); simpl; auto.
Qed.

Lemma pm_payload_spec : forall pm D pl rt m pv,
  RInv pm D rt -> me_in m = InPayload pv -> payload_ok pl m ->
  wp (pm_payload pm pl rt m pv)
     (fun '(rt', out) => RInv pm D rt' /\ (pl_accepted out = true -> v_rnd pv = p_rnd pl)).
Proof.
  intros pm D pl rt m pv I EM PO. unfold pm_payload. unfold payload_ok in PO; rewrite EM in PO.
  pose proof (root_update_inv pm D pl 0 rt I) as I0.
  destruct (me_verified m) eqn:EV; simpl.
  - destruct (mm_cancelled (me_meta m)) eqn:EC; simpl; [split; auto; discriminate|].
    destruct (mm_err (me_meta m)) eqn:EE; simpl; [split; auto; discriminate|].
    eapply wp_mono.
    + apply (with_round_spec _ pm D pl (p_rnd pl) (p_per pl) _ _ (fun _ _ => True)); eauto. intros rn IR.
      eapply wp_mono; [apply (rn_store_payload_verified_spec pm D (p_rnd pl)); auto|]. intros [rn' out] A; auto.
    + intros [rt1 out] (A & _); auto.
  - assert (PP : forall r p, wp (with_round pm pl r p (root_update pm pl 0 rt)
                       (fun rn => let '(rn', out) := rn_store_payload_present pl rn pv in Ok (rn', out)))
                    (fun '(rt', out) => RInv pm D rt' /\ pl_accepted out = false)).
    { intros r p. eapply wp_mono.
      - apply (with_round_spec _ pm D pl r p _ _ (fun _ out => pl_accepted out = false)); eauto. intros rn IR.
        pose proof (rn_store_payload_present_spec pm D r pl rn pv IR) as H.
        pose proof (rn_store_payload_present_not_acc pl rn pv) as H'.
        destruct (rn_store_payload_present pl rn pv) as [rn' out]; simpl in *; auto.
      - intros [rt1 out] (A & rn' & _ & B); auto. }
    destruct (p_rnd pl =? v_rnd pv).
    + apply wp_bind. eapply wp_mono; [apply PP|]. intros [rt1 out] [A B]. destruct out; simpl in *; split; auto; discriminate.
    + apply wp_bind. eapply wp_mono; [apply PP|]. intros [rt1 out] [A B]. destruct out; simpl in *; split; auto; discriminate.
Qed.

(* ---------- player ---------- *)
Definition act_ok (pm : params) (D : list vote) (a : action) : Prop :=
  match a with
  | AEnsure pl c => good_bundle pm D c /\ ub_step c = s_cert /\ ub_val c = pl /\ ub_rnd c = v_rnd pl
  | _ => True
  end.
Definition acts_ok (pm : params) (D : list vote) (l : list action) : Prop := Forall (act_ok pm D) l.
Definition hpost (pm : params) (D : list vote) (r : player * router * list action) : Prop :=
  RInv pm D (snd (fst r)) /\ acts_ok pm D (snd r).

Lemma acts_ok_app : forall pm D a b, acts_ok pm D a -> acts_ok pm D b -> acts_ok pm D (a ++ b).
Proof. intros; apply Forall_app; auto. Qed.
Lemma acts_ok_nil : forall pm D, acts_ok pm D [].
Proof. intros; constructor. Qed.
Ltac acts_triv := repeat first [apply acts_ok_nil | apply acts_ok_app | (constructor; [exact I|]) | assumption].

Lemma partition_policy_spec : forall pm D pl rt,
  RInv pm D rt -> wp (partition_policy pm pl rt) (fun '(rt', acts) => RInv pm D rt' /\ acts_ok pm D acts).
Proof.
  intros pm D pl rt I. unfold partition_policy.
  destruct (negb (partitioned pl)); simpl; [split; auto; constructor|].
  apply wp_bind. eapply wp_mono; [apply d_freshest_spec; eauto|].
  intros [rt1 fr] (A & _).
  set (acts0 := match fr with Some th => [ABroadcastBundle (th_b th)] | None => [] end).
  assert (A0 : acts_ok pm D acts0) by (unfold acts0; destruct fr; repeat constructor).
  match goal with |- wp (match ?g with _ => _ end) _ => destruct g as [[br bp]|] end; simpl; [|split; auto].
  apply wp_bind. eapply wp_mono; [apply d_staged_spec; eauto|].
  intros [rt2 [sv c]] (A2 & _). destruct c; simpl.
  - split; auto. apply acts_ok_app; auto. repeat constructor.
  - apply wp_bind. eapply wp_mono; [apply d_pinned_spec; eauto|].
    intros [rt3 [pv ok]] A3. destruct ok; simpl; split; auto. apply acts_ok_app; auto. repeat constructor.
Qed.

Lemma issue_soft_vote_spec : forall pm D pl rt d,
  RInv pm D rt -> wp (issue_soft_vote pm pl rt d) (hpost pm D).
Proof.
  intros pm D pl rt d I. unfold issue_soft_vote.
  apply wp_bind. eapply wp_mono; [apply d_freeze_spec; eauto|]. intros [rt1 frozen] A1.
  apply wp_bind. eapply wp_mono; [apply d_next_status_spec; eauto|]. intros [rt2 ns] A2.
  unfold hpost.
  repeat match goal with |- wp (if ?b then _ else _) _ => destruct b end; simpl; split; auto; repeat constructor.
Qed.

Lemma issue_next_vote_spec : forall pm D pl rt d,
  RInv pm D rt -> wp (issue_next_vote pm pl rt d) (hpost pm D).
Proof.
  intros pm D pl rt d I. unfold issue_next_vote.
  apply wp_bind. eapply wp_mono; [apply partition_policy_spec; eauto|]. intros [rt1 acts] (A1 & B1).
  apply wp_bind. eapply wp_mono; [apply d_staged_spec; eauto|]. intros [rt2 [sv c]] (A2 & _).
  apply wp_bind.
  assert (H : wp (if c then Ok (rt2, sv)
                  else do r4 <- d_next_status pm pl rt2 (p_rnd pl) (sub1 (p_per pl));
                       (let '(rt3, ns) := r4 in Ok (rt3, if negb (vp_bottom ns) then vp_val ns else bottom)))
                 (fun '(rt4, _) => RInv pm D rt4)).
  { destruct c; simpl; auto. apply wp_bind. eapply wp_mono; [apply d_next_status_spec; eauto|].
    intros [rt3 ns] A3; simpl; auto. }
  eapply wp_mono; [exact H|]. intros [rt4 prop] A4.
  destruct (next_vote_ranges pm (p_step pl) d) as [lo up]. simpl. split; simpl; auto.
  apply acts_ok_app; auto. repeat constructor.
Qed.

Lemma issue_fast_vote_spec : forall pm D pl rt,
  RInv pm D rt -> wp (issue_fast_vote pm pl rt) (fun '(rt', acts) => RInv pm D rt' /\ acts_ok pm D acts).
Proof.
  intros pm D pl rt I. unfold issue_fast_vote.
  apply wp_bind. eapply wp_mono; [apply partition_policy_spec; eauto|]. intros [rt1 acts] (A1 & B1).
  apply wp_bind. eapply wp_mono; [apply d_dump_spec; eauto|]. intros [rt2 e1] A2.
  apply wp_bind. eapply wp_mono; [apply d_dump_spec; eauto|]. intros [rt3 e2] A3.
  apply wp_bind. eapply wp_mono; [apply d_dump_spec; eauto|]. intros [rt4 e3] A4.
  apply wp_bind. eapply wp_mono; [apply d_staged_spec; eauto|]. intros [rt5 [sv c]] (A5 & _).
  apply wp_bind.
  assert (H : wp (if c then Ok (rt5, (s_late, sv))
                  else do r4 <- d_next_status pm pl rt5 (p_rnd pl) (sub1 (p_per pl));
                       (let '(rt6, ns) := r4 in Ok (rt6, if negb (vp_bottom ns) then (s_redo, vp_val ns) else (s_down, bottom))))
                 (fun '(rt7, _) => RInv pm D rt7)).
  { destruct c; simpl; auto. apply wp_bind. eapply wp_mono; [apply d_next_status_spec; eauto|].
    intros [rt6 ns] A6; simpl; auto. }
  eapply wp_mono; [exact H|]. intros [rt7 [s prop]] A7. simpl. split; auto.
  apply acts_ok_app; auto. repeat constructor.
Qed.

Lemma update_cred_history_spec : forall pm D pl rt,
  RInv pm D rt -> wp (update_cred_history pm pl rt) (fun rt' => RInv pm D rt').
Proof.
  intros pm D pl rt I. unfold update_cred_history.
  destruct (negb (p_per pl =? 0)); simpl; auto. destruct (p_rnd pl <=? pm_crlag pm); simpl; auto.
  apply d_read_lowest_spec; auto.
Qed.

Lemma enter_period_spec : forall pm D pl rt src target,
  RInv pm D rt -> wp (enter_period pm pl rt src target) (hpost pm D).
Proof.
  intros pm D pl rt src target I. unfold enter_period.
  apply wp_bind. eapply wp_mono; [apply partition_policy_spec; eauto|]. intros [rt1 acts] (A1 & B1).
  apply wp_bind. eapply wp_mono; [apply pm_threshold_spec; eauto|]. intros [rt2 out] (A2 & _).
  unfold hpost.
  destruct out as [[prop auth|prop]|]; simpl.
  - split; auto. repeat apply acts_ok_app; auto; repeat constructor.
  - destruct (th_t src); [| |destruct (is_bottom (th_val src))]; simpl; split; auto;
      repeat apply acts_ok_app; auto; repeat constructor.
  - destruct (th_t src); [| |destruct (is_bottom (th_val src))]; simpl; split; auto;
      repeat apply acts_ok_app; auto; repeat constructor.
Qed.

(* ---------- player.handle ---------- *)
Definition pev_ok (pm : params) (D : list vote) (pl : player) (e : pevent) : Prop :=
  match e with
  | PThresh th => good_thresh pm D th
  | PMsg m => (forall x, In x (delivered_by m) -> In x D) /\ payload_ok pl m
  | _ => True
  end.

Section HandleProofs.
  Variable pm : params.
  Variable D : list vote.
  Variable rec : player -> router -> pevent -> hres.
  Hypothesis Hrec : forall pl rt e, RInv pm D rt -> pev_ok pm D pl e -> wp (rec pl rt e) (hpost pm D).

  Lemma enter_round_spec : forall pl rt target,
    RInv pm D rt -> wp (enter_round pm rec pl rt target) (hpost pm D).
  Proof.
    intros pl rt target I. unfold enter_round.
    apply wp_bind. eapply wp_mono; [apply pm_new_round_spec; eauto|]. intros [rt1 e] A1.
    apply wp_bind. eapply wp_mono; [apply d_freshest_spec; eauto|]. intros [rt2 fr] (A2 & B2).
    set (acts1 := match e with PLPipelined _ per pinned prop _ => _ | _ => _ end).
    assert (AO : acts_ok pm D acts1) by (unfold acts1; destruct e; repeat constructor).
    destruct fr as [th|]; simpl.
    - apply wp_bind. eapply wp_mono; [apply Hrec; [exact A2 | simpl; apply (B2 th); auto]|].
      intros [[pl2 rt3] a4] [H1 H2]; simpl in *. split; simpl; auto. apply acts_ok_app; auto.
    - split; simpl; auto.
  Qed.

  Lemma tkind_cert_step : forall s, tkind_of_step s = TCert -> s = s_cert.
  Proof.
    intros s H. unfold tkind_of_step in H. destruct (s =? s_soft); [discriminate|].
    destruct (s =? s_cert) eqn:E; [apply N.eqb_eq in E; auto | discriminate].
  Qed.

  Lemma handle_threshold_spec : forall pl rt th,
    RInv pm D rt -> good_thresh pm D th -> wp (handle_threshold pm rec pl rt th) (hpost pm D).
  Proof.
    intros pl rt th I (GB & GK & GV & GT). unfold handle_threshold.
    destruct (th_t th) eqn:ET.
    - (* soft *)
      destruct (th_per th <? p_per pl); [simpl; split; simpl; auto; constructor|].
      destruct (p_per pl <? th_per th); [apply enter_period_spec; auto|].
      apply wp_bind. eapply wp_mono; [apply pm_threshold_spec; eauto|]. intros [rt1 out] (A1 & _).
      destruct out as [[prop auth|prop]|]; simpl; try (split; simpl; auto; constructor).
      destruct (p_step pl <=? s_cert); simpl; split; simpl; auto; repeat constructor.
    - (* cert *)
      apply wp_bind. eapply wp_mono; [apply pm_threshold_spec; eauto|]. intros [rt1 out] (A1 & ST). rewrite ET in ST.
      apply wp_bind. eapply wp_mono.
      + apply wp_and; [apply (d_staged_spec pm D); exact A1 | apply d_staged_value; exact ST].
      + intros [rt2 [sv c]] ((A2 & RC) & SV). subst sv.
        destruct c; simpl.
        * apply wp_bind. eapply wp_mono; [apply update_cred_history_spec; eauto|]. intros rt3 A3.
          apply wp_bind. eapply wp_mono; [apply enter_round_spec; eauto|].
          intros [[pl2 rt4] as_] [H1 H2]; simpl in *. split; simpl; auto.
          constructor; auto. simpl.
          assert (ES : ub_step (th_b th) = s_cert).
          { inversion GK as [[K1 K2 K3]]. rewrite K3. apply tkind_cert_step; symmetry; exact GT. }
          inversion GK as [[K1 K2 K3]]. split; [exact GB|]. split; [exact ES|]. split; [exact GV|].
          rewrite (RC eq_refl). exact K1.
        * destruct (p_per pl <? th_per th).
          -- apply wp_bind. eapply wp_mono; [apply enter_period_spec; eauto|].
             intros [[pl2 rt3] as_] [H1 H2]; simpl in *. split; simpl; auto. constructor; simpl; auto.
          -- simpl. split; simpl; auto. repeat constructor.
    - (* next *)
      destruct (th_per th <? p_per pl); [simpl; split; simpl; auto; constructor|].
      apply enter_period_spec; auto.
  Qed.

  Lemma handle_proposal_vote_spec : forall pl rt m x,
    RInv pm D rt -> wp (handle_proposal_vote pm rec pl rt m x) (hpost pm D).
  Proof.
    intros pl rt m x I. unfold handle_proposal_vote.
    apply wp_bind. eapply wp_mono; [apply pm_vote_spec; eauto|]. intros [rt1 ef] A1.
    apply wp_bind.
    match goal with |- wp ?body _ =>
      assert (HB : wp body (fun '(_, acts, _) => acts_ok pm D acts)) end.
    { cbv zeta. destruct ef as [|note| |prop ok]; simpl; split_ifs;
        first [exact Logic.I | (unfold acts_ok; repeat constructor)]. }
    eapply wp_mono; [exact HB|]. intros [[pl1 acts] done] AO.
    match goal with |- wp (let '(pl2, tail) := ?pt in _) _ => destruct pt as [pl2 tail] end.
    destruct tail as [t|]; [|split; simpl; auto].
    destruct done; [|split; simpl; auto].
    apply wp_bind. eapply wp_mono.
    - apply Hrec; [exact A1|]. simpl. split; [intros y Hy; simpl in Hy; contradiction|].
      unfold payload_ok; simpl. intro C; discriminate.
    - intros [[pl3 rt2] suffix] [H1 H2]; simpl in *. split; simpl; auto. apply acts_ok_app; auto.
  Qed.

  Lemma value_eqb_true : forall a b, value_eqb a b = true -> a = b.
  Proof. intros; apply value_eqb_eq; auto. Qed.

  Ltac hfin := simpl; first [exact Logic.I | apply wp_panic
                             | (split; simpl; [assumption | unfold acts_ok; repeat constructor; assumption])].

  Lemma ensure_site2 : forall pl th pv,
    good_thresh pm D th -> th_rnd th = p_rnd pl -> th_t th = TCert -> th_val th = pv -> v_rnd pv = p_rnd pl ->
    act_ok pm D (AEnsure pv (th_b th)).
  Proof.
    intros pl th pv (GB & GK & GV & GT) GR ET EV PR. simpl.
    inversion GK as [[K1 K2 K3]]. split; [exact GB|]. split; [|split].
    - rewrite K3. apply tkind_cert_step. rewrite <- GT. exact ET.
    - congruence.
    - congruence.
  Qed.

  Lemma handle_message_spec : forall pl rt m,
    RInv pm D rt -> (forall x, In x (delivered_by m) -> In x D) -> payload_ok pl m ->
    wp (handle_message pm rec pl rt m) (hpost pm D).
  Proof.
    intros pl rt m I S PO. unfold handle_message.
    destruct (me_in m) as [x|b|pv] eqn:EM.
    - destruct (vt_step x =? s_propose); [apply handle_proposal_vote_spec; auto|].
      apply wp_bind. eapply wp_mono; [apply va_handle_spec; eauto|]. intros [rt1 ef] (A1 & G1).
      destruct ef as [| | |th]; simpl; try (hfin; fail).
      + destruct (negb (me_verified m)); hfin.
      + destruct (negb (me_verified m)); [hfin|].
        apply wp_bind. eapply wp_mono; [apply Hrec; [exact A1 | simpl; inversion G1; auto]|].
        intros [[pl2 rt2] a1] [H1 H2]; simpl in *. split; simpl; auto. constructor; simpl; auto.
    - apply wp_bind. eapply wp_mono; [apply va_handle_spec; eauto|]. intros [rt1 ef] (A1 & G1).
      destruct ef as [| | |th]; simpl; try (hfin; fail).
      + destruct (negb (me_verified m)); hfin.
      + destruct (negb (me_verified m)); [hfin|].
        apply wp_bind. eapply wp_mono; [apply Hrec; [exact A1 | simpl; inversion G1; auto]|].
        intros [[pl2 rt2] a1] [H1 H2]; simpl in *. split; simpl; auto. constructor; simpl; auto.
    - apply wp_bind. eapply wp_mono; [apply pm_payload_spec; eauto|]. intros [rt1 ef] (A1 & PA).
      destruct ef as [| | |rnd per pinned prop auth|prop auth|prop auth]; try (hfin; fail).
      + cbv zeta. simpl. destruct (mm_hnil (me_meta m)); hfin.
      + cbv zeta. destruct (rnd =? p_rnd pl); [hfin|]. simpl. destruct (mm_hnil (me_meta m)); hfin.
      + (* accepted *)
        cbv zeta. simpl.
        apply wp_bind. eapply wp_mono; [apply d_freshest_spec; eauto|]. intros [rt2 fr] (A2 & B2).
        set (acts1 := if mm_hnil (me_meta m) then _ else _).
        assert (AO : acts_ok pm D acts1) by (unfold acts1, acts_ok; destruct (mm_hnil (me_meta m)); repeat constructor).
        destruct fr as [th|]; [|hfin].
        destruct (tkind_eqb (th_t th) TCert && value_eqb (th_val th) pv) eqn:EC; [|hfin].
        apply andb_true_iff in EC. destruct EC as [EC1 EC2]. apply value_eqb_true in EC2.
        destruct (B2 th eq_refl) as (GT & GR).
        apply wp_bind. eapply wp_mono; [apply update_cred_history_spec; eauto|]. intros rt3 A3.
        apply wp_bind. eapply wp_mono; [apply enter_round_spec; eauto|].
        intros [[pl2 rt4] as_] [H1 H2]; simpl in *. split; simpl; auto.
        apply acts_ok_app; auto. constructor; auto.
        eapply ensure_site2; eauto. destruct (th_t th); simpl in EC1; try discriminate; auto.
      + (* committable *)
        cbv zeta. simpl.
        apply wp_bind. eapply wp_mono; [apply d_freshest_spec; eauto|]. intros [rt2 fr] (A2 & B2).
        set (acts1 := if mm_hnil (me_meta m) then _ else _).
        assert (AO : acts_ok pm D acts1) by (unfold acts1, acts_ok; destruct (mm_hnil (me_meta m)); repeat constructor).
        assert (FIN : wp (if p_step pl <=? s_cert
                          then Ok (pl, rt2, acts1 ++ [AAttest (p_rnd pl) (p_per pl) s_cert prop])
                          else Ok (pl, rt2, acts1)) (hpost pm D)).
        { destruct (p_step pl <=? s_cert); simpl; split; simpl; auto. apply acts_ok_app; auto. unfold acts_ok; repeat constructor. }
        destruct fr as [th|]; [|exact FIN].
        destruct (tkind_eqb (th_t th) TCert && value_eqb (th_val th) pv) eqn:EC; [|exact FIN].
        apply andb_true_iff in EC. destruct EC as [EC1 EC2]. apply value_eqb_true in EC2.
        destruct (B2 th eq_refl) as (GT & GR).
        apply wp_bind. eapply wp_mono; [apply update_cred_history_spec; eauto|]. intros rt3 A3.
        apply wp_bind. eapply wp_mono; [apply enter_round_spec; eauto|].
        intros [[pl2 rt4] as_] [H1 H2]; simpl in *. split; simpl; auto.
        apply acts_ok_app; auto. constructor; auto.
        eapply ensure_site2; eauto. destruct (th_t th); simpl in EC1; try discriminate; auto.
  Qed.

  Lemma handle_fast_timeout_spec : forall pl rt en bad,
    RInv pm D rt -> wp (handle_fast_timeout pm pl rt en bad) (hpost pm D).
  Proof.
    intros pl rt en bad I. unfold handle_fast_timeout.
    destruct bad; [hfin|]. destruct (pm_frlambda pm =? 0); [hfin|].
    destruct (p_frd pl =? 0); [hfin|].
    apply wp_bind. eapply wp_mono; [apply issue_fast_vote_spec; eauto|].
    intros [rt1 acts] (A & B); simpl. split; simpl; auto.
  Qed.

  Lemma wp_hpost_step : forall (x : hres) (f : player -> player),
    wp x (hpost pm D) ->
    wp (do r <- x; (let '(pl1, rt1, acts) := r in Ok (f pl1, rt1, acts))) (hpost pm D).
  Proof.
    intros x f H. apply wp_bind. eapply wp_mono; [exact H|]. intros [[pl1 rt1] acts] [A B]; simpl in *. split; auto.
  Qed.

  Lemma handle_timeout_spec : forall pl rt en bad,
    RInv pm D rt -> wp (handle_timeout pm pl rt en bad) (hpost pm D).
  Proof.
    intros pl rt en bad I. unfold handle_timeout.
    destruct (p_step pl =? s_soft).
    - apply wp_hpost_step. apply issue_soft_vote_spec; auto.
    - destruct (p_step pl =? s_cert); [apply issue_next_vote_spec; auto|].
      destruct (p_nap pl); [apply issue_next_vote_spec; auto|].
      destruct (next_vote_ranges pm _ _) as [lo up].
      destruct (up - lo =? 0); hfin.
  Qed.

  Lemma handle_body_spec : forall pl rt e,
    RInv pm D rt -> pev_ok pm D pl e -> wp (handle_body pm rec pl rt e) (hpost pm D).
  Proof.
    intros pl rt e I PE. destruct e as [m|th|fast en bad|r|r p s err]; simpl.
    - destruct PE. apply handle_message_spec; auto.
    - apply handle_threshold_spec; auto.
    - destruct fast; [apply handle_fast_timeout_spec | apply handle_timeout_spec]; auto.
    - apply enter_round_spec; auto.
    - hfin.
  Qed.
End HandleProofs.

Lemma p_handle_spec : forall pm D fuel pl rt e,
  RInv pm D rt -> pev_ok pm D pl e -> wp (p_handle fuel pm pl rt e) (hpost pm D).
Proof.
  induction fuel as [|f IH]; intros pl rt e I PE; simpl; [exact Logic.I|].
  apply handle_body_spec; auto.
Qed.

(* ---------- submitTop and whole runs ---------- *)
Definition ev_delivered (e : ext_event) : list vote :=
  match e with EvMsg m => delivered_by m | _ => [] end.
Definition ev_payload_ok (pl : player) (e : ext_event) : Prop :=
  match e with EvMsg m => payload_ok pl m | _ => True end.
Definition delivered (es : list ext_event) : list vote := flat_map ev_delivered es.

Lemma step_spec : forall pm D st e,
  RInv pm D (s_rt st) -> (forall x, In x (ev_delivered e) -> In x D) -> ev_payload_ok (s_pl st) e ->
  wp (step pm st e) (fun '(st', acts) => RInv pm D (s_rt st') /\ acts_ok pm D acts).
Proof.
  intros pm D st e I S PO. unfold step. apply wp_bind. eapply wp_mono.
  - apply p_handle_spec; [apply root_update_inv; exact I|].
    destruct e; simpl in *; auto.
  - intros [[pl rt'] acts] [A B]; simpl in *; auto.
Qed.

(* payloadVerified events carry a payload of the player's round (the cryptoVerifier validates a
   payload for the round of the request: proposal.validate) *)
Fixpoint trace_ok (pm : params) (st : state) (es : list ext_event) : Prop :=
  match es with
  | [] => True
  | e :: es' =>
      ev_payload_ok (s_pl st) e /\
      match step pm st e with Ok (st', _) => trace_ok pm st' es' | _ => True end
  end.

Lemma run_spec : forall pm es D st,
  RInv pm D (s_rt st) -> trace_ok pm st es ->
  forall i acts st', nth_error (fst (run pm st es)) i = Some (acts, st') ->
    acts_ok pm (D ++ delivered (firstn (S i) es)) acts.
Proof.
  induction es as [|e es IH]; intros D st I T i acts st' H; simpl in H.
  - destruct i; discriminate.
  - destruct T as [PO T].
    set (D1 := D ++ ev_delivered e).
    assert (I1 : RInv pm D1 (s_rt st)) by (eapply RInv_mono; [|exact I]; intros x Hx; apply in_or_app; auto).
    pose proof (step_spec pm D1 st e I1 (fun x Hx => in_or_app _ _ _ (or_intror Hx)) PO) as SP.
    destruct (step pm st e) as [[st1 acts1]| |] eqn:ES; simpl in H; try (destruct i; discriminate).
    destruct (run pm st1 es) as [l o] eqn:ER. simpl in H. destruct SP as [A B]; simpl in A, B.
    destruct i; simpl in H.
    + inversion H; subst. simpl. unfold delivered; simpl. rewrite app_nil_r. exact B.
    + pose proof (IH D1 st1 A T i acts st') as H2. rewrite ER in H2. specialize (H2 H).
      unfold delivered in *. simpl. unfold D1 in H2. rewrite <- app_assoc in H2. exact H2.
Qed.

Lemma RInv_init : forall pm D r0, RInv pm D (s_rt (init pm r0)).
Proof. intros pm D r0 r rn H; simpl in H; contradiction. Qed.

Lemma reaches_cert : forall pm w, reaches pm s_cert w = true <-> pm_cert pm <= w.
Proof. intros; unfold reaches; simpl. apply N.leb_le. Qed.

(* the property: every ensureAction emitted along ANY event sequence carries a cert-step bundle for
   the payload's value and round, of pairwise distinct senders, made of votes that were delivered as
   verified for exactly that (round, period, cert, value) -- or of equivocation pairs backed by two
   delivered votes of one sender for different values --, whose total weight reaches the cert
   threshold *)
Theorem ensure_cert_is_cert_bundle_proof : forall pm r0 es,
  trace_ok pm (init pm r0) es ->
  forall i acts st' pl c,
    nth_error (fst (run pm (init pm r0) es)) i = Some (acts, st') -> In (AEnsure pl c) acts ->
    let Dl := delivered (firstn (S i) es) in
    ub_step c = s_cert /\ ub_val c = pl /\ ub_rnd c = v_rnd pl /\
    NoDup (map vt_snd (ub_votes c) ++ map eq_snd (ub_eqs c)) /\
    (forall x, In x (ub_votes c) -> In x Dl /\ key_of x = (ub_rnd c, ub_per c, s_cert) /\ vt_val x = pl) /\
    (forall e, In e (ub_eqs c) -> eq_ok Dl e /\ ekey_of e = (ub_rnd c, ub_per c, s_cert)) /\
    pm_cert pm <= bundle_weight c.
Proof.
  intros pm r0 es T i acts st' pl c H HI Dl.
  pose proof (run_spec pm es [] (init pm r0) (RInv_init pm [] r0) T i acts st' H) as AO. simpl in AO.
  unfold acts_ok in AO. rewrite Forall_forall in AO. specialize (AO _ HI). simpl in AO.
  destruct AO as ([GV GE GN GW] & ES & EV & ER). fold Dl in GV, GE.
  unfold bkey_of in *. rewrite ES in *.
  repeat split; auto.
  - apply GV; auto.
  - destruct (GV x H0) as (_ & K & _). exact K.
  - destruct (GV x H0) as (_ & _ & K). congruence.
  - apply GE; auto.
  - apply GE; auto.
  - apply reaches_cert; auto.
Qed.
