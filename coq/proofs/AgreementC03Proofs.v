(* Agreement proofs -- C03: every emitted ensureAction carries a valid cert bundle for its payload.
   Invariant [RInv] over the whole step function (player.handle and everything it dispatches to),
   then induction over event sequences. *)
From Coq Require Import NArith List Bool Lia ZifyN ZifyNat ZifyBool String.
Import ListNotations.
From Verif.model Require Import AgreementTypes AgreementVotes AgreementProposals AgreementPlayer.
From Verif.proofs Require Import AgreementLemmas AgreementVoteProofs AgreementTreeProofs.
Open Scope N_scope.

Ltac wp_go := first [apply wp_panic | apply wp_bind].

(* ---------- reading the staging value ---------- *)
Definition staged_in (rn : roundNode) (p : N) (v : value) : Prop :=
  exists pn, aget N.eqb p (rn_periods rn) = Some pn /\ pt_staging (pn_pt pn) = v.

Lemma rn_update_aget : forall pl p rn pn,
  aget N.eqb p (rn_periods rn) = Some pn ->
  aget N.eqb p (rn_periods (rn_update pl p rn)) = Some pn \/ aget N.eqb p (rn_periods (rn_update pl p rn)) = None.
Proof.
  intros pl p rn pn H. unfold rn_update; simpl. unfold ahas; rewrite H.
  destruct ((p_per pl <=? add1 p) || (p <=? 1)) eqn:G.
  - left. rewrite (aget_filter_key N.eqb N.eqb_eq (fun k => (p_per pl <=? add1 k) || (k <=? 1))); auto.
  - right. destruct (aget N.eqb p (filter _ (rn_periods rn))) eqn:E; auto.
    apply (aget_In N.eqb N.eqb_eq) in E. apply filter_In in E. destruct E as [_ E]; simpl in E. congruence.
Qed.

Lemma rn_read_staging_spec : forall pm D r pl p rn,
  RNInv pm D r rn ->
  wp (rn_read_staging pl p rn)
     (fun '(rn', (sv, c)) => RNInv pm D r rn' /\ rn_store rn' = rn_store rn /\ rn_fresh rn' = rn_fresh rn /\
                             (c = true -> v_rnd sv = r) /\ (forall v, staged_in rn p v -> sv = v)).
Proof.
  intros pm D r pl p rn I. unfold rn_read_staging.
  apply wp_bind.
  (* direct proof (not through with_period_spec) to relate the result to the node found *)
  unfold with_period.
  pose proof (rn_update_inv pm D r pl p rn I) as I1.
  destruct (aget N.eqb p (rn_periods (rn_update pl p rn))) as [pn|] eqn:G; [|apply wp_panic].
  simpl. split; [|split; [|split; [|split]]]; auto.
  - destruct I1 as [A1 B1 C1]; constructor; simpl; auto.
    intros p' pn'' H. apply aset_In in H. destruct H as [[? ?]|H]; subst; auto.
    apply pn_update_inv. apply B1. apply (aget_In N.eqb N.eqb_eq); auto.
  - intro E. eapply ps_asm_get_inv; eauto. apply (rni_s _ _ _ _ I).
  - intros v (pn0 & A0 & S0). destruct (rn_update_aget pl p rn pn0 A0) as [E|E]; rewrite E in G; inversion G; subst.
    rewrite (proj1 (pn_update_pt 0 pn)). reflexivity.
Qed.

Lemma rn_staged_value_spec : forall pm D r pl p rn,
  RNInv pm D r rn ->
  wp (rn_staged_value pl p rn)
     (fun '(rn', (sv, c)) => RNInv pm D r rn' /\ rn_store rn' = rn_store rn /\ rn_fresh rn' = rn_fresh rn /\
                             (c = true -> v_rnd sv = r)).
Proof.
  intros pm D r pl p rn I. unfold rn_staged_value.
  eapply wp_mono; [apply (rn_read_staging_spec pm D r); apply rn_update_inv; auto|].
  intros [rn' [sv c]] (A & B & C & E & _); auto.
Qed.

(* ---------- proposalStore operations keep the round-node invariant ---------- *)
Lemma rn_store_vote_spec : forall pm D r pl rn v,
  RNInv pm D r rn -> wp (rn_store_vote pl rn v) (fun '(rn', _) => RNInv pm D r rn').
Proof.
  intros pm D r pl rn v I. unfold rn_store_vote. apply wp_bind.
  eapply wp_mono.
  - apply (with_period_spec _ pm D r pl (vt_per v) 0 rn _ (fun _ _ => True)); auto.
    intros pn P. eapply wp_mono; [apply (pn_pt_op_spec _ D r (vt_per v) pn _ (fun _ _ => True)); auto|].
    + destruct (pt_checked_vote (pn_pt pn) v) as [[? ?]| |]; simpl; auto.
    + intros [pn' a] [H _]; auto.
  - intros [rn1 ev] (I1 & S1 & F1 & _). destruct ev; simpl; auto.
    apply RNInv_set_store; auto. apply ps_trim_inv. apply SInv_relevant with (st := ps_set_asm prop _ (rn_store rn1)).
    apply ps_set_asm_inv; [apply (rni_s _ _ _ _ I1)|]. simpl. intro E.
    eapply ps_asm_get_inv; [apply (rni_s _ _ _ _ I1)|eauto].
Qed.

Lemma rn_store_payload_present_spec : forall pm D r pl rn pv,
  RNInv pm D r rn -> RNInv pm D r (fst (rn_store_payload_present pl rn pv)).
Proof.
  intros pm D r pl rn pv I. unfold rn_store_payload_present.
  destruct (aget value_eqb pv (ps_asm (rn_store rn))) as [ea|] eqn:G; simpl; auto.
  destruct (as_assembled ea) eqn:EA; simpl; auto. destruct (as_filled ea); simpl; auto.
  destruct (ps_last_relevant _ pv); simpl.
  apply RNInv_set_store; auto. apply ps_set_asm_inv; [apply (rni_s _ _ _ _ I)|]. simpl; congruence.
Qed.

Lemma rn_store_payload_verified_spec : forall pm D r pl rn pv,
  RNInv pm D r rn -> v_rnd pv = r -> wp (rn_store_payload_verified pl rn pv) (fun '(rn', _) => RNInv pm D r rn').
Proof.
  intros pm D r pl rn pv I PR. unfold rn_store_payload_verified.
  destruct (aget value_eqb pv (ps_asm (rn_store rn))) as [ea|] eqn:G; simpl; auto.
  destruct (as_assembled ea) eqn:EA; simpl; auto.
  apply wp_bind. eapply wp_mono.
  - apply (rn_staged_value_spec pm D r). apply RNInv_set_store; auto.
    apply ps_set_asm_inv; [apply (rni_s _ _ _ _ I)|auto].
  - intros [rn2 [sv c]] (A & _). destruct (value_eqb sv pv); simpl; auto.
Qed.

Lemma rn_store_new_period_spec : forall pm D r pl rn target starting,
  RNInv pm D r rn -> wp (rn_store_new_period pl rn target starting) (fun rn' => RNInv pm D r rn').
Proof.
  intros pm D r pl rn target starting I. unfold rn_store_new_period.
  apply wp_bind. eapply wp_mono; [apply (rn_staged_value_spec pm D r); auto|].
  intros [rn1 [staged c]] (A & _); simpl.
  apply RNInv_set_store; auto. apply ps_trim_inv. apply SInv_relevant. apply (rni_s _ _ _ _ A).
Qed.

Lemma pt_checked_threshold_staging : forall t th,
  wp (pt_checked_threshold t th) (fun '(t', v) => pt_staging t' = th_val th /\ v = th_val th).
Proof.
  intros t th. unfold pt_checked_threshold. destruct (th_t th); simpl; auto.
  destruct (pc_soft t); simpl; auto. destruct (is_bottom (th_val th)); simpl; auto.
Qed.

Lemma rn_store_threshold_spec : forall pm D r pl rn th,
  RNInv pm D r rn ->
  wp (rn_store_threshold pl rn th)
     (fun '(rn', _) => RNInv pm D r rn' /\ rn_fresh rn' = rn_fresh rn /\ staged_in rn' (th_per th) (th_val th)).
Proof.
  intros pm D r pl rn th I. unfold rn_store_threshold. apply wp_bind.
  eapply wp_mono.
  - apply (with_period_spec _ pm D r pl (th_per th) 0 rn _
             (fun pn' v => pt_staging (pn_pt pn') = th_val th /\ v = th_val th)); auto.
    intros pn P. eapply wp_mono; [apply (pn_pt_op_spec _ D r (th_per th) pn _ (fun t' v => pt_staging t' = th_val th /\ v = th_val th)); auto|].
    + apply pt_checked_threshold_staging.
    + intros [pn' a] H; exact H.
  - intros [rn1 prop] (I1 & S1 & F1 & pn' & G & ST & EP). subst prop.
    assert (SI : staged_in rn1 (th_per th) (th_val th)) by (exists pn'; auto).
    destruct (as_assembled (ps_asm_get (rn_store rn1) (th_val th))) eqn:EA; simpl.
    + split; [|split]; auto.
    + split; [|split]; auto.
      apply RNInv_set_store; auto. apply ps_trim_inv.
      apply SInv_relevant with (st := ps_set_asm (th_val th) _ (rn_store rn1)).
      apply ps_set_asm_inv; [apply (rni_s _ _ _ _ I1)|congruence].
Qed.

Lemma rn_store_read_lowest_spec : forall pm D r pl rn per,
  RNInv pm D r rn -> wp (rn_store_read_lowest pl rn per) (fun rn' => RNInv pm D r rn').
Proof.
  intros pm D r pl rn per I. unfold rn_store_read_lowest. apply wp_bind.
  eapply wp_mono.
  - apply (with_period_spec _ pm D r pl per 0 rn _ (fun _ _ => True)); auto. intros pn P; simpl; auto.
  - intros [rn1 u] (I1 & _); simpl; auto.
Qed.
