(* C20, part 5: the header fields that generate mode derives from counters accumulated while
   groups are tried (eval.blockTxBytes -> Load, the transaction count -> TxnCounter,
   feesCollected -> FeesCollected) are functions of the FINAL payset alone -- whatever sequence
   of accepted, rejected and not-fitting (ErrNoSpace) groups was offered -- and validate mode
   recomputes exactly these functions; and the pool's "stop at the first group that does not
   fit, then GenerateBlock" is generation from a prefix of the pool. *)
From Coq Require Import NArith List Bool Lia ZifyN ZifyNat ZifyBool.
From Verif.model Require Import GenVal.
From Verif.proofs Require Import GenValProofs GenValTheorems.
Import ListNotations.
Open Scope N_scope.

Lemma W64_nz : W64 <> 0. Proof. discriminate. Qed.

(* ------------------------------------------------------------------ what never touches the counters *)
Lemma put_counters : forall l a x, l_count (put l a x) = l_count l /\ l_fees (put l a x) = l_fees l.
Proof. intros. split; reflexivity. Qed.

Lemma move_counters : forall P L below l from to amt l',
  move P L below l from to amt = Ok l' -> l_count l' = l_count l /\ l_fees l' = l_fees l.
Proof.
  intros P L below l from to amt l' H. unfold move in H.
  destruct (p_unit P =? 0); [discriminate|].
  destruct (writes P amt (lookup L (l :: below) from)).
  - destruct (a_algos _ <? amt); [discriminate|]. cbn [bind] in H.
    destruct (writes P amt _); [destruct (W64 <=? _); [discriminate|]|]; injection H as <-; split; reflexivity.
  - cbn [bind] in H.
    destruct (writes P amt _); [destruct (W64 <=? _); [discriminate|]|]; injection H as <-; split; reflexivity.
Qed.

Definition fee_of (L : lview) (tx : txn) : N := if t_snd tx =? lv_sink L then 0 else t_fee tx.

Lemma apply_counters : forall P L below l tx l' a',
  apply_transaction P L below l tx = Ok (l', a') ->
  l_count l' = l_count l /\
  l_fees l' = (if t_snd tx =? lv_sink L then l_fees l else (l_fees l + t_fee tx) mod W64).
Proof.
  intros P L below l tx l' a' H. unfold apply_transaction in H.
  inv_bind H as l1 eq Hfee. unfold take_fee in Hfee. inv_bind Hfee as l0 eq Hm.
  destruct (move_counters _ _ _ _ _ _ _ _ Hm) as [C0 F0].
  assert (C1 : l_count l1 = l_count l /\ l_fees l1 = (if t_snd tx =? lv_sink L then l_fees l else (l_fees l + t_fee tx) mod W64)).
  { destruct (t_snd tx =? lv_sink L); injection Hfee as <-; cbn [add_fees l_count l_fees]; rewrite ?C0, ?F0; auto. }
  destruct C1 as [C1 F1]. unfold payment in H. inv_bind H as l2 eq Hpay.
  assert (C2 : l_count l2 = l_count l1 /\ l_fees l2 = l_fees l1).
  { destruct (negb (t_amt tx =? 0) || negb (t_rcv tx =? 0)); [eapply move_counters; eauto|injection Hpay as <-; auto]. }
  destruct C2 as [C2 F2].
  destruct (t_close tx =? 0); [injection H as <- _; rewrite C2, F2; auto|].
  inv_bind H as l3 eq Hcl. destruct (move_counters _ _ _ _ _ _ _ _ Hcl) as [C3 F3].
  destruct (negb (a_algos (lookup L (l3 :: below) (t_snd tx)) =? 0)); [discriminate|].
  injection H as <- _. cbn [put l_count l_fees]. rewrite C3, F3, C2, F2. auto.
Qed.

(* one transaction: count + 1, fees + fee (not for the fee sink), the transaction itself kept *)
Lemma transaction_counters : forall E L parent c s c' s',
  transaction E L parent c s = Ok (c', s') ->
  fst s' = fst s /\
  l_count c' = (l_count c + 1) mod W64 /\
  l_fees c' = (if t_snd (fst s) =? lv_sink L then l_fees c else (l_fees c + t_fee (fst s)) mod W64).
Proof.
  intros E L parent c s c' s' H. unfold transaction in H.
  inv_bind H as [] eq H1. inv_bind H as [c1 a1] eq H2. inv_bind H as [] eq H3. inv_bind H as [] eq H4.
  injection H as <- <-. destruct (apply_counters _ _ _ _ _ _ _ H2) as [C F].
  cbn [fst addtx l_count l_fees]. rewrite C, F. auto.
Qed.

Lemma fee_step : forall L x tx, x < W64 \/ True ->
  (if t_snd tx =? lv_sink L then x mod W64 else (x mod W64 + t_fee tx) mod W64) = (x + fee_of L tx) mod W64.
Proof.
  intros L x tx _. unfold fee_of. destruct (t_snd tx =? lv_sink L).
  - rewrite N.add_0_r. reflexivity.
  - apply N.add_mod_idemp_l, W64_nz.
Qed.

(* the per-transaction loop, in any mode that counts bytes (validate = true) *)
Lemma loop_counters : forall E L parent bb txs c gb c' ss gb' n f,
  e_validate E = true ->
  group_loop E L parent c bb gb txs = Ok (c', ss, gb') ->
  l_count c = n mod W64 -> l_fees c = f mod W64 ->
  map fst ss = map fst txs /\
  gb' = gb + fold_right (fun s acc => t_len (fst s) + acc) 0 txs /\
  l_count c' = (n + N.of_nat (length txs)) mod W64 /\
  l_fees c' = (f + txns_fees L txs) mod W64.
Proof.
  intros E L parent bb txs. induction txs as [|s txs IH]; intros c gb c' ss gb' n f HV H Hn Hf.
  - cbn in H. injection H as <- <- <-. cbn. rewrite !N.add_0_r. auto.
  - cbn [group_loop] in H. inv_bind H as [c1 s1] eq H1.
    destruct (transaction_counters _ _ _ _ _ _ _ H1) as (Hs & C1 & F1).
    rewrite HV in H. cbn [andb] in H.
    destruct (e_cap E <? _); [discriminate|].
    destruct (negb (t_gidok (fst s))); [discriminate|].
    inv_bind H as [[c2 ss2] gb2] eq H2. injection H as <- <- <-.
    assert (Hn1 : l_count c1 = (n + 1) mod W64).
    { rewrite C1, Hn. apply N.add_mod_idemp_l, W64_nz. }
    assert (Hf1 : l_fees c1 = (f + fee_of L (fst s)) mod W64).
    { rewrite F1, Hf. apply fee_step. auto. }
    destruct (IH _ _ _ _ _ _ _ HV H2 Hn1 Hf1) as (Hm & Hg & Hc & Hfe).
    split; [cbn; rewrite Hs, Hm; reflexivity|].
    split; [rewrite Hg; cbn [fold_right]; lia|].
    split.
    + rewrite Hc. f_equal. cbn [length]. lia.
    + rewrite Hfe. f_equal. cbn [txns_fees fold_right]. unfold fee_of. fold (txns_fees L txs). lia.
Qed.

(* ------------------------------------------------------------------ the evaluator state *)
(* eval.blockTxBytes, the transaction count and feesCollected are what the payset says *)
Definition counters_ok (L : lview) (ev : evst) : Prop :=
  ev_bytes ev = payset_bytes (ev_payset ev) /\
  l_count (ev_top ev) = payset_count (ev_payset ev) mod W64 /\
  l_fees (ev_top ev) = payset_fees L (ev_payset ev) mod W64.

Lemma payset_txns_app : forall ps g, payset_txns (ps ++ [g]) = payset_txns ps ++ g_txns g.
Proof. intros. unfold payset_txns. rewrite map_app, concat_app. cbn. rewrite app_nil_r. reflexivity. Qed.

Lemma fold_bytes_app : forall (a b : list stib),
  fold_right (fun s acc => t_len (fst s) + acc) 0 (a ++ b) =
  fold_right (fun s acc => t_len (fst s) + acc) 0 a + fold_right (fun s acc => t_len (fst s) + acc) 0 b.
Proof. induction a as [|x a IH]; intro b; cbn; [reflexivity|]. rewrite IH. lia. Qed.

Lemma txns_fees_app : forall L (a b : list stib), txns_fees L (a ++ b) = txns_fees L a + txns_fees L b.
Proof. intros L. induction a as [|x a IH]; intro b; cbn; [reflexivity|]. fold (txns_fees L (a ++ b)). fold (txns_fees L a). rewrite IH. lia. Qed.

Lemma fold_bytes_fst : forall (a b : list stib), map fst a = map fst b ->
  fold_right (fun s acc => t_len (fst s) + acc) 0 a = fold_right (fun s acc => t_len (fst s) + acc) 0 b.
Proof.
  induction a as [|x a IH]; intros [|y b] H; cbn in H; try discriminate; [reflexivity|].
  injection H as Hx Hr. cbn. rewrite Hx, (IH b Hr). reflexivity.
Qed.

Lemma txns_fees_fst : forall L (a b : list stib), map fst a = map fst b -> txns_fees L a = txns_fees L b.
Proof.
  intros L. induction a as [|x a IH]; intros [|y b] H; cbn in H; try discriminate; [reflexivity|].
  injection H as Hx Hr. cbn. fold (txns_fees L a). fold (txns_fees L b). rewrite Hx, (IH b Hr). reflexivity.
Qed.

(* an accepted group keeps the invariant; a group that is not accepted -- for whatever reason,
   ErrNoSpace included -- never reaches the state (gen_groups continues from the old one) *)
Lemma group_counters : forall E L ev g ev',
  e_validate E = true ->
  transaction_group E L ev g = Ok ev' -> counters_ok L ev -> counters_ok L ev'.
Proof.
  intros E L ev g ev' HV H (B & C & F). unfold transaction_group in H.
  destruct (g_txns g) eqn:Htx; [injection H as <-; repeat split; assumption|]. rewrite <- Htx in H.
  destruct (p_maxgroup _ <? _); [discriminate|]. destruct (e_validate E && _); [discriminate|].
  inv_bind H as [[c ss] gb] eq Hl.
  destruct (negb (g_gid g)); [discriminate|]. destruct (negb (g_feeok g)); [discriminate|].
  injection H as <-.
  assert (H0c : l_count layer0 = 0 mod W64) by reflexivity.
  assert (H0f : l_fees layer0 = 0 mod W64) by reflexivity.
  destruct (loop_counters _ _ _ _ _ _ _ _ _ _ _ _ HV Hl H0c H0f) as (Hm & Hg & Hc & Hf).
  unfold counters_ok. cbn [ev_bytes ev_payset ev_top merge l_count l_fees].
  unfold payset_bytes, payset_count, payset_fees. rewrite payset_txns_app. cbn [g_txns].
  rewrite fold_bytes_app, txns_fees_app, app_length, Nat2N.inj_add.
  assert (Hlen : length ss = length (g_txns g)).
  { apply (f_equal (@length _)) in Hm. rewrite !map_length in Hm. exact Hm. }
  repeat split.
  - rewrite B, Hg, (fold_bytes_fst _ _ Hm). unfold payset_bytes. lia.
  - rewrite C, Hc, Hlen. cbn [N.add]. rewrite <- N.add_mod by apply W64_nz. reflexivity.
  - rewrite F, Hf, (txns_fees_fst L _ _ Hm). cbn [N.add]. rewrite <- N.add_mod by apply W64_nz. reflexivity.
Qed.

Lemma gen_counters : forall E L pool ev,
  e_validate E = true -> counters_ok L ev -> counters_ok L (gen_groups E L ev pool).
Proof.
  intros E L pool. induction pool as [|g pool IH]; intros ev HV H; [exact H|].
  cbn [gen_groups]. destruct (transaction_group E L ev g) eqn:Hg; [|auto].
  apply IH; [assumption|]. eapply group_counters; eauto.
Qed.

Lemma run_counters : forall E L gs ev ev',
  e_validate E = true -> run_groups E L ev gs = Ok ev' -> counters_ok L ev -> counters_ok L ev'.
Proof.
  intros E L gs. induction gs as [|g gs IH]; intros ev ev' HV H C.
  - cbn in H. injection H as <-. exact C.
  - cbn [run_groups] in H. inv_bind H as ev1 eq H1. eapply IH; eauto. eapply group_counters; eauto.
Qed.

Lemma start_counters : forall L l0, counters_ok L (mkEv (put layer0 (lv_pool L) l0) [] 0).
Proof. intros. repeat split. Qed.

(* ------------------------------------------------------------------ the header fields *)
(* TxnCounter, FeesCollected and Load written by generate mode are functions of the generated
   payset only -- for every pool, every node-local size cap, every interleaving of accepted,
   failing and not-fitting groups *)
Theorem generated_fields_of_payset : forall P c0 L r b pool parts ub,
  eval_generate_cap P c0 L r b pool parts = Ok ub ->
  h_counter (ub_hdr ub) = (if p_txncounter P then (lv_counter L + payset_count (ub_payset ub)) mod W64 else 0) /\
  (p_payouts P = true -> h_fees (ub_hdr ub) = payset_fees L (ub_payset ub) mod W64) /\
  (p_loadtracking P = true -> compute_load (payset_bytes (ub_payset ub)) (p_maxbytes P) = Ok (h_load (ub_hdr ub))).
Proof.
  intros P c0 L r b pool parts ub H.
  destruct (generate_inv _ _ _ _ _ _ _ _ H) as (Hst & G & Eps & Ed & Ef).
  set (l0 := put layer0 (lv_pool L) (base_lookup L (lv_pool L))) in *.
  set (ev := gen_groups (Eg P c0 r) L (mkEv l0 [] 0) pool) in *.
  assert (CO : counters_ok L ev) by (subst ev; apply gen_counters; [reflexivity|apply start_counters]).
  destruct CO as (B & C & F).
  destruct (gen_fields_proj _ _ _ _ _ G) as (_ & _ & _ & _ & _ & _ & Gcnt).
  rewrite Eps. repeat split.
  - rewrite Gcnt. destruct (p_txncounter P); [|reflexivity]. unfold counter. rewrite C.
    apply N.add_mod_idemp_r, W64_nz.
  - intro E. destruct G as [_ Gon _ _ _]. destruct (Gon E) as [Gf _]. rewrite Gf, F. reflexivity.
  - intro E. destruct G as [_ _ _ Gon _]. rewrite <- B. apply Gon, E.
Qed.

(* ... and validate mode accepts a block only if its header carries these same functions of
   ITS payset: the two modes cannot disagree on them *)
Theorem validated_fields_of_payset : forall P L blk d,
  p_applydata P = true ->
  eval_validate P L blk = Ok d ->
  h_counter (b_hdr blk) = (if p_txncounter P then (lv_counter L + payset_count (b_payset blk)) mod W64 else 0) /\
  (p_payouts P = true -> h_fees (b_hdr blk) = payset_fees L (b_payset blk) mod W64) /\
  (p_loadtracking P = true -> compute_load (payset_bytes (b_payset blk)) (p_maxbytes P) = Ok (h_load (b_hdr blk))).
Proof.
  intros P L [h ps] d HA HV. cbn [b_hdr b_payset]. unfold eval_validate, eval_block in HV. cbn [b_hdr b_payset] in HV.
  set (r := h_round h) in *. fold (Ev P r) in HV.
  inv_bind HV as [h1 l0] eq Hst. destruct (start_val _ _ _ _ _ _ Hst) as (-> & -> & _).
  inv_bind HV as ev eq Hrun. inv_bind HV as [h2 top] eq Heob. inv_bind HV as [] eq Hld.
  assert (CO : counters_ok L ev) by (apply (run_counters (Ev P r) L ps _ ev eq_refl Hrun), start_counters).
  destruct CO as (B & C & F).
  (* validate mode rebuilds exactly the payset it was given *)
  assert (Hps : payset_txns (ev_payset ev) = payset_txns ps).
  { clear - HA Hrun. set (ev0 := mkEv _ [] 0) in Hrun.
    assert (G : forall gs e0 e1, run_groups (Ev P r) L e0 gs = Ok e1 -> payset_txns (ev_payset e1) = payset_txns (ev_payset e0) ++ payset_txns gs).
    { induction gs as [|g gs IH]; intros e0 e1 H.
      - cbn in H. injection H as <-. unfold payset_txns at 3. cbn. rewrite app_nil_r. reflexivity.
      - cbn [run_groups] in H. inv_bind H as e2 eq H2. rewrite (IH _ _ H).
        assert (payset_txns (ev_payset e2) = payset_txns (ev_payset e0) ++ g_txns g).
        { unfold transaction_group in H2. destruct (g_txns g) eqn:Htx; [injection H2 as <-; rewrite app_nil_r; reflexivity|].
          rewrite <- Htx in H2. destruct (p_maxgroup _ <? _); [discriminate|]. destruct (e_validate _ && _); [discriminate|].
          inv_bind H2 as [[c ss] gb] eq Hl. destruct (negb (g_gid g)); [discriminate|]. destruct (negb (g_feeok g)); [discriminate|].
          injection H2 as <-. cbn [ev_payset]. rewrite payset_txns_app. cbn [g_txns].
          rewrite (loop_val_fixed _ _ _ _ _ _ _ _ _ _ _ HA Hl), Htx. reflexivity. }
        rewrite H0, <- app_assoc. reflexivity. }
    rewrite (G _ _ _ Hrun). reflexivity. }
  unfold payset_bytes, payset_count, payset_fees in *. rewrite Hps in B, C, F.
  destruct (eob_val_inv _ _ _ _ _ _ _ Heob) as (-> & _ & Hcnt & Hvfp).
  destruct (vfp_inv _ _ _ _ _ Hvfp) as [_ Von].
  repeat split.
  - rewrite Hcnt. destruct (p_txncounter P); [|reflexivity]. unfold counter. rewrite C. apply N.add_mod_idemp_r, W64_nz.
  - intro E. destruct (Von E) as [Hf _]. rewrite Hf, F. reflexivity.
  - intro E. rewrite E in Hld. cbn [andb] in Hld. inv_bind Hld as load eq Hcl. apply guard_ok in Hld. apply N.eqb_eq in Hld.
    rewrite <- B, Hcl, Hld. reflexivity.
Qed.

(* ------------------------------------------------------------------ the pool stops at a full block *)
Lemma gen_until_full : forall E L pool ev,
  exists k, pool_until_full E L ev pool = firstn k pool.
Proof.
  intros E L pool. induction pool as [|g pool IH]; intro ev; [exists 0%nat; reflexivity|].
  cbn [pool_until_full]. destruct (transaction_group E L ev g) as [ev1|e].
  - destruct (IH ev1) as [k Hk]. exists (S k). cbn. rewrite Hk. reflexivity.
  - destruct (e =? E_NOSPACE); [exists 1%nat; reflexivity|].
    destruct (IH ev) as [k Hk]. exists (S k). cbn. rewrite Hk. reflexivity.
Qed.

(* "fill until ErrNoSpace, then GenerateBlock" is generation from a prefix of the pool, so every
   theorem about [eval_generate_cap] (validation, uniqueness, fields of the payset) covers it *)
Theorem generate_full_is_generate : forall P c0 L r b pool parts ub,
  eval_generate_full P c0 L r b pool parts = Ok ub ->
  exists k, eval_generate_cap P c0 L r b (firstn k pool) parts = Ok ub.
Proof.
  intros P c0 L r b pool parts ub H. unfold eval_generate_full in H.
  destruct (start _ L (hdr_template r b)) as [[h l0]|e]; [|discriminate].
  destruct (gen_until_full (mkEnv P true true r (eff_cap P c0)) L pool (mkEv l0 [] 0)) as [k Hk].
  exists k. rewrite <- Hk. exact H.
Qed.
