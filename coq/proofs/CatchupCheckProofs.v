(* C30: facts about the executable checker of coq/model/CatchupCheck.v:
   - an event log accepted by [validate] IS a run of the model (the validator only ever applies [step]),
     so everything proved about runs holds of accepted logs;
   - concrete runs: non-vacuity of the theorems, and the witnesses that the two configuration
     switches really switch the checks off (and nothing else does). *)
From Coq Require Import NArith List Bool Lia ZifyN ZifyNat ZifyBool.
From Verif.model Require Import Catchup CatchupSpec CatchupCheck.
From Verif.proofs Require Import CatchupProofs.
Import ListNotations.
Open Scope N_scope.

Definition mrun (cfg : config) : mstate -> list mlabel -> option mstate :=
  run b_round cc_round b_cok b_psup d_auth cfg.

Definition reach (cfg : config) (st st' : mstate) : Prop := exists ls, mrun cfg st ls = Some st'.

Lemma mrun_app : forall cfg l1 l2 st st1 st2,
  mrun cfg st l1 = Some st1 -> mrun cfg st1 l2 = Some st2 -> mrun cfg st (l1 ++ l2) = Some st2.
Proof.
  unfold mrun. induction l1 as [|l t IH]; intros l2 st st1 st2 H1 H2; cbn in *.
  - inversion H1; subst. exact H2.
  - destruct (step b_round cc_round b_cok b_psup d_auth cfg st l) as [s|]; [|discriminate].
    eapply IH; eauto.
Qed.

Lemma reach_refl : forall cfg st, reach cfg st st.
Proof. intros. exists []. reflexivity. Qed.
Lemma reach_trans : forall cfg a b c, reach cfg a b -> reach cfg b c -> reach cfg a c.
Proof. intros cfg a b c [l1 H1] [l2 H2]. exists (l1 ++ l2). eapply mrun_app; eauto. Qed.
Lemma reach_step : forall cfg st l st', mstep cfg st l = Some st' -> reach cfg st st'.
Proof. intros cfg st l st' H. exists [l]. unfold mrun, mstep in *. cbn. now rewrite H. Qed.

Lemma ensure_reach : forall cfg r fuel st st', ensure cfg r fuel st = Some st' -> reach cfg st st'.
Proof.
  induction fuel as [|f IH]; intros st st' H; cbn [ensure] in H.
  - destruct (find_worker r (s_workers st)); [inversion H; subst; apply reach_refl | discriminate].
  - destruct (find_worker r (s_workers st)); [inversion H; subst; apply reach_refl |].
    destruct (r <? s_next st); [discriminate|].
    destruct (mstep cfg st LSpawn) as [s1|] eqn:E1.
    + eapply reach_trans; [eapply reach_step; exact E1 | now apply IH].
    + destruct (mstep cfg st (LCollect false)) as [s2|] eqn:E2; [|discriminate].
      eapply reach_trans; [eapply reach_step; exact E2 | now apply IH].
Qed.

Lemma drive_reach : forall cfg r inp through stop fuel st st',
  drive cfg r inp through stop fuel st = Some st' -> reach cfg st st'.
Proof.
  induction fuel as [|f IH]; intros st st' H; cbn [drive] in H;
    destruct (pc_of st r) as [p|]; try discriminate;
    destruct (stop p); try (inversion H; subst; apply reach_refl);
    destruct (through p); try discriminate.
  destruct (mstep cfg st (LWorker r inp)) as [s1|] eqn:E1; [|discriminate].
  eapply reach_trans; [eapply reach_step; exact E1 | now apply IH].
Qed.

Lemma settle_reach : forall cfg dis r st st', settle cfg dis r st = Some st' -> reach cfg st st'.
Proof. unfold settle. intros. eapply drive_reach; eauto. Qed.
Lemma to_backlog_reach : forall cfg dis r st st', to_backlog cfg dis r st = Some st' -> reach cfg st st'.
Proof. unfold to_backlog. intros. eapply drive_reach; eauto. Qed.

Lemma obs_step_reach : forall cfg st l e st', obs_step cfg st l e = Some st' -> reach cfg st st'.
Proof.
  unfold obs_step. intros cfg st l e st' H.
  destruct (mstep cfg st l) as [s1|] eqn:E; [|discriminate].
  destruct (s_trace s1); [discriminate|].
  destruct (_ && _); [|discriminate]. inversion H; subst. eapply reach_step; eauto.
Qed.

Lemma on_event_reach : forall cfg dis fuel st e st',
  on_event cfg dis fuel st e = Some st' -> reach cfg st st'.
Proof.
  intros cfg dis fuel st e st' H. destruct e as [r p rs|r b c ok|r b lat res|src r b c lat res vd cm au| |l|k]; cbn [on_event] in H.
  - unfold bind in H.
    destruct (ensure cfg r fuel st) as [s1|] eqn:E1; [|discriminate].
    destruct (settle cfg dis r s1) as [s1'|] eqn:E1'; [|discriminate].
    destruct (drive cfg r _ _ _ 4 s1') as [s2|] eqn:E2; [|discriminate].
    destruct (mstep cfg s2 _) as [s3|] eqn:E3; [|discriminate].
    destruct (pc_of s3 r) as [q|]; [|discriminate].
    destruct q; try discriminate.
    destruct (p0 =? p); [|discriminate].
    destruct (obs_step cfg s3 _ _) as [s4|] eqn:E4; [|discriminate].
    eapply reach_trans; [eapply ensure_reach; eauto|].
    eapply reach_trans; [eapply settle_reach; eauto|].
    eapply reach_trans; [eapply drive_reach; eauto|].
    eapply reach_trans; [eapply reach_step; eauto|].
    eapply reach_trans; [eapply obs_step_reach; eauto|].
    eapply settle_reach; eauto.
  - destruct (pc_of st r) as [q|]; [|discriminate]. destruct q; try discriminate.
    destruct (_ && _); [|discriminate]. eapply obs_step_reach; eauto.
  - unfold bind in H. destruct (to_backlog cfg dis r st) as [s1|] eqn:E1; [|discriminate].
    destruct (pc_of s1 r) as [q|]; [|discriminate]. destruct q; try discriminate.
    destruct (_ && _); [|discriminate].
    eapply reach_trans; [eapply to_backlog_reach; eauto | eapply obs_step_reach; eauto].
  - destruct src.
    + destruct vd.
      * destruct (pc_of st r) as [q|]; [|discriminate]. destruct q; try discriminate.
        destruct (_ && _); [|discriminate]. eapply obs_step_reach; eauto.
      * unfold bind in H. destruct (to_backlog cfg dis r st) as [s1|] eqn:E1; [|discriminate].
        destruct (pc_of s1 r) as [q|]; [|discriminate]. destruct q; try discriminate.
        destruct (_ && _); [|discriminate].
        eapply reach_trans; [eapply to_backlog_reach; eauto | eapply obs_step_reach; eauto].
    + destruct (res =? 0); [eapply obs_step_reach; eauto | inversion H; subst; apply reach_refl].
  - eapply reach_step; eauto.
  - discriminate.
  - inversion H; subst; apply reach_refl.
Qed.

Theorem validate_sound : forall cfg dis fuel es st idx st',
  validate cfg dis fuel st es idx = inl st' -> reach cfg st st'.
Proof.
  induction es as [|e t IH]; intros st idx st' H; cbn [validate] in H.
  - inversion H; subst. apply reach_refl.
  - destruct (on_event cfg dis fuel st e) as [s1|] eqn:E; [|discriminate].
    eapply reach_trans; [eapply on_event_reach; eauto | eapply IH; eauto].
Qed.

(* ------------------------------------------------------------------ concrete runs *)
Definition cfg_default : config := mkConfig true true false 4 2 false 500 5.
Definition cfg_nocert : config := mkConfig true false false 4 2 false 500 5.
Definition cfg_nopayset : config := mkConfig false true false 4 2 false 500 5.

Definition blkA (r : N) : bdesc := mkB r r true true.          (* the authentic block of round r *)
Definition certA (r : N) : cdesc := mkC r r true.              (* its genuine certificate *)
Definition blkForged (r : N) : bdesc := mkB r (100 + r) true true.
Definition certForged (r : N) : cdesc := mkC r (100 + r) false.
Definition blkTampered (r : N) : bdesc := mkB r r false true.  (* authentic header, other payset *)

(* labels that take the worker of round r from spawn to the ledger write with answer [rs] *)
Definition happy (r : N) (rs : mresp) : list mlabel :=
  LSpawn :: map (fun _ => LWorker r (uin 0 (Some 0) rs EvOk)) (seq 0 7).

(* default configuration: a forged pair and a tampered payset are refused, the real pair is written,
   for two rounds, the second one fetched while the first is still in flight *)
Definition demo_labels : list mlabel :=
  [LSpawn; LSpawn;
   LWorker 2 (uin 0 (Some 1) (RespPair (blkA 2) (certA 2)) EvOk);   (* PStart *)
   LWorker 2 (uin 0 (Some 1) (RespPair (blkA 2) (certA 2)) EvOk);   (* PTop *)
   LWorker 2 (uin 0 (Some 1) (RespPair (blkA 2) (certA 2)) EvOk);   (* PFetch: round 2 arrives first *)
   LWorker 2 (uin 0 (Some 1) (RespPair (blkA 2) (certA 2)) EvOk);   (* PCheck *)
   LWorker 2 (uin 0 (Some 1) (RespPair (blkA 2) (certA 2)) EvOk);   (* PLookback + Authenticate *)
   LWorker 1 (uin 0 (Some 0) (RespPair (blkForged 1) (certForged 1)) EvOk);
   LWorker 1 (uin 0 (Some 0) (RespPair (blkForged 1) (certForged 1)) EvOk);
   LWorker 1 (uin 0 (Some 0) (RespPair (blkForged 1) (certForged 1)) EvOk);
   LWorker 1 (uin 0 (Some 0) (RespPair (blkForged 1) (certForged 1)) EvOk);
   LWorker 1 (uin 0 (Some 0) (RespPair (blkForged 1) (certForged 1)) EvOk);  (* Authenticate fails: back to PTop *)
   LWorker 1 (uin 0 (Some 0) (RespPair (blkTampered 1) (certA 1)) EvOk);
   LWorker 1 (uin 0 (Some 0) (RespPair (blkTampered 1) (certA 1)) EvOk);
   LWorker 1 (uin 0 (Some 0) (RespPair (blkTampered 1) (certA 1)) EvOk);     (* contents check fails: back to PTop *)
   LWorker 1 (uin 0 (Some 0) (RespPair (blkA 1) (certA 1)) EvOk);
   LWorker 1 (uin 0 (Some 0) (RespPair (blkA 1) (certA 1)) EvOk);
   LWorker 1 (uin 0 (Some 0) (RespPair (blkA 1) (certA 1)) EvOk);
   LWorker 1 (uin 0 (Some 0) (RespPair (blkA 1) (certA 1)) EvOk);
   LWorker 1 (uin 0 (Some 0) (RespPair (blkA 1) (certA 1)) EvOk);
   LWorker 1 (uin 0 (Some 0) (RespPair (blkA 1) (certA 1)) EvOk);            (* write round 1 *)
   LWorker 2 (uin 0 (Some 1) (RespPair (blkA 2) (certA 2)) EvOk);            (* PWaitPrev *)
   LWorker 2 (uin 0 (Some 1) (RespPair (blkA 2) (certA 2)) EvOk);            (* write round 2 *)
   LCollect false; LCollect false].

Lemma demo_run :
  exists st, mrun cfg_default (init 0) demo_labels = Some st /\
             s_latest st = 2 /\ written_ids (s_trace st) = [1; 2] /\ s_first st = 3 /\
             List.length (s_trace st) = 13%nat.
Proof. eexists. split; [vm_compute; reflexivity|]. vm_compute. repeat split; reflexivity. Qed.

(* round 2 cannot be written before round 1: its write step is not enabled *)
Lemma demo_order_guard :
  exists st, mrun cfg_default (init 0) (firstn 7 demo_labels) = Some st /\
             mstep cfg_default st (LWorker 2 (uin 0 (Some 1) RespErr EvOk)) = None.
Proof. eexists. split; vm_compute; reflexivity. Qed.

(* with CatchupVerifyCertificate switched off a forged pair IS written ... *)
Lemma nocert_run :
  exists st lat, mrun cfg_nocert (init 0) (happy 1 (RespPair (blkForged 1) (certForged 1))) = Some st /\
             s_trace st = EAdd 1 (blkForged 1) (certForged 1) lat AddOk false :: tl (s_trace st) /\
             d_auth (blkForged 1) (certForged 1) = false.
Proof. eexists. eexists. split; [vm_compute; reflexivity|]. split; vm_compute; reflexivity. Qed.

(* ... and with CatchupVerifyPaysetHash switched off a block whose payset does not match its header *)
Lemma nopayset_run :
  exists st lat, mrun cfg_nopayset (init 0) (happy 1 (RespPair (blkTampered 1) (certA 1))) = Some st /\
             s_trace st = EAdd 1 (blkTampered 1) (certA 1) lat AddOk false :: tl (s_trace st) /\
             b_cok (blkTampered 1) = false.
Proof. eexists. eexists. split; [vm_compute; reflexivity|]. split; vm_compute; reflexivity. Qed.

(* under the default configuration the same answers never reach the ledger *)
Lemma default_refuses :
  exists st, mrun cfg_default (init 0) (firstn 6 (happy 1 (RespPair (blkForged 1) (certForged 1)))) = Some st /\
             s_latest st = 0 /\ pc_of st 1 = Some PTop.
Proof. eexists. split; [vm_compute; reflexivity|]. split; vm_compute; reflexivity. Qed.
