(* C45: model = closed-form spec, and soundness of the executable checker. *)
From Coq Require Import NArith ZArith List Bool Lia ZifyN ZifyBool String.
From Verif.lib Require Import Term.
From Verif.model Require Import Overflow OverflowSpec.
From Verif.proofs Require Import OverflowProofs.
Import ListNotations.
Open Scope N_scope.

Lemma oadd_is_spec w a b : a < 2 ^ w -> b < 2 ^ w -> oadd w a b = spec_oadd w a b.
Proof. intros. apply oadd_spec; assumption. Qed.

Lemma osub_is_spec w a b : a < 2 ^ w -> b < 2 ^ w -> osub w a b = spec_osub w a b.
Proof. intros. apply osub_spec; assumption. Qed.

Lemma omul_is_spec w a b : a < 2 ^ w -> b < 2 ^ w -> omul w a b = spec_omul w a b.
Proof.
  intros Ha Hb. unfold spec_omul.
  destruct (omul_exact w a b Ha Hb) as [[H1 H1'] [H2 H3]]. unfold M in *.
  destruct (omul w a b) as [r o]. cbn [fst snd] in *.
  destruct (N.leb_spec (2 ^ w) (a * b)) as [H|H].
  - specialize (H1' H). subst o. rewrite (H3 eq_refl). reflexivity.
  - destruct o; [specialize (H1 eq_refl); lia|]. rewrite (H2 eq_refl). reflexivity.
Qed.

Lemma saturating_spec w a b : a < 2 ^ w -> b < 2 ^ w ->
  addsat w a b = N.min (a + b) (2 ^ w - 1) /\
  subsat w a b = a - b /\
  mulsat w a b = N.min (a * b) (2 ^ w - 1).
Proof.
  intros Ha Hb. split; [|split].
  - apply addsat_spec; assumption.
  - apply subsat_spec; assumption.
  - apply mulsat_spec; assumption.
Qed.

Lemma odiff_is_spec a b : a < 2 ^ 64 -> b < 2 ^ 64 -> odiff a b = spec_odiff a b.
Proof.
  intros Ha Hb. destruct (odiff_exact a b Ha Hb) as [[H1 H1'] [H2 H3]].
  unfold spec_odiff. destruct (odiff a b) as [r o]. cbn [fst snd] in *.
  set (d := (Z.of_N a - Z.of_N b)%Z) in *.
  destruct ((d <? - 2 ^ 63)%Z || (2 ^ 63 - 1 <? d)%Z) eqn:E.
  - assert (o = true) by (apply H1'; lia). subst o. rewrite (H3 eq_refl). reflexivity.
  - destruct o; [specialize (H1 eq_refl); lia|]. rewrite (H2 eq_refl). reflexivity.
Qed.

Lemma muldiv_is_spec a b c : a < 2 ^ 64 -> b < 2 ^ 64 -> c < 2 ^ 64 ->
  muldiv a b c = spec_muldiv a b c.
Proof.
  intros Ha Hb Hc. pose proof (muldiv_exact a b c Ha Hb Hc) as H. unfold spec_muldiv.
  destruct (muldiv a b c) as [[q r] o]. destruct H as [Hz [Ho [Hf Ht]]].
  change (2 ^ 64) with W64.
  destruct (N.eqb_spec c 0) as [Hc0|Hc0].
  - rewrite (Hz Hc0) in *. destruct (Ht eq_refl); subst. reflexivity.
  - destruct (N.leb_spec W64 (a * b / c)) as [H|H].
    + assert (o = true) by (apply (Ho Hc0); assumption). subst o.
      destruct (Ht eq_refl); subst. reflexivity.
    + destruct o.
      * destruct (Ho Hc0) as [Ho1 _]. specialize (Ho1 eq_refl). lia.
      * destruct (Hf eq_refl) as [? [? _]]; subst. reflexivity.
Qed.

Lemma mul2div_is_spec a b c d : a < 2 ^ 64 -> b < 2 ^ 64 -> c < 2 ^ 64 -> d < 2 ^ 64 ->
  mul2div a b c d = spec_mul2div a b c d.
Proof.
  intros Ha Hb Hc Hd. unfold spec_mul2div.
  destruct (N.eqb_spec d 0) as [Hd0|Hd0].
  - subst d. unfold mul2div.
    destruct (mul64 a b) as [X Y]. destruct (mul64 Y c) as [J K]. destruct (mul64 X c) as [L Mm].
    destruct (0 <? L); [reflexivity|]. destruct (addsat 64 J Mm); reflexivity.
  - pose proof (mul2div_exact a b c d Ha Hb Hc Hd Hd0) as H.
    destruct (mul2div a b c d) as [[q r] o]. destruct H as [Ho [Hf Ht]].
    change (2 ^ 64) with W64. change (W64 - 1) with max64.
    destruct (N.leb_spec W64 (a * b * c / d)) as [H|H].
    + assert (o = true) by (apply Ho; assumption). subst o.
      destruct (Ht eq_refl); subst. reflexivity.
    + destruct o.
      * destruct Ho as [Ho1 _]. specialize (Ho1 eq_refl). lia.
      * destruct (Hf eq_refl); subst. reflexivity.
Qed.

Lemma feeForUsage_ok base usage mult residue fee res' o :
  base < 2 ^ 64 -> usage < 2 ^ 64 -> mult < 2 ^ 64 -> residue < feeResidueScale ->
  feeForUsage base usage mult residue = (fee, res', o) ->
  fee_ok base usage mult residue fee res' o = true.
Proof.
  intros Hb Hu Hm Hr E.
  pose proof (feeForUsage_exact base usage mult residue Hb Hu Hm Hr) as H.
  cbv zeta in H.
  (* the extra "rounds up only when needed" conjunct: from the model's branch structure *)
  assert (Hround : o = false ->
     (if (base * usage * mult) mod feeResidueScale <=? residue
      then fee =? base * usage * mult / feeResidueScale
      else fee =? base * usage * mult / feeResidueScale + 1) = true).
  { intros ->. revert E. unfold feeForUsage.
    assert (HS : feeResidueScale < W64) by reflexivity.
    assert (HS0 : feeResidueScale <> 0) by discriminate.
    pose proof (mul2div_exact base usage mult feeResidueScale Hb Hu Hm HS HS0) as H2.
    destruct (mul2div base usage mult feeResidueScale) as [[quo rem] o2].
    destruct H2 as [_ [Hf _]].
    destruct o2; [discriminate|]. destruct (Hf eq_refl) as [Hq Hrem]. rewrite <- Hq, <- Hrem.
    destruct ((quo =? max64) && (residue <? rem)) eqn:E1; [discriminate|].
    clear Hf Hq Hrem.
    destruct (N.eqb_spec rem 0) as [Hz|Hz].
    - intros [= <- _]. rewrite Hz. destruct residue; apply N.eqb_refl.
    - destruct (N.leb_spec rem residue) as [Hle|Hgt].
      + intros [= <- _]. apply N.eqb_refl.
      + intros [= <- _]. apply N.eqb_refl. }
  rewrite E in H. destruct H as [Hf Ht]. unfold fee_ok.
  change (2 ^ 64) with W64. change (W64 - 1) with max64.
  destruct o.
  - destruct (Ht eq_refl) as [-> [-> Hcase]].
    rewrite !N.eqb_refl. cbn [andb].
    destruct Hcase as [Hge|[He Hlt]].
    + apply N.leb_le in Hge. rewrite Hge. reflexivity.
    + rewrite He, N.eqb_refl. apply N.ltb_lt in Hlt. rewrite Hlt. apply orb_true_r.
  - destruct (Hf eq_refl) as [Hid [Hres [Hfee Hfl]]]. rewrite (Hround eq_refl).
    apply N.eqb_eq in Hid. apply N.ltb_lt in Hres. apply N.ltb_lt in Hfee.
    rewrite Hid, Hres, Hfee. cbn [andb]. rewrite andb_true_r.
    destruct Hfl as [->| ->]; rewrite N.eqb_refl; [reflexivity|apply orb_true_r].
Qed.

Lemma divvy_is_spec num den q : num < 2 ^ 64 -> den < 2 ^ 64 -> q < 2 ^ 64 ->
  divvy num den q = spec_divvy num den q.
Proof.
  intros Hn Hd Hq. unfold spec_divvy. change (2 ^ 64) with W64.
  pose proof (divvy_none_iff num den q Hn Hd Hq) as Hnone.
  destruct (N.eqb_spec den 0) as [Hd0|Hd0].
  - apply Hnone. left. assumption.
  - destruct (N.leb_spec W64 (q * num / den)) as [H|H].
    + apply Hnone. right. assumption.
    + unfold divvy, Muldiv in *.
      pose proof (muldiv_exact q num den Hq Hn Hd) as Hm.
      destruct (muldiv q num den) as [[qq r] o]. destruct Hm as [_ [Ho [Hf _]]].
      destruct o.
      * destruct (Ho Hd0) as [Ho1 _]. specialize (Ho1 eq_refl). lia.
      * destruct (Hf eq_refl) as [-> _]. reflexivity.
Qed.

Lemma micros_is_spec m m2 i : m < 2 ^ 64 -> m2 < 2 ^ 64 -> (- 2 ^ 63 <= i < 2 ^ 63)%Z ->
  microsMul m m2 = spec_microsMul m m2 /\ mulMicros m m2 = spec_microsMul m m2 /\
  microsMulInt m i = spec_microsMulInt m i.
Proof.
  intros Hm Hm2 Hi. split; [|split].
  - apply microsMul_spec; assumption.
  - apply mulMicros_spec; assumption.
  - rewrite microsMulInt_spec by assumption. unfold spec_microsMulInt, spec_sat_scaled.
    reflexivity.
Qed.

Lemma divceil_is_spec w n d : divceil w n d = spec_divceil w n d.
Proof. reflexivity. Qed.

Lemma model_generic_is_spec w a b : a < 2 ^ w -> b < 2 ^ w ->
  model_generic w a b = spec_generic w a b.
Proof.
  intros Ha Hb. unfold model_generic, spec_generic, obs_generic.
  rewrite oadd_is_spec, osub_is_spec, omul_is_spec by assumption.
  destruct (saturating_spec w a b Ha Hb) as [-> [-> ->]].
  reflexivity.
Qed.


Lemma check_sound_generic w a b obs :
  check (TL [TS "g"; TZ (Z.of_N w); TZ (Z.of_N a); TZ (Z.of_N b); obs]) = v_ok \/
  check (TL [TS "g"; TZ (Z.of_N w); TZ (Z.of_N a); TZ (Z.of_N b); obs]) = v_triv ->
  term_eqb obs (spec_generic w a b) = true /\ model_generic w a b = spec_generic w a b.
Proof.
  cbn [check]. rewrite !N2Z.id.
  destruct ((a <? 2 ^ w) && (b <? 2 ^ w)) eqn:E; cbn [negb].
  - apply andb_true_iff in E. destruct E as [Ea Eb]. apply N.ltb_lt in Ea, Eb.
    unfold verdict.
    destruct (term_eqb obs (spec_generic w a b)); cbn [negb].
    + intros _. split; [reflexivity|]. apply model_generic_is_spec; assumption.
    + intros [H|H]; discriminate.
  - intros [H|H]; discriminate.
Qed.
