(* C29 lemmas.  Binding statements are REDUCTIONS: two different contents under one accepted
   commitment yield an explicit collision of the hash function ([Collision]); no injectivity
   axiom is assumed (a function from byte strings to 32 bytes cannot be injective). *)
From Coq Require Import String Ascii NArith ZArith List Bool Lia ZifyN ZifyNat ZifyBool Arith.
Import ListNotations.
From Verif.lib Require Import Term.
From Verif.model Require Import Commitments TxnAuth TxnAuthSpec TxnAuthCheck CommitmentsCheck.
From Verif.proofs Require Import TxnAuthProofs.
Open Scope N_scope.

Definition Collision (h : bytes -> bytes) : Prop := exists x y, x <> y /\ h x = h y.

Lemma inj_or_coll : forall (h : bytes -> bytes) x y, h x = h y -> x = y \/ Collision h.
Proof.
  intros h x y E. destruct (bytes_eq_dec x y) as [Eq | Ne]; [left; exact Eq | right].
  exists x, y. split; assumption.
Qed.

(* ---- lists ---- *)
Lemma app_eq_len : forall {A} (a a' b b' : list A),
  length a = length a' -> a ++ b = a' ++ b' -> a = a' /\ b = b'.
Proof.
  intros A. induction a as [|x a IH]; destruct a' as [|x' a']; cbn; intros b b' L E; try discriminate.
  - split; [reflexivity | exact E].
  - injection L as L. injection E as -> E. destruct (IH _ _ _ L E) as [-> ->]. split; reflexivity.
Qed.

Lemma first_index_none : forall {A} (f : A -> bool) l i,
  first_index f l i = None -> forall x, In x l -> f x = false.
Proof.
  intros A f. induction l as [|y l IH]; intros i E x I; [destruct I|].
  cbn [first_index] in E. destruct (f y) eqn:F; [discriminate|].
  destruct I as [<- | I]; [exact F | exact (IH _ E x I)].
Qed.

Lemma list_eqb_beqb_eq : forall a b : list bytes, list_eqb beqb a b = true <-> a = b.
Proof.
  induction a as [|x a IH]; destruct b as [|y b]; cbn [list_eqb]; split; intro E;
    try discriminate; try reflexivity.
  - apply andb_true_iff in E. destruct E as [E1 E2]. apply beqb_eq in E1. apply IH in E2. congruence.
  - injection E as -> ->. apply andb_true_iff. split; [apply beqb_refl | apply IH; reflexivity].
Qed.

(* ---- msgpack array header ---- *)
Lemma arr_hdr_length : forall n,
  length (arr_hdr n) = if n <? 16 then 1%nat else if n <? 65536 then 3%nat else 5%nat.
Proof. intro n. unfold arr_hdr. destruct (n <? 16); [reflexivity|]. destruct (n <? 65536); reflexivity. Qed.

Lemma cons_inj : forall {A} (x y : A) l l', x :: l = y :: l' -> x = y /\ l = l'.
Proof. intros A x y l l' E. injection E as -> ->. split; reflexivity. Qed.

Lemma bytes4 : forall k, k < 2 ^ 32 ->
  k = 16777216 * ((k / 16777216) mod 256) + 65536 * ((k / 65536) mod 256) + 256 * ((k / 256) mod 256) + k mod 256.
Proof.
  intros k Bk.
  pose proof (N.div_mod k 256 ltac:(discriminate)) as D0.
  pose proof (N.div_mod (k / 256) 256 ltac:(discriminate)) as D1.
  pose proof (N.div_mod (k / 65536) 256 ltac:(discriminate)) as D2.
  rewrite N.div_div in D1 by discriminate. change (256*256) with 65536 in D1.
  rewrite N.div_div in D2 by discriminate. change (65536*256) with 16777216 in D2.
  assert (S : (k / 16777216) mod 256 = k / 16777216).
  { apply N.mod_small. apply N.div_lt_upper_bound; [discriminate|]. exact Bk. }
  rewrite S. lia.
Qed.

Lemma arr_hdr_inj : forall n m, n < 2 ^ 32 -> m < 2 ^ 32 ->
  length (arr_hdr n) = length (arr_hdr m) -> arr_hdr n = arr_hdr m -> n = m.
Proof.
  intros n m Bn Bm L E. rewrite !arr_hdr_length in L. unfold arr_hdr in E.
  destruct (n <? 16) eqn:N1; destruct (m <? 16) eqn:M1;
    destruct (n <? 65536) eqn:N2; destruct (m <? 65536) eqn:M2; try discriminate.
  all: try (apply cons_inj in E; destruct E as [E _]; lia).
  - apply cons_inj in E. destruct E as [_ E]. apply cons_inj in E. destruct E as [E1 E].
    apply cons_inj in E. destruct E as [E2 _].
    rewrite (N.div_mod n 256), (N.div_mod m 256) by discriminate. congruence.
  - apply cons_inj in E. destruct E as [_ E]. apply cons_inj in E. destruct E as [E1 E].
    apply cons_inj in E. destruct E as [E2 E]. apply cons_inj in E. destruct E as [E3 E].
    apply cons_inj in E. destruct E as [E4 _].
    rewrite (bytes4 n Bn), (bytes4 m Bm). congruence.
Qed.

Lemma arr_hdr_head : forall n (x : bytes), exists b r, arr_hdr n ++ x = b :: r /\
  (((n <? 16) = true /\ b = 144 + n) \/ ((n <? 16) = false /\ (n <? 65536) = true /\ b = 220) \/
   ((n <? 16) = false /\ (n <? 65536) = false /\ b = 221)).
Proof.
  intros n x. unfold arr_hdr. destruct (n <? 16) eqn:A; [|destruct (n <? 65536) eqn:B];
    eexists; eexists; (split; [reflexivity|]); tauto.
Qed.

(* ===================================================================================== *)
(* Group ids                                                                              *)
Section Group.
  Variable H : N -> bytes -> bytes.
  Notation h := (H K512_256).

  Definition group_bound_prop (g : list gtx) : Prop :=
    match g with
    | [] => True
    | t0 :: _ =>
        (length g = 1%nat /\ all_zero (g_grp t0) = true) \/
        (all_zero (g_grp t0) = false /\ (forall t, In t g -> g_grp t = g_grp t0) /\
         g_grp t0 = group_hash H (member_ids H g))
    end.

  Lemma group_bound_iff : forall g, group_bound H g = true <-> group_bound_prop g.
  Proof.
    intros [|t0 g]; cbn [group_bound group_bound_prop]; [tauto|].
    rewrite orb_true_iff, !andb_true_iff, negb_true_iff, Nat.eqb_eq, beqb_eq, forallb_forall.
    split.
    - intros [L | [[Z A] B]]; [left; exact L | right]. split; [exact Z|]. split; [|exact B].
      intros t I. apply beqb_eq. exact (A t I).
    - intros [L | [Z [A B]]]; [left; exact L | right]. split; [split; [exact Z|]|exact B].
      intros t I. apply beqb_eq. exact (A t I).
  Qed.

  Lemma step_spec : forall n g0 i acc t acc',
    group_member_step H n g0 i acc t = inl acc' ->
    g_grp t = g0 /\
    ((all_zero g0 = false /\ acc' = acc ++ [txid_of H K512_256 (g_body t)]) \/
     (all_zero g0 = true /\ (n <= 1)%nat /\ acc' = acc)).
  Proof.
    intros n g0 i acc t acc' E. unfold group_member_step in E.
    destruct (negb (beqb (g_grp t) g0)) eqn:C; [discriminate|].
    apply negb_false_iff in C. apply beqb_eq in C. split; [exact C|]. rewrite C in E.
    destruct (all_zero g0) eqn:Z; cbn [negb] in E.
    - destruct (1 <? n)%nat eqn:L; [discriminate|]. injection E as <-. right.
      apply Nat.ltb_ge in L. auto.
    - injection E as <-. left. auto.
  Qed.

  Lemma member_ids_app : forall a b, member_ids H (a ++ b) = member_ids H a ++ member_ids H b.
  Proof. intros a b. unfold member_ids. apply map_app. Qed.

  (* what a successful pass over the members establishes *)
  Definition pass_ok (n : nat) (g0 : bytes) (acc acc' : list bytes) (l : list gtx) : Prop :=
    (forall t, In t l -> g_grp t = g0) /\
    ((all_zero g0 = false /\ acc' = acc ++ member_ids H l) \/
     (all_zero g0 = true /\ acc' = acc /\ (l = [] \/ (n <= 1)%nat))).

  Lemma pass_ok_cons : forall n g0 acc acc1 acc' t l,
    g_grp t = g0 ->
    ((all_zero g0 = false /\ acc1 = acc ++ [txid_of H K512_256 (g_body t)]) \/
     (all_zero g0 = true /\ (n <= 1)%nat /\ acc1 = acc)) ->
    pass_ok n g0 acc1 acc' l -> pass_ok n g0 acc acc' (t :: l).
  Proof.
    intros n g0 acc acc1 acc' t l G S [A B]. split.
    - intros t' [<- | I]; [exact G | exact (A t' I)].
    - destruct S as [[Z ->] | [Z [L ->]]]; destruct B as [[Z' ->] | [Z' [-> R]]]; try congruence.
      + left. split; [exact Z|]. cbn [member_ids map]. rewrite <- app_assoc. reflexivity.
      + right. auto.
  Qed.

  Lemma eval_loop_group : forall v l n g0 st i acc st' acc',
    eval_loop H v n g0 st i acc l = inl (st', acc') -> pass_ok n g0 acc acc' (map e_gtx l).
  Proof.
    induction l as [|t l IH]; intros n g0 st i acc st' acc' E; cbn [eval_loop] in E.
    - injection E as <- <-. split; [intros t []|].
      destruct (all_zero g0) eqn:Z; [right; auto | left; split; [reflexivity | rewrite app_nil_r; reflexivity]].
    - destruct (v && negb (e_pre_ok t)); [discriminate|].
      destruct (v && negb (beqb (e_authorizer t) (current_authorizer st (e_sender t)))); [discriminate|].
      destruct (negb (e_apply_ok t)); [discriminate|].
      destruct (group_member_step H n g0 i acc (e_gtx t)) as [acc1|e] eqn:S; [|discriminate].
      destruct (step_spec _ _ _ _ _ _ S) as [G C].
      cbn [map]. exact (pass_ok_cons _ _ _ _ _ _ _ G C (IH _ _ _ _ _ _ _ E)).
  Qed.

  Lemma pass_final : forall g0 acc' t0 g,
    g_grp t0 = g0 -> pass_ok (length (t0 :: g)) g0 [] acc' (t0 :: g) -> group_final H g0 acc' = GOk ->
    group_bound_prop (t0 :: g).
  Proof.
    intros g0 acc' t0 g G0 [A B] F. cbn [group_bound_prop]. rewrite G0.
    destruct B as [[Z ->] | [Z [-> R]]].
    - right. split; [exact Z|]. split; [exact A|].
      cbn [app] in F. unfold group_final in F. cbn [member_ids map] in F.
      destruct (beqb g0 (group_hash H (txid_of H K512_256 (g_body t0) :: map (fun t => txid_of H K512_256 (g_body t)) g))) eqn:B;
        [|discriminate].
      apply beqb_eq in B. exact B.
    - left. split; [|exact Z]. destruct R as [R | R]; [discriminate|]. cbn [length] in *. lia.
  Qed.

  Theorem eval_txgroup_group_bound : forall v maxgroup st fees g st',
    eval_txgroup H v maxgroup st fees g = (EOk, st') -> group_bound_prop (map e_gtx g).
  Proof.
    intros v maxgroup st fees g st' E. unfold eval_txgroup in E.
    destruct g as [|t0 g]; [exact I|].
    destruct (maxgroup <? blen (t0 :: g)); [discriminate|].
    destruct (eval_loop H v (length (t0 :: g)) (g_grp (e_gtx t0)) st 0 [] (t0 :: g)) as [[st1 acc]|e] eqn:L;
      [|injection E as E1 _; exfalso; exact (eval_loop_err _ _ _ _ _ _ _ _ _ L E1)].
    destruct (group_final H (g_grp (e_gtx t0)) acc) eqn:F; try discriminate.
    pose proof (eval_loop_group _ _ _ _ _ _ _ _ _ L) as P.
    cbn [map] in *. apply (pass_final (g_grp (e_gtx t0)) acc); [reflexivity | | exact F].
    cbn [length] in *. rewrite map_length. exact P.
  Qed.

  Theorem eval_txgroup_size : forall v maxgroup st fees g st',
    eval_txgroup H v maxgroup st fees g = (EOk, st') -> blen g <= maxgroup.
  Proof.
    intros v maxgroup st fees g st' E. unfold eval_txgroup in E.
    destruct g as [|t0 g]; [cbn; lia|].
    destruct (maxgroup <? blen (t0 :: g)) eqn:L; [discriminate|]. apply N.ltb_ge in L. exact L.
  Qed.

  (* TestTransactionGroup *)
  Lemma test_loop_group : forall l n g0 i acc,
    test_loop H n g0 i acc l = TOk ->
    exists acc', pass_ok n g0 acc acc' (map fst l) /\ group_final H g0 acc' = GOk.
  Proof.
    induction l as [|[t pre] l IH]; intros n g0 i acc E; cbn [test_loop] in E.
    - exists acc. split.
      + split; [intros t []|].
        destruct (all_zero g0) eqn:Z; [right; auto | left; split; [reflexivity | rewrite app_nil_r; reflexivity]].
      + destruct (group_final H g0 acc); [reflexivity | discriminate..].
    - destruct (negb pre); [discriminate|].
      destruct (group_member_step H n g0 i acc t) as [acc1|e] eqn:S; [|discriminate].
      destruct (step_spec _ _ _ _ _ _ S) as [G C].
      destruct (IH _ _ _ _ E) as (acc' & P & F). exists acc'. split; [|exact F].
      cbn [map fst]. exact (pass_ok_cons _ _ _ _ _ _ _ G C P).
  Qed.

  Theorem test_txgroup_group_bound : forall maxgroup g,
    test_txgroup H maxgroup g = TOk -> group_bound_prop (map fst g).
  Proof.
    intros maxgroup g E. unfold test_txgroup in E. destruct g as [|[t0 p0] g]; [exact I|].
    destruct (maxgroup <? blen ((t0, p0) :: g)); [discriminate|].
    destruct (test_loop_group _ _ _ _ _ E) as (acc' & P & F).
    cbn [map fst] in *. apply (pass_final (g_grp t0) acc'); [reflexivity | | exact F].
    cbn [length] in *. rewrite map_length. exact P.
  Qed.

  (* checkTxnGroupID *)
  Theorem check_group_id_bound : forall g, check_group_id H g = GOk -> group_bound_prop g.
  Proof.
    intros g E. unfold check_group_id in E. destruct g as [|t0 g]; [exact I|].
    cbn [group_bound_prop].
    destruct (all_zero (g_grp t0)) eqn:Z.
    - destruct (length (t0 :: g) =? 1)%nat eqn:L; [|discriminate]. apply Nat.eqb_eq in L. left. auto.
    - destruct (first_index (fun t => negb (beqb (g_grp t) (g_grp t0))) (t0 :: g) 0) eqn:F; [discriminate|].
      destruct (beqb (g_grp t0) (group_hash H (member_ids H (t0 :: g)))) eqn:B; [|discriminate].
      right. split; [reflexivity|]. split; [|apply beqb_eq; exact B].
      intros t I. pose proof (first_index_none _ _ _ F t I) as N0.
      apply negb_false_iff in N0. apply beqb_eq in N0. exact N0.
  Qed.

  (* ---- the group id binds the ordered member list ---- *)
  Hypothesis H_len : forall x, length (h x) = 32%nat.

  Lemma items_length : forall ids : list bytes, Forall (fun d => length d = 32%nat) ids ->
    length (flat_map (fun d => [196; 32] ++ d) ids) = (34 * length ids)%nat.
  Proof.
    induction 1 as [|d ids Ld _ IH]; [reflexivity|].
    cbn [flat_map]. rewrite !app_length, IH. cbn [length]. lia.
  Qed.

  Lemma items_inj : forall ids ids' : list bytes,
    Forall (fun d => length d = 32%nat) ids -> Forall (fun d => length d = 32%nat) ids' ->
    flat_map (fun d => [196; 32] ++ d) ids = flat_map (fun d => [196; 32] ++ d) ids' -> ids = ids'.
  Proof.
    intros ids ids' F. revert ids'. induction F as [|d ids Ld _ IH]; intros ids' F' E.
    - destruct F' as [|d' ids' Ld' _]; [reflexivity | discriminate].
    - destruct F' as [|d' ids' Ld' F']; [discriminate|].
      cbn [flat_map app] in E. injection E as E. rewrite <- ?app_assoc in E.
      destruct (app_eq_len _ _ _ _ (eq_trans Ld (eq_sym Ld')) E) as [-> E2].
      rewrite (IH _ F' E2). reflexivity.
  Qed.

  Lemma enc_txgroup_ne : forall ids : list bytes, ids <> [] ->
    enc_txgroup ids = ([129; 166] ++ str "txlist") ++ arr_hdr (blen ids) ++ flat_map (fun d => [196; 32] ++ d) ids.
  Proof. intros [|d ids] N0; [congruence|]. unfold enc_txgroup. rewrite <- app_assoc. reflexivity. Qed.

  Lemma enc_txgroup_inj : forall ids ids' : list bytes,
    Forall (fun d => length d = 32%nat) ids -> Forall (fun d => length d = 32%nat) ids' ->
    blen ids < 2 ^ 32 -> blen ids' < 2 ^ 32 ->
    enc_txgroup ids = enc_txgroup ids' -> ids = ids'.
  Proof.
    intros ids ids' F F' B B' E.
    destruct ids as [|d ids]; destruct ids' as [|d' ids']; try reflexivity; try discriminate.
    remember (d :: ids) as l eqn:El. remember (d' :: ids') as l' eqn:El'.
    rewrite (enc_txgroup_ne l), (enc_txgroup_ne l') in E by (subst; discriminate).
    apply app_inv_head in E.
    assert (L : length (arr_hdr (blen l)) = length (arr_hdr (blen l'))).
    { pose proof (f_equal (@length N) E) as LE. rewrite !app_length, !items_length in LE by assumption.
      rewrite !arr_hdr_length in *. unfold blen in *.
      destruct (N.of_nat (length l) <? 16) eqn:A1; destruct (N.of_nat (length l') <? 16) eqn:A2;
        destruct (N.of_nat (length l) <? 65536) eqn:A3; destruct (N.of_nat (length l') <? 65536) eqn:A4; lia. }
    destruct (app_eq_len _ _ _ _ L E) as [Eh Ei].
    apply items_inj; assumption.
  Qed.

  Lemma member_bodies : forall g g' : list gtx,
    member_ids H g = member_ids H g' -> map g_body g = map g_body g' \/ Collision h.
  Proof.
    induction g as [|t g IH]; destruct g' as [|t' g']; cbn [member_ids map]; intro E; try discriminate.
    - left. reflexivity.
    - injection E as E1 E2. unfold txid_of in E1.
      destruct (inj_or_coll h _ _ E1) as [E1' | C]; [|right; exact C].
      apply app_inv_head in E1'.
      destruct (IH g' E2) as [E2' | C]; [|right; exact C].
      left. rewrite E1', E2'. reflexivity.
  Qed.

  Lemma member_ids_len : forall g, Forall (fun d => length d = 32%nat) (member_ids H g).
  Proof. intro g. unfold member_ids. apply Forall_forall. intros d I. apply in_map_iff in I. destruct I as (t & <- & _). apply H_len. Qed.

  (* Two accepted groups with the same non-zero group id consist of the same members, in the
     same order, with the same content (Group field aside), or a hash collision is exhibited. *)
  Theorem group_id_binds : forall t0 g t0' g',
    group_bound_prop (t0 :: g) -> group_bound_prop (t0' :: g') ->
    blen (t0 :: g) < 2 ^ 32 -> blen (t0' :: g') < 2 ^ 32 ->
    g_grp t0 = g_grp t0' -> all_zero (g_grp t0) = false ->
    map g_body (t0 :: g) = map g_body (t0' :: g') \/ Collision h.
  Proof.
    intros t0 g t0' g' B B' L L' G Z. cbn [group_bound_prop] in B, B'.
    destruct B as [[_ Z1] | (_ & _ & E1)]; [congruence|].
    destruct B' as [[_ Z1] | (_ & _ & E2)]; [congruence|].
    rewrite G, E2 in E1. unfold group_hash in E1.
    destruct (inj_or_coll h _ _ E1) as [E | C]; [|right; exact C].
    apply app_inv_head in E. symmetry in E.
    apply enc_txgroup_inj in E; try apply member_ids_len.
    - apply member_bodies. exact E.
    - unfold blen, member_ids in *. rewrite map_length. exact L.
    - unfold blen, member_ids in *. rewrite map_length. exact L'.
  Qed.

  (* the same, in terms of what the evaluator accepts: whatever is accepted under the group id
     of an accepted group has that group's members (so a group with a member dropped, added,
     replaced, altered or moved is rejected) *)
  Theorem eval_group_mutation_rejected : forall v maxgroup st1 fees1 g1 st1' st2 fees2 g2 st2' t1 t2,
    maxgroup < 2 ^ 32 ->
    eval_txgroup H v maxgroup st1 fees1 g1 = (EOk, st1') ->
    eval_txgroup H v maxgroup st2 fees2 g2 = (EOk, st2') ->
    hd_error g1 = Some t1 -> hd_error g2 = Some t2 ->
    g_grp (e_gtx t1) = g_grp (e_gtx t2) -> all_zero (g_grp (e_gtx t1)) = false ->
    map g_body (map e_gtx g1) = map g_body (map e_gtx g2) \/ Collision h.
  Proof.
    intros v maxgroup st1 fees1 g1 st1' st2 fees2 g2 st2' t1 t2 M E1 E2 H1 H2 G Z.
    pose proof (eval_txgroup_group_bound _ _ _ _ _ _ E1) as B1.
    pose proof (eval_txgroup_group_bound _ _ _ _ _ _ E2) as B2.
    pose proof (eval_txgroup_size _ _ _ _ _ _ E1) as S1.
    pose proof (eval_txgroup_size _ _ _ _ _ _ E2) as S2.
    destruct g1 as [|a1 g1]; [discriminate|]. destruct g2 as [|a2 g2]; [discriminate|].
    cbn [hd_error] in H1, H2. injection H1 as ->. injection H2 as ->.
    cbn [map] in *. apply group_id_binds; try assumption.
    - unfold blen in *. cbn [length] in *. rewrite map_length. lia.
    - unfold blen in *. cbn [length] in *. rewrite map_length. lia.
  Qed.
End Group.

(* ===================================================================================== *)
(* Payset commitments                                                                     *)
Section Payset.
  Variable H : N -> bytes -> bytes.
  Notation h := (H K512_256).
  Hypothesis H_len : forall x, length (h x) = 32%nat.
  Hypothesis H_nz : forall x, h x <> zeros 32.

  (* ---- flat ---- *)
  Variable WF : bytes -> Prop.       (* well-formed msgpack value: self-delimiting *)
  Hypothesis WF_prefix_free : forall a b x y, WF a -> WF b -> a ++ x = b ++ y -> a = b.

  Lemma concat_inj : forall l l' : list stib,
    length l = length l' -> Forall (fun s => WF (s_enc s)) l -> Forall (fun s => WF (s_enc s)) l' ->
    flat_map s_enc l = flat_map s_enc l' -> map s_enc l = map s_enc l'.
  Proof.
    induction l as [|s l IH]; destruct l' as [|s' l']; cbn [length flat_map map]; intros L F F' E; try discriminate.
    - reflexivity.
    - inversion F as [|? ? W Fl]; inversion F' as [|? ? W' Fl']; subst.
      pose proof (WF_prefix_free _ _ _ _ W W' E) as E1. rewrite E1 in E. apply app_inv_head in E.
      injection L as L. rewrite E1, (IH l' L Fl Fl' E). reflexivity.
  Qed.

  Lemma enc_payset_inj : forall l l' : list stib,
    blen l < 2 ^ 32 -> blen l' < 2 ^ 32 ->
    Forall (fun s => WF (s_enc s)) l -> Forall (fun s => WF (s_enc s)) l' ->
    enc_payset l = enc_payset l' -> map s_enc l = map s_enc l'.
  Proof.
    intros l l' B B' F F' E. unfold enc_payset in E.
    destruct l as [|s l]; destruct l' as [|s' l']; try reflexivity.
    - exfalso. destruct (arr_hdr_head (blen (s' :: l')) (flat_map s_enc (s' :: l'))) as (b & r & Eb & C).
      rewrite Eb in E. apply cons_inj in E. destruct E as [E _].
      destruct C as [[A ->] | [(_ & _ & ->) | (_ & _ & ->)]]; lia.
    - exfalso. destruct (arr_hdr_head (blen (s :: l)) (flat_map s_enc (s :: l))) as (b & r & Eb & C).
      rewrite Eb in E. apply cons_inj in E. destruct E as [E _].
      destruct C as [[A ->] | [(_ & _ & ->) | (_ & _ & ->)]]; lia.
    - remember (s :: l) as p eqn:Ep. remember (s' :: l') as p' eqn:Ep'.
      (* the first byte tells the header form, the header tells the count *)
      assert (L : length (arr_hdr (blen p)) = length (arr_hdr (blen p'))).
      { rewrite !arr_hdr_length.
        destruct (arr_hdr_head (blen p) (flat_map s_enc p)) as (b & r & Eb & C).
        destruct (arr_hdr_head (blen p') (flat_map s_enc p')) as (b' & r' & Eb' & C').
        rewrite Eb, Eb' in E. apply cons_inj in E. destruct E as [E _]. subst b'.
        destruct C as [[A ->] | [(A1 & A2 & ->) | (A1 & A2 & ->)]];
          destruct C' as [[A' Q] | [(A1' & A2' & Q) | (A1' & A2' & Q)]];
          rewrite ?A, ?A1, ?A2, ?A', ?A1', ?A2'; try reflexivity; lia. }
      destruct (app_eq_len _ _ _ _ L E) as [Eh Ei].
      apply arr_hdr_inj in Eh; try assumption.
      apply concat_inj; try assumption. unfold blen in Eh. lia.
  Qed.

  (* ---- Merkle ---- *)
  Definition isH (d : bytes) : Prop := exists x, d = h x.
  Definition isNode (d : bytes) : Prop := exists a b, d = hnode H K512_256 a b.
  Definition isLeaf (d : bytes) : Prop := exists y, d = h (str "TL" ++ y).

  Lemma isNode_isH : forall d, isNode d -> isH d.
  Proof. intros d (a & b & ->). unfold hnode. eexists. reflexivity. Qed.
  Lemma isLeaf_isH : forall d, isLeaf d -> isH d.
  Proof. intros d (y & ->). eexists. reflexivity. Qed.
  Lemma isH_len : forall d, isH d -> length d = 32%nat.
  Proof. intros d (x & ->). apply H_len. Qed.
  Lemma isH_nz : forall d, isH d -> d <> zeros 32.
  Proof. intros d (x & ->). apply H_nz. Qed.

  Lemma firstn_exact : forall {A} (a b : list A) n, length a = n -> firstn n (a ++ b) = a.
  Proof.
    intros A a b n L. rewrite firstn_app, L, Nat.sub_diag. cbn [firstn]. rewrite app_nil_r.
    rewrite <- L. apply firstn_all.
  Qed.

  Lemma pairbuf_full : forall a b, length a = 32%nat -> length b = 32%nat -> pairbuf 32 a b = a ++ b.
  Proof.
    intros a b La Lb. unfold pairbuf. rewrite app_assoc. apply firstn_exact. rewrite app_length. lia.
  Qed.

  Lemma pairbuf_half : forall a, length a = 32%nat -> pairbuf 32 a [] = a ++ zeros 32.
  Proof.
    intros a La. unfold pairbuf. cbn [app].
    change (zeros (2 * 32)) with (zeros 32 ++ zeros 32). rewrite app_assoc. apply firstn_exact.
    rewrite app_length. unfold zeros. rewrite repeat_length. lia.
  Qed.

  Lemma dsize_0 : dsize K512_256 = 32%nat.
  Proof. reflexivity. Qed.

  Lemma hnode_inj_full : forall a b a' b', isH a -> isH b -> isH a' -> isH b' ->
    hnode H K512_256 a b = hnode H K512_256 a' b' -> (a = a' /\ b = b') \/ Collision h.
  Proof.
    intros a b a' b' Ha Hb Ha' Hb' E. unfold hnode in E. rewrite dsize_0 in E.
    destruct (inj_or_coll h _ _ E) as [E' | C]; [left | right; exact C].
    apply app_inv_head in E'. rewrite !pairbuf_full in E' by (apply isH_len; assumption).
    apply app_eq_len in E'; [exact E'|]. rewrite !isH_len by assumption. reflexivity.
  Qed.

  Lemma hnode_inj_half : forall a a', isH a -> isH a' ->
    hnode H K512_256 a [] = hnode H K512_256 a' [] -> a = a' \/ Collision h.
  Proof.
    intros a a' Ha Ha' E. unfold hnode in E. rewrite dsize_0 in E.
    destruct (inj_or_coll h _ _ E) as [E' | C]; [left | right; exact C].
    apply app_inv_head in E'. rewrite !pairbuf_half in E' by (apply isH_len; assumption).
    apply app_eq_len in E'; [apply E'|]. rewrite !isH_len by assumption. reflexivity.
  Qed.

  Lemma hnode_full_half : forall a b a', isH a -> isH b -> isH a' ->
    hnode H K512_256 a b = hnode H K512_256 a' [] -> Collision h.
  Proof.
    intros a b a' Ha Hb Ha' E. unfold hnode in E. rewrite dsize_0 in E.
    destruct (inj_or_coll h _ _ E) as [E' | C]; [|exact C]. exfalso.
    apply app_inv_head in E'. rewrite pairbuf_full, pairbuf_half in E' by (apply isH_len; assumption).
    apply app_eq_len in E'; [|rewrite !isH_len by assumption; reflexivity].
    exact (isH_nz b Hb (proj2 E')).
  Qed.

  Lemma next_layer_nonempty : forall l, l <> [] -> next_layer H K512_256 l <> [].
  Proof. intros [|a [|b r]] N0; cbn; congruence. Qed.

  Lemma next_layer_nodes : forall l, Forall isNode (next_layer H K512_256 l).
  Proof.
    fix IH 1. intros [|a [|b r]]; cbn [next_layer].
    - constructor.
    - constructor; [exists a, []; reflexivity | constructor].
    - constructor; [exists a, b; reflexivity | apply IH].
  Qed.

  Lemma next_layer_half : forall l, (2 * length (next_layer H K512_256 l) <= length l + 1)%nat.
  Proof.
    fix IH 1. intros [|a [|b r]]; cbn [next_layer length]; [lia | lia |].
    pose proof (IH r). lia.
  Qed.

  Lemma next_layer_length : forall l, (2 <= length l)%nat ->
    (length (next_layer H K512_256 l) < length l)%nat.
  Proof. intros l L. pose proof (next_layer_half l). lia. Qed.

  Lemma next_layer_inj : forall l l', Forall isH l -> Forall isH l' ->
    next_layer H K512_256 l = next_layer H K512_256 l' -> l = l' \/ Collision h.
  Proof.
    fix IH 1. intros [|a [|b r]] [|a' [|b' r']] F F' E; cbn [next_layer] in E; try discriminate.
    - left. reflexivity.
    - pose proof (Forall_inv F) as Ha. pose proof (Forall_inv F') as Ha'.
      apply cons_inj in E. destruct E as [E _].
      destruct (hnode_inj_half _ _ Ha Ha' E) as [-> | C]; [left; reflexivity | right; exact C].
    - pose proof (Forall_inv F) as Ha. pose proof (Forall_inv F') as Ha'.
      pose proof (Forall_inv (Forall_inv_tail F')) as Hb'.
      apply cons_inj in E. destruct E as [E _]. right. symmetry in E. exact (hnode_full_half _ _ _ Ha' Hb' Ha E).
    - pose proof (Forall_inv F) as Ha. pose proof (Forall_inv F') as Ha'.
      pose proof (Forall_inv (Forall_inv_tail F)) as Hb.
      apply cons_inj in E. destruct E as [E _]. right. exact (hnode_full_half _ _ _ Ha Hb Ha' E).
    - pose proof (Forall_inv F) as Ha. pose proof (Forall_inv F') as Ha'.
      pose proof (Forall_inv (Forall_inv_tail F)) as Hb. pose proof (Forall_inv (Forall_inv_tail F')) as Hb'.
      pose proof (Forall_inv_tail (Forall_inv_tail F)) as Fr. pose proof (Forall_inv_tail (Forall_inv_tail F')) as Fr'.
      apply cons_inj in E. destruct E as [E E2].
      destruct (hnode_inj_full _ _ _ _ Ha Hb Ha' Hb' E) as [[-> ->] | C]; [|right; exact C].
      destruct (IH r r' Fr Fr' E2) as [-> | C]; [left; reflexivity | right; exact C].
  Qed.

  Fixpoint itn (k : nat) (l : list bytes) : list bytes :=
    match k with O => l | S k' => itn k' (next_layer H K512_256 l) end.

  Lemma itn_add : forall a b l, itn (a + b) l = itn b (itn a l).
  Proof. induction a as [|a IH]; intros b l; cbn [itn Nat.add]; [reflexivity | apply IH]. Qed.

  Lemma Forall_isNode_isH : forall l, Forall isNode l -> Forall isH l.
  Proof. intros l F. eapply Forall_impl; [|exact F]. exact isNode_isH. Qed.

  Lemma itn_nodes : forall k l, Forall isNode (itn (S k) l).
  Proof.
    induction k as [|k IH]; intro l; cbn [itn] in *; [apply next_layer_nodes | apply IH].
  Qed.

  Lemma itn_inj : forall k a b, Forall isH a -> Forall isH b -> itn k a = itn k b -> a = b \/ Collision h.
  Proof.
    induction k as [|k IH]; intros a b Fa Fb E; cbn [itn] in E; [left; exact E|].
    destruct (IH _ _ (Forall_isNode_isH _ (next_layer_nodes a)) (Forall_isNode_isH _ (next_layer_nodes b)) E) as [E' | C];
      [|right; exact C].
    exact (next_layer_inj _ _ Fa Fb E').
  Qed.

  Lemma mroot_itn : forall fuel l, l <> [] -> (length l <= fuel)%nat ->
    exists k, itn k l = [mroot H fuel K512_256 l].
  Proof.
    induction fuel as [|f IH]; intros l N0 L.
    - destruct l; [congruence | cbn in L; lia].
    - cbn [mroot]. destruct (length l <=? 1)%nat eqn:C.
      + apply Nat.leb_le in C. destruct l as [|x [|y r]]; [congruence | | cbn in C; lia].
        exists 0%nat. reflexivity.
      + apply Nat.leb_gt in C.
        destruct (IH (next_layer H K512_256 l)) as (k & E).
        * apply next_layer_nonempty. exact N0.
        * pose proof (next_layer_length l ltac:(lia)). lia.
        * exists (S k). exact E.
  Qed.

  Lemma leaf_not_node : forall d, isLeaf d -> isNode d -> Collision h.
  Proof.
    intros d (y & ->) (a & b & E). unfold hnode in E.
    destruct (inj_or_coll h _ _ E) as [E' | C]; [|exact C].
    exfalso. change (str "TL") with [84; 76] in E'. change (str "MA") with [77; 65] in E'. discriminate.
  Qed.

  (* roots of two leaf lists, one reached after k1 and the other after k1 + d layers *)
  Lemma roots_eq_leaves : forall k1 d l1 l2 r,
    l1 <> [] -> Forall isLeaf l1 -> Forall isLeaf l2 ->
    itn k1 l1 = [r] -> itn (d + k1) l2 = [r] -> l1 = l2 \/ Collision h.
  Proof.
    intros k1 d l1 l2 r N1 F1 F2 E1 E2. rewrite itn_add in E2.
    assert (Fh1 : Forall isH l1) by (eapply Forall_impl; [|exact F1]; exact isLeaf_isH).
    assert (Fh2 : Forall isH l2) by (eapply Forall_impl; [|exact F2]; exact isLeaf_isH).
    destruct d as [|d].
    - cbn [itn] in E2. apply (itn_inj k1); try assumption. congruence.
    - right.
      destruct (itn_inj k1 l1 (itn (S d) l2) Fh1 (Forall_isNode_isH _ (itn_nodes d l2)) (eq_trans E1 (eq_sym E2)))
        as [E | C]; [|exact C].
      destruct l1 as [|x l1]; [congruence|].
      inversion F1 as [|? ? Lx _]; subst.
      pose proof (itn_nodes d l2) as Nn. rewrite <- E in Nn. inversion Nn as [|? ? Nx _]; subst.
      exact (leaf_not_node x Lx Nx).
  Qed.

  Lemma merkle_root_inj : forall l1 l2,
    l1 <> [] -> l2 <> [] -> Forall isLeaf l1 -> Forall isLeaf l2 ->
    merkle_root H K512_256 l1 = merkle_root H K512_256 l2 -> l1 = l2 \/ Collision h.
  Proof.
    intros l1 l2 N1 N2 F1 F2 E. unfold merkle_root in E.
    destruct (mroot_itn (length l1) l1 N1 (le_n _)) as (k1 & E1).
    destruct (mroot_itn (length l2) l2 N2 (le_n _)) as (k2 & E2).
    rewrite E in E1.
    destruct (le_ge_dec k1 k2) as [L | L].
    - replace k2 with ((k2 - k1) + k1)%nat in E2 by lia.
      exact (roots_eq_leaves k1 (k2 - k1) l1 l2 _ N1 F1 F2 E1 E2).
    - replace k1 with ((k1 - k2) + k2)%nat in E1 by lia.
      destruct (roots_eq_leaves k2 (k1 - k2) l2 l1 _ N2 F2 F1 E2 E1) as [-> | C]; [left; reflexivity | right; exact C].
  Qed.

  Lemma merkle_root_isH : forall l, l <> [] -> Forall isLeaf l -> isH (merkle_root H K512_256 l).
  Proof.
    intros l N0 F. unfold merkle_root. destruct (mroot_itn (length l) l N0 (le_n _)) as (k & E).
    assert (Fh : Forall isH (itn k l)).
    { destruct k as [|k]; [cbn [itn]; eapply Forall_impl; [|exact F]; exact isLeaf_isH
                          | exact (Forall_isNode_isH _ (itn_nodes k l))]. }
    rewrite E in Fh. inversion Fh; assumption.
  Qed.

  Lemma leaves_of_spec : forall ps lv, leaves_of H K512_256 ps = Some lv ->
    length lv = length ps /\ Forall isLeaf lv /\
    forall j s, nth_error ps j = Some s ->
      exists t, s_txn s = Some t /\
        nth_error lv j = Some (h (str "TL" ++ txid_of H K512_256 t ++ h (str "STIB" ++ s_enc s))).
  Proof.
    induction ps as [|s ps IH]; intros lv E; cbn [leaves_of] in E.
    - injection E as <-. repeat split; [constructor | intros [|j] s; discriminate].
    - unfold txn_leaf in E. destruct (s_txn s) as [t|] eqn:T; [|discriminate].
      destruct (leaves_of H K512_256 ps) as [xs|] eqn:R; [|discriminate]. injection E as <-.
      destruct (IH xs eq_refl) as (L & F & Nn). repeat split.
      + cbn [length]. rewrite L. reflexivity.
      + constructor; [|exact F]. eexists. reflexivity.
      + intros [|j] s' Ns.
        * injection Ns as <-. exists t. split; [exact T | reflexivity].
        * exact (Nn j s' Ns).
  Qed.

  Lemma some_cons_inj : forall {A} (x y : A) l l', Some (x :: l) = Some (y :: l') -> x = y /\ l = l'.
  Proof. intros A x y l l' E. injection E as -> ->. split; reflexivity. Qed.

  Lemma leaf_lists_encs : forall ps1 ps2 lv,
    leaves_of H K512_256 ps1 = Some lv -> leaves_of H K512_256 ps2 = Some lv ->
    map s_enc ps1 = map s_enc ps2 \/ Collision h.
  Proof.
    induction ps1 as [|s1 ps1 IH]; intros ps2 lv E1 E2.
    - cbn in E1. injection E1 as <-. destruct ps2 as [|s2 ps2]; [left; reflexivity|].
      cbn [leaves_of] in E2. destruct (txn_leaf H K512_256 s2); [|discriminate].
      destruct (leaves_of H K512_256 ps2); discriminate.
    - cbn [leaves_of] in E1. unfold txn_leaf in E1. destruct (s_txn s1) as [t1|]; [|discriminate].
      destruct (leaves_of H K512_256 ps1) as [xs1|] eqn:R1; [|discriminate].
      destruct lv as [|x lv]; [discriminate|].
      apply some_cons_inj in E1. destruct E1 as [X1 Xs1]. subst xs1.
      destruct ps2 as [|s2 ps2]; [discriminate|].
      cbn [leaves_of] in E2. unfold txn_leaf in E2. destruct (s_txn s2) as [t2|]; [|discriminate].
      destruct (leaves_of H K512_256 ps2) as [xs2|] eqn:R2; [|discriminate].
      apply some_cons_inj in E2. destruct E2 as [X2 Xs2]. subst xs2.
      change (inner_kind K512_256) with K512_256 in *.
      destruct (IH ps2 lv eq_refl R2) as [ER | C]; [|right; exact C].
      destruct (inj_or_coll h _ _ (eq_trans X1 (eq_sym X2))) as [EL' | C]; [|right; exact C].
      apply app_inv_head in EL'. apply app_eq_len in EL'; [|unfold txid_of; rewrite !H_len; reflexivity].
      destruct EL' as [_ ES].
      destruct (inj_or_coll h _ _ ES) as [ES' | C]; [|right; exact C].
      apply app_inv_head in ES'. left. cbn [map]. rewrite ES', ER. reflexivity.
  Qed.

  Lemma fit_id : forall d, length d = 32%nat -> fit 32 d = d.
  Proof. intros d L. unfold fit. apply firstn_exact. exact L. Qed.

  Lemma native_merkle_binds : forall ps1 ps2 c,
    native_commit H 2 ps1 = Some c -> native_commit H 2 ps2 = Some c ->
    map s_enc ps1 = map s_enc ps2 \/ Collision h.
  Proof.
    intros ps1 ps2 c E1 E2. unfold native_commit in E1, E2. cbn [N.eqb Pos.eqb] in E1, E2.
    destruct (leaves_of H K512_256 ps1) as [lv1|] eqn:L1; [|discriminate].
    destruct (leaves_of H K512_256 ps2) as [lv2|] eqn:L2; [|discriminate].
    injection E1 as E1. injection E2 as E2.
    destruct (leaves_of_spec _ _ L1) as (Ln1 & F1 & _). destruct (leaves_of_spec _ _ L2) as (Ln2 & F2 & _).
    destruct lv1 as [|x1 lv1]; destruct lv2 as [|x2 lv2].
    - destruct ps1; [|discriminate]. destruct ps2; [|discriminate]. left. reflexivity.
    - exfalso. pose proof (merkle_root_isH (x2 :: lv2) ltac:(discriminate) F2) as R.
      rewrite (fit_id _ (isH_len _ R)) in E2.
      change (fit 32 (merkle_root H K512_256 [])) with (zeros 32) in E1. apply (isH_nz _ R). congruence.
    - exfalso. pose proof (merkle_root_isH (x1 :: lv1) ltac:(discriminate) F1) as R.
      rewrite (fit_id _ (isH_len _ R)) in E1.
      change (fit 32 (merkle_root H K512_256 [])) with (zeros 32) in E2. apply (isH_nz _ R). congruence.
    - pose proof (merkle_root_isH (x1 :: lv1) ltac:(discriminate) F1) as R1.
      pose proof (merkle_root_isH (x2 :: lv2) ltac:(discriminate) F2) as R2.
      rewrite (fit_id _ (isH_len _ R1)) in E1. rewrite (fit_id _ (isH_len _ R2)) in E2.
      destruct (merkle_root_inj (x1 :: lv1) (x2 :: lv2) ltac:(discriminate) ltac:(discriminate) F1 F2 (eq_trans E1 (eq_sym E2)))
        as [EL | C]; [|right; exact C].
      rewrite <- EL in L2. exact (leaf_lists_encs _ _ _ L1 L2).
  Qed.

  Lemma native_flat_binds : forall ps1 ps2 c,
    blen ps1 < 2 ^ 32 -> blen ps2 < 2 ^ 32 ->
    Forall (fun s => WF (s_enc s)) ps1 -> Forall (fun s => WF (s_enc s)) ps2 ->
    native_commit H 1 ps1 = Some c -> native_commit H 1 ps2 = Some c ->
    map s_enc ps1 = map s_enc ps2 \/ Collision h.
  Proof.
    intros ps1 ps2 c B1 B2 F1 F2 E1 E2. unfold native_commit in E1, E2. cbn [N.eqb Pos.eqb] in E1, E2.
    injection E1 as E1. injection E2 as E2. unfold commit_flat in *.
    destruct (inj_or_coll h _ _ (eq_trans E1 (eq_sym E2))) as [E | C]; [left | right; exact C].
    apply app_inv_head in E. apply enc_payset_inj; assumption.
  Qed.

  (* Block.PaysetCommit binds the encoded payset, whatever the SHA-256 / SHA-512 gates are *)
  Theorem payset_commit_binds : forall p ps1 ps2 c1 c2,
    blen ps1 < 2 ^ 32 -> blen ps2 < 2 ^ 32 ->
    Forall (fun s => WF (s_enc s)) ps1 -> Forall (fun s => WF (s_enc s)) ps2 ->
    payset_commit H p ps1 = Some c1 -> payset_commit H p ps2 = Some c2 ->
    cm_native c1 = cm_native c2 ->
    map s_enc ps1 = map s_enc ps2 \/ Collision h.
  Proof.
    intros p ps1 ps2 c1 c2 B1 B2 F1 F2 E1 E2 EN. unfold payset_commit in E1, E2.
    destruct (negb (c_proto_ok p)); [discriminate|].
    destruct (native_commit H (c_type p) ps1) as [n1|] eqn:N1; [|discriminate].
    destruct (native_commit H (c_type p) ps2) as [n2|] eqn:N2; [|discriminate].
    assert (Ec1 : cm_native c1 = n1).
    { destruct (if c_sha256 p then _ else _); [|discriminate].
      destruct (if c_sha512 p then _ else _); [|discriminate]. injection E1 as <-. reflexivity. }
    assert (Ec2 : cm_native c2 = n2).
    { clear E1. destruct (if c_sha256 p then _ else _); [|discriminate].
      destruct (if c_sha512 p then _ else _); [|discriminate]. injection E2 as <-. reflexivity. }
    assert (En : n2 = n1) by congruence. rewrite En in N2.
    assert (T : c_type p = 1 \/ c_type p = 2).
    { unfold native_commit in N1. destruct (c_type p =? 1) eqn:T1; [left; apply N.eqb_eq; exact T1|].
      destruct (c_type p =? 2) eqn:T2; [right; apply N.eqb_eq; exact T2 | discriminate]. }
    destruct T as [T | T]; rewrite T in N1, N2.
    - exact (native_flat_binds ps1 ps2 n1 B1 B2 F1 F2 N1 N2).
    - exact (native_merkle_binds ps1 ps2 n1 N1 N2).
  Qed.

  Lemma commit_eqb_eq : forall a b, commit_eqb a b = true ->
    cm_native a = cm_native b /\ cm_sha256 a = cm_sha256 b /\ cm_sha512 a = cm_sha512 b.
  Proof.
    intros a b E. unfold commit_eqb in E. rewrite !andb_true_iff, !beqb_eq in E. tauto.
  Qed.

  (* ContentsMatchHeader: two paysets that match one header have the same encoding *)
  Theorem contents_match_binds : forall p ps1 ps2 hdr,
    blen ps1 < 2 ^ 32 -> blen ps2 < 2 ^ 32 ->
    Forall (fun s => WF (s_enc s)) ps1 -> Forall (fun s => WF (s_enc s)) ps2 ->
    contents_match H p ps1 hdr = true -> contents_match H p ps2 hdr = true ->
    map s_enc ps1 = map s_enc ps2 \/ Collision h.
  Proof.
    intros p ps1 ps2 hdr B1 B2 F1 F2 E1 E2. unfold contents_match in E1, E2.
    destruct (payset_commit H p ps1) as [c1|] eqn:P1; [|discriminate].
    destruct (payset_commit H p ps2) as [c2|] eqn:P2; [|discriminate].
    apply commit_eqb_eq in E1, E2.
    apply (payset_commit_binds p ps1 ps2 c1 c2); try assumption.
    destruct E1 as [-> _]. destruct E2 as [-> _]. reflexivity.
  Qed.

  (* and what matches is what PaysetCommit computes *)
  Theorem contents_match_iff : forall p ps hdr,
    contents_match H p ps hdr = true <->
    exists c, payset_commit H p ps = Some c /\ cm_native c = cm_native hdr /\
              cm_sha256 c = cm_sha256 hdr /\ cm_sha512 c = cm_sha512 hdr.
  Proof.
    intros p ps hdr. unfold contents_match. destruct (payset_commit H p ps) as [c|]; split.
    - intro E. exists c. split; [reflexivity | apply commit_eqb_eq; exact E].
    - intros (c' & E & A & B & C). injection E as <-. unfold commit_eqb. rewrite A, B, C, !beqb_refl. reflexivity.
    - discriminate.
    - intros (c' & E & _). discriminate.
  Qed.
End Payset.

(* ===================================================================================== *)
(* PreCheck                                                                               *)
Section PreCheck.
  Variable H : N -> bytes -> bytes.

  Definition links_prop (i : pcin) : Prop :=
    pc_round i = (pc_prev_round i + 1) mod 2 ^ 64 /\
    pc_branch i = header_hash H K512_256 (pc_prev_enc i) /\
    (pc_sha512 i = true -> pc_branch512 i = header_hash H K512 (pc_prev_enc i)) /\
    (pc_sha512 i = false -> pc_branch512 i = zeros 64).

  Lemma links_iff : forall i, links H i = true <-> links_prop i.
  Proof.
    intro i. unfold links, links_prop. rewrite !andb_true_iff, N.eqb_eq, beqb_eq.
    destruct (pc_sha512 i); rewrite beqb_eq; split.
    - intros [[A B] C]. repeat split; auto; discriminate.
    - intros (A & B & C & _). repeat split; auto.
    - intros [[A B] C]. repeat split; auto; discriminate.
    - intros (A & B & _ & C). repeat split; auto.
  Qed.

  Theorem precheck_links : forall i, precheck H i = POk -> links_prop i /\ pc_proto_ok i = true /\ pc_rest_ok i = true.
  Proof.
    intros i E. unfold precheck in E.
    destruct (negb (pc_proto_ok i)) eqn:P; [discriminate|].
    destruct (negb ((pc_prev_round i + 1) mod 2 ^ 64 =? pc_round i)) eqn:R; [discriminate|].
    destruct (negb (beqb (pc_branch i) (header_hash H K512_256 (pc_prev_enc i)))) eqn:B; [discriminate|].
    destruct (pc_sha512 i && negb (beqb (pc_branch512 i) (header_hash H K512 (pc_prev_enc i)))) eqn:B5; [discriminate|].
    destruct (negb (pc_sha512 i) && negb (beqb (pc_branch512 i) (zeros 64))) eqn:B0; [discriminate|].
    destruct (negb (pc_rest_ok i)) eqn:O; [discriminate|].
    apply negb_false_iff in P, R, B, O. apply N.eqb_eq in R. apply beqb_eq in B.
    split; [|auto]. unfold links_prop. repeat split; auto.
    - intro S. rewrite S in B5. cbn [andb] in B5. apply negb_false_iff in B5. apply beqb_eq in B5. exact B5.
    - intro S. rewrite S in B0. cbn [andb negb] in B0. apply negb_false_iff in B0. apply beqb_eq in B0. exact B0.
  Qed.

  (* one header cannot be a valid successor of two different previous headers *)
  Theorem precheck_prev_unique : forall i j,
    precheck H i = POk -> precheck H j = POk -> pc_branch i = pc_branch j ->
    pc_prev_enc i = pc_prev_enc j \/ Collision (H K512_256).
  Proof.
    intros i j Ei Ej B.
    destruct (precheck_links i Ei) as [(_ & Bi & _) _]. destruct (precheck_links j Ej) as [(_ & Bj & _) _].
    rewrite Bi, Bj in B. unfold header_hash in B.
    destruct (inj_or_coll _ _ _ B) as [E | C]; [left | right; exact C].
    apply app_inv_head in E. exact E.
  Qed.
End PreCheck.
