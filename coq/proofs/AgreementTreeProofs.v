(* Agreement proofs -- invariants of the router tree: every voteTracker at path (r,p,s) satisfies
   [TInv], the freshest threshold of a round is a valid bundle of that round, an assembled payload
   stored for round r is a block of round r.  Generic preservation lemmas for with_period /
   with_round (including the garbage collection). *)
From Coq Require Import NArith List Bool Lia ZifyN ZifyNat ZifyBool String.
Import ListNotations.
From Verif.model Require Import AgreementTypes AgreementVotes AgreementProposals AgreementPlayer.
From Verif.proofs Require Import AgreementLemmas AgreementVoteProofs.
Open Scope N_scope.

Definition PNInv (D : list vote) (r p : N) (pn : periodNode) : Prop :=
  forall s t, In (s, t) (pn_steps pn) -> TInv D (r, p, s) t.
Definition SInv (r : N) (st : pstore) : Prop :=
  forall v a, In (v, a) (ps_asm st) -> as_assembled a = true -> v_rnd v = r.
Definition FInv (pm : params) (D : list vote) (r : N) (o : option thresh) : Prop :=
  forall th, o = Some th -> good_thresh pm D th /\ th_rnd th = r.
Record RNInv (pm : params) (D : list vote) (r : N) (rn : roundNode) : Prop := {
  rni_f : FInv pm D r (rn_fresh rn);
  rni_p : forall p pn, In (p, pn) (rn_periods rn) -> PNInv D r p pn;
  rni_s : SInv r (rn_store rn) }.
Definition RInv (pm : params) (D : list vote) (rt : router) : Prop :=
  forall r rn, In (r, rn) rt -> RNInv pm D r rn.

Definition sub (D D' : list vote) : Prop := forall x, In x D -> In x D'.

Lemma PNInv_mono : forall D D' r p pn, sub D D' -> PNInv D r p pn -> PNInv D' r p pn.
Proof. intros D D' r p pn S H s t I. eapply TInv_mono; eauto. Qed.
Lemma RNInv_mono : forall pm D D' r rn, sub D D' -> RNInv pm D r rn -> RNInv pm D' r rn.
Proof.
  intros pm D D' r rn S [A B C]; constructor; auto.
  - intros th E. destruct (A th E); split; auto. eapply good_thresh_mono; eauto.
  - intros p pn I. eapply PNInv_mono; eauto.
Qed.
Lemma RInv_mono : forall pm D D' rt, sub D D' -> RInv pm D rt -> RInv pm D' rt.
Proof. intros pm D D' rt S H r rn I. eapply RNInv_mono; eauto. Qed.

Lemma PNInv_zero : forall D r p, PNInv D r p pn_zero.
Proof. intros D r p s t H; simpl in H; contradiction. Qed.
Lemma RNInv_zero : forall pm D r, RNInv pm D r rn_zero.
Proof.
  intros; constructor; simpl.
  - intros th E; discriminate.
  - intros p pn H; contradiction.
  - intros v a H; simpl in H; contradiction.
Qed.

Lemma PNInv_steps : forall D r p pn pn', pn_steps pn' = pn_steps pn -> PNInv D r p pn -> PNInv D r p pn'.
Proof. intros D r p pn pn' E H s t I. rewrite E in I. auto. Qed.

(* ---------- period level ---------- *)
Lemma pn_update_inv : forall D r p s pn, PNInv D r p pn -> PNInv D r p (pn_update s pn).
Proof.
  intros D r p s pn H. unfold pn_update. destruct (ahas N.eqb s (pn_steps pn)); auto.
  intros s' t I; simpl in I. apply aset_In in I. destruct I as [[? ?]|I]; subst; auto. apply TInv_zero.
Qed.
Lemma pn_update_pt : forall s pn, pn_pt (pn_update s pn) = pn_pt pn /\ pn_vp (pn_update s pn) = pn_vp pn.
Proof. intros; unfold pn_update; destruct (ahas N.eqb s (pn_steps pn)); auto. Qed.

Lemma pn_step_inv : forall D r p s pn, PNInv D r p pn -> TInv D (r, p, s) (pn_step s pn).
Proof.
  intros D r p s pn H. unfold pn_step, ngetd. destruct (aget N.eqb s (pn_steps pn)) eqn:A.
  - apply (aget_In N.eqb N.eqb_eq) in A; auto.
  - apply TInv_zero.
Qed.
Lemma pn_set_step_inv : forall D r p s t pn, PNInv D r p pn -> TInv D (r, p, s) t -> PNInv D r p (pn_set_step s t pn).
Proof.
  intros D r p s t pn H T s' t' I; simpl in I. apply aset_In in I. destruct I as [[? ?]|I]; subst; auto.
Qed.

Definition thr_post (pm : params) (D : list vote) (r : N) (o : option thresh) : Prop :=
  forall th, o = Some th -> good_thresh pm D th /\ th_rnd th = r.

Lemma pn_vote_accepted_spec : forall pm D r p pn x,
  PNInv D r p pn -> In x D -> vt_rnd x = r -> vt_per x = p ->
  wp (pn_vote_accepted pm pn x) (fun '(pn', oth) => PNInv D r p pn' /\ thr_post pm D r oth).
Proof.
  intros pm D r p pn x H XD XR XP. unfold pn_vote_accepted.
  apply wp_bind. eapply wp_mono.
  - apply (vt_checked_accept_spec pm D (r, p, vt_step x)); auto.
    + apply pn_step_inv. apply pn_update_inv; auto.
    + unfold key_of; congruence.
  - intros [t' oth] [P1 P2]; simpl in *.
    assert (I2 : PNInv D r p (pn_set_step (vt_step x) t' (pn_update (vt_step x) pn))).
    { apply pn_set_step_inv; auto. apply pn_update_inv; auto. }
    assert (TP : thr_post pm D r oth).
    { intros th E. destruct (P2 th E); split; auto. congruence. }
    destruct oth as [th|]; simpl; [|split; auto].
    destruct (s_next <=? th_step th); simpl; split; auto.
    eapply PNInv_steps; [|apply pn_update_inv; exact I2]. reflexivity.
Qed.

(* ---------- round level ---------- *)
Lemma rn_update_inv : forall pm D r pl p rn, RNInv pm D r rn -> RNInv pm D r (rn_update pl p rn).
Proof.
  intros pm D r pl p rn [A B C]; constructor; simpl; auto.
  intros p' pn I. apply (proj1 (filter_In _ _ _)) in I; destruct I as [I _].
  destruct (ahas N.eqb p (rn_periods rn)); auto.
  apply aset_In in I. destruct I as [[? ?]|I]; subst; auto. apply PNInv_zero.
Qed.
Lemma rn_update_frame : forall pl p rn, rn_store (rn_update pl p rn) = rn_store rn /\ rn_fresh (rn_update pl p rn) = rn_fresh rn.
Proof. intros; split; reflexivity. Qed.

(* with_period only touches the period map *)
Lemma with_period_spec : forall A pm D r pl p s rn (f : periodNode -> res (periodNode * A)) (Q : periodNode -> A -> Prop),
  RNInv pm D r rn ->
  (forall pn, PNInv D r p pn -> wp (f pn) (fun '(pn', a) => PNInv D r p pn' /\ Q pn' a)) ->
  wp (with_period pl p s rn f)
     (fun '(rn', a) => RNInv pm D r rn' /\ rn_store rn' = rn_store rn /\ rn_fresh rn' = rn_fresh rn /\
                       exists pn', aget N.eqb p (rn_periods rn') = Some pn' /\ Q pn' a).
Proof.
  intros A pm D r pl p s rn f Q I HF. unfold with_period.
  pose proof (rn_update_inv pm D r pl p rn I) as I1.
  destruct (aget N.eqb p (rn_periods (rn_update pl p rn))) as [pn|] eqn:G; [|apply wp_panic].
  apply (aget_In N.eqb N.eqb_eq) in G.
  apply wp_bind. eapply wp_mono; [apply HF; apply pn_update_inv; eapply (rni_p _ _ _ _ I1); eauto|].
  intros [pn' a] [P1 P2]; simpl. split; [|split; [|split]]; auto.
  - destruct I1 as [A1 B1 C1]; constructor; simpl; auto.
    intros p' pn'' H. apply aset_In in H. destruct H as [[? ?]|H]; subst; auto.
  - exists pn'; split; auto. apply (aget_aset_same N.eqb N.eqb_eq).
Qed.

Lemma fresher_than_cases : forall e o, wp (fresher_than e o) (fun _ => True).
Proof. intros e o; destruct (fresher_than e o); simpl; auto. Qed.

Lemma rn_vote_accepted_spec : forall pm D r pl rn x,
  RNInv pm D r rn -> In x D -> vt_rnd x = r ->
  wp (rn_vote_accepted pm pl rn x)
     (fun '(rn', oth) => RNInv pm D r rn' /\ rn_store rn' = rn_store rn /\ thr_post pm D r oth).
Proof.
  intros pm D r pl rn x I XD XR. unfold rn_vote_accepted.
  apply wp_bind. eapply wp_mono.
  - apply (with_period_spec _ pm D r pl (vt_per x) 0 rn _ (fun _ => thr_post pm D r)); auto.
    intros pn P. eapply wp_mono; [apply (pn_vote_accepted_spec pm D r (vt_per x)); auto|].
    intros [pn' oth] H; exact H.
  - intros [rn2 oth] (I2 & S2 & F2 & pn' & _ & TP); simpl.
    destruct oth as [th|]; simpl.
    + apply wp_bind. eapply wp_mono; [apply fresher_than_cases|]. intros fb _.
      pose proof (rn_update_inv pm D r pl 0 rn2 I2) as [A B C].
      destruct fb; simpl.
      * split; [|split; auto]. constructor; simpl; auto.
      * split; [constructor; auto|]. split; auto. intros th' E; discriminate.
    + split; [|split]; auto.
Qed.

(* ---------- root level ---------- *)
Lemma root_update_inv : forall pm D pl r rt, RInv pm D rt -> RInv pm D (root_update pm pl r rt).
Proof.
  intros pm D pl r rt H r' rn I. unfold root_update in I. apply (proj1 (filter_In _ _ _)) in I; destruct I as [I _].
  destruct (ahas N.eqb r rt); auto.
  apply aset_In in I. destruct I as [[? ?]|I]; subst; auto. apply RNInv_zero.
Qed.

Lemma with_round_spec : forall A pm D pl r p rt (f : roundNode -> res (roundNode * A)) (Q : roundNode -> A -> Prop),
  RInv pm D rt ->
  (forall rn, RNInv pm D r rn -> wp (f rn) (fun '(rn', a) => RNInv pm D r rn' /\ Q rn' a)) ->
  wp (with_round pm pl r p rt f)
     (fun '(rt', a) => RInv pm D rt' /\ exists rn', aget N.eqb r rt' = Some rn' /\ Q rn' a).
Proof.
  intros A pm D pl r p rt f Q I HF. unfold with_round.
  pose proof (root_update_inv pm D pl r rt I) as I1.
  destruct (aget N.eqb r (root_update pm pl r rt)) as [rn|] eqn:G; [|apply wp_panic].
  apply (aget_In N.eqb N.eqb_eq) in G.
  apply wp_bind. eapply wp_mono; [apply HF; apply rn_update_inv; apply I1; auto|].
  intros [rn' a] [P1 P2]; simpl. split.
  - intros r' rn'' H. apply aset_In in H. destruct H as [[? ?]|H]; subst; auto.
  - exists rn'; split; auto. apply (aget_aset_same N.eqb N.eqb_eq).
Qed.

(* ---------- the proposal store keeps [SInv] ---------- *)
Lemma ps_asm_get_inv : forall r st v, SInv r st -> as_assembled (ps_asm_get st v) = true -> v_rnd v = r.
Proof.
  intros r st v H A. unfold ps_asm_get in A. destruct (aget value_eqb v (ps_asm st)) eqn:G.
  - apply (aget_In value_eqb value_eqb_eq) in G. eapply H; eauto.
  - simpl in A; discriminate.
Qed.

Lemma ps_set_asm_inv : forall r st v a, SInv r st -> (as_assembled a = true -> v_rnd v = r) -> SInv r (ps_set_asm v a st).
Proof.
  intros r st v a H HA v' a' I E; simpl in I. apply aset_In in I. destruct I as [[? ?]|I]; subst; eauto.
Qed.

Lemma fold_trim_In : forall (f : value -> assembler) keys acc v a,
  In (v, a) (fold_left (fun acc k => aset value_eqb k (f k) acc) keys acc) ->
  In (v, a) acc \/ a = f v.
Proof.
  induction keys as [|k ks IH]; simpl; intros acc v a H; auto.
  apply IH in H. destruct H as [H|H]; auto.
  apply aset_In in H. destruct H as [[? ?]|H]; subst; auto.
Qed.

Lemma ps_trim_inv : forall r pl st, SInv r st -> SInv r (ps_trim pl st).
Proof.
  intros r pl st H v a I E. unfold ps_trim in I; cbn [ps_asm] in I.
  apply (adel_In value_eqb value_eqb_eq) in I. destruct I as [I _].
  apply (fold_trim_In (fun k => asm_trim (p_per pl) (ps_asm_get st k))) in I. destruct I as [[]|I]. subst a. simpl in E.
  eapply ps_asm_get_inv; eauto.
Qed.

Lemma SInv_relevant : forall r st rel pin, SInv r st -> SInv r (mkPS rel pin (ps_asm st)).
Proof. intros r st rel pin H v a I E; simpl in I; eauto. Qed.

Lemma RNInv_set_store : forall pm D r rn st, RNInv pm D r rn -> SInv r st -> RNInv pm D r (rn_set_store st rn).
Proof. intros pm D r rn st [A B C] S; constructor; simpl; auto. Qed.

(* operations on the proposal tracker never touch the vote trackers *)
Lemma pn_pt_op_spec : forall A D r p pn (f : ptracker -> res (ptracker * A)) (Q : ptracker -> A -> Prop),
  PNInv D r p pn ->
  wp (f (pn_pt pn)) (fun '(t, a) => Q t a) ->
  wp (pn_pt_op f pn) (fun '(pn', a) => PNInv D r p pn' /\ Q (pn_pt pn') a).
Proof.
  intros A D r p pn f Q I H. unfold pn_pt_op. apply wp_bind. eapply wp_mono; [exact H|].
  intros [t a] HQ; simpl. split; auto.
Qed.
