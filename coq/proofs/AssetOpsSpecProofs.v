(* C22 proofs, part 5: the executable checker [spec_step] (model/AssetOpsSpec.v) never reports
   a violation on a transaction of the model, and [supply_ok] is sound. *)
From Coq Require Import NArith PeanoNat List Bool Lia ZifyN ZifyNat ZifyBool.
From Verif.model Require Import Overflow AssocList AssetOps AssetOpsSpec.
From Verif.proofs Require Import OverflowProofs AssocListProofs AssetOpsProofs AssetOpsInv AssetOpsRules
  AssetOpsTheorems.
Import ListNotations.
Open Scope N_scope.

(* ------------------------------------------------------------------ equalities *)
Lemma holding_eqb_eq x y : holding_eqb x y = true <-> x = y.
Proof.
  destruct x as [a f], y as [b g]. unfold holding_eqb. cbn.
  rewrite andb_true_iff, N.eqb_eq, eqb_true_iff. split; [intros [-> ->]; reflexivity|intros [= -> ->]; auto].
Qed.

Lemma params_eqb_eq x y : params_eqb x y = true <-> x = y.
Proof.
  destruct x, y. unfold params_eqb. cbn.
  rewrite !andb_true_iff, !N.eqb_eq, eqb_true_iff. split.
  - intros [[[[[[-> ->] ->] ->] ->] ->] ->]. reflexivity.
  - intros [= -> -> -> -> -> -> ->]. repeat split.
Qed.

Lemma hold_equiv_same w w' : NoDup (map fst (w_hold w)) -> w_hold w' = w_hold w -> hold_equiv w w' = true.
Proof. intros N E. unfold hold_equiv. rewrite E. apply aequiv_refl; auto using pair_eqb_eq, holding_eqb_eq. Qed.
Lemma par_equiv_same w w' : NoDup (map fst (w_par w)) -> w_par w' = w_par w -> par_equiv w w' = true.
Proof. intros N E. unfold par_equiv. rewrite E. apply aequiv_refl; auto using pair_eqb_eq, params_eqb_eq. Qed.
Lemma cre_equiv_same w w' : NoDup (map fst (w_creator w)) -> w_creator w' = w_creator w -> cre_equiv w w' = true.
Proof. intros N E. unfold cre_equiv. rewrite E. apply aequiv_refl; auto using Neqb_eq. Qed.

Lemma amt_at_amt_in w k : amt_at w k = amt_in (w_hold w) k.
Proof. reflexivity. Qed.

(* ------------------------------------------------------------------ supply_ok *)
Lemma supply_ok_sound w : supply_ok w = true ->
  forall a cr p, creator_of w a = Some cr -> aget pair_eqb (cr, a) (w_par w) = Some p ->
    supply w a = p_total p.
Proof.
  unfold supply_ok. rewrite andb_true_iff. intros [H _] a cr p Hc Hp.
  rewrite forallb_forall in H. apply (aget_In N.eqb Neqb_eq) in Hc. specialize (H _ Hc).
  cbn [fst snd] in H. rewrite Hp in H. apply N.eqb_eq. exact H.
Qed.

Lemma Inv_supply_ok w : Inv w -> supply_ok w = true.
Proof.
  intros I. unfold supply_ok. rewrite andb_true_iff, !forallb_forall. split.
  - intros [a c] Hin. cbn [fst snd].
    assert (creator_of w a = Some c) as Hc by (apply (In_aget N.eqb Neqb_eq); [apply I|exact Hin]).
    destruct (i_cp w I a c Hc) as (p & Hp & _ & Hs & _). rewrite Hp. apply N.eqb_eq. exact Hs.
  - intros [[x a] h] Hin. cbn [fst snd]. destruct (ahas N.eqb a (w_creator w)) eqn:E; [reflexivity|].
    apply (ahas_false N.eqb) in E. cbn. apply N.eqb_eq.
    assert (hget (x, a) (w_hold w) = Some h) as Hh by (apply (In_aget pair_eqb pair_eqb_eq); [apply I|exact Hin]).
    pose proof (amt_in_le_sup (w_hold w) x a) as L. unfold amt_in in L. rewrite Hh in L.
    rewrite <- supply_sup, (i_ns w I a E) in L. lia.
Qed.

Lemma state_equiv_same w w' : Inv w ->
  w_hold w' = w_hold w -> w_par w' = w_par w -> w_creator w' = w_creator w ->
  asset_state_equiv w w' = true.
Proof.
  intros I A B C. unfold asset_state_equiv.
  rewrite hold_equiv_same, par_equiv_same, cre_equiv_same; auto; apply I.
Qed.

(* ------------------------------------------------------------------ frozen_changed *)
Lemma frozen_changed_in before after k : NoDup (map fst (w_hold before)) ->
  In k (frozen_changed before after) ->
  exists h, hget k (w_hold before) = Some h /\ h_frozen h = true /\ amt_at after k <> h_amt h.
Proof.
  intros Nd. unfold frozen_changed. rewrite in_map_iff. intros ([k' h] & <- & Hin).
  apply filter_In in Hin. destruct Hin as [Hin Hf]. cbn [fst snd] in *.
  apply andb_true_iff in Hf. destruct Hf as [Hf Hne]. apply negb_true_iff, N.eqb_neq in Hne.
  exists h. split; [apply (In_aget pair_eqb pair_eqb_eq); assumption|auto].
Qed.

(* ------------------------------------------------------------------ transfers *)
Lemma spec_xfer_model w w1 s a amt r asnd ct v :
  Inv w -> xfer_rel s a amt r asnd ct w w1 v ->
  spec_xfer w (bump w1) s a amt r asnd ct v <> 1.
Proof.
  intros I X. pose proof X as X0.
  destruct (xfer_amounts_ok _ _ _ _ _ _ _ _ _ I X) as (Hle & Hv & Ham).
  destruct (both_opted_in_rel _ _ _ _ _ _ _ _ _ X) as (Hop1 & Hop2).
  destruct (xfer_summary _ _ _ _ _ _ _ _ _ I X) as ((Fp & Fc & _) & _).
  cbn zeta in *. unfold spec_xfer. set (source := if asnd =? 0 then s else asnd) in *.
  (* auth *)
  assert (((asnd =? 0) ||
           match params_of w a with
           | Some p => (p_clawback p =? s) && negb (s =? 0)
           | None => false
           end) = true) as ->.
  { destruct X as [src claw w1' w2 w3 Hsrc _ _ _ _].
    destruct Hsrc as [(-> & _)|(_ & _ & _ & p & cr & Hc & Hp & Hcl & Hs)]; [reflexivity|].
    unfold params_of. rewrite Hc, Hp. apply N.eqb_eq in Hcl. apply N.eqb_neq in Hs. rewrite Hcl, Hs.
    apply orb_true_r. }
  (* opted *)
  assert ((((amt =? 0) || (has_hold w (source, a) && has_hold w (r, a))) &&
           ((ct =? 0) || (v =? 0) || has_hold w (ct, a))) = true) as ->.
  { apply andb_true_iff. split.
    - destruct (amt =? 0) eqn:E; [reflexivity|]. apply N.eqb_neq in E. destruct (Hop1 E) as [A B].
      unfold has_hold. cbn. apply andb_true_iff. split; apply (ahas_true pair_eqb); apply neq_none_some; assumption.
    - destruct (ct =? 0) eqn:E; [reflexivity|]. destruct (v =? 0) eqn:E2; [reflexivity|].
      apply N.eqb_neq in E, E2. cbn. apply (ahas_true pair_eqb). apply neq_none_some. auto. }
  (* amounts *)
  assert (((amt <=? amt_at w (source, a)) && (v =? xfer_closing (amt_at w) source a amt r ct) &&
           forallb (fun k => amt_at (bump w1) k =? xfer_amounts (amt_at w) source a amt r ct k)
             ((source, a) :: (r, a) :: (ct, a) :: keys_of w (bump w1))) = true) as ->.
  { rewrite !andb_true_iff. split; [split|].
    - apply N.leb_le. exact Hle.
    - apply N.eqb_eq. exact Hv.
    - apply forallb_forall. intros k _. apply N.eqb_eq. apply Ham. }
  (* close *)
  assert (((ct =? 0) || ((asnd =? 0) && negb (opt_eqb N.eqb (creator_of w a) (Some s)) &&
                          negb (has_hold (bump w1) (s, a)))) = true) as ->.
  { destruct (ct =? 0) eqn:E; [reflexivity|]. apply N.eqb_neq in E.
    destruct (close_out_rel _ _ _ _ _ _ _ _ _ I X E) as (-> & B & C). cbn.
    apply andb_true_iff. split.
    - apply negb_true_iff. destruct (creator_of w a) as [c0|]; cbn; [|reflexivity].
      apply N.eqb_neq. intros ->. apply B. reflexivity.
    - apply negb_true_iff. apply (ahas_false pair_eqb). exact C. }
  (* frame *)
  assert ((par_equiv w (bump w1) && cre_equiv w (bump w1)) = true) as ->.
  { rewrite par_equiv_same, cre_equiv_same; auto; apply I. }
  cbn [andb negb].
  destruct (frozen_changed w (bump w1)) as [|k0 fc] eqn:Efc; [discriminate|].
  assert (forall k, In k (k0 :: fc) ->
            exists h, hget k (w_hold w) = Some h /\ h_frozen h = true /\ amt_in (w_hold w1) k <> h_amt h) as Hin.
  { intros k Hk. rewrite <- Efc in Hk. apply frozen_changed_in in Hk; [exact Hk|apply I]. }
  destruct (asnd =? 0) eqn:Ea; cbn [negb].
  - apply N.eqb_eq in Ea. subst asnd.
    assert (forall k, In k (k0 :: fc) ->
              ct <> 0 /\ creator_of w a = Some ct /\ snd k = a /\ (fst k = s \/ fst k = ct)) as Hall.
    { intros [x a'] Hk. destruct (Hin _ Hk) as (h & Eh & Hf & Hne).
      exact (frozen_close_to_creator _ _ _ _ _ _ _ _ I X0 x a' h Eh Hf Hne). }
    destruct (Hall k0 (or_introl eq_refl)) as (Hct & Hcr & _).
    apply N.eqb_neq in Hct. rewrite Hct, Hcr. cbn [negb andb opt_eqb]. rewrite N.eqb_refl. cbn [andb].
    assert (forallb (fun k => (snd k =? a) && ((fst k =? s) || (fst k =? ct))) (k0 :: fc) = true) as ->.
    { apply forallb_forall. intros k Hk. destruct (Hall k Hk) as (_ & _ & A & B).
      apply andb_true_iff. split; [apply N.eqb_eq; exact A|].
      apply orb_true_iff. destruct B; [left|right]; apply N.eqb_eq; assumption. }
    discriminate.
  - apply N.eqb_neq in Ea.
    assert (forallb (fun k => snd k =? a) (k0 :: fc) = true) as ->; [|discriminate].
    apply forallb_forall. intros [x a'] Hk. destruct (Hin _ Hk) as (h & Eh & Hf & Hne). cbn [snd].
    apply N.eqb_eq. destruct (N.eq_dec a' a) as [E|E]; auto. exfalso. apply Hne. rewrite Ham.
    assert (forall y, pair_eqb (x, a') (y, a) = false) as Hk'.
    { intros y. apply pair_eqb_false. intros [= _ E']. contradiction. }
    unfold xfer_amounts, pupd. destruct (ct =? 0); cbn beta; rewrite !Hk'; unfold amt_in; rewrite Eh; reflexivity.
Qed.

(* ------------------------------------------------------------------ configuration *)
Lemma params_eqb_refl p : params_eqb p p = true.
Proof. apply params_eqb_eq. reflexivity. Qed.

Lemma spec_create_model w w1 s cp v :
  Inv w -> create_rel s cp w w1 v -> spec_config w (bump w1) s 0 cp v = 0.
Proof.
  intros I (-> & Hn & Hh & Hp & Hc). set (v := w_counter w + 1) in *.
  unfold spec_config. cbn [N.eqb].
  assert (creator_of w v = None) as Cn.
  { destruct (creator_of w v) as [c|] eqn:E; auto. pose proof (i_id w I v c E). lia. }
  assert ((negb (ahas N.eqb v (w_creator w)) && negb (v =? 0) &&
           forallb (fun k => negb (snd k =? v)) (map fst (w_hold w))) = true) as ->.
  { rewrite !andb_true_iff. split; [split|].
    - apply negb_true_iff. apply (ahas_false N.eqb). exact Cn.
    - apply negb_true_iff. apply N.eqb_neq. unfold v. lia.
    - apply forallb_forall. intros [x a] Hin. cbn [snd]. apply negb_true_iff, N.eqb_neq. intros ->.
      apply in_map_iff in Hin. destruct Hin as ([k h] & E & Hin). cbn in E. subst k.
      apply (In_aget pair_eqb pair_eqb_eq) in Hin; [|apply I].
      pose proof (i_hid w I x v h Hin). unfold v in *. lia. }
  assert ((opt_eqb N.eqb (creator_of (bump w1) v) (Some s) &&
           opt_eqb params_eqb (params_of (bump w1) v) (Some cp) &&
           (amt_at (bump w1) (s, v) =? p_total cp)) = true) as ->.
  { assert (creator_of (bump w1) v = Some s) as Ec.
    { unfold creator_of. cbn. rewrite Hc. apply (aget_aset_eq N.eqb Neqb_eq). }
    unfold params_of. rewrite Ec. cbn [bump w_par]. rewrite Hp, (aget_aset_eq pair_eqb pair_eqb_eq).
    cbn. rewrite N.eqb_refl, params_eqb_refl. cbn.
    unfold amt_at. cbn [bump w_hold]. rewrite Hh, (aget_aset_eq pair_eqb pair_eqb_eq). cbn. apply N.eqb_refl. }
  assert (forallb (fun k => pair_eqb k (s, v) || (amt_at (bump w1) k =? amt_at w k)) (keys_of w (bump w1)) = true) as ->.
  { apply forallb_forall. intros k _. destruct (pair_eqb k (s, v)) eqn:E; [reflexivity|]. cbn.
    apply N.eqb_eq. rewrite !amt_at_amt_in. cbn [bump w_hold]. rewrite Hh, amt_in_hset, E. reflexivity. }
  reflexivity.
Qed.

Lemma spec_destroy_model w w1 s a cp v :
  Inv w -> a <> 0 -> params_is_zero cp = true -> destroy_rel s a w w1 ->
  spec_config w (bump w1) s a cp v = 0.
Proof.
  intros I Ha Hz D. destruct (destroy_full_holding _ _ _ _ I D) as (c & p & Hc & Hp & Hm & Hs & Hfull & _ & Hgone & _).
  destruct D as (p0 & c0 & Hc0 & Hp0 & _ & _ & _ & _ & Hh & Hpp & Hcc).
  rewrite Hc in Hc0. inversion Hc0; subst c0.
  unfold spec_config. apply N.eqb_neq in Ha. rewrite Ha, Hc, Hp, Hz.
  apply N.eqb_eq in Hm. apply N.eqb_neq in Hs. rewrite Hm, Hs. cbn [negb andb].
  assert ((amt_at w (c, a) =? p_total p) = true) as ->.
  { apply N.eqb_eq. exact Hfull. }
  assert ((opt_eqb N.eqb (creator_of (bump w1) a) None && negb (ahas pair_eqb (c, a) (w_par (bump w1)))) = true) as ->.
  { change (creator_of (bump w1) a) with (creator_of w1 a). rewrite Hgone. cbn.
    apply negb_true_iff. apply (ahas_false pair_eqb). rewrite Hpp.
    apply (aget_adel_eq pair_eqb pair_eqb_eq). apply I. }
  assert (forallb (fun k => pair_eqb k (c, a) || (amt_at (bump w1) k =? amt_at w k)) (keys_of w (bump w1)) = true) as ->.
  { apply forallb_forall. intros k _. destruct (pair_eqb k (c, a)) eqn:E; [reflexivity|]. cbn.
    apply N.eqb_eq. rewrite !amt_at_amt_in. cbn [bump w_hold]. rewrite Hh, amt_in_hdel, E by apply I. reflexivity. }
  reflexivity.
Qed.

Lemma spec_reconf_model w w1 s a cp v :
  Inv w -> a <> 0 -> params_is_zero cp = false -> reconf_rel s a cp w w1 ->
  spec_config w (bump w1) s a cp v = 0.
Proof.
  intros I Ha Hz (p & c & Hc & Hp & Hm & Hs & Hh & Hcc & Hn & Hpp).
  unfold spec_config. apply N.eqb_neq in Ha. rewrite Ha. unfold params_of at 1. rewrite Hc, Hp, Hz.
  apply N.eqb_eq in Hm. apply N.eqb_neq in Hs. rewrite Hm, Hs. cbn [negb andb].
  rewrite hold_equiv_same, cre_equiv_same by (auto; apply I). cbn [andb].
  assert (creator_of (bump w1) a = Some c) as Ec.
  { unfold creator_of. cbn. rewrite Hcc. exact Hc. }
  unfold params_of. rewrite Ec. cbn [bump w_par]. rewrite Hpp, (aget_aset_eq pair_eqb pair_eqb_eq).
  cbn. rewrite params_eqb_refl. reflexivity.
Qed.

Lemma spec_freeze_model w w1 s a x f :
  Inv w -> freeze_rel s a x f w w1 -> spec_freeze w (bump w1) s a x f = 0.
Proof.
  intros I [(Fp & Fc & _) (p & c & h & Hc & Hp & Hf & Hs & Hh & Hw)].
  unfold spec_freeze. unfold params_of. rewrite Hc, Hp.
  apply N.eqb_eq in Hf. apply N.eqb_neq in Hs. rewrite Hf, Hs. cbn [negb andb].
  assert (forallb (fun k => amt_at (bump w1) k =? amt_at w k) (keys_of w (bump w1)) = true) as ->.
  { apply forallb_forall. intros k _. apply N.eqb_eq. rewrite !amt_at_amt_in. cbn [bump w_hold].
    rewrite Hw, amt_in_hset. destruct (pair_eqb k (x, a)) eqn:E; [|reflexivity].
    apply pair_eqb_eq in E. subst k. unfold amt_in. rewrite Hh. reflexivity. }
  cbn [bump w_hold]. rewrite Hw, (aget_aset_eq pair_eqb pair_eqb_eq). cbn [h_frozen].
  rewrite eqb_reflx. rewrite par_equiv_same, cre_equiv_same by (auto; apply I).
  unfold has_hold. rewrite (proj2 (ahas_true pair_eqb (x, a) (w_hold w))) by eauto. reflexivity.
Qed.

(* ------------------------------------------------------------------ every transaction *)
Lemma spec_step_model maxassets w o : Inv w -> op_wf o ->
  let '(w', r) := step maxassets w o in
  spec_step w o (res_ok r) (res_val r) w' <> 1.
Proof.
  intros I Hwf. pose proof (Inv_step maxassets w o I Hwf) as I'.
  destruct (step maxassets w o) as [w' r] eqn:Es. cbn [fst] in I'.
  unfold spec_step. rewrite (Inv_supply_ok _ I'). cbn [negb].
  destruct r as [v|e]; cbn [res_ok res_val negb].
  2:{ apply failing_op_changes_nothing in Es. subst w'.
      rewrite state_equiv_same; auto; discriminate. } apply step_ok_inv in Es. destruct Es as (w1 & Ea & ->).
  destruct o as [s a cp|s a amt r asnd ct|s a x f|]; cbn [apply_op op_wf] in *.
  - apply assetConfig_ok in Ea.
    destruct Ea as [[-> H]|[(Hn & Hz & H & ->)|(Hn & Hz & H & ->)]].
    + rewrite (spec_create_model _ _ _ _ _ I H). discriminate.
    + rewrite (spec_destroy_model _ _ _ _ _ _ I Hn Hz H). discriminate.
    + rewrite (spec_reconf_model _ _ _ _ _ _ I Hn Hz H). discriminate.
  - apply assetTransfer_ok in Ea; auto; [|apply Inv_hb; exact I].
    apply spec_xfer_model; assumption.
  - apply assetFreeze_ok in Ea. destruct Ea as [H ->].
    rewrite (spec_freeze_model _ _ _ _ _ _ I H). discriminate.
  - inversion Ea; subst. rewrite state_equiv_same; auto. discriminate.
Qed.

Theorem model_meets_spec : forall maxassets c ops o, Forall op_wf ops -> op_wf o ->
  let w := run maxassets (winit c) ops in
  let '(w', r) := step maxassets w o in
  spec_step w o (res_ok r) (res_val r) w' <> 1.
Proof.
  intros maxassets c ops o H Ho. cbn zeta. apply spec_step_model; auto.
  apply Inv_reachable. exact H.
Qed.

(* groups: the checker's predicate for a whole group holds of the model *)
Theorem model_meets_spec_group : forall maxassets c gs g, Forall (Forall op_wf) gs -> Forall op_wf g ->
  let w := grun maxassets (winit c) gs in
  let '(w', r, _) := gstep maxassets w g in
  spec_group w (res_ok_l r) w' = 0.
Proof.
  intros maxassets c gs g F Fg. cbn zeta.
  assert (Inv (grun maxassets (winit c) gs)) as I by (apply Inv_grun; [apply Inv_winit|exact F]).
  pose proof (Inv_gstep maxassets _ g I Fg) as I'.
  destruct (gstep maxassets (grun maxassets (winit c) gs) g) as [[w' r] k] eqn:E. cbn [fst] in I'.
  unfold spec_group. rewrite (Inv_supply_ok _ I'). cbn [negb].
  destruct r as [vs|e]; cbn [res_ok_l negb]; [reflexivity|].
  apply failing_group_changes_nothing in E. subst w'. rewrite state_equiv_same; auto.
Qed.
