(* C10 proofs, part 4: iterating the asset / application listing with "id greater than" tokens
   (Ledger-level protocol and the v2 handler's limit+1 protocol) enumerates the listing exactly. *)
From Coq Require Import NArith Arith List Bool Lia ZifyN ZifyNat ZifyBool Sorted Permutation.
From Verif.model Require Import Paging PagingSpec.
From Verif.proofs Require Import PagingBase PagingRes.
Import ListNotations.
Open Scope N_scope.

(* all pages but the last are full, the last one is short *)
Fixpoint res_pages_shape (limit : N) (ps : list (list (N * ritem))) : bool :=
  match ps with
  | [] => false
  | [p] => nlen p <? limit
  | p :: t => (nlen p =? limit) && res_pages_shape limit t
  end.
(* handler protocol: all pages but the last have exactly limit entries, the last at most limit *)
Fixpoint res_pages_shape_h (limit : N) (ps : list (list (N * ritem))) : bool :=
  match ps with
  | [] => false
  | [p] => nlen p <=? limit
  | p :: t => (nlen p =? limit) && res_pages_shape_h limit t
  end.

Section Iter.
  Variable Lf : N -> list (N * ritem).
  Hypothesis Lsorted : forall g, nsorted (Lf g).
  Hypothesis Lsuffix : forall g g', g <= g' -> Lf g' = filter (fun x => g' <? fst x) (Lf g).
  Hypothesis Lgt : forall g x, In x (Lf g) -> g < fst x.
  Variable pagef : N -> N -> list (N * ritem).
  Variable bound : N.
  Hypothesis Hpage : forall g l, 1 <= l -> l <= bound -> pagef g l = firstn (N.to_nat l) (Lf g).

  (* after a full page the listing above its last id is what was not returned yet *)
  Lemma next_listing : forall g n it,
    last_opt (firstn n (Lf g)) = Some it -> Lf (fst it) = skipn n (Lf g).
  Proof.
    intros g n it Hl. destruct (last_opt_split _ _ Hl) as [p' Hp'].
    assert (Hin : In it (Lf g)).
    { rewrite <- (firstn_skipn n (Lf g)), Hp'. apply in_or_app. left. apply in_or_app. right. left. auto. }
    rewrite (Lsuffix g (fst it)) by (specialize (Lgt g it Hin); lia).
    rewrite <- (firstn_skipn n (Lf g)) at 1. rewrite Hp', <- app_assoc. cbn [app].
    apply (ssorted_above_last N.ltb n_ord p' it (skipn n (Lf g))).
    pose proof (Lsorted g) as Hs. rewrite <- (firstn_skipn n (Lf g)), Hp', <- app_assoc in Hs. exact Hs.
  Qed.

  Theorem res_iter_generic : forall limit, 1 <= limit -> limit <= bound ->
    forall fuel g, (length (Lf g) < fuel)%nat ->
    exists ps, res_iter fuel pagef limit g = (ps, false) /\
               List.concat ps = Lf g /\ res_pages_shape limit ps = true.
  Proof.
    intros limit H1 H2. induction fuel as [|f IH]; intros g Hf; [lia|].
    cbn [res_iter]. rewrite (Hpage g limit H1 H2).
    remember (N.to_nat limit) as n eqn:Hn. set (pg := firstn n (Lf g)).
    destruct (nlen pg <? limit) eqn:E.
    - exists [pg]. split; auto. cbn. rewrite app_nil_r, E. split; auto.
      unfold pg. apply firstn_all2. unfold nlen, pg in E. rewrite firstn_length in E. lia.
    - assert (Hlen : length pg = n).
      { unfold nlen, pg in *. rewrite firstn_length in *. lia. }
      destruct (last_opt pg) as [it|] eqn:El.
      2:{ apply last_opt_none in El. rewrite El in Hlen. cbn in Hlen. lia. }
      pose proof (next_listing g n it El) as Hnext.
      assert (Hle : (n <= length (Lf g))%nat).
      { rewrite <- Hlen at 1. unfold pg. rewrite firstn_length. lia. }
      destruct (IH (fst it)) as [ps [Hit [Hcat Hsh]]].
      { rewrite Hnext, skipn_length. lia. }
      rewrite Hit. exists (pg :: ps). split; auto. split.
      + cbn. rewrite Hcat, Hnext. apply firstn_skipn.
      + cbn [res_pages_shape]. destruct ps as [|p0 ps']; [cbn in Hsh; discriminate|].
        rewrite Hsh. unfold nlen. rewrite Hlen. assert (N.of_nat n =? limit = true) as -> by lia. auto.
  Qed.

  Theorem res_iter_h_generic : forall limit, 1 <= limit -> limit + 1 <= bound ->
    forall fuel g, (length (Lf g) < fuel)%nat ->
    exists ps, res_iter_h fuel pagef limit g = (ps, false) /\
               List.concat ps = Lf g /\ res_pages_shape_h limit ps = true.
  Proof.
    intros limit H1 H2. induction fuel as [|f IH]; intros g Hf; [lia|].
    cbn [res_iter_h]. rewrite (Hpage g (limit + 1)) by lia.
    remember (N.to_nat limit) as n eqn:Hn.
    replace (N.to_nat (limit + 1)) with (S n) by lia.
    destruct (limit <? nlen (firstn (S n) (Lf g))) eqn:E.
    - assert (Hlen : (S n <= length (Lf g))%nat).
      { unfold nlen in E. rewrite firstn_length in E. lia. }
      rewrite firstn_firstn. replace (Init.Nat.min n (S n)) with n by lia.
      set (pg := firstn n (Lf g)).
      assert (Hpl : length pg = n) by (unfold pg; rewrite firstn_length; lia).
      destruct (last_opt pg) as [it|] eqn:El.
      2:{ apply last_opt_none in El. rewrite El in Hpl. cbn in Hpl. lia. }
      pose proof (next_listing g n it El) as Hnext.
      destruct (IH (fst it)) as [ps [Hit [Hcat Hsh]]].
      { rewrite Hnext, skipn_length. lia. }
      rewrite Hit. exists (pg :: ps). split; auto. split.
      + cbn. rewrite Hcat, Hnext. apply firstn_skipn.
      + cbn [res_pages_shape_h]. destruct ps as [|p0 ps']; [cbn in Hsh; discriminate|].
        rewrite Hsh. unfold nlen. rewrite Hpl. assert (N.of_nat n =? limit = true) as -> by lia. auto.
    - exists [firstn (S n) (Lf g)]. split; auto.
      assert (Hall : firstn (S n) (Lf g) = Lf g).
      { apply firstn_all2. unfold nlen in E. rewrite firstn_length in E. lia. }
      split; [cbn; rewrite app_nil_r; exact Hall|]. cbn [res_pages_shape_h]. lia.
  Qed.
End Iter.

(* ------------------------------------------------------------------------------------------ *)
(* instantiation with the model                                                               *)
(* ------------------------------------------------------------------------------------------ *)
Section Instance.
  Variables (app incl : bool) (rows : list dbrow) (crs : list (N * N)) (deltas : list (list rrec))
            (owner : N -> N) (addr bound : N).
  Hypothesis Hwf : res_wf app rows crs (r_flat deltas) owner.
  Hypothesis Haddr : addr <> 0.
  (* no uint64 / int64 wrap-around of limit + numDeltaDeleted for any page size up to [bound] *)
  Hypothesis Hnowrap : forall g, bound + w_nd (walk addr g deltas) < 2 ^ 63.

  Let Lf := fun g => res_listing app incl rows deltas addr g.
  Let pagef := fun g l => res_page app incl rows crs deltas addr g l.

  Lemma inst_sorted : forall g, nsorted (Lf g).
  Proof. intro g. apply (r_L_sorted app incl rows deltas addr g). Qed.

  Lemma inst_in : forall g x, In x (Lf g) <->
    g < fst x /\ res_item app incl rows (r_flat deltas) addr (fst x) = Some x.
  Proof. intros g x. apply (r_L_in app incl rows deltas addr g Haddr). Qed.

  Lemma inst_suffix : forall g g', g <= g' -> Lf g' = filter (fun x => g' <? fst x) (Lf g).
  Proof.
    intros g g' Hg. apply ssorted_unique with (ltb := N.ltb); auto.
    - apply inst_sorted.
    - apply ssorted_filter, inst_sorted.
    - intro x. rewrite filter_In, !inst_in. split.
      + intros [H1 H2]. repeat split; auto; lia.
      + intros [[H1 H2] H3]. split; auto. lia.
  Qed.

  Lemma inst_page : forall g l, 1 <= l -> l <= bound -> pagef g l = firstn (N.to_nat l) (Lf g).
  Proof.
    intros g l H1 H2. unfold pagef, Lf.
    apply (res_page_firstn app incl rows crs deltas owner addr g Hwf Haddr l H1).
    specialize (Hnowrap g). lia.
  Qed.

  Theorem res_iter_exact : forall limit, 1 <= limit -> limit <= bound ->
    forall fuel g, (length (Lf g) < fuel)%nat ->
    exists ps, res_iter fuel pagef limit g = (ps, false) /\
               List.concat ps = Lf g /\ res_pages_shape limit ps = true.
  Proof.
    intros. apply (res_iter_generic Lf inst_sorted inst_suffix (fun g x H => proj1 (proj1 (inst_in g x) H))
                     pagef bound inst_page); auto.
  Qed.

  Theorem res_iter_h_exact : forall limit, 1 <= limit -> limit + 1 <= bound ->
    forall fuel g, (length (Lf g) < fuel)%nat ->
    exists ps, res_iter_h fuel pagef limit g = (ps, false) /\
               List.concat ps = Lf g /\ res_pages_shape_h limit ps = true.
  Proof.
    intros. apply (res_iter_h_generic Lf inst_sorted inst_suffix (fun g x H => proj1 (proj1 (inst_in g x) H))
                     pagef bound inst_page); auto.
  Qed.
End Instance.

Lemma res_listing_spec : forall app incl rows deltas addr gt, addr <> 0 ->
  ssorted N.ltb (res_listing app incl rows deltas addr gt) /\
  forall x, In x (res_listing app incl rows deltas addr gt) <->
    gt < fst x /\ res_item app incl rows (r_flat deltas) addr (fst x) = Some x.
Proof.
  intros. split; [apply (r_L_sorted app incl rows deltas addr gt) | apply (r_L_in app incl rows deltas addr gt H)].
Qed.
