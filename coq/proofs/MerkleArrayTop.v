(* C37: the statements about Build / Prove / Verify themselves (plain arrays). *)
From Coq Require Import NArith List Bool Arith Lia ZifyN ZifyNat ZifyBool Sorted Permutation.
From Verif.model Require Import MerkleArray.
From Verif.proofs Require Import MerkleArrayBasics MerkleArrayStruct MerkleArraySound.
Import ListNotations.

Section Top.
  Variable E : Type.
  Variable s : nat.
  Variable hleaf : E -> digest.
  Variable hbottom : digest.
  Variable hnode : list N -> digest.
  Hypothesis Hlen_leaf : forall e, length (hleaf e) = s.
  Hypothesis Hlen_bottom : length hbottom = s.
  Hypothesis Hlen_node : forall b, length (hnode b) = s.
  #[local] Set Default Proof Using "Hlen_leaf Hlen_bottom Hlen_node".

  Notation nextLayer := (nextLayer s hnode).
  Notation levelsOf := (levelsOf s hnode).
  Notation upV := (upV s hnode).
  Notation vloop := (vloop s hnode).
  Notation chain := (chain s hnode).
  Notation build := (build E s hleaf hnode).
  Notation verify_gen := (verify_gen E s hleaf hnode).
  Notation verify := (verify E s hleaf hnode).
  Notation verify_unfixed := (verify_unfixed E s hleaf hnode).
  Notation vloop_unfold := (vloop_unfold s hnode Hlen_node).
  Notation upV_props := (upV_props s hnode Hlen_node).
  Notation upV_err_not_ok := (upV_err_not_ok s hnode Hlen_node).
  Notation chain_nonempty := (chain_nonempty s hnode Hlen_node).
  Notation levelsOf_chain := (levelsOf_chain s hnode Hlen_node).
  Notation vloop_O := (vloop_O s hnode Hlen_node).
  Notation vloop_S := (vloop_S s hnode Hlen_node).
  Notation inspectRoot_ok := (inspectRoot_ok s hnode Hlen_node).
  Notation nextLayer_length := (nextLayer_length s hnode Hlen_node).
  Notation loop_complete := (loop_complete s hnode Hlen_node).

  Definition claimpl (elems : list (N * E)) : list (N * digest) :=
    sortK (map (fun pe => (fst pe, hleaf (snd pe))) elems).

  Lemma verify_gen_nonempty : forall checked root elems pf, elems <> [] ->
    verify_gen checked root elems pf =
    if existsb (fun pe => negb (fst pe <? shl1 (p_depth pf))%N) elems then VErrPos
    else if checked && negb (forallb (hint_len_ok s) (p_path pf)) then VErrHintLen
    else vloop (length (p_path pf) + length (claimpl elems) + 1) root (claimpl elems) (p_path pf).
  Proof. intros checked root [|x l] pf H; [contradiction | reflexivity]. Qed.

  Lemma rootOf_levels : forall lv n vc, lv <> [] -> rootOf (mkTree lv n vc) = hd [] (last lv []).
  Proof. intros [|x l] n vc H; [contradiction | reflexivity]. Qed.

  Lemma claimpl_in : forall elems p h, In (p, h) (claimpl elems) <-> exists e, In (p, e) elems /\ h = hleaf e.
  Proof.
    intros elems p h. unfold claimpl. rewrite sortK_in, in_map_iff. split.
    - intros ([p' e] & Heq & Hin). cbn in Heq. inversion Heq; subst. eauto.
    - intros (e & Hin & ->). exists (p, e). split; [reflexivity | assumption].
  Qed.

  Lemma claimpl_nonempty : forall elems, elems <> [] -> claimpl elems <> [].
  Proof.
    intros elems H Hc. apply H. apply length_zero_iff_nil.
    unfold claimpl in Hc. apply (f_equal (@length _)) in Hc. rewrite sortK_length, map_length in Hc. exact Hc.
  Qed.

  Lemma hints_ok_of_forallb : forall path, forallb (hint_len_ok s) path = true -> Forall (hintok s) path.
  Proof.
    intros path H. rewrite forallb_forall in H. apply Forall_forall. intros h Hh. specialize (H h Hh).
    unfold hint_len_ok in H. apply orb_true_iff in H. destruct H as [H|H]; apply Nat.eqb_eq in H.
    - left. apply length_zero_iff_nil. assumption.
    - right. assumption.
  Qed.

  (* ---- a wrong root is rejected: the accepted root is a function of (elements, proof) ---- *)
  Lemma vloop_root_unique : forall fuel r1 r2 pl hints,
    vloop fuel r1 pl hints = VOk -> vloop fuel r2 pl hints = VOk -> r1 = r2.
  Proof.
    induction fuel as [|f IH]; intros r1 r2 pl hints H1 H2.
    - apply vloop_O in H1, H2. destruct H1 as (_ & _ & H1). destruct H2 as (_ & _ & H2).
      apply inspectRoot_ok in H1, H2. destruct H1 as [? ->]. destruct H2 as [? H2]. inversion H2. reflexivity.
    - apply vloop_S in H1, H2.
      destruct H1 as [(Hh1 & Hl1 & H1)|(pl1 & hs1 & Eu1 & H1)]; destruct H2 as [(Hh2 & Hl2 & H2)|(pl2 & hs2 & Eu2 & H2)].
      + apply inspectRoot_ok in H1, H2. destruct H1 as [? ->]. destruct H2 as [? H2]. inversion H2. reflexivity.
      + (* r1 accepted at a stop ([(0, r1)], no hints) where up() would fail for lack of hints *)
        exfalso. subst hints.
        apply inspectRoot_ok in H1. destruct H1 as [rest ->]. destruct rest; [|cbn in Hl1; lia].
        rewrite (upV_hint s hnode Hlen_node) in Eu2 by exact I. cbn in Eu2. discriminate Eu2.
      + exfalso. subst hints. apply inspectRoot_ok in H2. destruct H2 as [rest ->]. destruct rest; [|cbn in Hl2; lia].
        rewrite (upV_hint s hnode Hlen_node) in Eu1 by exact I. cbn in Eu1. discriminate Eu1.
      + rewrite Eu1 in Eu2. inversion Eu2; subst. eapply IH; eassumption.
  Qed.

  Theorem root_binding : forall r1 r2 elems pf, elems <> [] ->
    verify r1 elems pf = VOk -> verify r2 elems pf = VOk -> r1 = r2.
  Proof.
    intros r1 r2 elems pf Hne H1 H2. unfold MerkleArray.verify in *.
    rewrite verify_gen_nonempty in H1, H2 by assumption.
    destruct (existsb _ elems); [discriminate|]. destruct (_ && _); [discriminate|].
    eapply vloop_root_unique; eassumption.
  Qed.

  (* the accepted root has the digest size *)
  Lemma vloop_root_len : forall fuel root pl hints, pl <> [] ->
    (forall it, In it pl -> length (snd it) = s) ->
    vloop fuel root pl hints = VOk -> length root = s.
  Proof.
    induction fuel as [|f IH]; intros root pl hints Hne Hl Hv.
    - apply vloop_O in Hv. destruct Hv as (_ & _ & Hv). apply inspectRoot_ok in Hv. destruct Hv as [rest ->].
      apply (Hl (0%N, root)). left. reflexivity.
    - apply vloop_S in Hv. destruct Hv as [(_ & _ & Hv)|(pl' & hints' & Eu & Hv)].
      + apply inspectRoot_ok in Hv. destruct Hv as [rest ->]. apply (Hl (0%N, root)). left. reflexivity.
      + destruct (upV_props (length pl) pl hints pl' hints' (le_n _) Eu) as (Hnode & _ & Hne' & _).
        apply (IH root pl' hints' (Hne' Hne)); [|assumption].
        intros it Hit. destruct (Hnode it Hit) as [b Hb]. etransitivity; [apply f_equal; exact Hb | apply Hlen_node].
  Qed.

  (* ================= soundness, plain arrays ================= *)
  Section SoundPlain.
    Hypothesis Hinj_node : forall b1 b2, length b1 = (2 * s)%nat -> length b2 = (2 * s)%nat ->
                                         hnode b1 = hnode b2 -> b1 = b2.
    Hypothesis Hinj_leaf : forall e1 e2, hleaf e1 = hleaf e2 -> e1 = e2.
    Hypothesis Hsep_leaf : forall e b, hleaf e <> hnode b.
    Hypothesis Hnz_leaf : forall e, hleaf e <> zeros s.
    Hypothesis Hnz_node : forall b, hnode b <> zeros s.
    #[local] Set Default Proof Using "All".

    Definition isleafP (h : digest) : Prop := exists e, h = hleaf e.

    Theorem sound_plain : forall arr elems pf,
      verify (rootOf (build arr)) elems pf = VOk ->
      forall p e, In (p, e) elems ->
        In e arr /\ ((N.to_nat p < length arr)%nat -> nth_error arr (N.to_nat p) = Some e).
    Proof.
      intros arr elems pf Hv p e Hin.
      assert (Hne : elems <> []) by (intros ->; destruct Hin).
      unfold MerkleArray.verify in Hv. rewrite verify_gen_nonempty in Hv by assumption.
      destruct (existsb _ elems); [discriminate|].
      destruct (forallb (hint_len_ok s) (p_path pf)) eqn:Hf; [|discriminate]. cbn [andb negb] in Hv.
      apply hints_ok_of_forallb in Hf.
      assert (Hpl : forall it, In it (claimpl elems) -> isleafP (snd it)).
      { intros [p' h] Hit. apply claimpl_in in Hit. destruct Hit as (e' & _ & ->). exists e'. reflexivity. }
      destruct arr as [|a0 arr0] eqn:Earr.
      - (* empty tree: its root is the empty digest, which no computed root equals *)
        exfalso. unfold MerkleArray.build, MerkleArray.rootOf in Hv. cbn in Hv.
        apply vloop_root_len in Hv; [|apply claimpl_nonempty; assumption|].
        + cbn in Hv. apply (Hnz_leaf e). rewrite <- Hv. specialize (Hlen_leaf e).
          rewrite <- Hv in Hlen_leaf. apply length_zero_iff_nil in Hlen_leaf. rewrite Hlen_leaf. reflexivity.
        + intros it Hit. destruct (Hpl it Hit) as [e' He']. etransitivity; [apply f_equal; exact He' | apply Hlen_leaf].
      - rewrite <- Earr in *. assert (Hane : map hleaf arr <> []) by (subst arr; discriminate).
        destruct (levelsOf_chain (map hleaf arr) Hane) as [Hc Hhd].
        unfold MerkleArray.build in Hv. rewrite rootOf_levels in Hv by (apply chain_nonempty; assumption).
        assert (Hleaves : Forall isleafP (hd [] (levelsOf (map hleaf arr)))).
        { rewrite Hhd. apply Forall_forall. intros h Hh. apply in_map_iff in Hh. destruct Hh as (e' & <- & _). exists e'. reflexivity. }
        pose proof (sound_core s hnode Hlen_node Hinj_node Hnz_node isleafP) as SC.
        specialize (SC ltac:(intros h b [e' ->]; apply Hsep_leaf) ltac:(intros h [e' ->]; apply Hlen_leaf)
                       ltac:(intros h [e' ->]; apply Hnz_leaf) (levelsOf (map hleaf arr)) Hc Hleaves
                       _ (claimpl elems) (p_path pf) (claimpl_nonempty elems Hne) Hpl Hf Hv
                       (p, hleaf e)).
        destruct SC as (S1 & S2 & _); [apply claimpl_in; eauto|].
        cbn [fst snd] in *. rewrite Hhd in *.
        split.
        + apply in_map_iff in S1. destruct S1 as (e' & He' & Hin'). apply Hinj_leaf in He'. subst. assumption.
        + intros Hp. rewrite map_length in S2. specialize (S2 Hp).
          destruct (nth_error arr (N.to_nat p)) as [e'|] eqn:En; [|apply nth_error_None in En; lia].
          rewrite (nth_indep _ [] (hleaf e')) in S2 by (rewrite map_length; assumption).
          rewrite map_nth in S2. rewrite (nth_error_nth _ _ _ En) in S2.
          apply Hinj_leaf in S2. subst. reflexivity.
    Qed.
  End SoundPlain.
  #[local] Set Default Proof Using "Hlen_leaf Hlen_bottom Hlen_node".

  (* ================= completeness, plain arrays ================= *)
  Lemma pairs_from_keys : forall (g : N -> digest) (l : list (N * digest)),
    (forall p h, In (p, h) l -> h = g p) -> l = map (fun p => (p, g p)) (map fst l).
  Proof.
    intros g. induction l as [|[p h] l IH]; intros H; [reflexivity|].
    cbn [map fst]. rewrite <- IH by (intros; apply H; right; assumption).
    rewrite (H p h) by (left; reflexivity). reflexivity.
  Qed.

  Lemma claimpl_sorted : forall leaves elems P,
    NoDup (map fst elems) -> sincr P -> (forall p, In p P <-> In p (map fst elems)) ->
    (forall p e, In (p, e) elems -> nth (N.to_nat p) leaves [] = hleaf e) ->
    claimpl elems = claimsOf leaves P.
  Proof.
    intros leaves elems P Hnd HS Hmem Hleaf.
    assert (Hk : map fst (claimpl elems) = P).
    { unfold claimpl. rewrite sortK_keys, map_map. cbn [fst].
      apply sincr_unique; [| assumption |].
      - apply wsorted_nodup_sincr; [apply sortN_sorted|].
        eapply Permutation_NoDup; [apply sortN_perm | assumption].
      - intros x. rewrite sortN_in. symmetry. apply Hmem. }
    unfold claimsOf. rewrite <- Hk. apply pairs_from_keys.
    intros p h Hin. apply claimpl_in in Hin. destruct Hin as (e & Hin & ->). symmetry. apply Hleaf. assumption.
  Qed.

  Lemma chain_size_le : forall lv, chain lv ->
    (N.of_nat (length (hd [] lv)) <= 2 ^ N.of_nat (length lv - 1))%N.
  Proof.
    induction 1 as [top Ht | l rest Hl Hc IH].
    - cbn. rewrite Ht. cbn. lia.
    - cbn [hd length] in *. replace (S (S (length rest)) - 1)%nat with (S (length rest)) by lia.
      replace (S (length rest) - 1)%nat with (length rest) in IH by lia.
      rewrite Nat2N.inj_succ, N.pow_succ_r'.
      rewrite nextLayer_length in IH. rewrite Nat.div2_div in IH.
      pose proof (Nat.div_mod (length l + 1) 2 ltac:(lia)).
      pose proof (Nat.mod_upper_bound (length l + 1) 2 ltac:(lia)). lia.
  Qed.

  Lemma chain_depth_le : forall lv, chain lv -> forall k : N,
    (N.of_nat (length (hd [] lv)) <= 2 ^ k)%N -> (N.of_nat (length lv - 1) <= k)%N.
  Proof.
    induction 1 as [top Ht | l rest Hl Hc IH]; intros k Hk.
    - cbn. lia.
    - cbn [hd length] in *. replace (S (S (length rest)) - 1)%nat with (S (length rest)) by lia.
      replace (S (length rest) - 1)%nat with (length rest) in IH by lia.
      destruct (N.eq_dec k 0) as [->|Hk0]; [cbn in Hk; lia|].
      specialize (IH (k - 1)%N).
      replace k with (N.succ (k - 1)) in Hk by lia. rewrite N.pow_succ_r' in Hk.
      rewrite nextLayer_length in IH. rewrite Nat.div2_div in IH.
      pose proof (Nat.div_mod (length l + 1) 2 ltac:(lia)).
      pose proof (Nat.mod_upper_bound (length l + 1) 2 ltac:(lia)).
      assert (N.of_nat (length rest) <= k - 1)%N by (apply IH; lia). lia.
  Qed.

  (* the loop of Verify on the true leaves of a tree *)
  Lemma verify_complete_core : forall leaves elems P depth checked,
    leaves <> [] -> Forall (lenS s) leaves ->
    elems <> [] -> NoDup (map fst elems) -> sincr P -> (forall p, In p P <-> In p (map fst elems)) ->
    (forall p e, In (p, e) elems ->
       (N.to_nat p < length leaves)%nat /\ nth (N.to_nat p) leaves [] = hleaf e) ->
    (forall p, In p P -> (p < shl1 depth)%N) ->
    fst (proveLoop (levelsOf leaves) P) = [0%N] /\
    verify_gen checked (hd [] (last (levelsOf leaves) [])) elems
               (mkProof (snd (proveLoop (levelsOf leaves) P)) depth) = VOk.
  Proof.
    intros leaves elems P depth checked Hlne Hlen Hene Hnd HS Hmem Hleaf Hdepth.
    destruct (levelsOf_chain leaves Hlne) as [Hc Hhd].
    assert (HPne : P <> []).
    { destruct elems as [|[p e] ?]; [contradiction|]. intros ->. apply (Hmem p). left. reflexivity. }
    assert (HR : Forall (fun p => (N.to_nat p < length (hd [] (levelsOf leaves)))%nat) P).
    { rewrite Hhd. apply Forall_forall. intros p Hp. apply Hmem, in_map_iff in Hp.
      destruct Hp as ([p' e] & <- & Hin). apply (Hleaf _ _ Hin). }
    assert (Hpl : claimpl elems = claimsOf leaves P).
    { apply claimpl_sorted; try assumption. intros p e Hin. apply (Hleaf _ _ Hin). }
    destruct (loop_complete (levelsOf leaves) Hc ltac:(rewrite Hhd; assumption) P
                (length (snd (proveLoop (levelsOf leaves) P)) + length P + 1) HPne HS HR ltac:(lia))
      as (E1 & E2 & E3).
    split; [exact E1|].
    rewrite verify_gen_nonempty by assumption. cbn [p_path p_depth].
    assert (Hex : existsb (fun pe => negb (fst pe <? shl1 depth)%N) elems = false).
    { apply not_true_is_false. intros Hex. apply existsb_exists in Hex. destruct Hex as ([p e] & Hin & Hneg).
      cbn in Hneg. assert (Hp : In p P) by (apply Hmem, in_map_iff; exists (p, e); auto).
      specialize (Hdepth p Hp). destruct (N.ltb_spec p (shl1 depth)); [discriminate | lia]. }
    rewrite Hex.
    assert (Hfa : forallb (hint_len_ok s) (snd (proveLoop (levelsOf leaves) P)) = true).
    { apply forallb_forall. intros h Hh. rewrite Forall_forall in E3. apply E3. assumption. }
    rewrite Hfa, andb_false_r. rewrite Hpl. rewrite Hhd in E2.
    unfold claimsOf at 1. rewrite map_length. exact E2.
  Qed.

  Lemma prove_nonempty : forall t idxs, idxs <> [] ->
    prove t idxs =
    if (t_n t =? 0)%N then inr PErrZeroCommitment
    else if existsb (fun i => (t_n t <=? i)%N) idxs then inr PErrPosOutOfBound
    else
      match (if t_vc t then map_opt' (fun i => vcIndex i (depthOf t)) idxs else Some idxs) with
      | None => inr PErrPosOutOfBound
      | Some idxs' =>
          let '(plf, hints) := proveLoop (t_levels t) (dedup (sortN idxs')) in
          if (length plf =? 1)%nat then inl (mkProof hints (depthOf t)) else inr PErrInternal
      end.
  Proof. intros t [|i l] H; [contradiction | reflexivity]. Qed.

  Theorem complete_plain : forall arr idxs elems,
    idxs <> [] -> (forall i, In i idxs -> (N.to_nat i < length arr)%nat) ->
    (N.of_nat (length arr) <= 2 ^ 63)%N ->
    NoDup (map fst elems) ->
    (forall p e, In (p, e) elems <-> In p idxs /\ nth_error arr (N.to_nat p) = Some e) ->
    exists pf, prove (build arr) idxs = inl pf /\ verify (rootOf (build arr)) elems pf = VOk.
  Proof.
    intros arr idxs elems Hine Hrange Hbig Hnd Helems.
    assert (Hane : arr <> []).
    { destruct idxs as [|i ?]; [contradiction|]. specialize (Hrange i (or_introl eq_refl)).
      intros ->. cbn in Hrange. lia. }
    set (leaves := map hleaf arr).
    assert (Hlne : leaves <> []) by (unfold leaves; destruct arr; [contradiction | discriminate]).
    assert (Hlen : Forall (lenS s) leaves).
    { apply Forall_forall. intros h Hh. apply in_map_iff in Hh. destruct Hh as (e & <- & _). apply Hlen_leaf. }
    destruct (levelsOf_chain leaves Hlne) as [Hc Hhd].
    set (P := dedup (sortN idxs)).
    assert (HS : sincr P) by (apply dedup_sincr, sortN_sorted).
    assert (HPin : forall p, In p P <-> In p idxs) by (intros p; unfold P; rewrite dedup_in, sortN_in; tauto).
    assert (Hmem : forall p, In p P <-> In p (map fst elems)).
    { intros p. rewrite HPin, in_map_iff. split.
      - intros Hp. specialize (Hrange p Hp).
        destruct (nth_error arr (N.to_nat p)) as [e|] eqn:En; [|apply nth_error_None in En; lia].
        exists (p, e). split; [reflexivity | apply Helems; auto].
      - intros ([p' e] & <- & Hin). apply Helems in Hin. tauto. }
    assert (Hene : elems <> []).
    { destruct idxs as [|i ?]; [contradiction|]. intros ->.
      apply (proj1 (Hmem i)). apply HPin. left. reflexivity. }
    assert (Hleaf : forall p e, In (p, e) elems ->
              (N.to_nat p < length leaves)%nat /\ nth (N.to_nat p) leaves [] = hleaf e).
    { intros p e Hin. apply Helems in Hin. destruct Hin as [Hp En].
      unfold leaves. rewrite map_length. split; [apply Hrange; assumption|].
      rewrite (nth_indep _ [] (hleaf e)) by (rewrite map_length; apply Hrange; assumption).
      rewrite map_nth. f_equal. apply nth_error_nth. assumption. }
    pose proof (chain_size_le _ Hc) as Hsz. pose proof (chain_depth_le _ Hc 63%N) as Hd.
    assert (Hll : length leaves = length arr) by apply map_length.
    rewrite Hhd, Hll in Hsz, Hd. specialize (Hd Hbig).
    set (d := N.of_nat (length (levelsOf leaves) - 1)) in *.
    assert (Hdepth : forall p, In p P -> (p < shl1 d)%N).
    { intros p Hp. apply HPin, Hrange in Hp. unfold shl1. destruct (N.ltb_spec d 64); lia. }
    destruct (verify_complete_core leaves elems P d true Hlne Hlen Hene Hnd HS Hmem Hleaf Hdepth) as [E1 E2].
    exists (mkProof (snd (proveLoop (levelsOf leaves) P)) d). split.
    - rewrite prove_nonempty by assumption. unfold MerkleArray.build. cbn [t_n t_vc t_levels]. fold leaves.
      destruct (N.eqb_spec (N.of_nat (length arr)) 0); [destruct arr; [contradiction | cbn in *; lia]|].
      assert (Hex : existsb (fun i => (N.of_nat (length arr) <=? i)%N) idxs = false).
      { apply not_true_is_false. intros Hex. apply existsb_exists in Hex. destruct Hex as (i & Hi & Hle).
        specialize (Hrange i Hi). apply N.leb_le in Hle. lia. }
      rewrite Hex. fold P. unfold depthOf. cbn [t_levels]. fold d.
      destruct (proveLoop (levelsOf leaves) P) as [plf hints] eqn:Ep. cbn [fst snd] in *.
      rewrite E1. cbn [length Nat.eqb]. reflexivity.
    - unfold MerkleArray.build. fold leaves.
      rewrite rootOf_levels by (apply chain_nonempty; assumption). exact E2.
  Qed.

  (* ================= TreeDepth is not bound ================= *)
  Lemma verify_depth_irrelevant : forall checked root elems path d1 d2,
    (forall pe, In pe elems -> (fst pe < shl1 d1)%N /\ (fst pe < shl1 d2)%N) ->
    verify_gen checked root elems (mkProof path d1) = verify_gen checked root elems (mkProof path d2).
  Proof.
    intros checked root elems path d1 d2 H. destruct elems as [|x l] eqn:Ee; [reflexivity|]. rewrite <- Ee in *.
    assert (Hne : elems <> []) by (subst; discriminate).
    rewrite !verify_gen_nonempty by assumption. cbn [p_depth p_path].
    assert (Hex : forall d, (forall pe, In pe elems -> (fst pe < shl1 d)%N) ->
              existsb (fun pe => negb (fst pe <? shl1 d)%N) elems = false).
    { intros d Hd. apply not_true_is_false. intros Hex. apply existsb_exists in Hex.
      destruct Hex as (pe & Hin & Hneg). specialize (Hd pe Hin).
      destruct (N.ltb_spec (fst pe) (shl1 d)); [discriminate | lia]. }
    rewrite (Hex d1), (Hex d2); [reflexivity | |]; intros pe Hin; apply (H pe Hin).
  Qed.

  Theorem depth_not_bound_plain : forall arr idxs elems,
    idxs <> [] -> (forall i, In i idxs -> (N.to_nat i < length arr)%nat) ->
    (N.of_nat (length arr) <= 2 ^ 62)%N ->
    NoDup (map fst elems) ->
    (forall p e, In (p, e) elems <-> In p idxs /\ nth_error arr (N.to_nat p) = Some e) ->
    exists pf, prove (build arr) idxs = inl pf /\
               verify (rootOf (build arr)) elems (mkProof (p_path pf) (p_depth pf + 1)) = VOk.
  Proof.
    intros arr idxs elems Hine Hrange Hbig Hnd Helems.
    destruct (complete_plain arr idxs elems Hine Hrange ltac:(lia) Hnd Helems) as (pf & Hp & Hv).
    exists pf. split; [exact Hp|].
    destruct pf as [path d]. cbn [p_path p_depth].
    unfold MerkleArray.verify in *.
    rewrite <- Hv. apply verify_depth_irrelevant.
    (* positions are below the number of leaves <= 2^d *)
    assert (Hane : arr <> []).
    { destruct idxs as [|i ?]; [contradiction|]. specialize (Hrange i (or_introl eq_refl)).
      intros ->. cbn in Hrange. lia. }
    assert (Hlne : map hleaf arr <> []) by (destruct arr; [contradiction | discriminate]).
    destruct (levelsOf_chain _ Hlne) as [Hc Hhd].
    pose proof (chain_size_le _ Hc) as Hsz. pose proof (chain_depth_le _ Hc 62%N) as Hd.
    rewrite Hhd, map_length in Hsz, Hd. specialize (Hd Hbig).
    assert (Ed : d = N.of_nat (length (levelsOf (map hleaf arr)) - 1)).
    { rewrite prove_nonempty in Hp by assumption. unfold MerkleArray.build in Hp. cbn [t_n t_vc t_levels] in Hp.
      destruct (_ =? 0)%N; [discriminate|]. destruct (existsb _ _); [discriminate|].
      destruct (proveLoop _ _) as [plf hints]. destruct (length plf =? 1)%nat; [|discriminate].
      inversion Hp. reflexivity. }
    intros [p e] Hin. cbn [fst]. apply Helems in Hin. destruct Hin as [Hi _]. specialize (Hrange p Hi).
    rewrite <- Ed in *. unfold shl1.
    destruct (N.ltb_spec (d + 1) 64); [|lia]. destruct (N.ltb_spec d 64); [|lia].
    rewrite N.add_1_r, N.pow_succ_r'. lia.
  Qed.
End Top.
