(* C32 proofs, part 1: the uint64 opcodes of model/AvmArith.v against unbounded arithmetic. *)
From Coq Require Import NArith ZArith List Bool Lia ZifyN ZifyNat ZifyBool.
From Verif.model Require Import AvmArith.
Import ListNotations.
Open Scope N_scope.

(* lia extended with the Euclidean-division equations, used only where div/mod occur *)
Ltac dlia := zify; Z.to_euclidean_division_equations; lia.

Lemma W_val : W = 18446744073709551616. Proof. reflexivity. Qed.
Lemma W_pow : W = 2 ^ 64. Proof. reflexivity. Qed.
Lemma W_nz : W <> 0. Proof. rewrite W_val; lia. Qed.
Global Opaque W.

(* ------------------------------------------------------------------ + - * / % *)
Lemma plus_spec : forall a b, a < W -> b < W ->
  opPlus a b = if a + b <? W then Ok [U (a + b)] else Err.
Proof.
  intros a b Ha Hb. unfold opPlus, add64. rewrite N.add_0_r. rewrite W_val in *.
  destruct (N.ltb_spec (a + b) 18446744073709551616).
  - rewrite N.div_small, N.mod_small by assumption. reflexivity.
  - destruct (N.ltb_spec 0 ((a + b) / 18446744073709551616)); [reflexivity | dlia].
Qed.

Lemma addw_spec : forall a b,
  opAddw a b = Ok [U ((a + b) / W); U ((a + b) mod W)].
Proof. intros. unfold opAddw, add64. rewrite N.add_0_r. reflexivity. Qed.

Lemma addw_exact : forall a b, a < W -> b < W ->
  exists hi lo, opAddw a b = Ok [U hi; U lo] /\ hi * W + lo = a + b /\ lo < W /\ hi <= 1.
Proof.
  intros a b Ha Hb. rewrite addw_spec. do 2 eexists. split; [reflexivity|].
  rewrite W_val in *. dlia.
Qed.

Lemma minus_spec : forall a b, a < W -> b < W ->
  opMinus a b = if b <=? a then Ok [U (a - b)] else Err.
Proof.
  intros a b Ha Hb. unfold opMinus, sub64. rewrite W_val in *.
  destruct (N.ltb_spec a b), (N.leb_spec b a); try lia; try reflexivity.
  do 3 f_equal. dlia.
Qed.

Lemma mul_spec : forall a b, a < W -> b < W ->
  opMul a b = if a * b <? W then Ok [U (a * b)] else Err.
Proof.
  intros a b Ha Hb. unfold opMul, mul64. rewrite W_val in *.
  destruct (N.ltb_spec (a * b) 18446744073709551616).
  - rewrite N.div_small, N.mod_small by assumption. reflexivity.
  - destruct (N.ltb_spec 0 (a * b / 18446744073709551616)); [reflexivity|]. exfalso.
    generalize dependent (a * b). intros. dlia.
Qed.

Lemma mulw_spec : forall a b,
  opMulw a b = Ok [U ((a * b) / W); U ((a * b) mod W)].
Proof. reflexivity. Qed.

Lemma mulw_exact : forall a b, a < W -> b < W ->
  exists hi lo, opMulw a b = Ok [U hi; U lo] /\ hi * W + lo = a * b /\ lo < W /\ hi < W.
Proof.
  intros a b Ha Hb. rewrite mulw_spec. do 2 eexists. split; [reflexivity|].
  assert (a * b < W * W) by nia.
  rewrite W_val in *. generalize dependent (a * b). intros. dlia.
Qed.

Lemma div_spec : forall a b, opDiv a b = if b =? 0 then Err else Ok [U (a / b)].
Proof. reflexivity. Qed.
Lemma mod_spec : forall a b, opModulo a b = if b =? 0 then Err else Ok [U (a mod b)].
Proof. reflexivity. Qed.

(* ------------------------------------------------------------------ divw *)
Lemma divw_spec : forall hi lo y, hi < W -> lo < W -> y < W ->
  opDivw hi lo y =
  if y =? 0 then Err
  else if (hi * W + lo) / y <? W then Ok [U ((hi * W + lo) / y)] else Err.
Proof.
  intros hi lo y Hh Hl Hy. unfold opDivw, div64.
  destruct (N.eqb_spec y 0); [reflexivity|].
  destruct (N.leb_spec y hi).
  - assert (W <= (hi * W + lo) / y).
    { apply N.div_le_lower_bound; [assumption | nia]. }
    destruct (N.ltb_spec ((hi * W + lo) / y) W); [lia | reflexivity].
  - assert ((hi * W + lo) / y < W).
    { apply N.div_lt_upper_bound; [assumption | nia]. }
    destruct (N.ltb_spec ((hi * W + lo) / y) W); [reflexivity | lia].
Qed.

(* ------------------------------------------------------------------ divmodw *)
Lemma uint128_val : forall hi lo, uint128 hi lo = hi * W + lo.
Proof. intros. unfold uint128. rewrite N.shiftl_mul_pow2, W_pow. reflexivity. Qed.

Lemma divmodw_spec : forall a b c d, a < W -> b < W -> c < W -> d < W ->
  let num := a * W + b in let den := c * W + d in
  opDivModw a b c d =
  if den =? 0 then Err
  else Ok [U ((num / den) / W); U ((num / den) mod W); U ((num mod den) / W); U ((num mod den) mod W)].
Proof.
  intros a b c d Ha Hb Hc Hd num den. unfold opDivModw, opDivModwImpl.
  rewrite !uint128_val. fold num den.
  assert (HW : 0 < W) by (rewrite W_val; lia).
  destruct (N.eqb_spec den 0) as [E|E].
  - assert (c = 0 /\ d = 0) as [-> ->] by (subst den; nia). reflexivity.
  - assert ((d =? 0) && (c =? 0) = false) as ->.
    { destruct (N.eqb_spec d 0), (N.eqb_spec c 0); try reflexivity. subst; subst den. lia. }
    assert (Hn : num < W * W) by (subst num; nia).
    assert (Hq : num / den <= num) by (apply N.div_le_upper_bound; [assumption | nia]).
    assert (Hr : num mod den <= num) by (apply N.mod_le; assumption).
    unfold big_uint64. rewrite !N.shiftr_div_pow2, <- W_pow.
    assert (forall v, v < W * W -> (v / W) mod W = v / W) as Hsm.
    { intros v Hv. apply N.mod_small. apply N.div_lt_upper_bound; [apply W_nz | assumption]. }
    rewrite !Hsm by lia. reflexivity.
Qed.

Lemma divmodw_exact : forall a b c d, a < W -> b < W -> c < W -> d < W -> c * W + d <> 0 ->
  exists qh ql rh rl, opDivModw a b c d = Ok [U qh; U ql; U rh; U rl] /\
    qh < W /\ ql < W /\ rh < W /\ rl < W /\
    (qh * W + ql) * (c * W + d) + (rh * W + rl) = a * W + b /\ rh * W + rl < c * W + d.
Proof.
  intros a b c d Ha Hb Hc Hd Hden.
  rewrite divmodw_spec by assumption. cbv zeta.
  destruct (N.eqb_spec (c * W + d) 0); [contradiction|].
  set (num := a * W + b) in *. set (den := c * W + d) in *.
  do 4 eexists. split; [reflexivity|].
  assert (HW : 0 < W) by (rewrite W_val; lia).
  assert (Hn : num < W * W) by (subst num; nia).
  assert (Hq : num / den <= num) by (apply N.div_le_upper_bound; [assumption | nia]).
  assert (Hr : num mod den <= num) by (apply N.mod_le; assumption).
  assert (forall v, v < W * W -> v / W < W) as Hsm.
  { intros v Hv. apply N.div_lt_upper_bound; [apply W_nz | assumption]. }
  assert (forall v, (v / W) * W + v mod W = v) as Hdm.
  { intros v. rewrite N.mul_comm. symmetry. apply N.div_mod. apply W_nz. }
  rewrite !Hdm.
  repeat split; try (apply Hsm; lia); try (apply N.mod_lt; apply W_nz).
  - rewrite N.mul_comm. symmetry. apply N.div_mod. assumption.
  - apply N.mod_lt. assumption.
Qed.

(* ------------------------------------------------------------------ shl / shr *)
Lemma shl_spec : forall a s,
  opShiftLeft a s = if 63 <? s then Err else Ok [U ((a * 2 ^ s) mod W)].
Proof. intros. unfold opShiftLeft, shl64. rewrite N.shiftl_mul_pow2. reflexivity. Qed.

Lemma shr_spec : forall a s,
  opShiftRight a s = if 63 <? s then Err else Ok [U (a / 2 ^ s)].
Proof. intros. unfold opShiftRight, shr64. rewrite N.shiftr_div_pow2. reflexivity. Qed.

(* ------------------------------------------------------------------ bit tricks *)
Lemma land_shifted_low : forall a d k, d < 2 ^ k -> N.land (a * 2 ^ k) d = 0.
Proof.
  intros a d k Hd. apply N.bits_inj. intro i. rewrite N.land_spec, N.bits_0.
  destruct (N.ltb_spec i k).
  - rewrite N.mul_pow2_bits_low by assumption. reflexivity.
  - replace d with (d mod 2 ^ k) by (apply N.mod_small; assumption).
    rewrite N.mod_pow2_bits_high by assumption. apply andb_false_r.
Qed.

Lemma lor_shifted_low : forall a d k, d < 2 ^ k -> N.lor (a * 2 ^ k) d = a * 2 ^ k + d.
Proof.
  intros a d k Hd. pose proof (land_shifted_low a d k Hd) as H0.
  rewrite <- (N.lxor_lor _ _ H0). symmetry. apply N.add_nocarry_lxor. assumption.
Qed.

(* ------------------------------------------------------------------ sqrt *)
(* Invariant with k iterations to go: the top 64-2k bits xi of x have been consumed,
   root = 2*isqrt(xi), rem = xi - isqrt(xi)^2, and sq holds the unconsumed bits [low]
   left-aligned:  sq * 4^k = low * 2^64. *)
Definition sqrt_inv (x : N) (k : nat) (st : N * N * N) : Prop :=
  let '(sq, rem, root) := st in
  exists xi low r,
    x = xi * 4 ^ N.of_nat k + low /\ low < 4 ^ N.of_nat k /\
    sq * 4 ^ N.of_nat k = low * W /\ sq < W /\
    root = 2 * r /\ r * r <= xi /\ xi < (r + 1) * (r + 1) /\ rem + r * r = xi.

(* pure arithmetic facts used by the invariant (small contexts keep the arithmetic tactics fast) *)
Lemma sqrt_digit_split : forall sq T low Q,
  0 < T -> 0 < Q -> sq * (4 * T) = low * (4 * Q) -> sq < 4 * Q ->
  sq / Q < 4 /\
  exists low', low = (sq / Q) * T + low' /\ low' < T /\ ((sq mod Q) * 4) * T = low' * (4 * Q).
Proof.
  intros sq T low Q HT HQ E Hsq.
  assert (Hdm : sq = Q * (sq / Q) + sq mod Q) by (apply N.div_mod; lia).
  assert (Hs0 : sq mod Q < Q) by (apply N.mod_lt; lia).
  set (d := sq / Q) in *. set (s0 := sq mod Q) in *.
  split.
  - apply N.div_lt_upper_bound; lia.
  - assert (E1 : sq * T = low * Q) by lia.
    assert (E2 : (d * T) * Q + s0 * T = low * Q) by (rewrite <- E1, Hdm; lia).
    assert (Hge : d * T <= low).
    { apply (N.mul_le_mono_pos_r _ _ Q); [assumption|]. lia. }
    exists (low - d * T). split; [lia|].
    assert (E3 : (low - d * T) * Q = s0 * T).
    { rewrite N.mul_sub_distr_r. lia. }
    split.
    + apply (N.mul_lt_mono_pos_r Q); [assumption|]. rewrite E3.
      rewrite (N.mul_comm T Q). apply N.mul_lt_mono_pos_r; assumption.
    + lia.
Qed.

Lemma sq_lt_bound : forall r, r * r < 4611686018427387904 -> r < 2147483648.
Proof.
  intros r H. destruct (N.lt_ge_cases r 2147483648) as [|Hge]; [assumption|].
  assert (2147483648 * 2147483648 <= r * r) by (apply N.mul_le_mono; assumption). lia.
Qed.

Lemma sqrt_digit : forall r rem xi d,
  r * r <= xi -> xi < (r + 1) * (r + 1) -> rem + r * r = xi -> d < 4 ->
  rem <= 2 * r /\
  (4 * r < rem * 4 + d ->
     (2 * r + 1) * (2 * r + 1) <= 4 * xi + d /\ 4 * xi + d < (2 * r + 1 + 1) * (2 * r + 1 + 1) /\
     (rem * 4 + d - (4 * r + 1)) + (2 * r + 1) * (2 * r + 1) = 4 * xi + d) /\
  (rem * 4 + d <= 4 * r ->
     (2 * r) * (2 * r) <= 4 * xi + d /\ 4 * xi + d < (2 * r + 1) * (2 * r + 1) /\
     (rem * 4 + d) + (2 * r) * (2 * r) = 4 * xi + d).
Proof.
  intros r rem xi d H1 H2 H3 Hd. subst xi. repeat split; intros; lia.
Qed.

Lemma sqrt_step_inv : forall x k st, x < W ->
  sqrt_inv x (S k) st -> sqrt_inv x k (sqrt_step st).
Proof.
  intros x k [[sq rem] root] Hx (xi & low & r & Ex & Hlow & Esq & Hsq & Eroot & Hr1 & Hr2 & Erem).
  rewrite Nat2N.inj_succ, N.pow_succ_r' in *.
  set (T := 4 ^ N.of_nat k) in *.
  assert (HT : 0 < T) by (subst T; apply N.neq_0_lt_0, N.pow_nonzero; lia).
  set (Q := 4611686018427387904).   (* 2^62 *)
  assert (HWQ : W = 4 * Q) by (rewrite W_val; reflexivity).
  assert (HQ : 0 < Q) by (subst Q; lia).
  rewrite HWQ in Esq, Hsq.
  destruct (sqrt_digit_split sq T low Q HT HQ Esq Hsq) as (Hd & low' & Elow & Hlow' & Esq').
  assert (Hsqd : sq = Q * (sq / Q) + sq mod Q) by (apply N.div_mod; lia).
  assert (Hs0 : sq mod Q < Q) by (apply N.mod_lt; lia).
  remember (sq / Q) as d eqn:Ed. remember (sq mod Q) as s0 eqn:Es0.
  assert (Hxi : xi * 4 < 4 * Q).
  { assert (xi * 4 * 1 <= xi * 4 * T) by (apply N.mul_le_mono_l; lia). rewrite <- HWQ. lia. }
  assert (Hrb : r < 2147483648) by (apply sq_lt_bound; subst Q; lia).
  destruct (sqrt_digit r rem xi d Hr1 Hr2 Erem Hd) as (Hremb & Hone & Hzero).
  (* symbolic evaluation of one iteration *)
  unfold sqrt_step, shl64, shr64, sub64.
  rewrite !N.shiftl_mul_pow2, N.shiftr_div_pow2.
  change (2 ^ 1) with 2. change (2 ^ 2) with 4. change (2 ^ 62) with Q. rewrite <- Ed.
  assert (HWv : W = 18446744073709551616) by apply W_val.
  assert (E1 : (root * 2) mod W = 4 * r).
  { rewrite N.mod_small; clear - Eroot Hrb HWv; lia. }
  assert (E2 : (rem * 4) mod W = rem * 4).
  { apply N.mod_small. clear - Hremb Hrb HWv. lia. }
  assert (E3 : (sq * 4) mod W = s0 * 4).
  { rewrite Hsqd, HWQ. replace ((Q * d + s0) * 4) with (s0 * 4 + d * (4 * Q)) by (clear; lia).
    rewrite N.mod_add by (clear - HQ; lia). apply N.mod_small. clear - Hs0. lia. }
  rewrite E1, E2, E3.
  assert (E4 : N.lor (rem * 4) d = rem * 4 + d).
  { change 4 with (2 ^ 2). apply lor_shifted_low. exact Hd. }
  rewrite E4.
  assert (E5 : N.lor (4 * r) 1 = 4 * r + 1).
  { replace (4 * r) with ((2 * r) * 2 ^ 1) by (change (2 ^ 1) with 2; clear; lia).
    apply lor_shifted_low. reflexivity. }
  assert (Hs04 : s0 * 4 < W) by (clear - Hs0 HWQ; rewrite HWQ; lia).
  assert (Ex' : x = (4 * xi + d) * T + low') by (clear - Ex Elow; lia).
  assert (Esq'' : s0 * 4 * T = low' * W) by (rewrite HWQ; exact Esq').
  destruct (N.ltb_spec (4 * r) (rem * 4 + d)) as [Hlt|Hge].
  - (* the next digit of the root is 1 *)
    rewrite E5. destruct (Hone Hlt) as (G1 & G2 & G3).
    exists (4 * xi + d), low', (2 * r + 1).
    assert (((rem * 4 + d) + W - (4 * r + 1)) mod W = rem * 4 + d - (4 * r + 1)) as ->.
    { replace (rem * 4 + d + W - (4 * r + 1)) with ((rem * 4 + d - (4 * r + 1)) + 1 * W)
        by (clear - Hlt HWv; lia).
      rewrite N.mod_add by apply W_nz. apply N.mod_small. clear - Hremb Hrb Hd HWv. lia. }
    assert ((4 * r + 2) mod W = 4 * r + 2) as -> by (apply N.mod_small; clear - Hrb HWv; lia).
    repeat split; try assumption; clear; lia.
  - destruct (Hzero Hge) as (G1 & G2 & G3).
    exists (4 * xi + d), low', (2 * r).
    repeat split; try assumption; clear; lia.
Qed.

Lemma sqrt_loop_inv : forall x k st, x < W ->
  sqrt_inv x k st -> sqrt_inv x 0 (sqrt_loop k st).
Proof.
  intros x k. induction k as [|k IH]; intros st Hx H; [exact H|].
  cbn [sqrt_loop]. apply IH; [assumption|]. apply sqrt_step_inv; assumption.
Qed.

Lemma sqrt_spec : forall x, x < W -> opSqrt x = Ok [U (N.sqrt x)].
Proof.
  intros x Hx. unfold opSqrt.
  assert (H0 : sqrt_inv x 32 (x, 0, 0)).
  { exists 0, x, 0. change (4 ^ N.of_nat 32) with 18446744073709551616.
    rewrite W_val in *. repeat split; lia. }
  apply sqrt_loop_inv in H0; [|assumption].
  destruct (sqrt_loop 32 (x, 0, 0)) as [[sq rem] root].
  destruct H0 as (xi & low & r & Ex & Hlow & _ & _ & Eroot & Hr1 & Hr2 & _).
  change (4 ^ N.of_nat 0) with 1 in *.
  assert (xi = x) by lia. subst xi.
  unfold shr64. rewrite N.shiftr_div_pow2. change (2 ^ 1) with 2.
  assert (root / 2 = r) as -> by (subst root; rewrite N.mul_comm; apply N.div_mul; lia).
  do 3 f_equal. symmetry. apply N.sqrt_unique. split; [lia|].
  replace (N.succ r) with (r + 1) by lia. lia.
Qed.

(* ------------------------------------------------------------------ exp *)
Lemma pow_ge_1 : forall b n, 1 <= b -> 1 <= b ^ n.
Proof.
  intros b n Hb. assert (b ^ n <> 0) by (apply N.pow_nonzero; lia). lia.
Qed.

Lemma exp_loop_spec : forall n answer base,
  1 <= answer -> answer < W -> 2 <= base -> base < W ->
  exp_loop n answer base =
  if answer * base ^ N.of_nat n <? W then Some (answer * base ^ N.of_nat n) else None.
Proof.
  induction n as [|n IH]; intros answer base Ha1 Ha2 Hb1 Hb2.
  - cbn [exp_loop]. change (N.of_nat 0) with 0. rewrite N.pow_0_r, N.mul_1_r.
    destruct (N.ltb_spec answer W); [reflexivity | lia].
  - cbn [exp_loop]. rewrite Nat2N.inj_succ, N.pow_succ_r'.
    pose proof (pow_ge_1 base (N.of_nat n)) as Hp.
    destruct (N.lt_ge_cases (answer * base) W) as [Hs|Hs].
    + rewrite N.mod_small by assumption.
      rewrite (N.mul_comm answer base), N.div_mul by lia. rewrite N.eqb_refl. cbn [negb].
      rewrite IH by nia. rewrite (N.mul_comm base answer), !N.mul_assoc. reflexivity.
    + assert (Hne : ((answer * base) mod W) / answer =? base = false).
      { apply N.eqb_neq. intro E.
        assert (answer * (((answer * base) mod W) / answer) <= (answer * base) mod W)
          by (apply N.mul_div_le; lia).
        assert ((answer * base) mod W < W) by (apply N.mod_lt, W_nz).
        rewrite E in *. lia. }
      rewrite Hne. cbn [negb].
      destruct (N.ltb_spec (answer * (base * base ^ N.of_nat n)) W); [nia | reflexivity].
Qed.

Lemma exp_spec : forall a e, a < W -> e < W ->
  opExp a e =
  if (a =? 0) && (e =? 0) then Err
  else if a ^ e <? W then Ok [U (a ^ e)] else Err.
Proof.
  intros a e Ha He. unfold opExp.
  destruct (N.eqb_spec e 0) as [->|He0].
  - destruct (N.eqb_spec a 0) as [->|Ha0]; cbn [andb orb]; [reflexivity|].
    rewrite N.pow_0_r. rewrite W_val. reflexivity.
  - destruct (N.eqb_spec a 0) as [->|Ha0]; cbn [andb orb].
    + rewrite N.pow_0_l by assumption. rewrite W_val. reflexivity.
    + destruct (N.eqb_spec a 1) as [->|Ha1].
      * rewrite N.pow_1_l. rewrite W_val. reflexivity.
      * destruct (N.leb_spec 64 e) as [H64|H64].
        -- assert (W <= a ^ e).
           { rewrite W_pow. transitivity (2 ^ e).
             - apply N.pow_le_mono_r; lia.
             - apply N.pow_le_mono_l; lia. }
           destruct (N.ltb_spec (a ^ e) W); [lia | reflexivity].
        -- rewrite exp_loop_spec by lia. rewrite N2Nat.id.
           replace (a * a ^ (e - 1)) with (a ^ e).
           ++ destruct (a ^ e <? W); reflexivity.
           ++ replace e with (N.succ (e - 1)) at 1 by lia. rewrite N.pow_succ_r'. reflexivity.
Qed.

(* ------------------------------------------------------------------ expw *)
Lemma size_gt_iff : forall n k, (k <? N.size n) = (2 ^ k <=? n).
Proof.
  intros n k. destruct (N.eq_dec n 0) as [->|Hn].
  - cbn [N.size]. destruct (N.ltb_spec k 0); [lia|].
    destruct (N.leb_spec (2 ^ k) 0); [|reflexivity].
    assert (2 ^ k <> 0) by (apply N.pow_nonzero; lia). lia.
  - rewrite N.size_log2 by assumption.
    destruct (N.leb_spec (2 ^ k) n) as [H|H].
    + apply N.log2_le_pow2 in H; [|lia]. apply N.ltb_lt. lia.
    + apply N.ltb_ge. apply N.log2_lt_pow2 in H; lia.
Qed.

Lemma expw_loop_spec : forall n answer base, 1 <= answer -> answer < 2 ^ 128 -> 2 <= base ->
  expw_loop n answer base =
  if answer * base ^ N.of_nat n <? 2 ^ 128 then Some (answer * base ^ N.of_nat n) else None.
Proof.
  induction n as [|n IH]; intros answer base Ha Ha2 Hb.
  - cbn [expw_loop]. change (N.of_nat 0) with 0. rewrite N.pow_0_r, N.mul_1_r.
    destruct (N.ltb_spec answer (2 ^ 128)); [reflexivity | lia].
  - cbn [expw_loop]. rewrite Nat2N.inj_succ, N.pow_succ_r'.
    pose proof (pow_ge_1 base (N.of_nat n)) as Hp.
    rewrite size_gt_iff.
    destruct (N.leb_spec (2 ^ 128) (answer * base)) as [Hs|Hs].
    + destruct (N.ltb_spec (answer * (base * base ^ N.of_nat n)) (2 ^ 128)); [nia | reflexivity].
    + rewrite IH by nia. rewrite !N.mul_assoc. reflexivity.
Qed.

Definition expw_out (v : N) : res := Ok [U (v / W); U (v mod W)].

Lemma expw_spec : forall a e, a < W -> e < W ->
  opExpw a e =
  if (a =? 0) && (e =? 0) then Err
  else if a ^ e <? 2 ^ 128 then expw_out (a ^ e) else Err.
Proof.
  intros a e Ha He. unfold opExpw, expw_out.
  assert (Hout : forall v, v < 2 ^ 128 ->
            Ok [U (big_uint64 (N.shiftr v 64)); U (big_uint64 v)] = Ok [U (v / W); U (v mod W)]).
  { intros v Hv. unfold big_uint64. rewrite N.shiftr_div_pow2, <- W_pow.
    rewrite (N.mod_small (v / W)); [reflexivity|].
    apply N.div_lt_upper_bound; [apply W_nz|]. rewrite W_pow, <- N.pow_add_r. exact Hv. }
  destruct (N.eqb_spec e 0) as [->|He0].
  - destruct (N.eqb_spec a 0) as [->|Ha0]; cbn [andb orb]; [reflexivity|].
    rewrite N.pow_0_r. rewrite Hout by reflexivity. reflexivity.
  - destruct (N.eqb_spec a 0) as [->|Ha0]; cbn [andb orb].
    + rewrite N.pow_0_l by assumption. rewrite Hout by reflexivity. reflexivity.
    + destruct (N.eqb_spec a 1) as [->|Ha1].
      * rewrite N.pow_1_l. rewrite Hout by reflexivity. reflexivity.
      * destruct (N.leb_spec 128 e) as [H|H].
        -- assert (2 ^ 128 <= a ^ e).
           { transitivity (2 ^ e).
             - apply N.pow_le_mono_r; lia.
             - apply N.pow_le_mono_l; lia. }
           destruct (N.ltb_spec (a ^ e) (2 ^ 128)); [lia | reflexivity].
        -- assert (a < 2 ^ 128) by (rewrite W_val in Ha; change (2 ^ 128) with 340282366920938463463374607431768211456; lia).
           rewrite expw_loop_spec by lia. rewrite N2Nat.id.
           replace (a * a ^ (e - 1)) with (a ^ e).
           ++ destruct (N.ltb_spec (a ^ e) (2 ^ 128)); [|reflexivity]. apply Hout. assumption.
           ++ replace e with (N.succ (e - 1)) at 1 by lia. rewrite N.pow_succ_r'. reflexivity.
Qed.

Lemma expw_exact : forall a e, a < W -> e < W -> a ^ e < 2 ^ 128 -> (a <> 0 \/ e <> 0) ->
  exists hi lo, opExpw a e = Ok [U hi; U lo] /\ hi * W + lo = a ^ e /\ hi < W /\ lo < W.
Proof.
  intros a e Ha He Hp Hnz. rewrite expw_spec by assumption.
  assert ((a =? 0) && (e =? 0) = false) as ->.
  { destruct (N.eqb_spec a 0), (N.eqb_spec e 0); try reflexivity. lia. }
  destruct (N.ltb_spec (a ^ e) (2 ^ 128)); [|lia].
  unfold expw_out. do 2 eexists. split; [reflexivity|].
  split; [rewrite N.mul_comm; symmetry; apply N.div_mod, W_nz|].
  split; [|apply N.mod_lt, W_nz].
  apply N.div_lt_upper_bound; [apply W_nz|]. rewrite W_pow, <- N.pow_add_r. exact Hp.
Qed.

(* ------------------------------------------------------------------ bitlen (uint) *)
Definition bitlen_of (n : N) : N := if n =? 0 then 0 else N.log2 n + 1.

Lemma size_bitlen : forall n, N.size n = bitlen_of n.
Proof.
  intros n. unfold bitlen_of. destruct (N.eqb_spec n 0) as [->|H]; [reflexivity|].
  rewrite N.size_log2 by assumption. lia.
Qed.

(* the defining property of the bit length *)
Lemma bitlen_of_char : forall n k, bitlen_of n = k <-> (n < 2 ^ k /\ (k = 0 \/ 2 ^ (k - 1) <= n)).
Proof.
  intros n k. unfold bitlen_of. destruct (N.eqb_spec n 0) as [->|Hn].
  - split.
    + intros <-. split; [reflexivity | left; reflexivity].
    + intros [_ [->|H]]; [reflexivity|].
      assert (2 ^ (k - 1) <> 0) by (apply N.pow_nonzero; lia). lia.
  - assert (0 < n) by lia. destruct (N.log2_spec n) as [L1 L2]; [assumption|].
    split.
    + intros <-. split.
      * replace (N.log2 n + 1) with (N.succ (N.log2 n)) by lia. assumption.
      * right. replace (N.log2 n + 1 - 1) with (N.log2 n) by lia. assumption.
    + intros [H1 [->|H2]].
      * change (2 ^ 0) with 1 in H1. lia.
      * assert (N.log2 n = k - 1); [|destruct (N.eq_dec k 0); [subst; change (2 ^ 0) with 1 in H1|]; lia].
        apply N.log2_unique; [lia|]. split; [assumption|].
        destruct (N.eq_dec k 0) as [->|Hk]; [change (2 ^ 0) with 1 in H1; lia|].
        replace (N.succ (k - 1)) with k by lia. assumption.
Qed.

Lemma bitlen_u_spec : forall a, opBitLen (U a) = Ok [U (bitlen_of a)].
Proof. intros. unfold opBitLen, len64. rewrite size_bitlen. reflexivity. Qed.

(* ------------------------------------------------------------------ comparisons / logic *)
Lemma cmp_spec : forall a b,
  lt_v a b = b2u (a <? b) /\ gt_v a b = b2u (b <? a) /\
  le_v a b = b2u (a <=? b) /\ ge_v a b = b2u (b <=? a).
Proof.
  intros a b. unfold le_v, ge_v, gt_v, lt_v, not_v, b2u.
  destruct (N.ltb_spec a b), (N.ltb_spec b a), (N.leb_spec a b), (N.leb_spec b a);
    try lia; repeat split; reflexivity.
Qed.

Lemma logic_spec : forall a b,
  and_v a b = (if a =? 0 then 0 else if b =? 0 then 0 else 1) /\
  or_v a b = (if a =? 0 then (if b =? 0 then 0 else 1) else 1) /\
  not_v a = b2u (a =? 0).
Proof.
  intros a b. unfold and_v, or_v, not_v, b2u.
  destruct (a =? 0), (b =? 0); repeat split; reflexivity.
Qed.

(* ------------------------------------------------------------------ ~ *)
Lemma lxor_ones_low : forall a n, a < 2 ^ n -> N.lxor a (2 ^ n - 1) = 2 ^ n - 1 - a.
Proof.
  intros a n Ha.
  assert (E : N.ones n = 2 ^ n - 1) by (rewrite N.ones_equiv; lia).
  rewrite <- E. change (N.lxor a (N.ones n)) with (N.lnot a n).
  assert (a + N.lnot a n = N.ones n).
  { destruct (N.eq_dec a 0) as [->|Hn].
    - rewrite N.add_0_l. unfold N.lnot. apply N.lxor_0_l.
    - apply N.add_lnot_diag_low. apply N.log2_lt_pow2; lia. }
  lia.
Qed.

Lemma bitnot_spec : forall a, a < W -> opBitNot a = Ok [U (W - 1 - a)].
Proof.
  intros a Ha. unfold opBitNot. rewrite W_pow in *. rewrite lxor_ones_low by assumption. reflexivity.
Qed.

(* ------------------------------------------------------------------ getbit / setbit on uint64 *)
Lemma testbit_b2u : forall b j, N.testbit (b2u b) j = b && (j =? 0).
Proof.
  intros [] j; cbn [b2u andb].
  - destruct j as [|[p|p|]]; reflexivity.
  - apply N.bits_0.
Qed.

Lemma shl64_one : forall i, i <= 63 -> shl64 1 i = 2 ^ i.
Proof.
  intros i Hi. unfold shl64. rewrite N.shiftl_mul_pow2, N.mul_1_l.
  apply N.mod_small. rewrite W_pow. apply N.pow_lt_mono_r; lia.
Qed.

Lemma getbit_pow2 : forall t i, N.shiftr (N.land t (2 ^ i)) i = b2u (N.testbit t i).
Proof.
  intros t i. apply N.bits_inj. intro j.
  rewrite N.shiftr_spec', N.land_spec, N.pow2_bits_eqb, testbit_b2u.
  destruct (N.eqb_spec j 0) as [->|Hj].
  - rewrite N.add_0_l, N.eqb_refl. reflexivity.
  - assert (i =? j + i = false) as -> by (apply N.eqb_neq; lia).
    rewrite !andb_false_r. reflexivity.
Qed.

Lemma getbit_u_spec : forall t i,
  opGetBit (U t) i = if 63 <? i then Err else Ok [U (b2u (N.testbit t i))].
Proof.
  intros t i. unfold opGetBit. destruct (N.ltb_spec 63 i); [reflexivity|].
  rewrite shl64_one by assumption. unfold shr64. rewrite getbit_pow2. reflexivity.
Qed.

Lemma lor_pow2 : forall t i, N.lor t (2 ^ i) = if N.testbit t i then t else t + 2 ^ i.
Proof.
  intros t i. destruct (N.testbit t i) eqn:E.
  - apply N.bits_inj. intro j. rewrite N.lor_spec, N.pow2_bits_eqb.
    destruct (N.eqb_spec i j) as [<-|]; [rewrite E|]; rewrite ?orb_true_r, ?orb_false_r; reflexivity.
  - assert (H0 : N.land t (2 ^ i) = 0).
    { apply N.bits_inj. intro j. rewrite N.land_spec, N.pow2_bits_eqb, N.bits_0.
      destruct (N.eqb_spec i j) as [<-|]; [rewrite E|]; rewrite ?andb_false_r; reflexivity. }
    rewrite <- (N.lxor_lor _ _ H0). symmetry. apply N.add_nocarry_lxor. assumption.
Qed.

Lemma ldiff_pow2 : forall t i, N.ldiff t (2 ^ i) = if N.testbit t i then t - 2 ^ i else t.
Proof.
  intros t i. destruct (N.testbit t i) eqn:E.
  - symmetry. apply N.sub_nocarry_ldiff.
    apply N.bits_inj. intro j. rewrite N.ldiff_spec, N.pow2_bits_eqb, N.bits_0.
    destruct (N.eqb_spec i j) as [<-|]; [rewrite E|]; reflexivity.
  - apply N.bits_inj. intro j. rewrite N.ldiff_spec, N.pow2_bits_eqb.
    destruct (N.eqb_spec i j) as [<-|]; [rewrite E|]; cbn [negb]; rewrite ?andb_true_r; reflexivity.
Qed.

Lemma setbit_u_spec : forall t i b,
  opSetBit (U t) i b =
  if 1 <? b then Err else if 63 <? i then Err
  else Ok [U (if b =? 1 then (if N.testbit t i then t else t + 2 ^ i)
              else (if N.testbit t i then t - 2 ^ i else t))].
Proof.
  intros t i b. unfold opSetBit. destruct (N.ltb_spec 1 b); [reflexivity|].
  destruct (N.ltb_spec 63 i); [reflexivity|].
  rewrite shl64_one by assumption. rewrite lor_pow2, ldiff_pow2.
  destruct (b =? 1); reflexivity.
Qed.
