(* C47 lemmas, part 8: the refinement for whole histories, at the level of the canonical
   observations compared by [check]; declarative readings of the abstract readers; witnesses for
   the deviations of the code as found. *)
From Coq Require Import NArith ZArith List Bool Lia ZifyN ZifyNat ZifyBool Sorted.
From Verif.lib Require Import Term.
From Verif.model Require Import TrackerStore TrackerStoreCheck.
From Verif.proofs Require Import TrackerStoreKeys TrackerStoreMap TrackerStoreRefine TrackerStoreRanges
  TrackerStoreWrites TrackerStoreQueries TrackerStoreOnlineDelete TrackerStoreExpired.
Import ListNotations.
Open Scope N_scope.

Lemma apply_refines_all s kv o : R s kv -> op_ok s o = true -> R (spec_apply s o) (kv_apply kv o).
Proof.
  intros HR OK. destruct o; try (apply apply_refines; [exact HR|exact OK|exact I]).
  cbn [spec_apply kv_apply kv_apply_with]. apply R_online_delete; [exact HR|]. apply i63_u64. exact OK.
Qed.

Lemma run_refines ops : forall s kv ko s' kv' ko', R s kv -> run_ops s kv ko ops = Some (s', kv', ko') -> R s' kv'.
Proof.
  induction ops as [|o ops IH]; intros s kv ko s' kv' ko' HR H; cbn [run_ops] in H.
  - injection H as <- <- _. exact HR.
  - destruct (op_ok s o) eqn:OK; [|discriminate]. eapply IH; [|exact H]. apply apply_refines_all; assumption.
Qed.

Theorem history_refines ops s kv ko : run_ops spec_init kv_init kv_init ops = Some (s, kv, ko) -> R s kv.
Proof. intros H. eapply run_refines; [exact R_init|exact H]. Qed.

(* the queries on which the two backends are meant to (and, once repaired, do) agree *)
Definition agree_kind (q : query) : bool :=
  match q with
  | QLimRes _ _ _ _ | QTop _ _ _ | QOnlAll _ | QHist _ | QStub _ _ => false
  | _ => true
  end.

Theorem obs_refines s kv q : R s kv -> query_ok q = true -> agree_kind q = true ->
  obs_kv false kv q = obs_spec s q.
Proof.
  intros HR OK AK. destruct q; try discriminate; cbn [obs_kv obs_spec query_ok] in *;
    repeat match goal with H : _ && _ = true |- _ => apply andb_true_iff in H as [? ?] end.
  - rewrite (q_account s kv HR) by assumption. reflexivity.
  - rewrite (q_resources s kv HR) by (try apply i63_u64; assumption). reflexivity.
  - rewrite (q_all_resources s kv HR) by assumption. reflexivity.
  - rewrite (q_key_value s kv HR) by assumption. reflexivity.
  - rewrite (q_keys_by_prefix s kv HR). reflexivity.
  - rewrite (q_keys_by_prefix_cursor s kv HR). reflexivity.
  - rewrite (q_creator s kv HR) by (apply i63_u64; assumption). reflexivity.
  - rewrite (q_round s kv HR), (q_totals s kv HR). reflexivity.
  - rewrite (q_resource_data s kv HR) by (try apply i63_u64; assumption). reflexivity.
  - rewrite (q_online_data_by_address s kv HR) by assumption. reflexivity.
  - rewrite (q_online_round_params_all s kv HR). reflexivity.
  - apply expired_refines; [exact HR|apply i63_u64; assumption].
  - rewrite (q_load_txtail s kv HR). reflexivity.
  - rewrite (q_online s kv HR) by (try apply i63_u64; assumption). reflexivity.
  - rewrite (q_online_round_params s kv HR) by (apply i63_u64; assumption). reflexivity.
  - rewrite (q_sp_context s kv HR) by (apply i63_u64; assumption). reflexivity.
  - rewrite (q_all_sp_contexts s kv HR). reflexivity.
Qed.

(* the two readers whose key-value answer differs from SQLite's by a recorded detail only *)
Theorem obs_refines_history s kv a : R s kv -> valid_addr a = true ->
  obs_kv false kv (QHist a) = o_hist (spec_lookup_online_history_rows s a).
Proof. intros HR V. cbn [obs_kv]. rewrite (q_online_history s kv HR) by exact V. reflexivity. Qed.
Theorem obs_refines_online_all s kv mx : R s kv ->
  obs_kv false kv (QOnlAll mx) = o_onlall (spec_online_accounts_all s mx true).
Proof. intros HR. cbn [obs_kv]. rewrite (q_online_all s kv HR). reflexivity. Qed.

(* ---------- declarative readings of the abstract readers ---------- *)
Definition srow_lt (e1 e2 : skey * value) : Prop := skey_cmp (fst e1) (fst e2) = Lt.

Lemma sselect_sorted s P : spec_wf s -> StronglySorted srow_lt (sselect s P).
Proof.
  intros W. pose proof (ksorted_sselect s P W) as S.
  assert (Forall (fun x => valid_key (fst x) = true) (sselect s P)) as V.
  { rewrite Forall_forall. intros e J. apply sselect_In in J as [J _].
    pose proof (wf_valid s W) as V. rewrite Forall_forall in V. exact (V _ J). }
  induction (sselect s P) as [|e l IH]; [constructor|].
  cbn [map] in S. apply ksorted_inv in S as [S F]. inversion V as [|? ? Ve Vl]; subst.
  constructor; [apply IH; assumption|]. rewrite Forall_forall in *. intros x J.
  specialize (F (encV x) (in_map encV _ _ J)). unfold klt, encV in F. cbn [fst] in F.
  unfold srow_lt. rewrite <- enc_order; [exact F|exact Ve|exact (Vl _ J)].
Qed.

(* SELECT ... WHERE P ORDER BY key: exactly the rows satisfying P, each once, in key order *)
Theorem sselect_char s P : spec_wf s ->
  (forall e, In e (sselect s P) <-> In e s /\ P (fst e) = true) /\ StronglySorted srow_lt (sselect s P).
Proof. intros W. split; [intros e; apply sselect_In|apply sselect_sorted, W]. Qed.

Lemma sorted_last_max (l : list (skey * value)) e : StronglySorted srow_lt (l ++ [e]) -> forall x, In x l -> srow_lt x e.
Proof.
  induction l as [|y l IH]; intros S x J; [destruct J|]. cbn [app] in S. inversion S as [|? ? S' F]; subst.
  destruct J as [<-|J]; [|exact (IH S' x J)]. rewrite Forall_forall in F. apply F, in_or_app. right. left. reflexivity.
Qed.

(* LookupOnline(addr, rnd) answers with the row of addr that has the largest updround <= rnd *)
Theorem spec_lookup_online_char s a rnd dbr r d : spec_wf s -> valid_addr a = true ->
  spec_lookup_online s a rnd = Ok (dbr, Some (r, d)) ->
  (exists v0, In (KOnl a r, v0) s /\ d = tl v0) /\ r <= rnd /\
  forall r' v', In (KOnl a r', v') s -> r' <= rnd -> r' <= r.
Proof.
  intros W Va H. unfold spec_lookup_online in H. destruct (spec_round s); try discriminate. cbn [bind] in H.
  set (P := fun k => is_onl_of a k && (onl_round k <=? rnd)) in *.
  pose proof (sselect_sorted s P W) as S. pose proof (sselect_In s P) as M.
  destruct (rev (sselect s P)) as [|[k v] t] eqn:E; [discriminate|]. injection H as <- <- <-.
  assert (sselect s P = rev t ++ [(k, v)]) as E' by (rewrite <- (rev_involutive (sselect s P)), E; reflexivity).
  assert (In (k, v) (sselect s P)) as J by (rewrite E'; apply in_or_app; right; left; reflexivity).
  apply M in J as [J Pk]. cbn [fst] in Pk. unfold P in Pk. destruct k; try discriminate. cbn [is_onl_of onl_round] in Pk.
  apply andb_true_iff in Pk as [Ea Le]. apply beqb_eq in Ea. subst a0. apply N.leb_le in Le.
  cbn [onl_round]. split; [exists v; auto|]. split; [exact Le|]. intros r' v' J' Le'.
  assert (In (KOnl a r', v') (sselect s P)) as J2.
  { apply M. split; [exact J'|]. unfold P. cbn [fst is_onl_of onl_round]. unfold beqb. rewrite bcmp_refl. cbn.
    apply N.leb_le. exact Le'. }
  rewrite E' in J2, S. apply in_app_or in J2 as [J2|[J2|[]]].
  - pose proof (sorted_last_max _ _ S _ J2) as HLt. unfold srow_lt in HLt. cbn [fst skey_cmp] in HLt.
    rewrite bcmp_refl in HLt. cbn [lexc] in HLt. apply N.compare_lt_iff in HLt. apply N.lt_le_incl. exact HLt.
  - injection J2 as J2 _. subst r'. lia.
Qed.

(* the keys a prefix query is about: exactly the stored app kv keys that start with the prefix *)
Theorem spec_prefix_rows_char s p k v : spec_wf s ->
  (In (KApp k, v) (sselect s (is_app_with_prefix p)) <-> In (KApp k, v) s /\ is_prefix p k = true).
Proof. intros W. rewrite sselect_In. reflexivity. Qed.

(* ---------- the code as found: witnesses ---------- *)
Definition addr1 : bytes := repeat 1 32.
Definition addr2 : bytes := repeat 2 32.
Definition addr3 : bytes := repeat 3 32.

(* boxes bx:aaa1, bx:aaa2, bx:abb3, cz:zzz; prefix "bx:a" *)
Definition w_kv_ops : list op :=
  [OUk [98; 120; 58; 97; 97; 97; 49] [1]; OUk [98; 120; 58; 97; 97; 97; 50] [2];
   OUk [98; 120; 58; 97; 98; 98; 51] []; OUk [99; 122; 58; 122; 122; 122] [4]].
Definition w_prefix : bytes := [98; 120; 58; 97].

(* online rows of one address at rounds 5, 255, 256 *)
Definition w_onl_ops : list op :=
  [OIo addr1 5 10 1000 10; OIo addr1 255 20 1000 20; OIo addr1 256 30 1000 30].
(* two addresses: a1 (balance 10) touched at round 5, a2 (balance 100) at round 3 *)
Definition w_top_ops : list op := [OIo addr1 5 10 1000 10; OIo addr2 3 100 1000 100].
Definition after (ops : list op) (f : spec -> kvs -> kvs -> Prop) : Prop :=
  match run_ops spec_init kv_init kv_init ops with Some (s, k, ko) => f s k ko | None => False end.

Definition k_aaa1 : bytes := [98; 120; 58; 97; 97; 97; 49].
Definition k_aaa2 : bytes := [98; 120; 58; 97; 97; 97; 50].
Definition k_abb3 : bytes := [98; 120; 58; 97; 98; 98; 51].

(* (a) prefix "bx:a": the abstract store (and SQLite, and the repaired code) list three keys, the code
   as found scans the raw range and finds none *)
Lemma prefix_scan_witness : after w_kv_ops (fun s k ko =>
  spec_lookup_keys_by_prefix s w_prefix 10 [] 0 = Ok (0, [(k_aaa1, true); (k_aaa2, true); (k_abb3, true)]) /\
  kv_lookup_keys_by_prefix k w_prefix 10 [] 0 = Ok (0, [(k_aaa1, true); (k_aaa2, true); (k_abb3, true)]) /\
  kv_lookup_keys_by_prefix_orig ko w_prefix 10 [] 0 = Ok (0, []) /\
  kv_lookup_keys_by_prefix_cursor_orig ko w_prefix [] 0 0 false [] = Ok (0, [], false)).
Proof. vm_compute. repeat split. Qed.

(* (e) with the range repaired only: the empty box bx:abb3 is reported as deleted, and a key that a
   later round already decided (bx:aaa1 -> deleted) is overwritten *)
Lemma prefix_flags_witness : after w_kv_ops (fun s k ko =>
  spec_lookup_keys_by_prefix s w_prefix 10 [(k_aaa1, false)] 0 = Ok (0, [(k_aaa1, false); (k_aaa2, true); (k_abb3, true)]) /\
  kv_lookup_keys_by_prefix_flags k w_prefix 10 [(k_aaa1, false)] 0 = Ok (0, [(k_aaa1, true); (k_aaa2, true); (k_abb3, false)])).
Proof. vm_compute. repeat split. Qed.

(* (d) LookupOnline at rounds 255 and 511 *)
Lemma lookup_online_wrap_witness : after w_onl_ops (fun s k ko =>
  spec_lookup_online s addr1 255 = Ok (0, Some (255, [1000; 20])) /\
  kv_lookup_online k addr1 255 = Ok (0, Some (255, [1000; 20])) /\
  kv_lookup_online_orig ko addr1 255 = Ok (0, None) /\
  spec_lookup_online s addr1 511 = Ok (0, Some (256, [1000; 30])) /\
  kv_lookup_online_orig ko addr1 511 = Ok (0, Some (255, [1000; 20]))).
Proof. vm_compute. repeat split. Qed.

(* (j) OnlineAccountsDelete(255): the row of round 5 survives in the abstract store (SQLite), the
   code as found deletes it *)
Lemma online_delete_witness : after (w_onl_ops ++ [OOd 255]) (fun s k ko =>
  spec_lookup_online_history_rows s addr1 = Ok (0, [(5, [1000; 10]); (255, [1000; 20]); (256, [1000; 30])]) /\
  kv_lookup_online_history k addr1 = Ok (0, [(5, [1000; 10]); (255, [1000; 20]); (256, [1000; 30])]) /\
  kv_lookup_online_history ko addr1 = Ok (0, [(255, [1000; 20]); (256, [1000; 30])])).
Proof. vm_compute. repeat split. Qed.

(* (i) AccountsOnlineTop(rnd 5, offset 0, n 1): largest balance vs newest round *)
Lemma online_top_witness : after w_top_ops (fun s k ko =>
  spec_accounts_online_top s 5 0 1 = [(addr2, [1000; 100])] /\
  kv_accounts_online_top k 5 0 1 = [(addr1, [1000; 10])]).
Proof. vm_compute. repeat split. Qed.

(* (g), (h), (b) *)
Lemma recorded_witnesses : after w_onl_ops (fun s k ko =>
  (spec_online_accounts_all s 0 false = Ok [(addr1, 5, 0, [1000; 10]); (addr1, 255, 0, [1000; 20]); (addr1, 256, 0, [1000; 30])]) /\
  (exists l, kv_online_accounts_all (kv_apply k (OUar 7)) 0 = Ok l /\ map (fun e => snd (fst e)) l = [7; 7; 7]) /\
  spec_lookup_online_history s addr2 = ErrNullScan /\ kv_lookup_online_history k addr2 = Ok (0, []) /\
  kv_lookup_limited_resources k addr1 0 10 0 = ErrNotSupported).
Proof. vm_compute. repeat split. eexists. split; reflexivity. Qed.

(* the witness histories respect the protocol (non-vacuity of [history_refines]) *)
Lemma witness_histories_run :
  run_ops spec_init kv_init kv_init (w_kv_ops ++ w_onl_ops ++ [OOd 255] ++ [OUar 300; OIa addr1 7; OIr addr1 5 0 9;
     OIc 5 0 addr2; OTt 300 [1; 2] 300; OPo [3] 1; OSs [(8, 1)]; ODs 4; OPr 1; OPt true 3; ODr addr1 5; ODa addr1; ODc 5 0; ODk k_aaa1]) <> None.
Proof. vm_compute. discriminate. Qed.

(* ---------- statements used by props/C47.v ---------- *)
Lemma key_order_numeric a i j r q : valid_addr a = true ->
  u64 i = true -> u64 j = true -> u64 r = true -> u64 q = true ->
  bcmp (resourceKey a i) (resourceKey a j) = (i ?= j) /\
  bcmp (onlineAccountKey a r) (onlineAccountKey a q) = (r ?= q) /\
  bcmp (txTailKey r) (txTailKey q) = (r ?= q) /\
  bcmp (onlineAccountRoundParamsKey r) (onlineAccountRoundParamsKey q) = (r ?= q).
Proof.
  intros Va Vi Vj Vr Vq. repeat split.
  - change (bcmp (enc (KRes a i)) (enc (KRes a j)) = (i ?= j)). rewrite enc_order by (cbn; rewrite Va, ?Vi, ?Vj; reflexivity).
    cbn [skey_cmp]. rewrite bcmp_refl. reflexivity.
  - change (bcmp (enc (KOnl a r)) (enc (KOnl a q)) = (r ?= q)). rewrite enc_order by (cbn; rewrite Va, ?Vr, ?Vq; reflexivity).
    cbn [skey_cmp]. rewrite bcmp_refl. reflexivity.
  - change (bcmp (enc (KTxTail r)) (enc (KTxTail q)) = (r ?= q)). rewrite enc_order by assumption. reflexivity.
  - change (bcmp (enc (KOrp r)) (enc (KOrp q)) = (r ?= q)). rewrite enc_order by assumption. reflexivity.
Qed.

Theorem kv_refines_spec ops s kv ko q :
  run_ops spec_init kv_init kv_init ops = Some (s, kv, ko) ->
  query_ok q = true -> agree_kind q = true -> obs_kv false kv q = obs_spec s q.
Proof. intros H. apply obs_refines. exact (history_refines ops s kv ko H). Qed.

Theorem kv_refines_spec_partial ops s kv ko a mx :
  run_ops spec_init kv_init kv_init ops = Some (s, kv, ko) -> valid_addr a = true ->
  obs_kv false kv (QHist a) = o_hist (spec_lookup_online_history_rows s a) /\
  obs_kv false kv (QOnlAll mx) = o_onlall (spec_online_accounts_all s mx true).
Proof.
  intros H V. pose proof (history_refines ops s kv ko H) as HR.
  split; [apply obs_refines_history; assumption|apply obs_refines_online_all; assumption].
Qed.
