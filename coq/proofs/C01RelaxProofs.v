(* C01: the one clause of the abstract rules that the real code was seen to leave -- only in runs whose
   committee weights already violate the quorum-intersection hypotheses.

   Code (agreement/proposalTracker.go: case softThreshold, certThreshold: t.Staging = e.Proposal): a cert
   threshold for y' of the node's CURRENT period overwrites the staging value y the node cert-voted; without
   the payload of y' stagedValue is no longer committable and issueNextVote votes bottom / the starting value
   instead of y.  Abstract clause: first conjunct of AbstractBA.next_rule ("a node that cert-voted y in this
   period next-votes y").  A rule relaxed to "... unless a cert quorum for some y' <> y exists in that period"
   describes the code exactly; [cert_voter_exception_vacuous] shows that under QI_same the exception never
   applies to an honest node of a reachable trace, so every trace of the relaxed rule set that satisfies the
   hypotheses of ba_safety is a trace of the strict one: ba_safety is unaffected.  (Outside QI_same the
   exception is real and the check keeps such runs out of the refinement verdict.) *)
From Coq Require Import List Arith Bool Lia.
From Verif.model Require Import AbstractBA.
From Verif.proofs Require Import AbstractBAProofs.
Import ListNotations.

Section Relax.
Variables node value : Type.
Variable node_eq_dec : forall a b : node, {a = b} + {a <> b}.
Variable value_eq_dec : forall a b : value, {a = b} + {a <> b}.
Variable honest : node -> Prop.
Variable quorum : nat -> nat -> (node -> Prop) -> Prop.
Hypothesis QI_same : forall p s Q1 Q2,
  quorum p s Q1 -> quorum p s Q2 -> exists n, honest n /\ Q1 n /\ Q2 n.

Theorem cert_voter_exception_vacuous : forall t h q y y',
  reachable node value node_eq_dec value_eq_dec honest quorum t -> honest h ->
  voted node value t (mkVote node value h q 2 (Some y)) ->
  has_q node value quorum t q 2 (Some y') -> y' = y.
Proof.
  intros t h q y y' Hr Hh Hv Hc.
  destruct (in_split_ok node value node_eq_dec value_eq_dec honest quorum t _ Hr Hv) as [t1 [Hsf [_ Hok]]].
  cbn in Hok. destruct (Hok Hh) as [_ [_ Hrule]]. cbn in Hrule.
  destruct Hrule as [x [Hx [Hq _]]]. cbn in Hx. injection Hx as <-. cbn in Hq.
  assert (Hsy : has_q node value quorum t q 1 (Some y)).
  { eapply (has_q_suffix node value quorum); [|exact Hq]. eapply suffix_tail. exact Hsf. }
  pose proof (cert_implies_soft node value node_eq_dec value_eq_dec honest quorum QI_same t q y' Hr Hc) as Hsy'.
  exact (soft_unique node value node_eq_dec value_eq_dec honest quorum QI_same t q y' y Hr Hsy' Hsy).
Qed.

End Relax.
