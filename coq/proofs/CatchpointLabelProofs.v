(* C14 proofs, part 3: the invariant of the catchpoint tracker over every schedule of
   newBlock / committedUpTo / reload, and schedule independence of the labels. *)
From Coq Require Import List NArith ZArith Bool Lia ZifyN ZifyNat ZifyBool.
From Verif.model Require Import MerkleTrie MerkleTrieSpec CatchpointHash CatchpointLabel.
From Verif.proofs Require Import MerkleTrieProofs MerkleTrieCanonProofs CatchpointLabelCompact CatchpointLabelTrie.
Import ListNotations.
Open Scope N_scope.

Lemma firstn_add {A} (a d : nat) (l : list A) : firstn (a + d) l = firstn a l ++ firstn d (skipn a l).
Proof.
  revert l. induction a as [|a IH]; intros l; [reflexivity|].
  destruct l as [|x l]; cbn; [rewrite firstn_nil; reflexivity|]. rewrite IH. reflexivity.
Qed.

Lemma calc_first_stage_le ob off re i L :
  i <> 0 -> snd (calc_first_stage ob off re i L) <= off.
Proof.
  intros Hi. unfold calc_first_stage. destruct (re =? 0); [cbn; lia|].
  cbv zeta. match goal with |- context [(?a <=? ?b)%Z] => destruct (a <=? b)%Z eqn:E end; [|cbn; lia].
  cbn [snd].
  assert (0 < Z.of_N i)%Z by lia.
  pose proof (Z.mul_div_le (Z.of_N ob + Z.of_N off + Z.of_N L) (Z.of_N i) H).
  lia.
Qed.

(* ---------- the trie machine steps the tracker uses besides Add / Delete ---------- *)
Lemma step_root_cur m : exists m', step m ORoot = (m', RRoot (t_root (m_cur m))) /\ m_cur m' = m_cur m.
Proof.
  cbn [step]. destruct (t_root (m_cur m)) eqn:E.
  - destruct (m_modified m).
    + exists (do_commit m). cbn. rewrite E. split; reflexivity.
    + exists m. rewrite E. split; reflexivity.
  - exists m. split; reflexivity.
Qed.

Section Run.
  Variables K V : Type.
  Variable keq_dec : forall a b : K, {a = b} + {a <> b}.
  Variable veqb : V -> V -> bool.
  Hypothesis veqb_eq : forall a b, veqb a b = true -> a = b.
  Variable kclass : K -> N.
  Variable leaf : K -> V -> key.
  Variable H : list N -> list N.
  Variable n : nat.
  Hypothesis leaf_ok : forall k v, length (leaf k v) = n /\ bytes_ok (leaf k v).

  Variable hist : list (block K V).
  Variable g : store K V.
  Variable gleaves : list key.
  Variable gtotals : list N.

  Notation store := (store K V).
  Notation live := (live K V leaf).
  Notation set_is := (set_is K V leaf).
  Notation st_at := (state_at keq_dec g hist).
  Notation apply_mods := (apply_mods keq_dec).

  (* the genesis leaves are the leaves of the genesis state *)
  Definition genesis_ok : Prop := set_is gleaves g.
  (* HYPOTHESIS of the positive theorems: no two DIFFERENT keys ever share a leaf *)
  Definition leaves_distinct : Prop :=
    forall r1 r2 k1 k2 v1 v2, k1 <> k2 -> st_at r1 k1 = Some v1 -> st_at r2 k2 = Some v2 ->
      leaf k1 v1 <> leaf k2 v2.
  (* KvValueDelta.OldData is the value before the modification *)
  Definition kv_old_ok : Prop := kv_old_wf K V keq_dec kclass g (mods_of hist).

  Hypothesis Hg : genesis_ok.
  Hypothesis Hdist : leaves_distinct.
  Hypothesis Hkv : kv_old_ok.

  Definition totals_at (r : N) : list N :=
    match block_at hist r with Some b => b_totals b | None => gtotals end.
  Definition extras_at (r : N) : list (list N) :=
    match block_at hist r with Some b => b_extras b | None => [] end.

  (* ---------- history ranges ---------- *)
  Lemma mods_of_app (a b : list (block K V)) : mods_of (a ++ b) = mods_of a ++ mods_of b.
  Proof. unfold mods_of. rewrite map_app, concat_app. reflexivity. Qed.

  Lemma firstn_range a b : a <= b ->
    firstn (N.to_nat b) hist = firstn (N.to_nat a) hist ++ blocks_range hist a b.
  Proof.
    intros L. unfold blocks_range. replace (N.to_nat b) with (N.to_nat a + N.to_nat (b - a))%nat by lia.
    apply firstn_add.
  Qed.

  Lemma st_at_range a b : a <= b ->
    st_at b = apply_mods (mods_of (blocks_range hist a b)) (st_at a).
  Proof.
    intros L. unfold state_at. rewrite (firstn_range a b L), mods_of_app. apply apply_mods_app.
  Qed.

  Lemma kv_range a b : a <= b -> kv_old_wf K V keq_dec kclass (st_at a) (mods_of (blocks_range hist a b)).
  Proof.
    intros L pre m post E Hk.
    assert (Eh : mods_of hist = (mods_of (firstn (N.to_nat a) hist) ++ pre) ++ m :: (post ++ mods_of (skipn (N.to_nat b) hist))).
    { rewrite <- (firstn_skipn (N.to_nat b) hist) at 1. rewrite mods_of_app, (firstn_range a b L), mods_of_app, E.
      rewrite <- !app_assoc. reflexivity. }
    rewrite (Hkv _ _ _ Eh Hk). unfold state_at. rewrite apply_mods_app. reflexivity.
  Qed.

  Lemma range_describes a b : a <= b ->
    describes K V kclass (compact keq_dec (mods_of (blocks_range hist a b))) (st_at a) (st_at b).
  Proof.
    intros L. destruct (compact_char K V keq_dec kclass (st_at a) _ (kv_range a b L)) as (Hn & Hin & Hout).
    rewrite (st_at_range a b L). split; [exact Hn|]. split.
    - intros k o nw X. apply (Hin k o nw X).
    - intros k X. apply Hout. exact X.
  Qed.

  Lemma range_distinct a b : distinct2 K V leaf (st_at a) (st_at b).
  Proof.
    intros k1 k2 v1 v2 Hne [A|A] [B|B]; eapply Hdist; eauto.
  Qed.

  (* ---------- invariant ---------- *)
  Definition trie_ok (m : mstate) (r : N) : Prop :=
    exists s, Rel m s /\ set_is (s_cur s) (st_at r) /\ set_is (s_committed s) (st_at r).

  Definition good_info (r : N) (f : first_info) : Prop :=
    (exists t s, rel t s /\ set_is s (st_at r) /\ f_root f = root_hash H (t_root t)) /\
    f_totals f = totals_at r /\ f_extras f = extras_at r.

  Definition good_label (L : N) (nx : nat) (R : N) (l : list N) : Prop :=
    exists f b, good_info (R - L) f /\ block_at hist R = Some b /\
      l = make_label H R (b_digest b) (f_root f) (f_totals f) (firstn nx (f_extras f)).

  Variable P : params.

  Definition Inv (st : cstate K V) : Prop :=
    c_round st <= c_latest st /\ c_latest st <= N.of_nat (length hist) /\
    (forall k, c_db st k = st_at (c_round st) k) /\
    c_totals st = totals_at (c_round st) /\
    c_err st = false /\
    trie_ok (c_trie st) (c_round st) /\
    (forall r f, In (r, f) (c_first st) -> good_info r f) /\
    (forall R l, In (R, l) (c_labels st) -> good_label (p_lookback P) (p_nextras P) R l).

  (* ---------- steps of the trie machine ---------- *)
  Lemma trie_ok_evict m r : trie_ok m r -> trie_ok (fst (step m (OEvict false))) r.
  Proof.
    intros (s & R & A & B). destruct (step_refines m s (OEvict false) R I) as [R' _].
    exists (fst (sstep s (OEvict false))). split; [exact R'|].
    cbn [sstep]. destruct (s_modified s); cbn; auto.
  Qed.

  Lemma trie_ok_reload m r : trie_ok m r -> trie_ok (fst (step m OReload)) r.
  Proof.
    intros (s & R & A & B). destruct (step_refines m s OReload R I) as [R' _].
    exists (fst (sstep s OReload)). split; [exact R'|]. cbn. auto.
  Qed.

  Lemma trie_ok_root m r : trie_ok m r -> trie_ok (fst (step m ORoot)) r.
  Proof.
    intros (s & R & A & B). destruct (step_refines m s ORoot R I) as [R' _].
    exists (fst (sstep s ORoot)). split; [exact R'|].
    assert (X : fst (sstep s ORoot) = s \/ fst (sstep s ORoot) = s_commit s).
    { cbn [sstep]. destruct (s_cur s); [left; reflexivity|]. destruct (s_modified s); cbn; auto. }
    destruct X as [->| ->]; cbn; auto.
  Qed.

  Lemma trie_ok_rel m r : trie_ok m r -> exists s, rel (m_cur m) s /\ set_is s (st_at r).
  Proof. intros (s & (R & _) & A & _). exists (s_cur s). auto. Qed.

  (* ---------- genesis ---------- *)
  Lemma init_fold : forall l m s, Rel m s -> all_len n (s_cur s) ->
    (forall x, In x l -> length x = n /\ bytes_ok x) ->
    exists s', Rel (fold_left (fun m x => fst (step m (OAdd x))) l m) s' /\
      (forall y, In y (s_cur s') <-> In y l \/ In y (s_cur s)).
  Proof.
    induction l as [|x l IH]; intros m s R A Hl; cbn [fold_left].
    - exists s. split; [exact R|]. intros y. cbn. tauto.
    - destruct (Hl x (or_introl eq_refl)) as [Lx Bx].
      destruct (step_refines m s (OAdd x) R Bx) as [R1 _].
      destruct (sstep_add n s x A Lx) as (b & _ & Hin & _ & _).
      destruct (IH _ _ R1) as (s' & R' & Hin').
      + intros y Y. apply Hin in Y. destruct Y as [->|Y]; [exact Lx | apply A; exact Y].
      + intros y Y. apply Hl. right. exact Y.
      + exists s'. split; [exact R'|]. intros y. rewrite Hin', Hin. cbn. intuition congruence.
  Qed.

  Lemma init_inv : Inv (init_state g gleaves gtotals).
  Proof.
    unfold Inv, init_state. cbn.
    split; [lia|]. split; [lia|]. split; [reflexivity|]. split; [reflexivity|]. split; [reflexivity|].
    split; [|split; intros ? ? []].
    destruct (init_fold gleaves m_init s_init Rel_init) as (s' & R' & Hin).
    - intros y [].
    - intros x X. apply Hg in X. destruct X as (k & v & _ & ->). apply leaf_ok.
    - unfold init_trie. destruct (step_refines _ _ OCommit R' I) as [R2 _].
      eexists. split; [exact R2|]. cbn [sstep fst s_commit s_cur s_committed].
      assert (S : set_is (s_cur s') g).
      { intros y. rewrite Hin. cbn. rewrite <- (Hg y). tauto. }
      split; exact S.
  Qed.

  (* ---------- finishCatchpoint ---------- *)
  Lemma find_first_in r l f : find_first r l = Some f -> In (r, f) l.
  Proof.
    induction l as [|[r' f'] l IH]; cbn; [discriminate|].
    destruct (r' =? r) eqn:E; [apply N.eqb_eq in E; intros X; inversion X; subst; left; reflexivity|].
    intros X. right. apply IH. exact X.
  Qed.

  Definition same_but_labels (a b : cstate K V) : Prop :=
    c_round a = c_round b /\ c_latest a = c_latest b /\ c_db a = c_db b /\ c_totals a = c_totals b /\
    c_trie a = c_trie b /\ c_reenable a = c_reenable b /\ c_first a = c_first b /\ c_err a = c_err b.

  Lemma finish_one st rnd :
    (forall r f, In (r, f) (c_first st) -> good_info r f) ->
    (forall R l, In (R, l) (c_labels st) -> good_label (p_lookback P) (p_nextras P) R l) ->
    same_but_labels (finish_catchpoint H P hist st rnd) st /\
    (forall R l, In (R, l) (c_labels (finish_catchpoint H P hist st rnd)) ->
       good_label (p_lookback P) (p_nextras P) R l).
  Proof.
    intros Hf Hl. unfold finish_catchpoint.
    destruct (find_first (rnd - p_lookback P) (c_first st)) as [f|] eqn:Ef;
      [|split; [repeat split | exact Hl]].
    destruct (block_at hist rnd) as [b|] eqn:Eb; [|split; [repeat split | exact Hl]].
    split; [repeat split|]. cbn [c_labels]. intros R l [X|X]; [|apply Hl; exact X].
    inversion X; subst. exists f, b. split; [|split; [exact Eb | reflexivity]].
    apply Hf. apply find_first_in. exact Ef.
  Qed.

  Lemma finish_all : forall rounds st,
    (forall r f, In (r, f) (c_first st) -> good_info r f) ->
    (forall R l, In (R, l) (c_labels st) -> good_label (p_lookback P) (p_nextras P) R l) ->
    same_but_labels (fold_left (finish_catchpoint H P hist) rounds st) st /\
    (forall R l, In (R, l) (c_labels (fold_left (finish_catchpoint H P hist) rounds st)) ->
       good_label (p_lookback P) (p_nextras P) R l).
  Proof.
    induction rounds as [|rnd rounds IH]; intros st Hf Hl; cbn [fold_left].
    - split; [repeat split | exact Hl].
    - destruct (finish_one st rnd Hf Hl) as [S1 L1].
      destruct (IH (finish_catchpoint H P hist st rnd)) as [S2 L2]; [|exact L1|].
      + destruct S1 as (_ & _ & _ & _ & _ & _ & E & _). rewrite E. exact Hf.
      + split; [|exact L2]. unfold same_but_labels in *. intuition congruence.
  Qed.

  (* ---------- one commit ---------- *)
  Lemma block_at_some r : 1 <= r -> r <= N.of_nat (length hist) -> exists b, block_at hist r = Some b.
  Proof.
    intros A B. unfold block_at. destruct (r =? 0) eqn:E; [lia|].
    destruct (nth_error hist (N.to_nat (r - 1))) eqn:X; [eauto|].
    apply nth_error_None in X. lia.
  Qed.

  Lemma commit_range_inv st nb fs rounds :
    p_interval P <> 0 -> Inv st -> c_round st < nb -> nb <= c_latest st ->
    Inv (commit_range keq_dec veqb kclass leaf H P hist st nb fs rounds) /\
    c_latest (commit_range keq_dec veqb kclass leaf H P hist st nb fs rounds) = c_latest st.
  Proof.
    intros Hi (I1 & I2 & Idb & Itot & Ierr & Itrie & Ifirst & Ilab) Lo Hi2.
    unfold commit_range. destruct (p_interval P =? 0) eqn:Ei; [lia|].
    destruct Itrie as (s & R & Sc & Scm).
    destruct (update_balances_ok K V keq_dec veqb veqb_eq kclass leaf n leaf_ok (c_db st)
                (st_at (c_round st)) (st_at nb) _ (c_trie st) s
                (range_describes (c_round st) nb ltac:(lia)) (range_distinct _ _) Idb R Sc Scm)
      as (m1 & s1 & -> & R1 & S1 & S1c).
    assert (T1 : trie_ok m1 nb) by (exists s1; auto).
    pose proof (trie_ok_evict _ _ T1) as T2.
    set (m2 := fst (step m1 (OEvict false))) in *.
    destruct (block_at_some nb ltac:(lia) ltac:(lia)) as (bnb & Ebnb).
    set (totals' := match block_at hist nb with Some b => b_totals b | None => c_totals st end).
    assert (Etot : totals' = totals_at nb) by (unfold totals', totals_at; rewrite Ebnb; reflexivity).
    (* the first stage *)
    assert (FS : exists m3 first',
               (if fs then
                  match step m2 ORoot with
                  | (m3, RRoot r) =>
                      (m3, (nb, mkFirst (root_hash H r) totals'
                                  (match block_at hist nb with Some b => b_extras b | None => [] end)) :: c_first st)
                  | (m3, _) => (m3, c_first st)
                  end
                else (m2, c_first st)) = (m3, first') /\ trie_ok m3 nb /\
               (forall r f, In (r, f) first' -> good_info r f)).
    { destruct fs.
      - destruct (step_root_cur m2) as (m3 & E3 & Ec).
        pose proof (trie_ok_root _ _ T2) as T3. rewrite E3 in T3 |- *. cbn [fst] in T3.
        eexists _, _. split; [reflexivity|]. split; [exact T3|].
        intros r f [X|X]; [|apply Ifirst; exact X]. inversion X; subst r f.
        destruct (trie_ok_rel _ _ T2) as (s2 & Rl & S2).
        split; [exists (m_cur m2), s2; cbn; auto|]. cbn. split; [exact Etot | reflexivity].
      - eexists _, _. split; [reflexivity|]. split; [exact T2 | exact Ifirst]. }
    destruct FS as (m3 & first' & -> & T3 & F3).
    match goal with |- context [fold_left ?f rounds ?s0] => destruct (finish_all rounds s0) as [Sm Lb] end;
      [exact F3 | exact Ilab |].
    match goal with |- context [fold_left ?f rounds ?s0] => set (st2 := fold_left f rounds s0) in * end.
    destruct Sm as (E1 & E2 & E3 & E4 & E5 & E6 & E7 & E8). cbn in E1, E2, E3, E4, E5, E6, E7, E8.
    split; [|cbn; exact E2].
    unfold Inv. cbn [c_round c_latest c_db c_totals c_err c_trie c_first c_labels].
    rewrite E1, E2, E3, E4, E5, E8.
    split; [lia|]. split; [exact I2|]. split.
    { intros k. rewrite (st_at_range (c_round st) nb ltac:(lia)).
      clear - Idb. generalize (mods_of (blocks_range hist (c_round st) nb)). intros ms.
      revert Idb. generalize (c_db st) (st_at (c_round st)). induction ms as [|m ms IH]; intros d1 d2 E; cbn; [apply E|].
      apply IH. intros k'. unfold upd. destruct (keq_dec k' (m_key m)); auto. }
    split; [exact Etot|]. split; [exact Ierr|]. split; [exact T3|]. split; [|exact Lb].
    intros r f X. apply F3. rewrite <- E7. destruct (p_lookback P <=? nb); [|exact X].
    apply filter_In in X. tauto.
  Qed.

  Lemma commit_to_inv st rnd : p_interval P <> 0 -> Inv st ->
    Inv (commit_to keq_dec veqb kclass leaf H P hist st rnd) /\
    c_latest (commit_to keq_dec veqb kclass leaf H P hist st rnd) = c_latest st.
  Proof.
    intros Hi I0. unfold commit_to.
    destruct (rnd <? p_acctlookback P); [auto|].
    destruct (rnd - p_acctlookback P <=? c_round st) eqn:E1; [auto|].
    destruct (c_latest st <? rnd - p_acctlookback P) eqn:E2; [auto|].
    destruct (p_interval P =? 0) eqn:Ei; [lia|].
    pose proof (calc_first_stage_le (c_round st) (rnd - p_acctlookback P - c_round st) (c_reenable st)
                  (p_interval P) (p_lookback P) Hi) as Le.
    destruct (calc_first_stage _ _ _ _ _) as [[fs multi] off']. cbn [snd] in Le.
    destruct (off' =? 0) eqn:E3; [auto|].
    apply commit_range_inv; auto; lia.
  Qed.

  Lemma cstep_inv st o : p_interval P <> 0 -> Inv st -> Inv (cstep keq_dec veqb kclass leaf H P hist st o).
  Proof.
    intros Hi I0. destruct o as [|r|]; cbn [cstep].
    - unfold new_block. destruct (c_latest st <? N.of_nat (length hist)) eqn:E; [|exact I0].
      destruct I0 as (I1 & I2 & I3 & I4 & I5 & I6 & I7 & I8).
      unfold Inv. cbn. split; [lia|]. split; [lia|]. auto 10.
    - apply commit_to_inv; assumption.
    - unfold reload.
      match goal with |- Inv (if _ then commit_to _ _ _ _ _ _ _ ?s1 _ else _) => assert (I1 : Inv s1) end.
      { destruct I0 as (I1 & I2 & I3 & I4 & I5 & I6 & I7 & I8).
        unfold Inv. cbn. split; [exact I1|]. split; [exact I2|]. split; [exact I3|]. split; [exact I4|].
        split; [exact I5|]. split; [apply trie_ok_reload; exact I6|]. auto. }
      destruct (c_round st + p_acctlookback P <? c_latest st); [|exact I1].
      apply commit_to_inv; assumption.
  Qed.

  Lemma crun_inv : forall ops st, p_interval P <> 0 -> Inv st -> Inv (crun keq_dec veqb kclass leaf H P hist st ops).
  Proof.
    induction ops as [|o ops IH]; intros st Hi I0; cbn; [exact I0|].
    apply IH; [exact Hi|]. apply cstep_inv; assumption.
  Qed.
End Run.

(* ---------- the theorems ---------- *)
Section Theorems.
  Variables K V : Type.
  Variable keq_dec : forall a b : K, {a = b} + {a <> b}.
  Variable veqb : V -> V -> bool.
  Hypothesis veqb_eq : forall a b, veqb a b = true -> a = b.
  Variable kclass : K -> N.
  Variable leaf : K -> V -> key.
  Variable H : list N -> list N.
  Variable n : nat.
  Hypothesis leaf_ok : forall k v, length (leaf k v) = n /\ bytes_ok (leaf k v).
  Variable hist : list (block K V).
  Variable g : store K V.
  Variable gleaves : list key.
  Variable gtotals : list N.
  Hypothesis Hg : genesis_ok K V leaf g gleaves.
  Hypothesis Hdist : leaves_distinct K V keq_dec leaf hist g.
  Hypothesis Hkv : kv_old_ok K V keq_dec kclass hist g.

  Notation run P ops := (crun keq_dec veqb kclass leaf H P hist (init_state g gleaves gtotals) ops).
  Notation st_at := (state_at keq_dec g hist).

  Lemma run_inv P ops : p_interval P <> 0 ->
    Inv K V keq_dec leaf H hist g gtotals P (run P ops).
  Proof.
    intros Hi. apply (crun_inv K V keq_dec veqb veqb_eq kclass leaf H n leaf_ok hist g gtotals Hdist Hkv P ops _ Hi).
    apply (init_inv K V keq_dec leaf H n leaf_ok hist g gleaves gtotals Hg).
  Qed.

  (* after ANY schedule the trie (live and committed) holds exactly the leaves of the state at
     the tracker DB round, the DB holds that state, and no trie call failed *)
  Theorem trie_set_inv P ops : p_interval P <> 0 ->
    let st := run P ops in
    c_err st = false /\ (forall k, c_db st k = st_at (c_round st) k) /\
    exists s, Rel (c_trie st) s /\
      (forall x, In x (s_cur s) <-> exists k v, st_at (c_round st) k = Some v /\ x = leaf k v) /\
      (forall x, In x (s_committed s) <-> exists k v, st_at (c_round st) k = Some v /\ x = leaf k v).
  Proof.
    intros Hi st. destruct (run_inv P ops Hi) as (_ & _ & Idb & _ & Ierr & (s & R & A & B) & _).
    split; [exact Ierr|]. split; [exact Idb|]. exists s. split; [exact R|]. split; [exact A | exact B].
  Qed.

  (* the committed trie root is a function of (history, DB round) only *)
  Theorem root_schedule_independent P1 P2 ops1 ops2 : p_interval P1 <> 0 -> p_interval P2 <> 0 ->
    c_round (run P1 ops1) = c_round (run P2 ops2) ->
    committed_root H (run P1 ops1) = committed_root H (run P2 ops2).
  Proof.
    intros H1 H2 E.
    destruct (run_inv P1 ops1 H1) as (_ & _ & _ & _ & _ & (s1 & (_ & R1 & _) & _ & B1) & _).
    destruct (run_inv P2 ops2 H2) as (_ & _ & _ & _ & _ & (s2 & (_ & R2 & _) & _ & B2) & _).
    unfold committed_root. f_equal. eapply rel_set_only; eauto.
    intros k. rewrite (B1 k), (B2 k), E. reflexivity.
  Qed.

  Lemma good_info_unique r f1 f2 :
    good_info K V keq_dec leaf H hist g gtotals r f1 -> good_info K V keq_dec leaf H hist g gtotals r f2 ->
    f_root f1 = f_root f2 /\ f_totals f1 = f_totals f2 /\ f_extras f1 = f_extras f2.
  Proof.
    intros ((t1 & s1 & R1 & S1 & E1) & T1 & X1) ((t2 & s2 & R2 & S2 & E2) & T2 & X2).
    split; [|split; congruence]. rewrite E1, E2. f_equal. eapply rel_set_only; eauto.
    intros k. rewrite (S1 k), (S2 k). reflexivity.
  Qed.

  (* THE PROPERTY: two nodes that processed the same blocks -- with any commit schedules, reload
     points, catchpoint intervals and account lookbacks -- produce the same label for every
     catchpoint round for which both produce one *)
  Theorem label_schedule_independent P1 P2 ops1 ops2 R l1 l2 :
    p_interval P1 <> 0 -> p_interval P2 <> 0 ->
    p_lookback P1 = p_lookback P2 -> p_nextras P1 = p_nextras P2 ->
    In (R, l1) (c_labels (run P1 ops1)) -> In (R, l2) (c_labels (run P2 ops2)) -> l1 = l2.
  Proof.
    intros H1 H2 EL EN A B.
    destruct (run_inv P1 ops1 H1) as (_ & _ & _ & _ & _ & _ & _ & L1).
    destruct (run_inv P2 ops2 H2) as (_ & _ & _ & _ & _ & _ & _ & L2).
    destruct (L1 R l1 A) as (f1 & b1 & G1 & Eb1 & ->). destruct (L2 R l2 B) as (f2 & b2 & G2 & Eb2 & ->).
    rewrite <- EL in G2. destruct (good_info_unique _ _ _ G1 G2) as (E1 & E2 & E3).
    rewrite Eb1 in Eb2. inversion Eb2. subst b2. rewrite E1, E2, E3, EN. reflexivity.
  Qed.

  (* accountsUpdateBalances walks the KV deltas in Go map order: ANY two orders of ANY two
     descriptions of the same change give the same trie *)
  Theorem update_balances_any_order (db sOld sNew : store K V) c1 c2 m s :
    describes K V kclass c1 sOld sNew -> describes K V kclass c2 sOld sNew ->
    distinct2 K V leaf sOld sNew -> (forall k, db k = sOld k) ->
    Rel m s -> set_is K V leaf (s_cur s) sOld ->
    exists m1 a1 m2 a2,
      balance_all veqb kclass leaf db c1 m 0 = Some (m1, a1) /\
      balance_all veqb kclass leaf db c2 m 0 = Some (m2, a2) /\
      t_root (m_cur m1) = t_root (m_cur m2).
  Proof.
    intros D1 D2 Dist Edb R S.
    destruct (balance_all_between K V keq_dec veqb veqb_eq kclass leaf n leaf_ok db sOld sNew c1 m s D1 Dist Edb R S)
      as (m1 & s1 & a1 & E1 & (R1 & _) & S1 & _).
    destruct (balance_all_between K V keq_dec veqb veqb_eq kclass leaf n leaf_ok db sOld sNew c2 m s D2 Dist Edb R S)
      as (m2 & s2 & a2 & E2 & (R2 & _) & S2 & _).
    exists m1, a1, m2, a2. split; [exact E1|]. split; [exact E2|].
    eapply rel_set_only; eauto. intros k. rewrite (S1 k), (S2 k). reflexivity.
  Qed.
End Theorems.

(* ---------- what a leaf collision between two DIFFERENT keys does (every leaf function) ---------- *)
Section Collision.
  Variables K V : Type.
  Variable veqb : V -> V -> bool.
  Variable kclass : K -> N.
  Variable leaf : K -> V -> key.
  Variable n : nat.
  Hypothesis leaf_ok : forall k v, length (leaf k v) = n /\ bytes_ok (leaf k v).
  Variables (k1 k2 : K) (v1 v2 : V).
  Hypothesis Hkv1 : kvlike kclass k1 = true.
  Hypothesis Hkv2 : kvlike kclass k2 = true.
  Hypothesis Hcoll : leaf k1 v1 = leaf k2 v2.

  Variable db : store K V.
  Variables (m : mstate) (s : sstate).
  Hypothesis R : Rel m s.
  Hypothesis Hempty : s_cur s = [].

  (* round r creates both entries, round r+1 deletes the first:
     - committed round by round: Add x, Add x (duplicate, ignored), Delete x   -> EMPTY trie
     - committed together: (k1 came and went: skipped), Add x                  -> trie {x}   *)
  Lemma collision_schedule_dependent :
    exists ma a mb b mc c,
      balance_all veqb kclass leaf db [(k1, (None, Some v1)); (k2, (None, Some v2))] m 0 = Some (ma, a) /\
      balance_all veqb kclass leaf db [(k1, (Some v1, None))] ma 0 = Some (mb, b) /\
      balance_all veqb kclass leaf db [(k1, (None, None)); (k2, (None, Some v2))] m 0 = Some (mc, c) /\
      t_root (m_cur mb) = None /\ t_root (m_cur mc) <> None.
  Proof.
    set (x := leaf k2 v2) in *.
    assert (Lx : length x = n /\ bytes_ok x) by apply leaf_ok. destruct Lx as [Lx Bx].
    assert (A0 : all_len n (s_cur s)) by (rewrite Hempty; intros y []).
    destruct (trie_call_add n m s x 0 R A0 Lx Bx) as (m1 & s1 & a1 & E1 & R1 & In1 & _).
    assert (A1 : all_len n (s_cur s1)).
    { intros y Y. apply In1 in Y. rewrite Hempty in Y. destruct Y as [->|[]]. exact Lx. }
    destruct (trie_call_add n m1 s1 x a1 R1 A1 Lx Bx) as (m2 & s2 & a2 & E2 & R2 & In2 & _).
    assert (A2 : all_len n (s_cur s2)).
    { intros y Y. apply In2 in Y. destruct Y as [->|Y]; [exact Lx | apply A1; exact Y]. }
    destruct (trie_call_del n m2 s2 x 0 R2 A2 Lx Bx) as (m3 & s3 & a3 & E3 & R3 & In3 & _).
    exists m2, a2, m3, a3, m1, a1.
    cbn [balance_all balance_one]. rewrite Hkv1, Hkv2. unfold del_add. rewrite Hcoll. fold x.
    rewrite E1. cbn iota beta. rewrite E2, E3. split; [reflexivity|]. split; [reflexivity|]. split; [reflexivity|]. split.
    - destruct R3 as (R3 & _). apply (rel_empty_iff _ _ R3).
      assert (N0 : forall y, ~ In y (s_cur s3)); [|destruct (s_cur s3) as [|y l]; [reflexivity | exfalso; apply (N0 y); left; reflexivity]].
      intros y Y. apply In3 in Y. destruct Y as [Y Hne]. apply In2 in Y. destruct Y as [Y|Y]; [congruence|].
      apply In1 in Y. rewrite Hempty in Y. destruct Y as [Y|[]]. congruence.
    - destruct R1 as (R1 & _). intros E. apply (rel_empty_iff _ _ R1) in E.
      assert (Y : In x (s_cur s1)) by (apply In1; left; reflexivity). rewrite E in Y. destruct Y.
  Qed.

  (* one round deletes k1 and creates k2 (no two entries live at ONE round share a leaf): the
     result depends on the order in which the two compacted deltas are walked (Go map order) *)
  Lemma collision_order_dependent (m0 : mstate) (s0 : sstate) :
    Rel m0 s0 -> (forall y, In y (s_cur s0) <-> y = leaf k2 v2) ->
    exists ma a mb b,
      balance_all veqb kclass leaf db [(k1, (Some v1, None)); (k2, (None, Some v2))] m0 0 = Some (ma, a) /\
      balance_all veqb kclass leaf db [(k2, (None, Some v2)); (k1, (Some v1, None))] m0 0 = Some (mb, b) /\
      t_root (m_cur ma) <> None /\ t_root (m_cur mb) = None.
  Proof.
    intros R0 S0. set (x := leaf k2 v2) in *.
    assert (Lx : length x = n /\ bytes_ok x) by apply leaf_ok. destruct Lx as [Lx Bx].
    assert (A0 : all_len n (s_cur s0)) by (intros y Y; apply S0 in Y; subst y; exact Lx).
    (* delete then add *)
    destruct (trie_call_del n m0 s0 x 0 R0 A0 Lx Bx) as (m1 & s1 & a1 & E1 & R1 & In1 & _).
    assert (A1 : all_len n (s_cur s1)) by (intros y Y; apply In1 in Y; apply A0; tauto).
    destruct (trie_call_add n m1 s1 x a1 R1 A1 Lx Bx) as (m2 & s2 & a2 & E2 & R2 & In2 & _).
    (* add then delete *)
    destruct (trie_call_add n m0 s0 x 0 R0 A0 Lx Bx) as (m3 & s3 & a3 & E3 & R3 & In3 & _).
    assert (A3 : all_len n (s_cur s3)).
    { intros y Y. apply In3 in Y. destruct Y as [->|Y]; [exact Lx | apply A0; exact Y]. }
    destruct (trie_call_del n m3 s3 x a3 R3 A3 Lx Bx) as (m4 & s4 & a4 & E4 & R4 & In4 & _).
    exists m2, a2, m4, a4.
    cbn [balance_all balance_one]. rewrite Hkv1, Hkv2. unfold del_add. rewrite Hcoll. fold x.
    rewrite E1, E3. cbn iota beta. rewrite E2, E4. split; [reflexivity|]. split; [reflexivity|]. split.
    - destruct R2 as (R2 & _). intros E. apply (rel_empty_iff _ _ R2) in E.
      assert (Y : In x (s_cur s2)) by (apply In2; left; reflexivity). rewrite E in Y. destruct Y.
    - destruct R4 as (R4 & _). apply (rel_empty_iff _ _ R4).
      assert (N0 : forall y, ~ In y (s_cur s4)); [|destruct (s_cur s4) as [|y l]; [reflexivity | exfalso; apply (N0 y); left; reflexivity]].
      intros y Y. apply In4 in Y. destruct Y as [Y Hne]. apply In3 in Y. destruct Y as [Y|Y]; [congruence|].
      apply S0 in Y. congruence.
  Qed.
End Collision.
