(* C12 lemmas: the incremental totals of model/Totals.v (wrapping uint64 arithmetic with a
   sticky overflow flag) against the declarative class sums of model/TotalsSpec.v. *)
From Coq Require Import NArith ZArith List Bool Lia ZifyN ZifyNat ZifyBool.
From Verif.model Require Import Overflow Totals TotalsSpec.
From Verif.proofs Require Import OverflowProofs.
Import ListNotations.
Open Scope N_scope.

(* ---------- uint64 helpers ---------- *)
Lemma M64 : M 64 = W. Proof. reflexivity. Qed.
Lemma W_pos : 0 < W. Proof. reflexivity. Qed.
Lemma u64_lt x : u64 x = true <-> x < W.
Proof. unfold u64. fold W. apply N.ltb_lt. Qed.

Lemma mod_lt x : x mod W < W.
Proof. apply N.mod_upper_bound. pose proof W_pos. lia. Qed.

Lemma oadd_lt a b : fst (oadd 64 a b) < W.
Proof. unfold oadd. cbn [fst]. rewrite M64. apply mod_lt. Qed.
Lemma osub_lt a b : fst (osub 64 a b) < W.
Proof. unfold osub. cbn [fst]. rewrite M64. apply mod_lt. Qed.
Lemma omul_lt a b : fst (omul 64 a b) < W.
Proof.
  unfold omul. destruct (b =? 0); [apply W_pos|].
  destruct (negb _); cbn [fst]; [apply W_pos|]. rewrite M64. apply mod_lt.
Qed.

Lemma ot_add_lt a b ot : fst (ot_add a b ot) < W.
Proof. unfold ot_add. pose proof (oadd_lt a b). destruct (oadd 64 a b). exact H. Qed.
Lemma ot_sub_lt a b ot : fst (ot_sub a b ot) < W.
Proof. unfold ot_sub. pose proof (osub_lt a b). destruct (osub 64 a b). exact H. Qed.
Lemma ot_mul_lt a b ot : fst (ot_mul a b ot) < W.
Proof. unfold ot_mul. pose proof (omul_lt a b). destruct (omul 64 a b). exact H. Qed.

Lemma ot_add_exact a b ot r : a < W -> b < W -> ot_add a b ot = (r, false) ->
  ot = false /\ r = a + b /\ r < W.
Proof.
  intros Ha Hb H. pose proof (ot_add_lt a b ot) as Hl. rewrite H in Hl. cbn in Hl.
  unfold ot_add in H. pose proof (oadd_exact 64 a b Ha Hb) as [_ He].
  destruct (oadd 64 a b) as [x o]. cbn [fst snd] in *. inversion H; subst.
  apply orb_false_iff in H2 as [-> ->]. auto.
Qed.

Lemma ot_sub_exact a b ot r : a < W -> b < W -> ot_sub a b ot = (r, false) ->
  ot = false /\ a = r + b /\ r < W.
Proof.
  intros Ha Hb H. pose proof (ot_sub_lt a b ot) as Hl. rewrite H in Hl. cbn in Hl.
  unfold ot_sub in H. pose proof (osub_exact 64 a b Ha Hb) as [_ He].
  destruct (osub 64 a b) as [x o]. cbn [fst snd] in *. inversion H; subst.
  apply orb_false_iff in H2 as [-> ->]. destruct (He eq_refl). repeat split; try assumption. lia.
Qed.

Lemma ot_mul_exact a b ot r : a < W -> b < W -> ot_mul a b ot = (r, false) ->
  ot = false /\ r = a * b /\ r < W.
Proof.
  intros Ha Hb H. pose proof (ot_mul_lt a b ot) as Hl. rewrite H in Hl. cbn in Hl.
  unfold ot_mul in H. pose proof (omul_exact 64 a b Ha Hb) as [_ [He _]].
  destruct (omul 64 a b) as [x o]. cbn [fst snd] in *. inversion H; subst.
  apply orb_false_iff in H2 as [-> ->]. auto.
Qed.

(* the flag is sticky *)
Lemma ot_add_true a b : snd (ot_add a b true) = true.
Proof. unfold ot_add. destruct (oadd 64 a b). reflexivity. Qed.

Lemma div_lt_W m unit : m < W -> m / unit < W.
Proof.
  intros H. destruct (N.eq_dec unit 0) as [->|Hn].
  - assert (m / 0 = 0) as -> by (destruct m; reflexivity). apply W_pos.
  - pose proof (N.div_le_upper_bound m unit m Hn). assert (m <= unit * m) by nia. lia.
Qed.

(* ---------- WithUpdatedRewards = money_at whenever it does not panic ---------- *)
Definition acct_good (L : N) (a : acct) : Prop :=
  a_malgos a < W /\ a_rbase a < W /\ a_st a <= 2 /\ (a_st a <> 2 -> a_rbase a <= L).

Lemma wur_exact unit a L m : a_malgos a < W -> a_rbase a < W -> L < W ->
  with_updated_rewards unit a L = Some m ->
  m = money_at unit L a /\ m < W /\ (a_st a <> 2 -> a_rbase a <= L /\ unit <> 0).
Proof.
  intros Hm Hr HL H. unfold with_updated_rewards, money_at in *. unfold stNotPart in *.
  destruct (N.eqb_spec (a_st a) 2) as [E|E].
  - inversion H; subst. split; [reflexivity|]. split; [assumption|]. intros Hn; contradiction.
  - unfold reward_units in H. destruct (N.eqb_spec unit 0) as [U|U]; [discriminate|].
    destruct (ot_sub L (a_rbase a) false) as [delta o1] eqn:E1.
    destruct (ot_mul (a_malgos a / unit) delta o1) as [rew o2] eqn:E2.
    destruct (ot_add (a_malgos a) rew o2) as [out o3] eqn:E3.
    destruct o3; [discriminate|]. inversion H; subst out.
    pose proof (ot_mul_lt (a_malgos a / unit) delta o1) as Hrew. rewrite E2 in Hrew. cbn in Hrew.
    destruct (ot_add_exact _ _ _ _ Hm Hrew E3) as (-> & -> & Hlt).
    pose proof (ot_sub_lt L (a_rbase a) false) as Hd. rewrite E1 in Hd. cbn in Hd.
    destruct (ot_mul_exact _ _ _ _ (div_lt_W _ unit Hm) Hd E2) as (-> & -> & _).
    destruct (ot_sub_exact _ _ _ _ HL Hr E1) as (_ & HLe & _).
    unfold units_of. replace (L - a_rbase a) with delta by lia.
    split; [reflexivity|]. split; [assumption|]. intros _. split; [lia|assumption].
Qed.

(* ---------- fields ---------- *)
Definition fld (X : N) (t : totals) : algocount :=
  if X =? stOnline then t_on t else if X =? stOffline then t_off t else t_np t.

Lemma status_field_fld st t c : status_field st t = Some c -> st <= 2 /\ c = fld st t.
Proof.
  unfold status_field, fld, stOnline, stOffline, stNotPart.
  destruct (N.eqb_spec st 1); [intros [= <-]; split; [lia|reflexivity]|].
  destruct (N.eqb_spec st 0); [intros [= <-]; split; [lia|reflexivity]|].
  destruct (N.eqb_spec st 2); [intros [= <-]; split; [lia|reflexivity]|]. discriminate.
Qed.

Lemma fld_set_field st t c X : st <= 2 -> X <= 2 ->
  fld X (set_field st t c) = if X =? st then c else fld X t.
Proof.
  intros Hs HX. unfold set_field, fld, stOnline, stOffline, stNotPart.
  destruct (N.eqb_spec st 1); destruct (N.eqb_spec st 0); destruct (N.eqb_spec X 1);
    destruct (N.eqb_spec X 0); destruct (N.eqb_spec X st); cbn; try reflexivity; try lia.
Qed.

Lemma level_set_field st t c : t_level (set_field st t c) = t_level t.
Proof. unfold set_field. destruct (st =? stOnline); [reflexivity|]. destruct (st =? stOffline); reflexivity. Qed.

Definition totals_lt (t : totals) : Prop :=
  forall X, X <= 2 -> c_money (fld X t) < W /\ c_units (fld X t) < W.

(* AddAccount / DelAccount are exact while the flag stays down *)
Lemma add_exact unit a t ot t' : totals_lt t -> t_level t < W ->
  a_malgos a < W -> a_rbase a < W ->
  add_account unit a t ot = Some (t', false) ->
  ot = false /\ t_level t' = t_level t /\ totals_lt t' /\ acct_good (t_level t) a /\ unit <> 0 /\
  forall X, X <= 2 ->
    c_money (fld X t') = c_money (fld X t) + cls_money unit (t_level t) X a /\
    c_units (fld X t') = c_units (fld X t) + cls_units unit X a.
Proof.
  intros Ht HL Hm Hr H. unfold add_account in H.
  destruct (status_field (a_st a) t) as [sum|] eqn:Es; [|discriminate].
  apply status_field_fld in Es as [Hst ->].
  destruct (with_updated_rewards unit a (t_level t)) as [algos|] eqn:Ew; [|discriminate].
  destruct (wur_exact _ _ _ _ Hm Hr HL Ew) as (-> & Hal & Hrb).
  destruct (ot_add (c_money (fld (a_st a) t)) (money_at unit (t_level t) a) ot) as [m o1] eqn:E1.
  unfold reward_units in H. destruct (N.eqb_spec unit 0) as [U|U]; [discriminate|].
  destruct (ot_add (c_units (fld (a_st a) t)) (a_malgos a / unit) o1) as [u o2] eqn:E2.
  inversion H; subst t' o2. clear H.
  destruct (Ht _ Hst) as [Hfm Hfu].
  destruct (ot_add_exact _ _ _ _ Hfu (div_lt_W _ unit Hm) E2) as (-> & -> & Hu).
  destruct (ot_add_exact _ _ _ _ Hfm Hal E1) as (-> & -> & Hmm).
  split; [reflexivity|]. split; [apply level_set_field|].
  split.
  { intros X HX. rewrite fld_set_field by assumption. destruct (X =? a_st a); cbn [c_money c_units]; auto. }
  split. { unfold acct_good. repeat split; try assumption. intros Hn. apply Hrb in Hn. tauto. }
  split; [exact U|].
  intros X HX. rewrite fld_set_field by assumption. unfold cls_money, cls_units, units_of.
  rewrite (N.eqb_sym (a_st a) X).
  destruct (N.eqb_spec X (a_st a)) as [->|]; cbn [c_money c_units]; split; lia.
Qed.

Lemma del_exact unit a t ot t' : totals_lt t -> t_level t < W ->
  a_malgos a < W -> a_rbase a < W ->
  del_account unit a t ot = Some (t', false) ->
  ot = false /\ t_level t' = t_level t /\ totals_lt t' /\
  forall X, X <= 2 ->
    c_money (fld X t) = c_money (fld X t') + cls_money unit (t_level t) X a /\
    c_units (fld X t) = c_units (fld X t') + cls_units unit X a.
Proof.
  intros Ht HL Hm Hr H. unfold del_account in H.
  destruct (status_field (a_st a) t) as [sum|] eqn:Es; [|discriminate].
  apply status_field_fld in Es as [Hst ->].
  destruct (with_updated_rewards unit a (t_level t)) as [algos|] eqn:Ew; [|discriminate].
  destruct (wur_exact _ _ _ _ Hm Hr HL Ew) as (-> & Hal & Hrb).
  destruct (ot_sub (c_money (fld (a_st a) t)) (money_at unit (t_level t) a) ot) as [m o1] eqn:E1.
  unfold reward_units in H. destruct (N.eqb_spec unit 0) as [U|U]; [discriminate|].
  destruct (ot_sub (c_units (fld (a_st a) t)) (a_malgos a / unit) o1) as [u o2] eqn:E2.
  inversion H; subst t' o2. clear H.
  destruct (Ht _ Hst) as [Hfm Hfu].
  destruct (ot_sub_exact _ _ _ _ Hfu (div_lt_W _ unit Hm) E2) as (-> & Eu & Hu).
  destruct (ot_sub_exact _ _ _ _ Hfm Hal E1) as (-> & Em & Hmm).
  split; [reflexivity|]. split; [apply level_set_field|].
  split.
  { intros X HX. rewrite fld_set_field by assumption. destruct (X =? a_st a); cbn [c_money c_units]; auto. }
  intros X HX. rewrite fld_set_field by assumption. unfold cls_money, cls_units, units_of.
  rewrite (N.eqb_sym (a_st a) X).
  destruct (N.eqb_spec X (a_st a)) as [->|]; cbn [c_money c_units]; split; lia.
Qed.

(* ---------- sums over worlds ---------- *)
Definition S (g : acct -> N) (w : world) : N := sum_by (fun e => g (snd e)) w.

Lemma S_cons g k a w : S g ((k, a) :: w) = g a + S g w.
Proof. reflexivity. Qed.
Lemma S_nil g : S g [] = 0.
Proof. reflexivity. Qed.

Lemma S_wset g k a w : g acct0 = 0 -> S g (wset k a w) + g (wget k w) = S g w + g a.
Proof.
  intros H0. induction w as [|[k' a'] w IH]; cbn [wset wget].
  - unfold S. cbn. rewrite H0. lia.
  - destruct (N.eqb_spec k' k).
    + unfold S, sum_by. cbn. lia.
    + unfold S, sum_by in *. cbn [fold_right snd] in *. lia.
Qed.

Lemma wget_wset_other k k' a w : k <> k' -> wget k (wset k' a w) = wget k w.
Proof.
  intros Hn. induction w as [|[k2 a2] w IH]; cbn [wset wget].
  - destruct (N.eqb_spec k' k); [congruence|reflexivity].
  - destruct (N.eqb_spec k2 k').
    + subst. cbn [wget]. destruct (N.eqb_spec k' k); [congruence|]. destruct (N.eqb_spec k' k); [congruence|reflexivity].
    + cbn [wget]. destruct (N.eqb_spec k2 k); [reflexivity|exact IH].
Qed.

Lemma wget_wset_same k a w : wget k (wset k a w) = a.
Proof.
  induction w as [|[k2 a2] w IH]; cbn [wset wget].
  - rewrite N.eqb_refl. reflexivity.
  - destruct (N.eqb_spec k2 k).
    + cbn [wget]. rewrite N.eqb_refl. reflexivity.
    + cbn [wget]. destruct (N.eqb_spec k2 k); [contradiction|exact IH].
Qed.

Lemma in_wset k a w e : In e (wset k a w) -> e = (k, a) \/ In e w.
Proof.
  induction w as [|[k2 a2] w IH]; cbn [wset].
  - intros [<-|[]]. left; reflexivity.
  - destruct (N.eqb_spec k2 k).
    + intros [<-|H]; [left; reflexivity|right; right; exact H].
    + intros [<-|H]; [right; left; reflexivity|]. destruct (IH H); [left; assumption|right; right; assumption].
Qed.

Lemma wget_in_or_zero k w : wget k w = acct0 \/ In (k, wget k w) w.
Proof.
  induction w as [|[k2 a2] w IH]; cbn [wget]; [left; reflexivity|].
  destruct (N.eqb_spec k2 k); [subst; right; left; reflexivity|].
  destruct IH; [left; assumption|right; right; assumption].
Qed.

Definition world_good (L : N) (w : world) : Prop := forall k a, In (k, a) w -> acct_good L a.

Lemma acct0_good L : acct_good L acct0.
Proof. unfold acct_good, acct0; cbn. repeat split; try reflexivity; try lia. Qed.

Lemma wget_good L k w : world_good L w -> acct_good L (wget k w).
Proof.
  intros H. destruct (wget_in_or_zero k w) as [->|Hin]; [apply acct0_good|]. exact (H _ _ Hin).
Qed.

Lemma world_good_wset L k a w : world_good L w -> acct_good L a -> world_good L (wset k a w).
Proof.
  intros Hw Ha k' a' Hin. apply in_wset in Hin as [[= -> ->]|Hin]; [exact Ha|exact (Hw _ _ Hin)].
Qed.

Lemma acct_good_mono L L' a : L <= L' -> acct_good L a -> acct_good L' a.
Proof. unfold acct_good. intros HL (H1 & H2 & H3 & H4). repeat split; try assumption. intros Hn. specialize (H4 Hn). lia. Qed.

Lemma cls_money_zero unit L X : cls_money unit L X acct0 = 0.
Proof.
  unfold cls_money, money_at, units_of, acct0; cbn [a_st a_malgos a_rbase].
  destruct (0 =? X); [|reflexivity]. cbn. destruct unit; reflexivity.
Qed.
Lemma cls_units_zero unit X : cls_units unit X acct0 = 0.
Proof.
  unfold cls_units, units_of, acct0; cbn [a_st a_malgos a_rbase].
  destruct (0 =? X); [|reflexivity]. destruct unit; reflexivity.
Qed.

(* the invariant: the totals are the class sums of the world at the totals' own level *)
Definition TInv (unit : N) (w : world) (t : totals) : Prop :=
  t_level t < W /\ totals_lt t /\ world_good (t_level t) w /\
  forall X, X <= 2 ->
    c_money (fld X t) = S (cls_money unit (t_level t) X) w /\
    c_units (fld X t) = S (cls_units unit X) w.

Lemma TInv_class_sums unit w t : TInv unit w t -> t = class_sums unit (t_level t) w.
Proof.
  intros (_ & _ & _ & H). unfold class_sums, class_count.
  pose proof (H 1 ltac:(lia)) as [H1m H1u]. pose proof (H 0 ltac:(lia)) as [H0m H0u].
  pose proof (H 2 ltac:(lia)) as [H2m H2u]. unfold fld, stOnline, stOffline, stNotPart in *. cbn in *.
  unfold S in *. destruct t as [[a b] [c d] [e f] g]. cbn in *. subst. reflexivity.
Qed.

(* ---------- ApplyRewards ---------- *)
Lemma money_shift unit L L' X w : X <> 2 -> L <= L' -> world_good L w ->
  S (cls_money unit L' X) w = S (cls_money unit L X) w + S (cls_units unit X) w * (L' - L).
Proof.
  intros HX HL Hw. induction w as [|[k a] w IH]; [reflexivity|].
  assert (Hw' : world_good L w) by (intros k' a' Hin; apply (Hw k' a'); right; exact Hin).
  specialize (IH Hw'). rewrite !S_cons, IH.
  destruct (Hw k a (or_introl eq_refl)) as (_ & _ & _ & Hrb).
  unfold cls_money, cls_units, money_at, stNotPart.
  destruct (N.eqb_spec (a_st a) X) as [E|E]; [|lia].
  destruct (N.eqb_spec (a_st a) 2) as [E2|E2]; [congruence|].
  specialize (Hrb E2).
  replace (L' - a_rbase a) with ((L - a_rbase a) + (L' - L)) by lia.
  rewrite N.mul_add_distr_l. lia.
Qed.

Lemma money_np unit L L' w : S (cls_money unit L' 2) w = S (cls_money unit L 2) w.
Proof.
  induction w as [|[k a] w IH]; [reflexivity|]. rewrite !S_cons, IH.
  unfold cls_money, money_at, stNotPart. destruct (a_st a =? 2); reflexivity.
Qed.

Lemma ac_apply_exact c rpu ot c' : c_money c < W -> c_units c < W -> rpu < W ->
  ac_apply_rewards c rpu ot = (c', false) ->
  ot = false /\ c_units c' = c_units c /\ c_money c' = c_money c + c_units c * rpu /\ c_money c' < W.
Proof.
  intros Hm Hu Hr H. unfold ac_apply_rewards in H.
  destruct (ot_mul (c_units c) rpu ot) as [got o1] eqn:E1.
  destruct (ot_add (c_money c) got o1) as [m o2] eqn:E2. inversion H; subst c' o2. clear H.
  pose proof (ot_mul_lt (c_units c) rpu ot) as Hg. rewrite E1 in Hg. cbn in Hg.
  destruct (ot_add_exact _ _ _ _ Hm Hg E2) as (-> & -> & Hlt).
  destruct (ot_mul_exact _ _ _ _ Hu Hr E1) as (-> & -> & _).
  cbn. repeat split; try assumption; reflexivity.
Qed.

Lemma apply_rewards_inv unit w t L t' : TInv unit w t -> L < W ->
  apply_rewards L t false = (t', false) -> TInv unit w t' /\ t_level t' = L /\ t_level t <= L.
Proof.
  intros (Hlv & Hlt & Hg & Hs) HL H. unfold apply_rewards in H.
  destruct (ot_sub L (t_level t) false) as [rpu o0] eqn:E0.
  destruct (ac_apply_rewards (t_on t) rpu o0) as [on' o1] eqn:E1.
  destruct (ac_apply_rewards (t_off t) rpu o1) as [off' o2] eqn:E2.
  inversion H; subst t' o2. clear H.
  pose proof (ot_sub_lt L (t_level t) false) as Hr. rewrite E0 in Hr. cbn in Hr.
  pose proof (Hlt 1 ltac:(lia)) as [Hom Hou]. pose proof (Hlt 0 ltac:(lia)) as [Hfm Hfu].
  pose proof (Hlt 2 ltac:(lia)) as [Hnm Hnu].
  unfold fld, stOnline, stOffline in Hom, Hou, Hfm, Hfu, Hnm, Hnu. cbn in Hom, Hou, Hfm, Hfu, Hnm, Hnu.
  destruct (ac_apply_exact _ _ _ _ Hfm Hfu Hr E2) as (-> & Hfu' & Hfm' & Hfl).
  destruct (ac_apply_exact _ _ _ _ Hom Hou Hr E1) as (-> & Hou' & Hom' & Hol).
  destruct (ot_sub_exact _ _ _ _ HL Hlv E0) as (_ & HLe & _).
  assert (Hrpu : rpu = L - t_level t) by lia. assert (Hle : t_level t <= L) by lia.
  split; [|split; [reflexivity|exact Hle]].
  unfold TInv. cbn [t_level]. split; [exact HL|]. split.
  { intros X HX. unfold fld, stOnline, stOffline. cbn [t_on t_off t_np].
    destruct (X =? 1); [rewrite Hou'; auto|]. destruct (X =? 0); [rewrite Hfu'; auto|]. auto. }
  split. { intros k a Hin. apply (acct_good_mono (t_level t)); [exact Hle|exact (Hg _ _ Hin)]. }
  intros X HX. pose proof (Hs X HX) as [Hm Hu].
  unfold fld, stOnline, stOffline in *. cbn [t_on t_off t_np].
  destruct (N.eqb_spec X 1) as [->|N1].
  - rewrite (money_shift unit (t_level t) L 1 w) by (try lia; assumption).
    cbn in Hm, Hu. rewrite Hou', Hom', Hm, Hu, Hrpu. split; reflexivity.
  - destruct (N.eqb_spec X 0) as [->|N0].
    + rewrite (money_shift unit (t_level t) L 0 w) by (try lia; assumption).
      cbn in Hm, Hu. rewrite Hfu', Hfm', Hm, Hu, Hrpu. split; reflexivity.
    + assert (X = 2) as -> by lia. cbn in Hm, Hu. rewrite (money_np unit (t_level t) L). split; assumption.
Qed.

(* ---------- the cow loop: DelAccount old; AddAccount new ---------- *)
Definition keys (l : list (N * acct)) : list N := map fst l.

Lemma nodup_keys_NoDup l : nodup_keys l = true -> NoDup (keys l).
Proof.
  induction l as [|[k a] l IH]; cbn [nodup_keys keys map fst]; [constructor|].
  intros H. apply andb_true_iff in H as [H1 H2]. constructor; [|exact (IH H2)].
  intros Hin. apply negb_true_iff in H1. apply in_map_iff in Hin as [[k' a'] [E Hin]]. cbn in E. subst k'.
  assert (existsb (fun e : N * acct => fst e =? k) l = true); [|congruence].
  apply existsb_exists. exists (k, a'). split; [exact Hin|apply N.eqb_refl].
Qed.

Lemma accts_ok_in l k a : accts_ok l = true -> In (k, a) l -> a_malgos a < W /\ a_rbase a < W.
Proof.
  unfold accts_ok. rewrite forallb_forall. intros H Hin. specialize (H _ Hin). cbn in H.
  unfold acct_ok in H. apply andb_true_iff in H as [H1 H2]. split; apply u64_lt; assumption.
Qed.

Lemma wapply_cons m ms w : wapply (m :: ms) w = wapply ms (wset (fst m) (snd m) w).
Proof. reflexivity. Qed.

Lemma step_sums (tm tm1 tm2 sw sw' gold gnew : N) :
  tm = sw -> tm = tm1 + gold -> tm2 = tm1 + gnew -> sw' + gold = sw + gnew -> tm2 = sw'.
Proof. lia. Qed.

(* the OverflowTracker flag never goes down *)
Lemma ot_add_sticky a b r o : ot_add a b true = (r, o) -> o = true.
Proof. unfold ot_add. destruct (oadd 64 a b). intros [= _ <-]. reflexivity. Qed.
Lemma ot_sub_sticky a b r o : ot_sub a b true = (r, o) -> o = true.
Proof. unfold ot_sub. destruct (osub 64 a b). intros [= _ <-]. reflexivity. Qed.

Lemma add_sticky unit a t t' o : add_account unit a t true = Some (t', o) -> o = true.
Proof.
  unfold add_account. destruct (status_field _ _); [|discriminate].
  destruct (with_updated_rewards _ _ _); [|discriminate].
  destruct (ot_add (c_money a0) n true) as [m o1] eqn:E1. apply ot_add_sticky in E1. subst o1.
  destruct (reward_units _ _); [|discriminate].
  destruct (ot_add (c_units a0) n0 true) as [u o2] eqn:E2. apply ot_add_sticky in E2. subst o2.
  intros [= _ <-]. reflexivity.
Qed.
Lemma del_sticky unit a t t' o : del_account unit a t true = Some (t', o) -> o = true.
Proof.
  unfold del_account. destruct (status_field _ _); [|discriminate].
  destruct (with_updated_rewards _ _ _); [|discriminate].
  destruct (ot_sub (c_money a0) n true) as [m o1] eqn:E1. apply ot_sub_sticky in E1. subst o1.
  destruct (reward_units _ _); [|discriminate].
  destruct (ot_sub (c_units a0) n0 true) as [u o2] eqn:E2. apply ot_sub_sticky in E2. subst o2.
  intros [= _ <-]. reflexivity.
Qed.
Lemma calc_loop_sticky unit prev : forall ms t t' o,
  calc_loop unit prev ms t true = Some (t', o) -> o = true.
Proof.
  induction ms as [|[k a] ms IH]; intros t t' o H; cbn [calc_loop] in H.
  - inversion H; reflexivity.
  - destruct (del_account unit (wget k prev) t true) as [[t1 o1]|] eqn:Ed; [|discriminate].
    apply del_sticky in Ed. subst o1.
    destruct (add_account unit a t1 true) as [[t2 o2]|] eqn:Ea; [|discriminate].
    apply add_sticky in Ea. subst o2. exact (IH _ _ _ H).
Qed.

Lemma calc_loop_sound unit prev : forall mods w t ot t',
  TInv unit w t -> NoDup (keys mods) ->
  (forall k a, In (k, a) mods -> a_malgos a < W /\ a_rbase a < W) ->
  (forall k, In k (keys mods) -> wget k prev = wget k w) ->
  calc_loop unit prev mods t ot = Some (t', false) ->
  ot = false /\ TInv unit (wapply mods w) t' /\ t_level t' = t_level t /\ (mods <> [] -> unit <> 0).
Proof.
  induction mods as [|[k a] ms IH]; intros w t ot t' Hinv Hnd Hok Hprev H; cbn [calc_loop] in H.
  - inversion H; subst. split; [reflexivity|]. split; [exact Hinv|]. split; [reflexivity|].
    intros Hc; contradiction.
  - destruct (del_account unit (wget k prev) t ot) as [[t1 ot1]|] eqn:Ed; [|discriminate].
    destruct (add_account unit a t1 ot1) as [[t2 ot2]|] eqn:Ea; [|discriminate].
    assert (Hk : wget k prev = wget k w) by (apply Hprev; left; reflexivity).
    inversion Hnd as [|? ? Hnotin Hnd']; subst.
    destruct (Hok k a (or_introl eq_refl)) as [Hm Hr].
    assert (ot2 = false) as ->.
    { destruct ot2; [|reflexivity]. apply calc_loop_sticky in H. discriminate. }
    assert (ot1 = false) as ->.
    { destruct ot1; [|reflexivity]. apply add_sticky in Ea. discriminate. }
    destruct Hinv as (Hlv & Hlt & Hg & Hs).
    pose proof (wget_good _ k _ Hg) as Hold. rewrite <- Hk in Hold.
    destruct Hold as (Hom & Hor & _ & _).
    destruct (del_exact _ _ _ _ _ Hlt Hlv Hom Hor Ed) as (-> & El1 & Hlt1 & Hdel).
    assert (Hlv1 : t_level t1 < W) by (rewrite El1; exact Hlv).
    destruct (add_exact _ _ _ _ _ Hlt1 Hlv1 Hm Hr Ea) as (_ & El2 & Hlt2 & Hgood & Hunit & Hadd).
    assert (Hinv2 : TInv unit (wset k a w) t2).
    { unfold TInv. rewrite El2, El1. split; [exact Hlv|]. split; [exact Hlt2|].
      split. { apply world_good_wset; [exact Hg|]. rewrite <- El1. exact Hgood. }
      intros X HX. destruct (Hs X HX) as [Hsm Hsu]. destruct (Hdel X HX) as [Hdm Hdu].
      destruct (Hadd X HX) as [Ham Hau]. rewrite El1 in Ham.
      pose proof (S_wset (cls_money unit (t_level t) X) k a w (cls_money_zero _ _ _)) as Swm.
      pose proof (S_wset (cls_units unit X) k a w (cls_units_zero _ _)) as Swu.
      rewrite <- Hk in Swm, Swu.
      split; [exact (step_sums _ _ _ _ _ _ _ Hsm Hdm Ham Swm)|exact (step_sums _ _ _ _ _ _ _ Hsu Hdu Hau Swu)]. }
    rewrite wapply_cons. cbn [fst snd].
    destruct (IH (wset k a w) t2 false t' Hinv2 Hnd') as (_ & Hfin & Hl & _).
    + intros k' a' Hin. apply (Hok k' a'). right; exact Hin.
    + intros k' Hin. rewrite wget_wset_other; [apply Hprev; right; exact Hin|].
      intros ->. exact (Hnotin Hin).
    + exact H.
    + split; [reflexivity|]. split; [exact Hfin|]. split; [rewrite Hl, El2, El1; reflexivity|]. intros _. exact Hunit.
Qed.

Lemma calculate_totals_ok unit t w L mods t' :
  calculate_totals unit t w L mods = COk t' ->
  exists t0, apply_rewards L t false = (t0, false) /\ calc_loop unit w mods t0 false = Some (t', false).
Proof.
  unfold calculate_totals. destruct (apply_rewards L t false) as [t0 ot0] eqn:Ea.
  destruct (calc_loop unit w mods t0 ot0) as [[t1 ot1]|] eqn:Ec; [|discriminate].
  destruct ot1; [discriminate|]. intros H.
  assert (t1 = t') as ->.
  { destruct (all_money t1); [|discriminate]. destruct (all_money t); [|discriminate].
    destruct (n =? n0); [inversion H; reflexivity|discriminate]. }
  assert (ot0 = false) as ->.
  { destruct ot0; [|reflexivity]. apply calc_loop_sticky in Ec. discriminate. }
  exists t0. split; [reflexivity|exact Ec].
Qed.

Lemma calculate_totals_sound unit w t b t' :
  TInv unit w t -> block_ok b = true ->
  calculate_totals unit t w (b_level b) (b_mods b) = COk t' ->
  TInv unit (wapply (b_mods b) w) t' /\ t_level t' = b_level b /\ t_level t <= b_level b.
Proof.
  intros Hinv Hb H. unfold block_ok, mods_ok in Hb.
  apply andb_true_iff in Hb as [HL Hb]. apply andb_true_iff in Hb as [Hok Hnd].
  apply u64_lt in HL. apply nodup_keys_NoDup in Hnd.
  apply calculate_totals_ok in H as (t0 & Ea & Ec).
  destruct (apply_rewards_inv _ _ _ _ _ Hinv HL Ea) as (Hinv0 & El0 & Hle).
  destruct (calc_loop_sound unit w (b_mods b) w t0 false t' Hinv0 Hnd) as (_ & Hfin & Hl & _).
  - intros k a Hin. exact (accts_ok_in _ _ _ Hok Hin).
  - reflexivity.
  - exact Ec.
  - split; [exact Hfin|]. split; [rewrite Hl; exact El0|exact Hle].
Qed.

(* ---------- genesis ---------- *)
Lemma TInv_empty unit : TInv unit [] totals0.
Proof.
  unfold TInv, totals0. cbn [t_level]. split; [apply W_pos|]. split.
  { intros X _. unfold fld. cbn. destruct (X =? stOnline); [|destruct (X =? stOffline)]; cbn; split; apply W_pos. }
  split; [intros k a []|].
  intros X _. unfold fld. cbn. destruct (X =? stOnline); [|destruct (X =? stOffline)]; cbn; split; reflexivity.
Qed.

Lemma genesis_loop_sticky unit : forall accts t t' o,
  genesis_loop unit accts t true = Some (t', o) -> o = true.
Proof.
  induction accts as [|[k a] l IH]; intros t t' o H; cbn [genesis_loop] in H.
  - inversion H; reflexivity.
  - destruct (add_account unit a t true) as [[t1 o1]|] eqn:Ea; [|discriminate].
    apply add_sticky in Ea. subst o1. exact (IH _ _ _ H).
Qed.

Lemma genesis_loop_sound unit : forall accts w t ot t',
  TInv unit w t -> NoDup (keys accts) ->
  (forall k a, In (k, a) accts -> a_malgos a < W /\ a_rbase a < W) ->
  (forall k, In k (keys accts) -> wget k w = acct0) ->
  genesis_loop unit accts t ot = Some (t', false) ->
  TInv unit (wapply accts w) t' /\ t_level t' = t_level t.
Proof.
  induction accts as [|[k a] l IH]; intros w t ot t' Hinv Hnd Hok Hfresh H; cbn [genesis_loop] in H.
  - inversion H; subst. split; [exact Hinv|reflexivity].
  - destruct (add_account unit a t ot) as [[t1 o1]|] eqn:Ea; [|discriminate].
    assert (o1 = false) as ->.
    { destruct o1; [|reflexivity]. apply genesis_loop_sticky in H. discriminate. }
    inversion Hnd as [|? ? Hnotin Hnd']; subst.
    destruct (Hok k a (or_introl eq_refl)) as [Hm Hr].
    destruct Hinv as (Hlv & Hlt & Hg & Hs).
    destruct (add_exact _ _ _ _ _ Hlt Hlv Hm Hr Ea) as (_ & El & Hlt1 & Hgood & _ & Hadd).
    assert (Hinv1 : TInv unit (wset k a w) t1).
    { unfold TInv. rewrite El. split; [exact Hlv|]. split; [exact Hlt1|].
      split; [apply world_good_wset; assumption|].
      intros X HX. destruct (Hs X HX) as [Hsm Hsu]. destruct (Hadd X HX) as [Ham Hau].
      pose proof (S_wset (cls_money unit (t_level t) X) k a w (cls_money_zero _ _ _)) as Swm.
      pose proof (S_wset (cls_units unit X) k a w (cls_units_zero _ _)) as Swu.
      rewrite (Hfresh k (or_introl eq_refl)) in Swm, Swu.
      rewrite cls_money_zero in Swm. rewrite cls_units_zero in Swu. split; lia. }
    rewrite wapply_cons. cbn [fst snd].
    destruct (IH (wset k a w) t1 false t' Hinv1 Hnd') as (Hfin & Hl).
    + intros k' a' Hin. apply (Hok k' a'). right; exact Hin.
    + intros k' Hin. rewrite wget_wset_other; [apply Hfresh; right; exact Hin|].
      intros ->. exact (Hnotin Hin).
    + exact H.
    + split; [exact Hfin|]. rewrite Hl. exact El.
Qed.

Lemma genesis_totals_sound unit genesis t0 :
  mods_ok genesis = true -> genesis_totals unit genesis = GOk t0 ->
  TInv unit (wapply genesis []) t0 /\ t_level t0 = 0.
Proof.
  intros Hok H. unfold mods_ok in Hok. apply andb_true_iff in Hok as [Hok Hnd].
  apply nodup_keys_NoDup in Hnd. unfold genesis_totals in H.
  destruct (genesis_loop unit genesis totals0 false) as [[t o]|] eqn:E; [|discriminate].
  destruct o; [discriminate|]. inversion H; subst t.
  apply (genesis_loop_sound unit genesis [] totals0 false t0 (TInv_empty unit) Hnd).
  - intros k a Hin. exact (accts_ok_in _ _ _ Hok Hin).
  - reflexivity.
  - exact E.
Qed.

(* ---------- chains of blocks ---------- *)
Definition wfold (bs : list block) (w : world) : world :=
  fold_left (fun w b => wapply (b_mods b) w) bs w.

Lemma wfold_app a b w : wfold (a ++ b) w = wfold b (wfold a w).
Proof. unfold wfold. apply fold_left_app. Qed.

(* last element of the trace, or the start *)
Definition tlast (tr : list (world * totals)) (w : world) (t : totals) : world * totals :=
  last tr (w, t).

Lemma tlast_cons x tr w t : tlast (x :: tr) w t = tlast tr (fst x) (snd x).
Proof.
  unfold tlast. destruct x as [w1 t1]. cbn [fst snd]. revert w1 t1.
  induction tr as [|y tr IH]; intros w1 t1; [reflexivity|].
  change (last ((w1, t1) :: y :: tr) (w, t)) with (last (y :: tr) (w, t)).
  change (last (y :: tr) (w1, t1)) with (match tr with [] => y | _ => last tr (w1, t1) end).
  destruct y as [w2 t2]. rewrite (IH w2 t2). destruct tr as [|z tr]; [reflexivity|].
  clear IH. revert z. induction tr as [|z' tr IH2]; intros z; [reflexivity|].
  change (last (z :: z' :: tr) (w2, t2)) with (last (z' :: tr) (w2, t2)).
  change (last (z :: z' :: tr) (w1, t1)) with (last (z' :: tr) (w1, t1)). apply IH2.
Qed.

Lemma chain_length unit : forall bs w t tr, chain unit w t bs = Some tr -> length tr = length bs.
Proof.
  induction bs as [|b bs IH]; intros w t tr H; cbn [chain] in H.
  - inversion H; reflexivity.
  - destruct (calculate_totals unit t w (b_level b) (b_mods b)); try discriminate.
    destruct (chain unit (wapply (b_mods b) w) t0 bs) eqn:E; [|discriminate].
    inversion H; subst. cbn. f_equal. exact (IH _ _ _ E).
Qed.

(* everything a successful chain gives, position by position *)
Lemma chain_spec unit : forall bs w t tr,
  TInv unit w t -> forallb block_ok bs = true -> chain unit w t bs = Some tr ->
  forall j b, nth_error bs j = Some b ->
    exists t', nth_error tr j = Some (wfold (firstn (Datatypes.S j) bs) w, t') /\
               TInv unit (wfold (firstn (Datatypes.S j) bs) w) t' /\ t_level t' = b_level b.
Proof.
  induction bs as [|b0 bs IH]; intros w t tr Hinv Hok H j b Hj.
  - destruct j; discriminate.
  - cbn [forallb] in Hok. apply andb_true_iff in Hok as [Hb0 Hok].
    cbn [chain] in H.
    destruct (calculate_totals unit t w (b_level b0) (b_mods b0)) as [t1| | |] eqn:Ec; try discriminate.
    destruct (chain unit (wapply (b_mods b0) w) t1 bs) as [tr1|] eqn:E; [|discriminate].
    inversion H; subst tr. clear H.
    destruct (calculate_totals_sound _ _ _ _ _ Hinv Hb0 Ec) as (Hinv1 & Hl1 & _).
    destruct j as [|j].
    + cbn in Hj. inversion Hj; subst b. exists t1. cbn [nth_error firstn]. unfold wfold. cbn [fold_left].
      split; [reflexivity|]. split; assumption.
    + cbn [nth_error] in Hj |- *. destruct (IH _ _ _ Hinv1 Hok E j b Hj) as (t' & Hn & Hi & Hl).
      exists t'. cbn [firstn]. unfold wfold in *. cbn [fold_left]. auto.
Qed.

Lemma chain_snoc unit : forall bs w t tr b t',
  chain unit w t bs = Some tr ->
  calculate_totals unit (snd (tlast tr w t)) (wfold bs w) (b_level b) (b_mods b) = COk t' ->
  fst (tlast tr w t) = wfold bs w ->
  chain unit w t (bs ++ [b]) = Some (tr ++ [(wapply (b_mods b) (wfold bs w), t')]).
Proof.
  induction bs as [|b0 bs IH]; intros w t tr b t' H Hc Hf; cbn [chain app] in *.
  - inversion H; subst tr. cbn in Hc. unfold wfold in *. cbn [fold_left] in *. rewrite Hc. reflexivity.
  - destruct (calculate_totals unit t w (b_level b0) (b_mods b0)) as [t1| | |] eqn:Ec; try discriminate.
    destruct (chain unit (wapply (b_mods b0) w) t1 bs) as [tr1|] eqn:E; [|discriminate].
    inversion H; subst tr. clear H.
    assert (Hl : tlast ((wapply (b_mods b0) w, t1) :: tr1) w t = tlast tr1 (wapply (b_mods b0) w) t1)
      by apply tlast_cons.
    rewrite Hl in Hc, Hf. unfold wfold in Hc, Hf |- *. cbn [fold_left] in Hc, Hf |- *.
    rewrite (IH _ _ _ _ _ E Hc Hf). reflexivity.
Qed.

Lemma chain_last_world unit : forall bs w t tr, chain unit w t bs = Some tr ->
  fst (tlast tr w t) = wfold bs w.
Proof.
  induction bs as [|b0 bs IH]; intros w t tr H; cbn [chain] in H.
  - inversion H; reflexivity.
  - destruct (calculate_totals unit t w (b_level b0) (b_mods b0)) as [t1| | |] eqn:Ec; try discriminate.
    destruct (chain unit (wapply (b_mods b0) w) t1 bs) as [tr1|] eqn:E; [|discriminate].
    inversion H; subst tr. clear H.
    assert (Hl : tlast ((wapply (b_mods b0) w, t1) :: tr1) w t = tlast tr1 (wapply (b_mods b0) w) t1)
      by apply tlast_cons.
    rewrite Hl. unfold wfold. cbn [fold_left]. exact (IH _ _ _ E).
Qed.

Lemma nth_last_totals : forall (tr : list (world * totals)) w t,
  nth_error (t :: map snd tr) (length tr) = Some (snd (tlast tr w t)).
Proof.
  induction tr as [|[w1 t1] tr IH]; intros w t; [reflexivity|].
  cbn [length map snd]. change (nth_error (t :: t1 :: map snd tr) (Datatypes.S (length tr)))
    with (nth_error (t1 :: map snd tr) (length tr)).
  rewrite (IH w1 t1). rewrite (tlast_cons (w1, t1) tr w t). reflexivity.
Qed.

(* committing a prefix: the rest of the chain restarts from the state reached *)
Lemma chain_skip unit : forall off bs w t tr,
  TInv unit w t -> forallb block_ok bs = true -> chain unit w t bs = Some tr ->
  (off <= length bs)%nat ->
  exists t', nth_error (t :: map snd tr) off = Some t' /\
    TInv unit (wfold (firstn off bs) w) t' /\
    chain unit (wfold (firstn off bs) w) t' (skipn off bs) = Some (skipn off tr) /\
    skipn off (t :: map snd tr) = t' :: map snd (skipn off tr).
Proof.
  induction off as [|off IH]; intros bs w t tr Hinv Hok H Hle.
  - exists t. cbn. auto.
  - destruct bs as [|b0 bs]; [cbn in Hle; lia|].
    cbn [forallb] in Hok. apply andb_true_iff in Hok as [Hb0 Hok]. cbn [chain] in H.
    destruct (calculate_totals unit t w (b_level b0) (b_mods b0)) as [t1| | |] eqn:Ec; try discriminate.
    destruct (chain unit (wapply (b_mods b0) w) t1 bs) as [tr1|] eqn:E; [|discriminate].
    inversion H; subst tr. clear H.
    destruct (calculate_totals_sound _ _ _ _ _ Hinv Hb0 Ec) as (Hinv1 & _ & _).
    cbn [length] in Hle. assert (Hle' : (off <= length bs)%nat) by lia.
    destruct (IH bs _ _ _ Hinv1 Hok E Hle') as (t' & Hn & Hi & Hc & Hs).
    exists t'. cbn [map snd nth_error skipn firstn]. unfold wfold in *. cbn [fold_left]. auto.
Qed.

Lemma replay_chain unit : forall bs w t,
  replay unit w t bs = match chain unit w t bs with Some tr => Some (map snd tr) | None => None end.
Proof.
  induction bs as [|b bs IH]; intros w t; cbn [replay chain]; [reflexivity|].
  destruct (calculate_totals unit t w (b_level b) (b_mods b)); try reflexivity.
  rewrite IH. destruct (chain unit (wapply (b_mods b) w) t0 bs); reflexivity.
Qed.
