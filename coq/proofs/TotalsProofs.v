(* C12 lemmas: the incremental totals of model/Totals.v (wrapping uint64 arithmetic with a
   sticky overflow flag) against the declarative class sums of model/TotalsSpec.v. *)
From Coq Require Import NArith ZArith List Bool Lia ZifyN ZifyNat ZifyBool.
From Verif.model Require Import Overflow Totals TotalsSpec.
From Verif.proofs Require Import OverflowProofs.
Import ListNotations.
Open Scope N_scope.

(* ---------- uint64 helpers ---------- *)
Lemma M64 : M 64 = W. Proof. reflexivity. Qed.
Lemma W_pos : 0 < W. Proof. reflexivity. Qed.
Lemma u64_lt x : u64 x = true <-> x < W.
Proof. unfold u64. fold W. apply N.ltb_lt. Qed.

Lemma mod_lt x : x mod W < W.
Proof. apply N.mod_upper_bound. pose proof W_pos. lia. Qed.

Lemma oadd_lt a b : fst (oadd 64 a b) < W.
Proof. unfold oadd. cbn [fst]. rewrite M64. apply mod_lt. Qed.
Lemma osub_lt a b : fst (osub 64 a b) < W.
Proof. unfold osub. cbn [fst]. rewrite M64. apply mod_lt. Qed.
Lemma omul_lt a b : fst (omul 64 a b) < W.
Proof.
  unfold omul. destruct (b =? 0); [apply W_pos|].
  destruct (negb _); cbn [fst]; [apply W_pos|]. rewrite M64. apply mod_lt.
Qed.

Lemma ot_add_lt a b ot : fst (ot_add a b ot) < W.
Proof. unfold ot_add. pose proof (oadd_lt a b). destruct (oadd 64 a b). exact H. Qed.
Lemma ot_sub_lt a b ot : fst (ot_sub a b ot) < W.
Proof. unfold ot_sub. pose proof (osub_lt a b). destruct (osub 64 a b). exact H. Qed.
Lemma ot_mul_lt a b ot : fst (ot_mul a b ot) < W.
Proof. unfold ot_mul. pose proof (omul_lt a b). destruct (omul 64 a b). exact H. Qed.

Lemma ot_add_exact a b ot r : a < W -> b < W -> ot_add a b ot = (r, false) ->
  ot = false /\ r = a + b /\ r < W.
Proof.
  intros Ha Hb H. pose proof (ot_add_lt a b ot) as Hl. rewrite H in Hl. cbn in Hl.
  unfold ot_add in H. pose proof (oadd_exact 64 a b Ha Hb) as [_ He].
  destruct (oadd 64 a b) as [x o]. cbn [fst snd] in *. inversion H; subst.
  apply orb_false_iff in H2 as [-> ->]. auto.
Qed.

Lemma ot_sub_exact a b ot r : a < W -> b < W -> ot_sub a b ot = (r, false) ->
  ot = false /\ a = r + b /\ r < W.
Proof.
  intros Ha Hb H. pose proof (ot_sub_lt a b ot) as Hl. rewrite H in Hl. cbn in Hl.
  unfold ot_sub in H. pose proof (osub_exact 64 a b Ha Hb) as [_ He].
  destruct (osub 64 a b) as [x o]. cbn [fst snd] in *. inversion H; subst.
  apply orb_false_iff in H2 as [-> ->]. destruct (He eq_refl). repeat split; try assumption. lia.
Qed.

Lemma ot_mul_exact a b ot r : a < W -> b < W -> ot_mul a b ot = (r, false) ->
  ot = false /\ r = a * b /\ r < W.
Proof.
  intros Ha Hb H. pose proof (ot_mul_lt a b ot) as Hl. rewrite H in Hl. cbn in Hl.
  unfold ot_mul in H. pose proof (omul_exact 64 a b Ha Hb) as [_ [He _]].
  destruct (omul 64 a b) as [x o]. cbn [fst snd] in *. inversion H; subst.
  apply orb_false_iff in H2 as [-> ->]. auto.
Qed.

(* the flag is sticky *)
Lemma ot_add_true a b : snd (ot_add a b true) = true.
Proof. unfold ot_add. destruct (oadd 64 a b). reflexivity. Qed.

Lemma div_lt_W m unit : m < W -> m / unit < W.
Proof.
  intros H. destruct (N.eq_dec unit 0) as [->|Hn].
  - assert (m / 0 = 0) as -> by (destruct m; reflexivity). apply W_pos.
  - pose proof (N.div_le_upper_bound m unit m Hn). assert (m <= unit * m) by nia. lia.
Qed.

(* ---------- WithUpdatedRewards = money_at whenever it does not panic ---------- *)
Definition acct_good (L : N) (a : acct) : Prop :=
  a_malgos a < W /\ a_rbase a < W /\ a_st a <= 2 /\ (a_st a <> 2 -> a_rbase a <= L).

Lemma wur_exact unit a L m : a_malgos a < W -> a_rbase a < W -> L < W ->
  with_updated_rewards unit a L = Some m ->
  m = money_at unit L a /\ m < W /\ (a_st a <> 2 -> a_rbase a <= L /\ unit <> 0).
Proof.
  intros Hm Hr HL H. unfold with_updated_rewards, money_at in *. unfold stNotPart in *.
  destruct (N.eqb_spec (a_st a) 2) as [E|E].
  - inversion H; subst. split; [reflexivity|]. split; [assumption|]. intros Hn; contradiction.
  - unfold reward_units in H. destruct (N.eqb_spec unit 0) as [U|U]; [discriminate|].
    destruct (ot_sub L (a_rbase a) false) as [delta o1] eqn:E1.
    destruct (ot_mul (a_malgos a / unit) delta o1) as [rew o2] eqn:E2.
    destruct (ot_add (a_malgos a) rew o2) as [out o3] eqn:E3.
    destruct o3; [discriminate|]. inversion H; subst out.
    pose proof (ot_mul_lt (a_malgos a / unit) delta o1) as Hrew. rewrite E2 in Hrew. cbn in Hrew.
    destruct (ot_add_exact _ _ _ _ Hm Hrew E3) as (-> & -> & Hlt).
    pose proof (ot_sub_lt L (a_rbase a) false) as Hd. rewrite E1 in Hd. cbn in Hd.
    destruct (ot_mul_exact _ _ _ _ (div_lt_W _ unit Hm) Hd E2) as (-> & -> & _).
    destruct (ot_sub_exact _ _ _ _ HL Hr E1) as (_ & HLe & _).
    unfold units_of. replace (L - a_rbase a) with delta by lia.
    split; [reflexivity|]. split; [assumption|]. intros _. split; [lia|assumption].
Qed.

(* ---------- fields ---------- *)
Definition fld (X : N) (t : totals) : algocount :=
  if X =? stOnline then t_on t else if X =? stOffline then t_off t else t_np t.

Lemma status_field_fld st t c : status_field st t = Some c -> st <= 2 /\ c = fld st t.
Proof.
  unfold status_field, fld, stOnline, stOffline, stNotPart.
  destruct (N.eqb_spec st 1); [intros [= <-]; split; [lia|reflexivity]|].
  destruct (N.eqb_spec st 0); [intros [= <-]; split; [lia|reflexivity]|].
  destruct (N.eqb_spec st 2); [intros [= <-]; split; [lia|reflexivity]|]. discriminate.
Qed.

Lemma fld_set_field st t c X : st <= 2 -> X <= 2 ->
  fld X (set_field st t c) = if X =? st then c else fld X t.
Proof.
  intros Hs HX. unfold set_field, fld, stOnline, stOffline, stNotPart.
  destruct (N.eqb_spec st 1); destruct (N.eqb_spec st 0); destruct (N.eqb_spec X 1);
    destruct (N.eqb_spec X 0); destruct (N.eqb_spec X st); cbn; try reflexivity; try lia.
Qed.

Lemma level_set_field st t c : t_level (set_field st t c) = t_level t.
Proof. unfold set_field. destruct (st =? stOnline); [reflexivity|]. destruct (st =? stOffline); reflexivity. Qed.

Definition totals_lt (t : totals) : Prop :=
  forall X, X <= 2 -> c_money (fld X t) < W /\ c_units (fld X t) < W.

(* AddAccount / DelAccount are exact while the flag stays down *)
Lemma add_exact unit a t ot t' : totals_lt t -> t_level t < W ->
  a_malgos a < W -> a_rbase a < W ->
  add_account unit a t ot = Some (t', false) ->
  ot = false /\ t_level t' = t_level t /\ totals_lt t' /\ acct_good (t_level t) a /\ unit <> 0 /\
  forall X, X <= 2 ->
    c_money (fld X t') = c_money (fld X t) + cls_money unit (t_level t) X a /\
    c_units (fld X t') = c_units (fld X t) + cls_units unit X a.
Proof.
  intros Ht HL Hm Hr H. unfold add_account in H.
  destruct (status_field (a_st a) t) as [sum|] eqn:Es; [|discriminate].
  apply status_field_fld in Es as [Hst ->].
  destruct (with_updated_rewards unit a (t_level t)) as [algos|] eqn:Ew; [|discriminate].
  destruct (wur_exact _ _ _ _ Hm Hr HL Ew) as (-> & Hal & Hrb).
  destruct (ot_add (c_money (fld (a_st a) t)) (money_at unit (t_level t) a) ot) as [m o1] eqn:E1.
  unfold reward_units in H. destruct (N.eqb_spec unit 0) as [U|U]; [discriminate|].
  destruct (ot_add (c_units (fld (a_st a) t)) (a_malgos a / unit) o1) as [u o2] eqn:E2.
  inversion H; subst t' o2. clear H.
  destruct (Ht _ Hst) as [Hfm Hfu].
  destruct (ot_add_exact _ _ _ _ Hfu (div_lt_W _ unit Hm) E2) as (-> & -> & Hu).
  destruct (ot_add_exact _ _ _ _ Hfm Hal E1) as (-> & -> & Hmm).
  split; [reflexivity|]. split; [apply level_set_field|].
  split.
  { intros X HX. rewrite fld_set_field by assumption. destruct (X =? a_st a); cbn [c_money c_units]; auto. }
  split. { unfold acct_good. repeat split; try assumption. intros Hn. apply Hrb in Hn. tauto. }
  split; [exact U|].
  intros X HX. rewrite fld_set_field by assumption. unfold cls_money, cls_units, units_of.
  rewrite (N.eqb_sym (a_st a) X).
  destruct (N.eqb_spec X (a_st a)) as [->|]; cbn [c_money c_units]; split; lia.
Qed.

Lemma del_exact unit a t ot t' : totals_lt t -> t_level t < W ->
  a_malgos a < W -> a_rbase a < W ->
  del_account unit a t ot = Some (t', false) ->
  ot = false /\ t_level t' = t_level t /\ totals_lt t' /\
  forall X, X <= 2 ->
    c_money (fld X t) = c_money (fld X t') + cls_money unit (t_level t) X a /\
    c_units (fld X t) = c_units (fld X t') + cls_units unit X a.
Proof.
  intros Ht HL Hm Hr H. unfold del_account in H.
  destruct (status_field (a_st a) t) as [sum|] eqn:Es; [|discriminate].
  apply status_field_fld in Es as [Hst ->].
  destruct (with_updated_rewards unit a (t_level t)) as [algos|] eqn:Ew; [|discriminate].
  destruct (wur_exact _ _ _ _ Hm Hr HL Ew) as (-> & Hal & Hrb).
  destruct (ot_sub (c_money (fld (a_st a) t)) (money_at unit (t_level t) a) ot) as [m o1] eqn:E1.
  unfold reward_units in H. destruct (N.eqb_spec unit 0) as [U|U]; [discriminate|].
  destruct (ot_sub (c_units (fld (a_st a) t)) (a_malgos a / unit) o1) as [u o2] eqn:E2.
  inversion H; subst t' o2. clear H.
  destruct (Ht _ Hst) as [Hfm Hfu].
  destruct (ot_sub_exact _ _ _ _ Hfu (div_lt_W _ unit Hm) E2) as (-> & Eu & Hu).
  destruct (ot_sub_exact _ _ _ _ Hfm Hal E1) as (-> & Em & Hmm).
  split; [reflexivity|]. split; [apply level_set_field|].
  split.
  { intros X HX. rewrite fld_set_field by assumption. destruct (X =? a_st a); cbn [c_money c_units]; auto. }
  intros X HX. rewrite fld_set_field by assumption. unfold cls_money, cls_units, units_of.
  rewrite (N.eqb_sym (a_st a) X).
  destruct (N.eqb_spec X (a_st a)) as [->|]; cbn [c_money c_units]; split; lia.
Qed.

(* ---------- sums over worlds ---------- *)
Definition S (g : acct -> N) (w : world) : N := sum_by (fun e => g (snd e)) w.

Lemma S_cons g k a w : S g ((k, a) :: w) = g a + S g w.
Proof. reflexivity. Qed.
Lemma S_nil g : S g [] = 0.
Proof. reflexivity. Qed.

Lemma S_wset g k a w : g acct0 = 0 -> S g (wset k a w) + g (wget k w) = S g w + g a.
Proof.
  intros H0. induction w as [|[k' a'] w IH]; cbn [wset wget].
  - unfold S. cbn. rewrite H0. lia.
  - destruct (N.eqb_spec k' k).
    + unfold S, sum_by. cbn. lia.
    + unfold S, sum_by in *. cbn [fold_right snd] in *. lia.
Qed.

Lemma wget_wset_other k k' a w : k <> k' -> wget k (wset k' a w) = wget k w.
Proof.
  intros Hn. induction w as [|[k2 a2] w IH]; cbn [wset wget].
  - destruct (N.eqb_spec k' k); [congruence|reflexivity].
  - destruct (N.eqb_spec k2 k').
    + subst. cbn [wget]. destruct (N.eqb_spec k' k); [congruence|]. destruct (N.eqb_spec k' k); [congruence|reflexivity].
    + cbn [wget]. destruct (N.eqb_spec k2 k); [reflexivity|exact IH].
Qed.

Lemma wget_wset_same k a w : wget k (wset k a w) = a.
Proof.
  induction w as [|[k2 a2] w IH]; cbn [wset wget].
  - rewrite N.eqb_refl. reflexivity.
  - destruct (N.eqb_spec k2 k).
    + cbn [wget]. rewrite N.eqb_refl. reflexivity.
    + cbn [wget]. destruct (N.eqb_spec k2 k); [contradiction|exact IH].
Qed.

Lemma in_wset k a w e : In e (wset k a w) -> e = (k, a) \/ In e w.
Proof.
  induction w as [|[k2 a2] w IH]; cbn [wset].
  - intros [<-|[]]. left; reflexivity.
  - destruct (N.eqb_spec k2 k).
    + intros [<-|H]; [left; reflexivity|right; right; exact H].
    + intros [<-|H]; [right; left; reflexivity|]. destruct (IH H); [left; assumption|right; right; assumption].
Qed.

Lemma wget_in_or_zero k w : wget k w = acct0 \/ In (k, wget k w) w.
Proof.
  induction w as [|[k2 a2] w IH]; cbn [wget]; [left; reflexivity|].
  destruct (N.eqb_spec k2 k); [subst; right; left; reflexivity|].
  destruct IH; [left; assumption|right; right; assumption].
Qed.

Definition world_good (L : N) (w : world) : Prop := forall k a, In (k, a) w -> acct_good L a.

Lemma acct0_good L : acct_good L acct0.
Proof. unfold acct_good, acct0; cbn. repeat split; try reflexivity; try lia. Qed.

Lemma wget_good L k w : world_good L w -> acct_good L (wget k w).
Proof.
  intros H. destruct (wget_in_or_zero k w) as [->|Hin]; [apply acct0_good|]. exact (H _ _ Hin).
Qed.

Lemma world_good_wset L k a w : world_good L w -> acct_good L a -> world_good L (wset k a w).
Proof.
  intros Hw Ha k' a' Hin. apply in_wset in Hin as [[= -> ->]|Hin]; [exact Ha|exact (Hw _ _ Hin)].
Qed.

Lemma acct_good_mono L L' a : L <= L' -> acct_good L a -> acct_good L' a.
Proof. unfold acct_good. intros HL (H1 & H2 & H3 & H4). repeat split; try assumption. intros Hn. specialize (H4 Hn). lia. Qed.

Lemma cls_money_zero unit L X : cls_money unit L X acct0 = 0.
Proof.
  unfold cls_money, money_at, units_of, acct0; cbn [a_st a_malgos a_rbase].
  destruct (0 =? X); [|reflexivity]. cbn. destruct unit; reflexivity.
Qed.
Lemma cls_units_zero unit X : cls_units unit X acct0 = 0.
Proof.
  unfold cls_units, units_of, acct0; cbn [a_st a_malgos a_rbase].
  destruct (0 =? X); [|reflexivity]. destruct unit; reflexivity.
Qed.

(* the invariant: the totals are the class sums of the world at the totals' own level *)
Definition TInv (unit : N) (w : world) (t : totals) : Prop :=
  t_level t < W /\ totals_lt t /\ world_good (t_level t) w /\
  forall X, X <= 2 ->
    c_money (fld X t) = S (cls_money unit (t_level t) X) w /\
    c_units (fld X t) = S (cls_units unit X) w.

Lemma TInv_class_sums unit w t : TInv unit w t -> t = class_sums unit (t_level t) w.
Proof.
  intros (_ & _ & _ & H). unfold class_sums, class_count.
  pose proof (H 1 ltac:(lia)) as [H1m H1u]. pose proof (H 0 ltac:(lia)) as [H0m H0u].
  pose proof (H 2 ltac:(lia)) as [H2m H2u]. unfold fld, stOnline, stOffline, stNotPart in *. cbn in *.
  unfold S in *. destruct t as [[a b] [c d] [e f] g]. cbn in *. subst. reflexivity.
Qed.

(* ---------- ApplyRewards ---------- *)
Lemma money_shift unit L L' X w : X <> 2 -> L <= L' -> world_good L w ->
  S (cls_money unit L' X) w = S (cls_money unit L X) w + S (cls_units unit X) w * (L' - L).
Proof.
  intros HX HL Hw. induction w as [|[k a] w IH]; [reflexivity|].
  assert (Hw' : world_good L w) by (intros k' a' Hin; apply (Hw k' a'); right; exact Hin).
  specialize (IH Hw'). rewrite !S_cons, IH.
  destruct (Hw k a (or_introl eq_refl)) as (_ & _ & _ & Hrb).
  unfold cls_money, cls_units, money_at, stNotPart.
  destruct (N.eqb_spec (a_st a) X) as [E|E]; [|lia].
  destruct (N.eqb_spec (a_st a) 2) as [E2|E2]; [congruence|].
  specialize (Hrb E2).
  replace (L' - a_rbase a) with ((L - a_rbase a) + (L' - L)) by lia.
  rewrite N.mul_add_distr_l. lia.
Qed.

Lemma money_np unit L L' w : S (cls_money unit L' 2) w = S (cls_money unit L 2) w.
Proof.
  induction w as [|[k a] w IH]; [reflexivity|]. rewrite !S_cons, IH.
  unfold cls_money, money_at, stNotPart. destruct (a_st a =? 2); reflexivity.
Qed.

Lemma ac_apply_exact c rpu ot c' : c_money c < W -> c_units c < W -> rpu < W ->
  ac_apply_rewards c rpu ot = (c', false) ->
  ot = false /\ c_units c' = c_units c /\ c_money c' = c_money c + c_units c * rpu /\ c_money c' < W.
Proof.
  intros Hm Hu Hr H. unfold ac_apply_rewards in H.
  destruct (ot_mul (c_units c) rpu ot) as [got o1] eqn:E1.
  destruct (ot_add (c_money c) got o1) as [m o2] eqn:E2. inversion H; subst c' o2. clear H.
  pose proof (ot_mul_lt (c_units c) rpu ot) as Hg. rewrite E1 in Hg. cbn in Hg.
  destruct (ot_add_exact _ _ _ _ Hm Hg E2) as (-> & -> & Hlt).
  destruct (ot_mul_exact _ _ _ _ Hu Hr E1) as (-> & -> & _).
  cbn. repeat split; try assumption; reflexivity.
Qed.

Lemma apply_rewards_inv unit w t L t' : TInv unit w t -> L < W ->
  apply_rewards L t false = (t', false) -> TInv unit w t' /\ t_level t' = L /\ t_level t <= L.
Proof.
  intros (Hlv & Hlt & Hg & Hs) HL H. unfold apply_rewards in H.
  destruct (ot_sub L (t_level t) false) as [rpu o0] eqn:E0.
  destruct (ac_apply_rewards (t_on t) rpu o0) as [on' o1] eqn:E1.
  destruct (ac_apply_rewards (t_off t) rpu o1) as [off' o2] eqn:E2.
  inversion H; subst t' o2. clear H.
  pose proof (ot_sub_lt L (t_level t) false) as Hr. rewrite E0 in Hr. cbn in Hr.
  pose proof (Hlt 1 ltac:(lia)) as [Hom Hou]. pose proof (Hlt 0 ltac:(lia)) as [Hfm Hfu].
  pose proof (Hlt 2 ltac:(lia)) as [Hnm Hnu].
  unfold fld, stOnline, stOffline in Hom, Hou, Hfm, Hfu, Hnm, Hnu. cbn in Hom, Hou, Hfm, Hfu, Hnm, Hnu.
  destruct (ac_apply_exact _ _ _ _ Hfm Hfu Hr E2) as (-> & Hfu' & Hfm' & Hfl).
  destruct (ac_apply_exact _ _ _ _ Hom Hou Hr E1) as (-> & Hou' & Hom' & Hol).
  destruct (ot_sub_exact _ _ _ _ HL Hlv E0) as (_ & HLe & _).
  assert (Hrpu : rpu = L - t_level t) by lia. assert (Hle : t_level t <= L) by lia.
  split; [|split; [reflexivity|exact Hle]].
  unfold TInv. cbn [t_level]. split; [exact HL|]. split.
  { intros X HX. unfold fld, stOnline, stOffline. cbn [t_on t_off t_np].
    destruct (X =? 1); [rewrite Hou'; auto|]. destruct (X =? 0); [rewrite Hfu'; auto|]. auto. }
  split. { intros k a Hin. apply (acct_good_mono (t_level t)); [exact Hle|exact (Hg _ _ Hin)]. }
  intros X HX. pose proof (Hs X HX) as [Hm Hu].
  unfold fld, stOnline, stOffline in *. cbn [t_on t_off t_np].
  destruct (N.eqb_spec X 1) as [->|N1].
  - rewrite (money_shift unit (t_level t) L 1 w) by (try lia; assumption).
    cbn in Hm, Hu. rewrite Hou', Hom', Hm, Hu, Hrpu. split; reflexivity.
  - destruct (N.eqb_spec X 0) as [->|N0].
    + rewrite (money_shift unit (t_level t) L 0 w) by (try lia; assumption).
      cbn in Hm, Hu. rewrite Hfu', Hfm', Hm, Hu, Hrpu. split; reflexivity.
    + assert (X = 2) as -> by lia. cbn in Hm, Hu. rewrite (money_np unit (t_level t) L). split; assumption.
Qed.

(* ---------- the cow loop: DelAccount old; AddAccount new ---------- *)
Definition keys (l : list (N * acct)) : list N := map fst l.

Lemma nodup_keys_NoDup l : nodup_keys l = true -> NoDup (keys l).
Proof.
  induction l as [|[k a] l IH]; cbn [nodup_keys keys map fst]; [constructor|].
  intros H. apply andb_true_iff in H as [H1 H2]. constructor; [|exact (IH H2)].
  intros Hin. apply negb_true_iff in H1. apply in_map_iff in Hin as [[k' a'] [E Hin]]. cbn in E. subst k'.
  assert (existsb (fun e : N * acct => fst e =? k) l = true); [|congruence].
  apply existsb_exists. exists (k, a'). split; [exact Hin|apply N.eqb_refl].
Qed.

Lemma accts_ok_in l k a : accts_ok l = true -> In (k, a) l -> a_malgos a < W /\ a_rbase a < W.
Proof.
  unfold accts_ok. rewrite forallb_forall. intros H Hin. specialize (H _ Hin). cbn in H.
  unfold acct_ok in H. apply andb_true_iff in H as [H1 H2]. split; apply u64_lt; assumption.
Qed.

Lemma wapply_cons m ms w : wapply (m :: ms) w = wapply ms (wset (fst m) (snd m) w).
Proof. reflexivity. Qed.

Lemma step_sums (tm tm1 tm2 sw sw' gold gnew : N) :
  tm = sw -> tm = tm1 + gold -> tm2 = tm1 + gnew -> sw' + gold = sw + gnew -> tm2 = sw'.
Proof. lia. Qed.

(* the OverflowTracker flag never goes down *)
Lemma ot_add_sticky a b r o : ot_add a b true = (r, o) -> o = true.
Proof. unfold ot_add. destruct (oadd 64 a b). intros [= _ <-]. reflexivity. Qed.
Lemma ot_sub_sticky a b r o : ot_sub a b true = (r, o) -> o = true.
Proof. unfold ot_sub. destruct (osub 64 a b). intros [= _ <-]. reflexivity. Qed.

Lemma add_sticky unit a t t' o : add_account unit a t true = Some (t', o) -> o = true.
Proof.
  unfold add_account. destruct (status_field _ _); [|discriminate].
  destruct (with_updated_rewards _ _ _); [|discriminate].
  destruct (ot_add (c_money a0) n true) as [m o1] eqn:E1. apply ot_add_sticky in E1. subst o1.
  destruct (reward_units _ _); [|discriminate].
  destruct (ot_add (c_units a0) n0 true) as [u o2] eqn:E2. apply ot_add_sticky in E2. subst o2.
  intros [= _ <-]. reflexivity.
Qed.
Lemma del_sticky unit a t t' o : del_account unit a t true = Some (t', o) -> o = true.
Proof.
  unfold del_account. destruct (status_field _ _); [|discriminate].
  destruct (with_updated_rewards _ _ _); [|discriminate].
  destruct (ot_sub (c_money a0) n true) as [m o1] eqn:E1. apply ot_sub_sticky in E1. subst o1.
  destruct (reward_units _ _); [|discriminate].
  destruct (ot_sub (c_units a0) n0 true) as [u o2] eqn:E2. apply ot_sub_sticky in E2. subst o2.
  intros [= _ <-]. reflexivity.
Qed.
Lemma calc_loop_sticky unit prev : forall ms t t' o,
  calc_loop unit prev ms t true = Some (t', o) -> o = true.
Proof.
  induction ms as [|[k a] ms IH]; intros t t' o H; cbn [calc_loop] in H.
  - inversion H; reflexivity.
  - destruct (del_account unit (wget k prev) t true) as [[t1 o1]|] eqn:Ed; [|discriminate].
    apply del_sticky in Ed. subst o1.
    destruct (add_account unit a t1 true) as [[t2 o2]|] eqn:Ea; [|discriminate].
    apply add_sticky in Ea. subst o2. exact (IH _ _ _ H).
Qed.

Lemma calc_loop_sound unit prev : forall mods w t ot t',
  TInv unit w t -> NoDup (keys mods) ->
  (forall k a, In (k, a) mods -> a_malgos a < W /\ a_rbase a < W) ->
  (forall k, In k (keys mods) -> wget k prev = wget k w) ->
  calc_loop unit prev mods t ot = Some (t', false) ->
  ot = false /\ TInv unit (wapply mods w) t' /\ t_level t' = t_level t /\ (mods <> [] -> unit <> 0).
Proof.
  induction mods as [|[k a] ms IH]; intros w t ot t' Hinv Hnd Hok Hprev H; cbn [calc_loop] in H.
  - inversion H; subst. split; [reflexivity|]. split; [exact Hinv|]. split; [reflexivity|].
    intros Hc; contradiction.
  - destruct (del_account unit (wget k prev) t ot) as [[t1 ot1]|] eqn:Ed; [|discriminate].
    destruct (add_account unit a t1 ot1) as [[t2 ot2]|] eqn:Ea; [|discriminate].
    assert (Hk : wget k prev = wget k w) by (apply Hprev; left; reflexivity).
    inversion Hnd as [|? ? Hnotin Hnd']; subst.
    destruct (Hok k a (or_introl eq_refl)) as [Hm Hr].
    assert (ot2 = false) as ->.
    { destruct ot2; [|reflexivity]. apply calc_loop_sticky in H. discriminate. }
    assert (ot1 = false) as ->.
    { destruct ot1; [|reflexivity]. apply add_sticky in Ea. discriminate. }
    destruct Hinv as (Hlv & Hlt & Hg & Hs).
    pose proof (wget_good _ k _ Hg) as Hold. rewrite <- Hk in Hold.
    destruct Hold as (Hom & Hor & _ & _).
    destruct (del_exact _ _ _ _ _ Hlt Hlv Hom Hor Ed) as (-> & El1 & Hlt1 & Hdel).
    assert (Hlv1 : t_level t1 < W) by (rewrite El1; exact Hlv).
    destruct (add_exact _ _ _ _ _ Hlt1 Hlv1 Hm Hr Ea) as (_ & El2 & Hlt2 & Hgood & Hunit & Hadd).
    assert (Hinv2 : TInv unit (wset k a w) t2).
    { unfold TInv. rewrite El2, El1. split; [exact Hlv|]. split; [exact Hlt2|].
      split. { apply world_good_wset; [exact Hg|]. rewrite <- El1. exact Hgood. }
      intros X HX. destruct (Hs X HX) as [Hsm Hsu]. destruct (Hdel X HX) as [Hdm Hdu].
      destruct (Hadd X HX) as [Ham Hau]. rewrite El1 in Ham.
      pose proof (S_wset (cls_money unit (t_level t) X) k a w (cls_money_zero _ _ _)) as Swm.
      pose proof (S_wset (cls_units unit X) k a w (cls_units_zero _ _)) as Swu.
      rewrite <- Hk in Swm, Swu.
      split; [exact (step_sums _ _ _ _ _ _ _ Hsm Hdm Ham Swm)|exact (step_sums _ _ _ _ _ _ _ Hsu Hdu Hau Swu)]. }
    rewrite wapply_cons. cbn [fst snd].
    destruct (IH (wset k a w) t2 false t' Hinv2 Hnd') as (_ & Hfin & Hl & _).
    + intros k' a' Hin. apply (Hok k' a'). right; exact Hin.
    + intros k' Hin. rewrite wget_wset_other; [apply Hprev; right; exact Hin|].
      intros ->. exact (Hnotin Hin).
    + exact H.
    + split; [reflexivity|]. split; [exact Hfin|]. split; [rewrite Hl, El2, El1; reflexivity|]. intros _. exact Hunit.
Qed.

Lemma calculate_totals_ok unit t w L mods t' :
  calculate_totals unit t w L mods = COk t' ->
  exists t0, apply_rewards L t false = (t0, false) /\ calc_loop unit w mods t0 false = Some (t', false).
Proof.
  unfold calculate_totals. destruct (apply_rewards L t false) as [t0 ot0] eqn:Ea.
  destruct (calc_loop unit w mods t0 ot0) as [[t1 ot1]|] eqn:Ec; [|discriminate].
  destruct ot1; [discriminate|]. intros H.
  assert (t1 = t') as ->.
  { destruct (all_money t1); [|discriminate]. destruct (all_money t); [|discriminate].
    destruct (n =? n0); [inversion H; reflexivity|discriminate]. }
  assert (ot0 = false) as ->.
  { destruct ot0; [|reflexivity]. apply calc_loop_sticky in Ec. discriminate. }
  exists t0. split; [reflexivity|exact Ec].
Qed.

Lemma calculate_totals_sound unit w t b t' :
  TInv unit w t -> block_ok b = true ->
  calculate_totals unit t w (b_level b) (b_mods b) = COk t' ->
  TInv unit (wapply (b_mods b) w) t' /\ t_level t' = b_level b /\ t_level t <= b_level b.
Proof.
  intros Hinv Hb H. unfold block_ok, mods_ok in Hb.
  apply andb_true_iff in Hb as [HL Hb]. apply andb_true_iff in Hb as [Hok Hnd].
  apply u64_lt in HL. apply nodup_keys_NoDup in Hnd.
  apply calculate_totals_ok in H as (t0 & Ea & Ec).
  destruct (apply_rewards_inv _ _ _ _ _ Hinv HL Ea) as (Hinv0 & El0 & Hle).
  destruct (calc_loop_sound unit w (b_mods b) w t0 false t' Hinv0 Hnd) as (_ & Hfin & Hl & _).
  - intros k a Hin. exact (accts_ok_in _ _ _ Hok Hin).
  - reflexivity.
  - exact Ec.
  - split; [exact Hfin|]. split; [rewrite Hl; exact El0|exact Hle].
Qed.

(* ---------- genesis ---------- *)
Lemma TInv_empty unit : TInv unit [] totals0.
Proof.
  unfold TInv, totals0. cbn [t_level]. split; [apply W_pos|]. split.
  { intros X _. unfold fld. cbn. destruct (X =? stOnline); [|destruct (X =? stOffline)]; cbn; split; apply W_pos. }
  split; [intros k a []|].
  intros X _. unfold fld. cbn. destruct (X =? stOnline); [|destruct (X =? stOffline)]; cbn; split; reflexivity.
Qed.

Lemma genesis_loop_sticky unit : forall accts t t' o,
  genesis_loop unit accts t true = Some (t', o) -> o = true.
Proof.
  induction accts as [|[k a] l IH]; intros t t' o H; cbn [genesis_loop] in H.
  - inversion H; reflexivity.
  - destruct (add_account unit a t true) as [[t1 o1]|] eqn:Ea; [|discriminate].
    apply add_sticky in Ea. subst o1. exact (IH _ _ _ H).
Qed.

Lemma genesis_loop_sound unit : forall accts w t ot t',
  TInv unit w t -> NoDup (keys accts) ->
  (forall k a, In (k, a) accts -> a_malgos a < W /\ a_rbase a < W) ->
  (forall k, In k (keys accts) -> wget k w = acct0) ->
  genesis_loop unit accts t ot = Some (t', false) ->
  TInv unit (wapply accts w) t' /\ t_level t' = t_level t.
Proof.
  induction accts as [|[k a] l IH]; intros w t ot t' Hinv Hnd Hok Hfresh H; cbn [genesis_loop] in H.
  - inversion H; subst. split; [exact Hinv|reflexivity].
  - destruct (add_account unit a t ot) as [[t1 o1]|] eqn:Ea; [|discriminate].
    assert (o1 = false) as ->.
    { destruct o1; [|reflexivity]. apply genesis_loop_sticky in H. discriminate. }
    inversion Hnd as [|? ? Hnotin Hnd']; subst.
    destruct (Hok k a (or_introl eq_refl)) as [Hm Hr].
    destruct Hinv as (Hlv & Hlt & Hg & Hs).
    destruct (add_exact _ _ _ _ _ Hlt Hlv Hm Hr Ea) as (_ & El & Hlt1 & Hgood & _ & Hadd).
    assert (Hinv1 : TInv unit (wset k a w) t1).
    { unfold TInv. rewrite El. split; [exact Hlv|]. split; [exact Hlt1|].
      split; [apply world_good_wset; assumption|].
      intros X HX. destruct (Hs X HX) as [Hsm Hsu]. destruct (Hadd X HX) as [Ham Hau].
      pose proof (S_wset (cls_money unit (t_level t) X) k a w (cls_money_zero _ _ _)) as Swm.
      pose proof (S_wset (cls_units unit X) k a w (cls_units_zero _ _)) as Swu.
      rewrite (Hfresh k (or_introl eq_refl)) in Swm, Swu.
      rewrite cls_money_zero in Swm. rewrite cls_units_zero in Swu. split; lia. }
    rewrite wapply_cons. cbn [fst snd].
    destruct (IH (wset k a w) t1 false t' Hinv1 Hnd') as (Hfin & Hl).
    + intros k' a' Hin. apply (Hok k' a'). right; exact Hin.
    + intros k' Hin. rewrite wget_wset_other; [apply Hfresh; right; exact Hin|].
      intros ->. exact (Hnotin Hin).
    + exact H.
    + split; [exact Hfin|]. rewrite Hl. exact El.
Qed.

Lemma genesis_totals_sound unit genesis t0 :
  mods_ok genesis = true -> genesis_totals unit genesis = GOk t0 ->
  TInv unit (wapply genesis []) t0 /\ t_level t0 = 0.
Proof.
  intros Hok H. unfold mods_ok in Hok. apply andb_true_iff in Hok as [Hok Hnd].
  apply nodup_keys_NoDup in Hnd. unfold genesis_totals in H.
  destruct (genesis_loop unit genesis totals0 false) as [[t o]|] eqn:E; [|discriminate].
  destruct o; [discriminate|]. inversion H; subst t.
  apply (genesis_loop_sound unit genesis [] totals0 false t0 (TInv_empty unit) Hnd).
  - intros k a Hin. exact (accts_ok_in _ _ _ Hok Hin).
  - reflexivity.
  - exact E.
Qed.

(* ---------- chains of blocks ---------- *)
Definition wfold (bs : list block) (w : world) : world :=
  fold_left (fun w b => wapply (b_mods b) w) bs w.

Lemma wfold_app a b w : wfold (a ++ b) w = wfold b (wfold a w).
Proof. unfold wfold. apply fold_left_app. Qed.

(* last element of the trace, or the start *)
Definition tlast (tr : list (world * totals)) (w : world) (t : totals) : world * totals :=
  last tr (w, t).

Lemma tlast_cons x tr w t : tlast (x :: tr) w t = tlast tr (fst x) (snd x).
Proof.
  unfold tlast. destruct x as [w1 t1]. cbn [fst snd]. revert w1 t1.
  induction tr as [|y tr IH]; intros w1 t1; [reflexivity|].
  change (last ((w1, t1) :: y :: tr) (w, t)) with (last (y :: tr) (w, t)).
  change (last (y :: tr) (w1, t1)) with (match tr with [] => y | _ => last tr (w1, t1) end).
  destruct y as [w2 t2]. rewrite (IH w2 t2). destruct tr as [|z tr]; [reflexivity|].
  clear IH. revert z. induction tr as [|z' tr IH2]; intros z; [reflexivity|].
  change (last (z :: z' :: tr) (w2, t2)) with (last (z' :: tr) (w2, t2)).
  change (last (z :: z' :: tr) (w1, t1)) with (last (z' :: tr) (w1, t1)). apply IH2.
Qed.

Lemma chain_length unit : forall bs w t tr, chain unit w t bs = Some tr -> length tr = length bs.
Proof.
  induction bs as [|b bs IH]; intros w t tr H; cbn [chain] in H.
  - inversion H; reflexivity.
  - destruct (calculate_totals unit t w (b_level b) (b_mods b)); try discriminate.
    destruct (chain unit (wapply (b_mods b) w) t0 bs) eqn:E; [|discriminate].
    inversion H; subst. cbn. f_equal. exact (IH _ _ _ E).
Qed.

(* everything a successful chain gives, position by position *)
Lemma chain_spec unit : forall bs w t tr,
  TInv unit w t -> forallb block_ok bs = true -> chain unit w t bs = Some tr ->
  forall j b, nth_error bs j = Some b ->
    exists t', nth_error tr j = Some (wfold (firstn (Datatypes.S j) bs) w, t') /\
               TInv unit (wfold (firstn (Datatypes.S j) bs) w) t' /\ t_level t' = b_level b.
Proof.
  induction bs as [|b0 bs IH]; intros w t tr Hinv Hok H j b Hj.
  - destruct j; discriminate.
  - cbn [forallb] in Hok. apply andb_true_iff in Hok as [Hb0 Hok].
    cbn [chain] in H.
    destruct (calculate_totals unit t w (b_level b0) (b_mods b0)) as [t1| | |] eqn:Ec; try discriminate.
    destruct (chain unit (wapply (b_mods b0) w) t1 bs) as [tr1|] eqn:E; [|discriminate].
    inversion H; subst tr. clear H.
    destruct (calculate_totals_sound _ _ _ _ _ Hinv Hb0 Ec) as (Hinv1 & Hl1 & _).
    destruct j as [|j].
    + cbn in Hj. inversion Hj; subst b. exists t1. cbn [nth_error firstn]. unfold wfold. cbn [fold_left].
      split; [reflexivity|]. split; assumption.
    + cbn [nth_error] in Hj |- *. destruct (IH _ _ _ Hinv1 Hok E j b Hj) as (t' & Hn & Hi & Hl).
      exists t'. cbn [firstn]. unfold wfold in *. cbn [fold_left]. auto.
Qed.

Lemma chain_snoc unit : forall bs w t tr b t',
  chain unit w t bs = Some tr ->
  calculate_totals unit (snd (tlast tr w t)) (wfold bs w) (b_level b) (b_mods b) = COk t' ->
  fst (tlast tr w t) = wfold bs w ->
  chain unit w t (bs ++ [b]) = Some (tr ++ [(wapply (b_mods b) (wfold bs w), t')]).
Proof.
  induction bs as [|b0 bs IH]; intros w t tr b t' H Hc Hf; cbn [chain app] in *.
  - inversion H; subst tr. cbn in Hc. unfold wfold in *. cbn [fold_left] in *. rewrite Hc. reflexivity.
  - destruct (calculate_totals unit t w (b_level b0) (b_mods b0)) as [t1| | |] eqn:Ec; try discriminate.
    destruct (chain unit (wapply (b_mods b0) w) t1 bs) as [tr1|] eqn:E; [|discriminate].
    inversion H; subst tr. clear H.
    assert (Hl : tlast ((wapply (b_mods b0) w, t1) :: tr1) w t = tlast tr1 (wapply (b_mods b0) w) t1)
      by apply tlast_cons.
    rewrite Hl in Hc, Hf. unfold wfold in Hc, Hf |- *. cbn [fold_left] in Hc, Hf |- *.
    rewrite (IH _ _ _ _ _ E Hc Hf). reflexivity.
Qed.

Lemma chain_last_world unit : forall bs w t tr, chain unit w t bs = Some tr ->
  fst (tlast tr w t) = wfold bs w.
Proof.
  induction bs as [|b0 bs IH]; intros w t tr H; cbn [chain] in H.
  - inversion H; reflexivity.
  - destruct (calculate_totals unit t w (b_level b0) (b_mods b0)) as [t1| | |] eqn:Ec; try discriminate.
    destruct (chain unit (wapply (b_mods b0) w) t1 bs) as [tr1|] eqn:E; [|discriminate].
    inversion H; subst tr. clear H.
    assert (Hl : tlast ((wapply (b_mods b0) w, t1) :: tr1) w t = tlast tr1 (wapply (b_mods b0) w) t1)
      by apply tlast_cons.
    rewrite Hl. unfold wfold. cbn [fold_left]. exact (IH _ _ _ E).
Qed.

Lemma nth_last_totals : forall (tr : list (world * totals)) w t,
  nth_error (t :: map snd tr) (length tr) = Some (snd (tlast tr w t)).
Proof.
  induction tr as [|[w1 t1] tr IH]; intros w t; [reflexivity|].
  cbn [length map snd]. change (nth_error (t :: t1 :: map snd tr) (Datatypes.S (length tr)))
    with (nth_error (t1 :: map snd tr) (length tr)).
  rewrite (IH w1 t1). rewrite (tlast_cons (w1, t1) tr w t). reflexivity.
Qed.

(* committing a prefix: the rest of the chain restarts from the state reached *)
Lemma chain_skip unit : forall off bs w t tr,
  TInv unit w t -> forallb block_ok bs = true -> chain unit w t bs = Some tr ->
  (off <= length bs)%nat ->
  exists t', nth_error (t :: map snd tr) off = Some t' /\
    TInv unit (wfold (firstn off bs) w) t' /\
    chain unit (wfold (firstn off bs) w) t' (skipn off bs) = Some (skipn off tr) /\
    skipn off (t :: map snd tr) = t' :: map snd (skipn off tr).
Proof.
  induction off as [|off IH]; intros bs w t tr Hinv Hok H Hle.
  - exists t. cbn. auto.
  - destruct bs as [|b0 bs]; [cbn in Hle; lia|].
    cbn [forallb] in Hok. apply andb_true_iff in Hok as [Hb0 Hok]. cbn [chain] in H.
    destruct (calculate_totals unit t w (b_level b0) (b_mods b0)) as [t1| | |] eqn:Ec; try discriminate.
    destruct (chain unit (wapply (b_mods b0) w) t1 bs) as [tr1|] eqn:E; [|discriminate].
    inversion H; subst tr. clear H.
    destruct (calculate_totals_sound _ _ _ _ _ Hinv Hb0 Ec) as (Hinv1 & _ & _).
    cbn [length] in Hle. assert (Hle' : (off <= length bs)%nat) by lia.
    destruct (IH bs _ _ _ Hinv1 Hok E Hle') as (t' & Hn & Hi & Hc & Hs).
    exists t'. cbn [map snd nth_error skipn firstn]. unfold wfold in *. cbn [fold_left]. auto.
Qed.

Lemma replay_chain unit : forall bs w t,
  replay unit w t bs = match chain unit w t bs with Some tr => Some (map snd tr) | None => None end.
Proof.
  induction bs as [|b bs IH]; intros w t; cbn [replay chain]; [reflexivity|].
  destruct (calculate_totals unit t w (b_level b) (b_mods b)); try reflexivity.
  rewrite IH. destruct (chain unit (wapply (b_mods b) w) t0 bs); reflexivity.
Qed.

(* ---------- the main theorem: totals of every round = class sums over that round's accounts ---------- *)
Lemma state_at_wfold genesis bs r : state_at genesis bs r = wfold (firstn r bs) (wapply genesis []).
Proof. reflexivity. Qed.

Theorem ledger_run_sums unit genesis bs tr :
  mods_ok genesis = true -> forallb block_ok bs = true ->
  ledger_run unit genesis bs = Some tr ->
  length tr = Datatypes.S (length bs) /\
  forall r, (r <= length bs)%nat ->
    nth_error tr r = Some (state_at genesis bs r, spec_totals unit genesis bs r).
Proof.
  intros Hg Hok H. unfold ledger_run in H.
  destruct (genesis_totals unit genesis) as [t0| |] eqn:Eg; try discriminate.
  destruct (chain unit (wapply genesis []) t0 bs) as [tr1|] eqn:Ec; [|discriminate].
  inversion H; subst tr. clear H.
  destruct (genesis_totals_sound _ _ _ Hg Eg) as (Hinv0 & Hl0).
  split; [cbn; f_equal; exact (chain_length _ _ _ _ _ Ec)|].
  intros r Hr. destruct r as [|j].
  - cbn [nth_error]. unfold spec_totals, level_at. rewrite state_at_wfold. cbn [firstn]. unfold wfold. cbn [fold_left].
    rewrite <- Hl0. rewrite <- (TInv_class_sums _ _ _ Hinv0). reflexivity.
  - cbn [nth_error]. destruct (nth_error bs j) as [b|] eqn:Ej.
    2:{ apply nth_error_None in Ej. lia. }
    destruct (chain_spec _ _ _ _ _ Hinv0 Hok Ec j b Ej) as (t' & Hn & Hi & Hl).
    rewrite Hn. unfold spec_totals, level_at. rewrite Ej, state_at_wfold, <- Hl.
    rewrite <- (TInv_class_sums _ _ _ Hi). reflexivity.
Qed.

(* ---------- the tracker: what is served under any flush / reload schedule ---------- *)
Inductive TrInv (unit : N) (w0 : world) (t0 : totals) (bs : list block) (s : tracker) : Prop :=
| mkTrInv (bs1 : list block) (tr2 : list (world * totals))
    (ti_split : bs = bs1 ++ tr_deltas s)
    (ti_round : tr_dbround s = N.of_nat (length bs1))
    (ti_world : tr_dbworld s = wfold bs1 w0)
    (ti_inv : TInv unit (tr_dbworld s) (tr_dbtotals s))
    (ti_level : t_level (tr_dbtotals s) =
                match bs1 with [] => t_level t0 | _ => b_level (last bs1 (mkB 0 [])) end)
    (ti_chain : chain unit (tr_dbworld s) (tr_dbtotals s) (tr_deltas s) = Some tr2)
    (ti_totals : tr_round_totals s = tr_dbtotals s :: map snd tr2).

Lemma skipn_map {A B} (f : A -> B) n (l : list A) : skipn n (map f l) = map f (skipn n l).
Proof. revert l. induction n; intros [|x l]; cbn; auto. Qed.

Lemma last_app_ne {A} (l1 l2 : list A) d : l2 <> [] -> last (l1 ++ l2) d = last l2 d.
Proof.
  intros H. induction l1 as [|x l1 IH]; [reflexivity|].
  cbn [app]. destruct (l1 ++ l2) eqn:E; [destruct l1; cbn in E; [contradiction|discriminate]|].
  cbn [last]. exact IH.
Qed.

Lemma tstep_inv unit w0 t0 bs s o s' :
  TrInv unit w0 t0 bs s ->
  forallb block_ok (bs ++ blocks_of [o]) = true ->
  tstep unit s o = Some s' ->
  TrInv unit w0 t0 (bs ++ blocks_of [o]) s'.
Proof.
  intros [bs1 tr2 Hsp Hrd Hw Hinv Hlv Hch Htot] Hok H. destruct o as [b|off|]; cbn [tstep blocks_of] in *.
  - (* NewBlock *)
    pose proof (chain_length _ _ _ _ _ Hch) as Hlen.
    rewrite Htot, <- Hlen, (nth_last_totals tr2 (tr_dbworld s) (tr_dbtotals s)) in H.
    unfold tr_world in H. fold (wfold (tr_deltas s) (tr_dbworld s)) in H.
    destruct (calculate_totals unit _ _ (b_level b) (b_mods b)) as [t'| | |] eqn:Ec; try discriminate.
    inversion H; subst s'. clear H.
    pose proof (chain_snoc _ _ _ _ _ b t' Hch Ec (chain_last_world _ _ _ _ _ Hch)) as Hch'.
    refine (mkTrInv _ _ _ _ _ (bs1) (tr2 ++ [(wapply (b_mods b) (wfold (tr_deltas s) (tr_dbworld s)), t')]) _ _ _ _ _ _ _);
      cbn [tr_deltas tr_dbround tr_dbworld tr_dbtotals tr_round_totals]; try assumption.
    + rewrite Hsp, app_assoc. reflexivity.
    + rewrite map_app. reflexivity.
  - (* Commit *)
    rewrite app_nil_r in *.
    destruct (Nat.ltb_spec (length (tr_deltas s)) off) as [Hlt|Hle]; [discriminate|].
    assert (Hok2 : forallb block_ok (tr_deltas s) = true).
    { rewrite Hsp, forallb_app in Hok. apply andb_true_iff in Hok as [_ Hok]. exact Hok. }
    destruct (chain_skip unit off _ _ _ _ Hinv Hok2 Hch Hle) as (t' & Hn & Hi & Hc & Hs).
    rewrite Htot, Hn in H. inversion H; subst s'. clear H.
    refine (mkTrInv _ _ _ _ _ (bs1 ++ firstn off (tr_deltas s)) (skipn off tr2) _ _ _ _ _ _ _);
      cbn [tr_deltas tr_dbround tr_dbworld tr_dbtotals tr_round_totals].
    + rewrite <- app_assoc, firstn_skipn. exact Hsp.
    + rewrite app_length, firstn_length_le by exact Hle. rewrite Hrd. lia.
    + rewrite wfold_app, <- Hw. reflexivity.
    + fold (wfold (firstn off (tr_deltas s)) (tr_dbworld s)). exact Hi.
    + destruct off as [|off'].
      * cbn [firstn]. rewrite app_nil_r. cbn in Hn. inversion Hn; subst t'. exact Hlv.
      * destruct (tr_deltas s) as [|d0 ds] eqn:Ed; [cbn in Hle; lia|].
        assert (Hne : firstn (Datatypes.S off') (d0 :: ds) <> []) by (cbn; discriminate).
        rewrite (last_app_ne bs1 _ _ Hne).
        destruct (bs1 ++ firstn (Datatypes.S off') (d0 :: ds)) eqn:Eb.
        { destruct bs1; cbn in Eb; discriminate. }
        (* the level of the totals reached = level of the last committed block *)
        assert (Hj : nth_error (d0 :: ds) off' = Some (last (firstn (Datatypes.S off') (d0 :: ds)) (mkB 0 []))).
        { clear -Hle. revert d0 ds Hle. induction off' as [|o IHo]; intros d0 ds Hle; [reflexivity|].
          destruct ds as [|d1 ds]; [cbn in Hle; lia|]. cbn [nth_error].
          rewrite (IHo d1 ds) by (cbn in *; lia). cbn [firstn]. reflexivity. }
        destruct (chain_spec _ _ _ _ _ Hinv Hok2 Hch off' _ Hj) as (t2 & Hn2 & _ & Hl2).
        cbn [nth_error] in Hn. rewrite nth_error_map, Hn2 in Hn. cbn in Hn. inversion Hn; subst t2. exact Hl2.
    + fold (wfold (firstn off (tr_deltas s)) (tr_dbworld s)). exact Hc.
    + exact Hs.
  - (* Reload *)
    rewrite app_nil_r in *. rewrite replay_chain, Hch in H. inversion H; subst s'. clear H.
    refine (mkTrInv _ _ _ _ _ (bs1) (tr2) _ _ _ _ _ _ _);
      cbn [tr_deltas tr_dbround tr_dbworld tr_dbtotals tr_round_totals]; try assumption. reflexivity.
Qed.

Lemma blocks_of_cons o ops : blocks_of (o :: ops) = blocks_of [o] ++ blocks_of ops.
Proof. destruct o; reflexivity. Qed.

Lemma trun_inv unit w0 t0 : forall ops bs s s',
  TrInv unit w0 t0 bs s ->
  forallb block_ok (bs ++ blocks_of ops) = true ->
  trun unit s ops = Some s' ->
  TrInv unit w0 t0 (bs ++ blocks_of ops) s'.
Proof.
  induction ops as [|o ops IH]; intros bs s s' Hinv Hok H; cbn [trun] in H.
  - inversion H; subst. cbn [blocks_of]. rewrite app_nil_r. exact Hinv.
  - destruct (tstep unit s o) as [s1|] eqn:E; [|discriminate].
    rewrite blocks_of_cons, app_assoc in Hok |- *.
    apply (IH _ s1); [|exact Hok|exact H].
    apply (tstep_inv _ _ _ _ s); [exact Hinv| |exact E].
    rewrite forallb_app in Hok. apply andb_true_iff in Hok as [Hok _]. exact Hok.
Qed.

Lemma tracker_init_inv unit genesis s0 :
  mods_ok genesis = true -> tracker_init unit genesis = Some s0 ->
  exists t0, TrInv unit (wapply genesis []) t0 [] s0 /\ t_level t0 = 0 /\
             genesis_totals unit genesis = GOk t0.
Proof.
  intros Hg H. unfold tracker_init in H.
  destruct (genesis_totals unit genesis) as [t0| |] eqn:Eg; try discriminate.
  inversion H; subst s0. clear H. exists t0.
  destruct (genesis_totals_sound _ _ _ Hg Eg) as (Hinv0 & Hl0).
  split; [|split; [exact Hl0|reflexivity]].
  refine (mkTrInv _ _ _ _ _ ([]) ([]) _ _ _ _ _ _ _); cbn; try reflexivity. exact Hinv0.
Qed.

(* what a tracker satisfying the invariant serves *)
Lemma serve_spec unit genesis t0 bs s :
  TrInv unit (wapply genesis []) t0 bs s -> t_level t0 = 0 ->
  forallb block_ok bs = true ->
  forall rnd,
    serve s rnd =
    if (tr_dbround s <=? rnd) && (rnd <=? N.of_nat (length bs))
    then Some (spec_totals unit genesis bs (N.to_nat rnd)) else None.
Proof.
  intros [bs1 tr2 Hsp Hrd Hw Hinv Hlv Hch Htot] Hl0 Hok rnd. unfold serve.
  pose proof (chain_length _ _ _ _ _ Hch) as Hlen.
  assert (Hlb : length bs = (length bs1 + length (tr_deltas s))%nat) by (rewrite Hsp, app_length; reflexivity).
  destruct (N.ltb_spec rnd (tr_dbround s)) as [Hlo|Hlo].
  { destruct (N.leb_spec (tr_dbround s) rnd); [lia|reflexivity]. }
  destruct (N.leb_spec (tr_dbround s) rnd) as [_|]; [|lia]. cbn [andb].
  destruct (Nat.ltb_spec (length (tr_deltas s)) (N.to_nat (rnd - tr_dbround s))) as [Hhi|Hhi].
  { destruct (N.leb_spec rnd (N.of_nat (length bs))); [lia|reflexivity]. }
  destruct (N.leb_spec rnd (N.of_nat (length bs))) as [_|]; [|lia].
  assert (Hok2 : forallb block_ok (tr_deltas s) = true).
  { rewrite Hsp, forallb_app in Hok. apply andb_true_iff in Hok as [_ Hok2]. exact Hok2. }
  remember (N.to_nat (rnd - tr_dbround s)) as off eqn:Eoff.
  assert (Er : N.to_nat rnd = (length bs1 + off)%nat) by lia.
  rewrite Er, Htot. unfold spec_totals. rewrite state_at_wfold.
  assert (Hfirst : firstn (length bs1 + off) bs = bs1 ++ firstn off (tr_deltas s)).
  { rewrite Hsp. rewrite firstn_app_2. reflexivity. }
  rewrite Hfirst, wfold_app, <- Hw.
  destruct off as [|j].
  - cbn [nth_error firstn]. unfold wfold at 1. cbn [fold_left].
    f_equal. rewrite (TInv_class_sums _ _ _ Hinv) at 1. f_equal.
    rewrite Hlv. rewrite Nat.add_0_r. destruct bs1 as [|b1 bs1']; [cbn; exact Hl0|].
    unfold level_at. cbn [length]. rewrite Hsp.
    rewrite nth_error_app1 by (cbn; lia).
    assert (Hlast : nth_error (b1 :: bs1') (length bs1') = Some (last (b1 :: bs1') (mkB 0 []))).
    { clear. revert b1. induction bs1' as [|b2 l IH]; intros b1; [reflexivity|]. cbn [length nth_error]. rewrite IH. reflexivity. }
    rewrite Hlast. reflexivity.
  - cbn [nth_error]. destruct (nth_error (tr_deltas s) j) as [b|] eqn:Ej.
    2:{ apply nth_error_None in Ej. lia. }
    destruct (chain_spec _ _ _ _ _ Hinv Hok2 Hch j b Ej) as (t' & Hn & Hi & Hl).
    rewrite nth_error_map, Hn. cbn [option_map snd]. f_equal.
    rewrite (TInv_class_sums _ _ _ Hi) at 1. f_equal. rewrite Hl.
    unfold level_at. replace (length bs1 + Datatypes.S j)%nat with (Datatypes.S (length bs1 + j)) by lia.
    rewrite Hsp, nth_error_app2 by lia. replace (length bs1 + j - length bs1)%nat with j by lia.
    rewrite Ej. reflexivity.
Qed.

Theorem totals_served_any_schedule unit genesis ops s0 s :
  mods_ok genesis = true -> forallb block_ok (blocks_of ops) = true ->
  tracker_init unit genesis = Some s0 -> trun unit s0 ops = Some s ->
  forall rnd,
    serve s rnd =
    if (tr_dbround s <=? rnd) && (rnd <=? N.of_nat (length (blocks_of ops)))
    then Some (spec_totals unit genesis (blocks_of ops) (N.to_nat rnd)) else None.
Proof.
  intros Hg Hok Hi Hr rnd.
  destruct (tracker_init_inv _ _ _ Hg Hi) as (t0 & Hinv0 & Hl0 & _).
  pose proof (trun_inv unit _ t0 ops [] s0 s Hinv0 Hok Hr) as Hinv. cbn [app] in Hinv.
  exact (serve_spec _ _ _ _ _ Hinv Hl0 Hok rnd).
Qed.

Corollary totals_schedule_independent unit genesis ops1 ops2 s01 s02 s1 s2 rnd t1 t2 :
  mods_ok genesis = true -> forallb block_ok (blocks_of ops1) = true ->
  blocks_of ops1 = blocks_of ops2 ->
  tracker_init unit genesis = Some s01 -> trun unit s01 ops1 = Some s1 ->
  tracker_init unit genesis = Some s02 -> trun unit s02 ops2 = Some s2 ->
  serve s1 rnd = Some t1 -> serve s2 rnd = Some t2 -> t1 = t2.
Proof.
  intros Hg Hok Hb Hi1 Hr1 Hi2 Hr2 H1 H2.
  rewrite (totals_served_any_schedule _ _ _ _ _ Hg Hok Hi1 Hr1) in H1.
  rewrite Hb in Hok. rewrite (totals_served_any_schedule _ _ _ _ _ Hg Hok Hi2 Hr2) in H2.
  rewrite Hb in H1.
  destruct (_ && _) in H1; [|discriminate]. destruct (_ && _) in H2; [|discriminate]. congruence.
Qed.

(* ---------- the observable side: summing Ledger.LookupAccount over all addresses ---------- *)
Lemma ot_add_fits a b : a < W -> b < W -> a + b < W -> ot_add a b false = (a + b, false).
Proof.
  intros Ha Hb Hs. unfold ot_add. pose proof (oadd_exact 64 a b Ha Hb) as [Hi He].
  destruct (oadd 64 a b) as [r o]. cbn [fst snd] in *. destruct o.
  - rewrite M64 in Hi. destruct Hi as [Hi _]. specialize (Hi eq_refl). lia.
  - rewrite (He eq_refl). reflexivity.
Qed.
Lemma ot_sub_fits a b : a < W -> b < W -> b <= a -> ot_sub a b false = (a - b, false).
Proof.
  intros Ha Hb Hs. unfold ot_sub. pose proof (osub_exact 64 a b Ha Hb) as [Hi He].
  destruct (osub 64 a b) as [r o]. cbn [fst snd] in *. destruct o.
  - destruct Hi as [Hi _]. specialize (Hi eq_refl). lia.
  - destruct (He eq_refl) as [-> _]. reflexivity.
Qed.
Lemma ot_mul_fits a b : a < W -> b < W -> a * b < W -> ot_mul a b false = (a * b, false).
Proof.
  intros Ha Hb Hs. unfold ot_mul. pose proof (omul_exact 64 a b Ha Hb) as [Hi [He _]].
  destruct (omul 64 a b) as [r o]. cbn [fst snd] in *. destruct o.
  - rewrite M64 in Hi. destruct Hi as [Hi _]. specialize (Hi eq_refl). lia.
  - rewrite (He eq_refl). reflexivity.
Qed.

Lemma wur_fits unit L a : unit <> 0 -> L < W -> acct_good L a -> money_at unit L a < W ->
  with_updated_rewards unit a L = Some (money_at unit L a).
Proof.
  intros Hu HL (Hm & Hr & Hst & Hrb) Hmon. unfold with_updated_rewards, money_at, stNotPart in *.
  destruct (N.eqb_spec (a_st a) 2) as [E|E]; [reflexivity|].
  unfold reward_units. destruct (N.eqb_spec unit 0); [contradiction|].
  specialize (Hrb E). rewrite (ot_sub_fits _ _ HL Hr Hrb). unfold units_of in Hmon.
  assert (Hd : L - a_rbase a < W) by lia.
  assert (Hp : a_malgos a / unit * (L - a_rbase a) < W) by lia.
  rewrite (ot_mul_fits _ _ (div_lt_W _ unit Hm) Hd Hp).
  rewrite (ot_add_fits _ _ Hm Hp Hmon). reflexivity.
Qed.

Lemma S_ge g k a w : In (k, a) w -> g a <= S g w.
Proof.
  induction w as [|[k' a'] w IH]; [intros []|]. rewrite S_cons. intros [[= -> ->]|Hin]; [lia|].
  specialize (IH Hin). lia.
Qed.

Lemma TInv_lookup unit w t k a : TInv unit w t -> unit <> 0 -> In (k, a) w ->
  lookup_account unit (t_level t) a = Some (a_st a, money_at unit (t_level t) a, a_malgos a).
Proof.
  intros (Hlv & Hlt & Hg & Hs) Hu Hin. unfold lookup_account.
  pose proof (Hg _ _ Hin) as Hgood. destruct Hgood as (Hm & Hr & Hst & Hrb).
  rewrite wur_fits; [reflexivity|exact Hu|exact Hlv|exact (Hg _ _ Hin)|].
  destruct (Hs (a_st a) Hst) as [Hsm _]. destruct (Hlt (a_st a) Hst) as [Hb _].
  pose proof (S_ge (cls_money unit (t_level t) (a_st a)) k a w Hin) as Hge.
  unfold cls_money at 1 in Hge. rewrite N.eqb_refl in Hge. lia.
Qed.

(* the answers LookupAccount gives for the accounts of a world *)
Definition lookups_of (unit L : N) (w : world) : list (N * (N * N * N)) :=
  map (fun e => (fst e, (a_st (snd e), money_at unit L (snd e), a_malgos (snd e)))) w.

Lemma obs_sums_lookups unit L w : obs_sums unit L (lookups_of unit L w) = class_sums unit L w.
Proof.
  unfold obs_sums, class_sums, obs_count, class_count, lookups_of.
  assert (Hm : forall X, sum_by (fun e : N * (N * N * N) => let '(st, mw, _) := snd e in if st =? X then mw else 0)
                  (map (fun e : N * acct => (fst e, (a_st (snd e), money_at unit L (snd e), a_malgos (snd e)))) w)
               = sum_by (fun e => cls_money unit L X (snd e)) w).
  { intros X. induction w as [|[k a] w IH]; [reflexivity|]. unfold sum_by in *. cbn [map fold_right fst snd]. rewrite IH. reflexivity. }
  assert (Hu : forall X, sum_by (fun e : N * (N * N * N) => let '(st, _, mo) := snd e in if st =? X then mo / unit else 0)
                  (map (fun e : N * acct => (fst e, (a_st (snd e), money_at unit L (snd e), a_malgos (snd e)))) w)
               = sum_by (fun e => cls_units unit X (snd e)) w).
  { clear Hm. intros X. induction w as [|[k a] w IH]; [reflexivity|]. unfold sum_by in *. cbn [map fold_right fst snd]. rewrite IH. reflexivity. }
  rewrite !Hm, !Hu. reflexivity.
Qed.

(* reported totals = sums of what LookupAccount answers, for every round of every history *)
Theorem totals_eq_lookup_sums unit genesis bs tr r w t :
  mods_ok genesis = true -> forallb block_ok bs = true -> unit <> 0 ->
  ledger_run unit genesis bs = Some tr -> nth_error tr r = Some (w, t) ->
  (forall k a, In (k, a) w ->
     lookup_account unit (level_at bs r) a = Some (a_st a, money_at unit (level_at bs r) a, a_malgos a)) /\
  t = obs_sums unit (level_at bs r) (lookups_of unit (level_at bs r) w).
Proof.
  intros Hg Hok Hu Hrun Hn.
  destruct (ledger_run_sums _ _ _ _ Hg Hok Hrun) as (Hlen & Hall).
  assert (Hr : (r <= length bs)%nat).
  { assert (r < length tr)%nat by (apply nth_error_Some; congruence). lia. }
  rewrite (Hall r Hr) in Hn. inversion Hn; subst w t. clear Hn.
  rewrite obs_sums_lookups. split; [|reflexivity].
  (* the invariant at round r *)
  unfold ledger_run in Hrun.
  destruct (genesis_totals unit genesis) as [t0| |] eqn:Eg; try discriminate.
  destruct (chain unit (wapply genesis []) t0 bs) as [tr1|] eqn:Ec; [|discriminate].
  destruct (genesis_totals_sound _ _ _ Hg Eg) as (Hinv0 & Hl0).
  intros k a Hin. destruct r as [|j].
  - unfold level_at. rewrite <- Hl0. apply (TInv_lookup unit (state_at genesis bs 0) t0 k a); try assumption.
  - destruct (nth_error bs j) as [b|] eqn:Ej.
    2:{ apply nth_error_None in Ej. lia. }
    destruct (chain_spec _ _ _ _ _ Hinv0 Hok Ec j b Ej) as (t' & _ & Hi & Hl).
    unfold level_at. rewrite Ej, <- Hl. apply (TInv_lookup unit (wfold (firstn (Datatypes.S j) bs) (wapply genesis [])) t' k a); try assumption.
Qed.

(* ---------- the executable comparisons used by [check] decide equality ---------- *)
Lemma ac_eqb_eq a b : ac_eqb a b = true <-> a = b.
Proof.
  unfold ac_eqb. rewrite andb_true_iff, !N.eqb_eq. destruct a, b; cbn. split; [intros [-> ->]; reflexivity|intros [= -> ->]; auto].
Qed.
Lemma totals_eqb_eq a b : totals_eqb a b = true <-> a = b.
Proof.
  unfold totals_eqb. rewrite !andb_true_iff, !ac_eqb_eq, N.eqb_eq. destruct a, b; cbn.
  split; [intros [[[-> ->] ->] ->]; reflexivity|intros [= -> -> -> ->]; auto].
Qed.


(* ---------- the wrapped model meets the closed-form step specs (overflow tracking) ---------- *)
Lemma wur_is_exact unit a L : unit <> 0 -> a_malgos a < W -> a_rbase a < W -> L < W ->
  with_updated_rewards unit a L = exact_money unit L a.
Proof.
  intros Hu Hm Hr HL. unfold with_updated_rewards, exact_money, reward_units.
  destruct (a_st a =? stNotPart) eqn:Est; [reflexivity|].
  destruct (N.eqb_spec unit 0) as [|_]; [contradiction|].
  unfold ot_sub, ot_mul, ot_add. cbn [orb].
  pose proof (osub_exact 64 L (a_rbase a) HL Hr) as [Hs1 Hs2].
  destruct (osub 64 L (a_rbase a)) as [delta o1] eqn:E1. cbn [fst snd] in *.
  destruct (N.leb_spec (a_rbase a) L) as [Hle|Hgt].
  - assert (o1 = false) by (destruct o1; [destruct Hs1 as [Hs1 _]; specialize (Hs1 eq_refl); lia|reflexivity]).
    subst o1. destruct (Hs2 eq_refl) as [-> _].
    assert (Hd : L - a_rbase a < W) by lia.
    pose proof (omul_exact 64 (a_malgos a / unit) (L - a_rbase a) (div_lt_W _ unit Hm) Hd) as (Hm1 & Hm2 & _).
    destruct (omul 64 (a_malgos a / unit) (L - a_rbase a)) as [rw o2] eqn:E2. cbn [fst snd] in *.
    unfold money_at, units_of. rewrite Est.
    destruct o2.
    + destruct Hm1 as [Hm1 _]. specialize (Hm1 eq_refl). rewrite M64 in Hm1.
      destruct (oadd 64 (a_malgos a) rw) as [out o3]. cbn [orb].
      destruct (N.ltb_spec (a_malgos a + a_malgos a / unit * (L - a_rbase a)) W); [lia|reflexivity].
    + rewrite (Hm2 eq_refl).
      assert (Hp : a_malgos a / unit * (L - a_rbase a) < W).
      { destruct (N.lt_ge_cases (a_malgos a / unit * (L - a_rbase a)) W) as [|Hc]; [assumption|].
        rewrite <- M64 in Hc. apply Hm1 in Hc. discriminate. }
      pose proof (oadd_exact 64 (a_malgos a) _ Hm Hp) as [Ha1 Ha2].
      destruct (oadd 64 (a_malgos a) (a_malgos a / unit * (L - a_rbase a))) as [out o3]. cbn [fst snd orb] in *.
      destruct o3.
      * destruct Ha1 as [Ha1 _]. specialize (Ha1 eq_refl). rewrite M64 in Ha1.
        destruct (N.ltb_spec (a_malgos a + a_malgos a / unit * (L - a_rbase a)) W); [lia|reflexivity].
      * rewrite (Ha2 eq_refl).
        destruct (N.ltb_spec (a_malgos a + a_malgos a / unit * (L - a_rbase a)) W) as [|Hc]; [reflexivity|].
        rewrite <- M64 in Hc. apply Ha1 in Hc. discriminate.
  - assert (o1 = true) by (apply Hs1; exact Hgt). subst o1.
    destruct (omul 64 (a_malgos a / unit) delta) as [rw o2]. destruct (oadd 64 (a_malgos a) rw) as [out o3]. reflexivity.
Qed.

Lemma exact_money_lt unit L a m : a_malgos a < W -> exact_money unit L a = Some m -> m < W.
Proof.
  intros Hm. unfold exact_money. destruct (a_st a =? stNotPart); [intros [= <-]; exact Hm|].
  destruct (a_rbase a <=? L); [|discriminate].
  destruct (N.ltb_spec (money_at unit L a) W); [intros [= <-]; assumption|discriminate].
Qed.

Lemma ot_add_spec a b ot : a < W -> b < W -> ot_add a b ot = ((a + b) mod W, ot || (W <=? a + b)).
Proof. intros Ha Hb. unfold ot_add. rewrite (oadd_spec 64 a b Ha Hb). reflexivity. Qed.
Lemma ot_sub_spec a b ot : a < W -> b < W -> ot_sub a b ot = ((a + W - b) mod W, ot || (a <? b)).
Proof. intros Ha Hb. unfold ot_sub. rewrite (osub_spec 64 a b Ha Hb). reflexivity. Qed.

Lemma field_step_ok (add : bool) cm cu m u ot : cm < W -> cu < W -> m < W -> u < W ->
  let '(m', o1) := (if add then ot_add else ot_sub) cm m ot in
  let '(u', o2) := (if add then ot_add else ot_sub) cu u o1 in
  spec_field_step add (mkAC cm cu) m u (mkAC m' u') ot o2 = true.
Proof.
  intros Hcm Hcu Hm Hu. destruct add.
  - rewrite (ot_add_spec cm m ot Hcm Hm), (ot_add_spec cu u _ Hcu Hu).
    unfold spec_field_step. cbn [c_money c_units]. fold W.
    rewrite <- orb_assoc, Bool.eqb_reflx. cbn [andb].
    destruct ot; [reflexivity|]. cbn [orb].
    destruct (N.leb_spec W (cm + m)); [reflexivity|]. destruct (N.leb_spec W (cu + u)); [reflexivity|]. cbn [orb].
    rewrite !N.mod_small by assumption. rewrite !N.eqb_refl. reflexivity.
  - rewrite (ot_sub_spec cm m ot Hcm Hm), (ot_sub_spec cu u _ Hcu Hu).
    unfold spec_field_step. cbn [c_money c_units].
    rewrite <- orb_assoc, Bool.eqb_reflx. cbn [andb].
    destruct ot; [reflexivity|]. cbn [orb].
    destruct (N.ltb_spec cm m); [reflexivity|]. destruct (N.ltb_spec cu u); [reflexivity|]. cbn [orb].
    rewrite !mod_once by lia.
    replace (cm + W - m - W) with (cm - m) by lia. replace (cu + W - u - W) with (cu - u) by lia.
    rewrite !N.eqb_refl. reflexivity.
Qed.

Lemma status_field_set st t c c0 : status_field st t = Some c0 -> status_field st (set_field st t c) = Some c.
Proof.
  unfold status_field, set_field, stOnline, stOffline, stNotPart.
  destruct (st =? 1) eqn:E1; [intros _; cbn; reflexivity|].
  destruct (st =? 0) eqn:E0; [intros _; cbn; reflexivity|].
  destruct (st =? 2) eqn:E2; [intros _; cbn; reflexivity|discriminate].
Qed.

Lemma ac_eqb_refl c : ac_eqb c c = true.
Proof. unfold ac_eqb. rewrite !N.eqb_refl. reflexivity. Qed.

Lemma others_same_set st t c c0 : status_field st t = Some c0 -> others_same st t (set_field st t c) = true.
Proof.
  intros Hsf. unfold others_same. rewrite level_set_field, N.eqb_refl. cbn [andb].
  unfold status_field in Hsf. unfold set_field.
  destruct (st =? stOnline) eqn:E1; cbn [t_on t_off t_np orb andb].
  - rewrite !ac_eqb_refl, !orb_true_r. reflexivity.
  - destruct (st =? stOffline) eqn:E0; cbn [t_on t_off t_np orb andb]; rewrite !ac_eqb_refl, ?orb_true_r; [reflexivity|].
    destruct (st =? stNotPart); [reflexivity|discriminate].
Qed.

Theorem add_del_meet_spec (add : bool) unit a t ot :
  u64 unit = true -> totals_u64 t = true -> acct_ok a = true ->
  spec_adddel add unit a t ot (if add then add_account unit a t ot else del_account unit a t ot) = true.
Proof.
  intros Hun Ht Ha. unfold acct_ok in Ha. apply andb_true_iff in Ha as [Hm Hr]. apply u64_lt in Hm, Hr.
  unfold totals_u64 in Ht. repeat (apply andb_true_iff in Ht as [Ht ?]).
  repeat match goal with Hx : u64 _ = true |- _ => apply u64_lt in Hx end.
  assert (Hflt : forall c, status_field (a_st a) t = Some c -> c_money c < W /\ c_units c < W).
  { intros c Hc. apply status_field_fld in Hc as [_ ->]. unfold fld, stOnline, stOffline.
    destruct (a_st a =? 1); [split; assumption|]. destruct (a_st a =? 0); split; assumption. }
  assert (Hmodel : (if add then add_account unit a t ot else del_account unit a t ot) =
    match status_field (a_st a) t with
    | None => None
    | Some sum =>
        match with_updated_rewards unit a (t_level t) with
        | None => None
        | Some algos =>
            let '(m, ot1) := (if add then ot_add else ot_sub) (c_money sum) algos ot in
            match reward_units unit (a_malgos a) with
            | None => None
            | Some ru => let '(u, ot2) := (if add then ot_add else ot_sub) (c_units sum) ru ot1 in
                         Some (set_field (a_st a) t (mkAC m u), ot2)
            end
        end
    end) by (destruct add; reflexivity).
  rewrite Hmodel. clear Hmodel. unfold spec_adddel.
  destruct (status_field (a_st a) t) as [c|] eqn:Esf; [|reflexivity].
  destruct (Hflt c eq_refl) as [Hcm Hcu].
  destruct (N.eqb_spec unit 0) as [Hu0|Hu0].
  { subst unit. unfold with_updated_rewards, reward_units. cbn [N.eqb].
    destruct (a_st a =? stNotPart); [|reflexivity].
    destruct ((if add then ot_add else ot_sub) (c_money c) (a_malgos a) ot). reflexivity. }
  rewrite (wur_is_exact unit a (t_level t) Hu0 Hm Hr ltac:(assumption)).
  destruct (exact_money unit (t_level t) a) as [mm|] eqn:Eem; [|reflexivity].
  pose proof (exact_money_lt _ _ _ _ Hm Eem) as Hmm.
  unfold reward_units. destruct (N.eqb_spec unit 0); [contradiction|].
  pose proof (field_step_ok add (c_money c) (c_units c) mm (a_malgos a / unit) ot Hcm Hcu Hmm (div_lt_W _ unit Hm)) as Hfs.
  destruct ((if add then ot_add else ot_sub) (c_money c) mm ot) as [m' o1].
  destruct ((if add then ot_add else ot_sub) (c_units c) (a_malgos a / unit) o1) as [u' o2].
  rewrite (status_field_set _ _ _ _ Esf), (others_same_set _ _ _ _ Esf), andb_true_r.
  unfold units_of. destruct c as [cm cu]. exact Hfs.
Qed.

Lemma leb_absorb x y : (W <=? x) || (W <=? y + x) = (W <=? y + x).
Proof. destruct (N.leb_spec W x); destruct (N.leb_spec W (y + x)); try reflexivity; lia. Qed.

Lemma ac_apply_spec c r ot : c_money c < W -> c_units c < W -> r < W ->
  exists m', ac_apply_rewards c r ot = (mkAC m' (c_units c), ot || (W <=? c_money c + c_units c * r)) /\
             ((W <=? c_money c + c_units c * r) = false -> m' = c_money c + c_units c * r).
Proof.
  intros Hm Hu Hr. unfold ac_apply_rewards, ot_mul.
  pose proof (omul_exact 64 (c_units c) r Hu Hr) as (H1 & H2 & H3).
  destruct (omul 64 (c_units c) r) as [got o1] eqn:Eo. cbn [fst snd] in *.
  assert (Hg : got < W) by (pose proof (omul_lt (c_units c) r) as Hl; rewrite Eo in Hl; exact Hl).
  rewrite (ot_add_spec (c_money c) got _ Hm Hg). eexists. split.
  - f_equal. rewrite <- orb_assoc. f_equal. destruct o1.
    + destruct H1 as [H1 _]. specialize (H1 eq_refl). rewrite M64 in H1. cbn [orb]. symmetry. apply N.leb_le. lia.
    + rewrite (H2 eq_refl). reflexivity.
  - intros Hn. apply N.leb_gt in Hn. destruct o1.
    + destruct H1 as [H1 _]. specialize (H1 eq_refl). rewrite M64 in H1. lia.
    + rewrite (H2 eq_refl). apply N.mod_small. exact Hn.
Qed.

Theorem rewards_meet_spec level t ot :
  u64 level = true -> totals_u64 t = true ->
  spec_rewards level t ot (Some (apply_rewards level t ot)) = true.
Proof.
  intros HL Ht. apply u64_lt in HL.
  unfold totals_u64 in Ht. repeat (apply andb_true_iff in Ht as [Ht ?]).
  repeat match goal with Hx : u64 _ = true |- _ => apply u64_lt in Hx end.
  unfold apply_rewards. rewrite (ot_sub_spec level (t_level t) ot HL ltac:(assumption)).
  set (rpu := (level + W - t_level t) mod W). assert (Hrpu : rpu < W) by apply mod_lt.
  destruct (ac_apply_spec (t_on t) rpu (ot || (level <? t_level t))) as (mo & Eo & Ho); try assumption.
  rewrite Eo.
  destruct (ac_apply_spec (t_off t) rpu ((ot || (level <? t_level t)) || (W <=? c_money (t_on t) + c_units (t_on t) * rpu))) as (mf & Ef & Hf); try assumption.
  rewrite Ef. unfold spec_rewards. cbn [t_level t_on t_off t_np c_money c_units].
  rewrite !N.eqb_refl, ac_eqb_refl. cbn [andb].
  destruct (N.ltb_spec level (t_level t)) as [Hlt|Hge].
  - rewrite !orb_true_r. cbn [orb]. reflexivity.
  - assert (Er : rpu = level - t_level t) by (unfold rpu; rewrite mod_once by lia; lia).
    rewrite Er in *. rewrite !orb_false_r. cbn [orb].
    destruct ot; [reflexivity|]. cbn [orb].
    destruct (N.leb_spec W (c_units (t_on t) * (level - t_level t)));
      destruct (N.leb_spec W (c_money (t_on t) + c_units (t_on t) * (level - t_level t))) as [|E1]; try lia; cbn [orb]; try reflexivity;
      destruct (N.leb_spec W (c_units (t_off t) * (level - t_level t)));
      destruct (N.leb_spec W (c_money (t_off t) + c_units (t_off t) * (level - t_level t))) as [|E2]; try lia; cbn [orb Bool.eqb andb]; try reflexivity.
Qed.

Lemma oadd_opt a b : a < W -> b < W ->
  (let '(r, o) := oadd 64 a b in if o then None else Some r) = spec_sum2 a b.
Proof.
  intros Ha Hb. rewrite (oadd_spec 64 a b Ha Hb). rewrite M64. unfold spec_sum2.
  destruct (N.leb_spec W (a + b)); destruct (N.ltb_spec (a + b) W); try lia; [reflexivity|].
  rewrite N.mod_small by assumption. reflexivity.
Qed.

Theorem all_meets_spec t : totals_u64 t = true ->
  participating t = spec_sum2 (c_money (t_on t)) (c_money (t_off t)) /\
  all_money t = match spec_sum2 (c_money (t_on t)) (c_money (t_off t)) with
                | Some p => spec_sum2 (c_money (t_np t)) p | None => None end /\
  part_units t = spec_sum2 (c_units (t_on t)) (c_units (t_off t)).
Proof.
  intros Ht. unfold totals_u64 in Ht. repeat (apply andb_true_iff in Ht as [Ht ?]).
  repeat match goal with Hx : u64 _ = true |- _ => apply u64_lt in Hx end.
  assert (Hp : participating t = spec_sum2 (c_money (t_on t)) (c_money (t_off t))) by (apply oadd_opt; assumption).
  split; [exact Hp|]. split; [|apply oadd_opt; assumption].
  unfold all_money. rewrite Hp. destruct (spec_sum2 (c_money (t_on t)) (c_money (t_off t))) as [pp|] eqn:Es; [|reflexivity].
  apply oadd_opt; [assumption|]. unfold spec_sum2 in Es. destruct (N.ltb_spec (c_money (t_on t) + c_money (t_off t)) W); [|discriminate].
  inversion Es; subst. assumption.
Qed.
