(* C09: proofs about the crash / recovery machine of model/LedgerCrash.v.
   Part 1: block DB / tracker DB (durable invariant, confirmed rounds are durable, OpenLedger on
   any reachable disk recovers exactly the durable block prefix). *)
From Coq Require Import List Arith Bool Lia.
From Verif.model Require Import LedgerCrash.
Import ListNotations.

(* ---------- arithmetic of calculateFirstStageRounds ---------- *)
Lemma div_mul_le : forall a I, a / I * I <= a.
Proof.
  intros a I. destruct I as [|I]; [simpl; lia|].
  pose proof (Nat.div_mod a (S I) ltac:(lia)). rewrite Nat.mul_comm. lia.
Qed.

Lemma ceil_mul_ge : forall m I, 0 < I -> m <= (m + I - 1) / I * I.
Proof.
  intros m I HI.
  pose proof (Nat.div_mod (m + I - 1) I ltac:(lia)) as H.
  pose proof (Nat.mod_upper_bound (m + I - 1) I ltac:(lia)) as H2.
  rewrite Nat.mul_comm. lia.
Qed.

Lemma calc_first_bound : forall old off re I CL has off',
  0 < I -> 1 <= off -> calc_first old off re I CL = (has, off') -> 1 <= off' /\ off' <= off.
Proof.
  intros old off re I CL has off' HI Hoff. unfold calc_first.
  destruct (re =? 0); [intros H; inversion H; lia|].
  set (minr := if (CL <? re) && (old + 1 <? re - CL) then re - CL else old + 1).
  assert (Hminr : old + 1 <= minr).
  { unfold minr. destruct ((CL <? re) && (old + 1 <? re - CL)) eqn:E; [|lia].
    apply andb_prop in E. destruct E as [_ E]. apply Nat.ltb_lt in E. lia. }
  destruct (_ <=? _) eqn:E; intros H; inversion H; subst; [|lia].
  apply Nat.leb_le in E.
  pose proof (ceil_mul_ge (minr + CL) I HI) as H1.
  pose proof (div_mul_le (old + off + CL) I) as H2.
  replace (minr + CL + I - 1) with (minr + CL + I - 1) in E by lia.
  lia.
Qed.

(* ---------- list helpers ---------- *)
Lemma skipn_app_le : forall {A} k (l1 l2 : list A), k <= length l1 -> skipn k (l1 ++ l2) = skipn k l1 ++ l2.
Proof.
  intros A k l1 l2 H. rewrite skipn_app. replace (k - length l1) with 0 by lia. reflexivity.
Qed.

Lemma nth_skipn : forall {A} k i (l : list A) d, nth i (skipn k l) d = nth (k + i) l d.
Proof.
  intros A k. induction k; intros i l d; simpl; [reflexivity|].
  destruct l; simpl; [destruct i; reflexivity|]. apply IHk.
Qed.

Lemma skipn_S_tl : forall {A} n (l : list A) b tl, skipn n l = b :: tl -> tl = skipn (S n) l.
Proof.
  intros A n. induction n; intros l b tl H.
  - simpl in H. subst l. reflexivity.
  - destruct l; [discriminate|]. simpl in H. apply IHn in H. exact H.
Qed.

Lemma last_indep : forall {A} (l : list A) a b, l <> [] -> last l a = last l b.
Proof.
  induction l; intros x y H; [congruence|]. destruct l; [reflexivity|].
  change (last (a :: a0 :: l) x) with (last (a0 :: l) x).
  change (last (a :: a0 :: l) y) with (last (a0 :: l) y). apply IHl. congruence.
Qed.

Lemma last_cons : forall {A} (l : list A) a d, last (a :: l) d = last l a.
Proof.
  intros A l a d. destruct l; [reflexivity|].
  change (last (a :: a0 :: l) d) with (last (a0 :: l) d). apply last_indep. congruence.
Qed.

Section Proofs.
  Variables B W : Type.
  Variable apply : B -> W -> W.
  Variable genesis : W.
  Variable cf : cfg.

  Notation state_at := (state_at B W apply genesis).
  Notation state := (state B W).
  Notation vol := (vol B W).
  Notation dur := (@dur B W).
  Notation step := (step B W apply cf).
  Notation step' := (step' B W apply cf).
  Notation run := (run B W apply cf).
  Notation init := (init B W genesis).
  Notation opened := (opened B W apply cf).
  Notation produce := (produce cf).

  (* ---------- state_at ---------- *)
  Lemma state_at_prefix : forall l1 l2 r, r <= length l1 -> state_at (l1 ++ l2) r = state_at l1 r.
  Proof.
    intros l1 l2 r H. unfold LedgerCrash.state_at. rewrite firstn_app.
    replace (r - length l1) with 0 by lia. simpl. rewrite app_nil_r. reflexivity.
  Qed.

  Lemma state_at_snoc : forall l b, state_at (l ++ [b]) (length l + 1) = apply b (state_at l (length l)).
  Proof.
    intros l b. unfold LedgerCrash.state_at.
    rewrite firstn_all2 by (rewrite app_length; simpl; lia).
    rewrite firstn_all. rewrite fold_left_app. reflexivity.
  Qed.

  Lemma state_at_step : forall l r b, nth_error l r = Some b -> state_at l (S r) = apply b (state_at l r).
  Proof.
    intros l r b H. unfold LedgerCrash.state_at.
    assert (Hs : firstn (S r) l = firstn r l ++ [b]).
    { revert l H. induction r; intros l H; destruct l; simpl in *; try discriminate.
      - inversion H; reflexivity.
      - f_equal. apply IHr. exact H. }
    rewrite Hs, fold_left_app. reflexivity.
  Qed.

  (* ---------- replay ---------- *)
  Lemma replay_ws_length : forall bs w, length (replay_ws B W apply bs w) = length bs.
  Proof. induction bs; intros; simpl; [reflexivity|]. rewrite IHbs. reflexivity. Qed.

  Lemma replay_ws_nth : forall blocks n i dflt,
    n + i < length blocks ->
    nth i (replay_ws B W apply (skipn n blocks) (state_at blocks n)) dflt = state_at blocks (n + i + 1).
  Proof.
    intros blocks n i. revert n. induction i; intros n dflt H.
    - destruct (skipn n blocks) eqn:E.
      + assert (length (skipn n blocks) = 0) by (rewrite E; reflexivity). rewrite skipn_length in *. lia.
      + simpl. replace (n + 0 + 1) with (S n) by lia. symmetry. apply state_at_step.
        rewrite <- (firstn_skipn n blocks) at 1. rewrite nth_error_app2 by (rewrite firstn_length; lia).
        rewrite firstn_length. replace (n - Nat.min n (length blocks)) with 0 by lia. rewrite E. reflexivity.
    - destruct (skipn n blocks) eqn:E.
      + assert (length (skipn n blocks) = 0) by (rewrite E; reflexivity). rewrite skipn_length in *. lia.
      + simpl.
        assert (Hb : nth_error blocks n = Some b).
        { rewrite <- (firstn_skipn n blocks) at 1. rewrite nth_error_app2 by (rewrite firstn_length; lia).
          rewrite firstn_length. replace (n - Nat.min n (length blocks)) with 0 by lia. rewrite E. reflexivity. }
        rewrite <- (state_at_step _ _ _ Hb).
        assert (Hl : l = skipn (S n) blocks) by (eapply skipn_S_tl; exact E).
        rewrite Hl. rewrite IHi by lia. f_equal. lia.
  Qed.

  Lemma replay_ws_last : forall blocks n,
    n <= length blocks ->
    last (replay_ws B W apply (skipn n blocks) (state_at blocks n)) (state_at blocks n) = state_at blocks (length blocks).
  Proof.
    intros blocks n H.
    destruct (Nat.eq_dec n (length blocks)) as [->|Hne].
    - rewrite skipn_all. reflexivity.
    - set (ws := replay_ws B W apply (skipn n blocks) (state_at blocks n)).
      assert (Hlen : length ws = length blocks - n) by (unfold ws; rewrite replay_ws_length, skipn_length; reflexivity).
      assert (Hlast : forall (l : list W) d, l <> [] -> last l d = nth (length l - 1) l d).
      { induction l; intros d Hl; [congruence|]. destruct l; [reflexivity|].
        change (last (a :: w :: l) d) with (last (w :: l) d). rewrite IHl by congruence. simpl. rewrite Nat.sub_0_r. reflexivity. }
      rewrite Hlast by (intro E; rewrite E in Hlen; simpl in Hlen; lia).
      unfold ws. rewrite replay_ws_nth by (fold ws; lia). fold ws. f_equal. lia.
  Qed.

  (* ---------- scheduling ---------- *)
  Lemma produce_bound : forall c dbr nd re t,
    produce c dbr nd re = Some t ->
    t_old t = dbr /\ 1 <= t_off t /\ t_new t + c_L cf <= c /\ t_new t <= dbr + nd.
  Proof.
    intros c dbr nd re t. unfold LedgerCrash.produce.
    destruct (c <? c_L cf) eqn:E1; [discriminate|]. apply Nat.ltb_ge in E1.
    destruct (c - c_L cf <=? dbr) eqn:E2; [discriminate|]. apply Nat.leb_gt in E2.
    destruct (dbr + nd <? c - c_L cf) eqn:E3; [discriminate|]. apply Nat.ltb_ge in E3.
    destruct (c_I cf =? 0) eqn:E4.
    - intros H; inversion H; subst; unfold t_new; simpl. lia.
    - apply Nat.eqb_neq in E4.
      destruct (calc_first dbr (c - c_L cf - dbr) re (c_I cf) (c_CL cf)) as [has off'] eqn:E5.
      apply calc_first_bound in E5; [|lia|lia].
      intros H; inversion H; subst; unfold t_new; simpl. lia.
  Qed.

  Lemma adjust_spec : forall dbr t t',
    adjust dbr t = Some t' ->
    t_old t' = dbr /\ 1 <= t_off t' /\ t_new t' = t_new t /\ t_first t' = t_first t.
  Proof.
    intros dbr t t'. unfold adjust.
    destruct ((dbr <? t_old t) || (t_off t <? dbr - t_old t)) eqn:E; [discriminate|].
    apply orb_false_elim in E. destruct E as [E1 E2]. apply Nat.ltb_ge in E1, E2.
    destruct (t_off t - (dbr - t_old t) =? 0) eqn:E3; [discriminate|]. apply Nat.eqb_neq in E3.
    intros H; inversion H; subst; unfold t_new; simpl. repeat split; auto; lia.
  Qed.

  (* ---------- the invariant ---------- *)
  Definition rest (v : vol) : list B :=
    match v_sync B W v with SWritten k => skipn k (v_q B W v) | _ => v_q B W v end.
  Definition allb (d : dur) (v : vol) : list B := d_blocks d ++ rest v.

  Definition dinv (d : dur) : Prop :=
    d_earliest d <= d_dbr d /\
    d_dbr d <= length (d_blocks d) /\
    d_dbw d = state_at (d_blocks d) (d_dbr d) /\
    (d_dbr d = 0 \/ d_dbr d + c_L cf <= length (d_blocks d)).

  Definition vinv (d : dur) (v : vol) : Prop :=
    length (d_blocks d) = v_com B W v + (match v_sync B W v with SWritten k => k | _ => 0 end) /\
    (match v_sync B W v with SWritten k => k <= length (v_q B W v) | SForget m => m <= v_dbr B W v | _ => True end) /\
    v_added B W v = allb d v /\
    v_dbr B W v + length (v_ws B W v) = length (allb d v) /\
    (forall i, i < length (v_ws B W v) ->
       nth i (v_ws B W v) (v_top B W v) = state_at (allb d v) (v_dbr B W v + i + 1)) /\
    v_top B W v = state_at (allb d v) (length (allb d v)) /\
    (match v_phase B W v with
     | PPostTx t => t_old t = v_dbr B W v /\ d_dbr d = t_new t /\ 1 <= t_off t /\ t_new t <= v_dbr B W v + length (v_ws B W v)
     | _ => d_dbr d = v_dbr B W v
     end) /\
    v_conf B W v <= v_com B W v /\
    (match v_chan B W v with Some t => t_new t + c_L cf <= v_com B W v | None => True end).

  Definition Inv (s : state) : Prop :=
    dinv (s_d B W s) /\ match s_m B W s with Up _ _ v => vinv (s_d B W s) v | _ => True end.

  Lemma inv_init : Inv init.
  Proof. unfold Inv, dinv; simpl. repeat split; auto; lia. Qed.

  Lemma allb_length : forall d v, vinv d v -> length (allb d v) = v_com B W v + length (v_q B W v).
  Proof.
    intros d v (H1 & H2 & _). unfold allb, rest. rewrite app_length.
    destruct (v_sync B W v); try lia. rewrite skipn_length. lia.
  Qed.

  Lemma opened_inv : forall d, dinv d -> vinv d (opened d).
  Proof.
    intros d (D1 & D2 & D3 & D4). unfold vinv, LedgerCrash.opened, allb, rest; simpl.
    rewrite app_nil_r. rewrite D3.
    repeat split; try lia; auto.
    - rewrite replay_ws_length, skipn_length. lia.
    - intros i Hi. rewrite replay_ws_length, skipn_length in Hi.
      assert (Hd : forall d1 d2, nth i (replay_ws B W apply (skipn (d_dbr d) (d_blocks d)) (state_at (d_blocks d) (d_dbr d))) d1 =
                                 nth i (replay_ws B W apply (skipn (d_dbr d) (d_blocks d)) (state_at (d_blocks d) (d_dbr d))) d2).
      { intros. apply nth_indep. rewrite replay_ws_length, skipn_length. lia. }
      rewrite (Hd _ genesis). apply replay_ws_nth. lia.
    - apply replay_ws_last. lia.
    - destruct (d_dbr d + c_L cf <? length (d_blocks d)); [|exact I].
      destruct (produce _ _ _ _) eqn:E; [|exact I]. apply produce_bound in E. lia.
  Qed.

  Ltac split9 := refine (conj _ (conj _ (conj _ (conj _ (conj _ (conj _ (conj _ (conj _ _)))))))).

  Lemma inv_step : forall s o s', Inv s -> step s o = Some s' -> Inv s'.
  Proof.
    intros s o s' [HD HV] Hs. destruct s as [d m]. simpl in HD, HV.
    unfold LedgerCrash.step, LedgerCrash.upd_v in Hs. cbn [LedgerCrash.s_d LedgerCrash.s_m] in Hs.
    destruct o.
    - (* OAdd *)
      destruct m as [| |v]; try discriminate. inversion Hs; subst; clear Hs.
      split; [exact HD|]. simpl.
      pose proof (allb_length _ _ HV) as HL.
      destruct HV as (V1 & V2 & V3 & V4 & V5 & V6 & V7 & V8 & V9).
      assert (Hall : allb d (mkVol B W (v_q B W v ++ [b]) (v_com B W v) (v_sync B W v) (v_dbr B W v)
                               (v_ws B W v ++ [apply b (v_top B W v)]) (apply b (v_top B W v))
                               (if v_re B W v =? 0 then v_latest B W v + 1 + c_CL cf else v_re B W v)
                               (v_chan B W v) (v_phase B W v) (v_conf B W v) (v_added B W v ++ [b])) = allb d v ++ [b]).
      { unfold allb, rest; simpl. destruct (v_sync B W v); try (rewrite app_assoc; reflexivity).
        rewrite skipn_app_le by exact V2. rewrite app_assoc. reflexivity. }
      cbn [LedgerCrash.s_d LedgerCrash.s_m]. unfold vinv. rewrite Hall. simpl.
      split9; [> exact V1 | | | | | | | exact V8 | exact V9].
      + destruct (v_sync B W v); auto. rewrite app_length. simpl. lia.
      + rewrite V3. reflexivity.
      + rewrite !app_length. simpl. lia.
      + intros i Hi. rewrite app_length in Hi. simpl in Hi.
        destruct (Nat.eq_dec i (length (v_ws B W v))) as [->|Hne].
        * rewrite app_nth2 by lia. rewrite Nat.sub_diag. simpl.
          rewrite V6. replace (v_dbr B W v + length (v_ws B W v) + 1) with (length (allb d v) + 1) by lia.
          rewrite state_at_snoc. reflexivity.
        * rewrite app_nth1 by lia. rewrite state_at_prefix by lia.
          rewrite <- V5 by lia. apply nth_indep. lia.
      + rewrite app_length. simpl. rewrite V6. rewrite state_at_snoc. reflexivity.
      + destruct (v_phase B W v); auto. rewrite app_length. simpl. lia.
    - (* OFlush *)
      destruct m as [| |v]; try discriminate.
      destruct (v_sync B W v) eqn:ES; try discriminate.
      destruct ((1 <=? k) && (k <=? length (v_q B W v))) eqn:EK; [|discriminate].
      apply andb_prop in EK. destruct EK as [EK1 EK2]. apply Nat.leb_le in EK1, EK2.
      inversion Hs; subst; clear Hs.
      destruct HD as (D1 & D2 & D3 & D4).
      destruct HV as (V1 & V2 & V3 & V4 & V5 & V6 & V7 & V8 & V9).
      assert (Hall : forall d', d_blocks d' = d_blocks d ++ firstn k (v_q B W v) ->
                allb d' (mkVol B W (v_q B W v) (v_com B W v) (SWritten k) (v_dbr B W v) (v_ws B W v) (v_top B W v)
                               (v_re B W v) (v_chan B W v) (v_phase B W v) (v_conf B W v) (v_added B W v)) = allb d v).
      { intros d' Hd'. unfold allb, rest; simpl. rewrite ES, Hd'. rewrite <- app_assoc. rewrite firstn_skipn. reflexivity. }
      split.
      + cbn [LedgerCrash.s_d LedgerCrash.s_m]. unfold dinv; simpl. rewrite app_length. split; [lia|]. split; [lia|]. split; [|lia].
        rewrite state_at_prefix by lia. exact D3.
      + cbn [LedgerCrash.s_d LedgerCrash.s_m]. unfold vinv. rewrite Hall by reflexivity. simpl.
        split9; [> | exact EK2 | exact V3 | exact V4 | exact V5 | exact V6 | exact V7 | exact V8 | exact V9].
        rewrite app_length, firstn_length. rewrite ES in V1. lia.
    - (* OFlushed *)
      destruct m as [| |v]; try discriminate.
      destruct (v_sync B W v) eqn:ES; try discriminate.
      inversion Hs; subst; clear Hs. split; [exact HD|].
      destruct HV as (V1 & V2 & V3 & V4 & V5 & V6 & V7 & V8 & V9).
      assert (Hall : allb d (mkVol B W (skipn k (v_q B W v)) (v_com B W v + k) SNotify (v_dbr B W v) (v_ws B W v)
                               (v_top B W v) (v_re B W v) (v_chan B W v) (v_phase B W v) (v_conf B W v) (v_added B W v)) = allb d v).
      { unfold allb, rest; simpl. rewrite ES. reflexivity. }
      cbn [LedgerCrash.s_d LedgerCrash.s_m]. unfold vinv. rewrite Hall. simpl.
      split9; [> | exact I | exact V3 | exact V4 | exact V5 | exact V6 | exact V7 | lia | ].
      + rewrite ES in V1. lia.
      + destruct (v_chan B W v); auto. lia.
    - (* OConfirm *)
      destruct m as [| |v]; try discriminate.
      destruct (r <=? v_com B W v) eqn:ER; [|discriminate]. apply Nat.leb_le in ER.
      inversion Hs; subst; clear Hs. split; [exact HD|].
      destruct HV as (V1 & V2 & V3 & V4 & V5 & V6 & V7 & V8 & V9).
      cbn [LedgerCrash.s_d LedgerCrash.s_m]. unfold vinv. change (allb d _) with (allb d v). simpl.
      split9; [> exact V1 | exact V2 | exact V3 | exact V4 | exact V5 | exact V6 | exact V7 | lia | exact V9].
    - (* ONotify *)
      destruct m as [| |v]; try discriminate.
      destruct (v_sync B W v) eqn:ES; try discriminate.
      destruct (m0 <=? _) eqn:EM; [|discriminate]. apply Nat.leb_le in EM.
      inversion Hs; subst; clear Hs. split; [exact HD|].
      pose proof (allb_length _ _ HV) as HL.
      destruct HV as (V1 & V2 & V3 & V4 & V5 & V6 & V7 & V8 & V9).
      assert (Hall : forall ch, allb d (mkVol B W (v_q B W v) (v_com B W v) (SForget m0) (v_dbr B W v) (v_ws B W v)
                               (v_top B W v) (v_re B W v) ch (v_phase B W v) (v_conf B W v) (v_added B W v)) = allb d v).
      { intros. unfold allb, rest; simpl. rewrite ES. reflexivity. }
      cbn [LedgerCrash.s_d LedgerCrash.s_m]. unfold vinv. rewrite Hall. simpl.
      split9; [> | | exact V3 | exact V4 | exact V5 | exact V6 | exact V7 | exact V8 | ].
      + rewrite ES in V1. lia.
      + destruct (c_arch cf); [lia|]. destruct (v_com B W v <? c_L cf); lia.
      + destruct (v_chan B W v) eqn:EC; [exact V9|].
        destruct sched; [|exact I].
        destruct (produce _ _ _ _) eqn:EP; [|exact I]. apply produce_bound in EP. lia.
    - (* OForget *)
      destruct m as [| |v]; try discriminate.
      destruct (v_sync B W v) eqn:ES; try discriminate.
      inversion Hs; subst; clear Hs.
      destruct HD as (D1 & D2 & D3 & D4).
      destruct HV as (V1 & V2 & V3 & V4 & V5 & V6 & V7 & V8 & V9). rewrite ES in V1, V2.
      split.
      + cbn [LedgerCrash.s_d LedgerCrash.s_m]. unfold dinv; simpl. split; [|auto].
        destruct (v_phase B W v); try lia. unfold t_new in *. lia.
      + assert (Hall : forall d', d_blocks d' = d_blocks d ->
                  allb d' (mkVol B W (v_q B W v) (v_com B W v) SIdle (v_dbr B W v) (v_ws B W v)
                               (v_top B W v) (v_re B W v) (v_chan B W v) (v_phase B W v) (v_conf B W v) (v_added B W v)) = allb d v).
        { intros d' Hd'. unfold allb, rest; simpl. rewrite ES, Hd'. reflexivity. }
        cbn [LedgerCrash.s_d LedgerCrash.s_m]. unfold vinv. rewrite Hall by reflexivity. simpl.
        split9; [> lia | exact I | exact V3 | exact V4 | exact V5 | exact V6 | exact V7 | exact V8 | exact V9].
    - (* OCommit *)
      destruct m as [| |v]; try discriminate.
      destruct (v_phase B W v) eqn:EP; try discriminate.
      destruct (v_chan B W v) as [t0|] eqn:EC; try discriminate.
      pose proof (allb_length _ _ HV) as HL.
      destruct HD as (D1 & D2 & D3 & D4).
      destruct HV as (V1 & V2 & V3 & V4 & V5 & V6 & V7 & V8 & V9). rewrite EP in V7. rewrite EC in V9.
      assert (Hall : forall d' ph, d_blocks d' = d_blocks d ->
                  allb d' (mkVol B W (v_q B W v) (v_com B W v) (v_sync B W v) (v_dbr B W v) (v_ws B W v)
                               (v_top B W v) (v_re B W v) None ph (v_conf B W v) (v_added B W v)) = allb d v).
      { intros d' ph Hd'. unfold allb, rest; simpl. rewrite Hd'. reflexivity. }
      destruct (adjust (v_dbr B W v) t0) as [t|] eqn:EA.
      + inversion Hs; subst; clear Hs.
        apply adjust_spec in EA. destruct EA as (A1 & A2 & A3 & A4).
        assert (Hcom : v_com B W v <= length (d_blocks d)) by lia.
        assert (Hnew : t_new t <= length (d_blocks d)) by lia.
        assert (Hlen : length (d_blocks d) <= length (allb d v)) by (unfold allb; rewrite app_length; lia).
        assert (Hoff : t_off t - 1 < length (v_ws B W v)) by (unfold t_new in *; lia).
        split.
        * cbn [LedgerCrash.s_d LedgerCrash.s_m]. unfold dinv; simpl. split; [unfold t_new in *; lia|]. split; [lia|]. split; [|lia].
          rewrite V5 by exact Hoff.
          replace (v_dbr B W v + (t_off t - 1) + 1) with (t_new t) by (unfold t_new; lia).
          unfold allb. apply state_at_prefix. exact Hnew.
        * cbn [LedgerCrash.s_d LedgerCrash.s_m]. unfold vinv. rewrite Hall by reflexivity. simpl.
          split9; [> exact V1 | exact V2 | exact V3 | exact V4 | exact V5 | exact V6 | | exact V8 | exact I].
          unfold t_new in *. repeat split; auto; lia.
      + inversion Hs; subst; clear Hs. split; [unfold dinv; auto|].
        cbn [LedgerCrash.s_d LedgerCrash.s_m]. unfold vinv. rewrite Hall by reflexivity. simpl.
        split9; [> exact V1 | exact V2 | exact V3 | exact V4 | exact V5 | exact V6 | exact V7 | exact V8 | exact I].
    - (* OPost *)
      destruct m as [| |v]; try discriminate.
      destruct (v_phase B W v) eqn:EP; try discriminate.
      inversion Hs; subst; clear Hs. split; [exact HD|].
      destruct HV as (V1 & V2 & V3 & V4 & V5 & V6 & V7 & V8 & V9). rewrite EP in V7.
      destruct V7 as (P1 & P2 & P3 & P4).
      assert (Hall : allb d (mkVol B W (v_q B W v) (v_com B W v) (v_sync B W v) (t_new t) (skipn (t_off t) (v_ws B W v))
                               (v_top B W v) (v_re B W v) (v_chan B W v) (PUnlocked (post_trace cf t (d_cp d)))
                               (v_conf B W v) (v_added B W v)) = allb d v) by reflexivity.
      cbn [LedgerCrash.s_d LedgerCrash.s_m]. unfold vinv. rewrite Hall. simpl.
      split9; [> exact V1 | | exact V3 | | | exact V6 | exact P2 | exact V8 | exact V9].
      + destruct (v_sync B W v); auto. unfold t_new. lia.
      + rewrite skipn_length. unfold t_new in *. lia.
      + intros i Hi. rewrite skipn_length in Hi. rewrite nth_skipn. rewrite V5 by lia.
        f_equal. unfold t_new. lia.
    - (* OMicro *)
      destruct m as [|tr|v].
      + discriminate.
      + destruct tr; [discriminate|]. inversion Hs; subst; clear Hs. split; [exact HD|exact I].
      + destruct (v_phase B W v) eqn:EP; try discriminate. destruct tr; [discriminate|].
        inversion Hs; subst; clear Hs. split; [exact HD|].
        destruct HV as (V1 & V2 & V3 & V4 & V5 & V6 & V7 & V8 & V9). rewrite EP in V7.
        cbn [LedgerCrash.s_d LedgerCrash.s_m]. unfold vinv. simpl.
        split9; [> exact V1 | exact V2 | exact V3 | exact V4 | exact V5 | exact V6 | exact V7 | exact V8 | exact V9].
    - (* ODone *)
      destruct m as [| |v]; try discriminate.
      destruct (v_phase B W v) eqn:EP; try discriminate. destruct tr; [|discriminate].
      inversion Hs; subst; clear Hs. split; [exact HD|].
      destruct HV as (V1 & V2 & V3 & V4 & V5 & V6 & V7 & V8 & V9). rewrite EP in V7.
      cbn [LedgerCrash.s_d LedgerCrash.s_m]. unfold vinv. simpl.
      split9; [> exact V1 | exact V2 | exact V3 | exact V4 | exact V5 | exact V6 | exact V7 | exact V8 | exact V9].
    - (* OCrash *)
      inversion Hs; subst. split; [exact HD|exact I].
    - (* OOpen *)
      destruct m; try discriminate. destruct (can_open B W d); [|discriminate].
      inversion Hs; subst. split; [exact HD|exact I].
    - (* OReplay *)
      destruct m as [|tr|]; try discriminate. destruct tr; [|discriminate].
      inversion Hs; subst. split; [exact HD|]. apply opened_inv. exact HD.
    - (* OCommitFails *)
      destruct m as [| |v]; try discriminate.
      destruct (v_phase B W v) eqn:EP; try discriminate.
      destruct (v_chan B W v) as [t0|] eqn:EC; try discriminate.
      destruct (adjust (v_dbr B W v) t0); [|discriminate].
      inversion Hs; subst; clear Hs. split; [exact HD|].
      destruct HV as (V1 & V2 & V3 & V4 & V5 & V6 & V7 & V8 & V9). rewrite EP in V7.
      assert (Hall : allb d (mkVol B W (v_q B W v) (v_com B W v) (v_sync B W v) (v_dbr B W v) (v_ws B W v)
                               (v_top B W v) (v_re B W v) None PIdle (v_conf B W v) (v_added B W v)) = allb d v) by reflexivity.
      cbn [LedgerCrash.s_d LedgerCrash.s_m]. unfold vinv. rewrite Hall. simpl.
      split9; [> exact V1 | exact V2 | exact V3 | exact V4 | exact V5 | exact V6 | exact V7 | exact V8 | exact I].
    - (* OFlushFails *)
      destruct m as [| |v]; try discriminate.
      destruct (v_sync B W v); try discriminate. destruct (1 <=? _); [|discriminate].
      inversion Hs; subst. split; [exact HD|exact HV].
  Qed.

  (* a failed transaction leaves the disk exactly as it was *)
  Lemma failed_tx_durable_unchanged : forall s s',
    step s (OCommitFails B) = Some s' \/ step s (OFlushFails B) = Some s' -> s_d B W s' = s_d B W s.
  Proof.
    intros [d m] s' [Hs|Hs]; unfold LedgerCrash.step, LedgerCrash.upd_v in Hs; cbn [LedgerCrash.s_d LedgerCrash.s_m] in Hs;
      destruct m as [| |v]; try discriminate.
    - destruct (v_phase B W v); try discriminate. destruct (v_chan B W v); try discriminate.
      destruct (adjust _ _); [|discriminate]. inversion Hs; reflexivity.
    - destruct (v_sync B W v); try discriminate. destruct (1 <=? _); [|discriminate]. inversion Hs; reflexivity.
  Qed.

  Lemma inv_step' : forall s o, Inv s -> Inv (step' s o).
  Proof.
    intros s o H. unfold LedgerCrash.step'. destruct (step s o) eqn:E; [|exact H]. eapply inv_step; eauto.
  Qed.

  Lemma inv_run_from : forall ops s, Inv s -> Inv (run s ops).
  Proof.
    induction ops; intros s H; simpl; [exact H|]. apply IHops. apply inv_step'. exact H.
  Qed.

  Theorem inv_run : forall ops, Inv (run init ops).
  Proof. intros. apply inv_run_from. apply inv_init. Qed.

  (* ---------- the theorems about the two databases ---------- *)

  (* durable invariant, at every point of every execution (so also at every crash point) *)
  Theorem durable_inv : forall ops,
    let d := s_d B W (run init ops) in
    d_earliest d <= d_dbr d /\ d_dbr d <= length (d_blocks d) /\
    d_dbw d = state_at (d_blocks d) (d_dbr d) /\
    (d_dbr d = 0 \/ d_dbr d + c_L cf <= length (d_blocks d)).
  Proof. intros ops. destruct (inv_run ops) as [H _]. exact H. Qed.

  (* a round whose Wait fired is in the durable block table; the durable table is a prefix of
     the blocks the ledger has accepted *)
  Theorem confirmed_durable : forall ops v,
    s_m B W (run init ops) = Up B W v ->
    v_conf B W v <= length (d_blocks (s_d B W (run init ops))) /\
    exists queued, v_added B W v = d_blocks (s_d B W (run init ops)) ++ queued.
  Proof.
    intros ops v E. destruct (inv_run ops) as [_ H]. rewrite E in H.
    destruct H as (V1 & V2 & V3 & V4 & V5 & V6 & V7 & V8 & V9). split; [lia|].
    exists (rest v). exact V3.
  Qed.

  (* ---------- OpenLedger on a crashed disk ---------- *)
  Lemma run_app : forall a b s, run s (a ++ b) = run (run s a) b.
  Proof. intros. unfold LedgerCrash.run. apply fold_left_app. Qed.

  Lemma run_micro_rec : forall tr d,
    run (mkState B W d (Recovering B W tr)) (ops_micro B tr) = mkState B W (micro_all B W d tr) (Recovering B W []).
  Proof.
    induction tr; intros d; simpl; [reflexivity|].
    unfold LedgerCrash.step' at 1. simpl. apply IHtr.
  Qed.

  Definition set_phase (v : vol) (p : phase) : vol :=
    mkVol B W (v_q B W v) (v_com B W v) (v_sync B W v) (v_dbr B W v) (v_ws B W v) (v_top B W v) (v_re B W v)
          (v_chan B W v) p (v_conf B W v) (v_added B W v).

  Lemma run_micro_up : forall tr d v,
    v_phase B W v = PUnlocked tr ->
    run (mkState B W d (Up B W v)) (ops_micro B tr) =
    mkState B W (micro_all B W d tr) (Up B W (set_phase v (PUnlocked []))).
  Proof.
    induction tr; intros d v E; simpl.
    - destruct v; simpl in *; subst; reflexivity.
    - unfold LedgerCrash.step' at 1. simpl. rewrite E. simpl.
      rewrite IHtr by reflexivity. reflexivity.
  Qed.

  Lemma micro_all_blocks : forall tr d,
    d_blocks (micro_all B W d tr) = d_blocks d /\ d_earliest (micro_all B W d tr) = d_earliest d /\
    d_dbr (micro_all B W d tr) = d_dbr d /\ d_dbw (micro_all B W d tr) = d_dbw d /\
    d_cp (micro_all B W d tr) = last tr (d_cp d).
  Proof.
    induction tr; intros d; simpl; [auto|].
    destruct (IHtr (mkDur (d_blocks d) (d_earliest d) (d_dbr d) (d_dbw d) a)) as (H1 & H2 & H3 & H4 & H5).
    simpl in H1, H2, H3, H4, H5. repeat split; auto.
    rewrite H5. symmetry. apply last_cons.
  Qed.

  (* shape of the state in which OpenLedger returns *)
  Definition opened_ok (d0 : dur) (s : state) : Prop :=
    exists v, s_m B W s = Up B W v /\
      d_blocks (s_d B W s) = d_blocks d0 /\ d_earliest (s_d B W s) = d_earliest d0 /\
      v_q B W v = [] /\ v_sync B W v = SIdle /\ v_com B W v = length (d_blocks d0) /\
      v_phase B W v = PIdle /\ v_chan B W v = None /\
      d_dbr d0 <= d_dbr (s_d B W s).

  Lemma run_cons : forall s o ops, run s (o :: ops) = run (step' s o) ops.
  Proof. reflexivity. Qed.

  Lemma step'_open : forall d, can_open B W d = true ->
    step' (mkState B W d (Down B W)) (OOpen B) = mkState B W d (Recovering B W (recover_trace cf (d_dbr d) (d_cp d))).
  Proof. intros d H. unfold LedgerCrash.step', LedgerCrash.step. cbn [LedgerCrash.s_d LedgerCrash.s_m]. rewrite H. reflexivity. Qed.

  Lemma step'_replay : forall d,
    step' (mkState B W d (Recovering B W [])) (OReplay B) = mkState B W d (Up B W (opened d)).
  Proof. reflexivity. Qed.

  Definition commit_dur (d : dur) (v : vol) (t : task) : dur :=
    mkDur (d_blocks d) (d_earliest d) (t_new t) (nth (t_off t - 1) (v_ws B W v) (v_top B W v)) (commit_cp cf t (d_cp d)).
  Definition set_chan_phase (v : vol) (p : phase) : vol :=
    mkVol B W (v_q B W v) (v_com B W v) (v_sync B W v) (v_dbr B W v) (v_ws B W v) (v_top B W v) (v_re B W v)
          None p (v_conf B W v) (v_added B W v).
  Definition posted (v : vol) (t : task) (p : phase) : vol :=
    mkVol B W (v_q B W v) (v_com B W v) (v_sync B W v) (t_new t) (skipn (t_off t) (v_ws B W v)) (v_top B W v) (v_re B W v)
          (v_chan B W v) p (v_conf B W v) (v_added B W v).

  Lemma step'_commit_some : forall d v t0 t,
    v_phase B W v = PIdle -> v_chan B W v = Some t0 -> adjust (v_dbr B W v) t0 = Some t ->
    step' (mkState B W d (Up B W v)) (OCommit B) = mkState B W (commit_dur d v t) (Up B W (set_chan_phase v (PPostTx t))).
  Proof.
    intros d v t0 t H1 H2 H3. unfold LedgerCrash.step', LedgerCrash.step. cbn [LedgerCrash.s_d LedgerCrash.s_m].
    rewrite H1, H2, H3. reflexivity.
  Qed.

  Lemma step'_commit_none : forall d v t0,
    v_phase B W v = PIdle -> v_chan B W v = Some t0 -> adjust (v_dbr B W v) t0 = None ->
    step' (mkState B W d (Up B W v)) (OCommit B) = mkState B W d (Up B W (set_chan_phase v PIdle)).
  Proof.
    intros d v t0 H1 H2 H3. unfold LedgerCrash.step', LedgerCrash.step. cbn [LedgerCrash.s_d LedgerCrash.s_m].
    rewrite H1, H2, H3. reflexivity.
  Qed.

  Lemma step'_post : forall d v t,
    v_phase B W v = PPostTx t ->
    step' (mkState B W d (Up B W v)) (OPost B) = mkState B W d (Up B W (posted v t (PUnlocked (post_trace cf t (d_cp d))))).
  Proof.
    intros d v t H1. unfold LedgerCrash.step', LedgerCrash.step. cbn [LedgerCrash.s_d LedgerCrash.s_m].
    rewrite H1. reflexivity.
  Qed.

  Lemma step'_done : forall d v,
    v_phase B W v = PUnlocked [] ->
    step' (mkState B W d (Up B W v)) (ODone B) = mkState B W d (Up B W (set_phase v PIdle)).
  Proof.
    intros d v H1. unfold LedgerCrash.step', LedgerCrash.step. cbn [LedgerCrash.s_d LedgerCrash.s_m].
    rewrite H1. reflexivity.
  Qed.

  Lemma open_full_shape : forall d, dinv d -> opened_ok d (open_full B W apply cf d).
  Proof.
    intros d HD. pose proof HD as (D1 & D2 & D3 & D4).
    unfold LedgerCrash.open_full, LedgerCrash.open_ops. cbv zeta.
    set (tr := recover_trace cf (d_dbr d) (d_cp d)).
    set (d1 := micro_all B W d tr).
    destruct (micro_all_blocks tr d) as (M1 & M2 & M3 & M4 & M5). fold d1 in M1, M2, M3, M4, M5.
    assert (Hco : can_open B W d = true).
    { unfold can_open. apply andb_true_intro. split; apply Nat.leb_le; lia. }
    change ([OOpen B] ++ ops_micro B tr ++ [OReplay B] ++ ?x) with (OOpen B :: (ops_micro B tr ++ (OReplay B :: x))).
    rewrite run_cons, (step'_open d Hco). fold tr.
    rewrite run_app, run_micro_rec. fold d1.
    rewrite run_cons, step'_replay.
    assert (HD1 : dinv d1).
    { unfold dinv. rewrite M1, M2, M3, M4. exact HD. }
    set (v := opened d1).
    assert (Hv : v_q B W v = [] /\ v_sync B W v = SIdle /\ v_com B W v = length (d_blocks d1) /\
                 v_phase B W v = PIdle /\ v_dbr B W v = d_dbr d1) by (unfold v, LedgerCrash.opened; simpl; auto).
    destruct Hv as (Q1 & Q2 & Q3 & Q4 & Q5).
    destruct (v_chan B W v) as [t0|] eqn:EC.
    - destruct (adjust (v_dbr B W v) t0) as [t|] eqn:EA.
      + (* the commit issued by replay runs to completion *)
        change ([OCommit B; OPost B] ++ ?x ++ [ODone B]) with (OCommit B :: OPost B :: (x ++ [ODone B])).
        rewrite run_cons, (step'_commit_some d1 v t0 t Q4 EC EA).
        rewrite run_cons, (step'_post _ _ t) by reflexivity.
        rewrite run_app, run_micro_up by reflexivity.
        rewrite run_cons, step'_done by reflexivity.
        match goal with |- context [micro_all B W ?dd ?tt] => destruct (micro_all_blocks tt dd) as (N1 & N2 & N3 & N4 & N5) end.
        simpl in N1, N2, N3. apply adjust_spec in EA. destruct EA as (A1 & A2 & A3 & A4).
        eexists. split; [reflexivity|]. cbn [LedgerCrash.s_d LedgerCrash.s_m LedgerCrash.run fold_left].
        rewrite N1, N2, N3. simpl. rewrite M1, M2.
        repeat split; auto. unfold t_new. rewrite A1, Q5, M3. lia.
      + rewrite run_cons, (step'_commit_none d1 v t0 Q4 EC EA).
        eexists. split; [reflexivity|]. rewrite M1 in Q3. cbn [LedgerCrash.s_d LedgerCrash.s_m LedgerCrash.run fold_left].
        unfold set_chan_phase; simpl. rewrite M1, M2, M3. repeat split; auto.
    - eexists. split; [reflexivity|]. rewrite M1 in Q3. cbn [LedgerCrash.s_d LedgerCrash.s_m LedgerCrash.run fold_left].
      rewrite M1, M2, M3. repeat split; auto.
  Qed.

  (* recover_prefix: for EVERY execution (any interleaving of adds, flushes, commits, crashes
     and reopens, hence any crash point), OpenLedger on the disk as it is at that moment
     succeeds, holds exactly the durable blocks, and serves, for every round from its tracker
     DB round to the latest, the state obtained by replaying exactly that prefix from genesis. *)
  Theorem recover_prefix : forall ops,
    let d := s_d B W (run init ops) in
    let s' := open_full B W apply cf d in
    exists v, s_m B W s' = Up B W v /\
      d_blocks (s_d B W s') = d_blocks d /\
      v_latest B W v = length (d_blocks d) /\ v_added B W v = d_blocks d /\
      d_dbr d <= d_dbr (s_d B W s') /\
      forall r, d_dbr (s_d B W s') <= r <= length (d_blocks d) ->
        lookup B W (s_d B W s') v r = Some (state_at (d_blocks d) r).
  Proof.
    intros ops d s'.
    assert (HD : dinv d) by (destruct (inv_run ops) as [H _]; exact H).
    destruct (open_full_shape d HD) as (v & Em & Eb & Ee & Eq & Es & Ec & Ep & Ech & Edbr).
    fold s' in Em, Eb, Ee, Edbr.
    assert (HI : Inv s').
    { unfold s', LedgerCrash.open_full. apply inv_run_from. split; [exact HD|exact I]. }
    destruct HI as [HD' HV']. rewrite Em in HV'.
    destruct HV' as (V1 & V2 & V3 & V4 & V5 & V6 & V7 & V8 & V9).
    rewrite Ep in V7.
    assert (Hall : allb (s_d B W s') v = d_blocks d).
    { unfold allb, rest. rewrite Es, Eq, Eb. apply app_nil_r. }
    rewrite Hall in *.
    exists v. split; [exact Em|]. split; [exact Eb|].
    split; [unfold v_latest; rewrite Eq, Ec; simpl; lia|].
    split; [exact V3|]. split; [exact Edbr|].
    intros r [Hr1 Hr2]. unfold lookup. rewrite V7 in *.
    destruct (r <? v_dbr B W v) eqn:E1; [apply Nat.ltb_lt in E1; lia|].
    destruct (r =? v_dbr B W v) eqn:E2.
    - apply Nat.eqb_eq in E2. subst r. rewrite Nat.eqb_refl.
      destruct HD' as (_ & _ & D3 & _). rewrite D3, Eb, V7. reflexivity.
    - apply Nat.eqb_neq in E2.
      assert (Hi : r - v_dbr B W v - 1 < length (v_ws B W v)) by lia.
      rewrite (nth_error_nth' _ (v_top B W v) Hi). rewrite V5 by exact Hi. f_equal. f_equal. lia.
  Qed.

End Proofs.
