(* C37: soundness of the verification loop against a real tree (chain of layers), for an
   injective, domain-separating, never-zero hash.  Generic in the predicate [isleaf] that
   describes the digests of the bottom layer. *)
From Coq Require Import NArith List Bool Arith Lia ZifyN ZifyNat ZifyBool Sorted.
From Verif.model Require Import MerkleArray.
From Verif.proofs Require Import MerkleArrayBasics MerkleArrayStruct.
Import ListNotations.

Lemma nth0_hd : forall {A} (l : list A) d, nth 0 l d = hd d l.
Proof. intros A [|x l] d; reflexivity. Qed.

Section Sound.
  Variable s : nat.
  Variable hnode : list N -> digest.
  Hypothesis Hlen_node : forall b, length (hnode b) = s.
  Hypothesis Hinj_node : forall b1 b2, length b1 = (2 * s)%nat -> length b2 = (2 * s)%nat ->
                                       hnode b1 = hnode b2 -> b1 = b2.
  Hypothesis Hnz_node : forall b, hnode b <> zeros s.
  Variable isleaf : digest -> Prop.
  Hypothesis Hsep : forall h b, isleaf h -> h <> hnode b.
  Hypothesis Hleaf_len : forall h, isleaf h -> length h = s.
  Hypothesis Hleaf_nz : forall h, isleaf h -> h <> zeros s.

  Notation pairbuf := (pairbuf s).
  Notation hpair := (hpair s hnode).
  Notation nextLayer := (nextLayer s hnode).
  Notation combine := (combine s hnode).
  Notation upV := (upV s hnode).
  Notation vloop := (vloop s hnode).
  Notation chain := (chain s hnode).
  Notation lenS := (lenS s).
  Notation nextLayer_length := (nextLayer_length s hnode Hlen_node).
  Notation nth_nextLayer := (nth_nextLayer s hnode Hlen_node).
  Notation pairbuf_length := (pairbuf_length s hnode Hlen_node).
  Notation chain_nonempty := (chain_nonempty s hnode Hlen_node).
  Notation chain_last_len := (chain_last_len s hnode Hlen_node).
  Notation upV_cases := (upV_cases s hnode Hlen_node).
  Notation upV_paired := (upV_paired s hnode Hlen_node).
  Notation upV_hint := (upV_hint s hnode Hlen_node).
  Notation upV_props := (upV_props s hnode Hlen_node).
  Notation upV_err_not_ok := (upV_err_not_ok s hnode Hlen_node).
  Notation vloop_unfold := (vloop_unfold s hnode Hlen_node).

  Definition good (h : digest) : Prop := length h = s /\ h <> zeros s.
  Definition hintok (h : digest) : Prop := h = [] \/ length h = s.

  Lemma hpair_good : forall l r, good (hpair l r).
  Proof. intros. split; [apply Hlen_node | apply Hnz_node]. Qed.

  (* ---- pairbuf on the admissible lengths ---- *)
  Lemma pb_ss : forall l r, length l = s -> length r = s -> pairbuf l r = l ++ r.
  Proof.
    intros l r Hl Hr. unfold MerkleArray.pairbuf. rewrite app_assoc.
    apply firstn_app_exact. rewrite app_length. lia.
  Qed.

  Lemma pb_s0 : forall l, length l = s -> pairbuf l [] = l ++ zeros s.
  Proof.
    intros l Hl. unfold MerkleArray.pairbuf. cbn [app].
    replace (2 * s)%nat with (s + s)%nat by lia. rewrite zeros_app, app_assoc.
    apply firstn_app_exact. rewrite app_length, zeros_length. lia.
  Qed.

  Lemma pb_0s : forall r, length r = s -> pairbuf [] r = r ++ zeros s.
  Proof.
    intros r Hr. unfold MerkleArray.pairbuf. cbn [app].
    replace (2 * s)%nat with (s + s)%nat at 2 by lia. rewrite zeros_app, app_assoc.
    apply firstn_app_exact. rewrite app_length, zeros_length. lia.
  Qed.

  (* second half of the buffer for a right child that exists (good) or not ([]) *)
  Definition half2 (r : digest) : digest := match r with [] => zeros s | _ => r end.

  Lemma pb_left : forall l r, length l = s -> (r = [] \/ length r = s) -> pairbuf l r = l ++ half2 r.
  Proof.
    intros l r Hl [->|Hr]; [apply pb_s0; assumption|].
    rewrite pb_ss by assumption. destruct r; [|reflexivity].
    cbn in Hr. cbn [half2]. rewrite <- Hr. reflexivity.
  Qed.

  Lemma good_ne_nil : forall r, length r = s -> r <> zeros s -> r <> [].
  Proof. intros r Hl Hz ->. apply Hz. cbn in Hl. rewrite <- Hl. reflexivity. Qed.

  Lemma good_half2 : forall r, length r = s -> r <> zeros s -> half2 r = r.
  Proof. intros r Hl Hz. destruct r; [exfalso; eapply good_ne_nil; eauto | reflexivity]. Qed.

  Lemma half2_len : forall r, (r = [] \/ length r = s) -> length (half2 r) = s.
  Proof.
    intros r [->|Hr]; [apply zeros_length|]. destruct r; [|exact Hr].
    cbn [half2]. apply zeros_length.
  Qed.

  (* ---- the real tree ---- *)
  Variable lv : list (list digest).
  Hypothesis Hchain : chain lv.
  Hypothesis Hleaves : Forall isleaf (hd [] lv).

  Definition L (k : nat) : list digest := nth k lv [].
  Definition full : Prop := forall k, (S k < length lv)%nat -> length (L k) = (2 * length (L (S k)))%nat.

  Lemma chain_next_gen : forall l, chain l -> forall k, (S k < length l)%nat ->
    nth (S k) l [] = nextLayer (nth k l []).
  Proof.
    induction 1 as [top Ht | l rest Hl Hc IH]; intros k Hk; [cbn in Hk; lia|].
    destruct k as [|k]; [reflexivity|].
    change (nth (S (S k)) (l :: nextLayer l :: rest) []) with (nth (S k) (nextLayer l :: rest) []).
    change (nth (S k) (l :: nextLayer l :: rest) []) with (nth k (nextLayer l :: rest) []).
    apply IH. cbn [length] in *. lia.
  Qed.

  Lemma L_next : forall k, (S k < length lv)%nat -> L (S k) = nextLayer (L k).
  Proof. intros. apply chain_next_gen; assumption. Qed.

  Lemma chain_last_nth : forall l, chain l -> nth (length l - 1) l [] = last l [].
  Proof.
    induction 1 as [top Ht | l rest Hl Hc IH]; [reflexivity|].
    change (last (l :: nextLayer l :: rest) []) with (last (nextLayer l :: rest) []).
    rewrite <- IH. cbn [length]. replace (S (S (length rest)) - 1)%nat with (S (length rest)) by lia.
    replace (S (length rest) - 1)%nat with (length rest) by lia. reflexivity.
  Qed.

  Lemma L_node : forall k h, (S k < length lv)%nat -> In h (L (S k)) -> exists b, h = hnode b.
  Proof.
    intros k h Hk Hin. rewrite (L_next k Hk) in Hin.
    destruct (In_nth _ _ [] Hin) as (j & Hj & <-).
    rewrite nth_nextLayer by assumption. unfold MerkleArray.hpair. eauto.
  Qed.

  Lemma L_good : forall k h, (k < length lv)%nat -> In h (L k) -> good h.
  Proof.
    intros [|k] h Hk Hin.
    - unfold L in Hin. rewrite nth0_hd in Hin. rewrite Forall_forall in Hleaves.
      specialize (Hleaves h Hin). split; [apply Hleaf_len | apply Hleaf_nz]; assumption.
    - destruct (L_node k h Hk Hin) as [b ->]. split; [apply Hlen_node | apply Hnz_node].
  Qed.

  (* children of a real node *)
  Lemma decode : forall k j, (S k < length lv)%nat -> (j < length (L (S k)))%nat ->
    nth j (L (S k)) [] = hpair (nth (2 * j) (L k) []) (nth (2 * j + 1) (L k) []) /\
    good (nth (2 * j) (L k) []) /\ (2 * j < length (L k))%nat /\
    (((2 * j + 1 < length (L k))%nat /\ good (nth (2 * j + 1) (L k) [])) \/
     ((length (L k) <= 2 * j + 1)%nat /\ nth (2 * j + 1) (L k) [] = [])).
  Proof.
    intros k j Hk Hj. rewrite (L_next k Hk) in *.
    split; [apply nth_nextLayer; assumption|].
    rewrite nextLayer_length in Hj.
    assert (H2j : (2 * j < length (L k))%nat).
    { rewrite Nat.div2_div in Hj.
      pose proof (Nat.div_mod (length (L k) + 1) 2 ltac:(lia)).
      pose proof (Nat.mod_upper_bound (length (L k) + 1) 2 ltac:(lia)). lia. }
    split; [apply (L_good k); [lia | apply nth_In; assumption]|].
    split; [assumption|].
    destruct (Nat.lt_ge_cases (2 * j + 1) (length (L k))).
    - left. split; [assumption|]. apply (L_good k); [lia | apply nth_In; assumption].
    - right. split; [assumption | apply nth_overflow; assumption].
  Qed.

  (* ---- what one accepted combination says about its inputs ---- *)
  Lemma step_decode : forall k j p h sib nh,
    (S k < length lv)%nat -> (j < length (L (S k)))%nat -> nth j (L (S k)) [] = nh ->
    good h -> hintok sib -> combine p h sib = Some nh ->
    (N.even p = true ->
       h = nth (2 * j) (L k) [] /\
       (length sib = s -> sib <> zeros s ->
          sib = nth (2 * j + 1) (L k) [] /\ (2 * j + 1 < length (L k))%nat)) /\
    (N.even p = false ->
       (length sib = s -> sib <> [] ->
          h = nth (2 * j + 1) (L k) [] /\ (2 * j + 1 < length (L k))%nat /\ sib = nth (2 * j) (L k) []) /\
       (sib = [] -> h = nth (2 * j) (L k) [] /\ (length (L k) <= 2 * j + 1)%nat)).
  Proof.
    intros k j p h sib nh Hk Hj Hnh [Hhl Hhz] Hsib Hc.
    destruct (decode k j Hk Hj) as (Enode & [HAl HAz] & H2j & HB).
    set (A := nth (2 * j) (L k) []) in *. set (B := nth (2 * j + 1) (L k) []) in *.
    assert (HBok : B = [] \/ length B = s) by (destruct HB as [[_ [? _]]|[_ ?]]; tauto).
    assert (EAB : pairbuf A B = A ++ half2 B) by (apply pb_left; assumption).
    unfold MerkleArray.combine in Hc.
    split; intros Ev; rewrite Ev in Hc.
    - (* we are the left child *)
      rewrite Hhl in Hc. destruct (Nat.ltb_spec (2 * s) s); [lia|].
      inversion Hc as [Hc']. rewrite <- Hnh, Enode in Hc'. unfold MerkleArray.hpair in Hc'.
      apply Hinj_node in Hc'; try apply pairbuf_length.
      rewrite EAB, (pb_left h sib Hhl Hsib) in Hc'.
      apply app_inj_len in Hc'; [|lia]. destruct Hc' as [E1 E2].
      split; [exact E1|]. intros Hsl Hsz.
      assert (half2 sib = sib) by (apply good_half2; assumption).
      destruct HB as [[HBlt [HBl HBz]]|[HBge HBe]].
      + assert (half2 B = B) by (apply good_half2; assumption).
        split; [congruence | assumption].
      + fold B in HBe. rewrite HBe in E2. cbn in E2. congruence.
    - (* we are the right child *)
      split.
      + intros Hsl Hsne.
        rewrite Hsl in Hc. destruct (Nat.ltb_spec (2 * s) s); [lia|].
        inversion Hc as [Hc']. rewrite <- Hnh, Enode in Hc'. unfold MerkleArray.hpair in Hc'.
        apply Hinj_node in Hc'; try apply pairbuf_length.
        rewrite EAB, (pb_ss sib h Hsl Hhl) in Hc'.
        apply app_inj_len in Hc'; [|lia]. destruct Hc' as [E1 E2].
        destruct HB as [[HBlt [HBl HBz]]|[HBge HBe]].
        * assert (half2 B = B) by (apply good_half2; assumption).
          repeat split; [congruence | assumption | exact E1].
        * fold B in HBe. rewrite HBe in E2. cbn in E2. congruence.
      + intros ->. cbn [length] in Hc. destruct (Nat.ltb_spec (2 * s) 0); [lia|].
        inversion Hc as [Hc']. rewrite <- Hnh, Enode in Hc'. unfold MerkleArray.hpair in Hc'.
        apply Hinj_node in Hc'; try apply pairbuf_length.
        rewrite EAB, (pb_0s h Hhl) in Hc'.
        apply app_inj_len in Hc'; [|lia]. destruct Hc' as [E1 E2].
        split; [exact E1|].
        destruct HB as [[HBlt [HBl HBz]]|[HBge HBe]]; [|assumption].
        assert (half2 B = B) by (apply good_half2; assumption).
        congruence.
  Qed.

  (* the invariant: an item of the partial layer is a true node of level k *)
  Definition Phi (k : nat) (it : N * digest) : Prop :=
    In (snd it) (L k) /\
    ((N.to_nat (fst it) < length (L k))%nat -> nth (N.to_nat (fst it)) (L k) [] = snd it) /\
    (full -> (N.to_nat (fst it) < length (L k))%nat).

  Lemma half_lt_next : forall k i, (S k < length lv)%nat -> (i < length (L k))%nat ->
    (Nat.div2 i < length (L (S k)))%nat.
  Proof. intros k i Hk Hi. rewrite (L_next k Hk), nextLayer_length. apply div2_lt_half. assumption. Qed.

  Lemma lxor1_half : forall p, (N.lxor p 1 / 2 = p / 2)%N.
  Proof.
    intros p. destruct (N.even p) eqn:Ev.
    - rewrite (lxor1_even p Ev). apply N.even_spec in Ev. destruct Ev as [q ->].
      rewrite (N.mul_comm 2 q), N.div_mul by lia.
      replace (q * 2 + 1)%N with (1 + q * 2)%N by lia. rewrite N.div_add by lia. reflexivity.
    - destruct (lxor1_odd p Ev) as [-> H1]. rewrite <- N.negb_odd in Ev.
      apply negb_false_iff, N.odd_spec in Ev. destruct Ev as [q ->].
      replace (2 * q + 1 - 1)%N with (q * 2)%N by lia. rewrite N.div_mul by lia.
      replace (2 * q + 1)%N with (1 + q * 2)%N by lia. rewrite N.div_add by lia. reflexivity.
  Qed.

  Lemma step_Phi : forall k p h sib nh,
    (S k < length lv)%nat -> good h -> hintok sib -> combine p h sib = Some nh ->
    Phi (S k) ((p / 2)%N, nh) ->
    Phi k (p, h) /\ (good sib -> Phi k (N.lxor p 1, sib)).
  Proof.
    intros k p h sib nh Hk Hh Hsib Hc (HIn & Hpos & Hfull). cbn [fst snd] in *.
    destruct (In_nth _ _ [] HIn) as (j & Hj & Hnj).
    pose proof (step_decode k j p h sib nh Hk Hj Hnj Hh Hsib Hc) as [DEv DOd].
    assert (Hgs : good sib -> length sib = s /\ sib <> zeros s /\ sib <> []).
    { intros [G1 G2]. repeat split; try assumption. apply good_ne_nil; assumption. }
    (* facts with j := position of the parent, available when the parent is in range *)
    assert (Hparent : (Nat.div2 (N.to_nat p) < length (L (S k)))%nat ->
                      nth (Nat.div2 (N.to_nat p)) (L (S k)) [] = nh).
    { intros H. rewrite <- half_to_nat in *. apply Hpos. assumption. }
    split.
    - (* the item itself *)
      unfold Phi. cbn [fst snd]. split; [|split].
      + destruct (N.even p) eqn:Ev.
        * destruct (DEv eq_refl) as [-> _]. apply nth_In.
          destruct (decode k j Hk Hj) as (_ & _ & ? & _). assumption.
        * destruct (DOd eq_refl) as [D1 D2]. destruct Hsib as [->|Hsl].
          -- destruct (D2 eq_refl) as [-> _]. apply nth_In.
             destruct (decode k j Hk Hj) as (_ & _ & ? & _). assumption.
          -- destruct sib as [|x sib'] eqn:Es.
             ++ destruct (D2 eq_refl) as [-> _]. apply nth_In.
                destruct (decode k j Hk Hj) as (_ & _ & ? & _). assumption.
             ++ destruct (D1 Hsl ltac:(discriminate)) as (-> & ? & _). apply nth_In. assumption.
      + intros Hp. pose proof (half_lt_next k _ Hk Hp) as Hq.
        pose proof (step_decode k _ p h sib nh Hk Hq (Hparent Hq) Hh Hsib Hc) as [PEv POd].
        destruct (N.even p) eqn:Ev.
        * destruct (PEv eq_refl) as [E _]. rewrite even_to_nat in Ev.
          rewrite E. f_equal. apply even_double_div2. exact Ev.
        * destruct (POd eq_refl) as [D1 D2]. rewrite even_to_nat in Ev.
          pose proof (odd_double_div2 _ Ev) as E2.
          destruct sib as [|x sib'] eqn:Es.
          -- destruct (D2 eq_refl) as [_ Hge]. lia.
          -- destruct Hsib as [?|Hsl]; [discriminate|].
             destruct (D1 Hsl ltac:(discriminate)) as (E & _ & _). rewrite E. f_equal. exact E2.
      + intros Hf. specialize (Hfull Hf). rewrite (Hf k Hk). rewrite half_to_nat in Hfull.
        rewrite Nat.div2_div in Hfull.
        pose proof (Nat.div_mod (N.to_nat p) 2 ltac:(lia)).
        pose proof (Nat.mod_upper_bound (N.to_nat p) 2 ltac:(lia)). lia.
    - (* a sibling taken from the partial layer *)
      intros Hgsib. destruct (Hgs Hgsib) as (Hsl & Hsz & Hsne).
      unfold Phi. cbn [fst snd]. split; [|split].
      + destruct (N.even p) eqn:Ev.
        * destruct (DEv eq_refl) as [_ D]. destruct (D Hsl Hsz) as [-> ?]. apply nth_In. assumption.
        * destruct (DOd eq_refl) as [D1 _]. destruct (D1 Hsl Hsne) as (_ & _ & ->). apply nth_In.
          destruct (decode k j Hk Hj) as (_ & _ & ? & _). assumption.
      + intros Hp.
        assert (Hq : (Nat.div2 (N.to_nat p) < length (L (S k)))%nat).
        { pose proof (half_lt_next k _ Hk Hp) as H. rewrite <- half_to_nat, lxor1_half, half_to_nat in H. exact H. }
        pose proof (step_decode k _ p h sib nh Hk Hq (Hparent Hq) Hh Hsib Hc) as [PEv POd].
        destruct (N.even p) eqn:Ev.
        * destruct (PEv eq_refl) as [_ D]. destruct (D Hsl Hsz) as [E _].
          rewrite E. rewrite (lxor1_even p Ev). rewrite even_to_nat in Ev.
          pose proof (even_double_div2 _ Ev). f_equal. lia.
        * destruct (POd eq_refl) as [D1 _]. destruct (D1 Hsl Hsne) as (_ & _ & E).
          rewrite E. destruct (lxor1_odd p Ev) as [-> H1]. rewrite even_to_nat in Ev.
          pose proof (odd_double_div2 _ Ev). f_equal. lia.
      + intros Hf. specialize (Hfull Hf). rewrite (Hf k Hk). rewrite half_to_nat in Hfull.
        rewrite Nat.div2_div in Hfull.
        assert (N.to_nat (N.lxor p 1) / 2 = N.to_nat p / 2)%nat.
        { rewrite <- !Nat.div2_div, <- !half_to_nat, lxor1_half. reflexivity. }
        pose proof (Nat.div_mod (N.to_nat (N.lxor p 1)) 2 ltac:(lia)).
        pose proof (Nat.mod_upper_bound (N.to_nat (N.lxor p 1)) 2 ltac:(lia)). lia.
  Qed.

  Lemma upV_sound_step : forall k, (S k < length lv)%nat ->
    forall n pl hints pl' hints', (length pl <= n)%nat ->
      (forall it, In it pl -> good (snd it)) -> Forall hintok hints ->
      upV pl hints = inl (pl', hints') ->
      (forall it, In it pl' -> Phi (S k) it) -> forall it, In it pl -> Phi k it.
  Proof.
    intros k Hk. induction n as [|n IH]; intros pl hints pl' hints' Hn Hg Hh Hu HP it Hit.
    - destruct pl; [destruct Hit | cbn in Hn; lia].
    - destruct pl as [|[pos h] rest]; [destruct Hit|].
      destruct (upV_cases pos rest) as [(h2 & rest2 & ->)|Hnp].
      + rewrite upV_paired in Hu. destruct (combine pos h h2) as [nh|] eqn:Ec; [|discriminate].
        destruct (upV rest2 hints) as [[r hs]|e] eqn:Er; [|discriminate]. cbn in Hu. inversion Hu; subst.
        assert (G2 : good h2) by (apply (Hg (N.lxor pos 1, h2)); right; left; reflexivity).
        destruct (step_Phi k pos h h2 nh Hk (Hg (pos, h) (or_introl eq_refl)) (or_intror (proj1 G2)) Ec
                           (HP _ (or_introl eq_refl))) as [P1 P2].
        destruct Hit as [<-|[<-|Hit]]; [exact P1 | exact (P2 G2) |].
        apply (IH rest2 hints r hints'); try assumption.
        * cbn [length] in Hn. lia.
        * intros it' Hit'. apply Hg. right. right. assumption.
        * intros it' Hit'. apply HP. right. assumption.
      + rewrite upV_hint in Hu by assumption.
        destruct hints as [|sh hints1]; [discriminate|]. cbn [MerkleArray.stepHint] in Hu.
        destruct (combine pos h sh) as [nh|] eqn:Ec; [|discriminate].
        destruct (upV rest hints1) as [[r hs]|e] eqn:Er; [|discriminate]. cbn in Hu. inversion Hu; subst.
        inversion Hh as [|? ? Hsh Hh1]; subst.
        destruct (step_Phi k pos h sh nh Hk (Hg (pos, h) (or_introl eq_refl)) Hsh Ec
                           (HP _ (or_introl eq_refl))) as [P1 _].
        destruct Hit as [<-|Hit]; [exact P1|].
        apply (IH rest hints1 r hints'); try assumption.
        * cbn [length] in Hn. lia.
        * intros it' Hit'. apply Hg. right. assumption.
        * intros it' Hit'. apply HP. right. assumption.
  Qed.

  Lemma vloop_sound : forall fuel pl hints, pl <> [] ->
    (forall it, In it pl -> good (snd it)) -> Forall hintok hints ->
    vloop fuel (hd [] (last lv [])) pl hints = VOk ->
    exists k, (k < length lv)%nat /\ forall it, In it pl -> Phi k it.
  Proof.
    induction fuel as [|f IH]; intros pl hints Hne Hg Hh Hv; rewrite vloop_unfold in Hv.
    - destruct hints; [|discriminate]. destruct (Nat.leb_spec (length pl) 1); [|discriminate].
      (* stop: pl = [(0, root)] *)
      destruct pl as [|[p h] [|? ?]]; [contradiction | | cbn in *; lia].
      unfold inspectRoot in Hv. destruct (N.eqb_spec p 0); [|discriminate]. cbn [andb] in Hv.
      destruct (digest_eqb h _) eqn:Ed; [|discriminate]. apply digest_eqb_eq in Ed. subst p h.
      exists (length lv - 1)%nat.
      pose proof (chain_nonempty lv Hchain). pose proof (chain_last_len lv Hchain) as Hll.
      split; [destruct lv; [contradiction | cbn; lia]|].
      intros it [<-|[]]. unfold Phi, L. cbn [fst snd]. rewrite (chain_last_nth lv Hchain).
      destruct (last lv []) as [|t [|? ?]]; try (cbn in Hll; lia).
      cbn. repeat split; auto; lia.
    - assert (Hcont : match upV pl hints with
                      | inr e => e
                      | inl (pl', hints') => vloop f (hd [] (last lv [])) pl' hints'
                      end = VOk \/
                      (hints = [] /\ (length pl <= 1)%nat /\ inspectRoot (hd [] (last lv [])) pl = VOk)).
      { destruct hints; [|left; exact Hv]. destruct (Nat.leb_spec (length pl) 1); [right; auto | left; exact Hv]. }
      destruct Hcont as [Hc|(-> & Hl & Hi)].
      + destruct (upV pl hints) as [[pl' hints']|e] eqn:Eu;
          [|exfalso; apply (upV_err_not_ok (length pl) pl hints e (le_n _) Eu); exact Hc].
        destruct (upV_props (length pl) pl hints pl' hints' (le_n _) Eu) as (Hnode & (used & Hused) & Hne' & _).
        assert (Hh' : Forall hintok hints') by (rewrite Hused in Hh; apply Forall_app in Hh; tauto).
        assert (Hg' : forall it, In it pl' -> good (snd it)).
        { intros it Hit. destruct (Hnode it Hit) as [b ->]. split; [apply Hlen_node | apply Hnz_node]. }
        destruct (IH pl' hints' (Hne' Hne) Hg' Hh' Hc) as (k' & Hk' & HP').
        destruct k' as [|k].
        * (* level 0 holds leaves, the new items are internal nodes *)
          exfalso. destruct pl' as [|it pl'']; [apply (Hne' Hne); reflexivity|].
          destruct (Hnode it (or_introl eq_refl)) as [b Hb].
          destruct (HP' it (or_introl eq_refl)) as (HIn & _). rewrite Hb in HIn.
          unfold L in HIn. rewrite nth0_hd in HIn. rewrite Forall_forall in Hleaves.
          apply (Hsep _ b (Hleaves _ HIn)). reflexivity.
        * exists k. split; [lia|].
          apply (upV_sound_step k Hk' (length pl) pl hints pl' hints'); auto.
      + (* fuel left but the loop stops *)
        destruct pl as [|[p h] [|? ?]]; [contradiction | | cbn in *; lia].
        unfold inspectRoot in Hi. destruct (N.eqb_spec p 0); [|discriminate]. cbn [andb] in Hi.
        destruct (digest_eqb h _) eqn:Ed; [|discriminate]. apply digest_eqb_eq in Ed. subst p h.
        exists (length lv - 1)%nat.
        pose proof (chain_nonempty lv Hchain). pose proof (chain_last_len lv Hchain) as Hll.
        split; [destruct lv; [contradiction | cbn; lia]|].
        intros it [<-|[]]. unfold Phi, L. cbn [fst snd]. rewrite (chain_last_nth lv Hchain).
        destruct (last lv []) as [|t [|? ?]]; try (cbn in Hll; lia).
        cbn. repeat split; auto; lia.
  Qed.

  (* claims are leaf digests, so the common level is the bottom one *)
  Theorem sound_core : forall fuel pl hints, pl <> [] ->
    (forall it, In it pl -> isleaf (snd it)) -> Forall hintok hints ->
    vloop fuel (hd [] (last lv [])) pl hints = VOk ->
    forall it, In it pl ->
      In (snd it) (hd [] lv) /\
      ((N.to_nat (fst it) < length (hd [] lv))%nat -> nth (N.to_nat (fst it)) (hd [] lv) [] = snd it) /\
      (full -> (N.to_nat (fst it) < length (hd [] lv))%nat).
  Proof.
    intros fuel pl hints Hne Hl Hh Hv.
    assert (Hg : forall it, In it pl -> good (snd it)).
    { intros it Hit. split; [apply Hleaf_len | apply Hleaf_nz]; apply Hl; assumption. }
    destruct (vloop_sound fuel pl hints Hne Hg Hh Hv) as (k & Hk & HP).
    destruct k as [|k].
    - intros it Hit. specialize (HP it Hit). unfold Phi, L in HP. rewrite nth0_hd in HP. exact HP.
    - exfalso. destruct pl as [|it pl']; [contradiction|].
      destruct (HP it (or_introl eq_refl)) as (HIn & _).
      destruct (L_node k _ Hk HIn) as [b Hb].
      apply (Hsep _ b (Hl it (or_introl eq_refl))). exact Hb.
  Qed.
End Sound.
