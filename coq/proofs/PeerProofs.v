(* C43: what reaches the handlers -- for EVERY schedule of frames over any number of peer
   connections sharing one incoming filter, with EVERY read script per frame:
   a delivered message is exactly the frame's payload, of a known tag, within that tag's
   limit; and once a dedup-safe message was delivered, the same message (from any peer) is not
   delivered again while fewer than (buckets-1)*bucketSize frames intervene.
   The per-tag obligations on the generated table (gen/TagLimits.v) are re-checked here by
   computation on every run. *)
From Coq Require Import NArith ZArith List Bool Lia ZifyN ZifyNat ZifyBool.
From Verif.lib Require Import Term.
From Verif.model Require Import Slurper MsgFilter PeerRead.
From Verif.gen Require Import TagLimits.
From Verif.proofs Require Import SlurperProofs MsgFilterProofs.
Import ListNotations.
Open Scope N_scope.

(* ------------------------------------------------------------------ equality on keys *)
Lemma list_eqb_N_spec (a b : list N) : reflect (a = b) (list_eqb N.eqb a b).
Proof.
  revert b; induction a as [|x a IH]; intros [|y b]; cbn [list_eqb]; try (constructor; congruence).
  destruct (N.eqb_spec x y) as [E|E]; cbn [andb].
  - destruct (IH b) as [E2|E2]; constructor; congruence.
  - constructor. congruence.
Qed.
Lemma keqb_spec (a b : list N) : reflect (a = b) (keqb a b).
Proof. apply list_eqb_N_spec. Qed.

Lemma in_tags_In t l : in_tags t l = true -> In t l.
Proof.
  unfold in_tags. rewrite existsb_exists. intros (x & Hx & E).
  unfold tag_eqb in E. destruct (list_eqb_N_spec t x); [subst; assumption|discriminate].
Qed.

(* ------------------------------------------------------------------ obligations on the generated table *)
Definition tags_of (l : list (list N * N)) : list (list N) := map fst l.
Definition limits_ok : bool :=
  (* every tag of protocol.TagList: two bytes, positive limit, at most the connection maximum *)
  forallb (fun tl => (N.of_nat (length (fst tl)) =? tagLength) && (0 <? snd tl) && (snd tl <=? maxMessageLength))
          tag_list &&
  (* TagList and the exhaustive scan of MaxMessageSize() agree: no hidden tag has a limit,
     every listed tag has the scanned limit *)
  forallb (fun tl => match assoc_tag (fst tl) nonzero_limits with Some v => v =? snd tl | None => false end) tag_list &&
  forallb (fun tl => in_tags (fst tl) (tags_of tag_list)) nonzero_limits &&
  (N.of_nat (length tag_list) =? N.of_nat (length nonzero_limits)) &&
  (* deprecated tags have no limit and are not delivered *)
  forallb (fun tl => (snd tl =? 0) && negb (in_tags (fst tl) deliver_tags)) deprecated_tag_list &&
  (odd_length_tag_limit_sum =? 0) &&
  (* everything readLoop hands to the handlers or consumes internally is a listed tag *)
  forallb (fun t => in_tags t (tags_of tag_list)) (deliver_tags ++ internal_tags) &&
  (N.of_nat (length (deliver_tags ++ internal_tags)) =? N.of_nat (length tag_list)) &&
  (* dedupSafeTag as transcribed = as evaluated on all tags; dedup-safe tags are delivered tags *)
  forallb (fun t => dedup_safe t && in_tags t deliver_tags) dedup_safe_tags &&
  forallb (fun tl => Bool.eqb (dedup_safe (fst tl)) (in_tags (fst tl) dedup_safe_tags)) tag_list &&
  (* slurper geometry used by readLoop *)
  (allocationStep_code =? allocationStep) && (averageMessageLength <=? maxMessageLength) &&
  (maxMessageLength + allocationStep <=? two64) &&
  (1 <=? incomingFilterBucketCount) && (1 <=? incomingFilterBucketSize).

Lemma limits_ok_true : limits_ok = true.
Proof. vm_compute. reflexivity. Qed.

Lemma deliver_limits_ok :
  forallb (fun t => (0 <? tag_limit t) && (tag_limit t <=? maxMessageLength)) deliver_tags = true.
Proof. vm_compute. reflexivity. Qed.

Lemma deliver_tag_limit t :
  in_tags t deliver_tags = true -> 0 < tag_limit t /\ tag_limit t <= maxMessageLength.
Proof.
  intros H. apply in_tags_In in H. pose proof deliver_limits_ok as Hall.
  rewrite forallb_forall in Hall. specialize (Hall t H). lia.
Qed.

Lemma geometry_ok : N.min averageMessageLength maxMessageLength <= maxMessageLength /\
                    maxMessageLength + allocationStep <= two64.
Proof. vm_compute. split; discriminate. Qed.

(* ------------------------------------------------------------------ one frame on one peer *)
Notation B := (N.min averageMessageLength maxMessageLength).
Notation M := maxMessageLength.
Definition pinv (p : peer) : Prop := ginv B M (pslurp p).

Lemma new_peer_inv : pinv new_peer.
Proof. unfold pinv, new_peer. cbn [pslurp]. destruct geometry_ok. apply make_ginv; auto. Qed.

Definition fwf := wf (D:=list N).

Lemma peer_step_spec flt p fr p' flt' res :
  pinv p -> peer_step flt p fr = (p', flt', res) ->
  let cd := check_digest keqb flt (key_of (ftag fr) (fid fr) (ftotal fr)) true true in
  pinv p' /\
  (* the filter sees at most one add-call, with the key of this frame *)
  (flt' = flt \/ flt' = fst cd) /\
  (* a delivery is the whole payload of a known tag within its limit *)
  (forall len, res = PDelivered len ->
     len = ftotal fr /\ in_tags (ftag fr) deliver_tags = true /\
     0 < tag_limit (ftag fr) /\ len <= tag_limit (ftag fr) /\ len <= maxMessageLength) /\
  (* a dedup-safe non-empty message is delivered only through the filter, when it was absent *)
  (dedup_safe (ftag fr) = true -> 0 < ftotal fr -> forall len, res = PDelivered len ->
     flt' = fst cd /\ snd cd = false).
Proof.
  intros Hinv. unfold peer_step. cbn zeta.
  destruct (popen p) eqn:Hopen; cbn [negb].
  2:{ intros H; inversion H; subst; clear H. split; [exact Hinv|]. split; [left; reflexivity|].
      split; [intros len Hl; discriminate|]. intros _ _ len Hl; discriminate. }
  destruct geometry_ok as (HBM & Hnw).
  pose proof (slurp_spec B M HBM Hnw (pslurp p) (tag_limit (ftag fr)) (ftotal fr) (fscript fr) Hinv) as Hs.
  destruct (slurp (pslurp p) (tag_limit (ftag fr)) (ftotal fr) (fscript fr)) as [[o s'] r'].
  destruct Hs as (((Hg' & Hmx & Hal & Hpost) & _) & Hfuel).
  cbn [reset maxSize rtotal rscript] in Hmx, Hal, Hpost.
  destruct o; try (intros H; inversion H; subst; clear H; split; [exact Hg'|];
                   split; [left; reflexivity|]; split; [intros len Hl; discriminate|];
                   intros _ _ len Hl; discriminate).
  destruct Hpost as (Hsize & _ & Hlim & HleM).
  destruct (in_tags (ftag fr) deliver_tags) eqn:Hdel.
  2:{ intros H; inversion H; subst; clear H. split; [exact Hg'|]. split; [left; reflexivity|].
      split; [intros len Hl; discriminate|]. intros _ _ len Hl; discriminate. }
  destruct (deliver_tag_limit _ Hdel) as (Hpos & _).
  assert (Hle : ftotal fr <= tag_limit (ftag fr)) by (destruct Hlim; lia).
  rewrite Hsize.
  destruct ((0 <? ftotal fr) && dedup_safe (ftag fr)) eqn:Hdd.
  - destruct (check_digest keqb flt (key_of (ftag fr) (fid fr) (ftotal fr)) true true) as [f2 has] eqn:Ecd.
    cbn [fst snd].
    destruct has; intros H; inversion H; subst; clear H.
    + split; [exact Hg'|]. split; [right; reflexivity|].
      split; [intros len Hl; discriminate|]. intros _ _ len Hl; discriminate.
    + split; [exact Hg'|]. split; [right; reflexivity|].
      split.
      { intros len Hl. inversion Hl; subst. repeat split; auto; lia. }
      intros _ _ len _. split; reflexivity.
  - intros H; inversion H; subst; clear H. split; [exact Hg'|]. split; [left; reflexivity|].
    split.
    { intros len Hl. inversion Hl; subst. repeat split; auto; lia. }
    intros Hd Hp len _. rewrite Hd in Hdd. lia.
Qed.

(* ------------------------------------------------------------------ schedules *)
Fixpoint net_final (peers : list peer) (flt : filt (D:=list N)) (sched : list (nat * frame))
  : list peer * filt (D:=list N) :=
  match sched with
  | [] => (peers, flt)
  | (i, fr) :: rest =>
      match nth_error peers i with
      | None => net_final peers flt rest
      | Some p => let '(p', flt', _) := peer_step flt p fr in net_final (upd_peer i p' peers) flt' rest
      end
  end.

Lemma net_run_app s1 : forall peers flt s2,
  net_run peers flt (s1 ++ s2) =
  net_run peers flt s1 ++ net_run (fst (net_final peers flt s1)) (snd (net_final peers flt s1)) s2.
Proof.
  induction s1 as [|[i fr] s1 IH]; intros peers flt s2; cbn [app net_run net_final fst snd]; [reflexivity|].
  destruct (nth_error peers i) as [p|].
  - destruct (peer_step flt p fr) as [[p' flt'] res]. cbn [app]. rewrite IH. reflexivity.
  - cbn [app]. rewrite IH. reflexivity.
Qed.

Lemma net_run_length sched : forall peers flt, length (net_run peers flt sched) = length sched.
Proof.
  induction sched as [|[i fr] s IH]; intros peers flt; cbn [net_run length]; [reflexivity|].
  destruct (nth_error peers i) as [p|]; [destruct (peer_step flt p fr) as [[p' flt'] res]|];
    cbn [length]; rewrite IH; reflexivity.
Qed.

Lemma Forall_upd_peer (P : peer -> Prop) i p l : Forall P l -> P p -> Forall P (upd_peer i p l).
Proof.
  intros H Hp. revert i; induction H as [|x l Hx Hl IH]; intros [|i]; cbn [upd_peer]; constructor; auto.
Qed.

Lemma Forall_nth_error {A} (P : A -> Prop) l i x : Forall P l -> nth_error l i = Some x -> P x.
Proof. intros H E. rewrite Forall_forall in H. apply H. eapply nth_error_In; eauto. Qed.

(* every delivery, in every schedule, is the frame's whole payload within its tag's limit *)
Lemma net_delivered_bounded sched : forall peers flt,
  Forall pinv peers ->
  Forall2 (fun ifr res => forall len, res = PDelivered len ->
             len = ftotal (snd ifr) /\ in_tags (ftag (snd ifr)) deliver_tags = true /\
             0 < tag_limit (ftag (snd ifr)) /\ len <= tag_limit (ftag (snd ifr)) /\
             len <= maxMessageLength)
          sched (net_run peers flt sched).
Proof.
  induction sched as [|[i fr] s IH]; intros peers flt Hp; cbn [net_run]; [constructor|].
  destruct (nth_error peers i) as [p|] eqn:Ei.
  - pose proof (Forall_nth_error _ _ _ _ Hp Ei) as Hpi.
    destruct (peer_step flt p fr) as [[p' flt'] res] eqn:Eps.
    destruct (peer_step_spec _ _ _ _ _ _ Hpi Eps) as (Hp' & _ & Hdel & _). cbn zeta in Hdel.
    constructor.
    + cbn [snd]. intros len Hl. exact (Hdel len Hl).
    + apply IH. apply Forall_upd_peer; assumption.
  - constructor; [intros len Hl; discriminate|]. apply IH. exact Hp.
Qed.

(* a schedule costs a tracked key at most one unit of filter life per frame *)
Lemma net_final_life sched : forall peers flt d L,
  Forall pinv peers -> fwf flt -> life_ge keqb flt d L ->
  let '(peers', flt') := net_final peers flt sched in
  Forall pinv peers' /\ fwf flt' /\ life_ge keqb flt' d (L - Z.of_nat (length sched)) /\
  nb flt' = nb flt /\ maxsz flt' = maxsz flt.
Proof.
  induction sched as [|[i fr] s IH]; intros peers flt d L Hp Hw Hl; cbn [net_final length].
  - split; [exact Hp|]. split; [exact Hw|]. split; [|split; reflexivity].
    apply (life_ge_weaken keqb keqb_spec _ _ L); [lia|exact Hl].
  - destruct (nth_error peers i) as [p|] eqn:Ei.
    + pose proof (Forall_nth_error _ _ _ _ Hp Ei) as Hpi.
      destruct (peer_step flt p fr) as [[p' flt'] res] eqn:Eps.
      destruct (peer_step_spec _ _ _ _ _ _ Hpi Eps) as (Hp' & Hflt & _).
      assert (Hstep : fwf flt' /\ life_ge keqb flt' d (L - 1) /\ nb flt' = nb flt /\ maxsz flt' = maxsz flt).
      { cbn zeta in Hflt. destruct Hflt as [->| ->].
        - split; [exact Hw|]. split; [|split; reflexivity]. apply (life_ge_weaken keqb keqb_spec _ _ L); [lia|exact Hl].
        - pose proof (step_life keqb keqb_spec flt d (key_of (ftag fr) (fid fr) (ftotal fr)) true true L Hw Hl) as H.
          cbn zeta in H. exact H. }
      destruct Hstep as (Hw' & Hl' & Hn' & Hm').
      specialize (IH (upd_peer i p' peers) flt' d (L - 1)%Z (Forall_upd_peer _ _ _ _ Hp Hp') Hw' Hl').
      destruct (net_final (upd_peer i p' peers) flt' s) as [peers2 flt2].
      destruct IH as (I1 & I2 & I3 & I4 & I5). split; [exact I1|]. split; [exact I2|].
      split; [|split; congruence]. eapply (life_ge_weaken keqb keqb_spec); [|exact I3]; lia.
    + specialize (IH peers flt d L Hp Hw Hl). destruct (net_final peers flt s) as [peers2 flt2].
      destruct IH as (I1 & I2 & I3 & I4 & I5). split; [exact I1|]. split; [exact I2|].
      split; [|split; assumption]. eapply (life_ge_weaken keqb keqb_spec); [|exact I3]; lia.
Qed.

Lemma nth_error_app_len {A} (l1 l2 : list A) x : nth_error (l1 ++ x :: l2) (length l1) = Some x.
Proof. induction l1; cbn; auto. Qed.

(* no duplicate delivery within the retention window, for every schedule *)
Lemma net_no_duplicate peers flt pre i1 fr1 mid i2 fr2 post :
  Forall pinv peers -> fwf flt ->
  dedup_safe (ftag fr1) = true -> 0 < ftotal fr1 ->
  ftag fr2 = ftag fr1 -> fid fr2 = fid fr1 -> ftotal fr2 = ftotal fr1 ->
  (Z.of_nat (length mid) < (Z.of_nat (nb flt) - 1) * maxsz flt)%Z ->
  let res := net_run peers flt (pre ++ (i1, fr1) :: mid ++ (i2, fr2) :: post) in
  (exists len, nth_error res (length pre) = Some (PDelivered len)) ->
  forall len, nth_error res (length pre + 1 + length mid) <> Some (PDelivered len).
Proof.
  intros Hp Hw Hdd Hpos Ht Hi Hlen Hwin res (len1 & Hres1) len2 Hres2.
  subst res.
  (* split the run at the first frame *)
  rewrite net_run_app in Hres1, Hres2.
  pose proof (net_final_life pre peers flt (key_of (ftag fr1) (fid fr1) (ftotal fr1)) 0 Hp Hw) as H0.
  specialize (H0 (or_introl (Z.le_refl 0))).
  destruct (net_final peers flt pre) as [peers0 flt0]. cbn [fst snd] in *.
  destruct H0 as (Hp0 & Hw0 & _ & Hn0 & Hm0).
  rewrite nth_error_app2 in Hres1 by (rewrite net_run_length; lia).
  rewrite nth_error_app2 in Hres2 by (rewrite net_run_length; lia).
  rewrite net_run_length in Hres1, Hres2.
  replace (length pre - length pre)%nat with 0%nat in Hres1 by lia.
  replace (length pre + 1 + length mid - length pre)%nat with (S (length mid)) in Hres2 by lia.
  cbn [net_run] in Hres1, Hres2.
  destruct (nth_error peers0 i1) as [p1|] eqn:E1; [|cbn in Hres1; discriminate].
  pose proof (Forall_nth_error _ _ _ _ Hp0 E1) as Hp1.
  destruct (peer_step flt0 p1 fr1) as [[p1' flt1] res1] eqn:Eps1.
  cbn [nth_error] in Hres1, Hres2. inversion Hres1; subst res1; clear Hres1.
  destruct (peer_step_spec _ _ _ _ _ _ Hp1 Eps1) as (Hp1' & _ & _ & Hdd1). cbn zeta in Hdd1.
  destruct (Hdd1 Hdd Hpos len1 eq_refl) as (Hf1 & Hhas1).
  set (key := key_of (ftag fr1) (fid fr1) (ftotal fr1)) in *.
  assert (Hnone : find keqb flt0 key = None \/ true = true) by (right; reflexivity).
  pose proof (step_fresh keqb keqb_spec flt0 key true Hw0 Hnone) as Hlife1. fold key in Hf1. rewrite <- Hf1 in Hlife1.
  assert (H0' : life_ge keqb flt0 key 0) by (left; lia).
  destruct (step_life keqb keqb_spec flt0 key key true true 0 Hw0 H0') as (Hw1 & _ & Hn1 & Hm1).
  cbn zeta in Hw1, Hn1, Hm1. rewrite <- Hf1 in Hw1, Hn1, Hm1.
  (* run the frames in between *)
  rewrite net_run_app in Hres2.
  pose proof (net_final_life mid (upd_peer i1 p1' peers0) flt1 key _
                (Forall_upd_peer _ _ _ _ Hp0 Hp1') Hw1 Hlife1) as Hmid.
  destruct (net_final (upd_peer i1 p1' peers0) flt1 mid) as [peers2 flt2]. cbn [fst snd] in *.
  destruct Hmid as (Hp2 & Hw2 & Hlife2 & Hn2 & Hm2).
  rewrite nth_error_app2 in Hres2 by (rewrite net_run_length; lia).
  rewrite net_run_length in Hres2. replace (length mid - length mid)%nat with 0%nat in Hres2 by lia.
  cbn [net_run] in Hres2.
  destruct (nth_error peers2 i2) as [p2|] eqn:E2; [|cbn in Hres2; discriminate].
  pose proof (Forall_nth_error _ _ _ _ Hp2 E2) as Hpp2.
  destruct (peer_step flt2 p2 fr2) as [[p2' flt3] res2] eqn:Eps2.
  cbn [nth_error] in Hres2. inversion Hres2; subst res2; clear Hres2.
  destruct (peer_step_spec _ _ _ _ _ _ Hpp2 Eps2) as (_ & _ & _ & Hdd2). cbn zeta in Hdd2.
  rewrite Ht, Hi, Hlen in Hdd2. fold key in Hdd2.
  assert (Hpres : present keqb flt2 key = true).
  { eapply life_present; [exact keqb_spec|exact Hw2|exact Hlife2|]. rewrite Hn0, Hm0. lia. }
  pose proof (has_is_present keqb flt2 key true true) as Hh. rewrite Hpres in Hh.
  destruct (Hdd2 Hdd Hpos len2 eq_refl) as (_ & Hc). congruence.
Qed.
