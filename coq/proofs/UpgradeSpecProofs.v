(* C26: the executable history oracle is exactly the Prop-level property; PreCheck accepts
   exactly the successor states; accepted header chains are traces. *)
From Coq Require Import NArith ZArith List Bool Lia ZifyN ZifyNat ZifyBool Arith String.
From Verif.lib Require Import Term.
From Verif.model Require Import Upgrade UpgradeSpec.
From Verif.proofs Require Import UpgradeProofs.
Import ListNotations.
Open Scope N_scope.

Lemma forallb_seq (f : nat -> bool) a n :
  forallb f (seq a n) = true <-> forall i, (a <= i < a + n)%nat -> f i = true.
Proof.
  rewrite forallb_forall. split; intros H i Hi; apply H.
  - apply in_seq. exact Hi.
  - apply in_seq in Hi. exact Hi.
Qed.

Lemma existsb_seq (f : nat -> bool) a n :
  existsb f (seq a n) = true <-> exists i, (a <= i < a + n)%nat /\ f i = true.
Proof.
  rewrite existsb_exists. split; intros (i & Hi & Hf); exists i; split; auto.
  - apply in_seq in Hi. exact Hi.
  - apply in_seq. exact Hi.
Qed.

(* ---------- justified_by_b ---------- *)
Definition justified_by (cons : consensus) (r0 : N) (vs : list vote) (bef : list ustate)
           (k : nat) (s s' : ustate) (j : nat) : Prop :=
  exists vp P,
    nth_error vs j = Some vp /\ cons (us_current s) = Some P /\
    v_propose vp = us_current s' /\ v_propose vp <> [] /\
    up_minwait P <= v_delay vp /\ v_delay vp <= up_maxwait P /\
    N.of_nat k = N.of_nat j + up_voteRounds P + eff_delay P (v_delay vp) /\
    up_threshold P <= count_approve (window P j vs) /\
    (forall sj, nth_error bef j = Some sj ->
        us_next sj = [] /\ us_current sj = us_current s) /\
    (forall i si, (j < i <= k)%nat -> nth_error bef i = Some si ->
        us_current si = us_current s /\ us_next si = v_propose vp /\
        us_voteBefore si = r0 + N.of_nat j + up_voteRounds P /\
        us_switchOn si = r0 + N.of_nat k).

Lemma justified_by_b_spec cons r0 vs bef k s s' j :
  justified_by_b cons r0 vs bef k s s' j = true <-> justified_by cons r0 vs bef k s s' j.
Proof.
  unfold justified_by_b, justified_by.
  destruct (nth_error vs j) as [vp|]; [|split; [discriminate|intros (? & ? & H & _); discriminate]].
  destruct (cons (us_current s)) as [P|];
    [|split; [discriminate|intros (? & ? & _ & H & _); discriminate]].
  rewrite !andb_true_iff, negb_true_iff, ver_eqb_eq, ver_empty_false,
          !N.leb_le, N.eqb_eq, forallb_seq.
  split.
  - intros (((((((H1 & H2) & H3) & H4) & H5) & H6) & H7) & H8).
    exists vp, P. repeat (split; [first [reflexivity|assumption]|]). split.
    + intros sj Hsj. rewrite Hsj in H7. apply andb_true_iff in H7. destruct H7 as [A B'].
      apply ver_empty_nil in A. apply ver_eqb_eq in B'. auto.
    + intros i si Hi Hsi. specialize (H8 i ltac:(lia)). rewrite Hsi in H8.
      rewrite !andb_true_iff, !ver_eqb_eq, !N.eqb_eq in H8. tauto.
  - intros (vp' & P' & E1 & E2 & H1 & H2 & H3 & H4 & H5 & H6 & H7 & H8).
    inversion E1; inversion E2; subst vp' P'.
    repeat split; try assumption.
    + destruct (nth_error bef j) as [sj|]; [|reflexivity].
      destruct (H7 sj eq_refl) as [A B']. apply andb_true_iff. split.
      * apply ver_empty_nil. exact A.
      * apply ver_eqb_eq. exact B'.
    + intros i Hi. destruct (nth_error bef i) as [si|] eqn:Hsi; [|reflexivity].
      destruct (H8 i si ltac:(lia) Hsi) as (A & B' & C & D).
      rewrite !andb_true_iff, !ver_eqb_eq, !N.eqb_eq. tauto.
Qed.

Lemma switch_justified_b_spec cons r0 vs bef k s s' :
  switch_justified_b cons r0 vs bef k s s' = true <-> switch_justified cons r0 vs bef k s s'.
Proof.
  unfold switch_justified_b, switch_justified. rewrite existsb_seq. split.
  - intros (j & Hj & Hb). apply justified_by_b_spec in Hb.
    destruct Hb as (vp & P & H). exists j, vp, P. split; [lia|]. exact H.
  - intros (j & vp & P & Hj & H). exists j. split; [lia|].
    apply justified_by_b_spec. exists vp, P. exact H.
Qed.

Lemma ver_dec (a b : ver) : {a = b} + {a <> b}.
Proof. destruct (ver_eqb a b) eqn:E; [left; apply ver_eqb_eq; exact E|right; apply ver_eqb_neq; exact E]. Qed.

Lemma block_ok_b_spec cons r0 vs bef k s s' v :
  block_ok_b cons r0 vs bef k s s' v = true <->
  (us_current s' <> us_current s -> switch_justified cons r0 vs bef k s s') /\
  (v_propose v <> [] -> us_next s = []) /\
  (us_next s <> [] -> us_next s' <> [] ->
     us_next s' = us_next s /\ us_voteBefore s' = us_voteBefore s /\
     us_switchOn s' = us_switchOn s /\ us_current s' = us_current s).
Proof.
  unfold block_ok_b.
  rewrite !andb_true_iff, !orb_true_iff, !andb_true_iff, !ver_eqb_eq, !ver_empty_nil, !N.eqb_eq,
          switch_justified_b_spec.
  split.
  - intros ((H1 & H2) & H3). split; [|split].
    + intros Hne. destruct H1 as [E|Hsj]; [contradiction|exact Hsj].
    + intros Hpe. destruct H2 as [E|E]; [contradiction|exact E].
    + intros Hn Hn'. destruct H3 as [[E|E]|E]; [contradiction|contradiction|tauto].
  - intros (H1 & H2 & H3). split; [split|].
    + destruct (ver_dec (us_current s') (us_current s)) as [E|E]; [left; exact E|right; auto].
    + destruct (ver_dec (v_propose v) []) as [E|E]; [left; exact E|right; auto].
    + destruct (ver_dec (us_next s) []) as [E|E]; [left; left; exact E|].
      destruct (ver_dec (us_next s') []) as [E'|E']; [left; right; exact E'|].
      right. specialize (H3 E E'). tauto.
Qed.

(* the executable oracle IS the property (on any observed state list) *)
Theorem spec_ok_hist_iff cons r0 s0 vs sts :
  spec_ok_hist cons r0 s0 vs sts = true <->
  List.length sts = List.length vs /\ hist_ok cons r0 s0 vs sts.
Proof.
  unfold spec_ok_hist. rewrite andb_true_iff, Nat.eqb_eq, forallb_seq. split.
  - intros [Hlen H]. split; [exact Hlen|].
    intros k s s' v Hk Hk' Hv.
    assert (Hlt : (k < List.length vs)%nat) by (apply nth_error_Some; congruence).
    specialize (H k ltac:(lia)). rewrite Hk, Hk', Hv in H.
    apply block_ok_b_spec in H. exact H.
  - intros [Hlen H]. split; [exact Hlen|].
    intros k Hk.
    assert (Hv : nth_error vs k <> None) by (apply nth_error_Some; lia).
    assert (Hs' : nth_error sts k <> None) by (apply nth_error_Some; lia).
    assert (Hs : nth_error (s0 :: sts) k <> None) by (apply nth_error_Some; cbn; lia).
    destruct (nth_error vs k) as [v|] eqn:Ev; [|congruence].
    destruct (nth_error sts k) as [s'|] eqn:Es'; [|congruence].
    destruct (nth_error (s0 :: sts) k) as [s|] eqn:Es; [|congruence].
    apply block_ok_b_spec. apply (H k s s' v); assumption.
Qed.

(* every accepted history passes the executable oracle *)
Theorem trace_passes_oracle cons B s0 r0 vs sts :
  wf_cons cons B -> quiescent s0 -> 1 <= r0 -> r0 + N.of_nat (List.length vs) + B < W ->
  trace cons s0 r0 vs = Some sts ->
  spec_ok_hist cons r0 s0 vs sts = true.
Proof.
  intros Hwf Hq Hr HB Htr. apply spec_ok_hist_iff. split.
  - eapply trace_length. exact Htr.
  - eapply trace_hist_ok; eassumption.
Qed.

(* ---------- PreCheck ---------- *)
Lemma ustate_eqb_eq a b : ustate_eqb a b = true <-> a = b.
Proof.
  unfold ustate_eqb. rewrite !andb_true_iff, !ver_eqb_eq, !N.eqb_eq.
  destruct a, b; cbn. split.
  - intros ((((A & B') & C) & D) & E). subst. reflexivity.
  - intros H. inversion H. auto.
Qed.

Theorem precheck_ok_iff cons prev bh :
  precheck cons prev bh = PreOk <->
  (cons (us_current (h_state bh)) <> None /\
   h_round bh = wadd (h_round prev) 1 /\
   step cons (h_state prev) (h_round bh) (h_vote bh) = UOk (h_state bh)).
Proof.
  unfold precheck. destruct (cons (us_current (h_state bh))) as [P|].
  2:{ split; [discriminate|intros (H & _); congruence]. }
  destruct (N.eqb_spec (wadd (h_round prev) 1) (h_round bh)) as [E|E]; cbn [negb].
  - rewrite E. destruct (step cons (h_state prev) (h_round bh) (h_vote bh)) as [s'|e].
    + destruct (ustate_eqb s' (h_state bh)) eqn:Eq.
      * apply ustate_eqb_eq in Eq. subst. split; [intros _|reflexivity].
        split; [discriminate|]. auto.
      * split; [discriminate|]. intros (_ & _ & H). inversion H; subst.
        assert (ustate_eqb (h_state bh) (h_state bh) = true) by (apply ustate_eqb_eq; reflexivity).
        congruence.
    + split; [discriminate|]. intros (_ & _ & H). discriminate.
  - split; [discriminate|]. intros (_ & H & _). congruence.
Qed.

(* a header whose upgrade state deviates from the rules is rejected *)
Corollary precheck_rejects_deviation cons prev bh s' :
  step cons (h_state prev) (wadd (h_round prev) 1) (h_vote bh) = UOk s' ->
  h_state bh <> s' -> precheck cons prev bh <> PreOk.
Proof.
  intros Hstep Hne H. apply precheck_ok_iff in H. destruct H as (_ & Hr & Hs).
  rewrite Hr in Hs. congruence.
Qed.

Corollary precheck_rejects_invalid_vote cons prev bh e :
  step cons (h_state prev) (wadd (h_round prev) 1) (h_vote bh) = UErr e ->
  precheck cons prev bh <> PreOk.
Proof.
  intros Hstep H. apply precheck_ok_iff in H. destruct H as (_ & Hr & Hs).
  rewrite Hr in Hs. congruence.
Qed.

(* an accepted chain of headers is a trace of the state machine over consecutive rounds *)
Lemma chain_is_trace cons : forall hs prev,
  h_round prev + N.of_nat (List.length hs) < W ->
  chain_accepted cons prev hs = true ->
  trace cons (h_state prev) (h_round prev + 1) (map h_vote hs) = Some (map h_state hs) /\
  (forall k h, nth_error hs k = Some h -> h_round h = h_round prev + 1 + N.of_nat k).
Proof.
  induction hs as [|h hs IH]; intros prev Hb Hacc.
  - cbn. split; [reflexivity|]. intros k h Hk. destruct k; discriminate.
  - cbn [chain_accepted] in Hacc. destruct (precheck cons prev h) eqn:Hp; try discriminate.
    apply precheck_ok_iff in Hp. destruct Hp as (_ & Hr & Hs).
    cbn [List.length] in Hb.
    rewrite wadd_small in Hr by lia.
    assert (Hb' : h_round h + N.of_nat (List.length hs) < W) by lia.
    destruct (IH h Hb' Hacc) as [IHt IHr].
    cbn [map trace]. rewrite <- Hr, Hs, IHt. split; [reflexivity|].
    intros k h' Hk. destruct k as [|k]; cbn [nth_error] in Hk.
    + inversion Hk; subst. lia.
    + rewrite (IHr k h' Hk). lia.
Qed.

Theorem accepted_chain_hist_ok cons B prev hs :
  wf_cons cons B -> quiescent (h_state prev) ->
  h_round prev + 1 + N.of_nat (List.length hs) + B < W ->
  chain_accepted cons prev hs = true ->
  hist_ok cons (h_round prev + 1) (h_state prev) (map h_vote hs) (map h_state hs).
Proof.
  intros Hwf Hq Hb Hacc.
  destruct (chain_is_trace cons hs prev ltac:(lia) Hacc) as [Ht _].
  eapply trace_hist_ok; try eassumption; [lia|]. rewrite map_length. lia.
Qed.

(* ---------- single-step rules hold of the model from ANY state ---------- *)
Lemma step_rules_model cons s r v : step_rules_b s v (step cons s r v) = true.
Proof.
  destruct (step cons s r v) as [s'|e] eqn:Hstep; [|reflexivity].
  unfold step_rules_b. apply andb_true_iff. split.
  - destruct (ver_dec (v_propose v) []) as [E|E].
    + rewrite E. reflexivity.
    + rewrite (step_one_pending _ _ _ _ _ Hstep E). apply orb_true_r.
  - destruct s as [c n a vb so]. unfold step in Hstep. cbn [us_current us_next] in *.
    destruct (cons c) as [P|]; [|discriminate]. rewrite phase_propose_mk in Hstep.
    assert (Hsw : forall c1 n1 a1 vb1 so1,
              UOk (phase_switch (phase_clear P (mkUS c1 n1 a1 vb1 so1) r) r) = UOk s' ->
              us_current s' = c1 \/ us_current s' = n1 \/ us_current s' = []).
    { intros c1 n1 a1 vb1 so1. rewrite phase_clear_mk.
      destruct ((r =? vb1) && (a1 <? up_threshold P)); rewrite phase_switch_mk.
      - destruct (r =? 0); intros E; inversion E; subst s'; cbn; auto.
      - destruct (r =? so1); intros E; inversion E; subst s'; cbn; auto. }
    destruct (ver_empty (v_propose v)) eqn:Hpe; cbn [negb] in Hstep.
    + destruct (v_delay v =? 0); cbn [negb] in Hstep; [|discriminate].
      rewrite phase_approve_mk in Hstep.
      assert (Hgo : us_current s' = c \/ us_current s' = n \/ us_current s' = []).
      { destruct (v_approve v).
        - destruct (ver_empty n); [discriminate|]. destruct (vb <=? r); [discriminate|].
          eapply Hsw; exact Hstep.
        - eapply Hsw; exact Hstep. }
      apply ver_empty_nil in Hpe. rewrite Hpe.
      destruct Hgo as [E|[E|E]]; rewrite E; rewrite ?ver_eqb_refl, ?orb_true_r; reflexivity.
    + destruct (ver_empty n) eqn:Hn; cbn [negb] in Hstep; [|discriminate].
      destruct (up_maxlen P <? Z.of_nat (List.length (v_propose v)))%Z; [discriminate|].
      destruct ((up_maxwait P <? v_delay v) || (v_delay v <? up_minwait P)); [discriminate|].
      rewrite phase_approve_mk in Hstep. rewrite Hpe in Hstep.
      assert (Hgo : us_current s' = c \/ us_current s' = v_propose v \/ us_current s' = []).
      { destruct (v_approve v).
        - destruct (_ <=? r); [discriminate|]. eapply Hsw; exact Hstep.
        - eapply Hsw; exact Hstep. }
      apply ver_empty_nil in Hn. subst n.
      destruct Hgo as [E|[E|E]]; rewrite E; rewrite ?ver_eqb_refl, ?orb_true_r; reflexivity.
Qed.

(* ---------- [check] ---------- *)
Lemma verdict_accepts a b c m :
  verdict a b c m = v_ok \/ verdict a b c m = v_triv -> a = true /\ b = true.
Proof.
  unfold verdict. destruct a; cbn [negb]; [|intros [H|H]; discriminate].
  destruct b; cbn [negb]; [auto|intros [H|H]; discriminate].
Qed.

(* a history line the checker accepts (verdict 0/1): the observed states satisfy the
   property *)
Lemma check_hist_sound tc ts0 tr0 tvs tsts tbl s0 r0 vs sts :
  p_cons tc = Some tbl -> p_state ts0 = Some s0 -> p_round tr0 = Some r0 ->
  map_opt p_vote tvs = Some vs -> map_opt p_state tsts = Some sts ->
  (let case := TL [TS "hist"; tc; ts0; tr0; TL tvs; TL tsts] in
   check case = v_ok \/ check case = v_triv) ->
  List.length sts = List.length vs /\ hist_ok (cons_of tbl) r0 s0 vs sts.
Proof.
  intros H1 H2 H3 H4 H5. cbv zeta. cbn [check]. rewrite H1, H2, H3, H4, H5.
  intros H. apply verdict_accepts in H. destruct H as [H _].
  apply spec_ok_hist_iff. exact H.
Qed.

(* a PreCheck line the checker accepts: if the implementation accepted the header, the
   header's round is the successor round and its upgrade state is what the implementation's
   own applyUpgradeVote returned *)
Lemma check_pre_sound tc tpr tps thr tv ths timpl obs tbl pr ps hr v hs impl :
  p_cons tc = Some tbl -> p_round tpr = Some pr -> p_state tps = Some ps ->
  p_round thr = Some hr -> p_vote tv = Some v -> p_state ths = Some hs -> p_ures timpl = Some impl ->
  (let case := TL [TS "pre"; tc; tpr; tps; thr; tv; ths; timpl; obs] in
   check case = v_ok \/ check case = v_triv) ->
  obs = TS "ok" -> hr = wadd pr 1 /\ impl = UOk hs.
Proof.
  intros H1 H2 H3 H4 H5 H6 H7. cbv zeta. cbn [check]. rewrite H1, H2, H3, H4, H5, H6, H7.
  intros H Hobs. apply verdict_accepts in H. destruct H as [H _]. subst obs.
  unfold is_ok in H. cbn in H. apply andb_true_iff in H. destruct H as [Ha Hb].
  apply N.eqb_eq in Ha. split; [exact Ha|].
  destruct impl as [s'|e]; [|discriminate]. apply ustate_eqb_eq in Hb. congruence.
Qed.
