(* C39: concrete instance of the whole pipeline (prover, merklearray vector commitments over the
   ideal toy hash of C37, verifier) used for non-vacuity and for the refutation witness of the
   "tampered reveal position" clause. *)
From Coq Require Import NArith ZArith List Bool.
From Verif.model Require Import SpWeights MerkleArray MerkleArraySpec StateProof StateProofSpec.
From Verif.proofs Require Import StateProofProofs StateProofHonest StateProofMerkle.
Import ListNotations.
Open Scope N_scope.

(* leaves: injective encodings of a participant / a signature slot, hashed by the toy hash *)
Definition t_hp (p : participant N) : digest := toy_hleaf (toy_pair (pt_pk p) (pt_weight p)).
Definition t_hs (c : slotC N) : digest := toy_hleaf (toy_pair (sc_sig c) (sc_L c)).
(* participant i signs with signature i+1, for round 8 (any round of its key window 8..11) and message 42 *)
Definition t_sig_ok (pk round msg sig : N) : bool := (sig =? pk + 1) && (round / 4 =? 2) && (msg =? 42).
Definition t_salt_ok (_ : N) (v : N) : bool := v =? 0.
Definition t_commit_ok (_ : N) : bool := true.
Definition t_coin (_ : seed N digest) (j : nat) : N := nth j [7; 2; 12] 0.

Definition t_vcs_root := mroot (slotC N) 1 t_hs toy_hbottom toy_hnode.
Definition t_vcs_prove := mprove (slotC N) 1 t_hs toy_hbottom toy_hnode.
Definition t_vcs_verify := mverify (slotC N) 1 t_hs toy_hnode.
Definition t_vcp_root := mroot (participant N) 1 t_hp toy_hbottom toy_hnode.
Definition t_vcp_prove := mprove (participant N) 1 t_hp toy_hbottom toy_hnode.
Definition t_vcp_verify := mverify (participant N) 1 t_hp toy_hnode.

Definition t_verify := verify t_salt_ok t_commit_ok t_sig_ok t_coin p_depth t_vcs_verify t_vcp_verify.
Definition t_create := createProof 0 t_commit_ok t_coin t_vcs_root t_vcs_prove t_vcp_root t_vcp_prove.
Definition t_isValid := isValid 0 t_salt_ok t_commit_ok t_sig_ok.

Definition t_parts : list (participant N) := [mkPart 0 5; mkPart 1 5; mkPart 2 5].
(* proven weight 5: lnProvenWeight = ceil(2^16 ln 5) = 105477; strength target 4 *)
Definition t_b0 : builder N N N := makeProver 0 42 8 5 105477 t_parts 4.
Definition t_step (b : builder N N N) (pos sig : N) : builder N N N :=
  match t_isValid b pos sig true, add b pos sig with
  | SOk _, SOk b' => b'
  | _, _ => b
  end.
Definition t_b : builder N N N := t_step (t_step (t_step t_b0 0 1) 2 3) 1 2.
Definition t_v : verifier digest := mkVerifier 4 105477 (t_vcp_root t_parts).

Definition t_sp : stateproof N N digest proof :=
  match t_create t_b with SOk s => s | _ => mkSP [] 0 (mkProof [] 0) (mkProof [] 0) 0 [] [] end.

(* positions renamed for TreeDepth 3 instead of 2: i -> bitrev_3 (bitrev_2 i) *)
Definition t_f (i : N) : N :=
  match vcIndex i 2 with Some p => match vcIndex p 3 with Some k => k | None => i end | None => i end.
Definition t_sp' : stateproof N N digest proof :=
  relabel t_f t_sp (mkProof (p_path (sp_sigproofs t_sp)) 3) (mkProof (p_path (sp_partproofs t_sp)) 3).

Lemma honest_instance :
  built 0 0 t_salt_ok t_commit_ok t_sig_ok true 42 8 5 105477 t_parts 4 t_b /\
  b_sw t_b = 15 /\ ready t_b = true /\
  t_create t_b = SOk t_sp /\
  sp_positions t_sp = [1; 0; 2] /\ length (sp_reveals t_sp) = 3%nat /\
  p_depth (sp_sigproofs t_sp) = 2 /\
  t_verify t_v 8 42 t_sp = SOk tt /\
  t_verify t_v 9 42 t_sp = SOk tt /\                 (* same key window *)
  t_verify t_v 12 42 t_sp = SErr ESig /\             (* another round *)
  t_verify t_v 8 43 t_sp = SErr ESig.                (* another message *)
Proof.
  split.
  { unfold t_b, t_step.
    eapply built_add with (pos := 1) (sig := 2);
      [eapply built_add with (pos := 2) (sig := 3);
         [eapply built_add with (pos := 0) (sig := 1); [apply built_init| |]| |]| |];
      vm_compute; reflexivity. }
  vm_compute. repeat split; reflexivity.
Qed.

Lemma position_relabel_witness :
  t_verify t_v 8 42 t_sp = SOk tt /\
  sp_positions t_sp = [1; 0; 2] /\
  sp_positions t_sp' = [2; 0; 4] /\
  map fst (sp_reveals t_sp') = [2; 0; 4] /\
  map snd (sp_reveals t_sp') = map snd (sp_reveals t_sp) /\
  sp_sigcommit t_sp' = sp_sigcommit t_sp /\ sp_sw t_sp' = sp_sw t_sp /\
  (length t_parts = 3)%nat /\                       (* position 4 is past the end of the array *)
  t_verify t_v 8 42 t_sp' = SOk tt.
Proof. vm_compute. repeat split; reflexivity. Qed.
