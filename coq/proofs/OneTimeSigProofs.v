(* C36 lemmas about model/OneTimeSig.v: shape invariant of reachable key states, the set of
   identifiers a state can sign for, and how DeleteBeforeFineGrained changes it. *)
From Coq Require Import NArith ZArith List Bool Lia ZifyN ZifyNat ZifyBool.
From Verif.model Require Import OneTimeSig.
Import ListNotations.
Open Scope N_scope.

(* ---------- wrapping arithmetic ---------- *)
Lemma W_pos : 0 < W. Proof. reflexivity. Qed.

Lemma wadd_small a b : a + b < W -> wadd a b = a + b.
Proof. intros H. unfold wadd. apply N.mod_small. exact H. Qed.

Lemma wadd_lt a b : wadd a b < W.
Proof. unfold wadd. apply N.mod_lt. discriminate. Qed.

Lemma wsub_small a b : b <= a -> a < W -> wsub a b = a - b.
Proof.
  intros H1 H2. unfold wsub.
  replace (a + W - b) with ((a - b) + 1 * W) by lia.
  rewrite N.mod_add by discriminate. apply N.mod_small. lia.
Qed.

Lemma wadd_top a : a < W -> a + 1 < W \/ (a = W - 1 /\ wadd a 1 = 0).
Proof.
  intros H. destruct (N.eq_dec a (W - 1)) as [E|E].
  - right. split; [exact E|]. subst a. reflexivity.
  - left. unfold W in *. lia.
Qed.

(* ---------- lists ---------- *)
Lemma lenN_skipn {A} (j : N) (l : list A) : lenN (skipn (N.to_nat j) l) = lenN l - j.
Proof. unfold lenN. rewrite skipn_length. lia. Qed.

Lemma lenN_nil {A} : lenN (@nil A) = 0. Proof. reflexivity. Qed.
Lemma lenN_cons {A} (x : A) l : lenN (x :: l) = lenN l + 1.
Proof. unfold lenN. cbn [length]. lia. Qed.

Lemma seqN_length a len : length (seqN a len) = len.
Proof. revert a. induction len; intros; cbn; [reflexivity|]. now rewrite IHlen. Qed.

Lemma lenN_map_seqN {B} (f : N -> B) a (k : N) : lenN (map f (seqN a (N.to_nat k))) = k.
Proof. unfold lenN. rewrite map_length, seqN_length. lia. Qed.

Lemma In_skipn {A} (x : A) k l : In x (skipn k l) -> In x l.
Proof.
  revert l. induction k; intros l H; [exact H|].
  destruct l; [exact H|]. right. apply IHk. exact H.
Qed.

(* batch keys held are those of consecutive batch numbers b, b+1, ... *)
Fixpoint consec (b : N) (l : list N) : Prop :=
  match l with [] => True | x :: t => x = b /\ consec (b + 1) t end.

Lemma consec_skipn k : forall b l, consec b l -> consec (b + N.of_nat k) (skipn k l).
Proof.
  induction k; intros b l H.
  - cbn [skipn]. replace (b + N.of_nat 0) with b by lia. exact H.
  - destruct l as [|x t]; [exact I|]. cbn [skipn]. destruct H as [_ H].
    replace (b + N.of_nat (S k)) with (b + 1 + N.of_nat k) by lia. apply IHk. exact H.
Qed.

Lemma consec_In x : forall b l, consec b l -> (In x l <-> b <= x /\ x < b + lenN l).
Proof.
  intros b l. revert b. induction l as [|y t IH]; intros b H.
  - rewrite lenN_nil. cbn [In]. lia.
  - destruct H as [-> H]. rewrite lenN_cons. cbn [In]. rewrite (IH _ H). lia.
Qed.

Lemma consec_nth i : forall b l k, consec b l -> nth_error l i = Some k -> k = b + N.of_nat i.
Proof.
  induction i; intros b l k H E; destruct l as [|x t]; try discriminate.
  - cbn in E. injection E as <-. destruct H as [-> _]. lia.
  - cbn [nth_error] in E. destruct H as [_ H]. rewrite (IHi _ _ _ H E). lia.
Qed.

Lemma consec_seqN start : forall len a, start + a + N.of_nat len <= W ->
  consec (start + a) (map (fun i => wadd start i) (seqN a len)).
Proof.
  induction len; intros a H; cbn [seqN map consec]; [exact I|]. split.
  - apply wadd_small. lia.
  - replace (start + a + 1) with (start + (a + 1)) by lia. apply IHlen. lia.
Qed.

(* offset keys held are (signer sb, batch sb, offset o), (sb, sb, o+1), ... *)
Fixpoint offs_ok (sb o : N) (l : list okey) : Prop :=
  match l with [] => True | k :: t => k = mkOk sb sb o /\ offs_ok sb (o + 1) t end.

Lemma offs_ok_skipn sb k : forall o l, offs_ok sb o l -> offs_ok sb (o + N.of_nat k) (skipn k l).
Proof.
  induction k; intros o l H.
  - cbn [skipn]. replace (o + N.of_nat 0) with o by lia. exact H.
  - destruct l as [|x t]; [exact I|]. cbn [skipn]. destruct H as [_ H].
    replace (o + N.of_nat (S k)) with (o + 1 + N.of_nat k) by lia. apply IHk. exact H.
Qed.

Lemma offs_ok_In sb k : forall o l, offs_ok sb o l ->
  (In k l <-> exists x, k = mkOk sb sb x /\ o <= x /\ x < o + lenN l).
Proof.
  intros o l. revert o. induction l as [|y t IH]; intros o H.
  - rewrite lenN_nil. cbn [In]. split; [tauto|]. intros (x & _ & H1 & H2). lia.
  - destruct H as [-> H]. rewrite lenN_cons. cbn [In]. rewrite (IH _ H). split.
    + intros [E|(x & E & H1 & H2)].
      * exists o. split; [now symmetry|]. lia.
      * exists x. split; [exact E|]. lia.
    + intros (x & E & H1 & H2). destruct (N.eq_dec x o) as [->|NE].
      * left. now symmetry.
      * right. exists x. split; [exact E|]. lia.
Qed.

Lemma offs_ok_nth sb i : forall o l k, offs_ok sb o l -> nth_error l i = Some k ->
  k = mkOk sb sb (o + N.of_nat i).
Proof.
  induction i; intros o l k H E; destruct l as [|x t]; try discriminate.
  - cbn in E. injection E as <-. destruct H as [-> _]. f_equal. lia.
  - cbn [nth_error] in E. destruct H as [_ H]. rewrite (IHi _ _ _ H E). f_equal. lia.
Qed.

Lemma offs_ok_seqN sb : forall len o, offs_ok sb o (map (fun off => mkOk sb sb off) (seqN o len)).
Proof. induction len; intros o; cbn [seqN map offs_ok]; [exact I|]. split; [reflexivity|apply IHlen]. Qed.

(* ---------- identifiers ---------- *)
Lemma id_ltb_lt a b : id_ltb a b = true <-> id_lt a b.
Proof. unfold id_ltb, id_lt. lia. Qed.

Lemma id_leb_le a b : id_leb a b = true <-> id_le a b.
Proof. unfold id_leb, id_le. rewrite negb_true_iff, <- not_true_iff_false, id_ltb_lt. tauto. Qed.

(* ---------- invariant of every state reachable from Generate ---------- *)
Definition Inv (s : secrets) : Prop :=
  fb s < W /\ fo s < W /\ consec (fb s) (batches s) /\ fb s + lenN (batches s) <= W /\
  (offs s = [] \/ (1 <= fb s /\ offs_ok (fb s - 1) (fo s) (offs s) /\ pk2 s = Some (fb s - 1))) /\
  (bnil s = true -> batches s = []).        (* a nil slice is empty *)

(* identifiers the state holds a key for, by position *)
Definition cond (s : secrets) (id : ident) : Prop :=
  (fb s <= ibatch id /\ ibatch id < fb s + lenN (batches s)) \/
  (ibatch id + 1 = fb s /\ fo s <= ioff id /\ ioff id < fo s + lenN (offs s)).

Lemma generate_inv start n : start < W -> start + n <= W -> Inv (generate start n).
Proof.
  intros H1 H2. unfold Inv, generate. cbn [fb fo batches offs pk2 bnil].
  repeat split; try assumption; try reflexivity.
  - replace start with (start + 0) at 1 by lia. apply consec_seqN. lia.
  - rewrite lenN_map_seqN. exact H2.
  - left. reflexivity.
  - discriminate.
Qed.

Lemma generate_cond start n id : cond (generate start n) id <-> start <= ibatch id /\ ibatch id < start + n.
Proof.
  unfold cond, generate. cbn [fb fo batches offs].
  unfold lenN. rewrite map_length, seqN_length. cbn [length]. lia.
Qed.

Lemma reload_inv s : Inv s -> Inv (reload s).
Proof.
  unfold Inv, reload. cbn [fb fo batches offs pk2 bnil]. intros (H1 & H2 & H3 & H4 & H5 & H6).
  repeat split; try assumption. destruct (batches s); [reflexivity|discriminate].
Qed.

Lemma reload_cond s id : cond (reload s) id <-> cond s id.
Proof. unfold cond, reload. cbn [fb fo batches offs]. tauto. Qed.

Ltac skipn_cases j l E HL :=
  pose proof (lenN_skipn j l) as HL;
  destruct (skipn (N.to_nat j) l) eqn:E;
  [rewrite lenN_nil in HL | rewrite lenN_cons in HL].

Lemma delete_inv s cur K : Inv s -> wf_id cur -> Inv (delete s cur K).
Proof.
  intros (Hfb & Hfo & Hcs & Hsum & Hoffs & Hnil) (Hcb & Hco). unfold delete.
  destruct (N.eqb_spec (wadd (ibatch cur) 1) (fb s)) as [E1|E1].
  { destruct (N.ltb_spec (fo s) (ioff cur)) as [E2|E2]; [|repeat split; assumption].
    rewrite (wsub_small (ioff cur) (fo s)) by lia.
    set (jump := N.min (ioff cur - fo s) (lenN (offs s))).
    assert (Hj : fo s + jump < W) by lia.
    unfold Inv. cbn [fb fo batches offs pk2 bnil]. rewrite (wadd_small _ _ Hj).
    repeat split; try assumption.
    destruct Hoffs as [->|(H1 & H2 & H3)].
    - left. now rewrite skipn_nil.
    - right. repeat split; try assumption.
      replace jump with (N.of_nat (N.to_nat jump)) at 1 by lia. apply offs_ok_skipn. exact H2. }
  destruct (N.ltb_spec (wadd (ibatch cur) 1) (fb s)) as [E2|E2]; [repeat split; assumption|].
  (* moving forward into a new batch: cur.Batch + 1 did not wrap *)
  assert (Hnw : ibatch cur + 1 < W /\ fb s <= ibatch cur).
  { destruct (wadd_top _ Hcb) as [H|[_ H]]; [|lia]. rewrite (wadd_small _ _ H) in *. lia. }
  destruct Hnw as [Hnw Hge].
  rewrite (wsub_small _ _ Hge Hcb).
  destruct (N.ltb_spec (lenN (batches s)) (ibatch cur - fb s)) as [E3|E3].
  { destruct (bnil s); unfold Inv; cbn [fb fo batches offs pk2 bnil]; repeat split; try assumption;
      try (left; reflexivity); try rewrite lenN_nil; try lia; exact I. }
  rewrite (wadd_small (fb s) (ibatch cur - fb s)) by lia.
  replace (fb s + (ibatch cur - fb s)) with (ibatch cur) by lia.
  pose proof (consec_skipn (N.to_nat (ibatch cur - fb s)) _ _ Hcs) as Hcs'.
  replace (fb s + N.of_nat (N.to_nat (ibatch cur - fb s))) with (ibatch cur) in Hcs' by lia.
  skipn_cases (ibatch cur - fb s) (batches s) E HL.
  { unfold Inv; cbn [fb fo batches offs pk2 bnil]. rewrite lenN_nil.
    repeat split; try assumption; try lia. left. reflexivity. }
  assert (Hcs'' : consec (ibatch cur) (b :: l)) by (rewrite <- E; exact Hcs').
  destruct Hcs'' as [-> Hcs''].
  rewrite (wadd_small _ _ Hnw).
  unfold Inv; cbn [fb fo batches offs pk2 bnil].
  repeat split; try assumption; try lia.
  right. replace (ibatch cur + 1 - 1) with (ibatch cur) by lia.
  repeat split; try lia. apply offs_ok_seqN.
Qed.

Lemma step_inv s o : Inv s -> wf_op o -> Inv (step s o).
Proof.
  destruct o as [c K|]; cbn [step wf_op]; intros H Hw.
  - apply delete_inv; tauto.
  - apply reload_inv. exact H.
Qed.

Lemma run_inv ops : forall s, Inv s -> Forall wf_op ops -> Inv (run s ops).
Proof.
  induction ops as [|o ops IH]; intros s H Hw; [exact H|].
  cbn [run fold_left]. inversion Hw; subst. apply IH; [|assumption]. apply step_inv; assumption.
Qed.

(* ---------- what a state can sign for ---------- *)
Lemma derivable_cond s id : Inv s -> (derivable s id <-> cond s id).
Proof.
  intros (Hfb & Hfo & Hcs & Hsum & Hoffs & Hnil). unfold derivable, cond.
  rewrite (consec_In _ _ _ Hcs). split.
  - intros [H|(k & Hin & H1 & H2 & H3)]; [left; exact H|]. right.
    destruct Hoffs as [E|(Hf & Hok & _)]; [rewrite E in Hin; destruct Hin|].
    apply (offs_ok_In _ _ _ _ Hok) in Hin. destruct Hin as (x & -> & Hx1 & Hx2).
    cbn [ok_signer ok_batch ok_off] in *. lia.
  - intros [H|(H1 & H2 & H3)]; [left; exact H|]. right.
    destruct Hoffs as [E|(Hf & Hok & _)]; [rewrite E, lenN_nil in H3; lia|].
    exists (mkOk (ibatch id) (ibatch id) (ioff id)). split; [|cbn; tauto].
    apply (offs_ok_In _ _ _ _ Hok). exists (ioff id). split; [f_equal; lia|]. lia.
Qed.

(* Sign, characterised: on every reachable state Sign returns a signature that verifies
   (and only for exactly that identifier and message) when a key for id is held, and the
   empty signature otherwise *)
Lemma sign_cond s id m : Inv s -> wf_id id -> cond s id ->
  exists p, sign s id m = SigVal m p (ibatch id) (ioff id) (Some p) /\ p = ibatch id.
Proof.
  intros (Hfb & Hfo & Hcs & Hsum & Hoffs & Hnil) (Hb & Ho) Hc. unfold sign.
  destruct Hc as [(H1 & H2)|(H1 & H2 & H3)].
  - (* batch key: the first test fails or ... it cannot succeed since ibatch id + 1 > fb *)
    assert (Hfirst : (wadd (ibatch id) 1 =? fb s) && (fo s <=? ioff id) &&
                     (wsub (ioff id) (fo s) <? lenN (offs s)) = false).
    { destruct (wadd_top _ Hb) as [H|[_ H]].
      - rewrite (wadd_small _ _ H). replace (ibatch id + 1 =? fb s) with false by (symmetry; apply N.eqb_neq; lia).
        reflexivity.
      - rewrite H. destruct (N.eqb_spec 0 (fb s)) as [E0|E0]; [|reflexivity].
        destruct Hoffs as [E|(Hf & _)]; [|lia]. rewrite E, lenN_nil.
        apply andb_false_intro2. apply N.ltb_ge. lia. }
    rewrite Hfirst.
    rewrite (wsub_small _ _ H1 Hb).
    replace (fb s <=? ibatch id) with true by (symmetry; apply N.leb_le; lia).
    replace (ibatch id - fb s <? lenN (batches s)) with true by (symmetry; apply N.ltb_lt; lia).
    cbn [andb].
    destruct (nth_error (batches s) (N.to_nat (ibatch id - fb s))) as [k|] eqn:E.
    + apply (consec_nth _ _ _ _ Hcs) in E. exists k. split; [reflexivity|]. lia.
    + apply nth_error_None in E. unfold lenN in H2. lia.
  - destruct Hoffs as [E|(Hf & Hok & Hpk)]; [rewrite E, lenN_nil in H3; lia|].
    assert (Hs : ibatch id + 1 < W) by lia.
    rewrite (wadd_small _ _ Hs), (wsub_small _ _ H2 Ho).
    replace (ibatch id + 1 =? fb s) with true by (symmetry; apply N.eqb_eq; lia).
    replace (fo s <=? ioff id) with true by (symmetry; apply N.leb_le; lia).
    replace (ioff id - fo s <? lenN (offs s)) with true by (symmetry; apply N.ltb_lt; lia).
    cbn [andb].
    destruct (nth_error (offs s) (N.to_nat (ioff id - fo s))) as [k|] eqn:E.
    + apply (offs_ok_nth _ _ _ _ _ Hok) in E. subst k. cbn [ok_signer ok_batch ok_off].
      rewrite Hpk. exists (fb s - 1).
      replace (fo s + N.of_nat (N.to_nat (ioff id - fo s))) with (ioff id) by lia.
      split; [|lia]. replace (fb s - 1) with (ibatch id) by lia. reflexivity.
    + apply nth_error_None in E. unfold lenN in H3. lia.
Qed.

Lemma sign_not_cond s id m : Inv s -> wf_id id -> ~ cond s id -> sign s id m = SigEmpty.
Proof.
  intros (Hfb & Hfo & Hcs & Hsum & Hoffs & Hnil) (Hb & Ho) Hc. unfold sign, cond in *.
  destruct ((wadd (ibatch id) 1 =? fb s) && (fo s <=? ioff id) && (wsub (ioff id) (fo s) <? lenN (offs s))) eqn:E1.
  { exfalso. apply andb_prop in E1. destruct E1 as [E1 E3]. apply andb_prop in E1. destruct E1 as [E1 E2].
    apply N.eqb_eq in E1. apply N.leb_le in E2. apply N.ltb_lt in E3.
    rewrite (wsub_small _ _ E2 Ho) in E3.
    destruct Hoffs as [E|(Hf & _)]; [rewrite E, lenN_nil in E3; lia|].
    destruct (wadd_top _ Hb) as [H|[_ H]]; [rewrite (wadd_small _ _ H) in E1|lia].
    apply Hc. right. lia. }
  destruct ((fb s <=? ibatch id) && (wsub (ibatch id) (fb s) <? lenN (batches s))) eqn:E2; [|reflexivity].
  exfalso. apply andb_prop in E2. destruct E2 as [E2 E3]. apply N.leb_le in E2. apply N.ltb_lt in E3.
  rewrite (wsub_small _ _ E2 Hb) in E3. apply Hc. left. lia.
Qed.

Lemma cond_dec s id : cond s id \/ ~ cond s id.
Proof. unfold cond. lia. Qed.

Lemma verify_sign s id m : Inv s -> wf_id id -> (verify id m (sign s id m) = true <-> cond s id).
Proof.
  intros HI Hw. split.
  - intros H. destruct (cond_dec s id) as [Hc|Hc]; [exact Hc|].
    rewrite (sign_not_cond _ _ _ HI Hw Hc) in H. discriminate.
  - intros Hc. destruct (sign_cond _ _ m HI Hw Hc) as (p & -> & ->). cbn [verify].
    rewrite !N.eqb_refl. reflexivity.
Qed.

(* ---------- DeleteBeforeFineGrained and the set of signable identifiers ---------- *)

(* forward security of one deletion: nothing below the deletion point stays signable,
   provided current.Batch + 1 does not wrap *)
Lemma delete_forward s cur K id : Inv s -> wf_id cur -> ibatch cur + 1 < W -> id_lt id cur ->
  ~ cond (delete s cur K) id.
Proof.
  intros (Hfb & Hfo & Hcs & Hsum & Hoffs & Hnil) (Hcb & Hco) Hnw Hlt. unfold id_lt in Hlt.
  unfold delete. rewrite (wadd_small _ _ Hnw).
  destruct (N.eqb_spec (ibatch cur + 1) (fb s)) as [E1|E1].
  { destruct (N.ltb_spec (fo s) (ioff cur)) as [E2|E2].
    - rewrite (wsub_small (ioff cur) (fo s)) by lia.
      unfold cond; cbn [fb fo batches offs]. rewrite lenN_skipn. rewrite wadd_small by lia. lia.
    - unfold cond. lia. }
  destruct (N.ltb_spec (ibatch cur + 1) (fb s)) as [E2|E2]; [unfold cond; lia|].
  assert (Hge : fb s <= ibatch cur) by lia. rewrite (wsub_small _ _ Hge Hcb).
  destruct (N.ltb_spec (lenN (batches s)) (ibatch cur - fb s)) as [E3|E3].
  { destruct (bnil s) eqn:Eb; unfold cond; cbn [fb fo batches offs]; rewrite ?(@lenN_nil N), ?(@lenN_nil bkey), ?(@lenN_nil okey).
    - rewrite (Hnil eq_refl), lenN_nil. lia.
    - lia. }
  rewrite (wadd_small (fb s) (ibatch cur - fb s)) by lia.
  replace (fb s + (ibatch cur - fb s)) with (ibatch cur) by lia.
  skipn_cases (ibatch cur - fb s) (batches s) E HL.
  { unfold cond; cbn [fb fo batches offs]; rewrite ?(@lenN_nil N), ?(@lenN_nil bkey), ?(@lenN_nil okey). lia. }
  rewrite (wadd_small _ _ Hnw).
  unfold cond; cbn [fb fo batches offs]. rewrite lenN_map_seqN. lia.
Qed.

(* one deletion keeps every held identifier at or above the deletion point, up to the key
   dilution passed *)
Lemma delete_still s cur K id : Inv s -> wf_id cur -> wf_id id ->
  cond s id -> id_le cur id -> ioff id < K -> cond (delete s cur K) id.
Proof.
  intros (Hfb & Hfo & Hcs & Hsum & Hoffs & Hnil) (Hcb & Hco) (Hib & Hio) Hc Hle HK.
  unfold id_le, id_lt in Hle. unfold delete.
  destruct (N.eqb_spec (wadd (ibatch cur) 1) (fb s)) as [E1|E1].
  { destruct (N.ltb_spec (fo s) (ioff cur)) as [E2|E2]; [|exact Hc].
    rewrite (wsub_small (ioff cur) (fo s)) by lia.
    unfold cond in *; cbn [fb fo batches offs]. rewrite lenN_skipn.
    destruct (wadd_top _ Hcb) as [H|[H0 H]].
    - rewrite (wadd_small _ _ H) in E1. rewrite wadd_small by lia. lia.
    - (* cur.Batch = 2^64-1, FirstBatch = 0: no offset keys can be held *)
      rewrite H in E1. destruct Hoffs as [E|(Hf & _)]; [|lia].
      rewrite E, lenN_nil in *. rewrite wadd_small by lia. lia. }
  destruct (N.ltb_spec (wadd (ibatch cur) 1) (fb s)) as [E2|E2]; [exact Hc|].
  assert (Hnw : ibatch cur + 1 < W /\ fb s <= ibatch cur).
  { destruct (wadd_top _ Hcb) as [H|[_ H]]; [|lia]. rewrite (wadd_small _ _ H) in *. lia. }
  destruct Hnw as [Hnw Hge].
  rewrite (wsub_small _ _ Hge Hcb).
  (* the identifier is >= cur, hence held through a batch key, hence no running out *)
  assert (Hb : fb s <= ibatch id /\ ibatch id < fb s + lenN (batches s)) by (unfold cond in Hc; lia).
  destruct (N.ltb_spec (lenN (batches s)) (ibatch cur - fb s)) as [E3|E3]; [lia|].
  rewrite (wadd_small (fb s) (ibatch cur - fb s)) by lia.
  replace (fb s + (ibatch cur - fb s)) with (ibatch cur) by lia.
  skipn_cases (ibatch cur - fb s) (batches s) E HL; [lia|].
  rewrite (wadd_small _ _ Hnw).
  unfold cond; cbn [fb fo batches offs]. rewrite lenN_map_seqN. lia.
Qed.

(* the derivable set only shrinks -- for EVERY state, reachable or not *)
Lemma delete_monotone s cur K id : derivable (delete s cur K) id -> derivable s id.
Proof.
  unfold delete.
  destruct (wadd (ibatch cur) 1 =? fb s).
  { destruct (fo s <? ioff cur); [|tauto].
    unfold derivable; cbn [batches offs]. intros [H|(k & Hin & H)]; [left; exact H|].
    right. exists k. split; [|exact H]. eapply In_skipn. exact Hin. }
  destruct (wadd (ibatch cur) 1 <? fb s); [tauto|].
  destruct (lenN (batches s) <? wsub (ibatch cur) (fb s)).
  { destruct (bnil s); unfold derivable; cbn [batches offs]; intros [H|(k & [] & _)];
      [left; exact H|destruct H]. }
  destruct (skipn (N.to_nat (wsub (ibatch cur) (fb s))) (batches s)) as [|k0 rest] eqn:E;
    unfold derivable; cbn [batches offs].
  { intros [[]|(k & [] & _)]. }
  assert (Hsub : forall x, In x (k0 :: rest) -> In x (batches s)).
  { intros x Hx. rewrite <- E in Hx. eapply In_skipn. exact Hx. }
  intros [H|(k & Hin & H1 & H2 & H3)].
  - left. apply Hsub. right. exact H.
  - (* a new offset key is certified by Batches[0]: it only helps for that key's own batch *)
    left. apply in_map_iff in Hin. destruct Hin as (off & <- & _).
    cbn [ok_signer ok_batch ok_off] in *. subst k0. apply Hsub. left. reflexivity.
Qed.

Lemma step_monotone s o id : derivable (step s o) id -> derivable s id.
Proof. destruct o as [c K|]; cbn [step]; [apply delete_monotone|]. unfold derivable, reload. cbn [batches offs]. tauto. Qed.

Lemma run_monotone ops : forall s id, derivable (run s ops) id -> derivable s id.
Proof.
  induction ops as [|o ops IH]; intros s id H; [exact H|].
  cbn [run fold_left] in H. apply step_monotone with (o := o). apply IH. exact H.
Qed.

(* ---------- forging from held material ---------- *)
Lemma derivable_can_make s id m :
  derivable s id <-> exists sg, can_make s sg /\ verify id m sg = true.
Proof.
  split.
  - intros [H|(k & Hin & H1 & H2 & H3)].
    + exists (SigVal m (ibatch id) (ibatch id) (ioff id) (Some (ibatch id))). split.
      * apply cm_batch. exact H.
      * cbn [verify]. rewrite !N.eqb_refl. reflexivity.
    + exists (SigVal m (ok_signer k) (ok_batch k) (ok_off k) (Some (ibatch id))). split.
      * apply cm_off. exact Hin.
      * cbn [verify]. rewrite H1, H2, H3, !N.eqb_refl. reflexivity.
  - intros (sg & Hc & Hv). destruct Hc as [k m' b o Hin|k m' p Hin]; cbn [verify] in Hv.
    + apply andb_prop in Hv. destruct Hv as [Hv _]. apply andb_prop in Hv. destruct Hv as [Hv _].
      apply andb_prop in Hv. destruct Hv as [Hv _]. apply andb_prop in Hv. destruct Hv as [Hv _].
      apply N.eqb_eq in Hv. subst k. left. exact Hin.
    + destruct p as [p|]; [|discriminate].
      apply andb_prop in Hv. destruct Hv as [Hv _]. apply andb_prop in Hv. destruct Hv as [Hv H3].
      apply andb_prop in Hv. destruct Hv as [Hv H2]. apply andb_prop in Hv. destruct Hv as [H0 H1].
      apply N.eqb_eq in H0, H1, H2, H3. right. exists k. subst p. tauto.
Qed.

(* Sign never indexes out of range and only uses held key material -- for EVERY state *)
Lemma sign_no_panic s id m : sign s id m <> SigPanic.
Proof.
  unfold sign.
  destruct ((wadd (ibatch id) 1 =? fb s) && (fo s <=? ioff id) && (wsub (ioff id) (fo s) <? lenN (offs s))) eqn:E1.
  { apply andb_prop in E1. destruct E1 as [_ E3]. apply N.ltb_lt in E3.
    destruct (nth_error (offs s) (N.to_nat (wsub (ioff id) (fo s)))) eqn:E; [discriminate|].
    apply nth_error_None in E. unfold lenN in E3. lia. }
  destruct ((fb s <=? ibatch id) && (wsub (ibatch id) (fb s) <? lenN (batches s))) eqn:E2; [|discriminate].
  apply andb_prop in E2. destruct E2 as [_ E3]. apply N.ltb_lt in E3.
  destruct (nth_error (batches s) (N.to_nat (wsub (ibatch id) (fb s)))) eqn:E; [discriminate|].
  apply nth_error_None in E. unfold lenN in E3. lia.
Qed.

Lemma sign_can_make s id m : sign s id m = SigEmpty \/ can_make s (sign s id m).
Proof.
  pose proof (sign_no_panic s id m) as Hp. unfold sign in *.
  destruct ((wadd (ibatch id) 1 =? fb s) && (fo s <=? ioff id) && (wsub (ioff id) (fo s) <? lenN (offs s))).
  { destruct (nth_error (offs s) (N.to_nat (wsub (ioff id) (fo s)))) eqn:E; [|congruence].
    right. apply cm_off. eapply nth_error_In. exact E. }
  destruct ((fb s <=? ibatch id) && (wsub (ibatch id) (fb s) <? lenN (batches s))); [|left; reflexivity].
  destruct (nth_error (batches s) (N.to_nat (wsub (ibatch id) (fb s)))) eqn:E; [|congruence].
  right. apply cm_batch. eapply nth_error_In. exact E.
Qed.

Lemma sign_total s id m :
  sign s id m <> SigPanic /\ (sign s id m = SigEmpty \/ can_make s (sign s id m)).
Proof. split; [apply sign_no_panic|apply sign_can_make]. Qed.

(* ---------- histories ---------- *)
Definition reach (start n : N) (ops : list op) : secrets := run (generate start n) ops.

Lemma reach_inv start n ops : start < W -> start + n <= W -> Forall wf_op ops -> Inv (reach start n ops).
Proof. intros. apply run_inv; [apply generate_inv|]; assumption. Qed.

Lemma run_app s ops ops' : run s (ops ++ ops') = run (run s ops) ops'.
Proof. unfold run. apply fold_left_app. Qed.

(* forward security, for all histories before and after the deletion *)
Lemma forward_secure start n ops cur K ops' id :
  start < W -> start + n <= W -> Forall wf_op ops -> wf_id cur ->
  ibatch cur + 1 < W -> id_lt id cur ->
  ~ derivable (run (delete (reach start n ops) cur K) ops') id.
Proof.
  intros H1 H2 Hw Hc Hnw Hlt Hd. apply run_monotone in Hd.
  pose proof (reach_inv start n ops H1 H2 Hw) as HI.
  apply (derivable_cond _ _ (delete_inv _ _ K HI Hc)) in Hd.
  exact (delete_forward _ _ _ _ HI Hc Hnw Hlt Hd).
Qed.

Lemma forward_secure_sign start n ops cur K ops' id m :
  start < W -> start + n <= W -> Forall wf_op ops -> wf_id cur -> Forall wf_op ops' ->
  ibatch cur + 1 < W -> id_lt id cur -> wf_id id ->
  sign (run (delete (reach start n ops) cur K) ops') id m = SigEmpty.
Proof.
  intros H1 H2 Hw Hc Hw' Hnw Hlt Hid.
  pose proof (reach_inv start n ops H1 H2 Hw) as HI.
  assert (HI' : Inv (run (delete (reach start n ops) cur K) ops')).
  { apply run_inv; [apply delete_inv|]; assumption. }
  apply sign_not_cond; [exact HI'|exact Hid|].
  intros Hcd. apply (derivable_cond _ _ HI') in Hcd.
  exact (forward_secure start n ops cur K ops' id H1 H2 Hw Hc Hnw Hlt Hcd).
Qed.

(* every deletion point of the history is at or below id, with a dilution above id's offset *)
Definition op_keeps (id : ident) (o : op) : Prop :=
  match o with Del c K => id_le c id /\ ioff id < K | Reload => True end.

Lemma run_still id ops : forall s, Inv s -> wf_id id -> Forall wf_op ops -> Forall (op_keeps id) ops ->
  cond s id -> cond (run s ops) id.
Proof.
  induction ops as [|o ops IH]; intros s HI Hid Hw Hk Hc; [exact Hc|].
  cbn [run fold_left]. inversion Hw; subst. inversion Hk; subst.
  apply IH; try assumption.
  - apply step_inv; assumption.
  - destruct o as [c K|]; cbn [step].
    + cbn in H1, H3. apply delete_still; tauto.
    + apply reload_cond. exact Hc.
Qed.

Lemma still_signs start n ops id m :
  start < W -> start + n <= W -> Forall wf_op ops -> wf_id id ->
  Forall (op_keeps id) ops -> start <= ibatch id -> ibatch id < start + n ->
  verify id m (sign (reach start n ops) id m) = true.
Proof.
  intros H1 H2 Hw Hid Hk Hlo Hhi.
  apply verify_sign; [apply reach_inv; assumption|exact Hid|].
  apply run_still; try assumption.
  - apply generate_inv; assumption.
  - apply generate_cond. lia.
Qed.

(* the finding: with current.Batch = 2^64-1 nothing is deleted *)
Lemma forward_secure_refuted :
  exists start n cur K id m,
    start < W /\ start + n <= W /\ wf_id cur /\ wf_id id /\ K < W /\ id_lt id cur /\
    verify id m (sign (delete (generate start n) cur K) id m) = true.
Proof.
  exists 1, 1, (mkId (W - 1) 1), 1, (mkId 1 0), 7.
  repeat split; try reflexivity; try (cbn; unfold W; lia).
  left. cbn. unfold W. lia.
Qed.
