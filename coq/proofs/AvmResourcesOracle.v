(* C35 proofs, part 4: the executable oracle [justified_b] that [check] applies to the resources the
   implementation touched decides the declarative rule [justified]. *)
From Coq Require Import List NArith Bool Lia ZifyN ZifyNat ZifyBool.
From Verif.lib Require Import Term.
From Verif.model Require Import AvmResources AvmResourcesSpec.
From Verif.proofs Require Import AvmResourcesFill.
Import ListNotations.
Open Scope N_scope.

Lemma nzb_iff : forall x, nzb x = true <-> x <> 0.
Proof. intro x. unfold nzb. rewrite negb_true_iff. apply N.eqb_neq. Qed.

Lemma rref_eqb_eq : forall x y, rref_eqb x y = true <-> x = y.
Proof.
  intros x y. destruct x, y; simpl; try (split; [discriminate|congruence]);
    rewrite ?andb_true_iff, ?N.eqb_eq, ?bytes_eqb_eq; split; intro H; try congruence;
    try (destruct H; congruence); try (inversion H; auto).
Qed.

Lemma mem_rref_In : forall x l, mem_rref x l = true <-> In x l.
Proof.
  intros x l. unfold mem_rref. rewrite existsb_exists. split.
  - intros [y [Hy E]]. apply rref_eqb_eq in E. subst. exact Hy.
  - intro H. exists x. split. exact H. apply rref_eqb_eq. reflexivity.
Qed.

Lemma opt_pair_is_iff : forall o a n, opt_pair_is o a n = true <-> o = Some (a, n).
Proof.
  intros [[a' n']|] a n; simpl.
  - rewrite andb_true_iff, !N.eqb_eq. split. intros [-> ->]. reflexivity. intro H. inversion H. auto.
  - split; discriminate.
Qed.

Section Oracle.
Variable appaddr : N -> addr.

Notation names_acct := (names_acct appaddr).
Notation names_hold := (names_hold appaddr).
Notation names_loc := (names_loc appaddr).
Notation foreign_account := (foreign_account appaddr).

Lemma foreign_account_b_iff : forall s ap a, foreign_account_b appaddr s ap a = true <-> foreign_account s ap a.
Proof.
  intros. unfold foreign_account_b, AvmResourcesSpec.foreign_account.
  rewrite !orb_true_iff, andb_true_iff, nzb_iff, !N.eqb_eq, memN_In, existsb_eq_In. tauto.
Qed.

Lemma foreign_app_b_iff : forall ap p, foreign_app_b ap p = true <-> foreign_app ap p.
Proof.
  intros. unfold foreign_app_b, foreign_app. rewrite orb_true_iff, andb_true_iff, nzb_iff, N.eqb_eq, memN_In. tauto.
Qed.

Lemma names_acct_b_iff : forall t a, names_acct_b appaddr t a = true <-> names_acct t a.
Proof.
  intros t a. destruct t as [s rcv cl|s|s id|s id rcv asnd cl|s id f|s ap|s]; simpl;
    rewrite ?orb_true_iff, ?andb_true_iff, ?nzb_iff, ?N.eqb_eq; try tauto.
  - destruct (ap_access ap).
    + rewrite orb_true_iff, andb_true_iff, nzb_iff, N.eqb_eq, mem_rref_In. tauto.
    + apply foreign_account_b_iff.
  - split. discriminate. contradiction.
Qed.

Lemma names_asset_b_iff : forall t n, names_asset_b t n = true <-> names_asset t n.
Proof.
  intros t n. destruct t as [s rcv cl|s|s id|s id rcv asnd cl|s id f|s ap|s]; simpl;
    rewrite ?orb_true_iff, ?andb_true_iff, ?nzb_iff, ?N.eqb_eq; try tauto;
    try (split; [discriminate|contradiction]).
  destruct (ap_access ap).
  - rewrite andb_true_iff, nzb_iff, mem_rref_In. tauto.
  - apply memN_In.
Qed.

Lemma names_app_b_iff : forall t p, names_app_b t p = true <-> names_app t p.
Proof.
  intros t p. destruct t as [s rcv cl|s|s id|s id rcv asnd cl|s id f|s ap|s]; simpl;
    try (split; [discriminate|contradiction]).
  destruct (ap_access ap).
  - rewrite orb_true_iff, !andb_true_iff, !nzb_iff, N.eqb_eq, mem_rref_In. tauto.
  - apply foreign_app_b_iff.
Qed.

Lemma names_hold_b_iff : forall t a n, names_hold_b appaddr t a n = true <-> names_hold t a n.
Proof.
  intros t a n. destruct t as [s rcv cl|s|s id|s id rcv asnd cl|s id f|s ap|s]; simpl;
    try (split; [discriminate|contradiction]).
  - rewrite !andb_true_iff, !orb_true_iff, !andb_true_iff, !nzb_iff, !N.eqb_eq. tauto.
  - rewrite !andb_true_iff, !nzb_iff, !N.eqb_eq. tauto.
  - destruct (ap_access ap) as [l|].
    + rewrite existsb_exists. split.
      * intros [rr [H1 H2]]. destruct rr; try discriminate. apply opt_pair_is_iff in H2. exists ai, si. auto.
      * intros [ai [si [H1 H2]]]. exists (RHold ai si). split. exact H1. apply opt_pair_is_iff. exact H2.
    + rewrite andb_true_iff, foreign_account_b_iff, memN_In. tauto.
Qed.

Lemma names_loc_b_iff : forall t a p, names_loc_b appaddr t a p = true <-> names_loc t a p.
Proof.
  intros t a p. destruct t as [s rcv cl|s|s id|s id rcv asnd cl|s id f|s ap|s]; simpl;
    try (split; [discriminate|contradiction]).
  destruct (ap_access ap) as [l|].
  - rewrite orb_true_iff, !andb_true_iff, nzb_iff, !N.eqb_eq, existsb_exists. split.
    + intros [H|[rr [H1 H2]]]. left. tauto.
      destruct rr; try discriminate. apply andb_true_iff in H2. destruct H2 as [H0 H2].
      apply opt_pair_is_iff in H2. right. exists ai, pi. split; auto. split; auto.
      apply negb_true_iff, andb_false_iff in H0. destruct H0 as [H0|H0]; apply N.eqb_neq in H0; auto.
    + intros [H|[ai [pi [H1 [H0 H2]]]]]. left. tauto.
      right. exists (RLoc ai pi). split. exact H1. apply andb_true_iff. split.
      * apply negb_true_iff, andb_false_iff. destruct H0 as [H0|H0]; apply N.eqb_neq in H0; auto.
      * apply opt_pair_is_iff. exact H2.
  - rewrite andb_true_iff, foreign_account_b_iff, foreign_app_b_iff. tauto.
Qed.

Lemma box_target_b_iff : forall ap app0 app, box_target_b ap app0 app = true <-> box_target ap app0 app.
Proof.
  intros. unfold box_target_b, box_target. rewrite orb_true_iff, !andb_true_iff, !nzb_iff, !N.eqb_eq. tauto.
Qed.

Lemma nil_test : forall (nm : bytes), (match nm with [] => true | _ => false end) = true <-> nm = [].
Proof. intros [|x nm]; split; congruence. Qed.

Lemma names_box_b_iff : forall t app name, names_box_b t app name = true <-> names_box t app name.
Proof.
  intros t app name. destruct t as [s rcv cl|s|s id|s id rcv asnd cl|s id f|s ap|s]; simpl;
    try (split; [discriminate|contradiction]).
  destruct (ap_access ap) as [l|].
  - rewrite existsb_exists. split.
    + intros [rr [H1 H2]]. destruct rr; try discriminate.
      apply andb_true_iff in H2. destruct H2 as [H2 H3]. apply andb_true_iff in H2. destruct H2 as [H2 H0].
      apply bytes_eqb_eq in H2. subst name0.
      destruct (resolve_box l idx) as [app0|] eqn:E; try discriminate.
      exists idx, app0. split; auto. split.
      * apply negb_true_iff, andb_false_iff in H0. destruct H0 as [H0|H0].
        left. apply N.eqb_neq. exact H0. right. intro G. apply nil_test in G. congruence.
      * split; auto. apply box_target_b_iff. exact H3.
    + intros [idx [app0 [H1 [H0 [H2 H3]]]]]. exists (RBox idx name). split. exact H1.
      rewrite H2. apply andb_true_iff. split. apply andb_true_iff. split.
      * apply bytes_eqb_eq. reflexivity.
      * apply negb_true_iff, andb_false_iff. destruct H0 as [H0|H0].
        left. apply N.eqb_neq. exact H0. right. destruct name; congruence.
      * apply box_target_b_iff. exact H3.
  - rewrite existsb_exists. split.
    + intros [[idx nm] [H1 H2]]. simpl in H2. apply andb_true_iff in H2. destruct H2 as [H2 H3].
      apply bytes_eqb_eq in H2. subst nm. exists idx. split. exact H1.
      destruct (N.eqb_spec idx 0).
      * left. split; auto. apply box_target_b_iff. exact H3.
      * right. split; auto. destruct (nth1 (ap_fapps ap) idx) as [app0|]; try discriminate.
        exists app0. split; auto. apply box_target_b_iff. exact H3.
    + intros [idx [H1 H2]]. exists (idx, name). split. exact H1. simpl.
      apply andb_true_iff. split. apply bytes_eqb_eq. reflexivity.
      destruct H2 as [[Hi H2]|[Hi [app0 [Hn H2]]]].
      * subst idx. simpl. apply box_target_b_iff. exact H2.
      * destruct (N.eqb_spec idx 0). contradiction. rewrite Hn. apply box_target_b_iff. exact H2.
Qed.

Lemma create_names_box_b_iff : forall ap name, create_names_box_b ap name = true <-> create_names_box ap name.
Proof.
  intros. unfold create_names_box_b, create_names_box.
  rewrite orb_true_iff, andb_true_iff, memB_In, mem_rref_In, negb_true_iff. split.
  - intros [H|[H1 H2]]; auto. right. split; auto. intro G. subst. discriminate.
  - intros [H|[H1 H2]]; auto. right. split; auto. destruct name; congruence.
Qed.

Lemma group_names_b_iff : forall {A} (w : world) (Pb : txn -> A -> bool) (P : txn -> A -> Prop) x,
  (forall t, Pb t x = true <-> P t x) -> group_names_b w Pb x = true <-> group_names w P x.
Proof.
  intros A w Pb P x H. unfold group_names_b, group_names. rewrite existsb_exists.
  split; intros [t [H1 H2]]; exists t; split; auto; apply H; exact H2.
Qed.

Variable w : world.

Lemma J_acct_b_iff : forall a, J_acct_b appaddr w a = true <-> J_acct appaddr w a.
Proof.
  intro a. unfold J_acct_b, AvmResourcesSpec.J_acct, shared_b, shared.
  rewrite !orb_true_iff, !andb_true_iff, !N.leb_le, !N.eqb_eq, nzb_iff, memN_In, mem_rref_In, !existsb_eq_In.
  rewrite (group_names_b_iff w (names_acct_b appaddr) names_acct a (fun t => names_acct_b_iff t a)). tauto.
Qed.

Lemma J_asset_b_iff : forall n, J_asset_b w n = true <-> J_asset w n.
Proof.
  intro n. unfold J_asset_b, J_asset, shared_b, shared.
  rewrite !orb_true_iff, !andb_true_iff, !N.leb_le, nzb_iff, !memN_In, mem_rref_In.
  rewrite (group_names_b_iff w names_asset_b names_asset n (fun t => names_asset_b_iff t n)). tauto.
Qed.

Lemma J_app_b_iff : forall p, J_app_b w p = true <-> J_app w p.
Proof.
  intro p. unfold J_app_b, J_app, shared_b, shared.
  rewrite !orb_true_iff, !andb_true_iff, !N.leb_le, nzb_iff, !memN_In, mem_rref_In, N.eqb_eq.
  rewrite (group_names_b_iff w names_app_b names_app p (fun t => names_app_b_iff t p)). tauto.
Qed.

Lemma J_hold_b_iff : forall a n, J_hold_b appaddr w a n = true <-> J_hold appaddr w a n.
Proof.
  intros a n. unfold J_hold_b, AvmResourcesSpec.J_hold.
  destruct (sharedResourcesVersion <=? w_version w).
  - rewrite !orb_true_iff, !andb_true_iff, memN_In, existsb_eq_In, J_acct_b_iff, J_asset_b_iff.
    rewrite (group_names_b_iff w (fun t => names_hold_b appaddr t a) (fun t => names_hold t a) n
               (fun t => names_hold_b_iff t a n)). tauto.
  - rewrite andb_true_iff, J_acct_b_iff, J_asset_b_iff. tauto.
Qed.

Lemma J_loc_b_iff : forall a p, J_loc_b appaddr w a p = true <-> J_loc appaddr w a p.
Proof.
  intros a p. unfold J_loc_b, AvmResourcesSpec.J_loc.
  destruct (sharedResourcesVersion <=? w_version w).
  - rewrite !orb_true_iff, !andb_true_iff, memN_In, existsb_eq_In, J_acct_b_iff, J_app_b_iff.
    rewrite (group_names_b_iff w (fun t => names_loc_b appaddr t a) (fun t => names_loc t a) p
               (fun t => names_loc_b_iff t a p)). tauto.
  - rewrite andb_true_iff, J_acct_b_iff, J_app_b_iff. tauto.
Qed.

Lemma J_box_b_iff : forall app name, J_box_b w app name = true <-> J_box w app name.
Proof.
  intros app name. unfold J_box_b, J_box. rewrite orb_true_iff, existsb_exists.
  rewrite (group_names_b_iff w (fun t => names_box_b t app) (fun t => names_box t app) name
             (fun t => names_box_b_iff t app name)).
  split; (intros [H|[c [H1 H2]]]; [left; exact H|right; exists c; split; [exact H1|]]).
  - apply andb_true_iff in H2. destruct H2 as [H2 H3]. apply N.eqb_eq in H2.
    apply create_names_box_b_iff in H3. auto.
  - destruct H2 as [H2 H3]. apply andb_true_iff. split. apply N.eqb_eq. exact H2.
    apply create_names_box_b_iff. exact H3.
Qed.

Theorem justified_b_iff : forall r, justified_b appaddr w r = true <-> justified appaddr w r.
Proof.
  intros [a|n|p|a n|a p|app name]; simpl.
  - apply J_acct_b_iff.
  - apply J_asset_b_iff.
  - apply J_app_b_iff.
  - apply J_hold_b_iff.
  - apply J_loc_b_iff.
  - apply J_box_b_iff.
Qed.

End Oracle.
