(* C44: the statements exported to props/C44.v: the generic pool theorems with their premises
   bundled in [evaluator_ok], the soundness of the executable spec oracle, the refutation of
   "over by at most one" and examples. *)
From Coq Require Import NArith ZArith List Bool Lia ZifyN ZifyNat ZifyBool.
Import ListNotations.
From Verif.lib Require Import Term.
From Verif.model Require Import TxPool TxPoolEval TxPoolCheck.
From Verif.proofs Require Import TxPoolProofs TxPoolEvalProofs.
Open Scope N_scope.

(* What the pool theorems need from a block evaluator [tgroup c b g] (c: logical state,
   b: blockTxBytes).  maxb is maxTxnBytesPerBlock, [cseen c id]: the evaluator knows txid id
   (ledger tail or own block). *)
Definition evaluator_ok {cstate txn txid : Type} (txid_eqb : txid -> txid -> bool)
           (tgroup : cstate -> N -> list txn -> eres cstate) (tid : txn -> txid)
           (maxb : N) (cseen : cstate -> txid -> bool) : Prop :=
  (forall a b, txid_eqb a b = true <-> a = b) /\
  (* an empty group is accepted and changes nothing *)
  (forall c b, tgroup c b [] = EOk c b) /\
  (* blockTxBytes only decides between "accepted" and ErrNoSpace *)
  (forall c c' g s b, g <> [] -> tgroup c 0 g = EOk c' s -> b + s <= maxb -> tgroup c b g = EOk c' (b + s)) /\
  (forall c c' g s b, g <> [] -> tgroup c 0 g = EOk c' s -> maxb < b + s -> tgroup c b g = ENoSpace) /\
  (forall c c' g b b', tgroup c b g = EOk c' b' -> exists s, b' = b + s /\ tgroup c 0 g = EOk c' s) /\
  (* duplicate detection: an accepted group has pairwise distinct, unseen txids, which are seen afterwards *)
  (forall c b g c' b', tgroup c b g = EOk c' b' ->
      NoDup (map tid g) /\
      (forall t, In t g -> cseen c (tid t) = false) /\
      (forall id, cseen c id = true -> cseen c' id = true) /\
      (forall t, In t g -> cseen c' (tid t) = true)).

Section Generic.
  Context {cstate lstate txn txid : Type}.
  Variable txid_eqb : txid -> txid -> bool.
  Variable tgroup : cstate -> N -> list txn -> eres cstate.
  Variable cround : cstate -> N.
  Variable start : lstate -> sres cstate.
  Variable tid : txn -> txid.
  Variable tlast : txn -> N.
  Variable tstpf : txn -> bool.
  Variable tspsnd : txn -> bool.
  Variable tfee : txn -> N.
  Variable tenc : txn -> N.
  Variable maxsize expf maxb : N.
  Variable cseen : cstate -> txid -> bool.
  Hypothesis EV : evaluator_ok txid_eqb tgroup tid maxb cseen.

  Notation run := (run txid_eqb tgroup cround start tid tlast tstpf tspsnd tfee tenc maxsize expf).
  Notation init := (init txid_eqb tgroup cround start tid tlast).
  Notation remember := (remember txid_eqb tgroup cround tid tlast tstpf tspsnd tfee tenc maxsize expf).
  Notation step := (step txid_eqb tgroup cround start tid tlast tstpf tspsnd tfee tenc maxsize expf).

  Definition ids_of_groups (gs : list (list txn)) : list txid := map tid (concat gs).

  Theorem g_replays : forall l com0 ops c b,
      let s := run (init l com0) ops in
      p_eval (s_pool s) = Some (c, b) ->
      exists c0 br nr, start (s_base s) = SOk c0 /\
                       replay tgroup cround tlast c0 0 0 (p_pending (s_pool s)) = Some (c, br, nr) /\
                       (nr < p_npwb (s_pool s) \/ (nr = p_npwb (s_pool s) /\ br <= b)).
  Proof.
    destruct EV as [E0 [M0 [M1 [M2 [M3 D1]]]]].
    exact (pool_replays_in_order txid_eqb tgroup cround start tid tlast tstpf tspsnd tfee tenc maxsize expf
                                 maxb cseen E0 M0 M1 M2 M3 D1).
  Qed.

  Theorem g_applies : forall l com0 ops c b,
      let s := run (init l com0) ops in
      p_eval (s_pool s) = Some (c, b) ->
      exists c0, start (s_base s) = SOk c0 /\ capply_all tgroup c0 (p_pending (s_pool s)) = Some c.
  Proof.
    destruct EV as [E0 [M0 [M1 [M2 [M3 D1]]]]].
    exact (pool_applies_in_order txid_eqb tgroup cround start tid tlast tstpf tspsnd tfee tenc maxsize expf
                                 maxb cseen E0 M0 M1 M2 M3 D1).
  Qed.

  Theorem g_nodup : forall l com0 ops,
      let s := run (init l com0) ops in
      NoDup (ids_of_groups (p_pending (s_pool s))) /\
      p_ids (s_pool s) = ids_of_groups (p_pending (s_pool s)).
  Proof.
    destruct EV as [E0 [M0 [M1 [M2 [M3 D1]]]]].
    exact (no_dup_txid txid_eqb tgroup cround start tid tlast tstpf tspsnd tfee tenc maxsize expf
                       maxb cseen E0 M0 M1 M2 M3 D1).
  Qed.

  Theorem g_size : forall l com0 ops,
      let s := run (init l com0) ops in
      txcount (p_pending (s_pool s)) <= maxsize + spcount tstpf (p_pending (s_pool s)) /\
      txcount (p_pending (s_pool s)) <= N.max (s_basecount s) maxsize + (if p_over (s_pool s) then 1 else 0).
  Proof.
    destruct EV as [E0 [M0 [M1 [M2 [M3 D1]]]]].
    exact (size_bound txid_eqb tgroup cround start tid tlast tstpf tspsnd tfee tenc maxsize expf
                      maxb cseen E0 M0 M1 M2 M3 D1).
  Qed.

  Theorem g_admit : forall l com0 ops g p',
      let s := run (init l com0) ops in
      remember (s_pool s) g = (p', None) ->
      p_pending p' = p_pending (s_pool s) ++ [g] /\
      exists c0 c c', start (s_base s) = SOk c0 /\
                      capply_all tgroup c0 (p_pending (s_pool s)) = Some c /\ capply tgroup c g = Some c' /\
                      exists b', p_eval p' = Some (c', b').
  Proof.
    destruct EV as [E0 [M0 [M1 [M2 [M3 D1]]]]].
    exact (admit_implies_applicable txid_eqb tgroup cround start tid tlast tstpf tspsnd tfee tenc maxsize expf
                                    maxb cseen E0 M0 M1 M2 M3 D1).
  Qed.

  Theorem g_no_committed : forall l com0 ops c b id,
      (forall c id, start l = SOk c -> In id com0 -> cseen c id = true) ->
      env_ok start cseen com0 ops ->
      let s := run (init l com0) ops in
      p_eval (s_pool s) = Some (c, b) -> s_base s = p_ledger (s_pool s) ->
      In id (ids_of_groups (p_pending (s_pool s))) -> ~ In id (s_committed s).
  Proof.
    destruct EV as [E0 [M0 [M1 [M2 [M3 D1]]]]].
    exact (no_committed txid_eqb tgroup cround start tid tlast tstpf tspsnd tfee tenc maxsize expf
                        maxb cseen E0 M0 M1 M2 M3 D1).
  Qed.

  Theorem g_syncs : forall s r committed c b,
      (match p_eval (s_pool s) with Some (c, _) => cround c <=? r | None => true end) = true ->
      let s' := fst (step s (OOnNewBlock r committed)) in
      p_eval (s_pool s') = Some (c, b) -> s_base s' = p_ledger (s_pool s').
  Proof.
    exact (on_new_block_syncs txid_eqb tgroup cround start tid tlast tstpf tspsnd tfee tenc maxsize expf).
  Qed.
End Generic.

(* the payments-only evaluator model is such an evaluator *)
Theorem eval_model_ok : forall P, evaluator_ok N.eqb (eval_group P) t_id (ep_maxbytes P) cseen.
Proof.
  intros P. unfold evaluator_ok.
  split; [exact N.eqb_eq|].
  split; [exact (M0_eval P)|].
  split; [exact (M1_eval P)|].
  split; [exact (M2_eval P)|].
  split; [exact (M3_eval P)|].
  exact (D1_eval' P).
Qed.

(* ---------- the executable oracle of the checker ---------- *)
Lemma nodupb_spec : forall l, nodupb l = true <-> NoDup l.
Proof.
  induction l as [|x l IH]; cbn [nodupb].
  - split; [constructor | reflexivity].
  - rewrite andb_true_iff, negb_true_iff, IH. split.
    + intros [Hx Hn]. constructor; [| assumption]. intro Hin.
      assert (existsb (N.eqb x) l = true) by (apply existsb_exists; exists x; split; [assumption | apply N.eqb_refl]).
      congruence.
    + intros Hn. inversion Hn; subst. split; [| assumption].
      destruct (existsb (N.eqb x) l) eqn:E; [| reflexivity].
      apply existsb_exists in E as [y [Hy He]]. apply N.eqb_eq in He. subst. contradiction.
Qed.

Lemma memb_spec : forall x l, memb x l = true <-> In x l.
Proof.
  intros x l. unfold memb. rewrite existsb_exists. split.
  - intros [y [Hy He]]. apply N.eqb_eq in He. subst; assumption.
  - intros Hin. exists x. split; [assumption | apply N.eqb_refl].
Qed.

Lemma same_set_spec : forall a b, same_set a b = true <-> (forall id, In id a <-> In id b).
Proof.
  intros a b. unfold same_set, subsetb. rewrite andb_true_iff, !forallb_forall. split.
  - intros [H1 H2] id. split; intro Hin; apply memb_spec; auto.
  - intros H. split; intros x Hx; apply memb_spec; apply H; assumption.
Qed.

Theorem obs_hard_ok_sound : forall maxsize committed admitted would o,
    obs_hard_ok maxsize committed admitted would o = true <->
    NoDup (concat (o_pend o)) /\
    (o_esync o = true -> o_sync o = true) /\
    (o_esync o = true -> forall id, In id (concat (o_pend o)) -> ~ In id committed) /\
    (o_esync o = true -> o_replay o = (-1)%Z) /\
    total o <= maxsize + o_nsp o /\
    ~ (admitted = true /\ would = 0) /\
    (forall id, In id (o_ids o) <-> In id (concat (o_pend o))) /\
    (forall id, In id (o_lkp o) <-> In id (concat (o_pend o))) /\
    o_cnt o = total o.
Proof.
  intros maxsize committed admitted would o. unfold obs_hard_ok.
  rewrite !andb_true_iff, nodupb_spec, !orb_true_iff, !negb_true_iff, N.leb_le, Z.eqb_eq.
  rewrite forallb_forall, andb_false_iff, !same_set_spec, !N.eqb_eq.
  split.
  - intros [[[[[[[[H1 H0] H2] H3] H4] H5] H6] H7] H8].
    split; [exact H1|]. split.
    { intros Hs. destruct H0 as [H0|H0]; [congruence | assumption]. }
    split.
    { intros Hs id Hin Hc. destruct H2 as [H2|H2]; [congruence|].
      specialize (H2 _ Hin). apply negb_true_iff in H2. apply memb_spec in Hc. congruence. }
    split.
    { intros Hs. destruct H3 as [H3|H3]; [congruence | assumption]. }
    split; [exact H4|]. split.
    { intros [Ha Hw]. destruct H5 as [H5|H5]; [congruence|]. apply N.eqb_neq in H5. congruence. }
    auto.
  - intros [H1 [H0 [H2 [H3 [H4 [H5 [H6 [H7 H8]]]]]]]].
    refine (conj (conj (conj (conj (conj (conj (conj (conj H1 _) _) _) H4) _) H6) H7) H8).
    + destruct (o_esync o); [right; auto | left; reflexivity].
    + destruct (o_esync o); [right | left; reflexivity].
      intros id Hin. apply negb_true_iff. destruct (memb id committed) eqn:E; [| reflexivity].
      apply memb_spec in E. exfalso. exact (H2 eq_refl _ Hin E).
    + destruct (o_esync o); [right; auto | left; reflexivity].
    + destruct admitted; [| left; reflexivity]. right. apply N.eqb_neq. intro Hw. apply H5. auto.
Qed.

(* ---------- how the pending list may change across one call ---------- *)
Inductive Subseq {A : Type} : list A -> list A -> Prop :=
| sub_nil : forall l, Subseq [] l
| sub_take : forall x a b, Subseq a b -> Subseq (x :: a) (x :: b)
| sub_skip : forall x a b, Subseq a b -> Subseq a (x :: b).

Lemma list_eqb_N_spec : forall a b : list N, list_eqb N.eqb a b = true <-> a = b.
Proof.
  induction a as [|x a IH]; destruct b as [|y b]; cbn [list_eqb]; try (split; [discriminate | discriminate]).
  - split; reflexivity.
  - rewrite andb_true_iff, N.eqb_eq, IH. split; [intros [-> ->]; reflexivity | intros H; inversion H; auto].
Qed.

Lemma groups_eqb_spec : forall a b, groups_eqb a b = true <-> a = b.
Proof.
  unfold groups_eqb.
  induction a as [|x a IH]; destruct b as [|y b]; cbn [list_eqb]; try (split; [discriminate | discriminate]).
  - split; reflexivity.
  - rewrite andb_true_iff, list_eqb_N_spec, IH. split; [intros [-> ->]; reflexivity | intros H; inversion H; auto].
Qed.

Lemma is_subseq_tail : forall b x a, is_subseq (x :: a) b = true -> is_subseq a b = true.
Proof.
  induction b as [|y b IH]; intros x a H; cbn [is_subseq] in H; [discriminate|].
  destruct (list_eqb N.eqb x y) eqn:E.
  - destruct a as [|z a']; [reflexivity|]. cbn [is_subseq].
    destruct (list_eqb N.eqb z y); [eapply IH; eauto | exact H].
  - pose proof (IH _ _ H) as H1. destruct a as [|z a']; [reflexivity|]. cbn [is_subseq].
    destruct (list_eqb N.eqb z y); [exact (IH _ _ H1) | exact H1].
Qed.

Lemma is_subseq_spec : forall a b, is_subseq a b = true <-> Subseq a b.
Proof.
  intros a b. split.
  - revert a. induction b as [|y b IH]; intros a H.
    + destruct a; [constructor | discriminate].
    + destruct a as [|x a]; [constructor|]. cbn [is_subseq] in H.
      destruct (list_eqb N.eqb x y) eqn:E.
      * apply list_eqb_N_spec in E. subst. apply sub_take. auto.
      * apply sub_skip. auto.
  - intros H. induction H as [l | x a b H IH | x a b H IH].
    + destruct l; reflexivity.
    + cbn [is_subseq]. assert (E : list_eqb N.eqb x x = true) by (apply list_eqb_N_spec; reflexivity).
      rewrite E. exact IH.
    + destruct a as [|z a]; [reflexivity|]. cbn [is_subseq].
      destruct (list_eqb N.eqb z x); [eapply is_subseq_tail; eauto | exact IH].
Qed.

Theorem obs_trans_ok_sound : forall maxsize opk prev gids spsingle admitted o,
    obs_trans_ok maxsize opk prev gids spsingle admitted o = true <->
    (opk = 1 -> admitted = true ->
       o_pend o = prev ++ [gids] /\ (maxsize < total o -> spsingle = true)) /\
    (opk = 1 -> admitted = false -> o_pend o = prev) /\
    (opk = 2 -> Subseq (o_pend o) prev).
Proof.
  intros maxsize opk prev gids spsingle admitted o. unfold obs_trans_ok.
  destruct (opk =? 1) eqn:E1.
  - apply N.eqb_eq in E1. subst opk. destruct admitted.
    + rewrite andb_true_iff, groups_eqb_spec, orb_true_iff, N.leb_le. split.
      * intros [H1 H2]. split; [| split].
        -- intros _ _. split; [exact H1|]. intros Hlt. destruct H2 as [H2|H2]; [lia | exact H2].
        -- intros _ Hf. discriminate.
        -- intros Hf. discriminate.
      * intros [H1 _]. destruct (H1 eq_refl eq_refl) as [Ha Hb]. split; [exact Ha|].
        destruct (N.le_gt_cases (total o) maxsize) as [Hle|Hgt]; [left; exact Hle | right; exact (Hb Hgt)].
    + rewrite groups_eqb_spec. split.
      * intros H. split; [| split].
        -- intros _ Hf. discriminate.
        -- intros _ _. exact H.
        -- intros Hf. discriminate.
      * intros [_ [H _]]. exact (H eq_refl eq_refl).
  - apply N.eqb_neq in E1. destruct (opk =? 2) eqn:E2.
    + apply N.eqb_eq in E2. subst opk. rewrite is_subseq_spec. split.
      * intros H. split; [| split].
        -- intros Hf. discriminate.
        -- intros Hf. discriminate.
        -- intros _. exact H.
      * intros [_ [_ H]]. exact (H eq_refl).
    + apply N.eqb_neq in E2. split; [| reflexivity]. intros _. split; [| split]; intros; congruence.
Qed.

Theorem overflow_class_sound : forall maxsize o,
    (overflow_class maxsize o = 0 <-> total o <= maxsize) /\
    (overflow_class maxsize o = 1 <-> total o = maxsize + 1) /\
    (overflow_class maxsize o = 2 <-> maxsize + 2 <= total o).
Proof.
  intros maxsize o. unfold overflow_class.
  destruct (total o <=? maxsize) eqn:E1.
  - apply N.leb_le in E1. repeat split; intros; try lia; try discriminate.
  - apply N.leb_gt in E1. destruct (total o =? maxsize + 1) eqn:E2.
    + apply N.eqb_eq in E2. repeat split; intros; try lia; try discriminate.
    + apply N.eqb_neq in E2. repeat split; intros; try lia; try discriminate.
Qed.

(* ---------- "over by at most one" is false ---------- *)
Definition wP : eparams := mkEP 1000 100000 1000 16 5242880 256.
Definition wL : cst := mkCst 770 [(10, 1000000000)] [] [] 512.
Definition w_pay : tx := mkTx 1 0 10 10 1 1000 771 800 0 0 240 200 0.
Definition w_sp1 : tx := mkTx 2 1 A_sp 0 512 0 770 1770 0 0 41500 41480 0.
Definition w_sp2 : tx := mkTx 3 1 A_sp 0 768 0 770 1770 0 0 41500 41480 0.
Definition w_ops : list cop :=
  [CRemember [w_pay]; CRemember [w_sp1]; CBlock []; COnNewBlock 771 []; CRemember [w_sp2]].

Theorem size_by_one_refuted :
  exists P maxsize expf l0 ops s,
    c_blk l0 = [] /\ c_run P maxsize expf (p_init P l0) ops = Some s /\
    txcount (p_pending (s_pool s)) = maxsize + 2.
Proof.
  exists wP, 1, 2, wL, w_ops.
  destruct (c_run wP 1 2 (p_init wP wL) w_ops) as [s|] eqn:E; [| vm_compute in E; discriminate].
  exists s. split; [reflexivity|]. split; [reflexivity|].
  vm_compute in E. inversion E. reflexivity.
Qed.

(* the allowance itself: one over, right after the first state proof *)
Lemma one_over_reachable :
  exists s, c_run wP 1 2 (p_init wP wL) [CRemember [w_pay]; CRemember [w_sp1]] = Some s /\
            txcount (p_pending (s_pool s)) = 2 /\ p_over (s_pool s) = true.
Proof.
  destruct (c_run wP 1 2 (p_init wP wL) [CRemember [w_pay]; CRemember [w_sp1]]) as [s|] eqn:E;
    [| vm_compute in E; discriminate].
  exists s. split; [reflexivity|]. vm_compute in E. inversion E. split; reflexivity.
Qed.

(* ---------- a non-trivial concrete history (double spend resolved by a block) ---------- *)
Definition xL : cst := mkCst 5 [(10, 300000); (11, 5000000)] [] [] 0.
Definition x_a : tx := mkTx 1 0 10 11 150000 1000 6 20 0 0 240 200 0.   (* 10 pays 150000 *)
Definition x_b : tx := mkTx 2 0 10 11 20000 1000 6 20 0 0 240 200 0.    (* fits next to x_a and next to x_c *)
Definition x_c : tx := mkTx 3 0 10 11 160000 1000 6 20 0 0 240 200 0.   (* conflicts with x_a *)
Definition x_ops : list cop :=
  [CRemember [x_a]; CRemember [x_b]; CRemember [x_c]; CBlock [[x_c]]; COnNewBlock 6 []].

Lemma example_history :
  exists s, c_run wP 10 2 (p_init wP xL) x_ops = Some s /\
            map (map t_id) (p_pending (s_pool s)) = [[2]] /\
            s_committed s = [3] /\ s_base s = p_ledger (s_pool s).
Proof.
  destruct (c_run wP 10 2 (p_init wP xL) x_ops) as [s|] eqn:E; [| vm_compute in E; discriminate].
  exists s. split; [reflexivity|]. vm_compute in E. inversion E. repeat split; reflexivity.
Qed.

Lemma example_rejects_conflict :
  exists s r, c_run wP 10 2 (p_init wP xL) [CRemember [x_a]; CRemember [x_b]] = Some s /\
              p_remember wP 10 2 (s_pool s) [x_c] = r /\ snd r = Some C_overspend.
Proof.
  destruct (c_run wP 10 2 (p_init wP xL) [CRemember [x_a]; CRemember [x_b]]) as [s|] eqn:E;
    [| vm_compute in E; discriminate].
  exists s, (p_remember wP 10 2 s.(s_pool) [x_c]). split; [reflexivity|]. split; [reflexivity|].
  vm_compute in E. inversion E. vm_compute. reflexivity.
Qed.
