(* C25: soundness of the executable oracle and of [check]. *)
From Coq Require Import NArith ZArith List Bool Lia ZifyN ZifyBool String.
From Verif.lib Require Import Term.
From Verif.model Require Import Overflow Rewards RewardsPool RewardsSpec.
From Verif.proofs Require Import OverflowProofs RewardsProofs.
Import ListNotations.
Open Scope N_scope.

(* spec_ok = true on ANY observed output (model or implementation) gives the Prop-level
   statement of the property for that call; no range hypotheses are needed *)
Lemma spec_ok_sound s r p pool units s' :
  spec_ok s r p pool units (Some s') = true ->
  (r = r_recalc s ->
     p_interval p <> 0 /\
     r_rate s' * p_interval p <= affordable p s pool /\
     affordable p s pool < (r_rate s' + 1) * p_interval p /\
     r_rate s' * p_interval p <= pool - p_minbal p) /\
  (r <> r_recalc s -> r_rate s' = r_rate s /\ r_recalc s' = r_recalc s) /\
  (units <> 0 ->
   rate_in_effect p s s' + r_residue s < 2 ^ 64 ->
   r_level s + (rate_in_effect p s s' + r_residue s) / units < 2 ^ 64 ->
     r_level s <= r_level s' /\
     (r_level s' - r_level s) * units + r_residue s' = rate_in_effect p s s' + r_residue s /\
     r_residue s' < units) /\
  (units = 0 \/ 2 ^ 64 <= rate_in_effect p s s' + r_residue s \/
   2 ^ 64 <= r_level s + (rate_in_effect p s s' + r_residue s) / units ->
     r_level s' = r_level s /\ r_residue s' = r_residue s).
Proof.
  unfold spec_ok, refresh_ok, distribution_ok. cbv zeta. intros H.
  apply andb_true_iff in H. destruct H as [Hr Hd]. split; [|split; [|split]].
  - intros E. rewrite E, N.eqb_refl in Hr. rewrite !andb_true_iff, negb_true_iff in Hr.
    destruct Hr as (((H1 & H2) & H3) & _).
    apply N.eqb_neq in H1. apply N.leb_le in H2. apply N.ltb_lt in H3.
    split; [exact H1|]. split; [exact H2|]. split; [exact H3|].
    unfold affordable in H2. lia.
  - intros E. apply N.eqb_neq in E. rewrite E in Hr. apply andb_true_iff in Hr.
    destruct Hr as [H1 H2]. apply N.eqb_eq in H1, H2. split; assumption.
  - intros Hu H1 H2.
    replace (distributes s (rate_in_effect p s s') units) with true in Hd.
    + rewrite !andb_true_iff in Hd. destruct Hd as ((A & B) & C).
      apply N.leb_le in A. apply N.eqb_eq in B. apply N.ltb_lt in C. auto.
    + symmetry. unfold distributes. rewrite !andb_true_iff, negb_true_iff.
      split; [split|]; [apply N.eqb_neq|apply N.ltb_lt|apply N.ltb_lt]; assumption.
  - intros H.
    replace (distributes s (rate_in_effect p s s') units) with false in Hd.
    + apply andb_true_iff in Hd. destruct Hd as [A B]. apply N.eqb_eq in A, B. auto.
    + symmetry. unfold distributes. destruct H as [H|[H|H]].
      * subst units. reflexivity.
      * apply N.ltb_ge in H. rewrite H, andb_false_r. reflexivity.
      * apply N.ltb_ge in H. rewrite H, andb_false_r. reflexivity.
Qed.

Lemma verdict_accepts a b c m : verdict a b c m = v_ok \/ verdict a b c m = v_triv -> a = true /\ b = true.
Proof.
  unfold verdict. destruct a; cbn [negb]; [|intros [H|H]; discriminate].
  destruct b; cbn [negb]; [auto|intros [H|H]; discriminate].
Qed.

(* a case line the checker accepts carries an observation that meets the declarative spec,
   and (the inputs being in range) that observation is the model's output *)
Lemma check_sound level rate residue recalc nr minbal interval pending cfix pool units l' r' f' c' k :
  let case := TL [TS "nrs"; tn level; tn rate; tn residue; tn recalc; tn nr; tn minbal; tn interval;
                  tb pending; tb cfix; tn pool; tn units;
                  TL [TS "ok"; tn l'; tn r'; tn f'; tn c'; TZ k]] in
  check case = v_ok \/ check case = v_triv ->
  let s := mkR level rate residue recalc in
  let p := mkRP minbal interval pending cfix in
  spec_ok s nr p pool units (Some (mkR l' r' f' c')) = true /\
  next_rewards_state s nr p pool units = Some (mkR l' r' f' c').
Proof.
  cbv zeta. unfold tn, tb. cbn [check]. cbn [check_nrs parse_obs]. rewrite !N2Z.id.
  assert (Hnn : forall x, (0 <=? Z.of_N x)%Z = true) by (intros; apply Z.leb_le; lia).
  rewrite !Hnn. cbn [andb].
  assert (Hb : forall b : bool, ((if b then 1 else 0) =? 1)%Z = b) by (intros []; reflexivity).
  rewrite !Hb.
  destruct (lt64 level && lt64 rate && lt64 residue && lt64 recalc && lt64 nr && lt64 minbal &&
            lt64 interval && lt64 pool && lt64 units &&
            (((if pending then 1 else 0) =? 0)%Z || pending) &&
            (((if cfix then 1 else 0) =? 0)%Z || cfix)) eqn:E; cbn [negb];
    [|intros [H|H]; discriminate].
  intros H. apply verdict_accepts in H. destruct H as [H _].
  apply andb_true_iff in H. destruct H as [H _]. split; [exact H|].
  rewrite !andb_true_iff in E. unfold lt64 in E.
  destruct E as ((((((((((E1 & E2) & E3) & E4) & E5) & E6) & E7) & E8) & E9) & _) & _).
  apply N.ltb_lt in E1, E2, E3, E4, E6, E8.
  symmetry. apply spec_determines_output; try assumption.
  repeat split; assumption.
Qed.

(* an accepted pool line carries an outcome that satisfies the acceptance iff *)
Lemma check_pool_sound prev new pool units minbal obs o :
  parse_wres obs = Some o ->
  (let case := TL [TS "pool"; tn prev; tn new; tn pool; tn units; tn minbal; obs] in
   check case = v_ok \/ check case = v_triv) ->
  spec_ok_pool prev new pool units minbal o = true.
Proof.
  intros Hp. cbv zeta. unfold tn. cbn [check]. cbn [check_pool]. rewrite !N2Z.id, Hp.
  destruct (negb _); [intros [H|H]; discriminate|].
  intros H. apply verdict_accepts in H. tauto.
Qed.
