(* C17 lemmas, part 6: the store model from the empty trie, for every page size, every eviction
   choice and every admissible re-allocation; and the witness that the eviction rule before
   fixes/C17.patch loses committed nodes. *)
From Coq Require Import List NArith Bool Lia ZifyN ZifyNat ZifyBool.
From Verif.model Require Import MerkleTrie MerkleTrieSpec MerkleTrieStore MerkleTrieStoreRel.
From Verif.proofs Require Import MerkleTrieProofs MerkleTrieCanonProofs MerkleTrieHeapProofs
                                 MerkleTriePagedProofs MerkleTrieStoreRefine.
Import ListNotations.
Open Scope N_scope.

Lemma store_refines npp ops :
  0 < npp <= base_id -> Forall op_ok (map erase_op ops) ->
  ~ In PBadOracle (snd (prun npp true p_init ops)) ->
  Abs npp (fst (prun npp true p_init ops)) (fst (run m_init (map erase_op ops))) /\
  Forall2 res_rel (snd (prun npp true p_init ops)) (snd (run m_init (map erase_op ops))).
Proof.
  intros Hn Hok NB. apply prun_refines; auto.
  - apply Abs_init; exact Hn.
  - apply run_no_panic. exact Hok.
Qed.

Lemma store_never_fails npp ops :
  0 < npp <= base_id -> Forall op_ok (map erase_op ops) ->
  ~ In PBadOracle (snd (prun npp true p_init ops)) -> ~ In PFail (snd (prun npp true p_init ops)).
Proof.
  intros Hn Hok NB. eapply res_rel_no_fail; [exact Hn|]. apply (store_refines npp ops Hn Hok NB).
Qed.

(* the stored pages alone hold the canonical trie of the committed set, memory over pages the
   canonical trie of the current set *)
Lemma store_canonical npp ops :
  0 < npp <= base_id -> Forall op_ok (map erase_op ops) ->
  ~ In PBadOracle (snd (prun npp true p_init ops)) ->
  let s := fst (prun npp true p_init ops) in
  let ss := fst (srun s_init (map erase_op ops)) in
  disk_ok s (canon_set (s_committed ss)) /\ exists fp, live_ok s fp (canon_set (s_cur ss)).
Proof.
  intros Hn Hok NB s ss.
  destruct (store_refines npp ops Hn Hok NB) as [(fp & _ & L & D & _) _].
  destruct (final_trie_canonical (map erase_op ops) Hok) as [E1 E2].
  fold s in L, D. unfold ss. rewrite <- E1, <- E2. split; [exact D | exists fp; exact L].
Qed.

(* ---------- the eviction rule before the repair ---------- *)
Definition bad_ops : list pop :=
  [PAdd [0;0;1]; PAdd [0;0;0];
   PEvict true [(16737, 16742); (16738, 16743); (16739, 16744)] 16745 [8368; 8369; 8370; 8371; 8372];
   PAdd [1;0;0]; PRootHash [] 16748].

Lemma bad_ops_ok : Forall op_ok (map erase_op bad_ops).
Proof. repeat constructor. Qed.

Lemma bad_ops_oracles_admissible :
  ~ In PBadOracle (snd (prun 2 false p_init bad_ops)) /\ ~ In PBadOracle (snd (prun 2 true p_init bad_ops)).
Proof. split; vm_compute; intuition discriminate. Qed.

Lemma unfixed_evict_loses_committed_nodes :
  let s := fst (prun 2 false p_init bad_ops) in
  p_droot s <> 0 /\ ~ exists t fp, repr (p_disk s) t (p_droot s) fp.
Proof.
  cbn zeta. split; [vm_compute; discriminate|].
  intros (t & fp & R).
  set (s := fst (prun 2 false p_init bad_ops)) in *.
  assert (E0 : p_droot s = 16746) by (vm_compute; reflexivity).
  assert (E1 : p_disk s 16746 = Some (SNode [(0, 16740); (1, 16745)])) by (vm_compute; reflexivity).
  assert (E2 : p_disk s 16740 = Some (SNode [(0, 16744)])) by (vm_compute; reflexivity).
  assert (E3 : p_disk s 16744 = None) by (vm_compute; reflexivity).
  rewrite E0 in R.
  inversion R as [? ? H1|? ? ? ? H1 Rs]; subst; rewrite E1 in H1; inversion H1; subst.
  inversion Rs as [|? ? ? ? ? ? ? Rc _]; subst.
  inversion Rc as [? ? H2|? ? ? ? H2 Rs2]; subst; rewrite E2 in H2; inversion H2; subst.
  inversion Rs2 as [|? ? ? ? ? ? ? Rc2 _]; subst.
  pose proof (repr_defined _ _ _ _ _ Rc2 (repr_root_in _ _ _ _ Rc2)) as D. congruence.
Qed.

Lemma fixed_evict_on_the_same_history :
  committed_trie (fst (prun 2 true p_init bad_ops)) =
  Some (Some (Node [(0, Node [(0, Node [(0, Leaf []); (1, Leaf [])])]); (1, Leaf [0; 0])])).
Proof. vm_compute. reflexivity. Qed.
