(* C23 proofs, part 1: key/value stores (updateCounts / checkCounts) and boxes
   (TotalBoxes / TotalBoxBytes), one operation at a time. *)
From Coq Require Import NArith PeanoNat List Bool Lia ZifyN ZifyNat ZifyBool.
From Verif.lib Require Import Term.
From Verif.model Require Import Overflow AssocList AppStorage.
From Verif.proofs Require Import OverflowProofs OverflowSpecProofs AssocListProofs.
Import ListNotations.
Open Scope N_scope.

(* ------------------------------------------------------------------ byte strings *)
Lemma list_eqb_N_eq (a b : list N) : list_eqb N.eqb a b = true <-> a = b.
Proof.
  revert b. induction a as [|x a IH]; intros [|y b]; cbn; split; intros H; try discriminate; auto.
  - apply andb_true_iff in H. destruct H as [H1 H2]. apply N.eqb_eq in H1. apply IH in H2. congruence.
  - inversion H; subst. rewrite N.eqb_refl. cbn. apply IH. reflexivity.
Qed.

Lemma bytes_eqb_eq a b : bytes_eqb a b = true <-> a = b.
Proof. apply list_eqb_N_eq. Qed.

Notation kget := (aget (V:=tval) bytes_eqb).
Notation kset := (aset (V:=tval) bytes_eqb).
Notation kdel := (adel (V:=tval) bytes_eqb).
Notation bget := (aget (V:=bytes) bytes_eqb).
Notation bset := (aset (V:=bytes) bytes_eqb).
Notation bdel := (adel (V:=bytes) bytes_eqb).

(* ------------------------------------------------------------------ counting keys by type *)
Definition fu (_ : bytes) (v : tval) : N := match v with TVu _ => 1 | TVb _ => 0 end.
Definition fb (_ : bytes) (v : tval) : N := match v with TVb _ => 1 | TVu _ => 0 end.

Lemma count_kv_asum kv : count_kv kv = (asum fu kv, asum fb kv).
Proof.
  unfold count_kv. induction kv as [|[k v] kv IH]; [reflexivity|].
  inversion IH as [[H1 H2]]. cbn [filter snd asum]. destruct v; cbn [length fu fb]; rewrite ?H1, ?H2; f_equal; lia.
Qed.

Definition ou (o : option tval) : N := match o with Some (TVu _) => 1 | _ => 0 end.
Definition ob (o : option tval) : N := match o with Some (TVb _) => 1 | _ => 0 end.

Lemma count_set kv k v :
  fst (count_kv (kset k v kv)) + ou (kget k kv) = fst (count_kv kv) + ou (Some v) /\
  snd (count_kv (kset k v kv)) + ob (kget k kv) = snd (count_kv kv) + ob (Some v).
Proof.
  rewrite !count_kv_asum. cbn [fst snd].
  pose proof (asum_aset bytes_eqb bytes_eqb_eq fu k v kv) as H1.
  pose proof (asum_aset bytes_eqb bytes_eqb_eq fb k v kv) as H2.
  unfold fopt in *. destruct (kget k kv) as [[?|?]|]; destruct v; cbn [fu fb ou ob] in *; lia.
Qed.

Lemma count_del kv k :
  fst (count_kv (kdel k kv)) + ou (kget k kv) = fst (count_kv kv) /\
  snd (count_kv (kdel k kv)) + ob (kget k kv) = snd (count_kv kv).
Proof.
  rewrite !count_kv_asum. cbn [fst snd].
  pose proof (asum_adel bytes_eqb bytes_eqb_eq fu k kv) as H1.
  pose proof (asum_adel bytes_eqb bytes_eqb_eq fb k kv) as H2.
  unfold fopt in *. destruct (kget k kv) as [[?|?]|]; cbn [fu fb ou ob] in *; lia.
Qed.

Lemma count_ge kv k v : kget k kv = Some v ->
  ou (Some v) <= fst (count_kv kv) /\ ob (Some v) <= snd (count_kv kv).
Proof.
  intros H. rewrite count_kv_asum. cbn [fst snd].
  pose proof (asum_ge bytes_eqb bytes_eqb_eq fu k v kv H).
  pose proof (asum_ge bytes_eqb bytes_eqb_eq fb k v kv H).
  destruct v; cbn [fu fb ou ob] in *; lia.
Qed.

Lemma inc64_exact x : x + 1 < 2 ^ 64 -> inc64 x = x + 1.
Proof. intros H. unfold inc64, W64. apply N.mod_small. exact H. Qed.

Lemma dec64_exact x : 0 < x -> x < 2 ^ 64 -> dec64 x = x - 1.
Proof.
  intros H1 H2. unfold dec64, W64. replace (x + 2 ^ 64 - 1) with ((x - 1) + 1 * 2 ^ 64) by lia.
  rewrite N.mod_add by lia. apply N.mod_small. lia.
Qed.

(* ------------------------------------------------------------------ one store *)
(* what the property says about a store with declared schema [sch], plus the bookkeeping *)
Record KInv (s : storage) (sch : N * N) : Prop := {
  k_nd : NoDup (map fst (st_kv s));
  k_counts : st_counts s = count_kv (st_kv s);
  k_u : fst (count_kv (st_kv s)) <= fst sch;
  k_b : snd (count_kv (st_kv s)) <= snd sch;
  k_wf : schema_wf sch
}.

Lemma updateCounts_exact s sch old new :
  KInv s sch -> old = kget (fst new) (st_kv s) ->
  updateCounts (st_counts s) old (Some (snd new)) = count_kv (kset (fst new) (snd new) (st_kv s)).
Proof.
  intros [Nd Hc Hu Hb [W1 W2]] ->. destruct new as [k v]. cbn [fst snd].
  destruct (count_set (st_kv s) k v) as [C1 C2]. rewrite Hc.
  assert (forall v0, kget k (st_kv s) = Some v0 ->
            ou (Some v0) <= fst (count_kv (st_kv s)) /\ ob (Some v0) <= snd (count_kv (st_kv s))) as G
    by (intros v0; apply count_ge).
  destruct (count_kv (st_kv s)) as [cu cb] eqn:E. destruct (count_kv (kset k v (st_kv s))) as [du db] eqn:E'.
  cbn [fst snd] in *. unfold updateCounts.
  destruct (kget k (st_kv s)) as [[n|b]|]; [destruct (G _ eq_refl)|destruct (G _ eq_refl)|];
    destruct v as [m|c]; cbn [fst snd ou ob] in *;
    rewrite ?dec64_exact by lia; rewrite ?inc64_exact by lia; f_equal; lia.
Qed.

Lemma updateCounts_del_exact s sch k :
  KInv s sch ->
  updateCounts (st_counts s) (kget k (st_kv s)) None = count_kv (kdel k (st_kv s)).
Proof.
  intros [Nd Hc Hu Hb [W1 W2]].
  destruct (count_del (st_kv s) k) as [C1 C2]. rewrite Hc.
  assert (forall v0, kget k (st_kv s) = Some v0 ->
            ou (Some v0) <= fst (count_kv (st_kv s)) /\ ob (Some v0) <= snd (count_kv (st_kv s))) as G
    by (intros v0; apply count_ge).
  destruct (count_kv (st_kv s)) as [cu cb] eqn:E. destruct (count_kv (kdel k (st_kv s))) as [du db] eqn:E'.
  cbn [fst snd] in *. unfold updateCounts.
  destruct (kget k (st_kv s)) as [[n|b]|]; [destruct (G _ eq_refl)|destruct (G _ eq_refl)|];
    cbn [fst snd ou ob] in *; rewrite ?dec64_exact by lia; f_equal; lia.
Qed.

Lemma st_set_ok s sch k v s' :
  KInv s sch -> st_max s = sch -> st_set s k v = (s', true) ->
  KInv s' sch /\ st_max s' = sch.
Proof.
  intros I Hm H. unfold st_set in H.
  pose proof (updateCounts_exact s sch (kget k (st_kv s)) (k, v) I eq_refl) as U. cbn [fst snd] in U.
  cbv zeta in H. rewrite U in H.
  injection H as Hs Hc. unfold checkCounts in Hc. cbn [st_counts st_max] in Hc. rewrite Hm in Hc.
  apply andb_true_iff in Hc. destruct Hc as [C1 C2]. apply negb_true_iff, N.ltb_ge in C1, C2.
  subst s'. split; [|exact Hm]. destruct I as [Nd Hcn Hu Hb W]. split; cbn [st_kv st_counts]; auto.
  apply NoDup_aset; [exact bytes_eqb_eq|exact Nd].
Qed.

Lemma st_del_ok s sch k :
  KInv s sch -> KInv (st_del s k) sch /\ st_max (st_del s k) = st_max s.
Proof.
  intros I. pose proof (updateCounts_del_exact s sch k I) as U.
  destruct (count_del (st_kv s) k) as [C1 C2]. destruct I as [Nd Hcn Hu Hb W].
  split; [|reflexivity]. unfold st_del. split; cbn [st_kv st_counts]; auto.
  - apply NoDup_adel; try exact bytes_eqb_eq; exact Nd.
  - lia.
  - lia.
Qed.

(* a failed put still leaves a store whose keys are distinct (only used for discarded states) *)

(* ------------------------------------------------------------------ boxes *)
Definition fbytes (name value : bytes) : N := blen name + blen value.
Definition fone (_ _ : bytes) : N := 1.

Lemma box_bytes_asum b : box_bytes b = asum fbytes b.
Proof. reflexivity. Qed.

Lemma box_count_asum b : box_count b = asum fone b.
Proof.
  unfold box_count. induction b as [|[n v] b IH]; [reflexivity|].
  cbn [length asum]. unfold fone at 1. rewrite <- IH. lia.
Qed.

(* the box part of the invariant; [V] bounds everything that was ever accounted for *)
Record BInv (w : world) (V : N) : Prop := {
  b_nd : NoDup (map fst (w_box w));
  b_tb : w_tb w = box_count (w_box w);
  b_tbb : w_tbb w = box_bytes (w_box w);
  b_vtb : w_tb w <= V;
  b_vtbb : w_tbb w <= V
}.

Definition same_kv (w w' : world) : Prop :=
  w_global w' = w_global w /\ w_gschema w' = w_gschema w /\ w_lschema w' = w_lschema w /\
  w_local w' = w_local w.

Lemma same_kv_refl w : same_kv w w.
Proof. repeat split. Qed.
Lemma same_kv_trans a b c : same_kv a b -> same_kv b c -> same_kv a c.
Proof. unfold same_kv. intros (A & B & C & D) (E & F & G & H). repeat split; congruence. Qed.

Lemma addsat_exact a b : a + b < 2 ^ 64 -> addsat 64 a b = a + b.
Proof.
  intros H. assert (a < 2 ^ 64) as Ha by lia. assert (b < 2 ^ 64) as Hb by lia.
  destruct (saturating_spec 64 a b Ha Hb) as (S & _). rewrite S. apply N.min_l. lia.
Qed.

Lemma subsat_exact a b : a < 2 ^ 64 -> b <= a -> subsat 64 a b = a - b.
Proof.
  intros Ha H2. assert (b < 2 ^ 64) as Hb by lia.
  destruct (saturating_spec 64 a b Ha Hb) as (_ & S & _). exact S.
Qed.

Ltac box_norm :=
  repeat rewrite box_count_asum in *; unfold box_bytes in *; unfold fbytes, fone, fopt in *; cbv beta in *.

Lemma newBox_ok P name value w w' u V d :
  BInv w V -> blen name + blen value + 1 <= d -> V + d < 2 ^ 64 ->
  newBox P name value w = (w', Ok u) ->
  BInv w' (V + d) /\ same_kv w w' /\ bget name (w_box w) = None /\
  w_box w' = bset name value (w_box w).
Proof.
  intros [Nd Htb Htbb V1 V2] Hd HV H. unfold newBox in H.
  destruct (maxkey P <? blen name); [discriminate|]. destruct (blen name =? 0); [discriminate|].
  destruct (maxbox P <? blen value); [discriminate|].
  destruct (ahas bytes_eqb name (w_box w)) eqn:Eh; [discriminate|].
  apply (ahas_false bytes_eqb) in Eh. inversion H; subst; clear H.
  split; [|split; [repeat split|split; [exact Eh|reflexivity]]].
  pose proof (asum_aset bytes_eqb bytes_eqb_eq fbytes name value (w_box w)) as S1.
  pose proof (asum_aset bytes_eqb bytes_eqb_eq fone name value (w_box w)) as S2.
  rewrite Eh in S1, S2.
  split; cbn [set_boxes w_box w_tb w_tbb].
  - apply NoDup_aset; [exact bytes_eqb_eq|exact Nd].
  - rewrite addsat_exact by lia. box_norm. lia.
  - rewrite addsat_exact by lia. box_norm. lia.
  - rewrite addsat_exact by lia. lia.
  - rewrite addsat_exact by lia. lia.
Qed.

Lemma delBox_ok name w w' r V :
  BInv w V -> V < 2 ^ 64 -> delBox name w = (w', Ok r) ->
  BInv w' V /\ same_kv w w' /\
  (r = true -> exists value, bget name (w_box w) = Some value /\ w_box w' = bdel name (w_box w)) /\
  (r = false -> w' = w).
Proof.
  intros [Nd Htb Htbb V1 V2] HV H. unfold delBox in H.
  destruct (bget name (w_box w)) as [value|] eqn:Eg.
  - inversion H; subst; clear H.
    pose proof (asum_adel bytes_eqb bytes_eqb_eq fbytes name (w_box w)) as S1.
    pose proof (asum_adel bytes_eqb bytes_eqb_eq fone name (w_box w)) as S2.
    rewrite Eg in S1, S2.
    split; [|split; [repeat split|split; [eauto|discriminate]]].
    split; cbn [set_boxes w_box w_tb w_tbb].
    + apply NoDup_adel; try exact bytes_eqb_eq; exact Nd.
    + box_norm. rewrite subsat_exact by lia. lia.
    + box_norm. rewrite subsat_exact by lia. lia.
    + box_norm. rewrite subsat_exact by lia. lia.
    + box_norm. rewrite subsat_exact by lia. lia.
  - inversion H; subst. split; [split; auto|]. split; [apply same_kv_refl|]. split; [discriminate|reflexivity].
Qed.

Lemma setBox_ok name value w w' u V :
  BInv w V -> setBox name value w = (w', Ok u) -> BInv w' V /\ same_kv w w'.
Proof.
  intros [Nd Htb Htbb V1 V2] H. unfold setBox in H.
  destruct (bget name (w_box w)) as [old|] eqn:Eg; [|discriminate].
  destruct (negb (blen old =? blen value)) eqn:El; [discriminate|].
  apply negb_false_iff, N.eqb_eq in El. inversion H; subst; clear H.
  pose proof (asum_aset bytes_eqb bytes_eqb_eq fbytes name value (w_box w)) as S1.
  pose proof (asum_aset bytes_eqb bytes_eqb_eq fone name value (w_box w)) as S2.
  rewrite Eg in S1, S2.
  split; [|repeat split]. split; cbn [set_boxes w_box w_tb w_tbb]; auto.
  - apply NoDup_aset; [exact bytes_eqb_eq|exact Nd].
  - box_norm. lia.
  - box_norm. lia.
Qed.

Lemma lengthChecks_ok P name size w w' u :
  lengthChecks P name size w = (w', Ok u) -> w' = w /\ size <= maxbox P.
Proof.
  unfold lengthChecks. destruct (blen name =? 0); [discriminate|].
  destruct (maxkey P <? blen name); [discriminate|].
  destruct (maxbox P <? size) eqn:E; [discriminate|]. apply N.ltb_ge in E.
  intros H. inversion H; subst. auto.
Qed.

Lemma blen_zeros n : blen (zeros n) = n.
Proof. unfold blen, zeros. rewrite repeat_length. lia. Qed.

Lemma blen_app a b : blen (a ++ b) = blen a + blen b.
Proof. unfold blen. rewrite app_length. lia. Qed.

Lemma blen_firstn n a : n <= blen a -> blen (firstn (N.to_nat n) a) = n.
Proof. unfold blen. intros H. rewrite firstn_length. lia. Qed.

Lemma BInv_mono w V V' : BInv w V -> V <= V' -> BInv w V'.
Proof. intros [A B C D E] H. split; auto; lia. Qed.

Lemma BInv_same_boxes w w' V :
  BInv w V -> w_box w' = w_box w -> w_tb w' = w_tb w -> w_tbb w' = w_tbb w -> BInv w' V.
Proof. intros [A B C D E] H1 H2 H3. split; rewrite ?H1, ?H2, ?H3; auto. Qed.

(* every box opcode that succeeds keeps the box accounting exact and touches nothing else *)
Lemma boxCreate_ok P n s w w' r V :
  BInv w V -> V + (blen n + s + 1) < 2 ^ 64 -> boxCreate P n s w = (w', Ok r) ->
  BInv w' (V + (blen n + s + 1)) /\ same_kv w w'.
Proof.
  intros I HV H. unfold boxCreate in H. unfold bind at 1 in H.
  destruct (lengthChecks P n s w) as [w0 [u|e]] eqn:E0; [|discriminate].
  apply lengthChecks_ok in E0. destruct E0 as [-> _].
  unfold bind at 1 in H. unfold getBox at 1 in H. cbn beta iota in H.
  destruct (bget n (w_box w)) as [content|] eqn:Eg.
  - destruct (negb (s =? blen content)); [discriminate|]. inversion H; subst.
    split; [eapply BInv_mono; eauto; lia|apply same_kv_refl].
  - unfold bind in H. destruct (newBox P n (zeros s) w) as [w1 [u1|e]] eqn:E1; [|discriminate].
    inversion H; subst; clear H.
    assert (blen n + blen (zeros s) + 1 <= blen n + s + 1) as Hd by (rewrite blen_zeros; lia).
    destruct (newBox_ok _ _ _ _ _ _ V _ I Hd HV E1) as (I1 & K1 & _). auto.
Qed.

Lemma boxResize_ok P n s w w' r V :
  BInv w V -> V + (blen n + s + 1) < 2 ^ 64 -> boxResize P n s w = (w', Ok r) ->
  BInv w' (V + (blen n + s + 1)) /\ same_kv w w'.
Proof.
  intros I HV H. unfold boxResize in H. unfold bind at 1 in H.
  destruct (lengthChecks P n s w) as [w0 [u|e]] eqn:E0; [|discriminate].
  apply lengthChecks_ok in E0. destruct E0 as [-> _].
  unfold bind at 1 in H. unfold getBox at 1 in H. cbn beta iota in H.
  destruct (bget n (w_box w)) as [content|] eqn:Eg; [|discriminate].
  unfold bind in H. destruct (delBox n w) as [w1 [b|e]] eqn:E1; [|discriminate].
  assert (V < 2 ^ 64) as HV0 by lia.
  destruct (delBox_ok _ _ _ _ _ I HV0 E1) as (I1 & K1 & _).
  match type of H with newBox _ _ ?rz _ = _ => assert (blen n + blen rz + 1 <= blen n + s + 1) as Hd end.
  { destruct (blen content <? s) eqn:El.
    - apply N.ltb_lt in El. rewrite blen_app, blen_zeros. lia.
    - apply N.ltb_ge in El. rewrite blen_firstn by exact El. lia. }
  destruct (newBox_ok _ _ _ _ _ _ V _ I1 Hd HV H) as (I2 & K2 & _).
  split; [exact I2|eapply same_kv_trans; eauto].
Qed.

Lemma boxReplace_ok P n st d w w' r V :
  BInv w V -> boxReplace P n st d w = (w', Ok r) -> BInv w' V /\ same_kv w w'.
Proof.
  intros I H. unfold boxReplace in H. unfold bind at 1 in H.
  destruct (lengthChecks P n _ w) as [w0 [u|e]] eqn:E0; [|discriminate].
  apply lengthChecks_ok in E0. destruct E0 as [-> _].
  unfold bind in H. unfold getBox in H. cbn beta iota in H.
  destruct (bget n (w_box w)) as [content|] eqn:Eg; [|discriminate].
  destruct (replaceCarefully content d st) as [b|]; [|discriminate].
  eapply setBox_ok; eauto.
Qed.

Lemma boxPut_ok P n d w w' r V :
  BInv w V -> V + (blen n + blen d + 1) < 2 ^ 64 -> boxPut P n d w = (w', Ok r) ->
  BInv w' (V + (blen n + blen d + 1)) /\ same_kv w w'.
Proof.
  intros I HV H. unfold boxPut in H. unfold bind at 1 in H.
  destruct (lengthChecks P n _ w) as [w0 [u|e]] eqn:E0; [|discriminate].
  apply lengthChecks_ok in E0. destruct E0 as [-> _].
  unfold bind in H. unfold getBox in H. cbn beta iota in H.
  destruct (bget n (w_box w)) as [content|] eqn:Eg.
  - destruct (negb (blen content =? blen d)); [discriminate|].
    destruct (setBox_ok _ _ _ _ _ _ I H) as [I1 K1]. split; [eapply BInv_mono; eauto; lia|exact K1].
  - destruct (newBox_ok _ _ _ _ _ _ V (blen n + blen d + 1) I (N.le_refl _) HV H) as (I1 & K1 & _). auto.
Qed.

Lemma boxDel_ok P n w w' r V :
  BInv w V -> V < 2 ^ 64 -> boxDel P n w = (w', Ok r) -> BInv w' V /\ same_kv w w'.
Proof.
  intros I HV H. unfold boxDel in H. unfold bind at 1 in H.
  destruct (lengthChecks P n 0 w) as [w0 [u|e]] eqn:E0; [|discriminate].
  apply lengthChecks_ok in E0. destruct E0 as [-> _].
  unfold bind at 1 in H. unfold getBox at 1 in H. cbn beta iota in H.
  destruct (bget n (w_box w)) as [content|] eqn:Eg.
  - unfold bind in H. destruct (delBox n w) as [w1 [b|e]] eqn:E1; [|discriminate].
    inversion H; subst; clear H. destruct (delBox_ok _ _ _ _ _ I HV E1) as (I1 & K1 & _). auto.
  - inversion H; subst. split; [exact I|apply same_kv_refl].
Qed.
