(* C13 lemmas, part D2: the candidate map of TopOnlineAccounts (DB rows fetched in batches,
   overridden by the in-memory deltas) against the voter set of the history. *)
From Coq Require Import Arith PeanoNat NArith List Bool Lia ZifyN ZifyNat ZifyBool Permutation.
From Verif.model Require Import Overflow OnlineAccts OnlineAcctsSpec.
From Verif.proofs Require Import OverflowProofs OnlineEntries OnlineTables OnlineSpecLemmas OnlineInv OnlineCommit OnlineQueries OnlineTopSort.
Import ListNotations.
Open Scope N_scope.

(* ---------- association lists and permutations ---------- *)
Lemma aget_some_in_pair {V} k (v : V) l : aget k l = Some v -> In (k, v) l.
Proof.
  induction l as [|[k2 v2] l IH]; [discriminate|]. cbn [aget].
  destruct (N.eqb_spec k2 k) as [->|]; [intros [= ->]; left; reflexivity|intros H; right; exact (IH H)].
Qed.

Lemma assoc_perm {V} (l1 l2 : list (N * V)) : NoDup (keys l1) -> NoDup (keys l2) ->
  (forall k, aget k l1 = aget k l2) -> Permutation l1 l2.
Proof.
  intros H1 H2 Hg. apply NoDup_Permutation.
  - exact (NoDup_map_inv fst l1 H1).
  - exact (NoDup_map_inv fst l2 H2).
  - intros [k v]. split; intros Hin.
    + apply aget_some_in_pair. rewrite <- Hg. exact (aget_in_nodup k v l1 H1 Hin).
    + apply aget_some_in_pair. rewrite Hg. exact (aget_in_nodup k v l2 H2 Hin).
Qed.

Lemma aget_app {V} k (a b : list (N * V)) :
  aget k (a ++ b) = match aget k a with Some v => Some v | None => aget k b end.
Proof. induction a as [|[k2 v2] a IH]; [reflexivity|]. cbn [app aget]. destruct (k2 =? k); [reflexivity|exact IH]. Qed.

Lemma NoDup_app_intro {A} (a b : list A) : NoDup a -> NoDup b -> (forall x, In x a -> In x b -> False) -> NoDup (a ++ b).
Proof.
  induction a as [|x a IH]; intros Ha Hb Hd; [exact Hb|]. inversion Ha as [|? ? Hx Ha']; subst.
  cbn [app]. constructor.
  - rewrite in_app_iff. intros [H|H]; [exact (Hx H)|exact (Hd x (or_introl eq_refl) H)].
  - apply IH; [exact Ha'|exact Hb|]. intros y Hy. apply Hd. right; exact Hy.
Qed.

Lemma NoDup_app_l {A} (a b : list A) : NoDup (a ++ b) -> NoDup a.
Proof.
  induction a as [|x a IH]; intros H; [constructor|]. inversion H as [|? ? Hx H']; subst.
  constructor; [intros Hc; apply Hx; apply in_or_app; left; exact Hc|exact (IH H')].
Qed.
Lemma NoDup_app_r {A} (a b : list A) : NoDup (a ++ b) -> NoDup b.
Proof. induction a as [|x a IH]; intros H; [exact H|]. inversion H; subst. apply IH. assumption. Qed.

Definition mk (l : list oacc) : list (N * oacc) := map (fun oa => (t_addr oa, oa)) l.
Definition vals {V} (c : list (N * V)) : list V := map snd c.

Lemma keys_mk l : keys (mk l) = addrs l.
Proof. unfold keys, mk, addrs. rewrite map_map. reflexivity. Qed.
Lemma vals_mk l : vals (mk l) = l.
Proof. unfold vals, mk. rewrite map_map. cbn. apply map_id. Qed.

Lemma aget_mk_in k oa l : aget k (mk l) = Some oa -> In oa l /\ t_addr oa = k.
Proof.
  induction l as [|x l IH]; [discriminate|]. cbn [mk map aget]. fold (mk l).
  destruct (N.eqb_spec (t_addr x) k) as [E|]; [intros [= <-]; split; [left; reflexivity|exact E]|].
  intros H. destruct (IH H). split; [right|]; assumption.
Qed.

Lemma aget_mk_filter f k l : NoDup (addrs l) ->
  aget k (mk (filter f l)) = match aget k (mk l) with Some oa => if f oa then Some oa else None | None => None end.
Proof.
  induction l as [|x l IH]; intros Hnd; [reflexivity|]. inversion Hnd as [|? ? Hx Hnd']; subst.
  cbn [filter mk map aget]. fold (mk l). destruct (N.eqb_spec (t_addr x) k) as [E|E].
  - destruct (f x) eqn:Ef.
    + cbn [mk map aget]. rewrite E, N.eqb_refl. reflexivity.
    + (* k does not occur in l *)
      assert (Hn : aget k (mk (filter f l)) = None).
      { destruct (aget k (mk (filter f l))) as [oa|] eqn:Ea; [|reflexivity]. exfalso.
        destruct (aget_mk_in _ _ _ Ea) as [Hin Ek]. apply filter_In in Hin as [Hin _].
        apply Hx. rewrite E, <- Ek. unfold addrs. apply in_map. exact Hin. }
      exact Hn.
  - destruct (f x); [cbn [mk map aget]; fold (mk (filter f l)); destruct (N.eqb_spec (t_addr x) k); [contradiction|]|]; exact (IH Hnd').
Qed.

Lemma aget_perm {V} k (l1 l2 : list (N * V)) : NoDup (keys l1) -> Permutation l1 l2 -> aget k l1 = aget k l2.
Proof.
  intros H1 Hp.
  assert (H2 : NoDup (keys l2)) by (unfold keys; apply (Permutation_NoDup (Permutation_map fst Hp)); exact H1).
  destruct (aget k l1) as [v|] eqn:E1.
  - symmetry. apply (aget_in_nodup k v l2 H2). apply (Permutation_in _ Hp). exact (aget_some_in_pair _ _ _ E1).
  - destruct (aget k l2) as [v|] eqn:E2; [|reflexivity]. exfalso.
    apply aget_some_in_pair in E2. apply (Permutation_in _ (Permutation_sym Hp)) in E2.
    rewrite (aget_in_nodup k v l1 H1 E2) in E1. discriminate.
Qed.

(* ---------- overriding the candidates with the deltas ---------- *)
Definition apply_md (md : list (N * option oacc)) (c : list (N * oacc)) : list (N * oacc) :=
  fold_left (fun c km => match snd km with None => adel (fst km) c | Some oa => aset (fst km) oa c end) md c.

Lemma apply_md_get : forall md c, NoDup (keys md) -> NoDup (keys c) ->
  NoDup (keys (apply_md md c)) /\
  forall k, aget k (apply_md md c) = match aget k md with
                                     | Some (Some oa) => Some oa
                                     | Some None => None
                                     | None => aget k c
                                     end.
Proof.
  unfold apply_md. induction md as [|[k0 v0] md IH]; intros c Hm Hc; cbn [fold_left fst snd].
  - split; [exact Hc|reflexivity].
  - inversion Hm as [|? ? Hk0 Hm']; subst.
    set (c1 := match v0 with None => adel k0 c | Some oa => aset k0 oa c end).
    assert (Hc1 : NoDup (keys c1)) by (unfold c1; destruct v0; [apply NoDup_aset|apply NoDup_adel]; exact Hc).
    destruct (IH c1 Hm' Hc1) as [G1 G2]. split; [exact G1|]. intros k. rewrite G2. cbn [aget].
    destruct (N.eqb_spec k0 k) as [->|Hne].
    + rewrite (aget_notin k md Hk0). unfold c1. destruct v0; [apply aget_aset_same|apply aget_adel_same; exact Hc].
    + destruct (aget k md); [reflexivity|]. unfold c1. destruct v0; [apply aget_aset_other|apply aget_adel_other]; congruence.
Qed.

Definition notmd (md : list (N * option oacc)) (oa : oacc) : bool :=
  match aget (t_addr oa) md with None => true | Some _ => false end.
Definition md_some (md : list (N * option oacc)) : list (N * oacc) :=
  flat_map (fun km => match snd km with Some oa => [(fst km, oa)] | None => [] end) md.

Lemma md_some_keys md x : In x (keys (md_some md)) -> In x (keys md).
Proof.
  induction md as [|[k v] md IH]; [intros []|]. cbn [md_some flat_map fst snd]. fold (md_some md).
  unfold keys in *. rewrite map_app, in_app_iff. cbn [map fst]. intros [H|H].
  - destruct v; cbn in H; [destruct H as [<-|[]]; left; reflexivity|destruct H].
  - right. exact (IH H).
Qed.

Lemma md_some_get md k : NoDup (keys md) ->
  NoDup (keys (md_some md)) /\
  aget k (md_some md) = match aget k md with Some (Some oa) => Some oa | _ => None end.
Proof.
  induction md as [|[k0 v0] md IH]; intros Hnd; [split; [constructor|reflexivity]|].
  inversion Hnd as [|? ? Hk0 Hnd']; subst. destruct (IH Hnd') as [I1 I2].
  cbn [md_some flat_map fst snd aget]. fold (md_some md). destruct v0 as [oa|]; cbn [app].
  - split.
    + cbn [keys map fst]. constructor; [|exact I1]. intros Hc. exact (Hk0 (md_some_keys _ _ Hc)).
    + cbn [aget]. destruct (k0 =? k); [reflexivity|exact I2].
  - split; [exact I1|]. destruct (N.eqb_spec k0 k) as [->|]; [|exact I2].
    rewrite I2, (aget_notin k md Hk0). reflexivity.
Qed.

(* the values after overriding: the untouched candidates and the online-and-valid delta accounts *)
Lemma apply_md_perm md V : NoDup (keys md) -> NoDup (addrs V) ->
  Permutation (vals (apply_md md (mk V))) (filter (notmd md) V ++ vals (md_some md)).
Proof.
  intros Hm HV.
  assert (HmkV : NoDup (keys (mk V))) by (rewrite keys_mk; exact HV).
  destruct (apply_md_get md (mk V) Hm HmkV) as [G1 G2].
  assert (Hf : NoDup (addrs (filter (notmd md) V))).
  { clear -HV. induction V as [|x V IH]; [constructor|]. inversion HV as [|? ? Hx HV']; subst. cbn [filter].
    destruct (notmd md x); [|exact (IH HV')]. cbn [addrs map]. constructor; [|exact (IH HV')].
    intros Hc. apply Hx. unfold addrs in *. rewrite in_map_iff in *. destruct Hc as (y & E & Hy).
    exists y. split; [exact E|]. apply filter_In in Hy. exact (proj1 Hy). }
  assert (Hperm : Permutation (apply_md md (mk V)) (mk (filter (notmd md) V) ++ md_some md)).
  { apply assoc_perm; [exact G1| |].
    - unfold keys. rewrite map_app. fold (keys (mk (filter (notmd md) V))). fold (keys (md_some md)). rewrite keys_mk.
      apply NoDup_app_intro; [exact Hf|exact (proj1 (md_some_get md 0 Hm))|].
      intros x Hx Hx2. apply md_some_keys in Hx2. unfold addrs in Hx. rewrite in_map_iff in Hx.
      destruct Hx as (oa & <- & Hoa). apply filter_In in Hoa as [_ Hoa]. unfold notmd in Hoa.
      destruct (aget_in_keys _ _ Hx2) as (v & Hv). rewrite Hv in Hoa. discriminate.
    - intros k. rewrite G2, aget_app, (aget_mk_filter (notmd md) k V HV), (proj2 (md_some_get md k Hm)).
      destruct (aget k md) as [[oa|]|] eqn:Em.
      + destruct (aget k (mk V)) as [x|] eqn:Ex; [|reflexivity].
        destruct (aget_mk_in _ _ _ Ex) as [_ Ek]. unfold notmd. rewrite Ek, Em. reflexivity.
      + destruct (aget k (mk V)) as [x|] eqn:Ex; [|reflexivity].
        destruct (aget_mk_in _ _ _ Ex) as [_ Ek]. unfold notmd. rewrite Ek, Em. reflexivity.
      + destruct (aget k (mk V)) as [x|] eqn:Ex; [|reflexivity].
        destruct (aget_mk_in _ _ _ Ex) as [_ Ek]. unfold notmd. rewrite Ek, Em. reflexivity. }
  unfold vals at 1. eapply Permutation_trans; [apply Permutation_map; exact Hperm|].
  rewrite map_app. fold (vals (mk (filter (notmd md) V))). rewrite vals_mk. apply Permutation_refl.
Qed.

(* ---------- the crux: a fetched prefix with n + |modified| valid candidates is enough ---------- *)
Definition md_ok (md : list (N * option oacc)) : Prop :=
  forall k oa, In (k, Some oa) md -> t_addr oa = k.

Lemma md_some_addrs md : md_ok md -> addrs (vals (md_some md)) = keys (md_some md).
Proof.
  intros Hok. induction md as [|[k v] md IH]; [reflexivity|].
  cbn [md_some flat_map fst snd]. fold (md_some md). unfold vals, addrs, keys in *. rewrite !map_app.
  rewrite IH by (intros k' oa Hin; apply Hok; right; exact Hin). f_equal.
  destruct v as [oa|]; [|reflexivity]. cbn. rewrite (Hok k oa (or_introl eq_refl)). reflexivity.
Qed.

Lemma NoDup_addrs_filter f V : NoDup (addrs V) -> NoDup (addrs (filter f V)).
Proof.
  induction V as [|x V IH]; intros HV; [constructor|]. inversion HV as [|? ? Hx HV']; subst. cbn [filter].
  destruct (f x); [|exact (IH HV')]. cbn [addrs map]. constructor; [|exact (IH HV')].
  intros Hc. apply Hx. unfold addrs in *. rewrite in_map_iff in *. destruct Hc as (y & E & Hy).
  exists y. split; [exact E|]. apply filter_In in Hy. exact (proj1 Hy).
Qed.

Lemma NoDup_addrs_NoDup V : NoDup (addrs V) -> NoDup V.
Proof. exact (NoDup_map_inv t_addr V). Qed.

Lemma filter_split_length {A} (f : A -> bool) l :
  length l = (length (filter f l) + length (filter (fun x => negb (f x)) l))%nat.
Proof. induction l as [|x l IH]; [reflexivity|]. cbn [filter]. destruct (f x); cbn [negb length]; lia. Qed.

Lemma notmd_loss md V : NoDup (addrs V) ->
  (length V <= length (filter (notmd md) V) + length md)%nat.
Proof.
  intros HV. rewrite (filter_split_length (notmd md) V).
  assert (Hle : (length (filter (fun x => negb (notmd md x)) V) <= length md)%nat).
  { pose proof (NoDup_addrs_filter (fun x => negb (notmd md x)) V HV) as Hnd.
    assert (Hincl : incl (addrs (filter (fun x => negb (notmd md x)) V)) (keys md)).
    { intros a Ha. unfold addrs in Ha. rewrite in_map_iff in Ha. destruct Ha as (x & <- & Hx).
      apply filter_In in Hx as [_ Hx]. unfold notmd in Hx. destruct (aget (t_addr x) md) eqn:E; [|discriminate].
      exact (aget_some_in _ _ _ E). }
    pose proof (NoDup_incl_length Hnd Hincl) as Hl. unfold addrs, keys in Hl. rewrite !map_length in Hl. exact Hl. }
  lia.
Qed.

Lemma firstn_all_ge {A} m (l : list A) : (length l <= m)%nat -> firstn m l = l.
Proof. intros H. apply firstn_all2. exact H. Qed.

Lemma prefix_enough D md n m vr :
  sortedT D -> NoDup (addrs D) -> NoDup (keys md) -> md_ok md ->
  ((length D <= m)%nat \/ (n + length md <= length (filter (validb vr) (firstn m D)))%nat) ->
  firstn n (top_sort (vals (apply_md md (mk (filter (validb vr) (firstn m D)))))) =
  firstn n (top_sort (vals (apply_md md (mk (filter (validb vr) D))))).
Proof.
  intros Hs HD Hm Hok [Hall|Hen].
  - rewrite (firstn_all_ge m D Hall). reflexivity.
  - set (P := firstn m D) in *. set (T := skipn m D).
    assert (HDsplit : D = P ++ T) by (symmetry; apply firstn_skipn).
    set (VP := filter (validb vr) P) in *. set (VT := filter (validb vr) T).
    assert (HVD : filter (validb vr) D = VP ++ VT) by (rewrite HDsplit at 1; apply filter_app).
    assert (HndVD : NoDup (addrs (VP ++ VT))) by (rewrite <- HVD; apply NoDup_addrs_filter; exact HD).
    assert (HndVP : NoDup (addrs VP)).
    { unfold addrs in *. rewrite map_app in HndVD. exact (NoDup_app_l _ _ HndVD). }
    set (X := filter (notmd md) VP ++ vals (md_some md)).
    set (Z := filter (notmd md) VT).
    (* both value lists, up to permutation *)
    pose proof (apply_md_perm md VP Hm HndVP) as PermP. fold X in PermP.
    pose proof (apply_md_perm md (VP ++ VT) Hm HndVD) as PermD.
    rewrite filter_app in PermD.
    assert (PermD' : Permutation (vals (apply_md md (mk (VP ++ VT)))) (Z ++ X)).
    { eapply Permutation_trans; [exact PermD|]. unfold X, Z. rewrite <- app_assoc.
      eapply Permutation_trans; [apply Permutation_app_swap_app|]. apply Permutation_refl. }
    (* no address twice in Z ++ X *)
    assert (HndZX : NoDup (addrs (Z ++ X))).
    { unfold addrs. apply (Permutation_NoDup (Permutation_map t_addr PermD')).
      fold (addrs (vals (apply_md md (mk (VP ++ VT))))).
      destruct (apply_md_get md (mk (VP ++ VT)) Hm ltac:(rewrite keys_mk; exact HndVD)) as [G1 G2].
      (* the values carry their own address as key *)
      assert (Haddr : addrs (vals (apply_md md (mk (VP ++ VT)))) = keys (apply_md md (mk (VP ++ VT)))).
      { unfold addrs, vals, keys. rewrite map_map. apply map_ext_in. intros [k oa] Hin. cbn.
        pose proof (aget_in_nodup k oa _ G1 Hin) as Hg. rewrite G2 in Hg.
        destruct (aget k md) as [[oa'|]|] eqn:Em.
        - inversion Hg; subst oa'. apply Hok. exact (aget_some_in_pair _ _ _ Em).
        - discriminate.
        - exact (proj2 (aget_mk_in _ _ _ Hg)). }
      rewrite Haddr. exact G1. }
    assert (HndX : NoDup (addrs X)).
    { unfold addrs in *. rewrite map_app in HndZX. exact (NoDup_app_r _ _ HndZX). }
    rewrite HVD.
    rewrite (top_sort_perm_eq _ _ ltac:(unfold addrs; apply (Permutation_NoDup (Permutation_map t_addr (Permutation_sym PermP))); exact HndX) PermP).
    rewrite (top_sort_perm_eq _ _ ltac:(unfold addrs; apply (Permutation_NoDup (Permutation_map t_addr (Permutation_sym PermD'))); exact HndZX) PermD').
    symmetry. apply (firstn_sort_extend n X Z (filter (notmd md) VP)).
    + exact HndZX.
    + apply NoDup_addrs_NoDup. apply NoDup_addrs_filter. exact HndVP.
    + intros b Hb. unfold X. apply in_or_app. left; exact Hb.
    + pose proof (notmd_loss md VP HndVP). lia.
    + intros z b Hz Hb. apply (sorted_split m D Hs).
      * apply filter_In in Hb as [Hb _]. apply filter_In in Hb as [Hb _]. exact Hb.
      * apply filter_In in Hz as [Hz _]. apply filter_In in Hz as [Hz _]. exact Hz.
Qed.

(* ---------- exact normalized balance ---------- *)
Definition nb_exact (unit rbase malgos : N) : N := (malgos * unit) / (rbase + unit).
Definition oacc_of (unit k : N) (a : oacct) : oacc :=
  mkOAcc k (a_malgos a) (a_rbase a) (nb_exact unit (a_rbase a) (a_malgos a)) (a_vfirst a) (a_vlast a) (a_vid a).
Definition votes (vr : N) (a : oacct) : bool := is_online a && valid_in (a_vfirst a) (a_vlast a) vr.

Lemma norm_exact unit rbase malgos : malgos < W -> rbase + unit < W -> unit <> 0 ->
  norm_balance unit rbase malgos = Some (nb_exact unit rbase malgos).
Proof.
  intros Hm Hr Hu. unfold norm_balance, nb_exact. change (2 ^ 64) with W.
  rewrite N.mod_small by exact Hr. unfold Muldiv.
  pose proof (muldiv_exact malgos unit (rbase + unit) Hm ltac:(change W64 with W; lia) Hr) as Hx.
  destruct (muldiv malgos unit (rbase + unit)) as [[q r] o]. destruct Hx as (_ & H2 & H3 & _).
  assert (Hc : rbase + unit <> 0) by lia. specialize (H2 Hc).
  assert (Hq : malgos * unit / (rbase + unit) < W).
  { apply N.div_lt_upper_bound; [exact Hc|]. nia. }
  destruct o.
  - destruct H2 as [H2 _]. specialize (H2 eq_refl). change W64 with W in H2. lia.
  - destruct (H3 eq_refl) as (-> & _ & _). reflexivity.
Qed.

Lemma spec_oacc_exact unit k a : a_malgos a < W -> a_rbase a + unit < W -> unit <> 0 ->
  spec_oacc unit k a = Some (oacc_of unit k a).
Proof.
  intros Hm Hr Hu. unfold spec_oacc, exact_norm, oacc_of, nb_exact.
  destruct (N.leb_spec W (a_rbase a + unit)); [lia|]. destruct (N.eqb_spec (a_rbase a + unit) 0); [lia|]. cbn [orb].
  destruct (N.ltb_spec (a_malgos a * unit / (a_rbase a + unit)) W) as [|Hc]; [reflexivity|].
  exfalso. assert (a_malgos a * unit / (a_rbase a + unit) < W) by (apply N.div_lt_upper_bound; [lia|nia]). lia.
Qed.

(* ---------- AccountsOnlineTop: the accounts online at rnd according to the table ---------- *)
Definition db_oacc (unit k : N) (b : bdata) : oacc :=
  mkOAcc k (b_malgos b) (b_rbase b) (nb_exact unit (b_rbase b) (b_malgos b)) (b_vfirst b) (b_vlast b) (b_vid b).

Lemma db_online_addrs unit rnd (rows : table) : forall dbl x, db_online unit rnd rows = Some dbl -> In x (addrs dbl) -> In x (keys rows).
Proof.
  induction rows as [|[k0 es] rows IH]; intros dbl x H Hx.
  - cbn in H. inversion H; subst. destruct Hx.
  - cbn [db_online fold_right fst snd] in H. fold (db_online unit rnd rows) in H.
    destruct (db_online unit rnd rows) as [l|]; [|discriminate].
    pose proof (fun y => IH l y eq_refl) as IHl. clear IH.
    cbn [keys map fst]. destruct (latest_le rnd es) as [e|].
    + destruct (voting_empty (snd e)); [inversion H; subst dbl; right; exact (IHl x Hx)|].
      destruct (norm_balance unit _ _) as [nb|]; [|discriminate].
      destruct (nb =? 0); inversion H; subst dbl; [right; exact (IHl x Hx)|].
      cbn [addrs map t_addr] in Hx. destruct Hx as [E|Hx]; [left; exact E|right; exact (IHl x Hx)].
    + inversion H; subst dbl. right; exact (IHl x Hx).
Qed.

Lemma db_online_get unit rnd (rows : table) : unit <> 0 -> NoDup (keys rows) ->
  (forall k, let b := view (tget k rows) rnd in
             voting_empty b = false -> b_malgos b < W /\ b_rbase b + unit < W) ->
  exists dbl, db_online unit rnd rows = Some dbl /\ NoDup (addrs dbl) /\
    forall k, aget k (mk dbl) =
      (let b := view (tget k rows) rnd in
       if voting_empty b then None
       else if nb_exact unit (b_rbase b) (b_malgos b) =? 0 then None else Some (db_oacc unit k b)).
Proof.
  intros Hu. induction rows as [|[k0 es] rows IH]; intros Hnd Hn.
  - exists []. split; [reflexivity|]. split; [constructor|]. intros k. reflexivity.
  - inversion Hnd as [|? ? Hk0 Hnd']; subst.
    destruct IH as (l & El & Hl & Gl); [exact Hnd'| |].
    { intros k. specialize (Hn k). cbn [tget] in Hn. destruct (N.eqb_spec k0 k) as [->|]; [|exact Hn].
      rewrite (tget_not_in k rows Hk0). cbn. discriminate. }
    cbn [db_online fold_right fst snd]. fold (db_online unit rnd rows). rewrite El.
    assert (Hk0l : aget k0 (mk l) = None).
    { apply aget_notin. rewrite keys_mk. intros Hc. exact (Hk0 (db_online_addrs _ _ _ _ _ El Hc)). }
    pose proof (Hn k0) as Hn0. cbn [tget] in Hn0. rewrite N.eqb_refl in Hn0. unfold view in Hn0.
    assert (Hother : forall k, k0 <> k -> tget k ((k0, es) :: rows) = tget k rows).
    { intros k Hne. cbn [tget]. destruct (N.eqb_spec k0 k); [contradiction|reflexivity]. }
    destruct (latest_le rnd es) as [e|] eqn:Ell.
    + destruct (voting_empty (snd e)) eqn:Eve.
      * exists l. split; [reflexivity|]. split; [exact Hl|]. intros k. destruct (N.eq_dec k0 k) as [<-|Hne].
        -- cbn [tget]. rewrite N.eqb_refl. unfold view. rewrite Ell. cbn zeta. rewrite Eve. exact Hk0l.
        -- rewrite (Hother k Hne). apply Gl.
      * destruct (Hn0 eq_refl) as [Hm Hr]. rewrite (norm_exact unit _ _ Hm Hr Hu).
        destruct (nb_exact unit (b_rbase (snd e)) (b_malgos (snd e)) =? 0) eqn:Ez.
        -- exists l. split; [reflexivity|]. split; [exact Hl|]. intros k. destruct (N.eq_dec k0 k) as [<-|Hne].
           ++ cbn [tget]. rewrite N.eqb_refl. unfold view. rewrite Ell. cbn zeta. rewrite Eve, Ez. exact Hk0l.
           ++ rewrite (Hother k Hne). apply Gl.
        -- eexists. split; [reflexivity|]. split.
           ++ cbn [addrs map t_addr]. constructor; [|exact Hl]. intros Hc. exact (Hk0 (db_online_addrs _ _ _ _ _ El Hc)).
           ++ intros k. cbn [mk map aget t_addr]. fold (mk l). destruct (N.eqb_spec k0 k) as [<-|Hne].
              ** cbn [tget]. rewrite N.eqb_refl. unfold view. rewrite Ell. cbn zeta. rewrite Eve, Ez. reflexivity.
              ** rewrite (Hother k Hne). apply Gl.
    + exists l. split; [reflexivity|]. split; [exact Hl|]. intros k. destruct (N.eq_dec k0 k) as [<-|Hne].
      * cbn [tget]. rewrite N.eqb_refl. unfold view. rewrite Ell. cbn. exact Hk0l.
      * rewrite (Hother k Hne). apply Gl.
Qed.

(* ---------- the scan of the in-memory deltas ---------- *)
Lemma in_aset {V} k (v : V) l k' v' : In (k', v') (aset k v l) -> (k' = k /\ v' = v) \/ In (k', v') l.
Proof.
  induction l as [|[k2 v2] l IH]; cbn [aset].
  - intros [[= -> ->]|[]]. left; split; reflexivity.
  - destruct (N.eqb_spec k2 k).
    + intros [[= -> ->]|H]; [left; split; reflexivity|right; right; exact H].
    + intros [E|H]; [right; left; exact E|]. destruct (IH H) as [?|?]; [left; assumption|right; right; assumption].
Qed.

Definition acct_norm_ok (unit : N) (a : oacct) : Prop := a_malgos a < W /\ a_rbase a + unit < W.

Lemma acct_to_online_exact unit k a : unit <> 0 -> is_online a = true -> acct_norm_ok unit a ->
  acct_to_online unit k a = Some (oacc_of unit k a).
Proof.
  intros Hu Hon [Hm Hr]. unfold acct_to_online. rewrite Hon, (norm_exact unit _ _ Hm Hr Hu). reflexivity.
Qed.

Definition scan_val (unit vr k : N) (a : oacct) : option oacc :=
  if votes vr a then Some (oacc_of unit k a) else None.

Definition scan_step (unit vr : N) (st : option (list (N * option oacc) * list (N * oacc))) (ka : N * oacct) :=
  match st with
  | None => None
  | Some (md, inv) =>
      let k := fst ka in let a := snd ka in
      if negb (is_online a) then Some (aset k None md, inv)
      else match acct_to_online unit k a with
           | None => None
           | Some oa =>
               if negb (valid_in (a_vfirst a) (a_vlast a) vr)
               then Some (aset k None md, aset k oa inv)
               else Some (aset k (Some oa) md, inv)
           end
  end.

Lemma scan_delta unit vr : unit <> 0 -> forall (d : list (N * oacct)) md inv,
  NoDup (keys d) -> NoDup (keys md) -> md_ok md ->
  (forall k a, In (k, a) d -> is_online a = true -> acct_norm_ok unit a) ->
  exists md' inv', fold_left (scan_step unit vr) d (Some (md, inv)) = Some (md', inv') /\
    NoDup (keys md') /\ md_ok md' /\
    forall k, aget k md' = match aget k d with Some a => Some (scan_val unit vr k a) | None => aget k md end.
Proof.
  intros Hu. induction d as [|[k0 a0] d IH]; intros md inv Hd Hm Hok Hn; cbn [fold_left].
  - exists md, inv. repeat split; try assumption.
  - inversion Hd as [|? ? Hk0 Hd']; subst. cbn [scan_step fst snd].
    assert (Hstep : exists md1 inv1,
              (if negb (is_online a0) then Some (aset k0 None md, inv)
               else match acct_to_online unit k0 a0 with
                    | None => None
                    | Some oa => if negb (valid_in (a_vfirst a0) (a_vlast a0) vr)
                                 then Some (aset k0 None md, aset k0 oa inv) else Some (aset k0 (Some oa) md, inv)
                    end) = Some (md1, inv1) /\ md1 = aset k0 (scan_val unit vr k0 a0) md).
    { unfold scan_val, votes. destruct (is_online a0) eqn:Eon; cbn [negb andb].
      - rewrite (acct_to_online_exact unit k0 a0 Hu Eon (Hn k0 a0 (or_introl eq_refl) Eon)).
        destruct (valid_in (a_vfirst a0) (a_vlast a0) vr); cbn [negb]; eexists; eexists; split; reflexivity.
      - eexists; eexists; split; reflexivity. }
    destruct Hstep as (md1 & inv1 & -> & ->).
    destruct (IH (aset k0 (scan_val unit vr k0 a0) md) inv1 Hd' (NoDup_aset _ _ _ Hm)) as (md' & inv' & E & N1 & O1 & G1).
    + intros k oa Hin. apply in_aset in Hin as [[-> Hv]|Hin]; [|exact (Hok k oa Hin)].
      unfold scan_val in Hv. destruct (votes vr a0); [|discriminate]. inversion Hv. reflexivity.
    + intros k a Hin. apply (Hn k a). right; exact Hin.
    + exists md', inv'. split; [exact E|]. split; [exact N1|]. split; [exact O1|].
      intros k. rewrite G1. cbn [aget]. destruct (N.eqb_spec k0 k) as [->|Hne].
      * rewrite (aget_notin k d Hk0). apply aget_aset_same.
      * destruct (aget k d); [reflexivity|]. apply aget_aset_other. congruence.
Qed.

Lemma walk_back_app k a b : walk_back k (a ++ b) = match walk_back k a with Some x => Some x | None => walk_back k b end.
Proof. induction a as [|d a IH]; [reflexivity|]. cbn [app walk_back]. destruct (aget k d); [reflexivity|exact IH]. Qed.

Lemma top_scan_fold unit vr ds : top_scan unit vr ds =
  fold_left (fun st d => fold_left (scan_step unit vr) d st) ds (Some ([], [])).
Proof. reflexivity. Qed.

Lemma scan_deltas unit vr : unit <> 0 -> forall (ds : list (list (N * oacct))) md inv,
  (forall d, In d ds -> NoDup (keys d)) -> NoDup (keys md) -> md_ok md ->
  (forall d k a, In d ds -> In (k, a) d -> is_online a = true -> acct_norm_ok unit a) ->
  exists md' inv', fold_left (fun st d => fold_left (scan_step unit vr) d st) ds (Some (md, inv)) = Some (md', inv') /\
    NoDup (keys md') /\ md_ok md' /\
    forall k, aget k md' = match walk_back k (rev ds) with Some a => Some (scan_val unit vr k a) | None => aget k md end.
Proof.
  intros Hu. induction ds as [|d ds IH]; intros md inv Hnd Hm Hok Hn; cbn [fold_left].
  - exists md, inv. repeat split; try assumption.
  - destruct (scan_delta unit vr Hu d md inv (Hnd d (or_introl eq_refl)) Hm Hok (fun k a Hin => Hn d k a (or_introl eq_refl) Hin))
      as (md1 & inv1 & E1 & N1 & O1 & G1).
    rewrite E1.
    destruct (IH md1 inv1 (fun d' Hd' => Hnd d' (or_intror Hd')) N1 O1 (fun d' k a Hd' => Hn d' k a (or_intror Hd')))
      as (md' & inv' & E & N2 & O2 & G2).
    exists md', inv'. split; [exact E|]. split; [exact N2|]. split; [exact O2|].
    intros k. rewrite G2. cbn [rev]. rewrite walk_back_app. cbn [walk_back].
    destruct (walk_back k (rev ds)); [reflexivity|]. rewrite G1. destruct (aget k d); reflexivity.
Qed.

(* ---------- assembling: TopOnlineAccounts' list under the invariant ---------- *)
Lemma acct_at_S G bs n k b : nth_error bs n = Some b ->
  acct_at G bs (Datatypes.S n) k = match aget k (ob_mods b) with Some x => x | None => acct_at G bs n k end.
Proof.
  intros Hnb. unfold acct_at.
  assert (Hfs : firstn (Datatypes.S n) bs = firstn n bs ++ [b]).
  { revert bs Hnb. induction n as [|n IHn]; intros bs Hnb; destruct bs as [|x bs]; try discriminate.
    - cbn in Hnb. inversion Hnb; reflexivity.
    - cbn [firstn app]. f_equal. apply IHn. exact Hnb. }
  rewrite Hfs, fold_left_app. reflexivity.
Qed.

Lemma nth_error_skipn {A} (l : list A) : forall dn j, nth_error (skipn dn l) j = nth_error l (dn + j).
Proof.
  intros dn. revert l. induction dn as [|d IH]; intros l j; [reflexivity|].
  destruct l as [|x l]; [destruct j; reflexivity|]. cbn [Nat.add nth_error skipn]. apply IH.
Qed.

Lemma view_in (es : list entry) r : view es r = bdata0 \/ exists e, In e es /\ snd e = view es r.
Proof.
  unfold view. destruct (latest_le r es) as [e|] eqn:E; [|left; reflexivity].
  right. exists e. split; [exact (proj1 (latest_le_in _ _ _ E))|reflexivity].
Qed.

Lemma aget_mk_map (f : N -> oacc) (P : N -> bool) k : (forall x, t_addr (f x) = x) -> forall ks,
  aget k (mk (map f (filter P ks))) = if existsb (N.eqb k) ks && P k then Some (f k) else None.
Proof.
  intros Hf. induction ks as [|x ks IH]; [reflexivity|]. cbn [filter existsb].
  destruct (N.eqb_spec k x) as [->|Hne].
  - cbn [orb andb]. destruct (P x) eqn:Ep.
    + cbn [map mk aget]. rewrite Hf, N.eqb_refl. reflexivity.
    + rewrite IH, andb_false_r. reflexivity.
  - cbn [orb]. destruct (P x); [|exact IH]. cbn [map mk aget]. fold (mk (map f (filter P ks))).
    rewrite Hf. destruct (N.eqb_spec x k); [congruence|exact IH].
Qed.

Section TopThm.
Variables (p : oparams) (G : list (N * oacct)) (supply0 : N).

Definition hist_norm (bs : list oblock) : Prop :=
  forall r k, acct_norm_ok (op_unit p) (acct_at G bs r k).
Definition online_pos (bs : list oblock) : Prop :=
  forall r k, is_online (acct_at G bs r k) = true ->
              nb_exact (op_unit p) (a_rbase (acct_at G bs r k)) (a_malgos (acct_at G bs r k)) <> 0.

(* the voters of round r that may vote in vr, in the order of the universe *)
Definition voters_of (bs : list oblock) (r : nat) (vr : N) : list oacc :=
  map (fun k => oacc_of (op_unit p) k (acct_at G bs r k))
      (filter (fun k => votes vr (acct_at G bs r k)) (universe G bs)).

Theorem top_list_spec batch bs s rnd vr n (dn off : nat) top inv :
  Inv G supply0 bs s -> blocks_ok bs -> op_unit p <> 0 -> (1 <= batch)%nat ->
  hist_norm bs -> online_pos bs ->
  o_db s = N.of_nat dn -> (off <= length (o_deltas s))%nat ->
  (rnd <= o_db s -> off = O) -> (o_db s <= rnd -> N.to_nat rnd = (dn + off)%nat) ->
  params_at s rnd <> None ->
  top_list batch p s off rnd vr n = Some (top, inv) ->
  top = firstn (N.to_nat n) (top_sort (voters_of bs (N.to_nat rnd) vr)).
Proof.
  intros Hinv Hok Hu Hb Hnorm Hpos Hdb Hoffl Hh1 Hh2 Hserv Htop.
  pose proof (inv_latest _ _ _ _ Hinv) as Hlat.
  destruct (inv_params_at G supply0 bs s Hinv rnd) as (hm0 & _ & Hpa0).
  destruct Hinv as [dn2 hm H Hdb2 Hdn Hdl Hand Hacc [HH Hhm] Hpar Hdbp Hrnd Hrows Hcnd Hcache].
  assert (dn2 = dn) by lia. subst dn2.
  assert (Hdlen : length (o_deltas s) = (length bs - dn)%nat) by (rewrite Hdl, map_length, skipn_length; reflexivity).
  (* rnd is in the retained window *)
  assert (Hwin : N.of_nat hm <= rnd).
  { assert (Hplen : length (o_params s) = (Datatypes.S (length bs) - hm)%nat) by (rewrite Hpar, map_length, seq_length; reflexivity).
    assert (Hst : params_start s = N.of_nat hm) by (unfold params_start; rewrite Hlat, Hplen; lia).
    unfold params_at, params_offset in Hserv. rewrite Hst in Hserv.
    destruct (N.ltb_spec rnd (N.of_nat hm)); [contradiction|assumption]. }
  set (r0 := N.min rnd (o_db s)).
  assert (Hr0 : N.of_nat H <= r0 /\ r0 <= o_db s) by (unfold r0; lia).
  assert (Er0 : rnd <= o_db s -> N.to_nat r0 = N.to_nat rnd) by (intros; unfold r0; rewrite N.min_l by assumption; reflexivity).
  assert (Er0' : o_db s <= rnd -> N.to_nat r0 = dn) by (intros; unfold r0; lia).
  set (ds := firstn off (o_deltas s)) in *.
  (* the account at rnd: the last touch in ds, or the account at r0 *)
  assert (Hacct : forall k, acct_at G bs (N.to_nat rnd) k =
                            match walk_back k (rev ds) with Some a => a | None => acct_at G bs (N.to_nat r0) k end).
  { intros k. destruct (N.le_ge_cases rnd (o_db s)) as [Hc|Hc].
    - assert (off = O) by (apply Hh1; exact Hc). subst off. unfold ds. cbn [firstn rev walk_back]. rewrite (Er0 Hc). reflexivity.
    - rewrite (Hh2 Hc), (Er0' Hc). apply (acct_at_from_deltas G bs s k dn off Hdl Hoffl). }
  (* every delta entry is the account of its round *)
  assert (Hentry : forall d k a, In d ds -> In (k, a) d -> NoDup (keys d) /\ exists r, a = acct_at G bs r k).
  { intros d k a Hd Hin. unfold ds in Hd. apply In_firstn in Hd. destruct (In_nth_error _ _ Hd) as (j & Hj).
    rewrite Hdl, nth_error_map, nth_error_skipn in Hj.
    destruct (nth_error bs (dn + j)) as [b|] eqn:Eb; [|discriminate]. cbn in Hj. inversion Hj; subst d.
    assert (Hbok : block_ok b) by (unfold blocks_ok in Hok; rewrite Forall_forall in Hok; exact (Hok b (nth_error_In _ _ Eb))).
    split; [exact (proj1 Hbok)|]. exists (Datatypes.S (dn + j)).
    rewrite (acct_at_S G bs _ k b Eb), (aget_in_nodup k a _ (proj1 Hbok) Hin). reflexivity. }
  unfold top_list in Htop. rewrite top_scan_fold in Htop. fold ds in Htop.
  destruct (scan_deltas (op_unit p) vr Hu ds [] []) as (md & inv0 & Escan & Hmnd & Hmok & Hmget).
  { intros d Hd. destruct ds as [|d0 ds'] eqn:Eds; [destruct Hd|].
    destruct d as [|[k a] d']; [constructor|]. exact (proj1 (Hentry _ k a Hd (or_introl eq_refl))). }
  { constructor. }
  { intros k oa []. }
  { intros d k a Hd Hin _. destruct (Hentry d k a Hd Hin) as [_ (r & ->)]. apply Hnorm. }
  rewrite Escan in Htop.
  set (nn := N.to_nat n) in *.
  (* the accounts online at rnd according to the table *)
  assert (Hview : forall k, view (tget k (o_rows s)) rnd = tgt (acct_at G bs (N.to_nat r0) k)).
  { intros k. destruct (Hrows k) as (_ & _ & Hupd & Hracc). unfold r0.
    destruct (N.le_ge_cases rnd (o_db s)) as [Hc|Hc].
    - rewrite N.min_l by exact Hc. apply Hracc; lia.
    - rewrite N.min_r by exact Hc. rewrite (view_beyond _ _ rnd Hupd Hc). apply Hracc; lia. }
  assert (Hvon : forall k, is_online (acct_at G bs (N.to_nat r0) k) = true ->
                           voting_empty (bdata_of (acct_at G bs (N.to_nat r0) k)) = false).
  { intros k Hon. destruct (voting_empty (bdata_of (acct_at G bs (N.to_nat r0) k))) eqn:Eve; [|reflexivity]. exfalso.
    assert (Hb0 : bdata_of (acct_at G bs (N.to_nat r0) k) = bdata0).
    { pose proof (Hview k) as Hv. unfold tgt in Hv. rewrite Hon in Hv.
      destruct (view_in (tget k (o_rows s)) rnd) as [E|(e & Hin & E)]; [congruence|].
      destruct (Hrows k) as (_ & Hwf & _). rewrite <- Hv, <- E. apply (Hwf e Hin). rewrite E, Hv. exact Eve. }
    apply (Hpos (N.to_nat r0) k Hon). unfold nb_exact.
    assert (a_malgos (acct_at G bs (N.to_nat r0) k) = 0) by (apply (f_equal b_malgos) in Hb0; exact Hb0).
    rewrite H0. reflexivity. }
  destruct (db_online_get (op_unit p) rnd (o_rows s) Hu Hrnd) as (dbl & Edb & Hdbnd & Hdbget).
  { intros k. cbn zeta. rewrite Hview. unfold tgt. destruct (is_online (acct_at G bs (N.to_nat r0) k)) eqn:Eon.
    - intros _. exact (Hnorm (N.to_nat r0) k).
    - cbn. discriminate. }
  assert (Hdb_k : forall k, aget k (mk dbl) =
            if is_online (acct_at G bs (N.to_nat r0) k) then Some (oacc_of (op_unit p) k (acct_at G bs (N.to_nat r0) k)) else None).
  { intros k. rewrite Hdbget. cbn zeta. rewrite Hview. unfold tgt.
    destruct (is_online (acct_at G bs (N.to_nat r0) k)) eqn:Eon; [|reflexivity].
    rewrite (Hvon k Eon). cbn [bdata_of b_rbase b_malgos].
    destruct (N.eqb_spec (nb_exact (op_unit p) (a_rbase (acct_at G bs (N.to_nat r0) k)) (a_malgos (acct_at G bs (N.to_nat r0) k))) 0) as [Ez|_];
      [exfalso; exact (Hpos _ _ Eon Ez)|reflexivity]. }
  (* the value every address should end up with *)
  set (g := fun k => let a := acct_at G bs (N.to_nat rnd) k in
                     if votes vr a then Some (oacc_of (op_unit p) k a) else None).
  assert (Hfinal : forall V, NoDup (addrs V) -> (forall k, aget k (mk V) = aget k (mk dbl)) ->
            forall k, aget k (apply_md md (mk (filter (validb vr) V))) = g k).
  { intros V HV HVg k.
    destruct (apply_md_get md (mk (filter (validb vr) V)) Hmnd ltac:(rewrite keys_mk; apply NoDup_addrs_filter; exact HV)) as [_ Gk].
    rewrite Gk, Hmget. unfold g. cbn zeta. rewrite (Hacct k).
    destruct (walk_back k (rev ds)) as [a|]; [unfold scan_val; destruct (votes vr a); reflexivity|].
    cbn [aget]. rewrite (aget_mk_filter (validb vr) k V HV), HVg, Hdb_k. unfold votes.
    destruct (is_online (acct_at G bs (N.to_nat r0) k)); [|reflexivity]. cbn [andb]. reflexivity. }
  (* the history's voter list has the same association *)
  destruct (universe_spec G bs) as [Und Uout].
  assert (Hspec_k : forall k, aget k (mk (voters_of bs (N.to_nat rnd) vr)) = g k).
  { intros k. unfold voters_of. rewrite (aget_mk_map (fun k => oacc_of (op_unit p) k (acct_at G bs (N.to_nat rnd) k))
                                           (fun k => votes vr (acct_at G bs (N.to_nat rnd) k)) k (fun x => eq_refl)).
    unfold g. cbn zeta. destruct (votes vr (acct_at G bs (N.to_nat rnd) k)) eqn:Ev; [|rewrite andb_false_r; reflexivity].
    rewrite andb_true_r.
    destruct (existsb (N.eqb k) (universe G bs)) eqn:Ee; [reflexivity|]. exfalso.
    assert (Hnin : ~ In k (universe G bs)).
    { intros Hin. assert (existsb (N.eqb k) (universe G bs) = true) by (apply existsb_exists; exists k; split; [exact Hin|apply N.eqb_refl]). congruence. }
    rewrite (acct_at_outside G bs _ k Hnin) in Ev. discriminate. }
  assert (Hspec_nd : NoDup (addrs (voters_of bs (N.to_nat rnd) vr))).
  { unfold voters_of, addrs. rewrite map_map. cbn [oacc_of t_addr]. rewrite map_id. apply NoDup_filter. exact Und. }
  (* the candidates, had everything been fetched *)
  assert (Hall : forall V, NoDup (addrs V) -> (forall k, aget k (mk V) = aget k (mk dbl)) ->
            top_sort (vals (apply_md md (mk (filter (validb vr) V)))) = top_sort (voters_of bs (N.to_nat rnd) vr)).
  { intros V HV HVg. symmetry. apply top_sort_perm_eq; [exact Hspec_nd|].
    rewrite <- (vals_mk (voters_of bs (N.to_nat rnd) vr)) at 1. unfold vals. apply Permutation_map.
    apply assoc_perm.
    - rewrite keys_mk. exact Hspec_nd.
    - exact (proj1 (apply_md_get md (mk (filter (validb vr) V)) Hmnd ltac:(rewrite keys_mk; apply NoDup_addrs_filter; exact HV))).
    - intros k. rewrite Hspec_k, (Hfinal V HV HVg k). reflexivity. }
  revert Htop. destruct (Nat.eqb_spec (nn + length md) 0) as [Hz|Hnz]; intros Htop.
  - (* nothing to fetch: n = 0 *)
    assert (md = []) by (destruct md; [reflexivity|cbn in Hz; lia]). subst md.
    assert (Hnn : nn = O) by (cbn in Hz; lia).
    cbn [top_sort fold_right length top_fetch] in Htop. rewrite Hnn in Htop.
    cbn [Nat.add Nat.leb fold_left map vals] in Htop. inversion Htop; subst top. clear Htop.
    rewrite Hnn. reflexivity.
  - rewrite Edb in Htop.
    set (D := top_sort dbl) in *.
    assert (HDs : sortedT D) by (apply top_sort_sorted; exact Hdbnd).
    assert (HDp : Permutation D dbl) by apply top_sort_perm.
    assert (HDnd : NoDup (addrs D)) by (unfold addrs; apply (Permutation_NoDup (Permutation_map t_addr (Permutation_sym HDp))); exact Hdbnd).
    destruct (top_fetch (Datatypes.S (length D)) batch (nn + length md) vr D 0 [] []) as [c i] eqn:Ef.
    destruct (top_fetch_spec batch (nn + length md) vr D Hb (Datatypes.S (length D)) O [] [] c i ltac:(lia) eq_refl eq_refl Ef)
      as (m & Ec & _ & Hm).
    inversion Htop; subst top. clear Htop.
    change (fold_left (fun c0 km => match snd km with None => adel (fst km) c0 | Some oa => aset (fst km) oa c0 end) md
                      (map (fun oa => (t_addr oa, oa)) c)) with (apply_md md (mk c)).
    rewrite Ec. fold (vals (apply_md md (mk (filter (validb vr) (firstn m D))))).
    rewrite (prefix_enough D md nn m vr HDs HDnd Hmnd).
    + f_equal. apply Hall; [exact HDnd|]. intros k. apply aget_perm; [rewrite keys_mk; exact HDnd|].
      unfold mk. apply Permutation_map. exact HDp.
    + intros k oa Hin. exact (Hmok k oa Hin).
    + destruct Hm as [Hm|Hm]; [left; exact Hm|right]. rewrite Ec in Hm. exact Hm.
Qed.

End TopThm.

(* ---------- the reported weight (ExcludeExpiredCirculation) ---------- *)
Section TopTotal.
Variables (p : oparams) (G : list (N * oacct)) (supply0 : N).

Lemma expired_circulation_spec bs s rnd vr rp ex :
  Inv G supply0 bs s -> blocks_ok bs -> op_unit p <> 0 -> hist_u64 G bs ->
  params_at s rnd = Some rp ->
  spec_expired p G supply0 bs (N.to_nat rnd) vr = Some ex ->
  expired_circulation p s rnd vr rp = if ex <? W then ROk ex else RErr.
Proof.
  intros Hinv Hok Hu H64 Erp Esp.
  pose proof (inv_latest _ _ _ _ Hinv) as Hlat.
  pose proof Hinv as Hinv0.
  destruct Hinv as [dn hm H Hdb Hdn Hdl Hand Hacc [HH Hhm] Hpar Hdbp Hrnd Hrows Hcnd Hcache].
  assert (Hdlen : length (o_deltas s) = (length bs - dn)%nat) by (rewrite Hdl, map_length, skipn_length; reflexivity).
  (* servability *)
  assert (Hserv : N.of_nat hm <= rnd /\ rnd <= N.of_nat (length bs) /\ rp = params_spec supply0 bs (N.to_nat rnd)).
  { assert (Hplen : length (o_params s) = (Datatypes.S (length bs) - hm)%nat) by (rewrite Hpar, map_length, seq_length; reflexivity).
    assert (Hst : params_start s = N.of_nat hm) by (unfold params_start; rewrite Hlat, Hplen; lia).
    unfold params_at, params_offset in Erp. rewrite Hst, Hplen in Erp.
    destruct (N.ltb_spec rnd (N.of_nat hm)); [discriminate|].
    destruct (Nat.leb_spec (Datatypes.S (length bs) - hm) (N.to_nat (rnd - N.of_nat hm))); [discriminate|].
    split; [assumption|]. split; [lia|].
    rewrite Hpar, nth_error_map, nth_error_nth' with (d := O) in Erp by (rewrite seq_length; lia).
    rewrite seq_nth in Erp by lia. cbn [option_map] in Erp. inversion Erp. f_equal. lia. }
  destruct Hserv as (Hlo & Hhi & ->).
  set (L := rp_level (params_spec supply0 bs (N.to_nat rnd))) in *.
  assert (HL : L < W) by (apply level_lt_W; exact Hok).
  (* the offset *)
  assert (Hro : exists off, (off <= length (o_deltas s))%nat /\
                            (rnd <= o_db s -> off = O) /\ (o_db s <= rnd -> N.to_nat rnd = (dn + off)%nat) /\
                            expired_circulation p s rnd vr (params_spec supply0 bs (N.to_nat rnd)) =
                            sum_money (fold_left (expired_step (op_unit p) L vr) (firstn off (o_deltas s))
                                         (map (fun kb => (fst kb, oad_of_bdata (op_unit p) L (snd kb))) (db_expired rnd vr (o_rows s)))) 0).
  { unfold expired_circulation, round_offset. fold L. destruct (N.ltb_spec rnd (o_db s)).
    - exists O. repeat split; try lia.
    - destruct (Nat.ltb_spec (length (o_deltas s)) (N.to_nat (rnd - o_db s))); [lia|].
      exists (N.to_nat (rnd - o_db s)). repeat split; try lia. }
  destruct Hro as (off & Hoffl & Hh1 & Hh2 & ->).
  destruct (expired_map p G supply0 bs s rnd vr dn off L Hinv0 Hok Hu HL Hdb Hoffl Hh1 Hh2) as [Mnd Mget].
  { exists H. split; [lia|]. intros k. exact (proj2 (proj2 (proj2 (Hrows k)))). }
  set (m := fold_left (expired_step (op_unit p) L vr) (firstn off (o_deltas s))
              (map (fun kb => (fst kb, oad_of_bdata (op_unit p) L (snd kb))) (db_expired rnd vr (o_rows s)))) in *.
  (* the exact summands *)
  unfold spec_expired in Esp. fold L in Esp.
  destruct (sum_opt_some _ _ _ Esp) as (g & Hg & ->).
  destruct (universe_spec G bs) as [Und Uout].
  (* entries of m: expired accounts with their exact money *)
  assert (Hent : forall k o, In (k, o) m -> exists d, o = Some d /\ d_money d = g k /\ g k < W).
  { intros k o Hin. pose proof (in_aget_nodup _ _ _ Mnd Hin) as Ha. rewrite Mget in Ha. cbn zeta in Ha.
    destruct (is_expired vr (acct_at G bs (N.to_nat rnd) k)) eqn:Ee; [|discriminate]. inversion Ha; subst o. clear Ha.
    destruct (H64 (N.to_nat rnd) k) as [Hm Hr].
    rewrite (oad_of_acct_exact _ _ _ Hm Hr HL).
    assert (Hin_u : In k (universe G bs)).
    { destruct (in_dec N.eq_dec k (universe G bs)) as [|Hn]; [assumption|]. exfalso.
      rewrite (acct_at_outside G bs _ k Hn) in Ee. discriminate. }
    specialize (Hg k Hin_u). cbn zeta in Hg. rewrite Ee in Hg.
    unfold spec_oad. unfold is_expired in Ee. apply andb_true_iff in Ee as [Ee _]. apply andb_true_iff in Ee as [Eon _].
    rewrite Eon. cbn [negb]. rewrite Hg. eexists. split; [reflexivity|]. cbn [d_money]. split; [reflexivity|].
    unfold exact_money in Hg. destruct (op_unit p =? 0); [discriminate|].
    destruct (_ <? _); [discriminate|].
    match type of Hg with (if ?c then _ else _) = _ => destruct c eqn:Ec; [|discriminate] end.
    apply N.ltb_lt in Ec. inversion Hg; subst. exact Ec. }
  rewrite (sum_money_exact m 0 g Hent) by reflexivity. rewrite N.add_0_l.
  (* the two sums agree *)
  assert (Htot : total g (keys m) = total g (universe G bs)).
  { apply total_subset; [exact Mnd|exact Und| |].
    - intros k Hk. destruct (aget_in_keys _ _ Hk) as (o & Ho). rewrite Mget in Ho. cbn zeta in Ho.
      destruct (is_expired vr (acct_at G bs (N.to_nat rnd) k)) eqn:Ee; [|discriminate].
      destruct (in_dec N.eq_dec k (universe G bs)) as [|Hn]; [assumption|]. exfalso.
      rewrite (acct_at_outside G bs _ k Hn) in Ee. discriminate.
    - intros k Hk Hnk. specialize (Hg k Hk). cbn zeta in Hg.
      destruct (is_expired vr (acct_at G bs (N.to_nat rnd) k)) eqn:Ee.
      + exfalso. apply Hnk. assert (Ha : aget k m <> None) by (rewrite Mget; cbn zeta; rewrite Ee; discriminate).
        destruct (aget k m) eqn:Ea; [exact (aget_some_in _ _ _ Ea)|contradiction].
      + inversion Hg. reflexivity. }
  rewrite Htot.
  reflexivity.
Qed.

End TopTotal.

(* ---------- TopOnlineAccounts after any schedule ---------- *)
Section TopFinal.
Variables (p : oparams) (G : list (N * oacct)) (supply0 : N).

Lemma spec_top_voters bs r vr n : op_unit p <> 0 -> hist_norm p G bs ->
  spec_top p G bs r vr n = Some (firstn (N.to_nat n) (top_sort (voters_of p G bs r vr))).
Proof.
  intros Hu Hn. unfold spec_top, voters_of.
  assert (Hm : forall ks, map_opt' (fun k => spec_oacc (op_unit p) k (acct_at G bs r k)) ks =
                          Some (map (fun k => oacc_of (op_unit p) k (acct_at G bs r k)) ks)).
  { induction ks as [|k ks IH]; [reflexivity|]. cbn [map_opt' map]. rewrite IH.
    destruct (Hn r k) as [H1 H2]. rewrite (spec_oacc_exact _ k _ H1 H2 Hu). reflexivity. }
  rewrite Hm. reflexivity.
Qed.

(* top_n_correct: for EVERY schedule and EVERY batch size >= 1, the list TopOnlineAccounts returns
   is the n first, in the order (normalized balance desc, address desc), of the accounts that
   the block history says are online at rnd with keys valid in voteRnd.  The list does not
   depend on ExcludeExpiredCirculation. *)
Theorem top_n_any_schedule batch ops s rnd vr n level top tot :
  genesis_ok G -> op_unit p <> 0 -> 1 <= op_maxbal p -> (1 <= batch)%nat ->
  blocks_ok (oblocks_of ops) -> hist_norm p G (oblocks_of ops) -> online_pos p G (oblocks_of ops) ->
  orun p (ostate_init p G supply0) ops = Some s ->
  params_at s rnd <> None ->
  top_online_b batch p s rnd vr n level = ROk (top, tot) ->
  spec_top p G (oblocks_of ops) (N.to_nat rnd) vr n = Some top.
Proof.
  intros Hg Hu Hmb Hb Hok Hnorm Hpos Hrun Hserv Htop.
  pose proof (orun_init_inv p G supply0 ops s Hg Hu Hmb Hok Hrun) as Hinv.
  rewrite (spec_top_voters _ _ _ _ Hu Hnorm). f_equal. symmetry.
  unfold top_online_b in Htop.
  pose proof Hinv as Hinv0.
  destruct Hinv as [dn hm H Hdb Hdn Hdl Hand Hacc [HH Hhm] Hpar Hdbp Hrnd Hrows Hcnd Hcache].
  assert (Hdlen : length (o_deltas s) = (length (oblocks_of ops) - dn)%nat) by (rewrite Hdl, map_length, skipn_length; reflexivity).
  assert (Hro : exists off, (off <= length (o_deltas s))%nat /\
                  (rnd <= o_db s -> off = O) /\ (o_db s <= rnd -> N.to_nat rnd = (dn + off)%nat) /\
                  (round_offset s rnd = OffErr \/
                   (match round_offset s rnd with OffOk o => o | _ => O end) = off /\ round_offset s rnd <> OffErr)).
  { unfold round_offset. destruct (N.ltb_spec rnd (o_db s)).
    - exists O. repeat split; try lia. right. split; [reflexivity|discriminate].
    - destruct (Nat.ltb_spec (length (o_deltas s)) (N.to_nat (rnd - o_db s))).
      + exists O. split; [lia|]. split; [lia|]. split; [|left; reflexivity].
        (* rnd beyond latest contradicts servability; the offset is irrelevant *)
        intros _. exfalso. apply Hserv.
        pose proof (inv_latest _ _ _ _ Hinv0) as Hlat.
        destruct (inv_params_at G supply0 _ s Hinv0 rnd) as (hm0 & _ & Hpa). rewrite Hpa.
        unfold o_latest in Hlat.
        destruct (N.leb_spec rnd (N.of_nat (length (oblocks_of ops)))); [lia|]. rewrite andb_false_r. reflexivity.
      + exists (N.to_nat (rnd - o_db s)). repeat split; try lia. right. split; [reflexivity|discriminate]. }
  destruct Hro as (off & Hoffl & Hh1 & Hh2 & [Eerr|[Eoff Hne]]).
  { rewrite Eerr in Htop. discriminate. }
  destruct (round_offset s rnd) as [o| |] eqn:Ero; [| |contradiction].
  all: rewrite Eoff in Htop.
  all: destruct (top_list batch p s off rnd vr n) as [[tl inv]|] eqn:Etl; [|discriminate].
  all: assert (tl = top) as ->
    by (destruct (params_ex s rnd); [|discriminate]; destruct (op_exclude p);
        [destruct (expired_circulation p s rnd vr r) as [ex| |]; try discriminate;
         destruct (osub 64 (rp_supply r) ex) as [x o']; destruct o'; [discriminate|inversion Htop; reflexivity]
        |destruct (sub_invalid p level inv (rp_supply r)); try discriminate; inversion Htop; reflexivity]).
  all: exact (top_list_spec p G supply0 batch _ s rnd vr n dn off top inv Hinv0 Hok Hu Hb Hnorm Hpos Hdb Hoffl Hh1 Hh2 Hserv Etl).
Qed.

(* the weight reported next to the list, ExcludeExpiredCirculation = true: the online money of rnd
   minus the stake (with pending rewards) of the accounts online at rnd whose keys end before voteRnd *)
Theorem top_total_any_schedule batch ops s rnd vr n level top tot ex :
  genesis_ok G -> op_unit p <> 0 -> 1 <= op_maxbal p ->
  blocks_ok (oblocks_of ops) -> hist_u64 G (oblocks_of ops) -> supply0 < W ->
  orun p (ostate_init p G supply0) ops = Some s ->
  op_exclude p = true -> params_at s rnd <> None ->
  spec_expired p G supply0 (oblocks_of ops) (N.to_nat rnd) vr = Some ex ->
  top_online_b batch p s rnd vr n level = ROk (top, tot) ->
  spec_top_total p G supply0 (oblocks_of ops) (N.to_nat rnd) vr level = Some (Some tot).
Proof.
  intros Hg Hu Hmb Hok H64 Hs0 Hrun Hex Hserv Hsp Htop.
  pose proof (orun_init_inv p G supply0 ops s Hg Hu Hmb Hok Hrun) as Hinv.
  destruct (params_at s rnd) as [rp|] eqn:Erp; [|contradiction].
  assert (Erp' : rp = params_spec supply0 (oblocks_of ops) (N.to_nat rnd)).
  { destruct (inv_params_at G supply0 _ s Hinv rnd) as (hm0 & _ & Hpa). rewrite Hpa in Erp.
    destruct ((N.of_nat hm0 <=? rnd) && (rnd <=? N.of_nat (length (oblocks_of ops)))); [|discriminate]. inversion Erp; reflexivity. }
  unfold top_online_b in Htop.
  assert (Hpx : params_ex s rnd = Some rp) by (unfold params_ex; rewrite Erp; reflexivity).
  destruct (round_offset s rnd); try discriminate.
  all: destruct (top_list batch p s _ rnd vr n) as [[tl inv]|]; [|discriminate].
  all: rewrite Hpx, Hex in Htop.
  all: rewrite (expired_circulation_spec p G supply0 _ s rnd vr rp ex Hinv Hok Hu H64 Erp Hsp) in Htop.
  all: unfold spec_top_total; rewrite Hex, Hsp.
  all: destruct (N.ltb_spec ex W) as [Hlt|]; [|discriminate].
  all: destruct (N.leb_spec W ex); [lia|].
  all: assert (HS : rp_supply rp < W) by (rewrite Erp'; apply supply_lt_W; assumption).
  all: rewrite (osub_spec 64 (rp_supply rp) ex HS Hlt) in Htop.
  all: rewrite <- Erp'.
  all: destruct (N.ltb_spec (rp_supply rp) ex); [discriminate|].
  all: assert (Et : tot = (rp_supply rp + W - ex) mod W) by (inversion Htop; reflexivity).
  all: rewrite Et, mod_once by lia. all: f_equal; f_equal; lia.
Qed.

End TopFinal.

(* a property of the zero account, the genesis accounts and every delta entry holds for the
   account of every address at every round *)
Lemma hist_pred_of (G : list (N * oacct)) bs (P : oacct -> Prop) :
  P oacct0 -> (forall k a, In (k, a) G -> P a) ->
  (forall b k a, In b bs -> In (k, a) (ob_mods b) -> P a) ->
  forall r k, P (acct_at G bs r k).
Proof.
  intros H0 Hg Hb r k. unfold acct_at.
  assert (Hs : P (gen_get k G)).
  { unfold gen_get. destruct (aget k G) as [a|] eqn:E; [|exact H0]. exact (Hg k a (aget_some_in_pair _ _ _ E)). }
  assert (Hf : forall b, In b (firstn r bs) -> In b bs) by (intros b; apply In_firstn).
  revert Hs. generalize (gen_get k G) as a0. induction (firstn r bs) as [|b l IH]; intros a0 Hs; [exact Hs|].
  cbn [fold_left]. apply IH.
  - intros b' Hb'. apply Hf. right; exact Hb'.
  - destruct (aget k (ob_mods b)) as [x|] eqn:E; [|exact Hs].
    exact (Hb b k x (Hf b (or_introl eq_refl)) (aget_some_in_pair _ _ _ E)).
Qed.

Corollary top_n_schedule_independent p G supply0 b1 b2 ops1 ops2 s1 s2 rnd vr n l1 l2 top1 tot1 top2 tot2 :
  genesis_ok G -> op_unit p <> 0 -> 1 <= op_maxbal p -> (1 <= b1)%nat -> (1 <= b2)%nat ->
  oblocks_of ops1 = oblocks_of ops2 ->
  blocks_ok (oblocks_of ops1) -> hist_norm p G (oblocks_of ops1) -> online_pos p G (oblocks_of ops1) ->
  orun p (ostate_init p G supply0) ops1 = Some s1 -> orun p (ostate_init p G supply0) ops2 = Some s2 ->
  params_at s1 rnd <> None -> params_at s2 rnd <> None ->
  top_online_b b1 p s1 rnd vr n l1 = ROk (top1, tot1) -> top_online_b b2 p s2 rnd vr n l2 = ROk (top2, tot2) ->
  top1 = top2.
Proof.
  intros Hg Hu Hmb Hb1 Hb2 Hbl Hok Hn Hp Hr1 Hr2 Hs1 Hs2 Ht1 Ht2.
  pose proof (top_n_any_schedule p G supply0 b1 ops1 s1 rnd vr n l1 top1 tot1 Hg Hu Hmb Hb1 Hok Hn Hp Hr1 Hs1 Ht1) as E1.
  rewrite Hbl in Hok, Hn, Hp, E1.
  pose proof (top_n_any_schedule p G supply0 b2 ops2 s2 rnd vr n l2 top2 tot2 Hg Hu Hmb Hb2 Hok Hn Hp Hr2 Hs2 Ht2) as E2.
  congruence.
Qed.
