(* C46: the executable oracle of model/WalletSpec.v
   (1) is sound: [spec_step ... = Some _] implies the Prop-level statement S1-S3,S5 about the
       observed step, [restore_ok] implies S4;
   (2) is met by the model on EVERY operation sequence ([model_passes_spec]): when the
       implementation's observations equal the model's, the oracle cannot fail. *)
From Coq Require Import NArith PeanoNat List Bool Lia ZifyN ZifyNat ZifyBool.
From Verif.model Require Import Wallet WalletSpec.
From Verif.proofs Require Import WalletProofs.
Import ListNotations.
Open Scope N_scope.

Section WalletSpecProofs.
  Variables A K M P H F Nm PW : Type.
  Variable A_eqb : A -> A -> bool.
  Variable H_eqb : H -> H -> bool.
  Variable F_eqb : F -> F -> bool.
  Variable Nm_eqb : Nm -> Nm -> bool.
  Variable derive : M -> N -> K.
  Variable addr : K -> A.
  Variable maddr : P -> option A.
  Variable kdf : PW -> H.
  Variable kdff : PW -> F.
  Variable mdk0 : M.

  Hypothesis A_eqb_spec : forall a b, A_eqb a b = true <-> a = b.
  Hypothesis H_eqb_spec : forall a b, H_eqb a b = true <-> a = b.
  Hypothesis F_eqb_spec : forall a b, F_eqb a b = true <-> a = b.
  Hypothesis Nm_eqb_spec : forall a b, Nm_eqb a b = true <-> a = b.

  Local Notation state := (Wallet.state A K M P H F Nm).
  Local Notation op := (Wallet.op A K P Nm PW).
  Local Notation listing := (WalletSpec.listing A Nm).
  Local Notation ires := (WalletSpec.ires A K M).
  Local Notation acc := (WalletSpec.acc A).
  Local Notation step := (Wallet.step A_eqb H_eqb F_eqb Nm_eqb derive addr maddr kdf kdff mdk0).
  Local Notation run := (Wallet.run A_eqb H_eqb F_eqb Nm_eqb derive addr maddr kdf kdff mdk0).
  Local Notation model_steps :=
    (WalletSpec.model_steps A K M P H F Nm PW A_eqb H_eqb F_eqb Nm_eqb derive addr maddr kdf kdff mdk0).
  Local Notation spec_step := (WalletSpec.spec_step A K M P H Nm PW A_eqb H_eqb Nm_eqb derive addr kdf).
  Local Notation spec_steps := (WalletSpec.spec_steps A K M P H Nm PW A_eqb H_eqb Nm_eqb derive addr kdf).
  Local Notation spec_wallet := (WalletSpec.spec_wallet A K M P H Nm PW A_eqb H_eqb Nm_eqb derive addr kdf).
  Local Notation listing_ok := (WalletSpec.listing_ok A K M Nm A_eqb derive addr).
  Local Notation unchanged := (WalletSpec.unchanged A Nm A_eqb Nm_eqb).
  Local Notation nodupb := (WalletSpec.nodupb A A_eqb).
  Local Notation row_eqb := (WalletSpec.row_eqb A A_eqb).
  Local Notation ADm := (WalletSpec.AD A K M derive addr).
  Local Notation obs_listing := (WalletSpec.obs_listing A K M P H F Nm).
  Local Notation obs_res := (WalletSpec.obs_res A K M addr).
  Local Notation restore_ok := (WalletSpec.restore_ok A A_eqb).
  Local Notation memA := (Wallet.memA A_eqb).
  Local Notation Inv := (WalletProofs.Inv A K M P H F Nm PW derive addr kdf kdff).

  Let memA_In := WalletProofs.memA_In A A_eqb A_eqb_spec.
  Let memA_false := WalletProofs.memA_false A A_eqb A_eqb_spec.

  (* ---- reflection ---------------------------------------------------------------------- *)
  Lemma nodupb_NoDup : forall l, nodupb l = true <-> NoDup l.
  Proof.
    induction l as [|x l IH]; cbn [WalletSpec.nodupb].
    - split; [constructor|reflexivity].
    - rewrite andb_true_iff, negb_true_iff, memA_false, IH. split.
      + intros [H1 H2]. constructor; assumption.
      + intros Hnd. inversion Hnd; subst. split; assumption.
  Qed.

  Lemma oN_eqb_spec : forall a b, oN_eqb a b = true <-> a = b.
  Proof.
    intros [a|] [b|]; cbn; try (split; congruence).
    rewrite N.eqb_eq. split; congruence.
  Qed.

  Lemma row_eqb_spec : forall a b, row_eqb a b = true <-> a = b.
  Proof.
    intros [a1 a2] [b1 b2]. unfold WalletSpec.row_eqb. cbn [fst snd].
    rewrite andb_true_iff, A_eqb_spec, oN_eqb_spec. split; [intros [-> ->]; reflexivity|].
    intros E; inversion E; auto.
  Qed.

  Lemma existsb_In : forall {X} (eqb : X -> X -> bool),
    (forall a b, eqb a b = true <-> a = b) -> forall x l, existsb (eqb x) l = true <-> In x l.
  Proof.
    intros X eqb Hspec x l. rewrite existsb_exists. split.
    - intros [y [Hy He]]. apply Hspec in He. subst. exact Hy.
    - intros Hin. exists x. split; [exact Hin|]. apply Hspec. reflexivity.
  Qed.

  Lemma same_set_spec : forall {X} (eqb : X -> X -> bool),
    (forall a b, eqb a b = true <-> a = b) -> forall l1 l2,
    same_set eqb l1 l2 = true <-> ((forall x, In x l1 <-> In x l2) /\ length l1 = length l2).
  Proof.
    intros X eqb Hspec l1 l2. unfold same_set, subsetb.
    rewrite !andb_true_iff, !forallb_forall, Nat.eqb_eq. split.
    - intros [[H1 H2] H3]. split; [|exact H3]. intros x. split; intros Hx.
      + apply (existsb_In eqb Hspec). apply H1. exact Hx.
      + apply (existsb_In eqb Hspec). apply H2. exact Hx.
    - intros [H1 H3]. repeat split; auto; intros x Hx; apply (existsb_In eqb Hspec); apply H1; exact Hx.
  Qed.

  (* ---- the Prop-level statement about one observed step ---------------------------------- *)
  Definition listing_okP (m : M) (hp : N) (l : listing) : Prop :=
    NoDup (l_api l) /\ NoDup (map fst (l_rows l)) /\ NoDup (l_msigs l) /\
    forall a i, In (a, Some i) (l_rows l) -> a = addr (derive m i) /\ 1 <= i <= hp.

  Definition unchangedP (p c : listing) : Prop :=
    l_name p = l_name c /\
    (forall x, In x (l_api p) <-> In x (l_api c)) /\
    (forall x, In x (l_rows p) <-> In x (l_rows c)) /\
    (forall x, In x (l_msigs p) <-> In x (l_msigs c)).

  Record step_okP (m : M) (pw0 : PW) (prev : listing) (hp : N) (o : op) (r : ires)
         (cur : listing) (hp' : N) : Prop := mkStepOk {
    (* S1 *)
    so_listing : listing_okP m hp' cur;
    so_hp : hp <= hp';
    (* S2 *)
    so_password : forall pw, op_pw o = Some pw -> kdf pw <> kdf pw0 ->
                  is_ierr A K M r = true /\ unchangedP prev cur;
    (* S3 *)
    so_generate : forall dm a, o = OGenerate dm -> r = IAddr a ->
                  hp < hp' /\ In (a, Some hp') (l_rows cur) /\ a = addr (derive m hp') /\
                  ~ In a (l_api prev) /\
                  (forall j, hp < j < hp' -> In (addr (derive m j), None) (l_rows prev));
    so_other : (forall dm a, o = OGenerate dm -> r = IAddr a -> False) -> hp' = hp;
    (* S5 *)
    so_export : forall a pw k pk, o = OExport a pw -> r = IKey k pk -> pk = a /\ addr k = a }.

  Lemma listing_ok_sound : forall m hp l, listing_ok m hp l = true -> listing_okP m hp l.
  Proof.
    intros m hp l Hl. unfold WalletSpec.listing_ok in Hl.
    rewrite !andb_true_iff, !nodupb_NoDup, forallb_forall in Hl.
    destruct Hl as [[[H1 H2] H3] H4]. split; [exact H1|]. split; [exact H2|]. split; [exact H3|].
    intros a i Hin. specialize (H4 _ Hin). unfold WalletSpec.row_ok in H4. cbn [fst snd] in H4.
    rewrite !andb_true_iff in H4. destruct H4 as [[E E1] E2]. apply A_eqb_spec in E.
    split; [exact E|lia].
  Qed.

  Lemma unchanged_sound : forall p c, unchanged p c = true -> unchangedP p c.
  Proof.
    intros p c Hu. unfold WalletSpec.unchanged in Hu. rewrite !andb_true_iff in Hu.
    destruct Hu as [[[H1 H2] H3] H4].
    apply Nm_eqb_spec in H1.
    apply (same_set_spec A_eqb A_eqb_spec) in H2.
    apply (same_set_spec row_eqb row_eqb_spec) in H3.
    apply (same_set_spec A_eqb A_eqb_spec) in H4.
    destruct H2 as [H2 _]. destruct H3 as [H3 _]. destruct H4 as [H4 _].
    split; [exact H1|]. split; [exact H2|]. split; [exact H3|exact H4].
  Qed.

  Lemma find_row_In : forall a (rows : list (A * option N)) row,
    find (fun row => A_eqb a (fst row)) rows = Some row -> In row rows /\ fst row = a.
  Proof.
    intros a rows row Hf. apply find_some in Hf. destruct Hf as [H1 H2].
    apply A_eqb_spec in H2. auto.
  Qed.

  Theorem spec_step_sound : forall m pw0 prev ac o r cur ac',
    spec_step m pw0 prev ac o r cur = Some ac' ->
    step_okP m pw0 prev (a_hp ac) o r cur (a_hp ac').
  Proof.
    clear F_eqb_spec kdff.
    intros m pw0 prev ac o r cur ac' Hs. unfold WalletSpec.spec_step in Hs.
    destruct (wrong_pw A K P H Nm PW H_eqb kdf pw0 o && negb (is_ierr A K M r && unchanged prev cur)) eqn:Hw;
      [discriminate|].
    assert (Hpw : forall pw, op_pw o = Some pw -> kdf pw <> kdf pw0 ->
                  is_ierr A K M r = true /\ unchangedP prev cur).
    { intros pw Hop Hne. unfold WalletSpec.wrong_pw in Hw. rewrite Hop in Hw.
      assert (Hneq : H_eqb (kdf pw) (kdf pw0) = false).
      { destruct (H_eqb (kdf pw) (kdf pw0)) eqn:E; [|reflexivity]. apply H_eqb_spec in E. contradiction. }
      rewrite Hneq in Hw. cbn [negb andb] in Hw. apply negb_false_iff in Hw.
      apply andb_true_iff in Hw. destruct Hw as [H1 H2]. split; [exact H1|].
      apply unchanged_sound. exact H2. }
    (* the default branch *)
    assert (Hdefault : (if listing_ok m (a_hp ac) cur then Some ac else None) = Some ac' ->
                       (forall dm a, o = OGenerate dm -> r = IAddr a -> False) ->
                       (forall a pw k pk, o = OExport a pw -> r = IKey k pk -> False) ->
                       step_okP m pw0 prev (a_hp ac) o r cur (a_hp ac')).
    { intros Hd Hng Hne. destruct (listing_ok m (a_hp ac) cur) eqn:Hl; [|discriminate].
      inversion Hd; subst ac'.
      constructor;
        [ apply listing_ok_sound; exact Hl | lia | exact Hpw
        | intros dm a E1 E2; exfalso; exact (Hng dm a E1 E2)
        | intros _; reflexivity
        | intros a pw k pk E1 E2; exfalso; exact (Hne a pw k pk E1 E2) ]. }
    destruct o; try (apply Hdefault; [exact Hs| intros; discriminate | intros; discriminate]).
    - (* generate *)
      destruct r as [|a|k pk|mm|e]; try (apply Hdefault; [exact Hs| intros; discriminate | intros; discriminate]).
      destruct (find (fun row => A_eqb a (fst row)) (l_rows cur)) as [[a' [n|]]|] eqn:Hf; try discriminate.
      destruct (N.of_nat (length (l_rows prev)) <? n - a_hp ac - 1); [discriminate|].
      match type of Hs with (if ?c then _ else _) = _ => destruct c eqn:Hc; [|discriminate] end.
      inversion Hs; subst ac'; clear Hs. cbn [a_hp].
      rewrite !andb_true_iff in Hc. destruct Hc as [[[[C1 C2] C3] C4] C5].
      apply N.ltb_lt in C1. apply A_eqb_spec in C2. apply negb_true_iff in C3. apply memA_false in C3.
      apply find_row_In in Hf. cbn [fst] in Hf. destruct Hf as [Hin ->].
      constructor;
        [ apply listing_ok_sound; exact C5 | lia | exact Hpw | |
          intros Hno; exfalso; exact (Hno _ _ eq_refl eq_refl) | intros; discriminate ].
      intros dm a0 _ E. inversion E; subst a0.
      split; [exact C1|]. split; [exact Hin|]. split; [exact C2|]. split; [exact C3|].
      intros j Hj. rewrite forallb_forall in C4.
      assert (Hjin : In (ADm m j) (map (ADm m) (seqN (a_hp ac + 1) (N.to_nat (n - a_hp ac - 1))))).
      { apply in_map. apply seqN_In. lia. }
      specialize (C4 _ Hjin). apply (existsb_In row_eqb row_eqb_spec) in C4. exact C4.
    - (* export *)
      destruct r as [|a'|k pk|mm|e]; try (apply Hdefault; [exact Hs| intros; discriminate | intros; discriminate]).
      match type of Hs with (if ?c then _ else _) = _ => destruct c eqn:Hc; [|discriminate] end.
      inversion Hs; subst ac'; clear Hs.
      rewrite !andb_true_iff in Hc. destruct Hc as [[C1 C2] C3].
      apply A_eqb_spec in C1. apply A_eqb_spec in C2.
      constructor;
        [ apply listing_ok_sound; exact C3 | lia | exact Hpw | intros; discriminate
        | intros _; reflexivity | ].
      intros a0 pw0' k0 pk0 E1 E2. inversion E1; inversion E2. split; congruence.
  Qed.

  (* S4 *)
  Theorem restore_ok_sound : forall a1 a2 n a,
    restore_ok a1 a2 = true -> In (n, a) (a_gens a1) -> n <= a_hp a2 ->
    In (n, a) (a_gens a2) \/ In a (a_skip a2).
  Proof.
    intros a1 a2 n a Hr Hin Hle. unfold WalletSpec.restore_ok in Hr.
    rewrite forallb_forall in Hr. specialize (Hr _ Hin). cbn [fst snd] in Hr.
    apply N.leb_le in Hle. rewrite Hle in Hr. apply orb_true_iff in Hr. destruct Hr as [Hr|Hr].
    - left. apply existsb_exists in Hr. destruct Hr as [[n' a'] [Hin' He]].
      unfold WalletSpec.gen_eqb in He. cbn [fst snd] in He. apply andb_true_iff in He.
      destruct He as [E1 E2]. apply N.eqb_eq in E1. apply A_eqb_spec in E2. subst. exact Hin'.
    - right. apply memA_In. exact Hr.
  Qed.

  (* ====================================================================================
     (2) the model meets the oracle on every operation sequence *)
  Hypothesis derive_inj : forall m i j, addr (derive m i) = addr (derive m j) -> i = j.
  Hypothesis kdff_inj : forall a b, kdff a = kdff b -> a = b.

  Let step_inv := WalletProofs.step_inv A K M P H F Nm PW A_eqb H_eqb F_eqb Nm_eqb derive addr maddr
                    kdf kdff mdk0 A_eqb_spec H_eqb_spec derive_inj.
  Let generate_spec := WalletProofs.generate_spec A K M P H F Nm PW A_eqb H_eqb F_eqb Nm_eqb derive addr
                    maddr kdf kdff mdk0 A_eqb_spec derive_inj.
  Let step_frame := WalletProofs.step_frame A K M P H F Nm PW A_eqb H_eqb F_eqb Nm_eqb derive addr maddr
                    kdf kdff mdk0.
  Let wrong_password_step := WalletProofs.wrong_password_step A K M P H F Nm PW A_eqb H_eqb F_eqb Nm_eqb
                    derive addr maddr kdf kdff mdk0 H_eqb_spec F_eqb_spec kdff_inj.

  Lemma A_eqb_refl : forall a, A_eqb a a = true.
  Proof. intros. apply A_eqb_spec. reflexivity. Qed.

  Lemma same_set_refl : forall {X} (eqb : X -> X -> bool),
    (forall a b, eqb a b = true <-> a = b) -> forall l, same_set eqb l l = true.
  Proof. intros X eqb Hspec l. apply (same_set_spec eqb Hspec). split; [tauto|reflexivity]. Qed.

  Lemma unchanged_refl : forall l, unchanged l l = true.
  Proof.
    intros l. unfold WalletSpec.unchanged.
    rewrite (same_set_refl A_eqb A_eqb_spec), (same_set_refl A_eqb A_eqb_spec),
            (same_set_refl row_eqb row_eqb_spec).
    replace (Nm_eqb (l_name l) (l_name l)) with true; [reflexivity|].
    symmetry. apply Nm_eqb_spec. reflexivity.
  Qed.

  Lemma inv_listing_ok : forall s : state,
    Inv s -> listing_ok (mdk s) (maxidx s) (obs_listing s) = true.
  Proof.
    intros s HI. unfold WalletSpec.listing_ok, WalletSpec.obs_listing. cbn [l_api l_rows l_msigs].
    rewrite map_map. cbn [fst].
    rewrite !andb_true_iff. repeat split.
    - apply nodupb_NoDup. apply (inv_nodup _ _ _ _ _ _ _ _ _ _ _ _ _ HI).
    - apply nodupb_NoDup. apply (inv_nodup _ _ _ _ _ _ _ _ _ _ _ _ _ HI).
    - apply nodupb_NoDup. apply (inv_mnodup _ _ _ _ _ _ _ _ _ _ _ _ _ HI).
    - apply forallb_forall. intros x Hx. apply in_map_iff in Hx. destruct Hx as [r [<- Hr]].
      unfold WalletSpec.row_ok. cbn [fst snd]. destruct (key_idx r) as [i|] eqn:Hi; [|reflexivity].
      destruct (inv_idx _ _ _ _ _ _ _ _ _ _ _ _ _ HI r i Hr Hi) as [Hsk Hrange].
      pose proof (inv_addr _ _ _ _ _ _ _ _ _ _ _ _ _ HI r Hr) as Ha.
      rewrite !andb_true_iff. repeat split; try lia.
      apply A_eqb_spec. unfold WalletSpec.AD. rewrite Ha, Hsk. reflexivity.
  Qed.

  Lemma find_app_last : forall (a : A) (rows : list (A * option N)) row,
    ~ In a (map fst rows) -> fst row = a ->
    find (fun x => A_eqb a (fst x)) (rows ++ [row]) = Some row.
  Proof.
    intros a rows row Hnin Hrow. induction rows as [|x rows IH]; cbn [app find].
    - rewrite Hrow, A_eqb_refl. reflexivity.
    - destruct (A_eqb a (fst x)) eqn:E.
      + apply A_eqb_spec in E. exfalso. apply Hnin. left. symmetry. exact E.
      + apply IH. intros Hin. apply Hnin. right. exact Hin.
  Qed.

  Lemma rows_addrs : forall s : state, map fst (l_rows (obs_listing s)) = addrs s.
  Proof. intros s. unfold WalletSpec.obs_listing. cbn [l_rows]. rewrite map_map. reflexivity. Qed.

  Lemma imported_row : forall (s : state) a, In a (imported s) -> In (a, None) (l_rows (obs_listing s)).
  Proof.
    intros s a Hin. unfold Wallet.imported in Hin. apply in_map_iff in Hin.
    destruct Hin as [r [<- Hr]]. apply filter_In in Hr. destruct Hr as [Hr Hnone].
    unfold WalletSpec.obs_listing. cbn [l_rows]. apply in_map_iff. exists r. split; [|exact Hr].
    destruct (key_idx r); [discriminate|reflexivity].
  Qed.

  Lemma imported_addrs : forall (s : state) a, In a (imported s) -> In a (addrs s).
  Proof.
    intros s a Hin. unfold Wallet.imported in Hin. apply in_map_iff in Hin.
    destruct Hin as [r [<- Hr]]. apply filter_In in Hr. apply in_map. tauto.
  Qed.

  Lemma default_ok : forall (s s' : state) (ac : acc),
    Inv s' -> mdk s' = mdk s -> a_hp ac = maxidx s' ->
    (if listing_ok (mdk s) (a_hp ac) (obs_listing s') then Some ac else None) = Some ac.
  Proof.
    intros s s' ac HI Hm Hhp. rewrite <- Hm, Hhp, (inv_listing_ok s' HI). reflexivity.
  Qed.

  Lemma model_step_spec : forall (s : state) pw0 (ac : acc) o,
    Inv s -> pwh s = kdf pw0 -> a_hp ac = maxidx s ->
    exists ac', spec_step (mdk s) pw0 (obs_listing s) ac o (obs_res (snd (step s o)))
                          (obs_listing (fst (step s o))) = Some ac' /\
                a_hp ac' = maxidx (fst (step s o)).
  Proof.
    intros s pw0 ac o HI Hpwh Hhp.
    pose proof (step_inv s o HI) as HI'.
    pose proof (step_frame s o) as HF. cbn zeta in HF. destruct HF as [Hm [_ Hmax]].
    unfold WalletSpec.spec_step.
    (* S2 cannot fire *)
    assert (Hs2 : wrong_pw A K P H Nm PW H_eqb kdf pw0 o &&
                  negb (is_ierr A K M (obs_res (snd (step s o))) &&
                        unchanged (obs_listing s) (obs_listing (fst (step s o)))) = false).
    { destruct (wrong_pw A K P H Nm PW H_eqb kdf pw0 o) eqn:Hw; [|reflexivity]. cbn [andb].
      apply negb_false_iff. unfold WalletSpec.wrong_pw in Hw.
      destruct (op_pw o) as [pw|] eqn:Hop; [|discriminate].
      apply negb_true_iff in Hw.
      assert (Hne : kdf pw <> pwh s).
      { rewrite Hpwh. intros E. apply H_eqb_spec in E. congruence. }
      destruct (wrong_password_step s o pw HI Hop Hne) as [E1 E2].
      rewrite E1, unchanged_refl, andb_true_r.
      destruct (snd (step s o)); cbn in *; congruence. }
    rewrite Hs2.
    (* the default branch, whenever the step is not a successful generate *)
    assert (Hdef : maxidx (fst (step s o)) = maxidx s ->
                   exists ac', (if listing_ok (mdk s) (a_hp ac) (obs_listing (fst (step s o)))
                                then Some ac else None) = Some ac' /\
                               a_hp ac' = maxidx (fst (step s o))).
    { intros Hsame. exists ac. split; [|congruence].
      apply default_ok; [exact HI'|exact Hm|congruence]. }
    assert (Hnogen : (forall dm a, o = OGenerate dm -> snd (step s o) = RAddr a -> False) ->
                     maxidx (fst (step s o)) = maxidx s).
    { intros Hno. destruct Hmax as [[dm [a [E1 E2]]]|E]; [exfalso; eapply Hno; eauto|exact E]. }
    destruct o; try (apply Hdef; apply Hnogen; intros; discriminate).
    - (* generate *)
      destruct (step s (OGenerate displayMnemonic)) as [s' r] eqn:Hs. cbn [fst snd] in *.
      destruct r as [|a|k|mm|e]; cbn [WalletSpec.obs_res];
        try (apply Hdef; apply Hnogen; intros; discriminate).
      destruct (generate_spec s displayMnemonic s' a HI Hs) as [n [_ [Hlt [Hov [Ha [Hnin [Hskip Hs']]]]]]].
      assert (Hn : maxidx s' = n) by (rewrite Hs'; reflexivity).
      assert (Hrows : l_rows (obs_listing s') = l_rows (obs_listing s) ++ [(a, Some n)]).
      { rewrite Hs'. unfold WalletSpec.obs_listing, Wallet.set_keys. cbn [l_rows keys].
        rewrite map_app. reflexivity. }
      rewrite Hrows, (find_app_last a _ (a, Some n)); [|rewrite rows_addrs; exact Hnin|reflexivity].
      rewrite Hhp.
      set (gap := n - maxidx s - 1).
      assert (Hincl : incl (map (ADm (mdk s)) (seqN (maxidx s + 1) (N.to_nat gap))) (addrs s)).
      { intros x Hx. apply in_map_iff in Hx. destruct Hx as [j [<- Hj]]. apply seqN_In in Hj.
        apply imported_addrs. apply Hskip. lia. }
      assert (Hlen : (N.to_nat gap <= length (addrs s))%nat).
      { apply NoDup_incl_length in Hincl.
        - rewrite map_length, seqN_length in Hincl. exact Hincl.
        - apply (WalletProofs.AD_NoDup A K M derive addr derive_inj). apply seqN_NoDup. }
      assert (Hgap : (N.of_nat (length (l_rows (obs_listing s))) <? gap) = false).
      { apply N.ltb_ge. rewrite <- (map_length fst), rows_addrs. lia. }
      rewrite Hgap.
      assert (Hcond : (maxidx s <? n) && A_eqb a (ADm (mdk s) n) &&
                      negb (memA a (l_api (obs_listing s))) &&
                      forallb (fun x => existsb (row_eqb (x, None)) (l_rows (obs_listing s)))
                              (map (ADm (mdk s)) (seqN (maxidx s + 1) (N.to_nat gap))) &&
                      listing_ok (mdk s) n (obs_listing s') = true).
      { rewrite !andb_true_iff. repeat split.
        - apply N.ltb_lt. exact Hlt.
        - apply A_eqb_spec. exact Ha.
        - apply negb_true_iff. apply memA_false. exact Hnin.
        - apply forallb_forall. intros x Hx. apply in_map_iff in Hx. destruct Hx as [j [<- Hj]].
          apply seqN_In in Hj. apply (existsb_In row_eqb row_eqb_spec). apply imported_row.
          apply Hskip. lia.
        - rewrite <- Hm, <- Hn. apply inv_listing_ok. exact HI'. }
      rewrite Hcond. eexists. split; [reflexivity|]. cbn [a_hp]. congruence.
    - (* export *)
      destruct (step s (OExport a pw)) as [s' r] eqn:Hs. cbn [fst snd] in *.
      destruct r as [| |k|mm|e]; cbn [WalletSpec.obs_res];
        try (apply Hdef; apply Hnogen; intros; discriminate).
      assert (Hsame : maxidx s' = maxidx s) by (apply Hnogen; intros; discriminate).
      cbn [Wallet.step] in Hs.
      destruct (Wallet.pw_ok H_eqb F_eqb kdf kdff s pw); cbn [negb] in Hs; [|discriminate].
      unfold Wallet.fetch in Hs.
      destruct (find_key A_eqb a (keys s)) as [r|] eqn:Hf; [|discriminate].
      destruct (inited s); [|discriminate].
      inversion Hs; subst s' k; clear Hs.
      unfold Wallet.find_key in Hf. apply find_some in Hf. destruct Hf as [Hr He].
      apply A_eqb_spec in He.
      pose proof (inv_addr _ _ _ _ _ _ _ _ _ _ _ _ _ HI r Hr) as Hra.
      replace (A_eqb (addr (key_sk r)) a) with true by (symmetry; apply A_eqb_spec; congruence).
      rewrite A_eqb_refl. cbn [andb].
      exists ac. split; [|congruence]. apply default_ok; [exact HI|reflexivity|exact Hhp].
  Qed.

  Lemma model_steps_spec : forall ops (s : state) pw0 (ac : acc),
    Inv s -> pwh s = kdf pw0 -> a_hp ac = maxidx s ->
    exists ac', spec_steps (mdk s) pw0 (obs_listing s) ac (model_steps s ops) = Some ac' /\
                a_hp ac' = maxidx (run s ops).
  Proof.
    induction ops as [|o ops IH]; intros s pw0 ac HI Hpwh Hhp;
      cbn [WalletSpec.model_steps WalletSpec.spec_steps Wallet.run].
    - exists ac. auto.
    - destruct (model_step_spec s pw0 ac o HI Hpwh Hhp) as [ac1 [H1 H2]].
      rewrite H1.
      pose proof (step_frame s o) as HF. cbn zeta in HF. destruct HF as [Hm [Hp _]].
      rewrite <- Hm. apply IH; [apply step_inv; exact HI|congruence|exact H2].
  Qed.

  Theorem model_passes_spec : forall m pw0 nm ops,
    exists ac,
      spec_wallet m pw0 nm (model_steps (@Wallet.create A K M P H F Nm PW kdf m pw0 nm) ops) = Some ac /\
      a_hp ac = maxidx (run (@Wallet.create A K M P H F Nm PW kdf m pw0 nm) ops).
  Proof.
    intros m pw0 nm ops. unfold WalletSpec.spec_wallet.
    apply (model_steps_spec ops (@Wallet.create A K M P H F Nm PW kdf m pw0 nm) pw0 (acc0 A)).
    - apply WalletProofs.create_inv.
    - reflexivity.
    - reflexivity.
  Qed.
End WalletSpecProofs.

(* ======================================================================================
   The property as stated ("fails without the correct password", i.e. for every pw <> pw0) is
   FALSE of the faithful model once the slow KDF is what scrypt really computes on: the HMAC key
   (model/WalletSpec.hmac_key).  Witness: wallet created with "hunter2", opened with
   "hunter2\0"; on that handle the NUL-padded password exports the MDK and deletes keys while the
   creation password itself is refused (finding c46_password_trailing_nul; replayed on the real
   code by the harness in every run). *)
Definition w_pw0 : bytes := [104; 117; 110; 116; 101; 114; 50].          (* "hunter2" *)
Definition w_pw : bytes := w_pw0 ++ [0].
Definition w_tabs : tabs := mkTabs [] [] [].

Lemma wrong_password_bytes_refuted :
  exists (pw0 pw m nm : bytes),
    pw <> pw0 /\
    let s0 : cstate := create c_kdf m pw0 nm in
    let s := fst (c_step w_tabs s0 (OInit pw)) in
    snd (c_step w_tabs s0 (OInit pw)) = ROk /\
    snd (c_step w_tabs s (OExportMDK pw)) = RMdk m /\
    snd (c_step w_tabs s (ODelete [] pw)) = ROk /\
    snd (c_step w_tabs s (ORename [1] pw)) = ROk /\
    is_err (snd (c_step w_tabs s (OExportMDK pw0))) = true.
Proof.
  exists w_pw0, w_pw, [7; 7], [119]. split; [discriminate|].
  vm_compute. repeat split; reflexivity.
Qed.

(* ---- non-vacuity: an instance meeting every hypothesis, and a run on it ---------------------- *)
Definition ex_step := step N.eqb N.eqb N.eqb N.eqb (fun (_ : N) (i : N) => i) (fun k : N => k)
                           (fun p : N => Some p) (fun pw : N => pw) (fun pw : N => pw) 0.
Definition ex_ops : list (op N N N N N) :=
  [OGenerate false; OInit 9; OInit 7; OImport 2; OImport 2; OGenerate false; OGenerate false;
   ODelete 1 9; OExport 3 9; OExport 3 7; ODelete 1 7; OGenerate false; OExportMDK 7].

Lemma ex_hypotheses :
  (forall a b : N, N.eqb a b = true <-> a = b) /\
  (forall (m i j : N), (fun k : N => k) ((fun (_ : N) (i : N) => i) m i) =
                       (fun k : N => k) ((fun (_ : N) (i : N) => i) m j) -> i = j) /\
  (forall a b : N, (fun pw : N => pw) a = (fun pw : N => pw) b -> a = b).
Proof. split; [exact N.eqb_eq|]. split; intros; assumption. Qed.

(* index 2 is imported, so the wallet generates 1, 3 and then 4; the wrong password 9 changes
   nothing; the final state holds 2 (imported), 3, 4 *)
Lemma ex_run :
  let tr := gen_trace N.eqb N.eqb N.eqb N.eqb (fun (_ : N) (i : N) => i) (fun k : N => k)
                      (fun p : N => Some p) (fun pw : N => pw) (fun pw : N => pw) 0
                      (create (fun pw : N => pw) 5 7 0) ex_ops in
  map (fun e => (g_idx e, g_addr e)) tr = [(1, 1); (3, 3); (4, 4)] /\
  let s := run N.eqb N.eqb N.eqb N.eqb (fun (_ : N) (i : N) => i) (fun k : N => k)
               (fun p : N => Some p) (fun pw : N => pw) (fun pw : N => pw) 0
               (create (fun pw : N => pw) 5 7 0) ex_ops in
  map (fun r => (key_addr r, key_idx r)) (keys s) = [(2, None); (3, Some 3); (4, Some 4)] /\
  spec_wallet N N N N N N N N.eqb N.eqb N.eqb (fun (_ : N) (i : N) => i) (fun k : N => k)
              (fun pw : N => pw) 5 7 0
              (model_steps N N N N N N N N N.eqb N.eqb N.eqb N.eqb (fun (_ : N) (i : N) => i)
                 (fun k : N => k) (fun p : N => Some p) (fun pw : N => pw) (fun pw : N => pw) 0
                 (create (fun pw : N => pw) 5 7 0) ex_ops)
  = Some (mkAcc 4 [(1, 1); (3, 3); (4, 4)] [2]).
Proof. vm_compute. repeat split; reflexivity. Qed.

(* the oracle is not vacuous either: it rejects a wallet that returns index 2 first, one that
   accepts a wrong password, and one that lists an address twice *)
Lemma ex_spec_rejects :
  let sp := spec_wallet N N N N N N N N.eqb N.eqb N.eqb (fun (_ : N) (i : N) => i) (fun k : N => k)
                        (fun pw : N => pw) 5 7 0 in
  sp [(OGenerate false, IAddr 2, mkL 0 [2] [(2, Some 2)] [])] = None /\
  sp [(OGenerate false, IAddr 1, mkL 0 [1] [(1, Some 1)] []);
      (ODelete 1 9, IOk, mkL 0 [] [] [])] = None /\
  sp [(OGenerate false, IAddr 1, mkL 0 [1] [(1, Some 1)] []);
      (OImport 1, IAddr 1, mkL 0 [1; 1] [(1, Some 1); (1, None)] [])] = None /\
  sp [(OImport 2, IAddr 2, mkL 0 [2] [(2, None)] []);
      (OGenerate false, IAddr 3, mkL 0 [2; 3] [(2, None); (3, Some 3)] [])] = None.
Proof. vm_compute. repeat split; reflexivity. Qed.
