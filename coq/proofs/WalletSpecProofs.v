(* C46: the executable oracle of model/WalletSpec.v
   (1) is sound: [spec_step ... = Some _] implies the Prop-level statement S1-S3,S5 about the
       observed step, [restore_ok] implies S4;
   (2) is met by the model on EVERY operation sequence ([model_passes_spec]): when the
       implementation's observations equal the model's, the oracle cannot fail. *)
From Coq Require Import NArith PeanoNat List Bool Lia ZifyN ZifyNat ZifyBool.
From Verif.model Require Import Wallet WalletSpec.
From Verif.proofs Require Import WalletProofs.
Import ListNotations.
Open Scope N_scope.

Section WalletSpecProofs.
  Variables A K M P H F Nm PW : Type.
  Variable A_eqb : A -> A -> bool.
  Variable H_eqb : H -> H -> bool.
  Variable F_eqb : F -> F -> bool.
  Variable Nm_eqb : Nm -> Nm -> bool.
  Variable derive : M -> N -> K.
  Variable addr : K -> A.
  Variable maddr : P -> option A.
  Variable kdf : PW -> H.
  Variable kdff : PW -> F.
  Variable mdk0 : M.

  Hypothesis A_eqb_spec : forall a b, A_eqb a b = true <-> a = b.
  Hypothesis H_eqb_spec : forall a b, H_eqb a b = true <-> a = b.
  Hypothesis F_eqb_spec : forall a b, F_eqb a b = true <-> a = b.
  Hypothesis Nm_eqb_spec : forall a b, Nm_eqb a b = true <-> a = b.

  Local Notation state := (Wallet.state A K M P H F Nm).
  Local Notation op := (Wallet.op A K P Nm PW).
  Local Notation listing := (WalletSpec.listing A Nm).
  Local Notation ires := (WalletSpec.ires A K M).
  Local Notation acc := (WalletSpec.acc A).
  Local Notation step := (Wallet.step A_eqb H_eqb F_eqb Nm_eqb derive addr maddr kdf kdff mdk0).
  Local Notation run := (Wallet.run A_eqb H_eqb F_eqb Nm_eqb derive addr maddr kdf kdff mdk0).
  Local Notation model_steps :=
    (WalletSpec.model_steps A K M P H F Nm PW A_eqb H_eqb F_eqb Nm_eqb derive addr maddr kdf kdff mdk0).
  Local Notation spec_step := (WalletSpec.spec_step A K M P H Nm PW A_eqb H_eqb Nm_eqb derive addr kdf).
  Local Notation spec_steps := (WalletSpec.spec_steps A K M P H Nm PW A_eqb H_eqb Nm_eqb derive addr kdf).
  Local Notation spec_wallet := (WalletSpec.spec_wallet A K M P H Nm PW A_eqb H_eqb Nm_eqb derive addr kdf).
  Local Notation listing_ok := (WalletSpec.listing_ok A K M Nm A_eqb derive addr).
  Local Notation unchanged := (WalletSpec.unchanged A Nm A_eqb Nm_eqb).
  Local Notation nodupb := (WalletSpec.nodupb A A_eqb).
  Local Notation row_eqb := (WalletSpec.row_eqb A A_eqb).
  Local Notation ADm := (WalletSpec.AD A K M derive addr).
  Local Notation obs_listing := (WalletSpec.obs_listing A K M P H F Nm).
  Local Notation obs_res := (WalletSpec.obs_res A K M addr).
  Local Notation restore_ok := (WalletSpec.restore_ok A A_eqb).
  Local Notation memA := (Wallet.memA A_eqb).
  Local Notation Inv := (WalletProofs.Inv A K M P H F Nm PW derive addr kdf kdff).

  Let memA_In := WalletProofs.memA_In A A_eqb A_eqb_spec.
  Let memA_false := WalletProofs.memA_false A A_eqb A_eqb_spec.

  (* ---- reflection ---------------------------------------------------------------------- *)
  Lemma nodupb_NoDup : forall l, nodupb l = true <-> NoDup l.
  Proof.
    induction l as [|x l IH]; cbn [WalletSpec.nodupb].
    - split; [constructor|reflexivity].
    - rewrite andb_true_iff, negb_true_iff, memA_false, IH. split.
      + intros [H1 H2]. constructor; assumption.
      + intros Hnd. inversion Hnd; subst. split; assumption.
  Qed.

  Lemma oN_eqb_spec : forall a b, oN_eqb a b = true <-> a = b.
  Proof.
    intros [a|] [b|]; cbn; try (split; congruence).
    rewrite N.eqb_eq. split; congruence.
  Qed.

  Lemma row_eqb_spec : forall a b, row_eqb a b = true <-> a = b.
  Proof.
    intros [a1 a2] [b1 b2]. unfold WalletSpec.row_eqb. cbn [fst snd].
    rewrite andb_true_iff, A_eqb_spec, oN_eqb_spec. split; [intros [-> ->]; reflexivity|].
    intros E; inversion E; auto.
  Qed.

  Lemma existsb_In : forall {X} (eqb : X -> X -> bool),
    (forall a b, eqb a b = true <-> a = b) -> forall x l, existsb (eqb x) l = true <-> In x l.
  Proof.
    intros X eqb Hspec x l. rewrite existsb_exists. split.
    - intros [y [Hy He]]. apply Hspec in He. subst. exact Hy.
    - intros Hin. exists x. split; [exact Hin|]. apply Hspec. reflexivity.
  Qed.

  Lemma same_set_spec : forall {X} (eqb : X -> X -> bool),
    (forall a b, eqb a b = true <-> a = b) -> forall l1 l2,
    same_set eqb l1 l2 = true <-> ((forall x, In x l1 <-> In x l2) /\ length l1 = length l2).
  Proof.
    intros X eqb Hspec l1 l2. unfold same_set, subsetb.
    rewrite !andb_true_iff, !forallb_forall, Nat.eqb_eq. split.
    - intros [[H1 H2] H3]. split; [|exact H3]. intros x. split; intros Hx.
      + apply (existsb_In eqb Hspec). apply H1. exact Hx.
      + apply (existsb_In eqb Hspec). apply H2. exact Hx.
    - intros [H1 H3]. repeat split; auto; intros x Hx; apply (existsb_In eqb Hspec); apply H1; exact Hx.
  Qed.

  (* ---- the Prop-level statement about one observed step ---------------------------------- *)
  Definition listing_okP (m : M) (hp : N) (l : listing) : Prop :=
    NoDup (l_api l) /\ NoDup (map fst (l_rows l)) /\ NoDup (l_msigs l) /\
    forall a i, In (a, Some i) (l_rows l) -> a = addr (derive m i) /\ 1 <= i <= hp.

  Definition unchangedP (p c : listing) : Prop :=
    l_name p = l_name c /\
    (forall x, In x (l_api p) <-> In x (l_api c)) /\
    (forall x, In x (l_rows p) <-> In x (l_rows c)) /\
    (forall x, In x (l_msigs p) <-> In x (l_msigs c)).

  Record step_okP (m : M) (pw0 : PW) (prev : listing) (hp : N) (o : op) (r : ires)
         (cur : listing) (hp' : N) : Prop := mkStepOk {
    (* S1 *)
    so_listing : listing_okP m hp' cur;
    so_hp : hp <= hp';
    (* S2 *)
    so_password : forall pw, op_pw o = Some pw -> kdf pw <> kdf pw0 ->
                  is_ierr A K M r = true /\ unchangedP prev cur;
    (* S3 *)
    so_generate : forall dm a, o = OGenerate dm -> r = IAddr a ->
                  hp < hp' /\ In (a, Some hp') (l_rows cur) /\ a = addr (derive m hp') /\
                  ~ In a (l_api prev) /\
                  (forall j, hp < j < hp' -> In (addr (derive m j), None) (l_rows prev));
    so_other : (forall dm a, o = OGenerate dm -> r = IAddr a -> False) -> hp' = hp;
    (* S5 *)
    so_export : forall a pw k pk, o = OExport a pw -> r = IKey k pk -> pk = a /\ addr k = a }.

  Lemma listing_ok_sound : forall m hp l, listing_ok m hp l = true -> listing_okP m hp l.
  Proof.
    intros m hp l Hl. unfold WalletSpec.listing_ok in Hl.
    rewrite !andb_true_iff, !nodupb_NoDup, forallb_forall in Hl.
    destruct Hl as [[[H1 H2] H3] H4]. split; [exact H1|]. split; [exact H2|]. split; [exact H3|].
    intros a i Hin. specialize (H4 _ Hin). unfold WalletSpec.row_ok in H4. cbn [fst snd] in H4.
    rewrite !andb_true_iff in H4. destruct H4 as [[E E1] E2]. apply A_eqb_spec in E.
    split; [exact E|lia].
  Qed.

  Lemma unchanged_sound : forall p c, unchanged p c = true -> unchangedP p c.
  Proof.
    intros p c Hu. unfold WalletSpec.unchanged in Hu. rewrite !andb_true_iff in Hu.
    destruct Hu as [[[H1 H2] H3] H4].
    apply Nm_eqb_spec in H1.
    apply (same_set_spec A_eqb A_eqb_spec) in H2.
    apply (same_set_spec row_eqb row_eqb_spec) in H3.
    apply (same_set_spec A_eqb A_eqb_spec) in H4.
    repeat split; try tauto; try apply H2; try apply H3; try apply H4.
  Qed.

  Lemma find_row_In : forall a (rows : list (A * option N)) row,
    find (fun row => A_eqb a (fst row)) rows = Some row -> In row rows /\ fst row = a.
  Proof.
    intros a rows row Hf. apply find_some in Hf. destruct Hf as [H1 H2].
    apply A_eqb_spec in H2. auto.
  Qed.

  Theorem spec_step_sound : forall m pw0 prev ac o r cur ac',
    spec_step m pw0 prev ac o r cur = Some ac' ->
    step_okP m pw0 prev (a_hp ac) o r cur (a_hp ac').
  Proof.
    intros m pw0 prev ac o r cur ac' Hs. unfold WalletSpec.spec_step in Hs.
    destruct (wrong_pw A K P H Nm PW H_eqb kdf pw0 o && negb (is_ierr A K M r && unchanged prev cur)) eqn:Hw;
      [discriminate|].
    assert (Hpw : forall pw, op_pw o = Some pw -> kdf pw <> kdf pw0 ->
                  is_ierr A K M r = true /\ unchangedP prev cur).
    { intros pw Hop Hne. unfold WalletSpec.wrong_pw in Hw. rewrite Hop in Hw.
      assert (Hneq : H_eqb (kdf pw) (kdf pw0) = false).
      { destruct (H_eqb (kdf pw) (kdf pw0)) eqn:E; [|reflexivity]. apply H_eqb_spec in E. contradiction. }
      rewrite Hneq in Hw. cbn [negb andb] in Hw. apply negb_false_iff in Hw.
      apply andb_true_iff in Hw. destruct Hw as [H1 H2]. split; [exact H1|].
      apply unchanged_sound. exact H2. }
    (* the default branch *)
    assert (Hdefault : (if listing_ok m (a_hp ac) cur then Some ac else None) = Some ac' ->
                       (forall dm a, o = OGenerate dm -> r = IAddr a -> False) ->
                       (forall a pw k pk, o = OExport a pw -> r = IKey k pk -> False) ->
                       step_okP m pw0 prev (a_hp ac) o r cur (a_hp ac')).
    { intros Hd Hng Hne. destruct (listing_ok m (a_hp ac) cur) eqn:Hl; [|discriminate].
      inversion Hd; subst ac'. constructor; auto; try lia.
      - apply listing_ok_sound. exact Hl.
      - intros dm a E1 E2. exfalso. exact (Hng dm a E1 E2).
      - intros a pw k pk E1 E2. exfalso. exact (Hne a pw k pk E1 E2). }
    destruct o; try (apply Hdefault; [exact Hs| intros; discriminate | intros; discriminate]).
    - (* generate *)
      destruct r as [|a|k pk|mm|e]; try (apply Hdefault; [exact Hs| intros; discriminate | intros; discriminate]).
      destruct (find (fun row => A_eqb a (fst row)) (l_rows cur)) as [[a' [n|]]|] eqn:Hf; try discriminate.
      destruct (N.of_nat (length (l_rows prev)) <? n - a_hp ac - 1); [discriminate|].
      match type of Hs with (if ?c then _ else _) = _ => destruct c eqn:Hc; [|discriminate] end.
      inversion Hs; subst ac'; clear Hs. cbn [a_hp].
      rewrite !andb_true_iff in Hc. destruct Hc as [[[[C1 C2] C3] C4] C5].
      apply N.ltb_lt in C1. apply A_eqb_spec in C2. apply negb_true_iff in C3. apply memA_false in C3.
      apply find_row_In in Hf. cbn [fst] in Hf. destruct Hf as [Hin ->].
      constructor; try lia.
      + apply listing_ok_sound. exact C5.
      + exact Hpw.
      + intros dm a0 _ E. inversion E; subst a0. repeat split; auto.
        intros j Hj. rewrite forallb_forall in C4.
        assert (Hjin : In (ADm m j) (map (ADm m) (seqN (a_hp ac + 1) (N.to_nat (n - a_hp ac - 1))))).
        { apply in_map. apply seqN_In. lia. }
        specialize (C4 _ Hjin). apply (existsb_In row_eqb row_eqb_spec) in C4. exact C4.
      + intros Hno. exfalso. eapply Hno; reflexivity.
      + intros; discriminate.
    - (* export *)
      destruct r as [|a'|k pk|mm|e]; try (apply Hdefault; [exact Hs| intros; discriminate | intros; discriminate]).
      match type of Hs with (if ?c then _ else _) = _ => destruct c eqn:Hc; [|discriminate] end.
      inversion Hs; subst ac'; clear Hs.
      rewrite !andb_true_iff in Hc. destruct Hc as [[C1 C2] C3].
      apply A_eqb_spec in C1. apply A_eqb_spec in C2.
      constructor; auto; try lia.
      + apply listing_ok_sound. exact C3.
      + intros; discriminate.
      + intros a0 pw0' k0 pk0 E1 E2. inversion E1; inversion E2; subst. split; [reflexivity|exact C2].
  Qed.

  (* S4 *)
  Theorem restore_ok_sound : forall a1 a2 n a,
    restore_ok a1 a2 = true -> In (n, a) (a_gens a1) -> n <= a_hp a2 ->
    In (n, a) (a_gens a2) \/ In a (a_skip a2).
  Proof.
    intros a1 a2 n a Hr Hin Hle. unfold WalletSpec.restore_ok in Hr.
    rewrite forallb_forall in Hr. specialize (Hr _ Hin). cbn [fst snd] in Hr.
    apply N.leb_le in Hle. rewrite Hle in Hr. apply orb_true_iff in Hr. destruct Hr as [Hr|Hr].
    - left. apply existsb_exists in Hr. destruct Hr as [[n' a'] [Hin' He]].
      unfold WalletSpec.gen_eqb in He. cbn [fst snd] in He. apply andb_true_iff in He.
      destruct He as [E1 E2]. apply N.eqb_eq in E1. apply A_eqb_spec in E2. subst. exact Hin'.
    - right. apply memA_In. exact Hr.
  Qed.
End WalletSpecProofs.
