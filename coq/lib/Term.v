(* Universal term language of the line protocol between the Go harnesses and the
   executable Coq models.  One parser/printer (ocaml/runner.ml) serves every property:
   a case is one term per line; each property defines [check : term -> term] in Gallina,
   so that decoding of cases and the comparison itself are Coq definitions. *)
From Coq Require Import List NArith ZArith String Ascii Bool.
Import ListNotations.
Open Scope Z_scope.

Inductive term : Type :=
| TZ (z : Z)              (* integer token:  -?[0-9]+            *)
| TB (b : list N)         (* byte string:    #[0-9a-f]* (pairs)  *)
| TS (s : string)         (* symbol:         [A-Za-z_][A-Za-z0-9_.]* *)
| TL (l : list term).     (* list:           ( t1 t2 ... )       *)

Definition tn (n : N) : term := TZ (Z.of_N n).
Definition tb (b : bool) : term := TZ (if b then 1 else 0).

Definition as_Z (t : term) : option Z := match t with TZ z => Some z | _ => None end.
Definition as_N (t : term) : option N :=
  match t with TZ z => if z <? 0 then None else Some (Z.to_N z) | _ => None end.
Definition as_bool (t : term) : option bool :=
  match t with TZ 0 => Some false | TZ 1 => Some true | _ => None end.
Definition as_bytes (t : term) : option (list N) := match t with TB b => Some b | _ => None end.
Definition as_list (t : term) : option (list term) := match t with TL l => Some l | _ => None end.
Definition as_sym (t : term) : option string := match t with TS s => Some s | _ => None end.

Fixpoint map_opt {A B} (f : A -> option B) (l : list A) : option (list B) :=
  match l with
  | [] => Some []
  | x :: xs => match f x, map_opt f xs with
               | Some y, Some ys => Some (y :: ys)
               | _, _ => None
               end
  end.

Definition as_N_list (t : term) : option (list N) :=
  match t with TL l => map_opt as_N l | _ => None end.
Definition as_Z_list (t : term) : option (list Z) :=
  match t with TL l => map_opt as_Z l | _ => None end.

(* structural equality on terms (executable) *)
Fixpoint list_eqb {A} (eqb : A -> A -> bool) (l1 l2 : list A) : bool :=
  match l1, l2 with
  | [], [] => true
  | x :: xs, y :: ys => eqb x y && list_eqb eqb xs ys
  | _, _ => false
  end.

Fixpoint term_eqb (a b : term) {struct a} : bool :=
  match a, b with
  | TZ x, TZ y => Z.eqb x y
  | TB x, TB y => list_eqb N.eqb x y
  | TS x, TS y => String.eqb x y
  | TL xs, TL ys =>
      (fix go (l1 l2 : list term) {struct l1} : bool :=
         match l1, l2 with
         | [], [] => true
         | x :: l1', y :: l2' => term_eqb x y && go l1' l2'
         | _, _ => false
         end) xs ys
  | _, _ => false
  end.

(* Verdict codes returned by every [check] function (first element of the result list):
     0  model = implementation, spec_ok holds, case counted as trivial
     1  model = implementation, spec_ok holds, case non-trivial
     2  model <> implementation (correspondence broken), spec_ok holds on the impl output
     3  spec_ok FAILS on the implementation's output: the property is violated on this case
     4  case not parsable (harness / protocol error)
     5  spec_ok fails, but the case matches the signature of a listed finding; the second
        element is the symbol naming the finding (KNOWN_FINDINGS.txt decides whether it is
        listed; an unlisted signature is treated as code 3)
   The remaining elements are free-form detail (usually the model's observation). *)
Definition v_triv : term := TL [TZ 0].
Definition v_ok : term := TL [TZ 1].
Definition v_diff (model_obs : term) : term := TL [TZ 2; model_obs].
Definition v_viol (detail : term) : term := TL [TZ 3; detail].
Definition v_parse : term := TL [TZ 4].
Definition v_known (name : string) (detail : term) : term := TL [TZ 5; TS name; detail].

(* standard combination: parse ok -> (spec on impl) -> (model vs impl) -> triviality *)
Definition verdict (spec_ok corr nontrivial : bool) (model_obs : term) : term :=
  if negb spec_ok then v_viol model_obs
  else if negb corr then v_diff model_obs
  else if nontrivial then v_ok else v_triv.
