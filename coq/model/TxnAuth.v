(* C28  Only the current authorizer can authorize a transaction.
   Executable transcription of
     /repo/data/transactions/verify/txn.go   txnGroup / txnGroupBatchPrep, logicSigGroupSizeCheck,
                                             txnBatchPrep, checkTxnSigTypeCounts, stxnCoreChecks,
                                             LogicSigSanityCheck / logicSigSanityCheckBatchPrep,
                                             logicSigVerify
     /repo/crypto/multisig.go                MultisigBatchPrep, MultisigAddrGenWithSubsigs, Signatures
     /repo/crypto/batchverifier.go           BatchVerifier.Verify (= every enqueued triple verifies)
     /repo/data/transactions/pqsig.go        PQSig.Blank / validateEnvelope / Verify
     /repo/data/transactions/signedtxn.go    SignedTxn.Authorizer
     /repo/data/transactions/logicsig.go     LogicSig.Blank / HasProgram / ArgsLen
     /repo/ledger/eval/eval.go               TransactionGroup + transaction(): size rule, alive/dup
                                             (oracle bit), authorizer check against the sender's
                                             AuthAddr, apply.Rekey, group-id rules (model/Commitments.v)

   Cryptography is ABSTRACT: [sig_ok pk msg sig] (ed25519), [pq_ok scheme pk msg sig] (Falcon),
   [H] (SHA-512/256).  Messages are the real byte strings that are signed (domain-separation
   prefix ++ canonical encoding).  Not modelled, taken as per-transaction oracle bits that the
   harness observes on the real code: Transaction.WellFormed, logic.CheckSignature, the
   LogicSig program's evaluation result.  No proofs here. *)
From Coq Require Import String Ascii NArith ZArith List Bool.
Import ListNotations.
From Verif.lib Require Import Term.
From Verif.model Require Import Commitments.
Open Scope N_scope.

Record subsig : Type := mkSub { ss_key : bytes; ss_sig : bytes }.
(* crypto.MultisigSig; ms_nil = "Subsigs == nil" *)
Record msig : Type := mkMsig { ms_v : N; ms_thr : N; ms_nil : bool; ms_subs : list subsig }.
Record pqsig : Type := mkPQ { pq_scheme : bytes; pq_salt : N; pq_pk : bytes; pq_sg : bytes }.
Record lsig : Type := mkLsig {
  l_logic : bytes; l_sig : bytes; l_msig : msig; l_lmsig : msig; l_pq : pqsig;
  l_args : list N;          (* len(arg) for every arg *)
  l_check_ok : bool;        (* oracle: logic.CheckSignature(gi, ep) == nil *)
  l_eval : N                (* oracle: logic.EvalSignatureFull: 0 pass, 1 reject, 2 error *)
}.

(* one (public key, message bytes, signature) triple handed to a BatchEnqueuer *)
Definition item : Type := (bytes * bytes * bytes)%type.

Record stxn : Type := mkStxn {
  t_sender : bytes;
  t_auth : bytes;           (* SignedTxn.AuthAddr *)
  t_is_sp : bool;           (* Txn.Sender == StateProofSender && Txn.Type == StateProofTx *)
  t_enc : bytes;            (* protocol.Encode(&Txn): the signed message is "TX" ++ t_enc *)
  t_gtx : gtx;              (* Group field, encoding with Group blanked *)
  t_wf : bool;              (* oracle: Txn.WellFormed(...) == nil *)
  t_extra : list item;      (* heartbeat: what HbProof.BatchPrep enqueues (before the authorization) *)
  t_sig : bytes; t_msig : msig; t_lsig : lsig; t_pq : pqsig
}.

Record vparams : Type := mkVParams {
  p_rekey : bool;           (* SupportRekeying *)
  p_authdiff : bool;        (* EnforceAuthAddrSenderDiff *)
  p_pq : bool;              (* EnablePQSchemeFalcon1024 (= PQSigEnabled) *)
  p_lsigver : N;            (* LogicSigVersion *)
  p_lsig_msig : bool; p_lsig_lmsig : bool;
  p_pricing : bool;         (* TxnSizePricingEnabled *)
  p_maxabs : N;             (* MaxAbsoluteLogicSigProgramSize *)
  p_lsigmax : N             (* LogicSigMaxSize *)
}.

Inductive vres : Type := VOk | VErr (reason : string) (idx : Z) (sub : string).

Definition msig_blank (m : msig) : bool := (ms_v m =? 0) && (ms_thr m =? 0) && ms_nil m.
Definition pq_blank (q : pqsig) : bool :=
  all_zero (pq_scheme q) && (pq_salt q =? 0) && (length (pq_pk q) =? 0)%nat && (length (pq_sg q) =? 0)%nat.
Definition has_program (l : lsig) : bool := negb (length (l_logic l) =? 0)%nat.
Definition lsig_blank (l : lsig) : bool :=
  (length (l_logic l) =? 0)%nat && (length (l_args l) =? 0)%nat && all_zero (l_sig l) &&
  msig_blank (l_msig l) && msig_blank (l_lmsig l) && pq_blank (l_pq l).
Definition args_len (l : lsig) : N := fold_right N.add 0 (l_args l).

(* SignedTxn.Authorizer *)
Definition authorizer (s : stxn) : bytes := if all_zero (t_auth s) then t_sender s else t_auth s.

Definition txn_msg (s : stxn) : bytes := str "TX" ++ t_enc s.
Definition program_msg (logic : bytes) : bytes := str "Program" ++ logic.
Definition msig_program_msg (addr logic : bytes) : bytes := str "MsigProgram" ++ addr ++ logic.
Definition pq_program_msg (addr logic : bytes) : bytes := str "PQProgram" ++ addr ++ logic.

(* encoding/binary.Uvarint: (value, n) *)
Fixpoint uvarint_go (b : bytes) (i : nat) (x s : N) : N * Z :=
  match b with
  | [] => (0, 0%Z)
  | c :: r =>
      if (i =? 10)%nat then (0, (- (Z.of_nat i + 1))%Z)
      else if c <? 128 then
        (if (i =? 9)%nat && (1 <? c) then (0, (- (Z.of_nat i + 1))%Z)
         else (N.lor x (N.shiftl c s) mod 2 ^ 64, (Z.of_nat i + 1)%Z))
      else uvarint_go r (S i) (N.lor x (N.shiftl (N.land c 127) s) mod 2 ^ 64) (s + 7)
  end.
Definition uvarint (b : bytes) : N * Z := uvarint_go b 0 0 0.

Definition scheme_f1 : bytes := str "f1".

Section Verify.
  Variable sig_ok : bytes -> bytes -> bytes -> bool.            (* pk msg sig *)
  Variable pq_ok : bytes -> bytes -> bytes -> bytes -> bool.    (* scheme pk msg sig *)
  Variable H : bytes -> bytes.                                  (* crypto.Hash *)
  Variable p : vparams.

  (* BatchVerifier.Verify: nil iff every enqueued signature verifies (none enqueued: nil) *)
  Definition batch_ok (q : list item) : bool :=
    forallb (fun it => let '(pk, m, sg) := it in sig_ok pk m sg) q.

  (* ---- crypto.MultisigBatchPrep ---- *)
  Definition sub_zero (s : subsig) : bool := all_zero (ss_key s) && all_zero (ss_sig s).
  Definition sub_signed (s : subsig) : bool := negb (all_zero (ss_sig s)).

  Definition msig_addr (v thr : N) (subs : list subsig) : bytes + string :=
    if negb (v =? 1) then inr "version"%string
    else if (thr =? 0) || (length subs =? 0)%nat || (blen subs <? thr) then inr "threshold"%string
    else inl (H (str "MultisigAddr" ++ [v; thr] ++ flat_map ss_key subs)).

  Definition msig_signatures (subs : list subsig) : N := blen (filter sub_signed subs).

  Definition msig_prep (msg addr : bytes) (m : msig) : list item + string :=
    match ms_subs m with
    | [] => inr "numsig"%string
    | s0 :: _ =>
        if sub_zero s0 then inr "numsig"%string else
        match msig_addr (ms_v m) (ms_thr m) (ms_subs m) with
        | inr e => inr e
        | inl a =>
            if negb (beqb addr a) then inr "address"%string
            else if 255 <? blen (ms_subs m) then inr "numsig"%string
            else if msig_signatures (ms_subs m) <? ms_thr m then inr "numsig"%string
            else inl (map (fun s => (ss_key s, msg, ss_sig s)) (filter sub_signed (ms_subs m)))
        end
    end.

  (* ---- PQSig.Verify ---- *)
  Definition pq_address (q : pqsig) : bytes := H (str "PQA" ++ pq_scheme q ++ [pq_salt q] ++ pq_pk q).

  Definition pq_verify (q : pqsig) (msg auth : bytes) : option string :=
    if pq_blank q then Some "pq_blank"%string
    else if negb (beqb (pq_scheme q) scheme_f1) then Some "pq_notsupported"%string
    else if negb (p_pq p) then Some "pq_notenabled"%string
    else if negb (beqb (pq_address q) auth) then Some "pq_mismatch"%string
    else if (length (pq_sg q) =? 0)%nat then Some "pq_empty"%string
    else if pq_ok (pq_scheme q) (pq_pk q) msg (pq_sg q) then None
    else Some "pq_verify"%string.

  (* ---- LogicSigSanityCheck (own batch verifier, verified on the spot) ---- *)
  Definition b2n (b : bool) : N := if b then 1 else 0.

  Definition lsig_sanity (s : stxn) : option string :=
    let l := t_lsig s in
    let auth := authorizer s in
    if p_lsigver p =? 0 then Some "disabled"%string
    else if negb (has_program l) then Some "empty"%string
    else if p_maxabs p <? blen (l_logic l) then Some "toolong"%string
    else let '(ver, vlen) := uvarint (l_logic l) in
    if (vlen <=? 0)%Z then Some "badversion"%string
    else if p_lsigver p <? ver then Some "toonew"%string
    else if negb (l_check_ok l) then Some "check"%string
    else
      let hasSig := negb (all_zero (l_sig l)) in
      let hasMsig := negb (msig_blank (l_msig l)) in
      let hasLMsig := negb (msig_blank (l_lmsig l)) in
      let hasPQ := negb (pq_blank (l_pq l)) in
      let numSigs := b2n hasSig + b2n hasMsig + b2n hasLMsig + b2n hasPQ in
      if numSigs =? 0 then
        (if beqb auth (H (program_msg (l_logic l))) then None else Some "notsigned"%string)
      else if 1 <? numSigs then Some "multideleg"%string
      else if hasPQ then pq_verify (l_pq l) (pq_program_msg auth (l_logic l)) auth
      else if negb hasMsig && negb hasLMsig then
        (if batch_ok [(auth, program_msg (l_logic l), l_sig l)] then None else Some "batch"%string)
      else
        let r :=
          if hasLMsig then
            (if negb (p_lsig_lmsig p) then inr "lmsig_unsupported"%string
             else match msig_prep (msig_program_msg auth (l_logic l)) auth (l_lmsig l) with
                  | inr e => inr (String.append "msig_" e)
                  | inl q => inl q
                  end)
          else
            (if negb (p_lsig_msig p) then inr "msig_unsupported"%string
             else match msig_prep (program_msg (l_logic l)) auth (l_msig l) with
                  | inr e => inr (String.append "msig_" e)
                  | inl q => inl q
                  end) in
        match r with
        | inr e => Some e
        | inl q => if batch_ok q then None else Some "batch"%string
        end.

  (* logicSigVerify *)
  Definition lsig_verify (s : stxn) : option string :=
    match lsig_sanity s with
    | Some e => Some e
    | None => if l_eval (t_lsig s) =? 0 then None
              else if l_eval (t_lsig s) =? 1 then Some "rejected"%string
              else Some "evalerr"%string
    end.

  (* ---- checkTxnSigTypeCounts: 1 sig, 2 msig, 3 lsig, 4 state proof, 5 pq ---- *)
  Definition num_categories (s : stxn) : N :=
    b2n (negb (all_zero (t_sig s))) + b2n (negb (msig_blank (t_msig s))) +
    b2n (has_program (t_lsig s)) + b2n (negb (pq_blank (t_pq s))).

  Definition sig_type (s : stxn) : N + (string * string) :=
    let n := num_categories s in
    if n =? 0 then (if t_is_sp s then inl 4 else inr ("nosig"%string, "nosig"%string))
    else if 1 <? n then inr ("signotwellformed"%string, "multi"%string)
    else if negb (pq_blank (t_pq s)) then inl 5
    else if has_program (t_lsig s) then inl 3
    else if negb (msig_blank (t_msig s)) then inl 2
    else inl 1.

  (* ---- txnBatchPrep + stxnCoreChecks: the items enqueued into the group batch, or an error ---- *)
  Definition txn_prep (s : stxn) : list item + (string * string) :=
    if negb (p_rekey p) && negb (all_zero (t_auth s)) then inr ("generic"%string, "norekey"%string)
    else if p_authdiff p && negb (all_zero (t_auth s)) && beqb (t_auth s) (t_sender s)
      then inr ("generic"%string, "authsender"%string)
    else if negb (p_pq p) && (negb (pq_blank (t_pq s)) || negb (pq_blank (l_pq (t_lsig s))))
      then inr ("signotwellformed"%string, "pqdisabled"%string)
    else match sig_type s with
    | inr e => inr e
    | inl ty =>
        if ty =? 1 then inl (t_extra s ++ [(authorizer s, txn_msg s, t_sig s)])
        else if ty =? 2 then
          match msig_prep (txn_msg s) (authorizer s) (t_msig s) with
          | inr e => inr ("msig"%string, e)
          | inl q => inl (t_extra s ++ q)
          end
        else if ty =? 3 then
          match lsig_verify s with
          | Some e => inr ("lsig"%string, e)
          | None => inl (t_extra s)
          end
        else if ty =? 5 then
          match pq_verify (t_pq s) (txn_msg s) (authorizer s) with
          | Some e => inr ("signotwellformed"%string, e)
          | None => inl (t_extra s)
          end
        else inl (t_extra s)
    end.

  (* ---- logicSigGroupSizeCheck ---- *)
  Fixpoint lsig_size_loop (l : list stxn) (i : Z) (pooled args : N) (need : bool)
    : (N * N * bool) + Z :=
    match l with
    | [] => inl (pooled, args, need)
    | s :: r =>
        let ls := t_lsig s in
        if negb (has_program ls) && negb (lsig_blank ls) && p_pricing p then inr i
        else if negb (has_program ls) && negb (p_lsigmax p <? p_maxabs p)
          then lsig_size_loop r (i + 1)%Z pooled args need
        else
          let a := args_len ls in
          lsig_size_loop r (i + 1)%Z (pooled + blen (l_logic ls) + a) (args + a)
                         (need || (p_lsigmax p <? a))
    end.

  Definition lsig_size_check (l : list stxn) : vres :=
    match lsig_size_loop l 0%Z 0 0 false with
    | inr i => VErr "notwellformed" i "orphan"
    | inl (pooled, args, need) =>
        let avail := blen l * p_lsigmax p in
        if negb (p_pricing p) && (avail <? pooled) then VErr "notwellformed" (-1) "pool"
        else if need && (avail <? args) then VErr "notwellformed" (-1) "argspool"
        else VOk
    end.

  Fixpoint prep_loop (l : list stxn) (i : Z) (q : list item) : list item + vres :=
    match l with
    | [] => inl q
    | s :: r => match txn_prep s with
                | inr (reason, sub) => inr (VErr reason i sub)
                | inl q' => prep_loop r (i + 1)%Z (q ++ q')
                end
    end.

  Definition map_gres (r : gres) : vres :=
    match r with
    | GOk => VOk
    | GErrEmpty i => VErr "notwellformed" (Z.of_N i) "emptygid"
    | GErrInconsistent i => VErr "notwellformed" (Z.of_N i) "inconsistent"
    | GErrIncomplete => VErr "notwellformed" (-1) "incomplete"
    end.

  (* the signatures the group batch is asked to verify (None: rejected before that) *)
  Definition group_items (l : list stxn) : list item + vres :=
    match l with
    | [] => inr (VErr "panic" (-1) "emptygroup")   (* nil GroupContext dereferenced, recovered *)
    | _ =>
      match first_index (fun s => negb (t_wf s)) l 0 with
      | Some i => inr (VErr "notwellformed" (Z.of_N i) "wf")
      | None =>
        match map_gres (check_group_id (fun _ : N => H) (map t_gtx l)) with
        | VErr a b c => inr (VErr a b c)
        | VOk =>
          match lsig_size_check l with
          | VErr a b c => inr (VErr a b c)
          | VOk => prep_loop l 0%Z []
          end
        end
      end
    end.

  (* verify.TxnGroup *)
  Definition verify_group (l : list stxn) : vres :=
    match group_items l with
    | inr e => e
    | inl q => if batch_ok q then VOk else VErr "batch" (-1) "batch"
    end.
End Verify.

(* ------------------------------------------------------------------------------------- *)
(* The verified-transaction cache and the entry points that write to it                   *)
(* verify.TxnGroup (cache.Add after the batch verified), verify.PaysetGroups (worksets cut by
   worksetBuilder.next; per workset: prep of every group, batch verification, THEN
   cache.AddPayset), txnSigBatchProcessor.ProcessBatch (stream verifier: the groups whose prep
   passed and none of whose own signatures failed are added).  The cache is abstracted to the
   list of remembered groups (capacity / pinning only ever forget entries). *)
Definition group : Type := list stxn.

(* worksetBuilder.next: groups are taken while the running transaction count stays within
   txnPerWorksetThreshold = 32; a first group that is larger on its own is taken alone *)
Fixpoint take_ws (l : list group) (counter : nat) (first : bool) : list group * list group :=
  match l with
  | [] => ([], [])
  | g :: r =>
      if (32 <? counter + length g)%nat then (if first then ([g], r) else ([], g :: r))
      else let '(w, rest) := take_ws r (counter + length g) false in (g :: w, rest)
  end.

Fixpoint ws_split (fuel : nat) (l : list group) : list (list group) :=
  match fuel with
  | O => []
  | S f => match l with
           | [] => []
           | _ => let '(w, rest) := take_ws l 0 true in w :: ws_split f rest
           end
  end.
Definition worksets (l : list group) : list (list group) := ws_split (length l) l.

Inductive cop : Type :=
| CTxnGroup (g : group)                                   (* verify.TxnGroup(g, hdr, cache, ...) *)
| CPayset (unverified : list group) (ran : list bool)     (* verify.PaysetGroups; ran: which worksets
                                                             completed before the call was aborted *)
| CBatch (gs : list group).                               (* ProcessBatch on these jobs *)

Section Cache.
  Variable sig_ok : bytes -> bytes -> bytes -> bool.
  Variable pq_ok : bytes -> bytes -> bytes -> bytes -> bool.
  Variable H : bytes -> bytes.
  Variable p : vparams.

  Definition gvalid (g : group) : bool :=
    match verify_group sig_ok pq_ok H p g with VOk => true | VErr _ _ _ => false end.
  Definition ws_ok (w : list group) : bool := forallb gvalid w.
  (* PaysetGroups returns nil iff every workset passed *)
  Definition payset_ok (unverified : list group) : bool := forallb ws_ok (worksets unverified).

  Definition cstep (c : list group) (o : cop) : list group :=
    match o with
    | CTxnGroup g => if gvalid g then g :: c else c
    | CPayset unv ran =>
        let ws := worksets unv in
        if forallb ws_ok ws then concat ws ++ c
        else concat (map snd (filter (fun x => fst x && ws_ok (snd x)) (combine ran ws))) ++ c
    | CBatch gs => filter gvalid gs ++ c
    end.
  Definition crun (ops : list cop) : list group := fold_left cstep ops [].

  (* block validation (ledger/eval validator.run): what the cache does not vouch for goes to
     PaysetGroups; [remembered c g] abstracts GetUnverifiedTransactionGroups' per-group answer *)
  Variable remembered : list group -> group -> bool.
  Definition validate (c : list group) (payset : list group) : bool :=
    payset_ok (filter (fun g => negb (remembered c g)) payset).
End Cache.

(* ------------------------------------------------------------------------------------- *)
(* Evaluator side: BlockEvaluator.TransactionGroup with transaction()                     *)

(* AuthAddr of the accounts the group touches as senders (zero = not rekeyed); an address that
   is not listed is not rekeyed *)
Definition astate := list (bytes * bytes).
Fixpoint auth_of (st : astate) (a : bytes) : bytes :=
  match st with
  | [] => []
  | (k, v) :: r => if beqb k a then v else auth_of r a
  end.
Definition set_auth (st : astate) (a v : bytes) : astate := (a, v) :: st.

(* "correctAuthorizer := acctdata.AuthAddr; if zero then Sender" *)
Definition current_authorizer (st : astate) (sender : bytes) : bytes :=
  if all_zero (auth_of st sender) then sender else auth_of st sender.

Record etx : Type := mkEtx {
  e_sender : bytes;
  e_auth : bytes;           (* SignedTxn.AuthAddr *)
  e_rekey : bytes;          (* Txn.RekeyTo *)
  e_gtx : gtx;
  e_pre_ok : bool;          (* oracle: block.Alive and cow.checkDup pass *)
  e_apply_ok : bool         (* oracle: applyTransaction, ApplyData comparison, min balances pass *)
}.

Definition e_authorizer (t : etx) : bytes := if all_zero (e_auth t) then e_sender t else e_auth t.

(* apply.Rekey *)
Definition apply_rekey (st : astate) (t : etx) : astate :=
  if all_zero (e_rekey t) then st
  else if beqb (e_rekey t) (e_sender t) then set_auth st (e_sender t) (zeros 32)
  else set_auth st (e_sender t) (e_rekey t).

Inductive eres : Type :=
| EOk
| EErrTooBig
| EErrPre (i : N)            (* TxnDeadError / TransactionInLedgerError / LeaseInLedgerError *)
| EErrAuth (i : N)           (* "should have been authorized by" *)
| EErrApply (i : N)
| EErrGroup (g : gres)
| EErrFees.

Section Eval.
  Variable H : N -> bytes -> bytes.
  Variable validate : bool.            (* eval.validate *)
  Variable maxgroup : N.               (* proto.MaxTxGroupSize *)

  Fixpoint eval_loop (n : nat) (g0 : bytes) (st : astate) (i : N) (acc : list bytes) (l : list etx)
    : (astate * list bytes) + eres :=
    match l with
    | [] => inl (st, acc)
    | t :: r =>
        if validate && negb (e_pre_ok t) then inr (EErrPre i)
        else if validate && negb (beqb (e_authorizer t) (current_authorizer st (e_sender t)))
          then inr (EErrAuth i)
        else if negb (e_apply_ok t) then inr (EErrApply i)
        else
          match group_member_step H n g0 i acc (e_gtx t) with
          | inr e => inr (EErrGroup e)
          | inl acc' => eval_loop n g0 (apply_rekey st t) (i + 1) acc' r
          end
    end.

  (* result and the AuthAddr state the group leaves behind *)
  Definition eval_txgroup (st : astate) (fees_ok : bool) (g : list etx) : eres * astate :=
    match g with
    | [] => (EOk, st)
    | t0 :: _ =>
        if maxgroup <? blen g then (EErrTooBig, st) else
        match eval_loop (length g) (g_grp (e_gtx t0)) st 0 [] g with
        | inr e => (e, st)
        | inl (st', acc) =>
            match group_final H (g_grp (e_gtx t0)) acc with
            | GOk => if fees_ok then (EOk, st') else (EErrFees, st)
            | e => (EErrGroup e, st)
            end
        end
    end.
End Eval.
