(* C43: executable model of network/limited_reader_slurper.go (LimitedReaderSlurper) and of an
   arbitrary io.Reader.  No proofs here.

   Transcription notes
   * Go state  -> model state:  remainedUnallocatedSpace -> [remained], currentMessageBytesRead
     -> [bytesRead], currentMessageMaxSize -> [maxSize], len(buffers) -> [nslots],
     buffers[0] -> [b0], buffers[lastBuffer] .. buffers[1] -> [ext] (NEWEST FIRST, so
     lastBuffer = length ext and "the current buffer" is the head of [ext], or [b0]).
   * A Go slice ([]byte with len and cap) is a [buf]: capacity, length, and its content.  The
     content is not a copy of the bytes but the list of stream segments (start, n) that the
     reader copied into it, newest first; [bytes_of] (below) is its denotation over the
     message bytes.  This keeps cases with megabyte messages small; that the segments are
     contiguous and in order is a THEOREM (proofs/SlurperProofs.v), not an assumption.
   * The io.Reader is a message of [rtotal] bytes, a cursor [rpos] and a finite script of read
     behaviours.  One call Read(p) with len p = L pops one script event:
       EvData k eof : copy n = min k (min L remaining) bytes (k = 0: a zero-length read);
                      return io.EOF together with them iff [eof] and the message is exhausted;
       EvErr k      : copy n bytes as above and return a non-EOF error.
     When the script is exhausted the reader is greedy: it fills p and returns (0, io.EOF)
     once the message is exhausted.  Every finite behaviour of a sequential reader (any
     chunking, empty reads, early/late EOF signalling, errors at any point) is such a script.
   * uint64 arithmetic that cannot wrap for sizes < 2^63 is written on N; the one expression
     that Go computes modulo 2^64 when sizing the buffers array is written with [mod two64],
     and indexing past the array is the explicit outcome [RPanic]. *)
From Coq Require Import NArith List Bool.
Import ListNotations.
Open Scope N_scope.

Definition allocationStep : N := 65536.
Definition two64 : N := 18446744073709551616.

Record buf := mkBuf { bcap : N; blen : N; bsegs : list (N * N) }.

Record slurper := mkS {
  remained : N; bytesRead : N; maxSize : N; nslots : N; b0 : buf; ext : list buf }.

(* MakeLimitedReaderSlurper *)
Definition make_slurper (baseAllocation maxAllocation : N) : slurper :=
  let base := if maxAllocation <? baseAllocation then maxAllocation else baseAllocation in
  mkS (maxAllocation - base) 0 0
      (1 + ((maxAllocation - base + allocationStep - 1) mod two64) / allocationStep)
      (mkBuf base 0 []) [].

(* Reset(n) *)
Definition reset (s : slurper) (n : N) : slurper :=
  mkS (fold_left (fun acc b => acc + bcap b) (ext s) (remained s)) 0 n (nslots s)
      (mkBuf (bcap (b0 s)) 0 []) [].

Definition cur (s : slurper) : buf := match ext s with [] => b0 s | b :: _ => b end.
Definition set_cur (s : slurper) (b : buf) : slurper :=
  match ext s with
  | [] => mkS (remained s) (bytesRead s) (maxSize s) (nslots s) b []
  | _ :: t => mkS (remained s) (bytesRead s) (maxSize s) (nslots s) (b0 s) (b :: t)
  end.

Definition sum_cap (l : list buf) : N := fold_right (fun b acc => bcap b + acc) 0 l.
Definition sum_len (l : list buf) : N := fold_right (fun b acc => blen b + acc) 0 l.
(* Size() and the total capacity currently allocated *)
Definition size (s : slurper) : N := blen (b0 s) + sum_len (ext s).
Definition allocated (s : slurper) : N := bcap (b0 s) + sum_cap (ext s).
(* Bytes(): buffers[0] .. buffers[lastBuffer], as stream segments in order *)
Definition segments (s : slurper) : list (N * N) :=
  rev (bsegs (b0 s)) ++ flat_map (fun b => rev (bsegs b)) (rev (ext s)).

(* ---- reader ---- *)
Inductive ev := EvData (k : N) (eof : bool) | EvErr (k : N).
Record reader := mkR { rpos : N; rtotal : N; rscript : list ev }.
Inductive rerr := RNil | REOF | RFail.

Definition rread (r : reader) (L : N) : N * rerr * reader :=
  let rem := rtotal r - rpos r in
  match rscript r with
  | [] =>
      let n := N.min L rem in
      if n =? 0 then (0, (if rem =? 0 then REOF else RNil), r)
      else (n, RNil, mkR (rpos r + n) (rtotal r) [])
  | EvData k eof :: sc =>
      let n := N.min k (N.min L rem) in
      (n, (if eof && (rpos r + n =? rtotal r) then REOF else RNil), mkR (rpos r + n) (rtotal r) sc)
  | EvErr k :: sc =>
      let n := N.min k (N.min L rem) in
      (n, RFail, mkR (rpos r + n) (rtotal r) sc)
  end.

(* ---- Read ---- *)
Inductive outcome := ROk | RTooLarge | RReaderErr | RPanic | ROutOfFuel.
Inductive stepres := Done (o : outcome) (s : slurper) (r : reader) | Cont (s : slurper) (r : reader).

(* allocateNextBuffer; None = index out of range of the buffers array *)
Definition allocate (s : slurper) : option slurper :=
  if nslots s <=? N.of_nat (length (ext s)) + 1 then None
  else
    let sz := N.min allocationStep (remained s) in
    Some (mkS (remained s - sz) (bytesRead s) (maxSize s) (nslots s) (b0 s) (mkBuf sz 0 [] :: ext s)).

(* the part of the loop body after "readBuffer = s.buffers[s.lastBuffer]" *)
Definition read_into (s : slurper) (r : reader) : stepres :=
  let c := cur s in
  let '(n, e, r') := rread r (bcap c - blen c) in
  let s1 := mkS (remained s) (bytesRead s + n) (maxSize s) (nslots s) (b0 s) (ext s) in
  if (0 <? maxSize s1) && (maxSize s1 <? bytesRead s1) then Done RTooLarge s1 r'
  else
    let committed := set_cur s1 (mkBuf (bcap c) (blen c + n) ((rpos r, n) :: bsegs c)) in
    match e with
    | REOF => Done ROk committed r'
    | RFail => Done RReaderErr s1 r'
    | RNil => Cont committed r'
    end.

(* one iteration of the for loop *)
Definition iter (s : slurper) (r : reader) : stepres :=
  let c := cur s in
  if blen c =? bcap c then
    if remained s =? 0 then
      let '(n, e, r') := rread r 1 in
      if 0 <? n then Done RTooLarge s r'
      else match e with
           | REOF => Done ROk s r'
           | RNil => Cont s r'
           | RFail => Done RReaderErr s r'
           end
    else match allocate s with
         | None => Done RPanic s r
         | Some s' => read_into s' r
         end
  else read_into s r.

Fixpoint run (fuel : nat) (s : slurper) (r : reader) : outcome * slurper * reader :=
  match fuel with
  | O => (ROutOfFuel, s, r)
  | S f => match iter s r with
           | Done o s' r' => (o, s', r')
           | Cont s' r' => run f s' r'
           end
  end.

(* enough iterations for every script (proved: proofs/SlurperProofs.v, run_fuel_enough):
   each iteration pops a script event, or allocates / fills a buffer, or drains the message *)
Definition fuel_for (s : slurper) (r : reader) : nat :=
  2 * length (rscript r) + 2 * N.to_nat (nslots s) + 4.

(* one message on a connection: Reset(limit); Read(reader) *)
Definition slurp (s : slurper) (limit total : N) (script : list ev) : outcome * slurper * reader :=
  let s0 := reset s limit in
  let r := mkR 0 total script in
  run (fuel_for s0 r) s0 r.

(* denotation of segments over the message bytes *)
Definition slice {A} (data : list A) (start n : N) : list A :=
  firstn (N.to_nat n) (skipn (N.to_nat start) data).
Definition bytes_of {A} (data : list A) (segs : list (N * N)) : list A :=
  flat_map (fun sg => slice data (fst sg) (snd sg)) segs.
