(* C15: Prop-level vocabulary of the theorems (definitions only, no proofs).

   "Except through a hash collision" is stated as an explicit DISJUNCT naming the two colliding
   pre-images, not as an injectivity hypothesis on [H]: no function from byte strings into 31
   (or 32) bytes is injective, so such a hypothesis would make every theorem vacuous. *)
From Coq Require Import List NArith Bool.
Import ListNotations.
From Verif.model Require Import CatchpointHash.
Open Scope N_scope.

Section Spec.
  Variable H : bytes -> bytes.

  (* two different leaf pre-images whose digests agree on the 31 bytes a leaf keeps *)
  Definition leaf_collision (x y : bytes) : Prop := x <> y /\ trunc31 H x = trunc31 H y.
  (* two different byte strings with the same digest *)
  Definition hash_collision (x y : bytes) : Prop := x <> y /\ H x = H y.

  (* what the Go types guarantee: basics.Address is [32]byte, CreatableIndex is a uint64 *)
  Definition wf_entry (e : entry) : Prop :=
    match e with
    | EAcct a _ _ _ => length a = 32%nat
    | ERes a c _ _ _ _ => length a = 32%nat /\ c < 2 ^ 64
    | EKv _ _ => True
    end.

  (* the same ledger entry: (address, data) / (address, creatable index, kind, data) / (key, value),
     data identified by its encoding *)
  Definition same_ident (e1 e2 : entry) : Prop :=
    match e1, e2 with
    | EAcct a1 _ _ n1, EAcct a2 _ _ n2 => a1 = a2 /\ n1 = n2
    | ERes a1 c1 ia1 ip1 _ n1, ERes a2 c2 ia2 ip2 _ n2 =>
        a1 = a2 /\ c1 = c2 /\ resource_kind ia1 ip1 = resource_kind ia2 ip2 /\ n1 = n2
    | EKv k1 v1, EKv k2 v2 => k1 = k2 /\ v1 = v2
    | _, _ => False
    end.

  (* the finding: two different KV entries whose key‖value concatenations coincide *)
  Definition kv_ambiguous (e1 e2 : entry) : Prop :=
    match e1, e2 with
    | EKv k1 v1, EKv k2 v2 => (k1, v1) <> (k2, v2) /\ k1 ++ v1 = k2 ++ v2
    | _, _ => False
    end.

  (* ---- states and their label ---- *)
  (* accountsUpdateBalances keeps the trie equal to the set of leaves of the live entries;
     [root] is merkletrie's RootHash as a function of the leaves added (C17) *)
  Definition leaves_of (es : list entry) : list bytes :=
    flat_map (fun e => match leaf_of H e with Some l => [l] | None => [] end) es.

  Definition state_label (root : list bytes -> bytes) (es : list entry)
             (bh totals_enc : bytes) (extras : list bytes) : bytes :=
    label_digest H bh (root (leaves_of es)) totals_enc extras.

  Definition wf_state (es : list entry) : Prop :=
    forall e, In e es -> wf_entry e /\ leaf_of H e <> None.

  (* every entry of the first state is in the second one, possibly with the key/value boundary
     of a KV entry moved *)
  Definition covered (es1 es2 : list entry) : Prop :=
    forall e, In e es1 -> exists e', In e' es2 /\ (same_ident e e' \/ kv_ambiguous e e').
  Definition state_equiv (es1 es2 : list entry) : Prop := covered es1 es2 /\ covered es2 es1.
  Definition state_same (es1 es2 : list entry) : Prop :=
    (forall e, In e es1 -> exists e', In e' es2 /\ same_ident e e') /\
    (forall e, In e es2 -> exists e', In e' es1 /\ same_ident e e').

  (* some pair of entries of the two states collides inside the hash function *)
  Definition entries_collide (es1 es2 : list entry) : Prop :=
    exists e1 e2, In e1 es1 /\ In e2 es2 /\ leaf_collision (prehash_of e1) (prehash_of e2).

  Definition kv_keys_fixed_len (n : nat) (es : list entry) : Prop :=
    forall k v, In (EKv k v) es -> length k = n.
End Spec.

(* box accounting of the application account (ledger/eval/applications.go): one box adds 1 to
   TotalBoxes and len(name)+len(value) to TotalBoxBytes *)
Definition box_bytes (name value : bytes) : N := N.of_nat (length name) + N.of_nat (length value).
