(* C44: a small payments-only block evaluator, the concrete instance the pool model is run with
   against the real TransactionPool.  It mirrors BlockEvaluator.TransactionGroup
   (ledger/eval/eval.go) for the transactions the harness generates -- payments (with optional
   CloseRemainderTo, leases, groups) and state-proof transactions -- in the order the Go code
   performs its checks: group size, WellFormed of every transaction, then per transaction
   Alive, checkDup (group's child cow, evaluator's block, ledger tail), takeFee, Payment /
   StateProof application, MinBalance of the touched accounts, addTx, the block byte budget
   (ErrNoSpace), the group-id consistency checks; finally the group hash and the pooled group
   fee.  Rewards are zero on the harness ledgers (RewardsRate = 0), accounts carry only
   MicroAlgos.  Cryptographic validity of a state proof is not modelled: the harness submits
   real valid proofs, so only the "expected next state-proof round" sequencing decides.
   No proofs in this file. *)
From Coq Require Import NArith List Bool.
Import ListNotations.
From Verif.model Require Import TxPool.
Open Scope N_scope.

(* error classes of the evaluator (continuing TxPool.C_*; tags of ClassifyTxPoolError) *)
Definition C_early : N := 6.        (* TxnDeadError, Early *)
Definition C_toolarge : N := 7.
Definition C_groupid : N := 8.
Definition C_txid : N := 9.         (* TransactionInLedgerError from the ledger tail *)
Definition C_lease : N := 10.       (* LeaseInLedgerError from the ledger tail *)
Definition C_txid_eval : N := 11.   (* ... from the evaluator's own block *)
Definition C_lease_eval : N := 12.
Definition C_notwell : N := 13.
Definition C_minbal : N := 14.
Definition C_overspend : N := 15.
Definition C_eval : N := 16.        (* any other evaluation error *)

(* special addresses: 0 = zero address, 1 = FeeSink = RewardsPool of the test ledgers,
   2 = StateProofSender; ordinary accounts are >= 10 *)
Definition A_sink : N := 1.
Definition A_sp : N := 2.

Record eparams : Type := mkEP {
  ep_minfee : N;      (* MinTxnFee *)
  ep_minbal : N;      (* MinBalance *)
  ep_maxlife : N;     (* MaxTxnLife *)
  ep_maxgroup : N;    (* MaxTxGroupSize *)
  ep_maxbytes : N;    (* MaxTxnBytesPerBlock *)
  ep_spint : N        (* StateProofInterval *)
}.

Record tx : Type := mkTx {
  t_id : N;           (* txid, renamed to a small integer by the harness *)
  t_kind : N;         (* 0 payment, 1 state proof *)
  t_snd : N;
  t_rcv : N;
  t_amt : N;          (* payment amount / state proof: LastAttestedRound *)
  t_fee : N;
  t_fv : N;
  t_lv : N;
  t_lease : N;        (* 0 = no lease *)
  t_close : N;        (* CloseRemainderTo, 0 = none *)
  t_enc : N;          (* SignedTxn.GetEncodedLength() *)
  t_ib : N;           (* encoded length of the SignedTxnInBlock with empty ApplyData *)
  t_gid : N           (* Group: 0 = zero, 1 = the hash of exactly this group, >= 2 = something else *)
}.

Record txrec : Type := mkRec { r_id : N; r_lv : N; r_snd : N; r_lease : N }.

Record cst : Type := mkCst {
  c_round : N;                (* evaluator: round being assembled; ledger: latest round *)
  c_bal : list (N * N);
  c_tail : list txrec;        (* committed transactions *)
  c_blk : list txrec;         (* transactions of the block under construction *)
  c_spnext : N                (* StateProofNextRound *)
}.

Fixpoint bal (m : list (N * N)) (a : N) : N :=
  match m with
  | [] => 0
  | (k, v) :: r => if k =? a then v else bal r a
  end.
Fixpoint setbal (m : list (N * N)) (a v : N) : list (N * N) :=
  match m with
  | [] => [(a, v)]
  | (k, w) :: r => if k =? a then (k, v) :: r else (k, w) :: setbal r a v
  end.
(* roundCowState.Move without rewards; the caller has checked amt <= bal from *)
Definition move (m : list (N * N)) (from to amt : N) : list (N * N) :=
  let m1 := setbal m from (bal m from - amt) in
  setbal m1 to (bal m1 to + amt).

Definition has_id (l : list txrec) (id : N) : bool := existsb (fun r => r_id r =? id) l.
Definition holds_lease (l : list txrec) (round snd lease : N) : bool :=
  existsb (fun r => (r_snd r =? snd) && (r_lease r =? lease) && (round <=? r_lv r)) l.

Definition mp_uint_len (v : N) : N :=
  if v <? 128 then 1 else if v <? 256 then 2 else if v <? 65536 then 3
  else if v <? 4294967296 then 5 else 9.

(* Transaction.WellFormed *)
Definition tx_wf (P : eparams) (t : tx) : bool :=
  (if t_kind t =? 0 then
     negb (t_snd t =? t_close t) && negb (t_snd t =? A_sink)
   else if t_kind t =? 1 then
     negb (ep_spint P =? 0) && (t_snd t =? A_sp) && (t_fee t =? 0) && (t_gid t =? 0) && (t_lease t =? 0)
   else false)
  && (t_fv t <=? t_lv t) && (t_lv t - t_fv t <=? ep_maxlife P) && negb (t_snd t =? 0).

Definition special (a : N) : bool := (a =? A_sink) || (a =? A_sp).
Definition minbal_ok (P : eparams) (m : list (N * N)) (a : N) : bool :=
  special a || (bal m a =? 0) || (ep_minbal P <=? bal m a).

(* state threaded through one group: balances, the group's child cow txids, StateProofNext *)
Definition gst : Type := (list (N * N) * list txrec * N)%type.

(* BlockEvaluator.transaction: new state and the in-block encoded length, or an error class *)
Definition tx_step (P : eparams) (round : N) (tail blk : list txrec) (st : gst) (t : tx) : gst * N + N :=
  let '(m, child, spnext) := st in
  if round <? t_fv t then inr C_early
  else if t_lv t <? round then inr C_dead
  else if has_id child (t_id t) then inr C_txid_eval
  else if negb (t_lease t =? 0) && holds_lease child round (t_snd t) (t_lease t) then inr C_lease_eval
  else if has_id blk (t_id t) then inr C_txid_eval
  else if negb (t_lease t =? 0) && holds_lease blk round (t_snd t) (t_lease t) then inr C_lease_eval
  else if negb (t_lease t =? 0) && holds_lease tail round (t_snd t) (t_lease t) then inr C_lease
  else if has_id tail (t_id t) then inr C_txid
  else if bal m (t_snd t) <? t_fee t then inr C_overspend
  else
    let m1 := move m (t_snd t) A_sink (t_fee t) in
    let rec := mkRec (t_id t) (t_lv t) (t_snd t) (t_lease t) in
    if t_kind t =? 0 then
      if bal m1 (t_snd t) <? t_amt t then inr C_overspend
      else
        let m2 := if (t_amt t =? 0) && (t_rcv t =? 0) then m1 else move m1 (t_snd t) (t_rcv t) (t_amt t) in
        let ca := bal m2 (t_snd t) in
        let m3 := if t_close t =? 0 then m2 else move m2 (t_snd t) (t_close t) ca in
        let ib := if (t_close t =? 0) || (ca =? 0) then t_ib t else t_ib t + 3 + mp_uint_len ca in
        if minbal_ok P m3 (t_snd t) && minbal_ok P m3 (t_rcv t) && minbal_ok P m3 (t_close t)
        then inl ((m3, child ++ [rec], spnext), ib)
        else inr C_minbal
    else
      (* state proof: apply.StateProof *)
      if (spnext =? 0) || negb (spnext =? t_amt t) then inr C_eval
      else inl ((m1, child ++ [rec], t_amt t + ep_spint P), t_ib t).

Inductive lres : Type := LOk (st : gst) (gb : N) | LNoSpace | LErr (code : N).

(* the per-transaction loop of TransactionGroup; b = blockTxBytes, gb = groupTxBytes *)
Fixpoint loop (P : eparams) (round : N) (tail blk : list txrec) (b gid0 len : N)
         (st : gst) (gb : N) (ts : list tx) : lres :=
  match ts with
  | [] => LOk st gb
  | t :: r =>
      match tx_step P round tail blk st t with
      | inr e => LErr e
      | inl (st', ib) =>
          let gb' := gb + ib in
          if ep_maxbytes P <? b + gb' then LNoSpace
          else if negb (t_gid t =? gid0) then LErr C_groupid
          else if (t_gid t =? 0) && (1 <? len) then LErr C_groupid
          else loop P round tail blk b gid0 len st' gb' r
      end
  end.

Definition usage (g : list tx) : N := N.of_nat (length (filter (fun t => negb (t_kind t =? 1)) g)).
Definition fees (g : list tx) : N := fold_right (fun t a => t_fee t + a) 0 g.

Definition eval_group (P : eparams) (c : cst) (b : N) (g : list tx) : eres cst :=
  match g with
  | [] => EOk c b
  | t0 :: _ =>
      let len := N.of_nat (length g) in
      if ep_maxgroup P <? len then EErr C_toolarge
      else if negb (forallb (tx_wf P) g) then EErr C_notwell
      else
        match loop P (c_round c) (c_tail c) (c_blk c) b (t_gid t0) len (c_bal c, [], c_spnext c) 0 g with
        | LErr e => EErr e
        | LNoSpace => ENoSpace
        | LOk (m, child, spnext) gb =>
            if negb (t_gid t0 =? 0) && negb (t_gid t0 =? 1) then EErr C_groupid
            else if fees g <? ep_minfee P * usage g then EErr C_fee
            else EOk (mkCst (c_round c) m (c_tail c) (c_blk c ++ child) spnext) (b + gb)
        end
  end.

(* the ledger: a committed state; StartEvaluator for the next round never fails on the
   harness ledgers *)
Definition lstart (l : cst) : sres cst :=
  SOk (mkCst (c_round l + 1) (c_bal l) (c_tail l) [] (c_spnext l)).

(* appending a block that holds the given groups *)
Fixpoint apply_groups (P : eparams) (c : cst) (gs : list (list tx)) : option cst :=
  match gs with
  | [] => Some c
  | g :: r => match eval_group P c 0 g with
              | EOk c' _ => apply_groups P c' r
              | _ => None
              end
  end.
Definition commit_block (P : eparams) (l : cst) (gs : list (list tx)) : option cst :=
  match lstart l with
  | SOk c0 =>
      match apply_groups P c0 gs with
      | Some c => Some (mkCst (c_round c) (c_bal c) (c_tail c ++ c_blk c) [] (c_spnext c))
      | None => None
      end
  | _ => None
  end.

Definition cseen (c : cst) (id : N) : bool := has_id (c_tail c) id || has_id (c_blk c) id.

(* ---- the pool instantiated with this evaluator ---- *)
Definition t_stpf (t : tx) : bool := t_kind t =? 1.
Definition t_spsnd (t : tx) : bool := t_snd t =? A_sp.

Definition ppool := @pool cst cst tx N.
Definition psys := @sys cst cst tx N.
Definition pop := @op cst tx N.

Definition p_remember (P : eparams) (maxsize expf : N) : ppool -> list tx -> ppool * option N :=
  remember N.eqb (eval_group P) c_round t_id t_lv t_stpf t_spsnd t_fee t_enc maxsize expf.
Definition p_on_new_block (P : eparams) (expf : N) : ppool -> N -> list N -> ppool :=
  on_new_block N.eqb (eval_group P) c_round lstart t_id t_lv expf.
Definition p_step (P : eparams) (maxsize expf : N) : psys -> pop -> psys * option N :=
  step N.eqb (eval_group P) c_round lstart t_id t_lv t_stpf t_spsnd t_fee t_enc maxsize expf.
Definition p_run (P : eparams) (maxsize expf : N) : psys -> list pop -> psys :=
  run N.eqb (eval_group P) c_round lstart t_id t_lv t_stpf t_spsnd t_fee t_enc maxsize expf.
Definition p_init (P : eparams) (l : cst) : psys :=
  init N.eqb (eval_group P) c_round lstart t_id t_lv l (map r_id (c_tail l)).
Definition p_replay (P : eparams) := replay (eval_group P) c_round t_lv.

(* concrete histories: the ledger only ever appends blocks of groups its evaluator accepts *)
Inductive cop : Type :=
| CRemember (g : list tx)
| CBlock (gs : list (list tx))                  (* ledger.AddValidatedBlock *)
| COnNewBlock (bround : N) (committed : list N).

Definition c_step (P : eparams) (maxsize expf : N) (s : psys) (o : cop) : option (psys * option N) :=
  match o with
  | CRemember g => Some (p_step P maxsize expf s (ORemember g))
  | CBlock gs =>
      match commit_block P (p_ledger (s_pool s)) gs with
      | Some l' => Some (p_step P maxsize expf s (OLedger l' (map t_id (concat gs))))
      | None => None
      end
  | COnNewBlock r committed => Some (p_step P maxsize expf s (OOnNewBlock r committed))
  end.

Fixpoint c_run (P : eparams) (maxsize expf : N) (s : psys) (ops : list cop) : option psys :=
  match ops with
  | [] => Some s
  | o :: r => match c_step P maxsize expf s o with
              | Some (s', _) => c_run P maxsize expf s' r
              | None => None
              end
  end.
