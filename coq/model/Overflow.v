(* C45 model: data/basics/overflow.go, fraction.go (Divvy), units.go (Micros.Mul/MulInt).
   Width-parametric transcription: Go's fixed-width unsigned arithmetic is written with
   explicit [mod 2^w].  No proofs in this file. *)
From Coq Require Import NArith ZArith List Bool.
Import ListNotations.
Open Scope N_scope.

Definition M (w : N) : N := 2 ^ w.
Definition maxw (w : N) : N := 2 ^ w - 1.

(* Go: res = a + b (wrapping); overflowed = res < a *)
Definition oadd (w a b : N) : N * bool :=
  let res := (a + b) mod M w in (res, res <? a).

(* Go: res = a - b (wrapping); overflowed = res > a *)
Definition osub (w a b : N) : N * bool :=
  let res := (a + M w - b) mod M w in (res, a <? res).

(* Go: if b == 0 {return 0,false}; c := a*b; if c/b != a {return 0,true}; return c,false *)
Definition omul (w a b : N) : N * bool :=
  if b =? 0 then (0, false)
  else let c := (a * b) mod M w in
       if negb (c / b =? a) then (0, true) else (c, false).

Definition mulsat (w a b : N) : N := let '(r, o) := omul w a b in if o then maxw w else r.
Definition addsat (w a b : N) : N := let '(r, o) := oadd w a b in if o then maxw w else r.
Definition subsat (w a b : N) : N := let '(r, o) := osub w a b in if o then 0 else r.

(* ODiff (uint64 only): result is a signed 64-bit value *)
Definition maxint64 : N := 2 ^ 63 - 1.
Definition odiff (a b : N) : Z * bool :=
  if b <=? a then
    if maxint64 <? a - b then (0%Z, true) else (Z.of_N (a - b), false)
  else
    if maxint64 + 1 <? b - a then (0%Z, true) else ((- Z.of_N (b - a))%Z, false).

(* math/bits primitives (trusted Go standard library semantics) *)
Definition W64 : N := 2 ^ 64.
Definition max64 : N := 2 ^ 64 - 1.
Definition mul64 (a b : N) : N * N := ((a * b) / W64, (a * b) mod W64).
(* bits.Div64 panics when c <= hi; callers below guard it *)
Definition div64 (hi lo c : N) : N * N := ((hi * W64 + lo) / c, (hi * W64 + lo) mod c).

Definition muldiv (a b c : N) : N * N * bool :=
  let '(hi, lo) := mul64 a b in
  if c <=? hi then (0, 0, true)
  else let '(q, r) := div64 hi lo c in (q, r, false).

Definition Muldiv (a b c : N) : N * bool :=
  let '(q, _, o) := muldiv a b c in (q, o).

Definition mul2div (a b c d : N) : N * N * bool :=
  let '(X, Y) := mul64 a b in
  let '(J, K) := mul64 Y c in
  let '(L, Mm) := mul64 X c in
  if 0 <? L then (max64, 0, true)
  else let jm := addsat 64 J Mm in
       if d <=? jm then (max64, 0, true)
       else let '(q, r) := div64 jm K d in (q, r, false).

Definition mulMicros (base m : N) : N * bool :=
  let '(r, o) := Muldiv base m 1000000 in ((if o then max64 else r), o).

Definition feeResidueScale : N := 1000000000000.

(* result: fee, newResidue, overflow *)
Definition feeForUsage (base usage mult residue : N) : N * N * bool :=
  let '(quo, rem, o) := mul2div base usage mult feeResidueScale in
  if o then (max64, residue, true)
  else if (quo =? max64) && (residue <? rem) then (quo, residue, true)
  else if rem =? 0 then (quo, residue, false)
  else if rem <=? residue then (quo, residue - rem, false)
  else (quo + 1, feeResidueScale - (rem - residue), false).

(* DivCeil on an unsigned w-bit type: (n + d - 1) / d with wrapping; d = 0 panics in Go *)
Definition divceil (w n d : N) : option N :=
  if d =? 0 then None else Some (((n + d + M w - 1) mod M w) / d).

(* Fraction.Divvy: None = panic("overflow") (also taken when Denominator = 0, because
   muldiv reports overflow for c = 0) *)
Definition divvy (num den q : N) : option (N * N) :=
  let '(first, o) := Muldiv q num den in
  if o then None else Some (first, (q + W64 - first) mod W64).

Definition microsMul (m m2 : N) : N * bool :=
  let '(r, o) := Muldiv m m2 1000000 in ((if o then max64 else r), o).

(* MulInt: [i] is a Go int (64-bit signed) *)
Definition microsMulInt (m : N) (i : Z) : N * bool :=
  if (i <? 0)%Z then (0, true)
  else let '(r, o) := omul 64 m (Z.to_N i) in ((if o then max64 else r), o).
