(* SHA-512/256 (FIPS 180-4) as an executable Gallina function over byte lists ([list N]).
   Used ONLY to instantiate the abstract hash [H] of model/MerkleTrie.v when the model is
   run against the implementation (crypto.Hash = sha512.Sum512_256); every theorem of C17
   is stated for an arbitrary [H].  Transcribed from Go's crypto/internal/fips140/sha512
   (blockGeneric); the round constants / IV below were copied from that source by a script.
   No proofs. *)
From Coq Require Import List NArith.
Import ListNotations.
Open Scope N_scope.

Definition mask64 : N := 18446744073709551615.
Definition add64 (a b : N) : N := N.land (a + b) mask64.
Definition rotr (x n : N) : N := N.lor (N.shiftr x n) (N.land (N.shiftl x (64 - n)) mask64).

Definition sha512_K : list N := [
  4794697086780616226; 8158064640168781261; 13096744586834688815; 16840607885511220156;
  4131703408338449720; 6480981068601479193; 10538285296894168987; 12329834152419229976;
  15566598209576043074; 1334009975649890238; 2608012711638119052; 6128411473006802146;
  8268148722764581231; 9286055187155687089; 11230858885718282805; 13951009754708518548;
  16472876342353939154; 17275323862435702243; 1135362057144423861; 2597628984639134821;
  3308224258029322869; 5365058923640841347; 6679025012923562964; 8573033837759648693;
  10970295158949994411; 12119686244451234320; 12683024718118986047; 13788192230050041572;
  14330467153632333762; 15395433587784984357; 489312712824947311; 1452737877330783856;
  2861767655752347644; 3322285676063803686; 5560940570517711597; 5996557281743188959;
  7280758554555802590; 8532644243296465576; 9350256976987008742; 10552545826968843579;
  11727347734174303076; 12113106623233404929; 14000437183269869457; 14369950271660146224;
  15101387698204529176; 15463397548674623760; 17586052441742319658; 1182934255886127544;
  1847814050463011016; 2177327727835720531; 2830643537854262169; 3796741975233480872;
  4115178125766777443; 5681478168544905931; 6601373596472566643; 7507060721942968483;
  8399075790359081724; 8693463985226723168; 9568029438360202098; 10144078919501101548;
  10430055236837252648; 11840083180663258601; 13761210420658862357; 14299343276471374635;
  14566680578165727644; 15097957966210449927; 16922976911328602910; 17689382322260857208;
  500013540394364858; 748580250866718886; 1242879168328830382; 1977374033974150939;
  2944078676154940804; 3659926193048069267; 4368137639120453308; 4836135668995329356;
  5532061633213252278; 6448918945643986474; 6902733635092675308; 7801388544844847127].

Definition sha512_256_IV : list N := [
  2463787394917988140; 11481187982095705282; 2563595384472711505; 10824532655140301501;
  10819967247969091555; 13717434660681038226; 3098927326965381290; 1060366662362279074].

(* one big-endian 64-bit word from the first 8 bytes of [l] *)
Fixpoint be_word (n : nat) (acc : N) (l : list N) : N * list N :=
  match n with
  | O => (acc, l)
  | S n' => match l with
            | [] => be_word n' (acc * 256) []
            | b :: l' => be_word n' (acc * 256 + b) l'
            end
  end.

Fixpoint be_words (n : nat) (l : list N) : list N * list N :=
  match n with
  | O => ([], l)
  | S n' => let '(w, l1) := be_word 8 0 l in
            let '(ws, l2) := be_words n' l1 in (w :: ws, l2)
  end.

Definition ssig0 (x : N) : N := N.lxor (N.lxor (rotr x 1) (rotr x 8)) (N.shiftr x 7).
Definition ssig1 (x : N) : N := N.lxor (N.lxor (rotr x 19) (rotr x 61)) (N.shiftr x 6).
Definition bsig0 (x : N) : N := N.lxor (N.lxor (rotr x 28) (rotr x 34)) (rotr x 39).
Definition bsig1 (x : N) : N := N.lxor (N.lxor (rotr x 14) (rotr x 18)) (rotr x 41).

(* message schedule: [win] holds w[i-1], w[i-2], ..., w[i-16]; returns w[16..16+n) *)
Fixpoint schedule (n : nat) (win : list N) : list N :=
  match n with
  | O => []
  | S n' =>
      let w := add64 (add64 (add64 (ssig1 (nth 1 win 0)) (nth 6 win 0)) (ssig0 (nth 14 win 0))) (nth 15 win 0) in
      w :: schedule n' (w :: firstn 15 win)
  end.

Record regs := { ra : N; rb : N; rc : N; rd : N; re : N; rf : N; rg : N; rh : N }.

Definition round (r : regs) (kw : N * N) : regs :=
  let '(k, w) := kw in
  let e := re r in let a := ra r in
  let t1 := add64 (add64 (add64 (add64 (rh r) (bsig1 e)) (N.lxor (N.land e (rf r)) (N.ldiff (rg r) e))) k) w in
  let t2 := add64 (bsig0 a) (N.lxor (N.lxor (N.land a (rb r)) (N.land a (rc r))) (N.land (rb r) (rc r))) in
  {| ra := add64 t1 t2; rb := a; rc := rb r; rd := rc r; re := add64 (rd r) t1; rf := e; rg := rf r; rh := rg r |}.

Definition block (h : regs) (w16 : list N) : regs :=
  let ws := w16 ++ schedule 64 (rev w16) in
  let r := fold_left round (combine sha512_K ws) h in
  {| ra := add64 (ra h) (ra r); rb := add64 (rb h) (rb r); rc := add64 (rc h) (rc r); rd := add64 (rd h) (rd r);
     re := add64 (re h) (re r); rf := add64 (rf h) (rf r); rg := add64 (rg h) (rg r); rh := add64 (rh h) (rh r) |}.

Fixpoint blocks (fuel : nat) (h : regs) (l : list N) : regs :=
  match fuel with
  | O => h
  | S f => match l with
           | [] => h
           | _ => let '(ws, rest) := be_words 16 l in blocks f (block h ws) rest
           end
  end.

Fixpoint be_bytes (n : nat) (x : N) (acc : list N) : list N :=
  match n with
  | O => acc
  | S n' => be_bytes n' (N.shiftr x 8) (N.land x 255 :: acc)
  end.

(* padding: 0x80, zeros up to 112 mod 128, 16-byte big-endian bit length *)
Definition sha_pad (msg : list N) : list N :=
  let len := N.of_nat (length msg) in
  let r := (len + 1) mod 128 in
  let z := if r <=? 112 then 112 - r else 240 - r in
  msg ++ [128] ++ repeat 0 (N.to_nat z) ++ be_bytes 16 (len * 8) [].

Definition sha512_256 (msg : list N) : list N :=
  let p := sha_pad msg in
  let h0 := match sha512_256_IV with
            | [a; b; c; d; e; f; g; h] => {| ra := a; rb := b; rc := c; rd := d; re := e; rf := f; rg := g; rh := h |}
            | _ => {| ra := 0; rb := 0; rc := 0; rd := 0; re := 0; rf := 0; rg := 0; rh := 0 |}
            end in
  let r := blocks (S (length p)) h0 p in
  be_bytes 8 (ra r) [] ++ be_bytes 8 (rb r) [] ++ be_bytes 8 (rc r) [] ++ be_bytes 8 (rd r) [].
