(* C15 model, part 2: the "hash round" memo that decides whether the persisted balances trie is
   adopted or rebuilt when a node starts (ledger/catchpointtracker.go):

     commitRound        treeTargetRound := 0; if catchpointEnabled() { ...; treeTargetRound = dbRound+offset };
                        accountsUpdateBalances (returns at once when tracking is disabled);
                        UpdateAccountsHashRound(treeTargetRound)
     initializeHashes   hashRound != dbRound  => ResetAccountHashes (trie := empty), done if tracking is disabled;
                        trie root zero        => rebuild the trie from the account tables, hashRound := dbRound;
                        otherwise the persisted trie is adopted as it is.

   The account tables [T], the trie content [S] and the compacted deltas [D] are abstract:
   [leaves t] is the set of leaves of the entries of [t] (model/CatchpointHash.v: leaves_of),
   [apply_trie s t d] is accountsUpdateBalances (delete old / add new leaf per compacted delta; the
   delta carries the old values, hence the old table).  No proofs in this file. *)
From Coq Require Import List NArith Bool.
Import ListNotations.
Open Scope N_scope.

Section Memo.
  Variables T S D : Type.
  Variable leaves : T -> S.
  Variable empty : S.
  Variable is_empty : S -> bool.            (* RootHash().IsZero() *)
  Variable apply_tab : T -> D -> T.         (* accountsNewRound *)
  Variable apply_trie : S -> T -> D -> S.   (* accountsUpdateBalances *)

  Record mstate := { m_db : N; m_hash : N; m_tab : T; m_trie : S; m_on : bool }.

  (* a node start with catchpoint tracking on/off; one tracker commit of k >= 1 rounds *)
  Inductive mop := Restart (on : bool) | Commit (k : positive) (d : D).

  (* initializeHashes *)
  Definition init_hashes (on : bool) (s : mstate) : mstate :=
    let insync := m_hash s =? m_db s in
    let trie1 := if insync then m_trie s else empty in
    if negb insync && negb on
    then {| m_db := m_db s; m_hash := m_hash s; m_tab := m_tab s; m_trie := trie1; m_on := on |}
    else if is_empty trie1
    then {| m_db := m_db s; m_hash := m_db s; m_tab := m_tab s; m_trie := leaves (m_tab s); m_on := on |}
    else {| m_db := m_db s; m_hash := m_hash s; m_tab := m_tab s; m_trie := trie1; m_on := on |}.

  (* commitRound (+ the accounts commit of the same transaction).  [keep_memo] = false is the
     code as it is; true is the variant that advances the hash round although the trie was not
     touched (used only to show that the reset is what the theorem rests on). *)
  Definition commit_gen (keep_memo : bool) (k : positive) (d : D) (s : mstate) : mstate :=
    let db' := m_db s + Npos k in
    {| m_db := db';
       m_hash := if m_on s || keep_memo then db' else 0;
       m_tab := apply_tab (m_tab s) d;
       m_trie := if m_on s then apply_trie (m_trie s) (m_tab s) d else m_trie s;
       m_on := m_on s |}.

  Definition mstep_gen (keep_memo : bool) (s : mstate) (o : mop) : mstate :=
    match o with
    | Restart on => init_hashes on s
    | Commit k d => commit_gen keep_memo k d s
    end.

  Definition mstep := mstep_gen false.
  Definition mrun (ops : list mop) (s : mstate) : mstate := fold_left mstep ops s.

  (* a freshly created tracker database *)
  Definition mfresh (genesis : T) : mstate :=
    {| m_db := 0; m_hash := 0; m_tab := genesis; m_trie := empty; m_on := false |}.
End Memo.

Arguments Restart {D}.
Arguments Commit {D}.
Arguments m_db {T S}. Arguments m_hash {T S}. Arguments m_tab {T S}. Arguments m_trie {T S}. Arguments m_on {T S}.

(* ---- executable instance used by the checker: the table is a version counter (every commit
   of the harness changes some account), the trie is empty / exactly the leaves of version v /
   something else ---- *)
Inductive tstat := TEmpty | TOf (v : N) | TStale.

Definition x_leaves (v : N) : tstat := TOf v.
Definition x_is_empty (s : tstat) : bool := match s with TEmpty => true | _ => false end.
Definition x_apply_tab (v : N) (_ : unit) : N := v + 1.
Definition x_apply_trie (s : tstat) (v : N) (_ : unit) : tstat :=
  match s with TOf v' => if v' =? v then TOf (v + 1) else TStale | _ => TStale end.

Definition x_state := mstate N tstat.
Definition x_step (keep : bool) : x_state -> mop unit -> x_state :=
  mstep_gen N tstat unit x_leaves TEmpty x_is_empty x_apply_tab x_apply_trie keep.
Definition x_fresh : x_state := mfresh N tstat TEmpty 0.
Definition x_current (s : x_state) : bool :=
  match m_trie s with TOf v => v =? m_tab s | _ => false end.
