(* Finite maps as association lists (shared by the C22 asset model and the C23 application
   storage model).  [aset] replaces the first binding of the key in place (or appends),
   [adel] removes the first binding, [aget] returns the first binding; on lists without
   duplicate keys these are the usual map operations (proofs/AssocListProofs.v).
   No proofs in this file. *)
From Coq Require Import NArith List Bool.
Import ListNotations.
Open Scope N_scope.

Section AL.
  Context {K V : Type}.
  Variable eqb : K -> K -> bool.

  Fixpoint aget (k : K) (m : list (K * V)) : option V :=
    match m with
    | [] => None
    | (k', v) :: m' => if eqb k k' then Some v else aget k m'
    end.

  Fixpoint aset (k : K) (v : V) (m : list (K * V)) : list (K * V) :=
    match m with
    | [] => [(k, v)]
    | (k', v') :: m' => if eqb k k' then (k, v) :: m' else (k', v') :: aset k v m'
    end.

  Fixpoint adel (k : K) (m : list (K * V)) : list (K * V) :=
    match m with
    | [] => []
    | (k', v') :: m' => if eqb k k' then m' else (k', v') :: adel k m'
    end.

  Definition ahas (k : K) (m : list (K * V)) : bool :=
    match aget k m with Some _ => true | None => false end.

  (* weighted sum over all bindings *)
  Fixpoint asum (f : K -> V -> N) (m : list (K * V)) : N :=
    match m with
    | [] => 0
    | (k, v) :: m' => f k v + asum f m'
    end.

  (* no key bound twice (executable) *)
  Fixpoint anodup (m : list (K * V)) : bool :=
    match m with
    | [] => true
    | (k, _) :: m' => negb (ahas k m') && anodup m'
    end.

  (* m1 and m2 are equal as maps, given that both are duplicate free:
     same length and every binding of m1 is found in m2 *)
  Definition asub (veqb : V -> V -> bool) (m1 m2 : list (K * V)) : bool :=
    forallb (fun kv => match aget (fst kv) m2 with
                       | Some v => veqb (snd kv) v
                       | None => false
                       end) m1.
  Definition aequiv (veqb : V -> V -> bool) (m1 m2 : list (K * V)) : bool :=
    Nat.eqb (length m1) (length m2) && asub veqb m1 m2 && asub veqb m2 m1.
End AL.

Definition pair_eqb (x y : N * N) : bool := (fst x =? fst y) && (snd x =? snd y).
