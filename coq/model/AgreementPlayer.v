(* Agreement model -- part 4: rootRouter (update / garbage collection / dispatch),
   voteAggregator.handle, proposalManager.handle, player.handle and submitTop.
   Transcribes router.go, voteAggregator.go, proposalManager.go (+ proposalManagerContract.go),
   player.go.  No proofs.

   INTERFACE:   init : params -> N -> state
                step : params -> state -> ext_event -> res (state * list action)
   [step] is rootRouter.submitTop; [fuel] bounds the recursion player.handle -> enterRound ->
   player.handle (pipelined threshold of the next round) and handle -> handle (tail / threshold
   of a message); [OutOfFuel] is a distinguished result (never observed: the harness counts). *)
From Coq Require Import NArith List Bool String.
Import ListNotations.
From Verif.model Require Import AgreementTypes AgreementVotes AgreementProposals.
Open Scope N_scope.

(* ---------- rootRouter.update(state, r, gc=true) ---------- *)
Definition root_update (pm : params) (pl : player) (r : N) (rt : router) : router :=
  let rt1 := if ahas N.eqb r rt then rt else aset N.eqb r rn_zero rt in
  filter (fun kv => p_rnd pl <=? w64 (fst kv + pm_crlag pm)) rt1.

(* dispatch to a destination below the root for round r, period p:
   rootRouter.update(state,r); Children[r] (nil => runtime panic); roundRouter.update(state,p) *)
Definition with_round {A} (pm : params) (pl : player) (r p : N) (rt : router)
           (f : roundNode -> res (roundNode * A)) : res (router * A) :=
  let rt1 := root_update pm pl r rt in
  match aget N.eqb r rt1 with
  | None => Panic "nil_router"
  | Some rn =>
      do x <- f (rn_update pl p rn);
      let '(rn', a) := x in Ok (aset N.eqb r rn' rt1, a)
  end.

(* ---------- typed dispatches issued by the player ---------- *)
(* stagedValue(p, r, rnd, per) *)
Definition d_staged (pm : params) (pl : player) (rt : router) (r p : N) : res (router * (value * bool)) :=
  with_round pm pl r p rt (fun rn => rn_read_staging pl p rn).
(* pinnedValue(p, r, rnd) *)
Definition d_pinned (pm : params) (pl : player) (rt : router) (r : N) : res (router * (value * bool)) :=
  with_round pm pl r 0 rt (fun rn => Ok (rn, rn_store_read_pinned rn)).
(* nextThresholdStatusRequest -> voteMachinePeriod (r, p, 0) *)
Definition d_next_status (pm : params) (pl : player) (rt : router) (r p : N) : res (router * vperiod) :=
  with_round pm pl r p rt (fun rn => with_period pl p 0 rn (fun pn => Ok (pn, pn_vp pn))).
(* freshestBundleRequest -> voteMachineRound (r, 0, 0) *)
Definition d_freshest (pm : params) (pl : player) (rt : router) (r : N) : res (router * option thresh) :=
  with_round pm pl r 0 rt (fun rn => Ok (rn, rn_fresh rn)).
(* dumpVotesRequest -> voteMachineStep (r, p, s) *)
Definition d_dump (pm : params) (pl : player) (rt : router) (r p s : N) : res (router * list vote) :=
  with_round pm pl r p rt (fun rn => with_period pl p s rn (fun pn => Ok (pn, vt_dump (pn_step s pn)))).
(* proposalFrozenEvent -> proposalMachinePeriod (r, p, 0) *)
Definition d_freeze (pm : params) (pl : player) (rt : router) (r p : N) : res (router * value) :=
  with_round pm pl r p rt (fun rn => with_period pl p 0 rn (pn_pt_op pt_checked_freeze)).
(* readLowestEvent -> proposalMachineRound (r, 0, 0) (updateCredentialArrivalHistory) *)
Definition d_read_lowest (pm : params) (pl : player) (rt : router) (r : N) : res router :=
  do x <- with_round pm pl r 0 rt (fun rn => do rn' <- rn_store_read_lowest pl rn 0; Ok (rn', tt));
  Ok (fst x).

(* ---------- voteAggregator ---------- *)
Inductive vares :=
| VANone
| VAFiltered
| VAMalformed
| VAThreshold (th : thresh).

(* filterVote: true = fresh and not a duplicate *)
Definition va_filter_vote (pm : params) (pl : player) (rt : router) (x : vote) : res (router * bool) :=
  if negb (vote_fresh (fresh_of pl) x) then Ok (rt, false)
  else
    do r <- with_round pm pl (vt_rnd x) (vt_per x) rt
              (fun rn => with_period pl (vt_per x) (vt_step x) rn
                 (fun pn => Ok (pn, vt_filter (pn_step (vt_step x) pn) x)));
    let '(rt1, dup) := r in Ok (rt1, negb dup).

(* deliver voteAcceptedEvent -> voteMachineRound (v.Round, v.Period, v.Step) *)
Definition va_deliver (pm : params) (pl : player) (rt : router) (x : vote) : res (router * option thresh) :=
  with_round pm pl (vt_rnd x) (vt_per x) rt (fun rn => rn_vote_accepted pm pl rn x).

Fixpoint va_deliver_all (pm : params) (pl : player) (rt : router) (vs : list vote) (acc : option thresh)
  : res (router * option thresh) :=
  match vs with
  | [] => Ok (rt, acc)
  | x :: vs' =>
      do r <- va_deliver pm pl rt x;
      let '(rt1, oth) := r in
      va_deliver_all pm pl rt1 vs' (match oth with Some th => Some th | None => acc end)
  end.

(* voteAggregator.handle (checkedListener: the stateless contract cannot fail except for a
   delivered voteAccepted with step propose, which the aggregator never receives) *)
Definition va_handle (pm : params) (pl : player) (rt : router) (m : mevent) : res (router * vares) :=
  let mt := me_meta m in
  (* rootRouter.dispatch: update(state, 0, true) *)
  let rt := root_update pm pl 0 rt in
  match me_in m, me_verified m with
  | InVote x, false =>
      if mm_proto_err mt then Ok (rt, VAFiltered)
      else do r <- va_filter_vote pm pl rt x;
           let '(rt1, ok) := r in Ok (rt1, if ok then VANone else VAFiltered)
  | InVote x, true =>
      if mm_cancelled mt then Ok (rt, VAFiltered)
      else if mm_proto_err mt then Ok (rt, VAFiltered)
      else if mm_err mt then Ok (rt, VAMalformed)
      else
        do r <- va_filter_vote pm pl rt x;
        let '(rt1, ok) := r in
        if negb ok then Ok (rt1, VAFiltered)
        else
          do r2 <- va_deliver pm pl rt1 x;
          let '(rt2, oth) := r2 in
          match oth with
          | None => Ok (rt2, VANone)
          | Some th =>
              if th_rnd th =? p_rnd pl then Ok (rt2, VAThreshold th)
              else if th_rnd th =? add1 (p_rnd pl) then Ok (rt2, VANone)
              else Panic "voteAggregator_bad_round"
          end
  | InBundle b, false =>
      Ok (rt, if bundle_fresh (fresh_of pl) b then VANone else VAFiltered)
  | InBundle b, true =>
      if mm_cancelled mt then Ok (rt, VAFiltered)
      else if mm_proto_err mt then Ok (rt, VAFiltered)
      else if mm_err mt then Ok (rt, VAMalformed)
      else if negb (bundle_fresh (fresh_of pl) b) then Ok (rt, VAFiltered)
      else
        let votes := ub_votes b ++ flat_map (fun e => [eqv_first e; eqv_second e]) (ub_eqs b) in
        do r <- va_deliver_all pm pl rt votes None;
        let '(rt1, oth) := r in
        match oth with
        | Some th => Ok (rt1, VAThreshold th)
        | None => Ok (rt1, VAFiltered)
        end
  | InPayload _, _ => Panic "voteAggregator_bad_event"
  end.

(* ---------- proposalManager ---------- *)
(* proposalFresh: true = fresh *)
Definition proposal_fresh (fd : fresh) (x : vote) : bool :=
  if vt_rnd x =? f_rnd fd then
    if negb (f_per fd =? 0) && (vt_per x <? f_per fd - 1) then false
    else if add1 (f_per fd) <? vt_per x then false
    else true
  else if vt_rnd x =? add1 (f_rnd fd) then
    if negb (vt_per x =? 0) then false else true
  else false.

Definition useful_for_cred_history (pm : params) (cur : N) (x : vote) : bool :=
  (vt_rnd x <? cur) && (cur <=? w64 (vt_rnd x + pm_crlag pm)) && (vt_per x =? 0) && (vt_step x =? s_propose).

(* checkDup: voteFilterRequest -> proposalMachinePeriod (v.Round, v.Period, 0) *)
Definition pm_check_dup (pm : params) (pl : player) (rt : router) (x : vote) : res (router * bool) :=
  with_round pm pl (vt_rnd x) (vt_per x) rt
    (fun rn => with_period pl (vt_per x) 0 rn (fun pn => Ok (pn, pt_filter (pn_pt pn) x))).

(* filterProposalVote: (verifyForCredHistory, fresh-and-new) *)
Definition pm_filter_vote (pm : params) (pl : player) (rt : router) (x : vote) : res (router * (bool * bool)) :=
  let cred := useful_for_cred_history pm (p_rnd pl) x in
  if negb (proposal_fresh (fresh_of pl) x) then
    if cred then
      do r <- pm_check_dup pm pl rt x;
      let '(rt1, dup) := r in Ok (rt1, (negb dup, false))
    else Ok (rt, (false, false))
  else
    do r <- pm_check_dup pm pl rt x;
    let '(rt1, dup) := r in Ok (rt1, (cred, negb dup)).

(* proposalManagerContract.pre for threshold events (player snapshot pl) *)
Definition pm_pre_threshold (pl : player) (th : thresh) : res unit :=
  if negb (p_rnd pl =? th_rnd th) then Panic "proposalManager_pre_round"
  else if negb (tkind_eqb (th_t th) TCert) && (th_per th <? p_per pl) then Panic "proposalManager_pre_stale"
  else if tkind_eqb (th_t th) TSoft && is_bottom (th_val th) then Panic "proposalManager_pre_soft_bottom"
  else Ok tt.

(* handleNewPeriod: newPeriodEvent -> proposalMachineRound (e.Round, 0, 0) *)
Definition pm_new_period (pm : params) (pl : player) (rt : router) (th : thresh) : res router :=
  let target := match th_t th with TNext => add1 (th_per th) | _ => th_per th end in
  do r <- with_round pm pl (th_rnd th) 0 rt
            (fun rn => do rn' <- rn_store_new_period pl rn target (th_val th); Ok (rn', tt));
  Ok (fst r).

(* proposalManager.handle(thresholdEvent): Some = soft/cert result, None = emptyEvent (next) *)
Definition pm_threshold (pm : params) (pl : player) (rt : router) (r0 : N) (th : thresh) : res (router * option thres) :=
  let rt := root_update pm pl r0 rt in          (* the player dispatches with (0,0,0) or (Round,Period,0) *)
  do _ <- pm_pre_threshold pl th;
  match th_t th with
  | TNext =>
      do rt1 <- pm_new_period pm pl rt th; Ok (rt1, None)
  | _ =>
      do rt1 <- (if p_per pl <? th_per th then pm_new_period pm pl rt th else Ok rt);
      do r <- with_round pm pl (th_rnd th) (th_per th) rt1 (fun rn => rn_store_threshold pl rn th);
      let '(rt2, out) := r in Ok (rt2, Some out)
  end.

(* proposalManager.handle(roundInterruption): handleNewRound; the player dispatches with (target,0,0) *)
Definition pm_new_round (pm : params) (pl : player) (rt : router) (target : N) : res (router * plres) :=
  let rt := root_update pm pl target rt in
  with_round pm pl target 0 rt (fun rn => do out <- rn_store_new_round pl rn; Ok (rn, out)).

(* proposalManager.handleMessageEvent for proposal-votes *)
Definition pm_vote (pm : params) (pl : player) (rt : router) (m : mevent) (x : vote) : res (router * pvres) :=
  let mt := me_meta m in
  let rt := root_update pm pl 0 rt in
  if negb (me_verified m) then
    do r <- pm_filter_vote pm pl rt x;
    let '(rt1, (forcred, ok)) := r in
    if ok then Ok (rt1, PVNone)
    else Ok (rt1, PVFiltered (if forcred then note_unverified else note_none))
  else
    if mm_cancelled mt then Ok (rt, PVFiltered note_none)
    else if mm_err mt then Ok (rt, PVMalformed)
    else
      let fresh := proposal_fresh (fresh_of pl) x in
      let keep := negb fresh && useful_for_cred_history pm (p_rnd pl) x in
      if negb fresh && negb keep then Ok (rt, PVFiltered note_none)
      else
        do r <- with_round pm pl (vt_rnd x) (vt_per x) rt (fun rn => rn_store_vote pl rn x);
        let '(rt1, ev) := r in
        if keep then
          match ev with
          | PVFiltered note =>
              Ok (rt1, PVFiltered (if (note =? note_better) || (note =? note_none) then note else note_none))
          | _ => Ok (rt1, PVFiltered note_better)
          end
        else Ok (rt1, ev).

(* proposalManager.handleMessageEvent for payloads *)
Definition pm_payload (pm : params) (pl : player) (rt : router) (m : mevent) (pv : value) : res (router * plres) :=
  let mt := me_meta m in
  let rt := root_update pm pl 0 rt in
  if negb (me_verified m) then
    if p_rnd pl =? v_rnd pv then
      do r <- with_round pm pl (p_rnd pl) (p_per pl) rt
                (fun rn => let '(rn', out) := rn_store_payload_present pl rn pv in Ok (rn', out));
      let '(rt1, out) := r in
      match out with
      | PLPipelined _ per pinned prop auth => Ok (rt1, PLPipelined (p_rnd pl) per pinned prop auth)
      | _ => Ok (rt1, out)
      end
    else
      do r <- with_round pm pl (add1 (p_rnd pl)) 0 rt
                (fun rn => let '(rn', out) := rn_store_payload_present pl rn pv in Ok (rn', out));
      let '(rt1, out) := r in
      match out with
      | PLPipelined _ per pinned prop auth => Ok (rt1, PLPipelined (add1 (p_rnd pl)) per pinned prop auth)
      | _ => Ok (rt1, out)
      end
  else
    if mm_cancelled mt then Ok (rt, PLRejected)
    else if mm_err mt then Ok (rt, PLMalformed)
    else with_round pm pl (p_rnd pl) (p_per pl) rt (fun rn => rn_store_payload_verified pl rn pv).

(* ---------- player ---------- *)
Definition set_deadline (pl : player) (d t : N) : player :=
  mkPlayer (p_rnd pl) (p_per pl) (p_step pl) (p_last pl) d t (p_nap pl) (p_frd pl) (p_pending pl) (p_pnext pl).
Definition set_step (pl : player) (s : N) : player :=
  mkPlayer (p_rnd pl) (p_per pl) s (p_last pl) (p_dl pl) (p_dlt pl) (p_nap pl) (p_frd pl) (p_pending pl) (p_pnext pl).
Definition set_nap (pl : player) (b : bool) : player :=
  mkPlayer (p_rnd pl) (p_per pl) (p_step pl) (p_last pl) (p_dl pl) (p_dlt pl) b (p_frd pl) (p_pending pl) (p_pnext pl).
Definition set_frd (pl : player) (d : N) : player :=
  mkPlayer (p_rnd pl) (p_per pl) (p_step pl) (p_last pl) (p_dl pl) (p_dlt pl) (p_nap pl) d (p_pending pl) (p_pnext pl).
Definition set_pending (pl : player) (pd : list (N * option (value * mmeta))) (nx : N) : player :=
  mkPlayer (p_rnd pl) (p_per pl) (p_step pl) (p_last pl) (p_dl pl) (p_dlt pl) (p_nap pl) (p_frd pl) pd nx.

Definition filter_timeout (pm : params) (per : N) : N := if per =? 0 then pm_filter0 pm else pm_filter pm.
Definition deadline_timeout (pm : params) (per : N) : N := if per =? 0 then pm_deadline0 pm else pm_deadline pm.

(* step.nextVoteRanges: for i := next; i < s; i++ { extra *= 2; lower = upper; upper = lower + extra } *)
Fixpoint nvr_loop (n : nat) (extra lower upper : N) : N * N :=
  match n with
  | O => (lower, upper)
  | S n' => nvr_loop n' (2 * extra) upper (upper + 2 * extra)
  end.
Definition next_vote_ranges (pm : params) (s : N) (deadline : N) : N * N :=
  nvr_loop (N.to_nat (s - s_next)) (pm_extra pm) deadline (deadline + pm_extra pm).

Definition partitioned (pl : player) : bool := (partition_step <=? p_step pl) || (3 <=? p_per pl).

(* partitionPolicy *)
Definition partition_policy (pm : params) (pl : player) (rt : router) : res (router * list action) :=
  if negb (partitioned pl) then Ok (rt, [])
  else
    do r <- d_freshest pm pl rt (p_rnd pl);
    let '(rt1, fr) := r in
    let acts0 := match fr with Some th => [ABroadcastBundle (th_b th)] | None => [] end in
    let go := match fr with
              | Some th => if negb (is_bottom (ub_val (th_b th)))
                           then Some (ub_rnd (th_b th), ub_per (th_b th))
                           else if p_per pl =? 0 then Some (p_rnd pl, p_per pl) else None
              | None => if p_per pl =? 0 then Some (p_rnd pl, p_per pl) else None
              end in
    match go with
    | None => Ok (rt1, acts0)
    | Some (br, bp) =>
        do r2 <- d_staged pm pl rt1 br bp;
        let '(rt2, (sv, committable)) := r2 in
        if committable then Ok (rt2, acts0 ++ [ABroadcastCompound sv None])
        else
          do r3 <- d_pinned pm pl rt2 br;
          let '(rt3, (pv, ok)) := r3 in
          if ok then Ok (rt3, acts0 ++ [ABroadcastCompound pv None]) else Ok (rt3, acts0)
    end.

(* issueSoftVote (Deadline set by the deferred function on every return path) *)
Definition issue_soft_vote (pm : params) (pl : player) (rt : router) (deadline : N)
  : res (player * router * list action) :=
  do r <- d_freeze pm pl rt (p_rnd pl) (p_per pl);
  let '(rt1, frozen) := r in
  do r2 <- d_next_status pm pl rt1 (p_rnd pl) (sub1 (p_per pl));
  let '(rt2, ns) := r2 in
  let pl' := set_deadline pl deadline dl_deadline in
  let att v := AAttest (p_rnd pl) (p_per pl) s_soft v in
  if (0 <? p_per pl) && negb (vp_bottom ns) && negb (is_bottom (vp_val ns)) then Ok (pl', rt2, [att (vp_val ns)])
  else if is_bottom frozen then Ok (pl', rt2, [])
  else if v_oper frozen <? p_per pl then
    if negb (is_bottom (vp_val ns)) && value_eqb (vp_val ns) frozen then Ok (pl', rt2, [att frozen])
    else Ok (pl', rt2, [])
  else Ok (pl', rt2, [att frozen]).

(* issueNextVote *)
Definition issue_next_vote (pm : params) (pl : player) (rt : router) (deadline : N)
  : res (player * router * list action) :=
  do r <- partition_policy pm pl rt;
  let '(rt1, acts) := r in
  do r2 <- d_staged pm pl rt1 (p_rnd pl) (p_per pl);
  let '(rt2, (sv, committable)) := r2 in
  do r3 <- (if committable then Ok (rt2, sv)
            else do r4 <- d_next_status pm pl rt2 (p_rnd pl) (sub1 (p_per pl));
                 let '(rt3, ns) := r4 in
                 Ok (rt3, if negb (vp_bottom ns) then vp_val ns else bottom));
  let '(rt4, prop) := r3 in
  let '(_, upper) := next_vote_ranges pm (p_step pl) deadline in
  let pl' := set_deadline (set_nap pl false) upper dl_deadline in
  Ok (pl', rt4, acts ++ [AAttest (p_rnd pl) (p_per pl) (p_step pl) prop]).

(* issueFastVote *)
Definition issue_fast_vote (pm : params) (pl : player) (rt : router) : res (router * list action) :=
  do r <- partition_policy pm pl rt;
  let '(rt1, acts) := r in
  do l <- d_dump pm pl rt1 (p_rnd pl) (p_per pl) s_late; let '(rt2, elate) := l in
  do l2 <- d_dump pm pl rt2 (p_rnd pl) (p_per pl) s_redo; let '(rt3, eredo) := l2 in
  do l3 <- d_dump pm pl rt3 (p_rnd pl) (p_per pl) s_down; let '(rt4, edown) := l3 in
  let bv := ABroadcastVotes (elate ++ eredo ++ edown) in
  do r2 <- d_staged pm pl rt4 (p_rnd pl) (p_per pl);
  let '(rt5, (sv, committable)) := r2 in
  do r3 <- (if committable then Ok (rt5, (s_late, sv))
            else do r4 <- d_next_status pm pl rt5 (p_rnd pl) (sub1 (p_per pl));
                 let '(rt6, ns) := r4 in
                 Ok (rt6, if negb (vp_bottom ns) then (s_redo, vp_val ns) else (s_down, bottom)));
  let '(rt7, (s, prop)) := r3 in
  let s' := if is_bottom prop then s_down else s in
  Ok (rt7, acts ++ [bv; AAttest (p_rnd pl) (p_per pl) s' prop]).

(* updateCredentialArrivalHistory: only the routing side effects are in the model *)
Definition update_cred_history (pm : params) (pl : player) (rt : router) : res router :=
  if negb (p_per pl =? 0) then Ok rt
  else if p_rnd pl <=? pm_crlag pm then Ok rt
  else d_read_lowest pm pl rt (p_rnd pl - pm_crlag pm).

(* events handled by player.handle *)
Inductive pevent :=
| PMsg (m : mevent)
| PThresh (th : thresh)
| PTimeout (fast : bool) (entropy : N) (proto_bad : bool)
| PRoundInt (r : N)
| PCheckpoint (r p s : N) (err : bool).

Definition hres := res (player * router * list action).

(* enterPeriod *)
Definition enter_period (pm : params) (pl : player) (rt : router) (src : thresh) (target : N) : hres :=
  do r <- partition_policy pm pl rt;
  let '(rt1, acts) := r in
  do r2 <- pm_threshold pm pl rt1 (p_rnd pl) src;
  let '(rt2, out) := r2 in
  let pl' := mkPlayer (p_rnd pl) target s_soft (p_step pl) (filter_timeout pm target) dl_filter false 0
                      (p_pending pl) (p_pnext pl) in
  let acts1 := acts ++ [ARezero (p_rnd pl')] in
  match out with
  | Some (THCommittable prop _) => Ok (pl', rt2, acts1 ++ [AAttest (p_rnd pl') (p_per pl') s_cert prop])
  | _ =>
      match th_t src with
      | TNext =>
          if is_bottom (th_val src) then Ok (pl', rt2, acts1 ++ [AAssemble (p_rnd pl') (p_per pl')])
          else Ok (pl', rt2, acts1 ++ [ARepropose (p_rnd pl') (p_per pl') (th_val src)])
      | _ => Ok (pl', rt2, acts1)
      end
  end.

Section Handle.
  Variable pm : params.
  (* recursive call of player.handle *)
  Variable rec : player -> router -> pevent -> hres.

  (* enterRound; [src_interrupt] = source is a roundInterruptionEvent (always: every source sets
     the filter deadline in the same way) *)
  Definition enter_round (pl : player) (rt : router) (target : N) : hres :=
    do r <- pm_new_round pm pl rt target;
    let '(rt1, e) := r in
    let pl' := mkPlayer target 0 s_soft (p_step pl) (filter_timeout pm 0) dl_filter false 0
                        (p_pending pl) (p_pnext pl) in
    let acts := [ARezero target; AAssemble target 0] in
    let acts1 := match e with
                 | PLPipelined _ per pinned prop _ => acts ++ [AVerifyPayload prop target per pinned]
                 | _ => acts
                 end in
    do r2 <- d_freshest pm pl' rt1 target;
    let '(rt2, fr) := r2 in
    match fr with
    | Some th =>
        do r3 <- rec pl' rt2 (PThresh th);
        let '(pl2, rt3, a4) := r3 in Ok (pl2, rt3, acts1 ++ a4)
    | None => Ok (pl', rt2, acts1)
    end.

  (* handleThresholdEvent *)
  Definition handle_threshold (pl : player) (rt : router) (th : thresh) : hres :=
    match th_t th with
    | TCert =>
        do r <- pm_threshold pm pl rt 0 th;
        let '(rt1, _) := r in
        do r2 <- d_staged pm pl rt1 (th_rnd th) (th_per th);
        let '(rt2, (sv, committable)) := r2 in
        if committable then
          do rt3 <- update_cred_history pm pl rt2;
          do r3 <- enter_round pl rt3 (add1 (p_rnd pl));
          let '(pl2, rt4, as_) := r3 in Ok (pl2, rt4, AEnsure sv (th_b th) :: as_)
        else
          if p_per pl <? th_per th then
            do r3 <- enter_period pm pl rt2 th (th_per th);
            let '(pl2, rt3, as_) := r3 in Ok (pl2, rt3, AStageDigest (th_b th) :: as_)
          else Ok (pl, rt2, [AStageDigest (th_b th)])
    | TSoft =>
        if th_per th <? p_per pl then Ok (pl, rt, [])
        else if p_per pl <? th_per th then enter_period pm pl rt th (th_per th)
        else
          do r <- pm_threshold pm pl rt (p_rnd pl) th;
          let '(rt1, out) := r in
          match out with
          | Some (THCommittable prop _) =>
              if p_step pl <=? s_cert then Ok (pl, rt1, [AAttest (p_rnd pl) (p_per pl) s_cert prop])
              else Ok (pl, rt1, [])
          | _ => Ok (pl, rt1, [])
          end
    | TNext =>
        if th_per th <? p_per pl then Ok (pl, rt, [])
        else enter_period pm pl rt th (add1 (th_per th))
    end.

  Definition tail_event (t : value * mmeta) : mevent := mkME false (InPayload (fst t)) (snd t) None.

  (* handleMessageEvent, proposal-vote (step 0) part.  The deferred function pops / takes the tail
     and handles it unless doneProcessing was cleared. *)
  Definition handle_proposal_vote (pl : player) (rt : router) (m : mevent) (x : vote) : hres :=
    do r <- pm_vote pm pl rt m x;
    let '(rt1, ef) := r in
    (* body: (player, actions, doneProcessing) *)
    do body <-
      (let verify_branch :=
         (* e.t() == votePresent: push the tail, verifyVoteAction *)
         let seq := w64 (p_pnext pl + 1) in
         let pl1 := set_pending pl (aset N.eqb seq (me_tail m) (p_pending pl)) seq in
         Ok (pl1, [AVerifyVote x (vt_rnd x) (vt_per x) seq], false) in
       let accept_branch (payload_ok : bool) (prop : value) :=
         if payload_ok then Ok (pl, [ABroadcastCompound prop (Some x)], true)
         else Ok (pl, [ARelayVote x], true) in
       let fallthrough :=
         if negb (me_verified m) then verify_branch
         else match ef with
              | PVAccepted prop ok => accept_branch ok prop
              | _ => Panic "player_bad_cast"       (* ef.(proposalAcceptedEvent) fails *)
              end in
       match ef with
       | PVMalformed => Ok (pl, [ADisconnect], true)
       | PVFiltered note =>
           if negb (pm_dynfilter pm) then Ok (pl, [AIgnore], true)
           else if note =? note_better then Ok (pl, [ARelayVote x], true)
           else if note =? note_none then Ok (pl, [AIgnore], true)
           else fallthrough
       | _ => fallthrough
       end);
    let '(pl1, acts, done) := body in
    (* deferred *)
    let '(pl2, tail) :=
      if me_verified m then
        let task := mm_task (me_meta m) in
        let t := match aget N.eqb task (p_pending pl1) with Some t => t | None => None end in
        (set_pending pl1 (adel N.eqb task (p_pending pl1)) (p_pnext pl1), t)
      else (pl1, me_tail m) in
    match tail with
    | Some t =>
        if done then
          do r2 <- rec pl2 rt1 (PMsg (tail_event t));
          let '(pl3, rt2, suffix) := r2 in Ok (pl3, rt2, acts ++ suffix)
        else Ok (pl2, rt1, acts)
    | None => Ok (pl2, rt1, acts)
    end.

  Definition handle_message (pl : player) (rt : router) (m : mevent) : hres :=
    match me_in m with
    | InVote x =>
        if vt_step x =? s_propose then handle_proposal_vote pl rt m x
        else
          do r <- va_handle pm pl rt m;
          let '(rt1, ef) := r in
          match ef with
          | VAMalformed => Ok (pl, rt1, [ADisconnect])
          | VAFiltered => Ok (pl, rt1, [AIgnore])
          | _ =>
              if negb (me_verified m) then Ok (pl, rt1, [AVerifyVote x (vt_rnd x) (vt_per x) 0])
              else
                match ef with
                | VAThreshold th =>
                    do r2 <- rec pl rt1 (PThresh th);
                    let '(pl2, rt2, a1) := r2 in Ok (pl2, rt2, ARelayVote x :: a1)
                | _ => Ok (pl, rt1, [ARelayVote x])       (* p.handle(r, emptyEvent) = nil *)
                end
          end
    | InBundle b =>
        do r <- va_handle pm pl rt m;
        let '(rt1, ef) := r in
        match ef with
        | VAMalformed => Ok (pl, rt1, [ADisconnect])
        | VAFiltered => Ok (pl, rt1, [AIgnore])
        | _ =>
            if negb (me_verified m) then Ok (pl, rt1, [AVerifyBundle b (ub_rnd b) (ub_per b) (ub_step b)])
            else
              match ef with
              | VAThreshold th =>
                  do r2 <- rec pl rt1 (PThresh th);
                  let '(pl2, rt2, a1) := r2 in Ok (pl2, rt2, ARelayBundle (th_b th) :: a1)
              | _ => Panic "player_bad_cast"               (* ef.(thresholdEvent) on emptyEvent *)
              end
        end
    | InPayload pv =>
        do r <- pm_payload pm pl rt m pv;
        let '(rt1, ef) := r in
        match ef with
        | PLMalformed => Ok (pl, rt1, [AIgnore])
        | PLRejected => Ok (pl, rt1, [AIgnore])
        | _ =>
            let hnil := mm_hnil (me_meta m) in
            (* payloadPipelined for the current round returns early *)
            let early := match ef with
                         | PLPipelined rnd per pinned _ auth =>
                             if rnd =? p_rnd pl
                             then Some [AVerifyPayload pv rnd per pinned; ARelayCompound pv auth]
                             else None
                         | _ => None
                         end in
            match early with
            | Some acts => Ok (pl, rt1, acts)
            | None =>
                let acts0 := match ef with
                             | PLPipelined _ _ _ _ auth => [ARelayCompound pv auth]
                             | _ => []
                             end in
                let uv := match ef with
                          | PLPipelined _ _ _ _ auth => auth
                          | PLAccepted _ auth => auth
                          | PLCommittable _ auth => auth
                          | _ => None
                          end in
                let acts1 := if hnil then acts0 ++ [ARelayCompound pv uv] else acts0 in
                let accepted := match ef with PLAccepted _ _ | PLCommittable _ _ => true | _ => false end in
                do r2 <- (if accepted then d_freshest pm pl rt1 (p_rnd pl) else Ok (rt1, None));
                let '(rt2, fr) := r2 in
                let ensure := match fr with
                              | Some th => if tkind_eqb (th_t th) TCert && value_eqb (th_val th) pv
                                           then Some th else None
                              | None => None
                              end in
                match ensure with
                | Some th =>
                    do rt3 <- update_cred_history pm pl rt2;
                    do r3 <- enter_round pl rt3 (add1 (ub_rnd (th_b th)));
                    let '(pl2, rt4, as_) := r3 in Ok (pl2, rt4, acts1 ++ AEnsure pv (th_b th) :: as_)
                | None =>
                    match ef with
                    | PLCommittable prop _ =>
                        if p_step pl <=? s_cert
                        then Ok (pl, rt2, acts1 ++ [AAttest (p_rnd pl) (p_per pl) s_cert prop])
                        else Ok (pl, rt2, acts1)
                    | _ => Ok (pl, rt2, acts1)
                    end
                end
            end
        end
    end.

  Definition handle_fast_timeout (pl : player) (rt : router) (entropy : N) (proto_err : bool) : hres :=
    let lambda := pm_frlambda pm in
    if proto_err then Ok (pl, rt, [])
    else if lambda =? 0 then Panic "player_div_zero"
    else
      let k := (p_frd pl + lambda - 1) / lambda in
      let lower := k * lambda in
      let delta := entropy mod lambda in          (* upper - lower = lambda *)
      if p_frd pl =? 0 then Ok (set_frd pl (lower + delta + lambda), rt, [])
      else
        let pl1 := set_frd pl (lower + delta) in
        do r <- issue_fast_vote pm pl1 rt;
        let '(rt1, acts) := r in Ok (pl1, rt1, acts).

  Definition handle_timeout (pl : player) (rt : router) (entropy : N) (proto_bad : bool) : hres :=
    let deadline := if proto_bad then pm_deadline pm else deadline_timeout pm (p_per pl) in
    if p_step pl =? s_soft then
      do r <- issue_soft_vote pm pl rt deadline;
      let '(pl1, rt1, acts) := r in Ok (set_step pl1 s_cert, rt1, acts)
    else if p_step pl =? s_cert then
      issue_next_vote pm (set_step pl s_next) rt deadline
    else if p_nap pl then issue_next_vote pm pl rt deadline
    else
      let pl1 := set_step pl (w64 (p_step pl + 1)) in
      let '(lower, upper) := next_vote_ranges pm (p_step pl1) deadline in
      if upper - lower =? 0 then Panic "player_div_zero"
      else
        let delta := entropy mod (upper - lower) in
        Ok (set_deadline (set_nap pl1 true) (lower + delta) dl_deadline, rt, []).

  Definition handle_body (pl : player) (rt : router) (e : pevent) : hres :=
    match e with
    | PMsg m => handle_message pl rt m
    | PThresh th => handle_threshold pl rt th
    | PTimeout true entropy bad => handle_fast_timeout pl rt entropy bad
    | PTimeout false entropy bad => handle_timeout pl rt entropy bad
    | PRoundInt r => enter_round pl rt r
    | PCheckpoint r p s err => Ok (pl, rt, [ACheckpoint r p s err])
    end.
End Handle.

Fixpoint p_handle (fuel : nat) (pm : params) (pl : player) (rt : router) (e : pevent) : hres :=
  match fuel with
  | O => OutOfFuel
  | S f => handle_body pm (p_handle f pm) pl rt e
  end.

Definition default_fuel : nat := 12.

Definition pevent_of (e : ext_event) : pevent :=
  match e with
  | EvMsg m => PMsg m
  | EvTimeout fast en bad => PTimeout fast en bad
  | EvRoundInterruption r => PRoundInt r
  | EvCheckpoint r p s err => PCheckpoint r p s err
  end.

(* service.mainLoop fresh round: player{Round, Step: soft, Deadline: FilterTimeout(0)}, makeRootRouter *)
Definition init (pm : params) (r : N) : state :=
  mkState (mkPlayer r 0 s_soft 0 (filter_timeout pm 0) dl_filter false 0 [] 0) [].

(* rootRouter.submitTop *)
Definition step (pm : params) (st : state) (e : ext_event) : res (state * list action) :=
  let rt := root_update pm (s_pl st) 0 (s_rt st) in
  do r <- p_handle default_fuel pm (s_pl st) rt (pevent_of e);
  let '(pl, rt', acts) := r in Ok (mkState pl rt', acts).

(* a whole script: per event the actions and the state after it; stops at the first panic *)
Inductive outcome := Finished | Panicked (tag : string) | Exhausted.
Fixpoint run (pm : params) (st : state) (es : list ext_event) : list (list action * state) * outcome :=
  match es with
  | [] => ([], Finished)
  | e :: es' =>
      match step pm st e with
      | Ok (st', acts) => let '(l, o) := run pm st' es' in ((acts, st') :: l, o)
      | Panic t => ([], Panicked t)
      | OutOfFuel => ([], Exhausted)
      end
  end.
